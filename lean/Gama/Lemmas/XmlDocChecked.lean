/-
  C12 — from a shape-equivalent generated document to the CHECKED document itself (round 8, gap #6a of
  notes/CLAUSES.md audit #3).

  `shape` (Model/XmlDoc.lean) forgets operand bytes, attribute values, comment text and white-space-only character
  data.  The grammar machine `run` looks at none of the first three; white-space-only character data is a no-op in
  every state except the very first one (`Phase.start`, where it moves to `prolog` and thereby forbids the XML
  declaration).  So the nesting half of `WellFormedDoc` transfers between two token lists of the same shape as soon
  as the target does not BEGIN with white space (`noLeadingBlank`); the lexical half is asked of the target's own
  tokens.

    `runR`            the grammar machine on shapes (`RTok`)
    `run_eq_runR`     from a state that is not `start`: `run s u = runR s (shape u)`
    `runR_prolog`     a complete run from `⟨prolog, []⟩` is also a complete run from `St.init`
    `wellFormed_runR` `WellFormedDoc t' → ∃ sf, runR St.init (shape t') = some sf ∧ sf.done`
    `run_of_runR`     `noLeadingBlank toks → runR St.init (shape toks) = some sf → sf.done → run St.init toks = some sf`
    `wellFormed_transfer`  the statement of the gap table
  Core Lean only.
-/
import Gama.Lemmas.XmlDoc
namespace Gama.XmlDoc
open Gama.XmlEsc Gama.Gen.XmlSites

/-- the grammar step on the shape of a token: character data that reaches the shape is not white space only -/
def stepR (s : St) : RTok → Option St
  | .decl => step s .decl
  | .stag n _ e => step s (.stag n e)
  | .etag n => step s (.etag n)
  | .comment => step s .comment
  | .chars _ => step s (.chars false none)

def runR : St → List RTok → Option St
  | s, [] => some s
  | s, r :: rs => match stepR s r with
    | some s' => runR s' rs
    | none => none

/-- the document does not begin with white-space-only character data (a real document begins with `<?xml`; the
    plugin's tokeniser `doc_tokens` would report such a token first) -/
def noLeadingBlank : List Tok → Bool
  | .chars b :: _ => !isBlank b
  | _ => true

theorem stepTok_of_rshape {t : Tok} {r : RTok} (h : rshape t = some r) (s : St) : stepTok s t = stepR s r := by
  cases t with
  | decl => cases h; rfl
  | stag n as e => cases h; rfl
  | etag n => cases h; rfl
  | comment c => cases h; rfl
  | chars b =>
    simp only [rshape] at h
    split at h
    · cases h
    · rename_i hb
      cases h
      have : isBlank b = false := by simpa using hb
      simp only [stepTok, stepR, this]

/-- white-space-only character data changes nothing once anything has been written -/
theorem stepTok_blank {s : St} (hs : s.phase ≠ .start) {b : Bytes} (hb : isBlank b = true) :
    stepTok s (.chars b) = some s := by
  obtain ⟨ph, stk⟩ := s
  cases stk with
  | nil => simp only [stepTok, step, hb, St.started]; simp_all
  | cons top rest => simp [stepTok, step]

/-- a successful step never returns to `start` (from a state that is not `start`, or from the initial state) -/
theorem step_ns {s s' : St} {sh : Shape} (hs : s.phase ≠ .start ∨ s.stack = []) (h : step s sh = some s') :
    s'.phase ≠ .start := by
  obtain ⟨ph, stk⟩ := s
  cases sh with
  | decl =>
    simp only [step] at h
    split at h
    · cases h; simp
    · cases h
  | comment =>
    simp only [step, St.started, Option.some.injEq] at h
    subst h
    split
    · simp
    · assumption
  | chars blank parent =>
    cases stk with
    | nil =>
      simp only [step] at h
      split at h
      · simp only [St.started, Option.some.injEq] at h
        subst h
        split
        · simp
        · assumption
      · cases h
    | cons top rest =>
      simp only [step] at h
      split at h
      · cases h
        rcases hs with hs | hs
        · exact hs
        · cases hs
      · cases h
  | stag n e =>
    cases ph <;> cases stk <;> cases e <;> simp [step] at h <;> subst h <;> simp
  | etag n =>
    cases ph <;> cases stk <;> simp [step] at h
    rename_i top rest
    obtain ⟨rfl, h⟩ := h
    cases rest <;> simp at h <;> subst h <;> simp

theorem stepR_ns {s s' : St} {r : RTok} (hs : s.phase ≠ .start ∨ s.stack = []) (h : stepR s r = some s') :
    s'.phase ≠ .start := by
  cases r <;> exact step_ns (sh := _) hs (by simpa only [stepR] using h)

/-- from a state that is not `start` the machine sees a token list only through its shape -/
theorem run_eq_runR : ∀ (u : List Tok) (s : St), s.phase ≠ .start → run s u = runR s (shape u) := by
  intro u
  induction u with
  | nil => intro s _; rfl
  | cons t u ih =>
    intro s hs
    cases hr : rshape t with
    | none =>
      have hb : ∃ b, t = .chars b ∧ isBlank b = true := by
        cases t with
        | chars b =>
          simp only [rshape] at hr
          split at hr
          · rename_i hb; exact ⟨b, rfl, hb⟩
          · cases hr
        | _ => cases hr
      obtain ⟨b, rfl, hb⟩ := hb
      have e : shape (Tok.chars b :: u) = shape u := by simp [shape, hr]
      rw [e]
      simp only [run, stepTok_blank hs hb]
      exact ih s hs
    | some r =>
      have e : shape (t :: u) = r :: shape u := by simp [shape, hr]
      rw [e]
      simp only [run, runR, stepTok_of_rshape hr s]
      cases hst : stepR s r with
      | none => rfl
      | some s1 => exact ih s1 (stepR_ns (.inl hs) hst)

/-- a complete run from `⟨prolog, []⟩` (the state after leading white space) is a complete run from the initial state -/
theorem runR_prolog {l : List RTok} {sf : St} (h : runR ⟨.prolog, []⟩ l = some sf) (hd : sf.done = true) :
    runR St.init l = some sf := by
  cases l with
  | nil => simp only [runR, Option.some.injEq] at h; subst h; simp [St.done] at hd
  | cons r l =>
    simp only [runR] at h ⊢
    cases r with
    | decl => simp [stepR, step] at h
    | stag n as e => exact h
    | etag n => simp [stepR, step] at h
    | comment => exact h
    | chars b => simp [stepR, step] at h

theorem wellFormed_runR {t' : List Tok} (h : WellFormedDoc t') :
    ∃ sf, runR St.init (shape t') = some sf ∧ sf.done = true := by
  obtain ⟨⟨sf, hr, hd⟩, _⟩ := h
  refine ⟨sf, ?_, hd⟩
  cases t' with
  | nil => simp only [run, Option.some.injEq] at hr; subst hr; simp [St.done, St.init] at hd
  | cons t u =>
    cases hs : rshape t with
    | none =>
      have hb : ∃ b, t = .chars b ∧ isBlank b = true := by
        cases t with
        | chars b =>
          simp only [rshape] at hs
          split at hs
          · rename_i hb; exact ⟨b, rfl, hb⟩
          · cases hs
        | _ => cases hs
      obtain ⟨b, rfl, hb⟩ := hb
      have e : shape (Tok.chars b :: u) = shape u := by simp [shape, hs]
      rw [e]
      have h1 : stepTok St.init (.chars b) = some ⟨.prolog, []⟩ := by simp [stepTok, step, hb, St.init, St.started]
      simp only [run, h1] at hr
      rw [run_eq_runR u _ (by simp)] at hr
      exact runR_prolog hr hd
    | some r =>
      have e : shape (t :: u) = r :: shape u := by simp [shape, hs]
      rw [e]
      simp only [run, stepTok_of_rshape hs] at hr
      simp only [runR]
      cases hst : stepR St.init r with
      | none => simp [hst] at hr
      | some s1 =>
        simp only [hst] at hr
        rw [run_eq_runR u s1 (stepR_ns (.inr rfl) hst)] at hr
        exact hr

theorem run_of_runR {toks : List Tok} (hn : noLeadingBlank toks = true) {sf : St}
    (h : runR St.init (shape toks) = some sf) (hd : sf.done = true) : run St.init toks = some sf := by
  cases toks with
  | nil => simp only [shape, List.filterMap_nil, runR, Option.some.injEq] at h; subst h; simp [St.done, St.init] at hd
  | cons t u =>
    have hr : ∃ r, rshape t = some r := by
      cases t with
      | chars b =>
        have : isBlank b = false := by simpa [noLeadingBlank] using hn
        exact ⟨.chars false, by simp [rshape, this]⟩
      | decl => exact ⟨_, rfl⟩
      | stag n as e => exact ⟨_, rfl⟩
      | etag n => exact ⟨_, rfl⟩
      | comment c => exact ⟨_, rfl⟩
    obtain ⟨r, hr⟩ := hr
    have e : shape (t :: u) = r :: shape u := by simp [shape, hr]
    rw [e] at h
    simp only [runR] at h
    simp only [run, stepTok_of_rshape hr]
    cases hst : stepR St.init r with
    | none => simp [hst] at h
    | some s1 =>
      simp only [hst] at h ⊢
      rw [run_eq_runR u s1 (stepR_ns (.inr rfl) hst)]
      exact h

/-- **transfer of well-formedness along `shape`** (the statement of gap #6 of audit #3): a token list that has the
    shape of a well-formed document, whose own tokens are lexically well-formed and which does not begin with
    white space, is a well-formed document -/
theorem wellFormed_transfer {t' toks : List Tok} (hs : shape t' = shape toks) (hw : WellFormedDoc t')
    (hl : ∀ t ∈ toks, lexOK t = true) (hn : noLeadingBlank toks = true) : WellFormedDoc toks := by
  obtain ⟨sf, hr, hd⟩ := wellFormed_runR hw
  rw [hs] at hr
  exact ⟨⟨sf, run_of_runR hn hr hd, hd⟩, hl⟩

/-- the hypothesis `noLeadingBlank` cannot be dropped: `[" ", <?xml?>, <r/>]` has the shape of the well-formed
    `[<?xml?>, <r/>]`, all its tokens are lexically fine, and it is not a well-formed document -/
theorem transfer_needs_noLeadingBlank :
    shape [Tok.decl, .stag "r" [] true] = shape [Tok.chars [32], .decl, .stag "r" [] true] ∧
    run St.init [Tok.decl, .stag "r" [] true] = some ⟨.epilog, []⟩ ∧
    run St.init [Tok.chars [32], .decl, .stag "r" [] true] = none := by decide

end Gama.XmlDoc
