/-
  C07 — route (b) towards `DegenInv` (round 11): the Gram matrix of the HOMOGENISED design matrix
  `prepareProjectEquations()` leaves is the normal matrix `Aᵀ P A` of the original system (`P = C⁻¹`), and under the
  mirror (`A' = D_s A D_t`, `P' = D_s P D_s`) it becomes `D_t (Aᵀ P A) D_t`.  The sums `aa, ab, bb` that the numeric half
  of `singular_coords` forms over two columns of the homogenised matrix are entries of that Gram matrix.
-/
import Gama.Lemmas.Ls.NetFacade
namespace Gama.C07Gram
open Gama Gama.Ls Gama.Ls.Net Gama.Ls.AdjM Gama.Ls.Env Gama.LS Matrix

variable {K : Type} [Field K] [LinearOrder K] [IsStrictOrderedRing K] [SqrtFn K]
attribute [local instance 2000] scalarOfField

/-- **`A_homᵀ A_hom = Aᵀ P A`**: whatever `prepareProjectEquations()` leaves, its Gram matrix is the normal matrix of the
    original weighted system (`P` the inverse of the cofactor matrix) -/
theorem hom_gram (hsq : IsSqrt (SqrtFn.sq : K → K)) (np : NetProblem K) (hdim : (dimsN np).sum = np.m)
    (h : Hom K) (hp : prepare np = .ok h)
    (P : Matrix (Fin (toProblem np).m) (Fin (toProblem np).m) K) (hP : (toProblem np).C * P = 1) :
    (toMatrix (toProblem np).m (toProblem np).n h.Ad)ᵀ * toMatrix (toProblem np).m (toProblem np).n h.Ad
      = (toMatrix (toProblem np).m (toProblem np).n (denseA np))ᵀ * P *
          toMatrix (toProblem np).m (toProblem np).n (denseA np) := by
  have hdim' : (dimsOf (toProblem np)).sum = (toProblem np).m := by rw [dimsOf_toProblem]; exact hdim
  obtain ⟨hF, _, _⟩ := prepare_ok np h hp
  have hC : Lgen np h.Us * (Lgen np h.Us)ᵀ = (toProblem np).C := by
    rw [← Cadj_eq_C (toProblem np) hdim']; exact Lgen_mul_transpose hsq np hdim h.Us hF
  have hA := (prepare_solve hsq np hdim h hp).1
  set L := Lgen np h.Us
  set Ad := toMatrix (toProblem np).m (toProblem np).n h.Ad
  set A := toMatrix (toProblem np).m (toProblem np).n (denseA np)
  have h1 : L * (Lᵀ * P) = 1 := by rw [← Matrix.mul_assoc, hC, hP]
  have h2 : (Lᵀ * P) * L = 1 := mul_eq_one_comm.1 h1
  have hAd : Ad = (Lᵀ * P) * A := by rw [← hA, ← Matrix.mul_assoc, h2, Matrix.one_mul]
  have hCt : ((toProblem np).C)ᵀ = (toProblem np).C := by rw [← hC, transpose_mul, transpose_transpose]
  have hPC : P * (toProblem np).C = 1 := mul_eq_one_comm.1 hP
  have hPt : Pᵀ = P := by
    have e : Pᵀ * (toProblem np).C = 1 := by
      have := congrArg transpose hP
      rwa [transpose_mul, hCt, transpose_one] at this
    calc Pᵀ = Pᵀ * ((toProblem np).C * P) := by rw [hP, Matrix.mul_one]
      _ = (Pᵀ * (toProblem np).C) * P := by rw [Matrix.mul_assoc]
      _ = P := by rw [e, Matrix.one_mul]
  rw [hAd, transpose_mul, transpose_mul, transpose_transpose, hPt]
  calc Aᵀ * (P * L) * (Lᵀ * P * A) = Aᵀ * (P * (L * Lᵀ) * P) * A := by simp only [Matrix.mul_assoc]
    _ = Aᵀ * P * A := by rw [hC, hPC, Matrix.one_mul]

/-- **the normal matrix of the mirrored system** (any index types): `A' = D_s A D_t`, `P' = D_s P D_s`, `s² = 1` ⇒
    `A'ᵀ P' A' = D_t (Aᵀ P A) D_t`: entry `(x, y)` changes by `t_x t_y`; the diagonal (`aa`, `bb`) is unchanged and an
    off-diagonal entry (`ab`) changes its sign at most -/
theorem normal_mirror {m n : Type} [Fintype m] [Fintype n] [DecidableEq m] [DecidableEq n]
    (A : Matrix m n K) (P : Matrix m m K) (s : m → K) (t : n → K) (hs : ∀ i, s i * s i = 1) (x y : n) :
    ((diagonal s * A * diagonal t)ᵀ * (diagonal s * P * diagonal s) * (diagonal s * A * diagonal t)) x y
      = t x * (Aᵀ * P * A) x y * t y := by
  have hss : diagonal s * diagonal s = (1 : Matrix m m K) := by
    rw [diagonal_mul_diagonal]; simp [hs]
  have e : (diagonal s * A * diagonal t)ᵀ * (diagonal s * P * diagonal s) * (diagonal s * A * diagonal t)
      = diagonal t * (Aᵀ * P * A) * diagonal t := by
    rw [transpose_mul, transpose_mul, diagonal_transpose, diagonal_transpose]
    calc diagonal t * (Aᵀ * diagonal s) * (diagonal s * P * diagonal s) * (diagonal s * A * diagonal t)
        = diagonal t * (Aᵀ * ((diagonal s * diagonal s) * P * (diagonal s * diagonal s)) * A) * diagonal t := by
          simp only [Matrix.mul_assoc]
      _ = diagonal t * (Aᵀ * P * A) * diagonal t := by rw [hss, Matrix.one_mul, Matrix.mul_one]
  rw [e, mul_diagonal, diagonal_mul]

end Gama.C07Gram
