/-
  C13 — the re-adjustment of an export, with the real loop (`RA.refineAdjustment` over the regenerated tests) and ANY
  environment `E : RA.Env ℝ` (in particular `Rerun.peEnv`: `project_equations()` + the solver).

  The argument: the three tests of one turn read the state `(σ, xyz, obs)` only (the adjustment is a function of the
  state: `Env.adjust`); the turn in which none asked left the state `s'` with `s'.obs = obs.map (stored σ xyz)`; a state
  with the same coordinates and the same observations whose reductions were stored by `refine_obsdh_reductions(IS)` IS
  `s'` (storing overwrites whatever was stored: 281bcf7), so the same three tests answer "no" again.
-/
import Gama.Lemmas.C06Refine
import Gama.Model.ExportRerun
namespace Gama.Rerun
open Gama Gama.Lin Gama.RA Gama.Gen.Obsdh Gama.C06RA Gama.TL

/-- no test of a turn asks at the state `s`: the adjustment exists, `TestLinearization` answers "no" (every positional
    misclosure below the bound), `refine_obsdh_reductions(this, true)` answers "no" -/
def StopsAt (E : Env ℝ) (s : St ℝ) : Prop :=
  ∃ a, E.adjust s.σ s.xyz s.obs = some a ∧
    testLinearization s.σ E.fuel a.idx a.x a.v a.robs = some false ∧
    (refineObsdh true s.σ s.xyz a.idx a.x s.obs).2.1 = false

/-- a turn in which no test asked: the reductions were stored, nothing else changed, and `StopsAt` holds of the result -/
theorem runTests_false_inv (E : Env ℝ) (s s' : St ℝ) (h : runTests E refineTests s = some (s', false)) :
    s' = { s with obs := s.obs.map (stored s.σ s.xyz) } ∧ StopsAt E s' := by
  simp only [refineTests, runTests, runTest] at h
  rw [obsdh_false_eq] at h
  cases hb : (refineObsdh false s.σ s.xyz IdxState.init [] s.obs).2.1 with
  | true => rw [hb] at h; simp at h
  | false =>
    rw [hb] at h
    simp only [] at h
    cases ha : E.adjust s.σ s.xyz (s.obs.map (stored s.σ s.xyz)) with
    | none => rw [ha] at h; simp at h
    | some a =>
      rw [ha] at h
      simp only [] at h
      cases ht : testLinearization s.σ E.fuel a.idx a.x a.v a.robs with
      | none => rw [ht] at h; simp at h
      | some b =>
        rw [ht] at h
        cases b with
        | true => simp at h
        | false =>
          simp only [Option.map_some, ha] at h
          rw [(obsdh_true_obs s.σ s.xyz a.idx a.x (s.obs.map (stored s.σ s.xyz))).1] at h
          cases hc : (refineObsdh true s.σ s.xyz a.idx a.x (s.obs.map (stored s.σ s.xyz))).2.1 with
          | true => rw [hc] at h; simp at h
          | false =>
            rw [hc] at h
            simp only [Option.some.injEq, Prod.mk.injEq, and_true] at h
            subst h
            exact ⟨rfl, a, ha, ht, hc⟩

/-- conversely: at a state whose reductions are the stored ones, `StopsAt` makes the turn answer "no" and change nothing -/
theorem runTests_of_stopsAt (E : Env ℝ) (s : St ℝ) (obs0 : List (DObs ℝ)) (ho : s.obs = obs0.map (stored s.σ s.xyz))
    (h : StopsAt E s) : runTests E refineTests s = some (s, false) := by
  obtain ⟨a, ha, ht, hc⟩ := h
  have h1 : refineObsdh false s.σ s.xyz IdxState.init [] s.obs = (s.obs, false, false) := by
    rw [ho]; exact obsdh_false_idem s.σ s.xyz IdxState.init [] obs0
  simp only [refineTests, runTests, runTest, h1, ha, ht, Option.map_some,
    (obsdh_true_obs s.σ s.xyz a.idx a.x s.obs).1, hc]

/-- a loop left by `break`: its last turn answered "no" -/
theorem loop_break_last (E : Env ℝ) (tests : List Test) : ∀ (n : Nat) (s s' : St ℝ),
    loop E tests n s = some (s', true) → ∃ s0, runTests E tests s0 = some (s', false) := by
  intro n
  induction n with
  | zero => intro s s' h; simp [loop] at h
  | succ n ih =>
    intro s s' h
    simp only [loop] at h
    cases hr : runTests E tests s with
    | none => rw [hr] at h; cases h
    | some r =>
      rcases r with ⟨s1, b⟩
      rw [hr] at h
      cases b
      · simp only [Option.some.injEq, Prod.mk.injEq, and_true] at h
        subst h
        exact ⟨s, hr⟩
      · simp only [] at h
        cases hi : iterate E s1 with
        | none => rw [hi] at h; cases h
        | some s2 => rw [hi] at h; exact ih s2 s' h

/-- `refine_adjustment()` stopped normally ⇒ the state it left has stored reductions and no test asks there -/
theorem stopped_state (E : Env ℝ) (maxIter : Nat) (s s' : St ℝ) (it : Bool)
    (h : refineAdjustment E maxIter s = some (s', true, it)) :
    (∃ obs0 : List (DObs ℝ), s'.obs = obs0.map (stored s'.σ s'.xyz)) ∧ StopsAt E s' := by
  unfold refineAdjustment at h
  cases hl : loop E refineTests maxIter { s with iters := 0 } with
  | none => rw [hl] at h; cases h
  | some r =>
    rw [hl] at h
    simp only [Option.map_some, Option.some.injEq, Prod.mk.injEq] at h
    obtain ⟨h1, h2, _⟩ := h
    have hl' : loop E refineTests maxIter { s with iters := 0 } = some (s', true) := by rw [hl, ← h1, ← h2]
    obtain ⟨s0, hs0⟩ := loop_break_last E _ maxIter _ s' hl'
    obtain ⟨he, hst⟩ := runTests_false_inv E s0 s' hs0
    exact ⟨⟨s0.obs, by rw [he]⟩, hst⟩

theorem stored_of_some (σ : Net ℝ) (xyz : Nat → Bool) (o : DObs ℝ) (rs : ℝ) (h : curRed σ xyz o = some rs) :
    stored σ xyz o = { o with red := rs } := by unfold stored; rw [h]

theorem stored_idem (σ : Net ℝ) (xyz : Nat → Bool) (o : DObs ℝ) : stored σ xyz (stored σ xyz o) = stored σ xyz o := by
  have h := curRed_stored σ xyz o
  cases hc : curRed σ xyz o with
  | none =>
    have : stored σ xyz o = o := by unfold stored; rw [hc]
    rw [this]; exact this
  | some rs =>
    rw [hc] at h
    have h1 : stored σ xyz o = { o with red := rs } := by unfold stored; rw [hc]
    have h2 : stored σ xyz (stored σ xyz o) = { stored σ xyz o with red := rs } := stored_of_some σ xyz _ rs h
    rw [h2, h1]

theorem fresh_red (o : DObs ℝ) : (fresh o) = { o with red := (0 : ℝ) } := rfl

/-- storing into the freshly parsed observation gives what storing into the old one gave — provided an observation no
    branch applies to had no reduction (true of every state reached from parsed observations while `test_xyz()` is kept:
    only `set_reduction_dh` in a branch ever changes the 0 of the constructor) -/
theorem stored_fresh (σ : Net ℝ) (xyz : Nat → Bool) (o : DObs ℝ) (hred : curRed σ xyz o = none → o.red = 0) :
    stored σ xyz (fresh o) = stored σ xyz o := by
  have hc : curRed σ xyz (fresh o) = curRed σ xyz o := curRed_red σ xyz o 0
  cases h : curRed σ xyz o with
  | none =>
    have h0 := hred h
    have e1 : stored σ xyz (fresh o) = fresh o := by unfold stored; rw [hc, h]
    have e2 : stored σ xyz o = o := by unfold stored; rw [h]
    rw [e1, e2, fresh_red]
    cases o; simp_all
  | some rs =>
    have e1 : stored σ xyz (fresh o) = { fresh o with red := rs } := by unfold stored; rw [hc, h]
    have e2 : stored σ xyz o = { o with red := rs } := by unfold stored; rw [h]
    rw [e1, e2]; rfl

/-- gama-local.cpp l.547 on the re-imported observations rebuilds the observations of the exported state -/
theorem start_fresh (σ : Net ℝ) (xyz : Nat → Bool) (obs obs0 : List (DObs ℝ)) (ho : obs = obs0.map (stored σ xyz))
    (hred : ∀ o ∈ obs, curRed σ xyz o = none → o.red = 0) :
    start σ xyz (obs.map fresh) = ⟨σ, xyz, obs, 0⟩ := by
  unfold start
  rw [obsdh_false_eq, List.map_map]
  have : List.map (stored σ xyz ∘ fresh) obs = obs := by
    have hall : ∀ o ∈ obs, (stored σ xyz ∘ fresh) o = o := by
      intro o hm
      show stored σ xyz (fresh o) = o
      rw [stored_fresh σ xyz o (hred o hm)]
      rw [ho] at hm
      obtain ⟨o0, _, rfl⟩ := List.mem_map.1 hm
      exact stored_idem σ xyz o0
    calc List.map (stored σ xyz ∘ fresh) obs = List.map id obs := List.map_congr_left hall
      _ = obs := List.map_id obs
  rw [this]

/-- **zero iterations with the real loop.**  `refine_adjustment()` stopped normally in the state `s'`.  A new run that
    starts from the coordinates of `s'` and the observations of `s'` as the parser builds them (no reduction), after
    gama-local's `refine_obsdh_reductions(IS)`: IS in the state `s'`; its loop is left by `break` in the first turn with
    `linearization_iterations() = 0` and returns `false`; the reported adjustment is the one of the first run -/
theorem rerun_zero (E : Env ℝ) (maxIter : Nat) (s s' : St ℝ) (it : Bool)
    (h : refineAdjustment E maxIter s = some (s', true, it))
    (hred : ∀ o ∈ s'.obs, curRed s'.σ s'.xyz o = none → o.red = 0) (m : Nat) :
    start s'.σ s'.xyz (s'.obs.map fresh) = ⟨s'.σ, s'.xyz, s'.obs, 0⟩ ∧
    runLocal E (m + 1) s'.σ s'.xyz (s'.obs.map fresh) = some (⟨s'.σ, s'.xyz, s'.obs, 0⟩, true, false) ∧
    report E ⟨s'.σ, s'.xyz, s'.obs, 0⟩ = report E s' ∧ StopsAt E ⟨s'.σ, s'.xyz, s'.obs, 0⟩ := by
  obtain ⟨⟨obs0, ho⟩, hst⟩ := stopped_state E maxIter s s' it h
  have hs := start_fresh s'.σ s'.xyz s'.obs obs0 ho hred
  have hst' : StopsAt E ⟨s'.σ, s'.xyz, s'.obs, 0⟩ := hst
  refine ⟨hs, ?_, rfl, hst'⟩
  unfold runLocal
  rw [hs]
  have h1 := runTests_of_stopsAt E ⟨s'.σ, s'.xyz, s'.obs, 0⟩ obs0 ho hst'
  simp only [refineAdjustment, loop, h1, Option.map_some, lt_self_iff_false, decide_false]

/-- … for k rounds: every further export–adjust round is the same run -/
theorem rerun_rounds (E : Env ℝ) (maxIter : Nat) (s s' : St ℝ) (it : Bool)
    (h : refineAdjustment E maxIter s = some (s', true, it))
    (hred : ∀ o ∈ s'.obs, curRed s'.σ s'.xyz o = none → o.red = 0) (m : Nat) :
    ∀ k : Nat, ∃ t : St ℝ, t = ⟨s'.σ, s'.xyz, s'.obs, 0⟩ ∧
      (Nat.iterate (fun r : Option (St ℝ × Bool × Bool) =>
        r.bind fun q => runLocal E (m + 1) q.1.σ q.1.xyz (q.1.obs.map fresh)) (k + 1) (some (s', true, it)))
        = some (t, true, false) := by
  intro k
  refine ⟨_, rfl, ?_⟩
  induction k with
  | zero =>
    rw [Function.iterate_succ_apply', Function.iterate_zero_apply]
    simp only [Option.bind_some]
    exact (rerun_zero E maxIter s s' it h hred m).2.1
  | succ k ih =>
    rw [Function.iterate_succ_apply', ih]
    simp only [Option.bind_some]
    have h2 := (rerun_zero E maxIter s s' it h hred m).2.1
    have h3 : refineAdjustment E (m + 1) (start s'.σ s'.xyz (s'.obs.map fresh)) = some (⟨s'.σ, s'.xyz, s'.obs, 0⟩, true, false) := h2
    exact (rerun_zero E (m + 1) _ ⟨s'.σ, s'.xyz, s'.obs, 0⟩ false h3 hred m).2.1

/-- a round function that maps `n` to `c` and `c` to itself: every number of rounds ≥ 1 gives `c` -/
theorem rounds_stable {N Er : Type} (rt : N → Except Er N) (n c : N) (h1 : rt n = .ok c) (h2 : rt c = .ok c) :
    ∀ k, rounds rt (k + 1) n = .ok c := by
  intro k
  induction k with
  | zero => simp only [rounds, h1]
  | succ k ih =>
    show (match rounds rt (k + 1) n with | .ok m => rt m | .error e => .error e) = .ok c
    rw [ih]; exact h2

/-- the empty network: `project_equations()` and every solver but svd answer (evaluates by `rfl` over ℝ) -/
def emptyFrame : PE.Net ℝ := { points := [], clusters := [], m0 := 1, xNorth := 0, fuel := 0, idx := IdxState.init }

end Gama.Rerun
