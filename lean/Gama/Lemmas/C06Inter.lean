/-
  C06 — soundness of the intersection machinery (Gama/Model/AcordIntersection.lean) over ℝ:
  ApproxPoint::calculation (all pairs, the six intersection classes, selection between two solutions by a
  further observation, median), the loops of ApproximateCoordinates and AcordIntersection::execute.
-/
import Gama.Lemmas.C06Circle
import Gama.Lemmas.C06Acord
import Gama.Model.AcordIntersection
open Gama Gama.Cogo Gama.Median Gama.C06R Gama.C06L Gama.Acord Gama.C06A Gama.Inter

namespace Gama.C06I
open Real
variable {ι : Type} [DecidableEq ι]

/-! ### a fired guard means "no solution" -/

/-- a result whose `small` flag is set has no solutions -/
def Good (r : Res ℝ) : Prop := r.small = true → r.sols = []

theorem good_ite {c : Prop} [Decidable c] {a b : Res ℝ} (ha : Good a) (hb : Good b) : Good (if c then a else b) := by
  split_ifs <;> assumption
theorem good_none : Good (none' : Res ℝ) := fun _ => rfl
theorem good_small : Good (smallAngle : Res ℝ) := fun _ => rfl
theorem good_false (l : List (Pt ℝ)) : Good ⟨l, false⟩ := fun h => by simp at h

theorem distDist_small (B1 B2 : Pt ℝ) (r1 r2 sal : ℝ) : Good (distDist B1 B2 r1 r2 sal) := by
  unfold distDist
  dsimp only
  repeat (first | exact good_none | exact good_small | exact good_false _ | apply good_ite)

theorem dirDirCore_small (B1 : Pt ℝ) (h1 : ℝ) (B2 : Pt ℝ) (h2 sal : ℝ) : Good (dirDirCore B1 h1 B2 h2 sal) := by
  unfold dirDirCore
  dsimp only
  repeat (first | exact good_none | exact good_small | exact good_false _ | apply good_ite)

theorem dirDir_small (B1 : Pt ℝ) (h1 : ℝ) (B2 : Pt ℝ) (h2 sal : ℝ) : Good (dirDir B1 h1 B2 h2 sal) := by
  unfold dirDir
  exact good_ite (dirDirCore_small _ _ _ _ _) (dirDirCore_small _ _ _ _ _)

theorem dirDist_small (B1 : Pt ℝ) (h1 : ℝ) (B2 : Pt ℝ) (r sal : ℝ) : Good (dirDist B1 h1 B2 r sal) := by
  unfold dirDist
  dsimp only
  repeat (first | exact good_none | exact good_small | exact good_false _ | apply good_ite)

theorem dirAngle_small (S : Pt ℝ) (h1 : ℝ) (B1 B2 : Pt ℝ) (u sal : ℝ) : Good (dirAngle S h1 B1 B2 u sal) := by
  unfold dirAngle
  split
  · intro _; rfl
  · intro h
    simp only [keepByAngle, dirDist_small _ _ _ _ _ h, List.filter_nil]

theorem distAngle_small (BB : Pt ℝ) (d : ℝ) (B1 B2 : Pt ℝ) (u sal : ℝ) : Good (distAngle BB d B1 B2 u sal) := by
  unfold distAngle
  split
  · intro _; rfl
  · intro h
    simp only [keepByAngle, distDist_small _ _ _ _ _ h, List.filter_nil]

theorem angleAngle_small (B1 B2 : Pt ℝ) (u1 : ℝ) (B3 B4 : Pt ℝ) (u2 sal : ℝ) :
    Good (angleAngle B1 B2 u1 B3 B4 u2 sal) := by
  unfold angleAngle
  split
  · intro h
    simp only [distDist_small _ _ _ _ _ h, List.filter_nil]
  · intro _; rfl

/-! ### the six intersection classes on exact data: no solution, or the true point among the solutions -/

theorem distDist_same (B1 B2 : Pt ℝ) (r1 r2 sal : ℝ) (h : (B2.x - B1.x) ^ 2 + (B2.y - B1.y) ^ 2 = 0) :
    (distDist B1 B2 r1 r2 sal).sols = [] := by
  have e : Real.sqrt ((B2.y - B1.y) * (B2.y - B1.y) + (B2.x - B1.x) * (B2.x - B1.x)) = 0 := by
    rw [Real.sqrt_eq_zero']; nlinarith
  unfold distDist
  simp only [sub_eq, sqr_eq, add_eq, sqrt_eq, e, zero_eq, beq_eq, if_true, none']

theorem g2d_sq (X B : Pt ℝ) :
    0 ≤ g2dDistance X B ∧ (g2dDistance X B) ^ 2 = (X.x - B.x) ^ 2 + (X.y - B.y) ^ 2 := by
  unfold g2dDistance
  simp only [sub_eq, sqr_eq, add_eq, sqrt_eq]
  refine ⟨Real.sqrt_nonneg _, ?_⟩
  rw [Real.sq_sqrt (by nlinarith [mul_self_nonneg (X.x - B.x), mul_self_nonneg (X.y - B.y)])]; ring

theorem distDist_true (B1 B2 X : Pt ℝ) (sal : ℝ)
    (hne : (distDist B1 B2 (g2dDistance X B1) (g2dDistance X B2) sal).sols ≠ []) :
    X ∈ (distDist B1 B2 (g2dDistance X B1) (g2dDistance X B2) sal).sols := by
  by_cases hz : (B2.x - B1.x) ^ 2 + (B2.y - B1.y) ^ 2 = 0
  · exact absurd (distDist_same B1 B2 _ _ sal hz) hne
  · refine distDist_mem B1 B2 X _ _ sal hz (g2d_sq X B1).1 (g2d_sq X B2).1 (g2d_sq X B1).2 (g2d_sq X B2).2 ?_
    by_contra hs
    exact hne (distDist_small _ _ _ _ _ (by simpa using hs))

/-- the sight from `B` to `X` is longer than the 1e-6 of bearing_distance / Direction_distance -/
def Sight (B X : Pt ℝ) : Prop :=
  1 / 10 ^ 6 < Real.sqrt ((X.y - B.y) * (X.y - B.y) + (X.x - B.x) * (X.x - B.x))

theorem sight_polar (B X : Pt ℝ) (h : Sight B X) :
    X.x = B.x + Real.sqrt ((X.y - B.y) * (X.y - B.y) + (X.x - B.x) * (X.x - B.x)) * Real.cos (bearing B X) ∧
    X.y = B.y + Real.sqrt ((X.y - B.y) * (X.y - B.y) + (X.x - B.x) * (X.x - B.x)) * Real.sin (bearing B X) :=
  bearing_polar B X (not_lt.mpr h.le)

theorem dirDir_true (B1 B2 X : Pt ℝ) (sal : ℝ) (hsal : 0 < sal) (h1 : Sight B1 X) (h2 : Sight B2 X)
    (hne : (dirDir B1 (bearing B1 X) B2 (bearing B2 X) sal).sols ≠ []) :
    X ∈ (dirDir B1 (bearing B1 X) B2 (bearing B2 X) sal).sols := by
  have p1 := sight_polar B1 X h1
  have p2 := sight_polar B2 X h2
  have t1 : (0:ℝ) < Real.sqrt ((X.y - B1.y) * (X.y - B1.y) + (X.x - B1.x) * (X.x - B1.x)) :=
    lt_trans (by norm_num) h1
  have t2 : (0:ℝ) < Real.sqrt ((X.y - B2.y) * (X.y - B2.y) + (X.x - B2.x) * (X.x - B2.x)) :=
    lt_trans (by norm_num) h2
  rw [dirDir_exact B1 B2 X _ _ _ _ sal t1 t2 hsal p1.1 p1.2 p2.1 p2.2 ?_]
  · simp
  · by_contra hs
    exact hne (dirDir_small _ _ _ _ _ (by simpa using hs))

theorem dirDist_nonpos (B1 : Pt ℝ) (h1 : ℝ) (B2 : Pt ℝ) (r sal : ℝ) (h : r ≤ 0) :
    (dirDist B1 h1 B2 r sal).sols = [] := by
  unfold dirDist
  simp only [le_eq, zero_eq, h, if_true, none']

theorem dirDist_true (B1 B2 X : Pt ℝ) (sal : ℝ) (h1 : Sight B1 X)
    (hne : (dirDist B1 (bearing B1 X) B2 (g2dDistance X B2) sal).sols ≠ []) :
    X ∈ (dirDist B1 (bearing B1 X) B2 (g2dDistance X B2) sal).sols := by
  have p1 := sight_polar B1 X h1
  by_cases hr : g2dDistance X B2 ≤ 0
  · exact absurd (dirDist_nonpos _ _ _ _ _ hr) hne
  · refine dirDist_exact B1 B2 X _ _ _ sal h1 (not_le.mp hr) p1.1 p1.2 (g2d_sq X B2).2 ?_
    by_contra hs
    exact hne (dirDist_small _ _ _ _ _ (by simpa using hs))

theorem circle_small_none (B1 B2 : Pt ℝ) (u sal : ℝ) (h : |Real.sin u| < sal) :
    circle B1 B2 u sal = (none, true) := by
  unfold circle
  simp only [sin_eq, abs_eq, lt_eq, h, if_true]

/-- the inner angle at X between B1 and B2 as observed, with the three sights beyond the 1e-6 cut -/
def AngOK (X B1 B2 : Pt ℝ) : Prop := Far X B1 ∧ Far X B2 ∧ Far B1 B2

theorem dirAngle_true (S B1 B2 X : Pt ℝ) (sal : ℝ) (hsal : 0 < sal) (h1 : Sight S X) (ha : AngOK X B1 B2)
    (hne : (dirAngle S (bearing S X) B1 B2 (innerAngle X B1 B2) sal).sols ≠ []) :
    X ∈ (dirAngle S (bearing S X) B1 B2 (innerAngle X B1 B2) sal).sols := by
  have p1 := sight_polar S X h1
  have hsm : ¬ |Real.sin (innerAngle X B1 B2)| < sal := by
    intro h
    apply hne
    unfold dirAngle
    rw [circle_small_none _ _ _ _ h]
  refine dirAngle_exact S B1 B2 X _ _ sal ha.1 ha.2.1 ha.2.2 hsal hsm h1 p1.1 p1.2 ?_
  by_contra hs
  exact hne (dirAngle_small _ _ _ _ _ _ (by simpa using hs))

theorem distAngle_true (BB B1 B2 X : Pt ℝ) (sal : ℝ) (hsal : 0 < sal) (ha : AngOK X B1 B2)
    (hne : (distAngle BB (g2dDistance X BB) B1 B2 (innerAngle X B1 B2) sal).sols ≠ []) :
    X ∈ (distAngle BB (g2dDistance X BB) B1 B2 (innerAngle X B1 B2) sal).sols := by
  have hsm : ¬ |Real.sin (innerAngle X B1 B2)| < sal := by
    intro h
    apply hne
    unfold distAngle
    rw [circle_small_none _ _ _ _ h]
  refine distAngle_exact BB B1 B2 X _ sal ha.1 ha.2.1 ha.2.2 hsal hsm (g2d_sq X BB).1 (g2d_sq X BB).2 ?_ ?_
  · intro C R hc hz
    apply hne
    unfold distAngle
    rw [hc]
    simp only [keepByAngle, distDist_same BB C _ _ sal hz, List.filter_nil]
  · by_contra hs
    exact hne (distAngle_small _ _ _ _ _ _ (by simpa using hs))

theorem angleAngle_true (B1 B2 B3 B4 X : Pt ℝ) (sal : ℝ) (hsal : 0 < sal) (ha : AngOK X B1 B2) (hb : AngOK X B3 B4)
    (hne : (angleAngle B1 B2 (innerAngle X B1 B2) B3 B4 (innerAngle X B3 B4) sal).sols ≠ []) :
    X ∈ (angleAngle B1 B2 (innerAngle X B1 B2) B3 B4 (innerAngle X B3 B4) sal).sols := by
  have hsm1 : ¬ |Real.sin (innerAngle X B1 B2)| < sal := by
    intro h
    apply hne
    unfold angleAngle
    rw [circle_small_none _ _ _ _ h]
  have hsm2 : ¬ |Real.sin (innerAngle X B3 B4)| < sal := by
    intro h
    apply hne
    unfold angleAngle
    rw [circle_small_none B3 B4 _ _ h]
    split
    · simp_all
    · rfl
  refine angleAngle_exact B1 B2 B3 B4 X sal ha.1 ha.2.1 ha.2.2 hb.1 hb.2.1 hb.2.2 hsal hsm1 hsm2 ?_ ?_
  · intro C1 R1 C2 R2 hc1 hc2 hz
    apply hne
    unfold angleAngle
    rw [hc1, hc2]
    simp only [distDist_same C1 C2 _ _ sal hz, List.filter_nil]
  · by_contra hs
    exact hne (angleAngle_small _ _ _ _ _ _ _ (by simpa using hs))

/-! ### ApproxPoint::calculation -/

/-- an arranged observation is exact for the point `X` being computed (known points read from `pd`) -/
def ArrOK (X : Pt ℝ) (pd : PD ι ℝ) : AObs ι ℝ → Prop
  | .dist t v => v = g2dDistance X (ptOf (pd t))
  | .dir f v => v = bearing (ptOf (pd f)) X ∧ Sight (ptOf (pd f)) X
  | .ang bs fs v => v = innerAngle X (ptOf (pd bs)) (ptOf (pd fs)) ∧ AngOK X (ptOf (pd bs)) (ptOf (pd fs))

theorem cogoPair_true (X : Pt ℝ) (pd : PD ι ℝ) (sal : ℝ) (hsal : 0 < sal) (a b : AObs ι ℝ)
    (ha : ArrOK X pd a) (hb : ArrOK X pd b) (hne : (cogoPair pd sal a b).sols ≠ []) :
    X ∈ (cogoPair pd sal a b).sols := by
  cases a <;> cases b <;> simp only [ArrOK] at ha hb <;> simp only [cogoPair] at hne ⊢
  · subst ha hb; exact distDist_true _ _ X sal hne
  · obtain ⟨rfl, h⟩ := hb; subst ha; exact dirDist_true _ _ X sal h hne
  · obtain ⟨rfl, h⟩ := hb; subst ha; exact distAngle_true _ _ _ X sal hsal h hne
  · obtain ⟨rfl, h⟩ := ha; subst hb; exact dirDist_true _ _ X sal h hne
  · obtain ⟨rfl, h⟩ := ha; obtain ⟨rfl, h'⟩ := hb; exact dirDir_true _ _ X sal hsal h h' hne
  · obtain ⟨rfl, h⟩ := ha; obtain ⟨rfl, h'⟩ := hb; exact dirAngle_true _ _ _ X sal hsal h h' hne
  · obtain ⟨rfl, h⟩ := ha; subst hb; exact distAngle_true _ _ _ X sal hsal h hne
  · obtain ⟨rfl, h⟩ := ha; obtain ⟨rfl, h'⟩ := hb; exact dirAngle_true _ _ _ X sal hsal h' h hne
  · obtain ⟨rfl, h⟩ := ha; obtain ⟨rfl, h'⟩ := hb; exact angleAngle_true _ _ _ _ X sal hsal h h' hne

theorem g2d_nonneg (a b : Pt ℝ) : 0 ≤ g2dDistance a b := (g2d_sq a b).1

/-- the deviation of an exact observation at the true point is 0; tolerances are never negative -/
theorem selDelta_true (X : Pt ℝ) (pd : PD ι ℝ) (a : AObs ι ℝ) (ha : ArrOK X pd a) (q : Pt ℝ) :
    (selDelta pd X q a).1 = 0 ∧ (selDelta pd q X a).2.1 = 0 ∧
    0 ≤ (selDelta pd X q a).2.2.1 ∧ 0 ≤ (selDelta pd X q a).2.2.2 ∧
    0 ≤ (selDelta pd q X a).2.2.1 ∧ 0 ≤ (selDelta pd q X a).2.2.2 := by
  cases a <;> simp only [ArrOK] at ha <;> simp only [selDelta, sub_eq, abs_eq, add_eq, div_eq, two_eq, one_eq]
  · subst ha; simp
  · obtain ⟨rfl, _⟩ := ha
    simp [g2d_nonneg]
  · obtain ⟨rfl, _⟩ := ha
    have := g2d_nonneg
    refine ⟨by simp, by simp, ?_, ?_, ?_, ?_⟩ <;> exact div_nonneg (add_nonneg (this _ _) (this _ _)) (by norm_num)

theorem selDelta_nonneg (pd : PD ι ℝ) (p q : Pt ℝ) (a : AObs ι ℝ) :
    0 ≤ (selDelta pd p q a).1 ∧ 0 ≤ (selDelta pd p q a).2.1 := by
  cases a <;> simp only [selDelta, sub_eq, abs_eq] <;> exact ⟨abs_nonneg _, abs_nonneg _⟩

/-- Select_solution_g2d: if one of the two candidates is the true point and the observations are exact,
    a decision is a decision for the true point -/
theorem selectSol_sound (X : Pt ℝ) (pd : PD ι ℝ) (b1 b2 : Pt ℝ) (hX : b1 = X ∨ b2 = X) :
    ∀ (sm : List (AObs ι ℝ)), (∀ a ∈ sm, ArrOK X pd a) → ∀ p, selectSol pd b1 b2 sm = some p → p = X := by
  intro sm
  induction sm with
  | nil => intro _ p h; simp [selectSol] at h
  | cons a rest ih =>
    intro hsm p h
    have ha := hsm a (List.mem_cons_self)
    have ih' := ih (fun x hx => hsm x (List.mem_cons_of_mem _ hx)) p
    unfold selectSol at h
    simp only [lt_eq, mul_eq, ofNat_eq] at h
    split_ifs at h with c1 c2 c3 c4
    · exact ih' h
    · exact ih' h
    · -- second solution chosen
      rcases hX with rfl | rfl
      · exfalso
        have z := (selDelta_true b1 pd a ha b2).1
        have t := (selDelta_true b1 pd a ha b2).2.2.2.1
        have n := (selDelta_nonneg pd b1 b2 a).2
        rw [z] at c3
        have : 0 ≤ (selDelta pd b1 b2 a).2.1 * (selDelta pd b1 b2 a).2.2.2 := mul_nonneg n t
        simp only [zero_mul] at c3
        have h10 : (0:ℝ) ≤ ((10:ℕ):ℝ) := by norm_num
        nlinarith
      · simpa using h.symm
    · -- first solution chosen
      rcases hX with rfl | rfl
      · simpa using h.symm
      · exfalso
        have z := (selDelta_true b2 pd a ha b1).2.1
        have t := (selDelta_true b2 pd a ha b1).2.2.2.2.1
        have n := (selDelta_nonneg pd b1 b2 a).1
        rw [z] at c4
        simp only [zero_mul, mul_zero] at c4
        have : 0 ≤ (selDelta pd b1 b2 a).1 * (selDelta pd b1 b2 a).2.2.1 := mul_nonneg n t
        linarith
    · exact ih' h

theorem pairStep_sound (X : Pt ℝ) (pd : PD ι ℝ) (sal : ℝ) (hsal : 0 < sal) (sm : List (AObs ι ℝ))
    (hsm : ∀ a ∈ sm, ArrOK X pd a) (solved : List (Pt ℝ)) (hs : ∀ p ∈ solved, p = X) (a b : AObs ι ℝ)
    (ha : ArrOK X pd a) (hb : ArrOK X pd b) : ∀ p ∈ pairStep pd sal sm solved a b, p = X := by
  unfold pairStep
  have hm := cogoPair_true X pd sal hsal a b ha hb
  split
  · rename_i p hp
    rw [hp] at hm
    have : X = p := by simpa using hm (by simp)
    intro q hq
    rcases List.mem_append.mp hq with h | h
    · exact hs q h
    · simp at h; rw [h, this]
  · rename_i p q hp
    rw [hp] at hm
    have hX : p = X ∨ q = X := by
      have := hm (by simp)
      simp at this
      rcases this with h | h
      · exact Or.inl h.symm
      · exact Or.inr h.symm
    split
    · rename_i s hsel
      have := selectSol_sound X pd p q hX sm hsm s hsel
      intro r hr
      rcases List.mem_append.mp hr with h | h
      · exact hs r h
      · simp at h; rw [h, this]
    · exact hs
  · exact hs

theorem pairsFold_sound (X : Pt ℝ) (pd : PD ι ℝ) (sal : ℝ) (hsal : 0 < sal) (sm : List (AObs ι ℝ))
    (hsm : ∀ a ∈ sm, ArrOK X pd a) :
    ∀ (l : List (AObs ι ℝ)), (∀ a ∈ l, ArrOK X pd a) → ∀ solved : List (Pt ℝ), (∀ p ∈ solved, p = X) →
      ∀ p ∈ pairsFold pd sal sm l solved, p = X := by
  intro l
  induction l with
  | nil => intro _ solved hs; simpa [pairsFold] using hs
  | cons a rest ih =>
    intro hl solved hs
    unfold pairsFold
    apply ih (fun x hx => hl x (List.mem_cons_of_mem _ hx))
    have ha := hl a List.mem_cons_self
    have hr : ∀ b ∈ rest, ArrOK X pd b := fun x hx => hl x (List.mem_cons_of_mem _ hx)
    clear ih hl
    induction rest generalizing solved with
    | nil => simpa using hs
    | cons b r ih2 =>
      simp only [List.foldl_cons]
      exact ih2 _ (pairStep_sound X pd sal hsal sm hsm solved hs a b ha (hr b List.mem_cons_self))
        (fun x hx => hr x (List.mem_cons_of_mem _ hx))

theorem statMedian_const (X : Pt ℝ) (l : List (Pt ℝ)) (hne : l ≠ []) (h : ∀ p ∈ l, p = X) : statMedian l = X := by
  unfold statMedian
  split
  · rename_i p
    exact h p (by simp)
  · have hx : median (l.map (·.x)) = X.x :=
      median_const _ _ (by simpa using hne) (by
        intro v hv; obtain ⟨p, hp, rfl⟩ := List.mem_map.mp hv; rw [h p hp])
    have hy : median (l.map (·.y)) = X.y :=
      median_const _ _ (by simpa using hne) (by
        intro v hv; obtain ⟨p, hp, rfl⟩ := List.mem_map.mp hv; rw [h p hp])
    rw [hx, hy]

/-- ApproxPoint::calculation on exact arranged observations: a unique solution is the true point -/
theorem apCalc_sound (X : Pt ℝ) (pd : PD ι ℝ) (sal : ℝ) (hsal : 0 < sal) (sm : List (AObs ι ℝ))
    (hsm : ∀ a ∈ sm, ArrOK X pd a) (p : Pt ℝ) (h : apCalc pd sal sm = some p) : p = X := by
  unfold apCalc at h
  have hall := pairsFold_sound X pd sal hsal sm hsm sm hsm [] (by simp)
  split at h
  · simp at h
  · rename_i l hl
    simp only [Option.some.injEq] at h
    rw [← h]
    exact statMedian_const X _ (by intro e; exact hl e) hall

/-! ### the loops of ApproximateCoordinates and AcordIntersection::execute -/

/-- what ApproxPoint::reset (Orientation::add_all, selection, makeBearing / makeAngle, ArrangeObservations) has to
    deliver for the observation list `sm`: with a sound point list and orientations satisfying `I`, the
    orientations it sets keep `I` and every observation it hands to the calculation of `cb` is exact -/
structure ResetOK (T : Truth ι) (fuel : Nat) (sm : List (SMo ι ℝ)) (I : List (Option ℝ) → Prop) : Prop where
  keep : ∀ (pd : PD ι ℝ) (oris : List (Option ℝ)), SoundXY T pd → I oris → I (addAll fuel pd (sm.length + 1) sm oris)
  exact : ∀ (pd : PD ι ℝ) (oris : List (Option ℝ)) (cb : ι), SoundXY T pd → I oris →
    ∀ a ∈ arrange pd oris sm cb, ArrOK ⟨T.x cb, T.y cb⟩ pd a

def Inv (T : Truth ι) (I : List (Option ℝ) → Prop) (st : ACState ι ℝ) : Prop := SoundXY T st.pd ∧ I st.oris

theorem apPoint_sound (T : Truth ι) (fuel : Nat) (sm : List (SMo ι ℝ)) (I : List (Option ℝ) → Prop)
    (hr : ResetOK T fuel sm I) (sal : ℝ) (hsal : 0 < sal) (st : ACState ι ℝ) (hinv : Inv T I st) (cb : ι) :
    I (apPoint fuel st.pd sal sm st.oris cb).2 ∧
    ∀ p, (apPoint fuel st.pd sal sm st.oris cb).1 = some p → p = ⟨T.x cb, T.y cb⟩ := by
  unfold apPoint
  have hk := hr.keep st.pd st.oris hinv.1 hinv.2
  exact ⟨hk, fun p hp => apCalc_sound _ st.pd sal hsal _ (hr.exact st.pd _ cb hinv.1 hk) p hp⟩

theorem soundXY_upd (T : Truth ι) (pd : PD ι ℝ) (hs : SoundXY T pd) (i : ι) :
    SoundXY T (pd.upd i ((pd i).setXY (T.x i) (T.y i))) := by
  intro j hj
  unfold PD.upd at hj ⊢
  by_cases e : j = i
  · subst e; simp [LP.setXY]
  · simp only [e, if_false] at hj ⊢; exact hs j hj

theorem siPass_sound (T : Truth ι) (fuel : Nat) (sm : List (SMo ι ℝ)) (I : List (Option ℝ) → Prop)
    (hr : ResetOK T fuel sm I) (sal : ℝ) (hsal : 0 < sal) :
    ∀ (what : List ι) (st : ACState ι ℝ), Inv T I st → Inv T I (siPass fuel sal sm what st).1 := by
  intro what
  induction what with
  | nil => intro st h; simpa [siPass] using h
  | cons i rest ih =>
    intro st h
    obtain ⟨hI, hp⟩ := apPoint_sound T fuel sm I hr sal hsal st h i
    unfold siPass
    dsimp only
    split
    · rename_i p hsome
      have e := hp p hsome
      apply ih
      refine ⟨?_, hI⟩
      rw [e]
      exact soundXY_upd T st.pd h.1 i
    · exact ih _ ⟨h.1, hI⟩

theorem solveIntersection_sound (T : Truth ι) (fuel : Nat) (sm : List (SMo ι ℝ)) (I : List (Option ℝ) → Prop)
    (hr : ResetOK T fuel sm I) (sal : ℝ) (hsal : 0 < sal) :
    ∀ (n : Nat) (what : List ι) (st : ACState ι ℝ), Inv T I st →
      Inv T I (solveIntersection fuel sal sm n what st).1 := by
  intro n
  induction n with
  | zero => intro what st h; simpa [solveIntersection] using h
  | succ n ih =>
    intro what st h
    unfold solveIntersection
    dsimp only
    split_ifs
    · exact h
    · exact ih _ _ (siPass_sound T fuel sm I hr sal hsal what st h)
    · exact siPass_sound T fuel sm I hr sal hsal what st h

theorem compLoop_go_sound (T : Truth ι) (fuel : Nat) (sm : List (SMo ι ℝ)) (I : List (Option ℝ) → Prop)
    (hr : ResetOK T fuel sm I) (sal : ℝ) (hsal : 0 < sal) :
    ∀ (n : Nat) (what : List ι) (st : ACState ι ℝ), Inv T I st → Inv T I (compLoop.go fuel sal sm n what st) := by
  intro n
  induction n with
  | zero => intro what st h; simpa [compLoop.go] using h
  | succ n ih =>
    intro what st h
    unfold compLoop.go
    dsimp only
    have := solveIntersection_sound T fuel sm I hr sal hsal (what.length + 1) what st h
    split_ifs
    · exact ih _ _ this
    · exact this

/-- `ApproximateCoordinates::calculation()` keeps the point list sound -/
theorem acCalculation_sound (T : Truth ι) (fuel : Nat) (lt : ι → ι → Bool) (keys : List ι) (extra : Bool)
    (sm : List (SMo ι ℝ)) (I : List (Option ℝ) → Prop) (hr : ResetOK T fuel sm I) (sal : ℝ) (hsal : 0 < sal)
    (st : ACState ι ℝ) (h : Inv T I st) : Inv T I (acCalculation fuel lt keys extra sal sm st) := by
  unfold acCalculation
  dsimp only
  split_ifs
  · exact h
  · exact compLoop_go_sound T fuel sm I hr sal hsal _ _ st h
  · exact h

theorem sal_relaxed_pos : (0:ℝ) < (salDefault / Scalar.ofSci 15 true 1 : ℝ) := by
  have h1 : (salDefault : ℝ) = 15 / 100 := by simp [salDefault, Scalar.ofSci] <;> norm_num
  have h2 : (Scalar.ofSci 15 true 1 : ℝ) = 15 / 10 := by simp [Scalar.ofSci] <;> norm_num
  rw [h1, h2]; norm_num

theorem aiLoop_sound (T : Truth ι) (fuel : Nat) (lt : ι → ι → Bool) (keys : List ι) (extra : Bool) (xN : ℝ)
    (cls : List (Cl ι ℝ)) (I I' : List (Option ℝ) → Prop)
    (h2 : ∀ pd : PD ι ℝ, SoundXY T pd →
      ResetOK T fuel (copyHorizontal (cls ++ [⟨some xN, tempAll pd cls⟩])) I')
    (hext : ∀ o, I o → I' (o ++ [some xN])) (hres : ∀ o n, I' o → I (o.take n))
    (st : AiState ι ℝ) (hs : SoundXY T st.pd) (hi : I st.oris) (hsal : 0 < st.sal) :
    SoundXY T (aiLoop fuel lt keys extra xN cls st).1.pd ∧ I (aiLoop fuel lt keys extra xN cls st).1.oris ∧
    0 < (aiLoop fuel lt keys extra xN cls st).1.sal := by
  unfold aiLoop
  dsimp only
  split_ifs
  · exact ⟨hs, hi, hsal⟩
  · have := acCalculation_sound T fuel lt keys extra _ I' (h2 st.pd hs) _ sal_relaxed_pos
      ⟨st.pd, st.oris ++ [some xN]⟩ ⟨hs, hext _ hi⟩
    exact ⟨this.1, hres _ _ this.2, sal_relaxed_pos⟩

/-- AcordIntersection::execute keeps the point list sound (both `ApproximateCoordinates` runs of a call, the
    temporary stand-point, the relaxed small-angle limit, any number of repeated calls: the conclusion restores the
    hypotheses) -/
theorem aiExecute_sound (T : Truth ι) (fuel : Nat) (lt : ι → ι → Bool) (keys : List ι) (extra : Bool) (xN : ℝ)
    (cls : List (Cl ι ℝ)) (I I' : List (Option ℝ) → Prop)
    (h1 : ResetOK T fuel (copyHorizontal cls) I)
    (h2 : ∀ pd : PD ι ℝ, SoundXY T pd →
      ResetOK T fuel (copyHorizontal (cls ++ [⟨some xN, tempAll pd cls⟩])) I')
    (hext : ∀ o, I o → I' (o ++ [some xN])) (hres : ∀ o n, I' o → I (o.take n))
    (alg : AiAlg) (st : AiState ι ℝ) (hs : SoundXY T st.pd) (hi : I st.oris) (hsal : 0 < st.sal) :
    SoundXY T (aiExecute fuel lt keys extra xN cls alg st).2.pd ∧
    I (aiExecute fuel lt keys extra xN cls alg st).2.oris ∧
    0 < (aiExecute fuel lt keys extra xN cls alg st).2.sal := by
  unfold aiExecute
  dsimp only
  split_ifs
  all_goals first | exact ⟨hs, hi, hsal⟩ | skip
  all_goals
    have c := acCalculation_sound T fuel lt keys extra _ I h1 st.sal hsal ⟨st.pd, st.oris⟩ ⟨hs, hi⟩
    have l1 := aiLoop_sound T fuel lt keys extra xN cls I I' h2 hext hres
      { st with pd := (acCalculation fuel lt keys extra st.sal (copyHorizontal cls) ⟨st.pd, st.oris⟩).pd,
                oris := (acCalculation fuel lt keys extra st.sal (copyHorizontal cls) ⟨st.pd, st.oris⟩).oris }
      c.1 c.2 hsal
    first
    | exact l1
    | exact aiLoop_sound T fuel lt keys extra xN cls I I' h2 hext hres _ l1.1 l1.2.1 l1.2.2

/-! ### the temporary oriented stand-point of AcordIntersection::execute -/

/-- the azimuth rule of fix 78a600d: whatever an exact azimuth (value in [0, 2π), as its constructor leaves it)
    contributes to the stand-point oriented by `xNorthAngle()` is a direction that, with that orientation, points
    from its (known) stand-point to its target: observed at a known point it is kept, observed at an unknown point
    towards a known one it becomes the opposite bearing from the target, reduced by `Direction`'s constructor -/
theorem tempObs_azimuth (T : Truth ι) (xN : ℝ) (pd : PD ι ℝ) (cl : List (HObs ι ℝ)) (f t : ι) (v : ℝ)
    (hv : AzDir T xN f t v) :
    ∀ o ∈ tempObs pd cl (.azimuth f t v), ∃ f' t' v', o = .direction f' t' v' ∧ AzDir T xN f' t' v' ∧
      (pd f').bxy = true := by
  intro o ho
  simp only [tempObs] at ho
  split_ifs at ho with h1 h2
  · simp only [List.mem_singleton] at ho
    exact ⟨f, t, v, ho, hv, h1⟩
  · simp only [List.mem_singleton] at ho
    obtain ⟨r1, r2⟩ := azDir_reverse T xN t f v hv
    refine ⟨t, f, _, ho, ?_, h2⟩
    unfold normRad
    simp only [le_eq, twoPi_eq, add_eq, pi_eq, sub_eq, lt_eq, zero_eq]
    split_ifs
    · exact r2
    · have e := azDir_reverse T xN t f v hv
      -- `v + π < 0`: `+ 2π`, one full turn more than the first form
      unfold AzDir at r1 ⊢
      have e1 : v + π + 2 * π + xN = v + π + xN + 2 * π := by ring
      rw [e1, Real.cos_add_two_pi, Real.sin_add_two_pi]; exact r1
    · exact r1
  · simp at ho

/-- a slope distance with a zenith reading of the same sight (either face) is reduced to the true horizontal
    distance: `s·|sin z|` -/
theorem temp_slope_zenith (h v s r : ℝ) (hz : IsZenithObs h v s r) : s * |Real.sin r| = h := by
  obtain ⟨za, ⟨_, hh, _, hs⟩, _, _, hr⟩ := hz
  rcases hr with rfl | rfl
  · rw [abs_of_pos hs, hh]
  · rw [Real.sin_two_pi_sub, abs_neg, abs_of_pos hs, hh]

/-- … and with both heights: `sqrt(s² − dz²)` -/
theorem temp_slope_heights (h dz s : ℝ) (h0 : 0 ≤ h) (hs : s * s = h * h + dz * dz) :
    Real.sqrt (s * s - dz * dz) = h := by
  rw [hs, show h * h + dz * dz - dz * dz = h ^ 2 by ring]; exact Real.sqrt_sq h0

end Gama.C06I
