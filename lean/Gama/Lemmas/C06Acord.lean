/-
  C06 — lemmas about single steps of the Acord2 strategies (Gama/Model/Acord*.lean) over ℝ:
  vocabulary of the soundness statements (true coordinates, observation functions), the loop invariants
  and the monotonicity facts.  Property theorems are in Gama/Props/C06.lean.
-/
import Gama.Lemmas.C06Median
import Gama.Lemmas.LinReal
import Gama.Model.AcordAzimuth
import Gama.Model.AcordHdiffVector
import Gama.Model.AcordZderived
open Gama Gama.Cogo Gama.Median Gama.C06R Gama.Acord

namespace Gama.C06A
open Real

set_option linter.unusedSectionVars false
variable {ι : Type} [DecidableEq ι]

/-- the true coordinates the observations were derived from -/
structure Truth (ι : Type) where
  x : ι → ℝ
  y : ι → ℝ
  z : ι → ℝ

/-- every defined xy / height of the point list is the true one -/
def SoundXY (T : Truth ι) (pd : PD ι ℝ) : Prop := ∀ i, (pd i).bxy = true → (pd i).x = T.x i ∧ (pd i).y = T.y i
def SoundZ (T : Truth ι) (pd : PD ι ℝ) : Prop := ∀ i, (pd i).bz = true → (pd i).z = T.z i

/-- horizontal distance of the true points (C05: `Lin.hdist`) -/
noncomputable def hd (T : Truth ι) (f t : ι) : ℝ :=
  Real.sqrt ((T.x t - T.x f) * (T.x t - T.x f) + (T.y t - T.y f) * (T.y t - T.y f))

/-- the azimuth observation function of the linearisation (C05, `C06_fixed_point_rhs_azimuth`):
    `value + xNorthAngle() = bearing (mod 2π)` -/
def IsAzimuth (T : Truth ι) (xN : ℝ) (f t : ι) (v : ℝ) : Prop :=
  ∃ k : ℤ, v + xN = Lin.brg (T.x t - T.x f) (T.y t - T.y f) + 2 * π * k

/-- what a strategy needs of an azimuth: with the true distance it points from `f` at `t` -/
def AzDir (T : Truth ι) (xN : ℝ) (f t : ι) (v : ℝ) : Prop :=
  hd T f t * Real.cos (v + xN) = T.x t - T.x f ∧ hd T f t * Real.sin (v + xN) = T.y t - T.y f

theorem hd_symm (T : Truth ι) (f t : ι) : hd T f t = hd T t f := by
  unfold hd; congr 1; ring

theorem azDir_of_isAzimuth (T : Truth ι) (xN : ℝ) (f t : ι) (v : ℝ) (h : IsAzimuth T xN f t v) :
    AzDir T xN f t v := by
  obtain ⟨k, hk⟩ := h
  have hp := Lin.isPolarAngle_brg (T.x t - T.x f) (T.y t - T.y f)
  unfold AzDir hd
  rw [hk, show (2 : ℝ) * π * k = k * (2 * π) by ring, Real.cos_add_int_mul_two_pi, Real.sin_add_int_mul_two_pi]
  exact ⟨hp.1.symm, hp.2.symm⟩

/-- the reverse observation, as `prepare` turns it round: `+π`, optionally `-2π` -/
theorem azDir_reverse (T : Truth ι) (xN : ℝ) (f t : ι) (v : ℝ) (h : AzDir T xN t f v) :
    AzDir T xN f t (v + π) ∧ AzDir T xN f t (v + π - 2 * π) := by
  obtain ⟨h1, h2⟩ := h
  have e1 : v + π + xN = v + xN + π := by ring
  have e2 : v + π - 2 * π + xN = v + xN + π - 2 * π := by ring
  unfold AzDir
  rw [e1, e2, Real.cos_sub_two_pi, Real.sin_sub_two_pi, Real.cos_add_pi, Real.sin_add_pi, hd_symm T f t]
  refine ⟨⟨?_, ?_⟩, ⟨?_, ?_⟩⟩ <;> linarith

/-! ## AcordAzimuth -/

/-- an entry of `azimuths_` is consistent: if it has a distance, that is the true one and the value points
    from `a` at `b` -/
def AzOK (T : Truth ι) (xN : ℝ) (e : AzEntry ι ℝ) : Prop :=
  e.distance ≠ 0 → e.distance = hd T e.a e.b ∧ AzDir T xN e.a e.b e.value

theorem upd_same (pd : PD ι ℝ) (i : ι) (p : LP ℝ) : pd.upd i p i = p := by simp [PD.upd]
theorem upd_other (pd : PD ι ℝ) (i j : ι) (p : LP ℝ) (h : j ≠ i) : pd.upd i p j = pd j := by simp [PD.upd, h]

/-- the state after the first branch (`a` known → `b`) and after the second (`b` known → `a`) -/
noncomputable def azFwd (xN : ℝ) (st : St ι ℝ) (e : AzEntry ι ℝ) : St ι ℝ :=
  { st with
    pd := st.pd.upd e.b ((st.pd e.b).setXY ((st.pd e.a).x + e.distance * Real.cos (e.value + xN))
                                           ((st.pd e.a).y + e.distance * Real.sin (e.value + xN)))
    missXY := erase st.missXY e.b }
noncomputable def azRev (xN : ℝ) (st : St ι ℝ) (e : AzEntry ι ℝ) : St ι ℝ :=
  { st with
    pd := st.pd.upd e.a ((st.pd e.a).setXY ((st.pd e.b).x + e.distance * Real.cos (e.value + π + xN))
                                           ((st.pd e.b).y + e.distance * Real.sin (e.value + π + xN)))
    missXY := erase st.missXY e.a }

theorem azStep_cases (xN : ℝ) (st : St ι ℝ) (e : AzEntry ι ℝ) :
    azStep xN st e = st ∨
    ((st.pd e.a).bxy = true ∧ (st.pd e.b).bxy = false ∧ e.distance ≠ 0 ∧ azStep xN st e = azFwd xN st e) ∨
    ((st.pd e.a).bxy = false ∧ (st.pd e.b).bxy = true ∧ e.distance ≠ 0 ∧ azStep xN st e = azRev xN st e) := by
  unfold azStep azFwd azRev
  by_cases ha : (st.pd e.a).bxy = true <;> by_cases hb : (st.pd e.b).bxy = true <;>
    by_cases hd0 : e.distance = 0
  all_goals simp [ha, hb, hd0]

theorem azFwd_sound (T : Truth ι) (xN : ℝ) (st : St ι ℝ) (e : AzEntry ι ℝ) (hs : SoundXY T st.pd)
    (ha : (st.pd e.a).bxy = true) (hd0 : e.distance ≠ 0) (hok : AzOK T xN e) :
    ((azFwd xN st e).pd e.b).bxy = true ∧ ((azFwd xN st e).pd e.b).x = T.x e.b ∧ ((azFwd xN st e).pd e.b).y = T.y e.b := by
  obtain ⟨hd1, h1, h2⟩ := hok hd0
  obtain ⟨hx, hy⟩ := hs e.a ha
  simp only [azFwd, upd_same, LP.setXY]
  rw [hd1, hx, hy, h1, h2]
  exact ⟨trivial, by ring, by ring⟩

theorem azRev_sound (T : Truth ι) (xN : ℝ) (st : St ι ℝ) (e : AzEntry ι ℝ) (hs : SoundXY T st.pd)
    (hb : (st.pd e.b).bxy = true) (hd0 : e.distance ≠ 0) (hok : AzOK T xN e) :
    ((azRev xN st e).pd e.a).bxy = true ∧ ((azRev xN st e).pd e.a).x = T.x e.a ∧ ((azRev xN st e).pd e.a).y = T.y e.a := by
  obtain ⟨hd1, h1, h2⟩ := hok hd0
  obtain ⟨hx, hy⟩ := hs e.b hb
  simp only [azRev, upd_same, LP.setXY]
  have e1 : e.value + π + xN = e.value + xN + π := by ring
  rw [e1, Real.cos_add_pi, Real.sin_add_pi, hd1, hx, hy]
  refine ⟨trivial, ?_, ?_⟩ <;> linarith

/-- one turn of the loop keeps every defined xy true -/
theorem azStep_sound (T : Truth ι) (xN : ℝ) (st : St ι ℝ) (e : AzEntry ι ℝ) (hs : SoundXY T st.pd)
    (hok : AzOK T xN e) : SoundXY T (azStep xN st e).pd := by
  rcases azStep_cases xN st e with h | ⟨ha, _, hd0, h⟩ | ⟨_, hb, hd0, h⟩
  · rw [h]; exact hs
  · rw [h]; intro i hi
    by_cases hib : i = e.b
    · subst hib; exact (azFwd_sound T xN st e hs ha hd0 hok).2
    · simp only [azFwd, upd_other _ _ _ _ hib] at hi ⊢; exact hs i hi
  · rw [h]; intro i hi
    by_cases hia : i = e.a
    · subst hia; exact (azRev_sound T xN st e hs hb hd0 hok).2
    · simp only [azRev, upd_other _ _ _ _ hia] at hi ⊢; exact hs i hi

/-- what a step of a strategy may do to the shared state: a defined coordinate group keeps its flag and
    its values (`KeepXY`, `KeepZ`), nothing enters a `missing` set -/
def KeepXY (pd pd' : PD ι ℝ) : Prop :=
  ∀ i, (pd i).bxy = true → (pd' i).bxy = true ∧ (pd' i).x = (pd i).x ∧ (pd' i).y = (pd i).y
def KeepZ (pd pd' : PD ι ℝ) : Prop :=
  ∀ i, (pd i).bz = true → (pd' i).bz = true ∧ (pd' i).z = (pd i).z
/-- the step does not touch heights at all / xy at all -/
def SameZ (pd pd' : PD ι ℝ) : Prop := ∀ i, (pd' i).bz = (pd i).bz ∧ (pd' i).z = (pd i).z
def SameXY (pd pd' : PD ι ℝ) : Prop := ∀ i, (pd' i).bxy = (pd i).bxy ∧ (pd' i).x = (pd i).x ∧ (pd' i).y = (pd i).y
def Sub (l l' : List ι) : Prop := ∀ i, i ∈ l' → i ∈ l

theorem KeepXY.refl (pd : PD ι ℝ) : KeepXY pd pd := fun _ h => ⟨h, rfl, rfl⟩
theorem KeepZ.refl (pd : PD ι ℝ) : KeepZ pd pd := fun _ h => ⟨h, rfl⟩
theorem KeepXY.trans {a b c : PD ι ℝ} (h1 : KeepXY a b) (h2 : KeepXY b c) : KeepXY a c := fun i h => by
  obtain ⟨hb, hx, hy⟩ := h1 i h
  obtain ⟨hc, hx', hy'⟩ := h2 i hb
  exact ⟨hc, hx'.trans hx, hy'.trans hy⟩
theorem KeepZ.trans {a b c : PD ι ℝ} (h1 : KeepZ a b) (h2 : KeepZ b c) : KeepZ a c := fun i h => by
  obtain ⟨hb, hz⟩ := h1 i h
  obtain ⟨hc, hz'⟩ := h2 i hb
  exact ⟨hc, hz'.trans hz⟩
theorem SameZ.refl (pd : PD ι ℝ) : SameZ pd pd := fun _ => ⟨rfl, rfl⟩
theorem SameZ.trans {a b c : PD ι ℝ} (h1 : SameZ a b) (h2 : SameZ b c) : SameZ a c := fun i =>
  ⟨(h2 i).1.trans (h1 i).1, (h2 i).2.trans (h1 i).2⟩
theorem SameXY.refl (pd : PD ι ℝ) : SameXY pd pd := fun _ => ⟨rfl, rfl, rfl⟩
theorem SameXY.trans {a b c : PD ι ℝ} (h1 : SameXY a b) (h2 : SameXY b c) : SameXY a c := fun i =>
  ⟨(h2 i).1.trans (h1 i).1, (h2 i).2.1.trans (h1 i).2.1, (h2 i).2.2.trans (h1 i).2.2⟩
theorem SameZ.keep {a b : PD ι ℝ} (h : SameZ a b) : KeepZ a b := fun i hi => ⟨(h i).1.trans hi, (h i).2⟩
theorem SameXY.keep {a b : PD ι ℝ} (h : SameXY a b) : KeepXY a b := fun i hi => ⟨(h i).1.trans hi, (h i).2⟩
theorem Sub.refl (l : List ι) : Sub l l := fun _ h => h
theorem Sub.trans {a b c : List ι} (h1 : Sub a b) (h2 : Sub b c) : Sub a c := fun i h => h1 i (h2 i h)
theorem sub_erase (l : List ι) (i : ι) : Sub l (erase l i) := fun j h => by
  unfold erase at h; exact (List.mem_filter.mp h).1

theorem azStep_mono (xN : ℝ) (st : St ι ℝ) (e : AzEntry ι ℝ) :
    KeepXY st.pd (azStep xN st e).pd ∧ SameZ st.pd (azStep xN st e).pd ∧
    Sub st.missXY (azStep xN st e).missXY ∧ (azStep xN st e).missZ = st.missZ ∧ (azStep xN st e).candZ = st.candZ := by
  rcases azStep_cases xN st e with h | ⟨_, hb, _, h⟩ | ⟨ha, _, _, h⟩
  · rw [h]; exact ⟨KeepXY.refl _, SameZ.refl _, Sub.refl _, rfl, rfl⟩
  · rw [h]; refine ⟨?_, ?_, sub_erase _ _, rfl, rfl⟩
    · intro i hi
      have hib : i ≠ e.b := by rintro rfl; rw [hb] at hi; exact absurd hi (by simp)
      have : (azFwd xN st e).pd i = st.pd i := upd_other _ _ _ _ hib
      rw [this]; exact ⟨hi, rfl, rfl⟩
    · intro i
      by_cases hib : i = e.b
      · subst hib; simp [azFwd, upd_same, LP.setXY]
      · simp [azFwd, upd_other _ _ _ _ hib]
  · rw [h]; refine ⟨?_, ?_, sub_erase _ _, rfl, rfl⟩
    · intro i hi
      have hia : i ≠ e.a := by rintro rfl; rw [ha] at hi; exact absurd hi (by simp)
      have : (azRev xN st e).pd i = st.pd i := upd_other _ _ _ _ hia
      rw [this]; exact ⟨hi, rfl, rfl⟩
    · intro i
      by_cases hia : i = e.a
      · subst hia; simp [azRev, upd_same, LP.setXY]
      · simp [azRev, upd_other _ _ _ _ hia]

theorem azFold_sound (T : Truth ι) (xN : ℝ) (azs : List (AzEntry ι ℝ)) :
    ∀ st : St ι ℝ, SoundXY T st.pd → (∀ e ∈ azs, AzOK T xN e) → SoundXY T (azs.foldl (azStep xN) st).pd := by
  induction azs with
  | nil => intro st hs _; exact hs
  | cons e es ih =>
    intro st hs hok
    simp only [List.foldl_cons]
    exact ih _ (azStep_sound T xN st e hs (hok e (by simp))) (fun e' he' => hok e' (by simp [he']))

theorem azFold_mono (xN : ℝ) (azs : List (AzEntry ι ℝ)) :
    ∀ st : St ι ℝ, KeepXY st.pd (azs.foldl (azStep xN) st).pd ∧ SameZ st.pd (azs.foldl (azStep xN) st).pd ∧
      Sub st.missXY (azs.foldl (azStep xN) st).missXY ∧ (azs.foldl (azStep xN) st).missZ = st.missZ ∧
      (azs.foldl (azStep xN) st).candZ = st.candZ := by
  induction azs with
  | nil => intro st; exact ⟨KeepXY.refl _, SameZ.refl _, Sub.refl _, rfl, rfl⟩
  | cons e es ih =>
    intro st
    simp only [List.foldl_cons]
    obtain ⟨a1, a2, a3, a4, a5⟩ := azStep_mono xN st e
    obtain ⟨b1, b2, b3, b4, b5⟩ := ih (azStep xN st e)
    exact ⟨a1.trans b1, a2.trans b2, a3.trans b3, b4.trans a4, b5.trans a5⟩

/-! ### `prepare`: the map of azimuths -/

/-- `PointID::operator<` identifies keys the way `std::map` needs it (it is a strict total order:
    C07, `Gama/Lemmas/C07PointId.lean`) -/
def Tri (lt : ι → ι → Bool) : Prop := ∀ a b, lt a b = false → lt b a = false → a = b

theorem pair_tri {lt : ι → ι → Bool} (htri : Tri lt) (p q : ι × ι)
    (h1 : pairLt lt p q = false) (h2 : pairLt lt q p = false) : p = q := by
  unfold pairLt at h1 h2
  simp only [Bool.or_eq_false_iff, Bool.and_eq_false_iff, Bool.not_eq_false'] at h1 h2
  obtain ⟨a1, a2⟩ := h1
  obtain ⟨b1, b2⟩ := h2
  have e1 : p.1 = q.1 := htri _ _ a1 b1
  have a2' : lt p.2 q.2 = false := by
    rcases a2 with h | h
    · rw [b1] at h; exact absurd h (by simp)
    · exact h
  have b2' : lt q.2 p.2 = false := by
    rcases b2 with h | h
    · rw [a1] at h; exact absurd h (by simp)
    · exact h
  exact Prod.ext e1 (htri _ _ a2' b2')

/-- invariant of the collecting loops: every stored value satisfies `R key value`; `value`, `distance`
    fields satisfy `Q` -/
def AzInv (R : ι → ι → ℝ → Prop) (Q : AzEntry ι ℝ → Prop) (m : List (AzEntry ι ℝ)) : Prop :=
  ∀ e ∈ m, Q e ∧ ∀ w ∈ e.values, R e.a e.b w

theorem azPush_inv {lt : ι → ι → Bool} (htri : Tri lt) (R : ι → ι → ℝ → Prop) (a b : ι) (v : ℝ) (hv : R a b v) :
    ∀ m : List (AzEntry ι ℝ), AzInv R (fun e => e.values ≠ [] ∧ e.distance = 0) m →
      AzInv R (fun e => e.values ≠ [] ∧ e.distance = 0) (azPush lt a b v m) := by
  intro m
  induction m with
  | nil =>
    intro _ e he
    simp only [azPush, List.mem_singleton] at he
    subst he
    exact ⟨by simp, fun w hw => by simp at hw; subst hw; exact hv⟩
  | cons e0 es ih =>
    intro hm e he
    unfold azPush at he
    split at he
    · rcases List.mem_cons.mp he with h | h
      · subst h; exact ⟨by simp, fun w hw => by simp at hw; subst hw; exact hv⟩
      · exact hm e h
    · split at he
      · rcases List.mem_cons.mp he with h | h
        · subst h; exact hm _ (by simp)
        · exact ih (fun e' he' => hm e' (by simp [he'])) e h
      · rename_i h1 h2
        have hk : (a, b) = (e0.a, e0.b) := pair_tri htri _ _ (by simpa using h1) (by simpa using h2)
        have ha : e0.a = a := (Prod.ext_iff.mp hk).1.symm
        have hb : e0.b = b := (Prod.ext_iff.mp hk).2.symm
        rcases List.mem_cons.mp he with h | h
        · subst h
          obtain ⟨⟨_, q2⟩, r⟩ := hm e0 (by simp)
          refine ⟨⟨by simp, q2⟩, fun w hw => ?_⟩
          simp only [List.mem_append, List.mem_singleton] at hw
          rcases hw with hw | hw
          · exact r w hw
          · subst hw; simp only [ha, hb]; exact hv
        · exact hm e (by simp [h])

theorem azPushIfPresent_inv {lt : ι → ι → Bool} (htri : Tri lt) (R : ι → ι → ℝ → Prop) (Q : AzEntry ι ℝ → Prop)
    (hQ : ∀ e w, Q e → Q { e with values := e.values ++ [w] })
    (a b : ι) (v : ℝ) (hv : R a b v) :
    ∀ m : List (AzEntry ι ℝ), AzInv R Q m → AzInv R Q (azPushIfPresent lt a b v m) := by
  intro m
  induction m with
  | nil => intro h; simpa [azPushIfPresent] using h
  | cons e0 es ih =>
    intro hm e he
    unfold azPushIfPresent at he
    split at he
    · exact hm e he
    · split at he
      · rcases List.mem_cons.mp he with h | h
        · subst h; exact hm _ (by simp)
        · exact ih (fun e' he' => hm e' (by simp [he'])) e h
      · rename_i h1 h2
        have hk : (a, b) = (e0.a, e0.b) := pair_tri htri _ _ (by simpa using h1) (by simpa using h2)
        have ha : e0.a = a := (Prod.ext_iff.mp hk).1.symm
        have hb : e0.b = b := (Prod.ext_iff.mp hk).2.symm
        rcases List.mem_cons.mp he with h | h
        · subst h
          obtain ⟨q, r⟩ := hm e0 (by simp)
          refine ⟨hQ _ _ q, fun w hw => ?_⟩
          simp only [List.mem_append, List.mem_singleton] at hw
          rcases hw with hw | hw
          · exact r w hw
          · subst hw; simp only [ha, hb]; exact hv
        · exact hm e (by simp [h])

theorem azCollect_inv {lt : ι → ι → Bool} (htri : Tri lt) (R : ι → ι → ℝ → Prop) (obs : List (Obs ι ℝ))
    (hobs : ∀ f t v, Obs.azimuth f t v ∈ obs →
      R (azNormalize lt f t v).1 (azNormalize lt f t v).2.1 (azNormalize lt f t v).2.2) :
    AzInv R (fun e => e.values ≠ [] ∧ e.distance = 0) (azCollect lt obs) := by
  unfold azCollect
  suffices h : ∀ (l : List (Obs ι ℝ)) (m : List (AzEntry ι ℝ)), (∀ o ∈ l, o ∈ obs) →
      AzInv R (fun e => e.values ≠ [] ∧ e.distance = 0) m →
      AzInv R (fun e => e.values ≠ [] ∧ e.distance = 0) (l.foldl (azCollectStep lt) m)
      from h obs [] (fun _ h => h) (fun e he => by simp at he)
  intro l
  induction l with
  | nil => intro m _ hm; exact hm
  | cons o os ih =>
    intro m hl hm
    simp only [List.foldl_cons]
    apply ih _ (fun o' ho' => hl o' (by simp [ho']))
    cases o with
    | azimuth f t v => exact azPush_inv htri R _ _ _ (hobs f t v (hl _ (by simp))) m hm
    | _ => exact hm

theorem azCollectDist_inv {lt : ι → ι → Bool} (htri : Tri lt) (R : ι → ι → ℝ → Prop) (Q : AzEntry ι ℝ → Prop)
    (hQ : ∀ e w, Q e → Q { e with values := e.values ++ [w] }) (obs : List (Obs ι ℝ))
    (hobs : ∀ f t v, Obs.distance f t v ∈ obs → R f t v ∧ R t f v) :
    ∀ m : List (AzEntry ι ℝ), AzInv R Q m → AzInv R Q (azCollectDist lt obs m) := by
  unfold azCollectDist
  suffices h : ∀ (l : List (Obs ι ℝ)) (m : List (AzEntry ι ℝ)), (∀ o ∈ l, o ∈ obs) → AzInv R Q m →
      AzInv R Q (l.foldl (azCollectDistStep lt) m) from fun m hm => h obs m (fun _ h => h) hm
  intro l
  induction l with
  | nil => intro m _ hm; exact hm
  | cons o os ih =>
    intro m hl hm
    simp only [List.foldl_cons]
    apply ih _ (fun o' ho' => hl o' (by simp [ho']))
    cases o with
    | distance f t v =>
      have := hobs f t v (hl _ (by simp))
      simp only [azCollectDistStep]
      split
      · exact azPushIfPresent_inv htri R Q hQ _ _ _ this.2 m hm
      · exact azPushIfPresent_inv htri R Q hQ _ _ _ this.1 m hm
    | _ => exact hm

/-! ### fix 8d96812: the values of a pair are brought next to the first one before the median -/

/-- an exact azimuth value as it sits in the map: it points from `a` at `b` and lies in [0, 2π] -/
def AzVal (T : Truth ι) (xN : ℝ) (a b : ι) (w : ℝ) : Prop := AzDir T xN a b w ∧ 0 ≤ w ∧ w ≤ 2 * π

theorem azNormalize_val (lt : ι → ι → Bool) (T : Truth ι) (xN : ℝ) (f t : ι) (v : ℝ)
    (h : AzDir T xN f t v) (h0 : 0 ≤ v) (h2 : v < 2 * π) :
    AzVal T xN (azNormalize lt f t v).1 (azNormalize lt f t v).2.1 (azNormalize lt f t v).2.2 := by
  unfold azNormalize
  by_cases hl : lt t f = true
  · simp only [hl, if_true, add_eq, pi_eq, C06L.twoPi_eq, sub_eq, lt_eq]
    obtain ⟨r1, r2⟩ := azDir_reverse T xN t f v h
    have := Real.pi_pos
    by_cases hc : 2 * π < v + π
    · simp only [hc, if_true]; exact ⟨r2, by linarith, by linarith⟩
    · simp only [hc, if_false]; exact ⟨r1, by linarith, by linarith⟩
  · simp only [hl]; exact ⟨h, h0, h2.le⟩

theorem azDir_add_int (T : Truth ι) (xN : ℝ) (a b : ι) (w : ℝ) (h : AzDir T xN a b w) (k : ℤ) :
    AzDir T xN a b (w + k * (2 * π)) := by
  unfold AzDir at *
  rw [show w + k * (2 * π) + xN = w + xN + k * (2 * π) by ring, Real.cos_add_int_mul_two_pi,
    Real.sin_add_int_mul_two_pi]
  exact h

/-- two exact values of the same pair of distinct points that are within π of each other are equal -/
theorem azDir_eq_of_near (T : Truth ι) (xN : ℝ) (a b : ι) (w1 w2 : ℝ) (hhd : hd T a b ≠ 0)
    (h1 : AzDir T xN a b w1) (h2 : AzDir T xN a b w2) (hn : |w1 - w2| ≤ π) : w1 = w2 := by
  have hc : Real.cos (w1 + xN) = Real.cos (w2 + xN) := mul_left_cancel₀ hhd (h1.1.trans h2.1.symm)
  have hs : Real.sin (w1 + xN) = Real.sin (w2 + xN) := mul_left_cancel₀ hhd (h1.2.trans h2.2.symm)
  have ha : ((w1 + xN : ℝ) : Real.Angle) = ((w2 + xN : ℝ) : Real.Angle) :=
    Real.Angle.cos_sin_inj (by simpa using hc) (by simpa using hs)
  obtain ⟨k, hk⟩ := Real.Angle.angle_eq_iff_two_pi_dvd_sub.mp ha
  have hk' : w1 - w2 = 2 * π * k := by linarith
  have hpi := Real.pi_pos
  have k0 : k = 0 := by
    by_contra hne
    have h1k : (1 : ℝ) ≤ |(k : ℝ)| := by exact_mod_cast Int.one_le_abs hne
    rw [hk', abs_mul, abs_of_pos (by positivity : (0:ℝ) < 2 * π)] at hn
    nlinarith
  rw [k0] at hk'; simp at hk'; linarith

theorem seamDown_stop (v0 t : ℝ) (n : Nat) (h : ¬ π < t - v0) : seamDown v0 n t = t := by
  cases n with
  | zero => rfl
  | succ n => simp [seamDown, h]

theorem seamUp_stop (v0 t : ℝ) (n : Nat) (h : ¬ t - v0 < -π) : seamUp v0 n t = t := by
  cases n with
  | zero => rfl
  | succ n => simp [seamUp, h]

/-- one turn of each loop suffices for values in [0, 2π] -/
theorem seam_near (v0 t : ℝ) (n : Nat) (hv0 : 0 ≤ v0) (hv2 : v0 ≤ 2 * π) (ht0 : 0 ≤ t) (ht2 : t ≤ 2 * π) :
    ∃ k : ℤ, seamUp v0 (n + 1) (seamDown v0 (n + 1) t) = t + k * (2 * π) ∧
      |seamUp v0 (n + 1) (seamDown v0 (n + 1) t) - v0| ≤ π := by
  have hpi := Real.pi_pos
  by_cases h1 : π < t - v0
  · have e1 : seamDown v0 (n + 1) t = t - 2 * π := by
      simp only [seamDown, sub_eq, lt_eq, pi_eq, h1, if_true, C06L.twoPi_eq]
      exact seamDown_stop v0 _ n (by linarith)
    rw [e1, seamUp_stop v0 _ (n + 1) (by linarith)]
    exact ⟨-1, by push_cast; ring, abs_le.mpr ⟨by linarith, by linarith⟩⟩
  · have e1 : seamDown v0 (n + 1) t = t := seamDown_stop v0 t (n + 1) h1
    rw [e1]
    by_cases h2 : t - v0 < -π
    · have e2 : seamUp v0 (n + 1) t = t + 2 * π := by
        simp only [seamUp, sub_eq, lt_eq, pi_eq, neg_eq, add_eq, h2, if_true, C06L.twoPi_eq]
        exact seamUp_stop v0 _ n (by linarith)
      rw [e2]
      exact ⟨1, by push_cast; ring, abs_le.mpr ⟨by linarith, by linarith⟩⟩
    · rw [seamUp_stop v0 t (n + 1) h2]
      exact ⟨0, by simp, abs_le.mpr ⟨by linarith, by linarith⟩⟩

/-- after the seam treatment all exact values of a pair of distinct points are the first one -/
theorem azSeam_const (T : Truth ι) (xN : ℝ) (a b : ι) (n : Nat) (vs : List ℝ) (hhd : hd T a b ≠ 0)
    (hv : ∀ w ∈ vs, AzVal T xN a b w) :
    ∃ c, AzDir T xN a b c ∧ ∀ x ∈ azSeam (n + 1) vs, x = c := by
  cases vs with
  | nil =>
    exact ⟨Lin.brg (T.x b - T.x a) (T.y b - T.y a) - xN,
      azDir_of_isAzimuth T xN a b _ ⟨0, by simp⟩, fun x hx => by simp [azSeam] at hx⟩
  | cons v0 rest =>
    obtain ⟨d0, a0, b0⟩ := hv v0 (by simp)
    refine ⟨v0, d0, fun x hx => ?_⟩
    simp only [azSeam, List.mem_map] at hx
    obtain ⟨t, ht, rfl⟩ := hx
    obtain ⟨dt, at0, bt⟩ := hv t ht
    obtain ⟨k, hk, hnear⟩ := seam_near v0 t n a0 b0 at0 bt
    have hd' : AzDir T xN a b (seamUp v0 (n + 1) (seamDown v0 (n + 1) t)) := by
      rw [hk]; exact azDir_add_int T xN a b t dt k
    exact azDir_eq_of_near T xN a b _ _ hhd hd' d0 hnear

/-- the entries `prepare` leaves in `azimuths_` are consistent when every azimuth is exact (its value in
    [0, 2π), as the constructor of `Azimuth` leaves it) and the distances are the true ones — at full strength:
    no condition on how the values of a pair relate (fix 8d96812) -/
theorem azPrepare_ok {lt : ι → ι → Bool} (htri : Tri lt) (T : Truth ι) (xN : ℝ) (pd : PD ι ℝ) (obs : List (Obs ι ℝ))
    (n : Nat)
    (hobsA : ∀ f t v, Obs.azimuth f t v ∈ obs → AzDir T xN f t v ∧ 0 ≤ v ∧ v < 2 * π)
    (hobsD : ∀ f t v, Obs.distance f t v ∈ obs → v = hd T f t) :
    ∀ e ∈ azPrepare (n + 1) lt pd obs, AzOK T xN e := by
  have h1 := azCollect_inv htri (AzVal T xN) obs
    (fun f t v ho => azNormalize_val lt T xN f t v (hobsA f t v ho).1 (hobsA f t v ho).2.1 (hobsA f t v ho).2.2)
  have hval : ∀ e0 ∈ azRemoveKnown pd (azCollect lt obs), hd T e0.a e0.b ≠ 0 →
      AzDir T xN e0.a e0.b (azMedianValue (n + 1) e0).value := by
    intro e0 he0 hhd
    have he0' : e0 ∈ azCollect lt obs := (List.mem_filter.mp he0).1
    obtain ⟨⟨hne, _⟩, hv⟩ := h1 e0 he0'
    obtain ⟨c, hc, hall⟩ := azSeam_const T xN e0.a e0.b n e0.values hhd hv
    have hne' : azSeam (n + 1) e0.values ≠ [] := by
      cases hvs : e0.values with
      | nil => exact absurd hvs hne
      | cons v0 r => simp [azSeam]
    simp only [azMedianValue]
    rw [C06L.median2_const _ c hne' hall]; exact hc
  have h2 : AzInv (fun a b w => w = hd T a b) (fun e => e.values = [] → e.distance = 0)
      ((azRemoveKnown pd (azCollect lt obs)).map (azMedianValue (n + 1))) := by
    intro e he
    obtain ⟨e0, he0, rfl⟩ := List.mem_map.mp he
    have he0' : e0 ∈ azCollect lt obs := (List.mem_filter.mp he0).1
    obtain ⟨⟨_, hd0⟩, _⟩ := h1 e0 he0'
    exact ⟨fun _ => hd0, fun w hw => by simp [azMedianValue] at hw⟩
  have h3 := azCollectDist_inv htri (fun a b w => w = hd T a b) (fun e => e.values = [] → e.distance = 0)
    (fun e w q h => by simp at h) obs
    (fun f t v ho => ⟨hobsD f t v ho, (hobsD f t v ho).trans (hd_symm T f t)⟩) _ h2
  have h4 : AzInv (fun _ _ _ => True) (fun e => hd T e.a e.b ≠ 0 → AzDir T xN e.a e.b e.value)
      (azCollectDist lt obs ((azRemoveKnown pd (azCollect lt obs)).map (azMedianValue (n + 1)))) := by
    apply azCollectDist_inv htri (fun _ _ _ => True) (fun e => hd T e.a e.b ≠ 0 → AzDir T xN e.a e.b e.value)
      (fun e w q => q) obs (fun _ _ _ _ => ⟨trivial, trivial⟩)
    intro e he
    obtain ⟨e0, he0, rfl⟩ := List.mem_map.mp he
    exact ⟨hval e0 he0, fun _ _ => trivial⟩
  intro e he
  unfold azPrepare at he
  obtain ⟨e1, he1, rfl⟩ := List.mem_map.mp he
  obtain ⟨q, r⟩ := h3 e1 he1
  obtain ⟨qv, _⟩ := h4 e1 he1
  unfold azMedianDistance
  by_cases hemp : e1.values = []
  · simp only [hemp, List.isEmpty_nil, if_true]
    intro hd0; exact absurd (q hemp) hd0
  · have : e1.values.isEmpty = false := by simpa using hemp
    simp only [this]
    intro hd0
    have hm := C06L.median2_const _ _ hemp r
    refine ⟨hm, ?_⟩
    exact qv (by rw [← hm]; exact hd0)

/-- `prepared_ ⇒` the stored entries are consistent -/
def AzAlgOK (T : Truth ι) (xN : ℝ) (alg : AzAlg ι ℝ) : Prop := alg.prepared = true → ∀ e ∈ alg.azs, AzOK T xN e

theorem azExecute_sound {lt : ι → ι → Bool} (htri : Tri lt) (T : Truth ι) (xN : ℝ) (od : List (Cluster ι ℝ))
    (alg : AzAlg ι ℝ) (st : St ι ℝ) (n : Nat)
    (hobsA : ∀ f t v, Obs.azimuth f t v ∈ spObs od → AzDir T xN f t v ∧ 0 ≤ v ∧ v < 2 * π)
    (hobsD : ∀ f t v, Obs.distance f t v ∈ spObs od → v = hd T f t)
    (halg : AzAlgOK T xN alg) (hs : SoundXY T st.pd) :
    SoundXY T (azExecute (n + 1) lt xN od alg st).2.pd ∧ AzAlgOK T xN (azExecute (n + 1) lt xN od alg st).1 := by
  have hazs : ∀ e ∈ (if alg.prepared then alg.azs else azPrepare (n + 1) lt st.pd (spObs od)), AzOK T xN e := by
    by_cases hp : alg.prepared = true
    · simp only [hp, if_true]; exact halg hp
    · simp only [hp]; exact azPrepare_ok htri T xN st.pd (spObs od) n hobsA hobsD
  refine ⟨azFold_sound T xN _ st hs hazs, fun _ e he => ?_⟩
  simp only [azExecute, azRemoveKnown] at he
  exact hazs e (List.mem_filter.mp he).1

theorem azExecute_mono (fuel : Nat) (lt : ι → ι → Bool) (xN : ℝ) (od : List (Cluster ι ℝ)) (alg : AzAlg ι ℝ)
    (st : St ι ℝ) :
    KeepXY st.pd (azExecute fuel lt xN od alg st).2.pd ∧ SameZ st.pd (azExecute fuel lt xN od alg st).2.pd ∧
    Sub st.missXY (azExecute fuel lt xN od alg st).2.missXY ∧ (azExecute fuel lt xN od alg st).2.missZ = st.missZ ∧
    (azExecute fuel lt xN od alg st).2.candZ = st.candZ :=
  azFold_mono xN _ st

/-! ## AcordHdiff -/

def HdOK (T : Truth ι) (h : Hd ι ℝ) : Prop := h.hd = T.z h.t - T.z h.f

theorem hdPassStep_sound (T : Truth ι) (ls : PD ι ℝ × Bool) (h : Hd ι ℝ) (hs : SoundZ T ls.1) (hok : HdOK T h) :
    SoundZ T (hdPassStep ls h).1 := by
  unfold hdPassStep
  simp only
  split
  · exact hs
  · split
    · rename_i _ hf
      intro i hi
      by_cases hit : i = h.t
      · subst hit; simp only [upd_same, LP.setZ]; rw [hs h.f hf, hok]; ring
      · simp only [upd_other _ _ _ _ hit] at hi ⊢; exact hs i hi
    · rename_i hne hf
      have ht : (ls.1 h.t).bz = true := by
        cases h1 : (ls.1 h.f).bz <;> cases h2 : (ls.1 h.t).bz <;> simp_all
      intro i hi
      by_cases hif : i = h.f
      · subst hif; simp only [upd_same, LP.setZ]; rw [hs h.t ht, hok]; ring
      · simp only [upd_other _ _ _ _ hif] at hi ⊢; exact hs i hi

/-- a pass only defines heights; it leaves xy and every defined height of the local copy alone -/
theorem hdPassStep_mono (ls : PD ι ℝ × Bool) (h : Hd ι ℝ) :
    KeepZ ls.1 (hdPassStep ls h).1 ∧ SameXY ls.1 (hdPassStep ls h).1 := by
  unfold hdPassStep
  simp only
  split
  · exact ⟨KeepZ.refl _, SameXY.refl _⟩
  · split
    · rename_i hne hf
      have ht : (ls.1 h.t).bz = false := by
        cases h1 : (ls.1 h.f).bz <;> cases h2 : (ls.1 h.t).bz <;> simp_all
      refine ⟨fun i hi => ?_, fun i => ?_⟩
      · have : i ≠ h.t := by rintro rfl; rw [ht] at hi; exact absurd hi (by simp)
        simp [upd_other _ _ _ _ this, hi]
      · by_cases hit : i = h.t
        · subst hit; simp [upd_same, LP.setZ]
        · simp [upd_other _ _ _ _ hit]
    · rename_i hne hf
      have hf' : (ls.1 h.f).bz = false := by simpa using hf
      refine ⟨fun i hi => ?_, fun i => ?_⟩
      · have : i ≠ h.f := by rintro rfl; rw [hf'] at hi; exact absurd hi (by simp)
        simp [upd_other _ _ _ _ this, hi]
      · by_cases hif : i = h.f
        · subst hif; simp [upd_same, LP.setZ]
        · simp [upd_other _ _ _ _ hif]

theorem hdPass_props (T : Truth ι) (hds : List (Hd ι ℝ)) (hok : ∀ h ∈ hds, HdOK T h) :
    ∀ ls : PD ι ℝ × Bool, SoundZ T ls.1 →
      SoundZ T (hds.foldl hdPassStep ls).1 ∧ KeepZ ls.1 (hds.foldl hdPassStep ls).1 ∧
      SameXY ls.1 (hds.foldl hdPassStep ls).1 := by
  induction hds with
  | nil => intro ls hs; exact ⟨hs, KeepZ.refl _, SameXY.refl _⟩
  | cons h hs' ih =>
    intro ls hs
    simp only [List.foldl_cons]
    obtain ⟨a, b, c⟩ := ih (fun h' hh' => hok h' (by simp [hh'])) (hdPassStep ls h)
      (hdPassStep_sound T ls h hs (hok h (by simp)))
    obtain ⟨m1, m2⟩ := hdPassStep_mono ls h
    exact ⟨a, m1.trans b, m2.trans c⟩

theorem hdLoop_props (T : Truth ι) (pd : PD ι ℝ) :
    ∀ (fuel : Nat) (hds : List (Hd ι ℝ)) (lpd : PD ι ℝ) (r : List (Hd ι ℝ) × PD ι ℝ),
      (∀ h ∈ hds, HdOK T h) → SoundZ T lpd → hdLoop pd fuel hds lpd = some r →
      (∀ h ∈ r.1, HdOK T h) ∧ SoundZ T r.2 ∧ KeepZ lpd r.2 ∧ SameXY lpd r.2 := by
  intro fuel
  induction fuel with
  | zero => intro hds lpd r _ _ h; simp [hdLoop] at h
  | succ n ih =>
    intro hds lpd r hok hs h
    unfold hdLoop at h
    simp only at h
    have hp := hdPass_props T hds hok (lpd, false) hs
    have hok' : ∀ h ∈ hdRemoveKnown pd hds, HdOK T h := fun h hh => hok h (List.mem_filter.mp hh).1
    split at h
    · obtain ⟨a, b, c, d⟩ := ih _ _ r hok' hp.1 h
      exact ⟨a, b, hp.2.1.trans c, hp.2.2.trans d⟩
    · cases h
      exact ⟨hok', hp.1, hp.2.1, hp.2.2⟩

theorem hdRefresh_props (T : Truth ι) (pd : PD ι ℝ) (keys : List ι) (lpd : PD ι ℝ)
    (hpd : SoundZ T pd) (hl : SoundZ T lpd) :
    SoundZ T (hdRefresh pd keys lpd) ∧ KeepZ lpd (hdRefresh pd keys lpd) ∧ SameXY lpd (hdRefresh pd keys lpd) := by
  refine ⟨fun i hi => ?_, fun i hi => ?_, fun i => ?_⟩
  all_goals unfold hdRefresh at *
  · split at hi
    · split at hi
      · rename_i h1 hc
        have hp : (pd i).bz = true := by simp_all
        simp only [h1, hc, if_true, LP.setZ]
        exact hpd i hp
      · rename_i h1 h2; simp only [h1, h2, if_true]; exact hl i hi
    · rename_i h1; simp only [h1]; exact hl i hi
  · split
    · split
      · rename_i _ hc; simp_all
      · exact ⟨hi, rfl⟩
    · exact ⟨hi, rfl⟩
  · split
    · split
      · simp [LP.setZ]
      · exact ⟨rfl, rfl, rfl⟩
    · exact ⟨rfl, rfl, rfl⟩

theorem hdCopyStep_props (T : Truth ι) (lpd : PD ι ℝ) (hl : SoundZ T lpd) (s : St ι ℝ) (i : ι) (hs : SoundZ T s.pd) :
    SoundZ T (hdCopyStep lpd s i).pd ∧ SameXY s.pd (hdCopyStep lpd s i).pd ∧
    (∀ j, (s.pd j).bz = true → ((hdCopyStep lpd s i).pd j).bz = true) ∧
    Sub s.missZ (hdCopyStep lpd s i).missZ ∧ (hdCopyStep lpd s i).missXY = s.missXY ∧
    (hdCopyStep lpd s i).candZ = s.candZ := by
  unfold hdCopyStep
  split
  · rename_i hb
    refine ⟨fun j hj => ?_, fun j => ?_, fun j hj => ?_, sub_erase _ _, rfl, rfl⟩
    · by_cases hji : j = i
      · subst hji; simp only [upd_same, LP.setZ]; exact hl j hb
      · simp only [upd_other _ _ _ _ hji] at hj ⊢; exact hs j hj
    · by_cases hji : j = i
      · subst hji; simp [upd_same, LP.setZ]
      · simp [upd_other _ _ _ _ hji]
    · by_cases hji : j = i
      · subst hji; simp [upd_same, LP.setZ]
      · simp only [upd_other _ _ _ _ hji]; exact hj
  · exact ⟨hs, SameXY.refl _, fun _ h => h, Sub.refl _, rfl, rfl⟩

theorem hdCopyBack_props (T : Truth ι) (lpd : PD ι ℝ) (hl : SoundZ T lpd) (keys : List ι) :
    ∀ s : St ι ℝ, SoundZ T s.pd →
      SoundZ T (hdCopyBack keys lpd s).pd ∧ SameXY s.pd (hdCopyBack keys lpd s).pd ∧
      (∀ j, (s.pd j).bz = true → ((hdCopyBack keys lpd s).pd j).bz = true) ∧
      Sub s.missZ (hdCopyBack keys lpd s).missZ ∧ (hdCopyBack keys lpd s).missXY = s.missXY ∧
      (hdCopyBack keys lpd s).candZ = s.candZ := by
  unfold hdCopyBack
  induction keys with
  | nil => intro s hs; exact ⟨hs, SameXY.refl _, fun _ h => h, Sub.refl _, rfl, rfl⟩
  | cons i is ih =>
    intro s hs
    simp only [List.foldl_cons]
    obtain ⟨a1, a2, a3, a4, a5, a6⟩ := hdCopyStep_props T lpd hl s i hs
    obtain ⟨b1, b2, b3, b4, b5, b6⟩ := ih (hdCopyStep lpd s i) a1
    exact ⟨b1, a2.trans b2, fun j hj => b3 j (a3 j hj), a4.trans b4, b5.trans a5, b6.trans a6⟩

theorem SameXY.sound {T : Truth ι} {a b : PD ι ℝ} (h : SameXY a b) (hs : SoundXY T a) : SoundXY T b := fun i hi => by
  obtain ⟨h1, h2, h3⟩ := h i
  rw [h2, h3]; exact hs i (h1 ▸ hi)
theorem SameZ.sound {T : Truth ι} {a b : PD ι ℝ} (h : SameZ a b) (hs : SoundZ T a) : SoundZ T b := fun i hi => by
  obtain ⟨h1, h2⟩ := h i
  rw [h2]; exact hs i (h1 ▸ hi)

/-- `prepared_ ⇒` the stored height differences are the true ones and the local copy is sound -/
def HdAlgOK (T : Truth ι) (alg : HdAlg ι ℝ) : Prop :=
  alg.prepared = true → (∀ h ∈ alg.hds, HdOK T h) ∧ SoundZ T alg.lpd

theorem hdPrepare_ok (T : Truth ι) (pd : PD ι ℝ) (od : List (Cluster ι ℝ)) (hobs : ∀ h ∈ hdAll od, HdOK T h)
    (hs : SoundZ T pd) : HdAlgOK T (hdPrepare pd od) := by
  intro _
  refine ⟨fun h hh => hobs h (List.mem_filter.mp hh).1, fun i hi => ?_⟩
  simp only [hdPrepare] at hi ⊢
  split at hi
  · rename_i hk; simp only [hk, if_true]; exact hs i hi
  · simp [LP.unset] at hi

theorem hdExecute_props (T : Truth ι) (fuel : Nat) (od : List (Cluster ι ℝ)) (alg alg' : HdAlg ι ℝ) (st st' : St ι ℝ)
    (hobs : ∀ h ∈ hdAll od, HdOK T h) (halg : HdAlgOK T alg) (hs : SoundZ T st.pd)
    (hex : hdExecute fuel od alg st = some (alg', st')) :
    SoundZ T st'.pd ∧ HdAlgOK T alg' ∧ SameXY st.pd st'.pd ∧
    (∀ j, (st.pd j).bz = true → (st'.pd j).bz = true) ∧
    Sub st.missZ st'.missZ ∧ st'.missXY = st.missXY ∧ st'.candZ = st.candZ := by
  unfold hdExecute at hex
  simp only at hex
  have halg2 : HdAlgOK T (if alg.prepared then alg else hdPrepare st.pd od) := by
    by_cases hp : alg.prepared = true
    · simp only [hp, if_true]; exact halg
    · simp only [hp]; exact hdPrepare_ok T st.pd od hobs hs
  have hprep : (if alg.prepared then alg else hdPrepare st.pd od).prepared = true := by
    by_cases hp : alg.prepared = true
    · simp [hp]
    · simp [hp, hdPrepare]
  obtain ⟨hok, hl⟩ := halg2 hprep
  have hr := hdRefresh_props T st.pd (if alg.prepared then alg else hdPrepare st.pd od).keys _ hs hl
  split at hex
  · cases hex
  · rename_i hds lpd hloop
    cases hex
    obtain ⟨a, b, _, _⟩ := hdLoop_props T st.pd fuel _ _ (hds, lpd) hok hr.1 hloop
    obtain ⟨c1, c2, c3, c4, c5, c6⟩ := hdCopyBack_props T lpd b
      (if alg.prepared then alg else hdPrepare st.pd od).keys st hs
    exact ⟨c1, fun _ => ⟨a, b⟩, c2, c3, c4, c5, c6⟩

/-! ## AcordVector -/

def VecOK (T : Truth ι) (h : Vec ι ℝ) : Prop :=
  h.dx = T.x h.t - T.x h.f ∧ h.dy = T.y h.t - T.y h.f ∧ h.dz = T.z h.t - T.z h.f

theorem vecPassStep_sound (T : Truth ι) (ls : PD ι ℝ × Bool) (h : Vec ι ℝ) (hxy : SoundXY T ls.1) (hz : SoundZ T ls.1)
    (hok : VecOK T h) : SoundXY T (vecPassStep ls h).1 ∧ SoundZ T (vecPassStep ls h).1 := by
  obtain ⟨ox, oy, oz⟩ := hok
  unfold vecPassStep
  simp only
  split
  · exact ⟨hxy, hz⟩
  · split
    · rename_i _ hf
      have hf1 : (ls.1 h.f).bxy = true := by simp_all
      have hf2 : (ls.1 h.f).bz = true := by simp_all
      refine ⟨fun i hi => ?_, fun i hi => ?_⟩
      · by_cases hit : i = h.t
        · subst hit; simp only [upd_same, LP.setZ, LP.setXY]
          rw [(hxy h.f hf1).1, (hxy h.f hf1).2, ox, oy]; exact ⟨by ring, by ring⟩
        · simp only [upd_other _ _ _ _ hit] at hi ⊢; exact hxy i hi
      · by_cases hit : i = h.t
        · subst hit; simp only [upd_same, LP.setZ, LP.setXY]; rw [hz h.f hf2, oz]; ring
        · simp only [upd_other _ _ _ _ hit] at hi ⊢; exact hz i hi
    · rename_i hne hf
      have ht : ((ls.1 h.t).bxy && (ls.1 h.t).bz) = true := by
        cases h1 : ((ls.1 h.f).bxy && (ls.1 h.f).bz) <;> cases h2 : ((ls.1 h.t).bxy && (ls.1 h.t).bz) <;> simp_all
      have ht1 : (ls.1 h.t).bxy = true := by simp_all
      have ht2 : (ls.1 h.t).bz = true := by simp_all
      refine ⟨fun i hi => ?_, fun i hi => ?_⟩
      · by_cases hif : i = h.f
        · subst hif; simp only [upd_same, LP.setZ, LP.setXY]
          rw [(hxy h.t ht1).1, (hxy h.t ht1).2, ox, oy]; exact ⟨by ring, by ring⟩
        · simp only [upd_other _ _ _ _ hif] at hi ⊢; exact hxy i hi
      · by_cases hif : i = h.f
        · subst hif; simp only [upd_same, LP.setZ, LP.setXY]; rw [hz h.t ht2, oz]; ring
        · simp only [upd_other _ _ _ _ hif] at hi ⊢; exact hz i hi

/-- flags of the local copy are never cleared by a pass -/
theorem vecPassStep_flags (ls : PD ι ℝ × Bool) (h : Vec ι ℝ) :
    ∀ i, ((ls.1 i).bxy = true → ((vecPassStep ls h).1 i).bxy = true) ∧
         ((ls.1 i).bz = true → ((vecPassStep ls h).1 i).bz = true) := by
  intro i
  unfold vecPassStep
  simp only
  split
  · exact ⟨id, id⟩
  · split
    · by_cases hit : i = h.t
      · subst hit; simp [upd_same, LP.setZ, LP.setXY]
      · simp [upd_other _ _ _ _ hit]
    · by_cases hif : i = h.f
      · subst hif; simp [upd_same, LP.setZ, LP.setXY]
      · simp [upd_other _ _ _ _ hif]

theorem vecPass_props (T : Truth ι) (vs : List (Vec ι ℝ)) (hok : ∀ h ∈ vs, VecOK T h) :
    ∀ ls : PD ι ℝ × Bool, SoundXY T ls.1 → SoundZ T ls.1 →
      SoundXY T (vs.foldl vecPassStep ls).1 ∧ SoundZ T (vs.foldl vecPassStep ls).1 := by
  induction vs with
  | nil => intro ls h1 h2; exact ⟨h1, h2⟩
  | cons h hs' ih =>
    intro ls h1 h2
    simp only [List.foldl_cons]
    obtain ⟨a, b⟩ := vecPassStep_sound T ls h h1 h2 (hok h (by simp))
    exact ih (fun h' hh' => hok h' (by simp [hh'])) _ a b

theorem vecLoop_props (T : Truth ι) (pd : PD ι ℝ) :
    ∀ (fuel : Nat) (vs : List (Vec ι ℝ)) (lpd : PD ι ℝ) (r : List (Vec ι ℝ) × PD ι ℝ),
      (∀ h ∈ vs, VecOK T h) → SoundXY T lpd → SoundZ T lpd → vecLoop pd fuel vs lpd = some r →
      (∀ h ∈ r.1, VecOK T h) ∧ SoundXY T r.2 ∧ SoundZ T r.2 := by
  intro fuel
  induction fuel with
  | zero => intro vs lpd r _ _ _ h; simp [vecLoop] at h
  | succ n ih =>
    intro vs lpd r hok h1 h2 h
    unfold vecLoop at h
    simp only at h
    have hp := vecPass_props T vs hok (lpd, false) h1 h2
    have hok' : ∀ h ∈ vecRemoveKnown pd vs, VecOK T h := fun h hh => hok h (List.mem_filter.mp hh).1
    split at h
    · exact ih _ _ r hok' hp.1 hp.2 h
    · cases h
      exact ⟨hok', hp.1, hp.2⟩

theorem vecRefresh_props (T : Truth ι) (pd : PD ι ℝ) (keys : List ι) (lpd : PD ι ℝ)
    (hpxy : SoundXY T pd) (hpz : SoundZ T pd) (hlxy : SoundXY T lpd) (hlz : SoundZ T lpd) :
    SoundXY T (vecRefresh pd keys lpd) ∧ SoundZ T (vecRefresh pd keys lpd) := by
  refine ⟨fun i hi => ?_, fun i hi => ?_⟩
  all_goals unfold vecRefresh refreshZ refreshXY at *
  all_goals by_cases hk : i ∈ keys
  all_goals simp only [hk, if_true, if_false] at hi ⊢
  · have a := hpxy i; have b := hlxy i
    cases h1 : (lpd i).bxy <;> cases h2 : (pd i).bxy <;> cases h3 : (lpd i).bz <;> cases h4 : (pd i).bz <;>
      simp_all [LP.setXY, LP.setZ]
  · exact hlxy i hi
  · have a := hpz i; have b := hlz i
    cases h1 : (lpd i).bxy <;> cases h2 : (pd i).bxy <;> cases h3 : (lpd i).bz <;> cases h4 : (pd i).bz <;>
      simp_all [LP.setXY, LP.setZ]
  · exact hlz i hi

theorem vecCopyXY_props (T : Truth ι) (lpd : PD ι ℝ) (hl : SoundXY T lpd) (s : St ι ℝ) (i : ι) (hs : SoundXY T s.pd) :
    SoundXY T (vecCopyXY lpd s i).pd ∧ SameZ s.pd (vecCopyXY lpd s i).pd ∧
    (∀ j, (s.pd j).bxy = true → ((vecCopyXY lpd s i).pd j).bxy = true) ∧
    Sub s.missXY (vecCopyXY lpd s i).missXY ∧ (vecCopyXY lpd s i).missZ = s.missZ ∧
    (vecCopyXY lpd s i).candZ = s.candZ := by
  unfold vecCopyXY
  split
  · rename_i hb
    refine ⟨fun j hj => ?_, fun j => ?_, fun j hj => ?_, sub_erase _ _, rfl, rfl⟩
    · by_cases hji : j = i
      · subst hji; simp only [upd_same, LP.setXY]; exact hl j hb
      · simp only [upd_other _ _ _ _ hji] at hj ⊢; exact hs j hj
    · by_cases hji : j = i
      · subst hji; simp [upd_same, LP.setXY]
      · simp [upd_other _ _ _ _ hji]
    · by_cases hji : j = i
      · subst hji; simp [upd_same, LP.setXY]
      · simp only [upd_other _ _ _ _ hji]; exact hj
  · exact ⟨hs, SameZ.refl _, fun _ h => h, Sub.refl _, rfl, rfl⟩

/-- what the copy-back of AcordVector guarantees -/
structure VecCopyProps (T : Truth ι) (s s' : St ι ℝ) : Prop where
  sxy : SoundXY T s'.pd
  sz : SoundZ T s'.pd
  fxy : ∀ j, (s.pd j).bxy = true → (s'.pd j).bxy = true
  fz : ∀ j, (s.pd j).bz = true → (s'.pd j).bz = true
  mxy : Sub s.missXY s'.missXY
  mz : Sub s.missZ s'.missZ
  cand : s'.candZ = s.candZ

theorem vecCopyStep_props (T : Truth ι) (lpd : PD ι ℝ) (hlxy : SoundXY T lpd) (hlz : SoundZ T lpd) (s : St ι ℝ) (i : ι)
    (hsxy : SoundXY T s.pd) (hsz : SoundZ T s.pd) : VecCopyProps T s (vecCopyStep lpd s i) := by
  unfold vecCopyStep
  obtain ⟨a1, a2, a3, a4, a5, a6⟩ := vecCopyXY_props T lpd hlxy s i hsxy
  obtain ⟨b1, b2, b3, b4, b5, b6⟩ := hdCopyStep_props T lpd hlz (vecCopyXY lpd s i) i (a2.sound hsz)
  exact ⟨b2.sound a1, b1, fun j hj => ((b2 j).1).trans (a3 j hj), fun j hj => b3 j (((a2 j).1).trans hj),
    by rw [b5]; exact a4, by rw [← a5]; exact b4, b6.trans a6⟩

theorem vecCopyBack_props (T : Truth ι) (lpd : PD ι ℝ) (hlxy : SoundXY T lpd) (hlz : SoundZ T lpd) (keys : List ι) :
    ∀ s : St ι ℝ, SoundXY T s.pd → SoundZ T s.pd → VecCopyProps T s (vecCopyBack keys lpd s) := by
  unfold vecCopyBack
  induction keys with
  | nil => intro s h1 h2; exact ⟨h1, h2, fun _ h => h, fun _ h => h, Sub.refl _, Sub.refl _, rfl⟩
  | cons i is ih =>
    intro s h1 h2
    simp only [List.foldl_cons]
    have a := vecCopyStep_props T lpd hlxy hlz s i h1 h2
    have b := ih (vecCopyStep lpd s i) a.sxy a.sz
    exact ⟨b.sxy, b.sz, fun j hj => b.fxy j (a.fxy j hj), fun j hj => b.fz j (a.fz j hj),
      a.mxy.trans b.mxy, a.mz.trans b.mz, b.cand.trans a.cand⟩

def VecAlgOK (T : Truth ι) (alg : VecAlg ι ℝ) : Prop :=
  alg.prepared = true → (∀ h ∈ alg.vecs, VecOK T h) ∧ SoundXY T alg.lpd ∧ SoundZ T alg.lpd

theorem vecPrepare_ok (T : Truth ι) (pd : PD ι ℝ) (od : List (Cluster ι ℝ))
    (hobs : ∀ h ∈ vecAll od ⟨0, 0, 0, 0⟩ [], VecOK T h) (h1 : SoundXY T pd) (h2 : SoundZ T pd) :
    VecAlgOK T (vecPrepare pd od) := by
  intro _
  refine ⟨fun h hh => hobs h (List.mem_filter.mp hh).1, fun i hi => ?_, fun i hi => ?_⟩
  all_goals simp only [vecPrepare] at hi ⊢
  all_goals split at hi
  · rename_i hk; simp only [hk, if_true]; exact h1 i hi
  · simp [LP.unset] at hi
  · rename_i hk; simp only [hk, if_true]; exact h2 i hi
  · simp [LP.unset] at hi

theorem vecExecute_props (T : Truth ι) (fuel : Nat) (od : List (Cluster ι ℝ)) (alg alg' : VecAlg ι ℝ) (st st' : St ι ℝ)
    (hobs : ∀ h ∈ vecAll od ⟨0, 0, 0, 0⟩ [], VecOK T h) (halg : VecAlgOK T alg)
    (h1 : SoundXY T st.pd) (h2 : SoundZ T st.pd)
    (hex : vecExecute fuel od alg st = some (alg', st')) :
    VecCopyProps T st st' ∧ VecAlgOK T alg' := by
  unfold vecExecute at hex
  simp only at hex
  have halg2 : VecAlgOK T (if alg.prepared then alg else vecPrepare st.pd od) := by
    by_cases hp : alg.prepared = true
    · simp only [hp, if_true]; exact halg
    · simp only [hp]; exact vecPrepare_ok T st.pd od hobs h1 h2
  have hprep : (if alg.prepared then alg else vecPrepare st.pd od).prepared = true := by
    by_cases hp : alg.prepared = true
    · simp [hp]
    · simp [hp, vecPrepare]
  obtain ⟨hok, hl1, hl2⟩ := halg2 hprep
  have hr := vecRefresh_props T st.pd (if alg.prepared then alg else vecPrepare st.pd od).keys _ h1 h2 hl1 hl2
  split at hex
  · cases hex
  · rename_i vs lpd hloop
    cases hex
    obtain ⟨a, b, c⟩ := vecLoop_props T st.pd fuel _ _ (vs, lpd) hok hr.1 hr.2 hloop
    exact ⟨vecCopyBack_props T lpd b c _ st h1 h2, fun _ => ⟨a, b, c⟩⟩

/-! ## AcordZderived and Acord2::get_medians_z -/

/-- the zenith-angle observation function with instrument / target heights: the raw reading `za` is the polar
    angle, from the vertical, of the line instrument → target: horizontal part `h`, vertical part `v`
    (`v = z_to + to_dh − z_from − from_dh`), slope length `s > 0`, first face (`0 < za < π`, i.e. `sin za > 0`) -/
def IsZenith (h v s za : ℝ) : Prop := 0 < s ∧ h = s * Real.sin za ∧ v = s * Real.cos za ∧ 0 < Real.sin za

theorem zd_pi : (zdPi : ℝ) = π := by simp [zdPi, Real.arccos_neg_one]

/-- a zenith reading in either face, as the linearisation accepts it (C05 `Lin.zenithComputed`:
    `if π < value then 2π − zenith else zenith`): the first-face angle `za ∈ (0, π)` or `2π − za` -/
def IsZenithObs (h v s r : ℝ) : Prop :=
  ∃ za, IsZenith h v s za ∧ 0 < za ∧ za < π ∧ (r = za ∨ r = 2 * π - za)

/-- fix 50e5b35: the reduction recovers the first-face angle -/
theorem zdZenith_eq (h v s r : ℝ) (ho : IsZenithObs h v s r) :
    ∃ za, IsZenith h v s za ∧ zdZenith r = za := by
  obtain ⟨za, hz, h0, hp, hr⟩ := ho
  refine ⟨za, hz, ?_⟩
  unfold zdZenith
  simp only [zd_pi, lt_eq, sub_eq, mul_eq, two_eq]
  rcases hr with rfl | rfl
  · simp [not_lt.mpr hp.le]
  · have : π < 2 * π - za := by linarith
    simp only [this, if_true]; ring

theorem zd_tan (h v s za : ℝ) (hz : IsZenith h v s za) : h * Real.tan (π / 2 - za) = v := by
  obtain ⟨_, hh, hv, hs⟩ := hz
  rw [Real.tan_pi_div_two_sub, Real.tan_eq_sin_div_cos, hh, hv, inv_div]
  field_simp

theorem zd_sin (h v s za : ℝ) (hz : IsZenith h v s za) : s * Real.sin (π / 2 - za) = v := by
  rw [Real.sin_pi_div_two_sub]; exact hz.2.2.1.symm

theorem mem_zdAngles (keep : ι → Bool) (obs : List (Obs ι ℝ)) (za : ZA ι ℝ) (h : za ∈ zdAngles keep obs) :
    keep za.t = true ∧ Obs.zangle za.f za.t za.v za.fdh za.tdh ∈ obs := by
  unfold zdAngles at h
  obtain ⟨o, ho, hm⟩ := List.mem_filterMap.mp h
  cases o with
  | zangle f t v a b =>
    simp only at hm
    split at hm
    · rename_i hk; cases hm; exact ⟨hk, ho⟩
    · cases hm
  | _ => simp at hm

theorem mem_zdDistances (keep : ι → Bool) (obs : List (Obs ι ℝ)) (d : ι × ℝ) (h : d ∈ zdDistances keep obs) :
    keep d.1 = true ∧ ∃ f, Obs.distance f d.1 d.2 ∈ obs := by
  unfold zdDistances at h
  obtain ⟨o, ho, hm⟩ := List.mem_filterMap.mp h
  cases o with
  | distance f t v =>
    simp only at hm
    split at hm
    · rename_i hk; cases hm; exact ⟨hk, f, ho⟩
    · cases hm
  | _ => simp at hm

theorem mem_zdSDistances (keep : ι → Bool) (obs : List (Obs ι ℝ)) (d : ι × ℝ) (h : d ∈ zdSDistances keep obs) :
    keep d.1 = true ∧ ∃ f a b, Obs.sdistance f d.1 d.2 a b ∈ obs := by
  unfold zdSDistances at h
  obtain ⟨o, ho, hm⟩ := List.mem_filterMap.mp h
  cases o with
  | sdistance f t v a b =>
    simp only at hm
    split at hm
    · rename_i hk; cases hm; exact ⟨hk, f, a, b, ho⟩
    · cases hm
  | _ => simp at hm

/-- the observations of one stand-point cluster are the exact functions of the true coordinates:
    zenith angles (either face) are sighted from the station, with their instrument / target heights; a slope
    distance to the same target was measured along the same line (same instrument / target heights);
    horizontal distances are the true ones -/
def ZdOK (T : Truth ι) (station : ι) (obs : List (Obs ι ℝ)) : Prop :=
  (∀ f t v fdh tdh, Obs.zangle f t v fdh tdh ∈ obs → f = station ∧
     ∃ s, IsZenithObs (hd T station t) (T.z t + tdh - (T.z station + fdh)) s v ∧
       ∀ f' v' a b, Obs.sdistance f' t v' a b ∈ obs → v' = s) ∧
  (∀ f t v, Obs.distance f t v ∈ obs → v = hd T station t)

theorem zdCoordDist_eq (T : Truth ι) (pd : PD ι ℝ) (za : ZA ι ℝ) (hxy : SoundXY T pd)
    (hf : (pd za.f).bxy = true) (ht : (pd za.t).bxy = true) : zdCoordDist pd za = hd T za.f za.t := by
  unfold zdCoordDist hd
  simp only [sub_eq, mul_eq, add_eq, sqrt_eq]
  rw [(hxy _ hf).1, (hxy _ hf).2, (hxy _ ht).1, (hxy _ ht).2]
  congr 1; ring

theorem zdTargetHeights_sound (T : Truth ι) (pd : PD ι ℝ) (station : ι) (obs : List (Obs ι ℝ)) (keep : ι → Bool)
    (hxy : SoundXY T pd) (hok : ZdOK T station obs) (za : ZA ι ℝ) (hza : za ∈ zdAngles keep obs) :
    ∀ c ∈ zdTargetHeights pd (T.z station) (zdDistances keep obs) (zdSDistances keep obs) za, c.2 = T.z c.1 := by
  obtain ⟨_, hzo⟩ := mem_zdAngles keep obs za hza
  obtain ⟨hfs, s, hzo', hsd⟩ := hok.1 _ _ _ _ _ hzo
  obtain ⟨za1, hz, hred⟩ := zdZenith_eq _ _ _ _ hzo'
  intro c hc
  unfold zdTargetHeights at hc
  simp only [List.mem_append, List.mem_map, List.mem_filter, decide_eq_true_eq] at hc
  rcases hc with (⟨d, ⟨hd1, hdt⟩, rfl⟩ | ⟨d, ⟨hd1, hdt⟩, rfl⟩) | hc
  · obtain ⟨_, f, hdo⟩ := mem_zdDistances keep obs d hd1
    have hv := hok.2 _ _ _ hdo
    simp only [add_eq, mul_eq, sub_eq, div_eq, two_eq, tan_eq, zd_pi]
    rw [hv, ← hdt, hred, zd_tan _ _ _ _ hz]; ring
  · obtain ⟨_, f, a, b, hdo⟩ := mem_zdSDistances keep obs d hd1
    have hv := hsd _ _ _ _ (hdt ▸ hdo)
    simp only [add_eq, mul_eq, sub_eq, div_eq, two_eq, sin_eq, zd_pi]
    rw [hv, ← hdt, hred, zd_sin _ _ _ _ hz]; ring
  · split at hc
    · rename_i hb
      simp only [Bool.and_eq_true] at hb
      simp only [List.mem_singleton] at hc
      subst hc
      simp only [add_eq, mul_eq, sub_eq, div_eq, two_eq, tan_eq, zd_pi]
      rw [zdCoordDist_eq T pd za hxy hb.1 hb.2, hfs, hred, zd_tan _ _ _ _ hz]; ring
    · simp at hc

theorem zdStationHeights_sound (T : Truth ι) (pd : PD ι ℝ) (station : ι) (obs : List (Obs ι ℝ))
    (hxy : SoundXY T pd) (hzs : SoundZ T pd) (hok : ZdOK T station obs) (za : ZA ι ℝ)
    (hza : za ∈ zdAngles (fun t => (pd t).bz) obs) :
    ∀ h ∈ zdStationHeights pd (zdDistances (fun t => (pd t).bz) obs) (zdSDistances (fun t => (pd t).bz) obs) za,
      h = T.z station := by
  obtain ⟨hkt, hzo⟩ := mem_zdAngles _ obs za hza
  obtain ⟨hfs, s, hzo', hsd⟩ := hok.1 _ _ _ _ _ hzo
  obtain ⟨za1, hz, hred⟩ := zdZenith_eq _ _ _ _ hzo'
  intro c hc
  unfold zdStationHeights at hc
  simp only [List.mem_append, List.mem_map, List.mem_filter, decide_eq_true_eq] at hc
  rcases hc with (⟨d, ⟨hd1, hdt⟩, rfl⟩ | ⟨d, ⟨hd1, hdt⟩, rfl⟩) | hc
  · obtain ⟨hk, f, hdo⟩ := mem_zdDistances _ obs d hd1
    have hv := hok.2 _ _ _ hdo
    simp only [add_eq, mul_eq, sub_eq, div_eq, two_eq, tan_eq, zd_pi]
    rw [hv, hzs _ hk, ← hdt, hred, zd_tan _ _ _ _ hz]; ring
  · obtain ⟨hk, f, a, b, hdo⟩ := mem_zdSDistances _ obs d hd1
    have hv := hsd _ _ _ _ (hdt ▸ hdo)
    simp only [add_eq, mul_eq, sub_eq, div_eq, two_eq, sin_eq, zd_pi]
    rw [hv, hzs _ hk, ← hdt, hred, zd_sin _ _ _ _ hz]; ring
  · split at hc
    · rename_i hb
      simp only [Bool.and_eq_true] at hb
      simp only [List.mem_singleton] at hc
      subst hc
      simp only [add_eq, mul_eq, sub_eq, div_eq, two_eq, tan_eq, zd_pi]
      rw [zdCoordDist_eq T pd za hxy hb.1 hb.2, hfs, hzs _ hkt, hred, zd_tan _ _ _ _ hz]; ring
    · simp at hc

theorem zdTargets_sound (T : Truth ι) (pd : PD ι ℝ) (station : ι) (obs : List (Obs ι ℝ))
    (hxy : SoundXY T pd) (hok : ZdOK T station obs) :
    ∀ c ∈ zdTargets pd (T.z station) obs, c.2 = T.z c.1 := by
  intro c hc
  unfold zdTargets at hc
  obtain ⟨za, hza, hc⟩ := List.mem_flatMap.mp hc
  exact zdTargetHeights_sound T pd station obs _ hxy hok za hza c hc

theorem zdStation_sound (T : Truth ι) (pd : PD ι ℝ) (station : ι) (obs : List (Obs ι ℝ))
    (hxy : SoundXY T pd) (hzs : SoundZ T pd) (hok : ZdOK T station obs) (z : ℝ)
    (h : zdStation pd obs = some z) : z = T.z station := by
  unfold zdStation at h
  simp only at h
  split at h
  · cases h
  · split at h
    · cases h
    · rename_i hne
      cases h
      apply C06L.median2_const
      · intro hnil; rw [hnil] at hne; simp at hne
      · intro x hx
        obtain ⟨za, hza, hx⟩ := List.mem_flatMap.mp hx
        exact zdStationHeights_sound T pd station obs hxy hzs hok za hza x hx

theorem zdCluster_sound (T : Truth ι) (pd : PD ι ℝ) (station : ι) (obs : List (Obs ι ℝ))
    (hxy : SoundXY T pd) (hzs : SoundZ T pd) (hok : ZdOK T station obs) :
    ∀ c ∈ zdCluster pd station obs, c.2 = T.z c.1 := by
  intro c hc
  unfold zdCluster at hc
  split at hc
  · rename_i hb
    rw [hzs _ hb] at hc
    exact zdTargets_sound T pd station obs hxy hok c hc
  · split at hc
    · simp at hc
    · rename_i z hz
      have := zdStation_sound T pd station obs hxy hzs hok z hz
      subst this
      rcases List.mem_cons.mp hc with rfl | hc
      · rfl
      · exact zdTargets_sound T pd station obs hxy hok c hc

/-- every stand-point cluster carries exact observations -/
def OdZdOK (T : Truth ι) : List (Cluster ι ℝ) → Prop
  | [] => True
  | .standpoint s obs :: cs => ZdOK T s obs ∧ OdZdOK T cs
  | _ :: cs => OdZdOK T cs

theorem zdAll_sound (T : Truth ι) (pd : PD ι ℝ) (hxy : SoundXY T pd) (hzs : SoundZ T pd) :
    ∀ od : List (Cluster ι ℝ), OdZdOK T od → ∀ c ∈ zdAll pd od, c.2 = T.z c.1 := by
  intro od
  induction od with
  | nil => intro _ c hc; simp [zdAll] at hc
  | cons cl cs ih =>
    intro hok c hc
    cases cl with
    | standpoint s obs =>
      simp only [zdAll, List.mem_append] at hc
      rcases hc with hc | hc
      · exact zdCluster_sound T pd s obs hxy hzs hok.1 c hc
      · exact ih hok.2 c hc
    | hdiffs o => exact ih hok c (by simpa [zdAll] using hc)
    | vectors o => exact ih hok c (by simpa [zdAll] using hc)

/-- candidates are only proposed for points whose height is not defined -/
theorem zdCluster_unknown (pd : PD ι ℝ) (station : ι) (obs : List (Obs ι ℝ)) :
    ∀ c ∈ zdCluster pd station obs, (pd c.1).bz = false := by
  have htg : ∀ z, ∀ c ∈ zdTargets pd z obs, (pd c.1).bz = false := by
    intro z c hc
    unfold zdTargets at hc
    obtain ⟨za, hza, hc⟩ := List.mem_flatMap.mp hc
    obtain ⟨hk, _⟩ := mem_zdAngles _ obs za hza
    have hk' : (pd za.t).bz = false := by simpa using hk
    unfold zdTargetHeights at hc
    simp only [List.mem_append, List.mem_map, List.mem_filter, decide_eq_true_eq] at hc
    rcases hc with (⟨d, ⟨_, hdt⟩, rfl⟩ | ⟨d, ⟨_, hdt⟩, rfl⟩) | hc
    · simpa [← hdt] using hk'
    · simpa [← hdt] using hk'
    · split at hc
      · simp only [List.mem_singleton] at hc; subst hc; exact hk'
      · simp at hc
  intro c hc
  unfold zdCluster at hc
  split at hc
  · exact htg _ c hc
  · rename_i hb
    split at hc
    · simp at hc
    · rcases List.mem_cons.mp hc with rfl | hc
      · simpa using hb
      · exact htg _ c hc

theorem zdAll_unknown (pd : PD ι ℝ) : ∀ od : List (Cluster ι ℝ), ∀ c ∈ zdAll pd od, (pd c.1).bz = false := by
  intro od
  induction od with
  | nil => intro c hc; simp [zdAll] at hc
  | cons cl cs ih =>
    intro c hc
    cases cl with
    | standpoint s obs =>
      simp only [zdAll, List.mem_append] at hc
      rcases hc with hc | hc
      · exact zdCluster_unknown pd s obs c hc
      · exact ih c hc
    | hdiffs o => exact ih c (by simpa [zdAll] using hc)
    | vectors o => exact ih c (by simpa [zdAll] using hc)

theorem mem_dedup (l : List ι) (i : ι) (h : i ∈ dedup l) : i ∈ l := by
  induction l with
  | nil => simp [dedup] at h
  | cons a as ih =>
    simp only [dedup, List.mem_cons, List.mem_filter] at h
    rcases h with h | ⟨h, _⟩
    · simp [h]
    · simp [ih h]

theorem medZFold_props (T : Truth ι) (cand : List (ι × ℝ)) (st0 : St ι ℝ)
    (hcand : ∀ c ∈ cand, c.2 = T.z c.1) (hunk : ∀ c ∈ cand, (st0.pd c.1).bz = false) (ids : List ι)
    (hids : ∀ i ∈ ids, i ∈ cand.map (·.1)) :
    ∀ s : St ι ℝ, SoundZ T s.pd → KeepZ st0.pd s.pd → SameXY st0.pd s.pd → Sub st0.missZ s.missZ →
      s.missXY = st0.missXY →
      SoundZ T (ids.foldl (medZStep cand) s).pd ∧ KeepZ st0.pd (ids.foldl (medZStep cand) s).pd ∧
      SameXY st0.pd (ids.foldl (medZStep cand) s).pd ∧ Sub st0.missZ (ids.foldl (medZStep cand) s).missZ ∧
      (ids.foldl (medZStep cand) s).missXY = st0.missXY := by
  induction ids with
  | nil => intro s a b c d e; exact ⟨a, b, c, d, e⟩
  | cons i is ih =>
    intro s a b c d e
    simp only [List.foldl_cons]
    obtain ⟨ci, hci, hi1⟩ := List.mem_map.mp (hids i (by simp))
    have hunk_i : (st0.pd i).bz = false := hi1 ▸ hunk ci hci
    apply ih (fun j hj => hids j (by simp [hj]))
    · intro j hj
      by_cases hji : j = i
      · subst hji
        simp only [medZStep, upd_same, LP.setZ]
        apply C06L.median2_const
        · intro hnil
          have : ci.2 ∈ (cand.filter (fun c => decide (c.1 = j))).map (·.2) :=
            List.mem_map.mpr ⟨ci, List.mem_filter.mpr ⟨hci, by simp [hi1]⟩, rfl⟩
          rw [hnil] at this; simp at this
        · intro x hx
          obtain ⟨c', hc', rfl⟩ := List.mem_map.mp hx
          obtain ⟨hc1, hc2⟩ := List.mem_filter.mp hc'
          have : c'.1 = j := by simpa using hc2
          rw [← this]; exact hcand c' hc1
      · simp only [medZStep, upd_other _ _ _ _ hji] at hj ⊢; exact a j hj
    · intro j hj
      have hji : j ≠ i := by rintro rfl; rw [hunk_i] at hj; exact absurd hj (by simp)
      simp only [medZStep, upd_other _ _ _ _ hji]; exact b j hj
    · intro j
      by_cases hji : j = i
      · subst hji; simp only [medZStep, upd_same, LP.setZ]; exact c j
      · simp only [medZStep, upd_other _ _ _ _ hji]; exact c j
    · exact d.trans (sub_erase _ _)
    · exact e

theorem getMediansZ_props (T : Truth ι) (st : St ι ℝ) (hcand : ∀ c ∈ st.candZ, c.2 = T.z c.1)
    (hunk : ∀ c ∈ st.candZ, (st.pd c.1).bz = false) (hs : SoundZ T st.pd) :
    SoundZ T (getMediansZ st).pd ∧ KeepZ st.pd (getMediansZ st).pd ∧ SameXY st.pd (getMediansZ st).pd ∧
    Sub st.missZ (getMediansZ st).missZ ∧ (getMediansZ st).missXY = st.missXY :=
  medZFold_props T st.candZ st hcand hunk _ (fun i hi => mem_dedup _ i hi) st hs (KeepZ.refl _) (SameXY.refl _)
    (Sub.refl _) rfl

/-- monotonicity of get_medians_z does not need consistent data -/
theorem getMediansZ_mono (st : St ι ℝ) (hunk : ∀ c ∈ st.candZ, (st.pd c.1).bz = false) :
    KeepZ st.pd (getMediansZ st).pd ∧ SameXY st.pd (getMediansZ st).pd ∧
    Sub st.missZ (getMediansZ st).missZ ∧ (getMediansZ st).missXY = st.missXY := by
  -- instantiate the invariant with the "truth" the candidates themselves define: not needed for these parts,
  -- so run the fold once more without the soundness component
  suffices h : ∀ (ids : List ι), (∀ i ∈ ids, i ∈ st.candZ.map (·.1)) → ∀ s : St ι ℝ,
      KeepZ st.pd s.pd → SameXY st.pd s.pd → Sub st.missZ s.missZ → s.missXY = st.missXY →
      KeepZ st.pd (ids.foldl (medZStep st.candZ) s).pd ∧ SameXY st.pd (ids.foldl (medZStep st.candZ) s).pd ∧
      Sub st.missZ (ids.foldl (medZStep st.candZ) s).missZ ∧ (ids.foldl (medZStep st.candZ) s).missXY = st.missXY from
    h _ (fun i hi => mem_dedup _ i hi) st (KeepZ.refl _) (SameXY.refl _) (Sub.refl _) rfl
  intro ids
  induction ids with
  | nil => intro _ s b c d e; exact ⟨b, c, d, e⟩
  | cons i is ih =>
    intro hids s b c d e
    simp only [List.foldl_cons]
    obtain ⟨ci, hci, hi1⟩ := List.mem_map.mp (hids i (by simp))
    have hunk_i : (st.pd i).bz = false := hi1 ▸ hunk ci hci
    apply ih (fun j hj => hids j (by simp [hj]))
    · intro j hj
      have hji : j ≠ i := by rintro rfl; rw [hunk_i] at hj; exact absurd hj (by simp)
      simp only [medZStep, upd_other _ _ _ _ hji]; exact b j hj
    · intro j
      by_cases hji : j = i
      · subst hji; simp only [medZStep, upd_same, LP.setZ]; exact c j
      · simp only [medZStep, upd_other _ _ _ _ hji]; exact c j
    · exact d.trans (sub_erase _ _)
    · exact e

/-- one round of AcordZderived as Acord2::execute runs it: `execute()`, then `get_medians_z()` -/
noncomputable def zdRound (od : List (Cluster ι ℝ)) (alg : ZdAlg) (st : St ι ℝ) : ZdAlg × St ι ℝ :=
  ((zdExecute od alg st).1, getMediansZ (zdExecute od alg st).2)

theorem zdExecute_cand (od : List (Cluster ι ℝ)) (alg : ZdAlg) (st : St ι ℝ) (h0 : st.candZ = []) :
    (zdExecute od alg st).2.pd = st.pd ∧ (zdExecute od alg st).2.missZ = st.missZ ∧
    (zdExecute od alg st).2.missXY = st.missXY ∧
    ((zdExecute od alg st).2.candZ = [] ∨ (zdExecute od alg st).2.candZ = zdAll st.pd od) := by
  unfold zdExecute
  split
  · exact ⟨rfl, rfl, rfl, Or.inl h0⟩
  · exact ⟨rfl, rfl, rfl, Or.inr (by simp [h0])⟩

theorem zdRound_sound (T : Truth ι) (od : List (Cluster ι ℝ)) (alg : ZdAlg) (st : St ι ℝ) (h0 : st.candZ = [])
    (hok : OdZdOK T od) (hxy : SoundXY T st.pd) (hz : SoundZ T st.pd) :
    SoundZ T (zdRound od alg st).2.pd ∧ SoundXY T (zdRound od alg st).2.pd := by
  obtain ⟨e1, _, _, e4⟩ := zdExecute_cand od alg st h0
  have hc : ∀ c ∈ (zdExecute od alg st).2.candZ, c.2 = T.z c.1 ∧ ((zdExecute od alg st).2.pd c.1).bz = false := by
    intro c hc
    rcases e4 with e | e
    · rw [e] at hc; simp at hc
    · rw [e] at hc; rw [e1]; exact ⟨zdAll_sound T st.pd hxy hz od hok c hc, zdAll_unknown st.pd od c hc⟩
  obtain ⟨a, _, c, _, _⟩ := getMediansZ_props T (zdExecute od alg st).2 (fun c h => (hc c h).1) (fun c h => (hc c h).2)
    (e1 ▸ hz)
  exact ⟨a, c.sound (e1 ▸ hxy)⟩

theorem zdRound_mono (od : List (Cluster ι ℝ)) (alg : ZdAlg) (st : St ι ℝ) (h0 : st.candZ = []) :
    KeepZ st.pd (zdRound od alg st).2.pd ∧ SameXY st.pd (zdRound od alg st).2.pd ∧
    Sub st.missZ (zdRound od alg st).2.missZ ∧ (zdRound od alg st).2.missXY = st.missXY := by
  obtain ⟨e1, e2, e3, e4⟩ := zdExecute_cand od alg st h0
  have hc : ∀ c ∈ (zdExecute od alg st).2.candZ, ((zdExecute od alg st).2.pd c.1).bz = false := by
    intro c hc
    rcases e4 with e | e
    · rw [e] at hc; simp at hc
    · rw [e] at hc; rw [e1]; exact zdAll_unknown st.pd od c hc
  have := getMediansZ_mono (zdExecute od alg st).2 hc
  rw [e1, e2, e3] at this
  exact this

/-! ## regressions of the two findings of round 3 (fixed by 8d96812 and 50e5b35) -/

/-- second-face reading `2π − za`: the candidate is the true height `stZ + v + dh` (it was `stZ − v + dh`) -/
theorem zd_face2_regression (T : Truth ι) (pd : PD ι ℝ) (f t : ι) (stZ fdh tdh za s : ℝ)
    (hz : IsZenith (hd T f t) (T.z t + tdh - (T.z f + fdh)) s za) (h0 : 0 < za) (hp : za < π)
    (hb : (pd f).bxy = false) :
    zdTargetHeights pd stZ [(t, hd T f t)] [] ⟨f, t, 2 * π - za, fdh, tdh⟩ =
      [(t, stZ + (T.z t + tdh - (T.z f + fdh)) + (fdh - tdh))] := by
  obtain ⟨za1, hz1, hred⟩ := zdZenith_eq _ _ _ (2 * π - za) ⟨za, hz, h0, hp, Or.inr rfl⟩
  unfold zdTargetHeights
  simp only [hb, Bool.false_and, decide_true, List.filter_cons_of_pos, List.filter_nil, List.map_cons, List.map_nil,
    List.append_nil, add_eq, mul_eq, sub_eq, div_eq, two_eq, tan_eq, zd_pi]
  simp only [Bool.false_eq_true, if_false, List.append_nil]
  rw [hred, zd_tan _ _ _ _ hz1]

/-- the reverse azimuth π of a forward azimuth 0 is still turned round to 2π … -/
theorem az_seam_normalize (lt : ι → ι → Bool) (a b : ι) (h : lt a b = true) :
    azNormalize lt b a (π : ℝ) = (a, b, 2 * π) := by
  unfold azNormalize
  simp only [h, if_true, add_eq, pi_eq, C06L.twoPi_eq, sub_eq, lt_eq]
  have : ¬ (2 * π < π + π) := by linarith
  simp only [this, if_false]
  congr 2; ring

/-- … but the seam treatment brings it back next to the first value: the median is 0 (it was π) -/
theorem az_seam_regression (n : Nat) : median2 (azSeam (n + 1) ([0, 2 * π] : List ℝ)) = 0 := by
  have hpi := Real.pi_pos
  have e0 : seamUp (0:ℝ) (n + 1) (seamDown 0 (n + 1) 0) = 0 := by
    rw [seamDown_stop 0 0 (n + 1) (by simp; linarith), seamUp_stop 0 0 (n + 1) (by simp; linarith)]
  have e1 : seamUp (0:ℝ) (n + 1) (seamDown 0 (n + 1) (2 * π)) = 0 := by
    have : seamDown (0:ℝ) (n + 1) (2 * π) = 0 := by
      have h1 : π < 2 * π - 0 := by linarith
      simp only [seamDown, sub_eq, lt_eq, pi_eq, h1, if_true, C06L.twoPi_eq]
      rw [show 2 * π - 2 * π = (0:ℝ) by ring]
      exact seamDown_stop 0 0 n (by simp; linarith)
    rw [this, seamUp_stop 0 0 (n + 1) (by simp; linarith)]
  have hs : azSeam (n + 1) ([0, 2 * π] : List ℝ) = [0, 0] := by
    simp only [azSeam, List.map_cons, List.map_nil, e0, e1]
  rw [hs]
  exact C06L.median2_const _ 0 (by simp) (by simp)

/-- the zenith angle as C05 states it (`Lin.zenith = arccos (dZ / sdist)`) is a first-face `IsZenith`
    whenever the sight is not vertical -/
theorem isZenith_arccos (h v : ℝ) (hh : 0 < h) :
    IsZenith h v (Real.sqrt (h * h + v * v)) (Real.arccos (v / Real.sqrt (h * h + v * v))) ∧
    0 < Real.arccos (v / Real.sqrt (h * h + v * v)) ∧ Real.arccos (v / Real.sqrt (h * h + v * v)) < π := by
  suffices hmain : IsZenith h v (Real.sqrt (h * h + v * v)) (Real.arccos (v / Real.sqrt (h * h + v * v))) by
    have hs := hmain.2.2.2
    refine ⟨hmain, ?_, ?_⟩
    · rcases (Real.arccos_nonneg (v / Real.sqrt (h * h + v * v))).lt_or_eq with h1 | h1
      · exact h1
      · rw [← h1] at hs; simp at hs
    · rcases (Real.arccos_le_pi (v / Real.sqrt (h * h + v * v))).lt_or_eq with h1 | h1
      · exact h1
      · rw [h1] at hs; simp at hs
  have hpos : 0 < h * h + v * v := by nlinarith [mul_pos hh hh, mul_self_nonneg v]
  have hs : 0 < Real.sqrt (h * h + v * v) := Real.sqrt_pos.mpr hpos
  have hss : Real.sqrt (h * h + v * v) * Real.sqrt (h * h + v * v) = h * h + v * v := Real.mul_self_sqrt hpos.le
  set s := Real.sqrt (h * h + v * v) with hsdef
  have hle : v * v ≤ s * s := by rw [hss]; nlinarith
  have habs : |v| ≤ s := abs_le_of_sq_le_sq' (by nlinarith) hs.le |> fun ⟨a, b⟩ => abs_le.mpr ⟨a, b⟩
  have h1 : -1 ≤ v / s := by rw [le_div_iff₀ hs]; linarith [(abs_le.mp habs).1]
  have h2 : v / s ≤ 1 := by rw [div_le_iff₀ hs]; linarith [(abs_le.mp habs).2]
  have hsin : Real.sin (Real.arccos (v / s)) = h / s := by
    rw [Real.sin_arccos]
    have : 1 - (v / s) ^ 2 = (h / s) ^ 2 := by
      field_simp
      nlinarith
    rw [this, Real.sqrt_sq (div_nonneg hh.le hs.le)]
  refine ⟨hs, ?_, ?_, ?_⟩
  · rw [hsin]; field_simp
  · rw [Real.cos_arccos h1 h2]; field_simp
  · rw [hsin]; exact div_pos hh hs

end Gama.C06A
