/-
  Lemmas about the run of the adjustment-results reader model (Model/AdjResRun.lean over the GENERATED tables of
  Gen/AdjResAutomaton.lean).  Facts about the generated tables are proved by `decide`: they are re-checked
  whenever the C++ (hence the tables) changes.
-/
import Gama.Model.AdjResRun
namespace Gama.AdjRes

/-! ### CoreParser::error: only `error()` touches `err`; first error wins -/

/-- `st'` was obtained from `st` inside one callback: the event counter is the same and `err` changed at most by
    a first `error()` call -/
structure ErrStep (st st' : St) : Prop where
  n_eq : st'.n = st.n
  pres : ∀ e, st.err = some e → st'.err = some e
  new : st.err = none → st'.err = none ∨ ∃ k, st'.err = some (st.n, k)

theorem ErrStep.refl (st : St) : ErrStep st st := ⟨rfl, fun _ h => h, fun h => .inl h⟩

theorem ErrStep.of_eq {st st' : St} (h1 : st'.err = st.err) (h2 : st'.n = st.n) : ErrStep st st' :=
  ⟨h2, fun _ h => h1 ▸ h, fun h => .inl (h1 ▸ h)⟩

theorem ErrStep.trans {a b c : St} (h1 : ErrStep a b) (h2 : ErrStep b c) : ErrStep a c := by
  refine ⟨h2.n_eq.trans h1.n_eq, fun e h => h2.pres e (h1.pres e h), fun h => ?_⟩
  rcases h1.new h with hb | ⟨k, hk⟩
  · rcases h2.new hb with hc | ⟨k, hk⟩
    · exact .inl hc
    · exact .inr ⟨k, by rw [hk, h1.n_eq]⟩
  · exact .inr ⟨k, h2.pres _ hk⟩

theorem ErrStep.error (st : St) (k : Err) : ErrStep st (st.error k) := by
  unfold St.error
  cases h : st.err with
  | some e => exact ⟨rfl, fun _ h' => h', fun h' => by simp [h] at h'⟩
  | none => exact ⟨rfl, fun _ h' => by simp [h] at h', fun _ => .inr ⟨k, rfl⟩⟩

theorem ErrStep.setState (st : St) (s : State) : ErrStep st (st.setState s) := by
  unfold St.setState; split
  · split
    · exact .refl _
    · exact .of_eq rfl rfl
  · exact .of_eq rfl rfl

theorem ErrStep.checkData (st : St) : ErrStep st st.checkData := by
  unfold St.checkData; split
  · exact .of_eq rfl rfl
  · exact (ErrStep.error st _).trans (.of_eq rfl rfl)

theorem ErrStep.getIntCheck (st : St) : ErrStep st st.getIntCheck := by
  unfold St.getIntCheck; split
  · exact .refl _
  · exact .error _ _

theorem ErrStep.getFloatCheck (st : St) : ErrStep st st.getFloatCheck := by
  unfold St.getFloatCheck; split
  · exact .refl _
  · exact .error _ _

theorem ErrStep.iterErr (st : St) (g : Option State) (w : Bool) (e : Err) : ErrStep st (st.iterErr g w e) := by
  unfold St.iterErr; split
  · exact .error _ _
  · split
    · split
      · exact .error _ _
      · exact .refl _
    · simp only; split
      · exact (ErrStep.of_eq (st := st) (st' := { st with uninitCovEnd := true }) rfl rfl).trans (.error _ _)
      · exact .of_eq rfl rfl

theorem ErrStep.store (st : St) (g : Bool) : ErrStep st (st.store g) := by
  unfold St.store; split
  · split
    · exact .refl _
    · exact (ErrStep.getFloatCheck st).trans (.of_eq rfl rfl)
  · exact .of_eq rfl rfl

/-- the bookkeeping statements touch none of `state`, `err`, `n`, the stack, the covariance storage -/
theorem book_same (st : St) (b : Book) :
    (st.book b).err = st.err ∧ (st.book b).n = st.n ∧ (st.book b).state = st.state ∧ (st.book b).stack = st.stack ∧
    (st.book b).iterI = st.iterI ∧ (st.book b).iterE = st.iterE ∧ (st.book b).covSize = st.covSize ∧
    (st.book b).writes = st.writes ∧ (st.book b).uninitStore = st.uninitStore ∧ (st.book b).uninitCovEnd = st.uninitCovEnd := by
  cases b <;> simp only [St.book] <;> (try split) <;> simp

theorem attrLoop_errStep (names : List (String × AttrKind)) (ue : Err) :
    ∀ (as : List (String × String)) (st : St), ErrStep st (attrLoop names ue as st).1 := by
  intro as
  induction as with
  | nil => intro st; exact .refl _
  | cons a r ih =>
    intro st
    obtain ⟨a, v⟩ := a
    simp only [attrLoop]
    split
    · exact .error _ _
    · exact ih st
    · exact (ErrStep.of_eq (st := st) (st' := { st with category := v }) rfl rfl).trans (ih _)
    · split
      · exact ih st
      · exact .error _ _

theorem execOp_errStep (op : Op) (as : List (String × String)) (st : St) : ErrStep st (execOp op as st).1 := by
  cases op with
  | push h => exact .of_eq rfl rfl
  | setState s => exact .setState _ _
  | assignState s => exact .of_eq rfl rfl
  | attrs names ue => exact attrLoop_errStep names ue as st
  | needCategory e =>
    simp only [execOp]; split
    · exact .error _ _
    · exact .refl _
  | getInt d =>
    simp only [execOp]
    cases d
    · exact .getIntCheck _
    · exact (ErrStep.getIntCheck st).trans (.of_eq rfl rfl)
    · exact (ErrStep.getIntCheck st).trans (.of_eq rfl rfl)
  | getFloat => exact .getFloatCheck _
  | getString d => cases d <;> exact .of_eq rfl rfl
  | checkData => exact .checkData _
  | clearCategory => exact .of_eq rfl rfl
  | stageSet k => exact .of_eq rfl rfl
  | stageSwitch cases e =>
    simp only [execOp]; split
    · exact .getIntCheck _
    · exact .error _ _
  | requireState ss e =>
    simp only [execOp]; split
    · exact .error _ _
    · exact .refl _
  | requireFlagEq a b e =>
    simp only [execOp]; split
    · exact .error _ _
    · exact .refl _
  | setFlag f v => exact .of_eq rfl rfl
  | covGuard e =>
    simp only [execOp]; split
    · exact (ErrStep.error st e).trans (.of_eq rfl rfl)
    · exact .refl _
  | covReset => exact .of_eq rfl rfl
  | iterBegin => exact .of_eq rfl rfl
  | iterEnd => exact .of_eq rfl rfl
  | iterErr g w e => exact .iterErr _ _ _ _
  | store g => exact .store _ _
  | requireString al e =>
    simp only [execOp]; split
    · exact .refl _
    · exact .error _ _
  | error e => exact .error _ _
  | data => exact .refl _
  | book b => exact .of_eq (book_same st b).1 (book_same st b).2.1

theorem execOps_errStep (ops : List Op) (as : List (String × String)) :
    ∀ st : St, ErrStep st (execOps ops as st) := by
  induction ops with
  | nil => intro st; exact .refl _
  | cons op r ih =>
    intro st
    have h := execOp_errStep op as st
    simp only [execOps]
    split
    · next st' heq => rw [heq] at h; exact h.trans (ih st')
    · next st' heq => rw [heq] at h; exact h

theorem ErrStep.setFlag (st : St) (f : Flag) (v : Bool) : ErrStep st (st.setFlag f v) := .of_eq rfl rfl

theorem tagOf_errStep (st : St) (name : String) : ErrStep st (tagOf st name).1 := by
  unfold tagOf; split
  · exact .setFlag _ _ _
  · exact .refl _
  · exact .error _ _

theorem react_errStep (st : St) (ev : Event) : ErrStep st (react st ev) := by
  cases ev with
  | start name as =>
    simp only [react]
    exact (ErrStep.checkData st).trans ((tagOf_errStep _ name).trans (execOps_errStep _ _ _))
  | stop =>
    simp only [react]
    split
    · exact (ErrStep.of_eq (st := st) (st' := { st with stack := [] }) rfl rfl).trans ((execOps_errStep _ _ _).trans (.of_eq rfl rfl))
    · next h r _ => exact (ErrStep.of_eq (st := st) (st' := { st with stack := r }) rfl rfl).trans ((execOps_errStep _ _ _).trans (.of_eq rfl rfl))
  | text s => exact .of_eq rfl rfl

theorem step_n (st : St) (e : Event) : (step st e).n = st.n + 1 := by simp [step]

theorem step_err_preserved (st : St) (ev : Event) {e} (h : st.err = some e) : (step st ev).err = some e :=
  (react_errStep st ev).pres e h

theorem step_err_new (st : St) (ev : Event) (h : st.err = none) :
    (step st ev).err = none ∨ ∃ k, (step st ev).err = some (st.n, k) := (react_errStep st ev).new h

theorem run_nil (st : St) : run st [] = st := rfl
theorem run_cons (st : St) (e : Event) (es : List Event) : run st (e :: es) = run (step st e) es := rfl
theorem run_append (st : St) (a b : List Event) : run st (a ++ b) = run (run st a) b := by
  simp [run, List.foldl_append]

theorem run_n (evs : List Event) : ∀ st : St, (run st evs).n = st.n + evs.length := by
  induction evs with
  | nil => intro st; rfl
  | cons e es ih => intro st; rw [run_cons, ih, step_n]; simp; omega

theorem run_err_preserved (evs : List Event) : ∀ (st : St) e, st.err = some e → (run st evs).err = some e := by
  induction evs with
  | nil => intro st e h; exact h
  | cons ev es ih => intro st e h; rw [run_cons]; exact ih _ _ (step_err_preserved st ev h)

/-- the recorded error is that of the first offending event -/
theorem run_err_located (evs : List Event) : ∀ (st : St) i k, st.err = none → (run st evs).err = some (i, k) →
    st.n ≤ i ∧ i < st.n + evs.length ∧
    (run st (evs.take (i - st.n))).err = none ∧
    (run st (evs.take (i - st.n + 1))).err = some (i, k) := by
  induction evs with
  | nil => intro st i k h h'; simp [run] at h'; rw [h] at h'; cases h'
  | cons ev es ih =>
    intro st i k h h'
    rw [run_cons] at h'
    rcases step_err_new st ev h with hn | ⟨k', hk⟩
    · have := ih (step st ev) i k hn h'
      rw [step_n] at this
      obtain ⟨h1, h2, h3, h4⟩ := this
      refine ⟨by omega, by simp; omega, ?_, ?_⟩
      · have : i - st.n = (i - (st.n + 1)) + 1 := by omega
        rw [this, List.take_succ_cons, run_cons]; exact h3
      · have : i - st.n + 1 = (i - (st.n + 1) + 1) + 1 := by omega
        rw [this, List.take_succ_cons, run_cons]; exact h4
    · have := run_err_preserved es (step st ev) _ hk
      rw [this] at h'
      cases h'
      refine ⟨Nat.le_refl _, by simp, ?_, ?_⟩
      · simpa [run] using h
      · simp [run, hk]

/-! ### `state == s_error` ⇔ an error was recorded

  `error()` is the only way into `s_error`, and nothing leaves it: needs that `set_state` is guarded by
  `if (state)`, that no handler assigns `state` directly and that no handler calls `set_state(s_error)`
  (`decide`d over the generated handler bodies). -/

def Coupled (st : St) : Prop := st.err.isSome = true ↔ st.state = .error_

/-- statements that respect the coupling -/
def opOk : Op → Bool
  | .assignState _ => false
  | .setState s => s != .error_
  | _ => true

theorem Handler.mem_all (h : Handler) : h ∈ Handler.all := by cases h <;> decide

theorem forall_handler {p : Handler → Prop} [DecidablePred p] (h : Handler.all.all (fun t => decide (p t)) = true) :
    ∀ t, p t := fun t => by simpa using List.all_eq_true.mp h t (Handler.mem_all t)

theorem setState_is_guarded : setStateGuarded = true := by decide

theorem handlers_ok : ∀ h : Handler, (startOps h).all opOk = true ∧ (endOps h).all opOk = true :=
  forall_handler (by decide)

theorem Coupled.error {st : St} (hc : Coupled st) (k : Err) : Coupled (st.error k) := by
  unfold St.error
  cases h : st.err with
  | some e => simpa [h] using hc
  | none => simp [Coupled]

theorem Coupled.of_eq {st st' : St} (hc : Coupled st) (h1 : st'.err = st.err) (h2 : st'.state = st.state) :
    Coupled st' := by unfold Coupled at *; rw [h1, h2]; exact hc

theorem Coupled.setState {st : St} (hc : Coupled st) {s : State} (hs : s ≠ .error_) : Coupled (st.setState s) := by
  unfold St.setState
  rw [setState_is_guarded]
  simp only [if_true]
  split
  · exact hc
  · next hne =>
    unfold Coupled at *
    simp only
    constructor
    · intro h; exact absurd (hc.mp h) hne
    · intro h; exact absurd h hs

theorem Coupled.checkData {st : St} (hc : Coupled st) : Coupled st.checkData := by
  unfold St.checkData; split
  · exact hc.of_eq rfl rfl
  · exact (hc.error _).of_eq rfl rfl

theorem Coupled.getIntCheck {st : St} (hc : Coupled st) : Coupled st.getIntCheck := by
  unfold St.getIntCheck; split
  · exact hc
  · exact hc.error _

theorem Coupled.getFloatCheck {st : St} (hc : Coupled st) : Coupled st.getFloatCheck := by
  unfold St.getFloatCheck; split
  · exact hc
  · exact hc.error _

theorem Coupled.iterErr {st : St} (hc : Coupled st) (g : Option State) (w : Bool) (e : Err) : Coupled (st.iterErr g w e) := by
  unfold St.iterErr; split
  · exact hc.error _
  · split
    · split
      · exact hc.error _
      · exact hc
    · simp only; split
      · exact (hc.of_eq (st' := { st with uninitCovEnd := true }) rfl rfl).error _
      · exact hc.of_eq rfl rfl

theorem Coupled.store {st : St} (hc : Coupled st) (g : Bool) : Coupled (st.store g) := by
  unfold St.store; split
  · split
    · exact hc
    · exact hc.getFloatCheck.of_eq rfl rfl
  · exact hc.of_eq rfl rfl

theorem attrLoop_coupled (names : List (String × AttrKind)) (ue : Err) :
    ∀ (as : List (String × String)) (st : St), Coupled st → Coupled (attrLoop names ue as st).1 := by
  intro as
  induction as with
  | nil => intro st hc; exact hc
  | cons a r ih =>
    intro st hc
    obtain ⟨a, v⟩ := a
    simp only [attrLoop]
    split
    · exact hc.error _
    · exact ih st hc
    · exact ih _ (hc.of_eq rfl rfl)
    · split
      · exact ih st hc
      · exact hc.error _

theorem execOp_coupled (op : Op) (as : List (String × String)) (st : St) (hok : opOk op = true) (hc : Coupled st) :
    Coupled (execOp op as st).1 := by
  cases op with
  | push h => exact hc.of_eq rfl rfl
  | setState s => exact hc.setState (by simpa [opOk] using hok)
  | assignState s => simp [opOk] at hok
  | attrs names ue => exact attrLoop_coupled names ue as st hc
  | needCategory e =>
    simp only [execOp]; split
    · exact hc.error _
    · exact hc
  | getInt d =>
    simp only [execOp]
    cases d
    · exact hc.getIntCheck
    · exact hc.getIntCheck.of_eq rfl rfl
    · exact hc.getIntCheck.of_eq rfl rfl
  | getFloat => exact hc.getFloatCheck
  | getString d => cases d <;> exact hc.of_eq rfl rfl
  | checkData => exact hc.checkData
  | clearCategory => exact hc.of_eq rfl rfl
  | stageSet k => exact hc.of_eq rfl rfl
  | stageSwitch cases e =>
    simp only [execOp]; split
    · exact hc.getIntCheck
    · exact hc.error _
  | requireState ss e =>
    simp only [execOp]; split
    · exact hc.error _
    · exact hc
  | requireFlagEq a b e =>
    simp only [execOp]; split
    · exact hc.error _
    · exact hc
  | setFlag f v => exact hc.of_eq rfl rfl
  | covGuard e =>
    simp only [execOp]; split
    · exact (hc.error e).of_eq rfl rfl
    · exact hc
  | covReset => exact hc.of_eq rfl rfl
  | iterBegin => exact hc.of_eq rfl rfl
  | iterEnd => exact hc.of_eq rfl rfl
  | iterErr g w e => exact hc.iterErr _ _ _
  | store g => exact hc.store _
  | requireString al e =>
    simp only [execOp]; split
    · exact hc
    · exact hc.error _
  | error e => exact hc.error _
  | data => exact hc
  | book b => exact hc.of_eq (book_same st b).1 (book_same st b).2.2.1

theorem execOps_coupled (ops : List Op) (as : List (String × String)) (hok : ops.all opOk = true) :
    ∀ st : St, Coupled st → Coupled (execOps ops as st) := by
  induction ops with
  | nil => intro st hc; exact hc
  | cons op r ih =>
    intro st hc
    simp only [List.all_cons, Bool.and_eq_true] at hok
    have h := execOp_coupled op as st hok.1 hc
    simp only [execOps]
    split
    · next st' heq => rw [heq] at h; exact ih hok.2 st' h
    · next st' heq => rw [heq] at h; exact h

theorem tagOf_coupled (st : St) (name : String) (hc : Coupled st) : Coupled (tagOf st name).1 := by
  unfold tagOf; split
  · exact hc.of_eq rfl rfl
  · exact hc
  · exact hc.error _

theorem react_coupled (st : St) (ev : Event) (hc : Coupled st) : Coupled (react st ev) := by
  cases ev with
  | start name as =>
    simp only [react]
    exact execOps_coupled _ _ (handlers_ok _).1 _ (tagOf_coupled _ name hc.checkData)
  | stop =>
    simp only [react]
    split
    · exact (execOps_coupled _ _ (handlers_ok _).2 _ (hc.of_eq (st' := { st with stack := [] }) rfl rfl)).of_eq rfl rfl
    · next h r _ =>
      exact (execOps_coupled _ _ (handlers_ok _).2 _ (hc.of_eq (st' := { st with stack := r }) rfl rfl)).of_eq rfl rfl
  | text s => exact hc.of_eq rfl rfl

theorem step_coupled (st : St) (ev : Event) (hc : Coupled st) : Coupled (step st ev) :=
  (react_coupled st ev hc).of_eq rfl rfl

theorem run_coupled (evs : List Event) : ∀ st : St, Coupled st → Coupled (run st evs) := by
  induction evs with
  | nil => intro st hc; exact hc
  | cons ev es ih => intro st hc; rw [run_cons]; exact ih _ (step_coupled st ev hc)

theorem init_coupled : Coupled St.init := by simp [Coupled, St.init]

/-- the error state is absorbing (for coupled states: every state reachable from `init`) -/
theorem run_error_absorbing (evs : List Event) (st : St) (hc : Coupled st) (h : st.state = .error_) :
    (run st evs).state = .error_ := by
  have hs : st.err.isSome = true := hc.mpr h
  obtain ⟨e, he⟩ := Option.isSome_iff_exists.mp hs
  have := run_err_preserved evs st e he
  exact (run_coupled evs st hc).mp (by simp [this])

/-! ### totality of the (state, tag) table and the stack discipline -/

theorem Tag.mem_all (t : Tag) : t ∈ Tag.all := by cases t <;> decide
theorem State.mem_all (s : State) : s ∈ State.all := by cases s <;> decide

/-- the index returned by `tag()` for an unknown name is inside `tagfun[..][t_unknown+1]` -/
theorem errorReturn_in_range : errorReturn < Tag.all.length := by decide

/-- `unknown` calls `error()` (in both directions) and does nothing else -/
theorem unknown_calls_error : (∃ e, startOps .unknown_ = [.error e]) ∧ ∃ e, endOps .unknown_ = [.error e] := by
  constructor <;> exact ⟨_, rfl⟩

/-- every other start handler first pushes ITSELF on the stack of open elements, so that the matching end tag calls
    its own end branch -/
theorem start_pushes_self : ∀ h : Handler, h = .unknown_ ∨ (startOps h).find? (fun o => match o with | .push _ => true | _ => false) = some (.push h) :=
  forall_handler (by decide)

/-- in the error state every tag is handled by `unknown` -/
theorem tagfun_error (t : Tag) : tagfun .error_ t = .unknown_ := by cases t <;> rfl

end Gama.AdjRes
