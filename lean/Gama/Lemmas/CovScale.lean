/-
  `Cluster::scaleCov(p, sc)` (lib/gnu_gama/obsdata.h, model in Model/ActiveCov.lean):
      cov(p,p) *= sc;  for i = q..k  cov(p,i) *= sc;      q = max(1,p-B), k = min(N,p+B)
  never throws for `1 ≤ p ≤ N`, keeps the object well formed, and multiplies row and column
  `p` of the represented symmetric matrix by `sc` (the diagonal element twice):
  `R = D C D` with `D = diag(1,…,sc,…,1)`.
-/
import Gama.Lemmas.CovActive
import Mathlib.Tactic.Tauto
namespace Gama.Cov
open Packed CovMat

section scale
variable {K : Type} [Zero K]

omit [Zero K] in
theorem CovMat.set_symm (m : CovMat K) (i j : Nat) (v : K) : m.set i j v = m.set j i v := by
  unfold CovMat.set; rw [idx_symm]

/-- `m(i,j) = v` for a position inside the (symmetric) band: succeeds, keeps the shape, the
    addressed element reads `v`, every other stored element is unchanged. -/
theorem CovMat.set_spec {m : CovMat K} (h : m.WF) {i j : Nat}
    (hs : InBand m.dim m.band i j ∨ InBand m.dim m.band j i) (v : K) :
    ∃ R, m.set i j v = .ok R ∧ R.WF ∧ R.dim = m.dim ∧ R.band = m.band ∧ R.get i j = v ∧
      ∀ i' j', InBand m.dim m.band i' j' → ¬ ((i' = i ∧ j' = j) ∨ (i' = j ∧ j' = i)) →
        R.get i' j' = m.get i' j' := by
  rcases hs with hs | hs
  · refine ⟨_, set_upper hs v, rawSet_WF h _ _, rawSet_dim _ _ _, rawSet_band _ _ _, ?_, ?_⟩
    · rw [get_rawSet h hs hs]; simp
    · intro i' j' hin hne
      rw [get_rawSet h hs hin, if_neg (fun e => hne (Or.inl e))]
  · refine ⟨_, by rw [CovMat.set_symm]; exact set_upper hs v, rawSet_WF h _ _, rawSet_dim _ _ _,
      rawSet_band _ _ _, ?_, ?_⟩
    · rw [get_symm, get_rawSet h hs hs]; simp
    · intro i' j' hin hne
      rw [get_rawSet h hs hin, if_neg (fun e => hne (Or.inr e))]

/-- if every step succeeds with a pure result on states satisfying a preserved invariant,
    the monadic fold is the pure fold -/
theorem foldlM_eq_ok_foldl {σ α ε : Type} (step : σ → α → Except ε σ) (g : σ → α → σ)
    (Inv : σ → Prop) (l : List α)
    (h : ∀ s a, a ∈ l → Inv s → step s a = .ok (g s a) ∧ Inv (g s a)) (s0 : σ) (h0 : Inv s0) :
    l.foldlM step s0 = .ok (l.foldl g s0) ∧ Inv (l.foldl g s0) := by
  induction l generalizing s0 with
  | nil => exact ⟨rfl, h0⟩
  | cons x xs ih =>
    obtain ⟨e, hi⟩ := h s0 x List.mem_cons_self h0
    rw [List.foldlM_cons, e, List.foldl_cons]
    exact ih (fun s a ha => h s a (List.mem_cons_of_mem _ ha)) _ hi

variable [Mul K]

/-- the loop `for i in l: cov(p,i) *= sc` over a duplicate-free list of columns inside the band -/
theorem scFold_spec (p : Nat) (sc : K) (l : List Nat) (hnd : l.Nodup) (c : CovMat K) (h : c.WF)
    (hl : ∀ i ∈ l, InBand c.dim c.band p i ∨ InBand c.dim c.band i p) :
    ∃ R, l.foldlM (scStep p sc) c = .ok R ∧ R.WF ∧ R.dim = c.dim ∧ R.band = c.band ∧
      ∀ i' j', InBand c.dim c.band i' j' →
        R.get i' j' = if (i' = p ∧ j' ∈ l) ∨ (j' = p ∧ i' ∈ l) then c.get i' j' * sc
                      else c.get i' j' := by
  induction l generalizing c with
  | nil =>
    refine ⟨c, rfl, h, rfl, rfl, ?_⟩
    intro i' j' _
    simp
  | cons x xs ih =>
    have hndx := List.nodup_cons.mp hnd
    obtain ⟨c', hset, hwf', hd', hb', hgx, hoth⟩ :=
      CovMat.set_spec h (hl x List.mem_cons_self) (c.get p x * sc)
    obtain ⟨R, hR, hRwf, hRd, hRb, hRg⟩ := ih hndx.2 c' hwf'
      (by intro i hi; rw [hd', hb']; exact hl i (List.mem_cons_of_mem _ hi))
    refine ⟨R, ?_, hRwf, hRd.trans hd', hRb.trans hb', ?_⟩
    · rw [List.foldlM_cons]
      show (c.set p x (c.get p x * sc)) >>= _ = _
      rw [hset]
      exact hR
    · intro i' j' hin
      rw [hRg i' j' (by rw [hd', hb']; exact hin)]
      by_cases hpair : (i' = p ∧ j' = x) ∨ (i' = x ∧ j' = p)
      · -- the element written by this step; not written again (x ∉ xs)
        have hnot : ¬ ((i' = p ∧ j' ∈ xs) ∨ (j' = p ∧ i' ∈ xs)) := by
          rintro (⟨e1, e2⟩ | ⟨e1, e2⟩)
          · rcases hpair with ⟨_, e3⟩ | ⟨e3, e4⟩
            · subst e3; exact hndx.1 e2
            · subst e3; subst e4; subst e1; exact hndx.1 e2
          · rcases hpair with ⟨e3, e4⟩ | ⟨e3, _⟩
            · subst e3; subst e4; subst e1; exact hndx.1 e2
            · subst e3; exact hndx.1 e2
        have hyes : (i' = p ∧ j' ∈ x :: xs) ∨ (j' = p ∧ i' ∈ x :: xs) := by
          rcases hpair with ⟨e1, e2⟩ | ⟨e1, e2⟩
          · exact Or.inl ⟨e1, by rw [e2]; exact List.mem_cons_self⟩
          · exact Or.inr ⟨e2, by rw [e1]; exact List.mem_cons_self⟩
        rw [if_neg hnot, if_pos hyes]
        rcases hpair with ⟨e1, e2⟩ | ⟨e1, e2⟩
        · rw [e1, e2]; exact hgx
        · rw [e1, e2, get_symm c' x p, get_symm c x p]; exact hgx
      · have hsame : c'.get i' j' = c.get i' j' := hoth i' j' hin hpair
        have e : ((i' = p ∧ j' ∈ x :: xs) ∨ (j' = p ∧ i' ∈ x :: xs)) ↔
            ((i' = p ∧ j' ∈ xs) ∨ (j' = p ∧ i' ∈ xs)) := by
          simp only [List.mem_cons]
          tauto
        rw [hsame]
        by_cases hc : (i' = p ∧ j' ∈ xs) ∨ (j' = p ∧ i' ∈ xs)
        · rw [if_pos hc, if_pos (e.mpr hc)]
        · rw [if_neg hc, if_neg (fun h' => hc (e.mp h'))]

/-- **`scaleCov(p, sc)`** for `1 ≤ p ≤ N`: no exception, shape kept, row/column `p` scaled. -/
theorem scaleCov_spec {K : Type} [Zero K] [Mul K] (cov : CovMat K) (h : cov.WF) (p : Nat)
    (hp1 : 1 ≤ p) (hp : p ≤ cov.dim) (sc : K) :
    ∃ R, scaleCov cov p sc = .ok R ∧ R.WF ∧ R.dim = cov.dim ∧ R.band = cov.band ∧
      ∀ i j, Packed.InBand cov.dim cov.band i j →
        R.get i j = if i = p ∧ j = p then cov.get p p * sc * sc
                    else if i = p ∨ j = p then cov.get i j * sc else cov.get i j := by
  have hpp : InBand cov.dim cov.band p p := ⟨hp1, le_refl _, hp, Nat.le_add_right _ _⟩
  obtain ⟨c1, hset, hwf1, hd1, hb1, hg1, ho1⟩ :=
    CovMat.set_spec h (Or.inl hpp) (cov.get p p * sc)
  -- the loop
  obtain ⟨l, hl⟩ : ∃ l, l = List.range' (if p < cov.band + 1 then 1 else p - cov.band)
      ((if p + cov.band > cov.dim then cov.dim else p + cov.band) + 1 -
        (if p < cov.band + 1 then 1 else p - cov.band)) := ⟨_, rfl⟩
  have hnd : l.Nodup := by rw [hl]; exact List.nodup_range' (step := 1)
  have hmem : ∀ t, t ∈ l ↔ (1 ≤ t ∧ t ≤ cov.dim ∧ t ≤ p + cov.band ∧ p ≤ t + cov.band) := by
    intro t
    rw [hl, List.mem_range'_1]
    split_ifs <;> omega
  obtain ⟨R, hR, hRwf, hRd, hRb, hRg⟩ := scFold_spec p sc l hnd c1 hwf1
    (by
      intro i hi
      rw [hmem] at hi
      rw [hd1, hb1]
      unfold InBand
      omega)
  refine ⟨R, ?_, hRwf, hRd.trans hd1, hRb.trans hb1, ?_⟩
  · rw [scaleCov_eq, hset, ← hl]
    exact hR
  · intro i j hin
    have hin' := hin
    obtain ⟨h1, h2, h3, h4⟩ := hin'
    rw [hRg i j (by rw [hd1, hb1]; exact hin)]
    by_cases ei : i = p
    · by_cases ej : j = p
      · have hc : (i = p ∧ j ∈ l) ∨ (j = p ∧ i ∈ l) :=
          Or.inl ⟨ei, (hmem j).mpr (by omega)⟩
        rw [if_pos hc, if_pos ⟨ei, ej⟩, ei, ej, hg1]
      · have hc : (i = p ∧ j ∈ l) ∨ (j = p ∧ i ∈ l) :=
          Or.inl ⟨ei, (hmem j).mpr (by omega)⟩
        rw [if_pos hc, if_neg (fun e => ej e.2), if_pos (Or.inl ei),
          ho1 i j hin (by rintro (⟨_, e⟩ | ⟨_, e⟩) <;> exact ej e)]
    · by_cases ej : j = p
      · have hc : (i = p ∧ j ∈ l) ∨ (j = p ∧ i ∈ l) :=
          Or.inr ⟨ej, (hmem i).mpr (by omega)⟩
        rw [if_pos hc, if_neg (fun e => ei e.1), if_pos (Or.inr ej),
          ho1 i j hin (by rintro (⟨e, _⟩ | ⟨e, _⟩) <;> exact ei e)]
      · have hc : ¬ ((i = p ∧ j ∈ l) ∨ (j = p ∧ i ∈ l)) := by
          rintro (⟨e, _⟩ | ⟨e, _⟩)
          · exact ei e
          · exact ej e
        have hc2 : ¬ (i = p ∨ j = p) := by
          rintro (e | e)
          · exact ei e
          · exact ej e
        rw [if_neg hc, if_neg (fun e => ei e.1), if_neg hc2,
          ho1 i j hin (by rintro (⟨e, _⟩ | ⟨e, _⟩) <;> exact ei e)]

end scale

/-- **`scaleCov(p, sc) = D C D`**, `D = diag(1,…,sc,…,1)`, for ALL `1 ≤ i, j ≤ N`
    (inside the band by the loop, outside it both sides are 0, lower triangle by symmetry). -/
theorem scaleCov_DCD {K : Type} [CommRing K] (cov : CovMat K) (h : cov.WF) (p : Nat)
    (hp1 : 1 ≤ p) (hp : p ≤ cov.dim) (sc : K) :
    ∃ R, scaleCov cov p sc = .ok R ∧ R.WF ∧ R.dim = cov.dim ∧ R.band = cov.band ∧
      ∀ i j, 1 ≤ i → i ≤ cov.dim → 1 ≤ j → j ≤ cov.dim →
        R.get i j = (if i = p then sc else 1) * cov.get i j * (if j = p then sc else 1) := by
  obtain ⟨R, hR, hwf, hd, hb, hg⟩ := scaleCov_spec cov h p hp1 hp sc
  refine ⟨R, hR, hwf, hd, hb, ?_⟩
  have main : ∀ i j, 1 ≤ i → i ≤ j → j ≤ cov.dim →
      R.get i j = (if i = p then sc else 1) * cov.get i j * (if j = p then sc else 1) := by
    intro i j hi hij hj
    by_cases hband : j ≤ i + cov.band
    · rw [hg i j ⟨hi, hij, hj, hband⟩]
      by_cases ei : i = p <;> by_cases ej : j = p
      · subst ei; subst ej; simp only [and_self, if_true]; ring
      · simp only [ei, ej, and_false, if_false, true_or, if_true]; ring
      · simp only [ei, ej, false_and, if_false, or_true, if_true]; ring
      · simp only [ei, ej, and_self, if_false, or_self]; ring
    · have hlt : j > i + cov.band := by omega
      rw [get_outside _ hij (by rw [hb]; exact hlt), get_outside _ hij hlt]
      simp
  intro i j hi hiN hj hjN
  rcases Nat.le_total i j with hij | hij
  · exact main i j hi hij hjN
  · rw [get_symm, main j i hj hij hiN, get_symm cov j i]; ring

end Gama.Cov
