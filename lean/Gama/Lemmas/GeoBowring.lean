/-
  Error of the two-pass Bowring inverse (`Ellipsoid.xyz2blh`) for points off the
  ellipsoid (h ≠ 0), over ℝ.
-/
import Gama.Lemmas.GeoEllipsoid
import Gama.Lemmas.GeoTable
namespace Gama.Ellipsoid
open Real

/-! ### pure algebra -/

/-- Bowring's residual polynomial in the rotated coordinates `(d, σ)` -/
theorem bowring_F_identity {ps qs d σ : ℝ} (h1 : ps * ps + qs * qs = 1) (h2 : d * d + σ * σ = 1) :
    (ps * d - qs * σ) ^ 3 * qs + (qs * d + ps * σ) ^ 3 * ps - ps * qs =
      ps * qs * (d - 1) + 2 * d * ps * qs * σ ^ 2 + σ ^ 3 * (1 - 2 * qs ^ 2) := by
  linear_combination (d ^ 3 * ps * qs + 3 * d * ps * qs * σ ^ 2 + ps ^ 2 * σ ^ 3 - qs ^ 2 * σ ^ 3 + σ ^ 3) * h1
    + (d * ps * qs) * h2

theorem abs_mul_le_of_abs_le_one {a b : ℝ} (ha : |a| ≤ 1) (hb : 0 ≤ b) : |a * b| ≤ b := by
  rw [abs_mul, abs_of_nonneg hb]
  nlinarith [abs_nonneg a]

theorem abs_cube_le_one (t : ℝ) (ht : t * t ≤ 1) : |t * t * t| ≤ 1 := by
  have h1 : |t| ≤ 1 := by
    rw [abs_le]; constructor <;> nlinarith [mul_self_nonneg (t - 1), mul_self_nonneg (t + 1)]
  have : |t * t * t| = t * t * |t| := by rw [abs_mul, abs_mul_self]
  rw [this]
  nlinarith [mul_self_nonneg t, abs_nonneg t]

/-- `|F| ≤ (5/2) σ²` when the two unit vectors are less than a right angle apart -/
theorem bowring_F_bound {p q ps qs : ℝ} (hpq : p * p + q * q = 1) (hs : ps * ps + qs * qs = 1)
    (hd : 0 ≤ p * ps + q * qs) :
    |p * p * p * qs + q * q * q * ps - ps * qs| ≤ 5 / 2 * ((q * ps - p * qs) * (q * ps - p * qs)) := by
  set σ := q * ps - p * qs with hσ
  set d := p * ps + q * qs with hdd
  have hds : d * d + σ * σ = 1 := by
    rw [hσ, hdd]; linear_combination (ps * ps + qs * qs) * hpq + hs
  have hp : p = ps * d - qs * σ := by rw [hσ, hdd]; linear_combination (-p) * hs
  have hq : q = qs * d + ps * σ := by rw [hσ, hdd]; linear_combination (-q) * hs
  have hF := bowring_F_identity hs hds
  rw [← hp, ← hq] at hF
  have hF' : p * p * p * qs + q * q * q * ps - ps * qs =
      (-(2 * (ps * qs))) * ((1 - d) / 2) + (2 * (ps * qs) * d) * (σ * σ) + (σ * (1 - 2 * (qs * qs))) * (σ * σ) := by
    linear_combination hF
  have hd1 : d ≤ 1 := by nlinarith [mul_self_nonneg σ, mul_self_nonneg (d - 1)]
  have hσ1 : |σ| ≤ 1 := by
    rw [abs_le]; constructor <;> nlinarith [mul_self_nonneg d, mul_self_nonneg (σ - 1), mul_self_nonneg (σ + 1)]
  have hm : |2 * (ps * qs)| ≤ 1 := by
    rw [abs_le]; constructor <;> nlinarith [mul_self_nonneg (ps - qs), mul_self_nonneg (ps + qs)]
  have hw : |1 - 2 * (qs * qs)| ≤ 1 := by
    rw [abs_le]; constructor <;> nlinarith [mul_self_nonneg ps, mul_self_nonneg qs]
  have hg : (1 - d) / 2 ≤ σ * σ / 2 := by nlinarith [mul_nonneg hd (sub_nonneg.mpr hd1)]
  have hσσ : 0 ≤ σ * σ := mul_self_nonneg σ
  have t1 : |(-(2 * (ps * qs))) * ((1 - d) / 2)| ≤ (1 - d) / 2 :=
    abs_mul_le_of_abs_le_one (by rwa [abs_neg]) (by linarith)
  have t2 : |(2 * (ps * qs) * d) * (σ * σ)| ≤ σ * σ := by
    apply abs_mul_le_of_abs_le_one _ hσσ
    rw [abs_mul, abs_of_nonneg hd]
    calc |2 * (ps * qs)| * d ≤ 1 * 1 := mul_le_mul hm hd1 hd zero_le_one
      _ = 1 := one_mul 1
  have t3 : |(σ * (1 - 2 * (qs * qs))) * (σ * σ)| ≤ σ * σ := by
    apply abs_mul_le_of_abs_le_one _ hσσ
    rw [abs_mul]
    calc |σ| * |1 - 2 * (qs * qs)| ≤ 1 * 1 := mul_le_mul hσ1 hw (abs_nonneg _) zero_le_one
      _ = 1 := one_mul 1
  rw [hF']
  calc _ ≤ |(-(2 * (ps * qs))) * ((1 - d) / 2) + (2 * (ps * qs) * d) * (σ * σ)| + |(σ * (1 - 2 * (qs * qs))) * (σ * σ)| :=
        abs_add_le _ _
    _ ≤ |(-(2 * (ps * qs))) * ((1 - d) / 2)| + |(2 * (ps * qs) * d) * (σ * σ)| + |(σ * (1 - 2 * (qs * qs))) * (σ * σ)| := by
        gcongr; exact abs_add_le _ _
    _ ≤ 5 / 2 * (σ * σ) := by linarith

/-- direction error of `arg (X + Y i)` against the unit vector `(c, s)` -/
theorem arg_dir_error {X Y c s : ℝ} (hcs : c * c + s * s = 1) (hT : 0 < X * c + Y * s) :
    0 < Real.cos (Complex.arg ⟨X, Y⟩) * c + Real.sin (Complex.arg ⟨X, Y⟩) * s ∧
    |Real.sin (Complex.arg ⟨X, Y⟩) * c - Real.cos (Complex.arg ⟨X, Y⟩) * s| * (X * c + Y * s) ≤ |Y * c - X * s| := by
  set β := Complex.arg ⟨X, Y⟩ with hβ
  set r := ‖(⟨X, Y⟩ : ℂ)‖ with hr
  have hr0 : 0 ≤ r := norm_nonneg _
  have h1 : r * Real.cos β = X := Complex.norm_mul_cos_arg ⟨X, Y⟩
  have h2 : r * Real.sin β = Y := Complex.norm_mul_sin_arg ⟨X, Y⟩
  have hsc := Real.sin_sq_add_cos_sq β
  have hT' : X * c + Y * s = r * (Real.cos β * c + Real.sin β * s) := by rw [← h1, ← h2]; ring
  have hS' : Y * c - X * s = r * (Real.sin β * c - Real.cos β * s) := by rw [← h1, ← h2]; ring
  have hCpos : 0 < Real.cos β * c + Real.sin β * s := by
    by_contra hneg; push Not at hneg
    have := mul_nonpos_of_nonneg_of_nonpos hr0 hneg
    linarith
  have hCS : (Real.cos β * c + Real.sin β * s) ^ 2 + (Real.sin β * c - Real.cos β * s) ^ 2 = 1 := by
    linear_combination (c * c + s * s) * hsc + hcs
  have hC1 : Real.cos β * c + Real.sin β * s ≤ 1 := by nlinarith [sq_nonneg (Real.sin β * c - Real.cos β * s)]
  refine ⟨hCpos, ?_⟩
  rw [hS', abs_mul, abs_of_nonneg hr0, hT']
  have := abs_nonneg (Real.sin β * c - Real.cos β * s)
  nlinarith [mul_nonneg (mul_nonneg hr0 this) (sub_nonneg.mpr hC1)]

/-! ### the parametric latitude of the true point, and the constants of the bound -/

/-- cos of the parametric latitude belonging to geodetic latitude `φ` -/
noncomputable def pstar (e : Ellipsoid ℝ) (φ : ℝ) : ℝ := Real.cos φ / e.W φ
/-- sin of the parametric latitude belonging to geodetic latitude `φ` -/
noncomputable def qstar (e : Ellipsoid ℝ) (φ : ℝ) : ℝ := e.B * Real.sin φ / (e.A * e.W φ)

/-- lower bound of the length of the vector handed to `atan2`, for every latitude and every
    unit vector `(p, q)` used as parametric latitude -/
noncomputable def bowringD (e : Ellipsoid ℝ) (h : ℝ) : ℝ := e.A * e.Ime2 + h - e.e2 * e.A - 2 * e.e22 * e.B

/-- contraction constant of one Bowring pass -/
noncomputable def bowringK (e : Ellipsoid ℝ) (h : ℝ) : ℝ := 5 / 2 * e.e2 * (e.A * e.A) / (e.B * bowringD e h)

namespace WF
variable {e : Ellipsoid ℝ} (w : WF e)
include w

theorem W_le_one (b : ℝ) : e.W b ≤ 1 := by
  have h1 := w.W_sq b; have h2 := w.W_pos b; have h3 := w.e2_nonneg
  have : e.W b * e.W b ≤ 1 := by
    rw [h1]; nlinarith [mul_nonneg h3 (mul_self_nonneg (Real.sin b))]
  nlinarith

/-- `1/W ≤ a/b` -/
theorem B_le_A_mul_W (b : ℝ) : e.B ≤ e.A * e.W b := by
  have hA := w.hA; have hB := w.hB; have hW := w.W_pos b
  have h1 := w.W_sq b; have h3 := w.e2_nonneg
  have hI := w.Ime2_eq; have hI2 := w.hIme2
  have hBB : e.B * e.B = e.A * e.A * (1 - e.e2) := by
    rw [← hI2, hI]; field_simp
  have hs : Real.sin b * Real.sin b ≤ 1 := by nlinarith [Real.sin_sq_add_cos_sq b, sq_nonneg (Real.cos b)]
  have : e.B * e.B ≤ (e.A * e.W b) * (e.A * e.W b) := by
    have : (e.A * e.W b) * (e.A * e.W b) = e.A * e.A * (1 - e.e2 * Real.sin b * Real.sin b) := by
      rw [← h1]; ring
    rw [this, hBB]
    have hAA : 0 ≤ e.A * e.A := mul_self_nonneg _
    apply mul_le_mul_of_nonneg_left _ hAA
    nlinarith [mul_nonneg h3 (sub_nonneg.mpr hs)]
  have hAW : 0 < e.A * e.W b := mul_pos hA hW
  by_contra hcon; push Not at hcon
  nlinarith

theorem A_le_N (b : ℝ) : e.A ≤ e.N b := by
  rw [N_real, le_div_iff₀ (w.W_pos b)]
  have := w.W_le_one b; have := w.hA
  nlinarith

theorem BB_eq : e.B * e.B = e.A * e.A * e.Ime2 := by
  have hA := w.hA
  rw [w.Ime2_eq]; field_simp

theorem e22_mul_BB : e.e22 * (e.B * e.B) = e.e2 * (e.A * e.A) := by
  have hA := w.hA; have hB := w.hB
  rw [w.he2, w.he22]; field_simp

theorem Ime2_le_one : e.Ime2 ≤ 1 := by
  rw [w.hIme2]; linarith [w.e2_nonneg]

end WF

/-- what is used of the parametric latitude `(p*, q*)` of the true point -/
theorem star_facts {e : Ellipsoid ℝ} (w : WF e) (φ : ℝ) (hc : 0 < Real.cos φ) :
    0 < pstar e φ ∧ pstar e φ * pstar e φ + qstar e φ * qstar e φ = 1 ∧
    e.N φ * Real.cos φ = e.A * pstar e φ ∧ e.N φ * e.Ime2 * Real.sin φ = e.B * qstar e φ ∧
    Real.cos φ = pstar e φ * e.W φ ∧ e.B * Real.sin φ = e.A * qstar e φ * e.W φ ∧
    ∃ k, e.A * e.Ime2 ≤ k ∧
      e.A * pstar e φ - e.e2 * e.A * (pstar e φ * pstar e φ) * pstar e φ = k * Real.cos φ ∧
      e.B * qstar e φ + e.e22 * e.B * (qstar e φ * qstar e φ) * qstar e φ = k * Real.sin φ := by
  obtain ⟨hp, hpq, hx, hz, -⟩ := param_of_lat w φ hc
  obtain ⟨hk, hX, hY⟩ := bowring_dir w φ hc
  have hA := w.hA; have hB := w.hB; have hW := w.W_pos φ; have hW1 := w.W_le_one φ
  have hcW : Real.cos φ = pstar e φ * e.W φ := by unfold pstar; field_simp
  have hsW : e.B * Real.sin φ = e.A * qstar e φ * e.W φ := by unfold qstar; field_simp
  refine ⟨hp, hpq, hx, hz, hcW, hsW, _, ?_, hX, hY⟩
  -- k W³ = A (1 − e²)
  have hkW : e.A * (1 - e.e2 * (pstar e φ * pstar e φ)) / e.W φ * (e.W φ * e.W φ * e.W φ) = e.A * e.Ime2 := by
    have h1 : e.A * (1 - e.e2 * (pstar e φ * pstar e φ)) / e.W φ * (e.W φ * e.W φ * e.W φ)
        = e.A * (e.W φ * e.W φ - e.e2 * ((pstar e φ * e.W φ) * (pstar e φ * e.W φ))) := by
      field_simp
    rw [h1, ← hcW, w.W_sq φ, w.hIme2]
    have := Real.sin_sq_add_cos_sq φ
    linear_combination (-(e.A * e.e2)) * this
  have hW3 : e.W φ * e.W φ * e.W φ ≤ 1 := by
    have : e.W φ * e.W φ ≤ 1 := by nlinarith
    nlinarith
  have hW3p : 0 < e.W φ * e.W φ * e.W φ := by positivity
  show e.A * e.Ime2 ≤ e.A * (1 - e.e2 * (pstar e φ * pstar e φ)) / e.W φ
  change 0 < e.A * (1 - e.e2 * (pstar e φ * pstar e φ)) / e.W φ at hk
  nlinarith

/-- the component of Bowring's vector along the true normal direction `(c, s)` -/
theorem pass_core_along {A B e2 e22 N I h c s ps qs k p q : ℝ}
    (hA : 0 < A) (hB : 0 < B) (he2 : 0 ≤ e2) (he22 : 0 ≤ e22) (hc : 0 < c) (hcs : c * c + s * s = 1)
    (hps : 0 < ps) (hs1 : ps * ps + qs * qs = 1) (hx : N * c = A * ps) (hz : N * I * s = B * qs)
    (hk : A * I ≤ k) (hX : A * ps - e2 * A * (ps * ps) * ps = k * c)
    (hY : B * qs + e22 * B * (qs * qs) * qs = k * s)
    (hpq : p * p + q * q = 1) :
    A * I + h - e2 * A - 2 * e22 * B ≤
      ((N + h) * c - e2 * A * (p * p) * p) * c + ((N * I + h) * s + e22 * B * (q * q) * q) * s := by
  have hT : ((N + h) * c - e2 * A * (p * p) * p) * c + ((N * I + h) * s + e22 * B * (q * q) * q) * s
      = (k + h) - e2 * A * ((p * p * p - ps * ps * ps) * c)
      + e22 * B * ((q * q * q - qs * qs * qs) * s) := by
    linear_combination c * hx + s * hz + c * hX + s * hY + (k + h) * hcs
  have hppp : p * p * p ≤ 1 := by nlinarith [mul_self_nonneg q, mul_self_nonneg p, mul_self_nonneg (p - 1), mul_self_nonneg (p + 1)]
  have hps3 : 0 ≤ ps * ps * ps := by positivity
  have hc1 : c ≤ 1 := by nlinarith [mul_self_nonneg s, mul_self_nonneg (c - 1)]
  have hu : (p * p * p - ps * ps * ps) * c ≤ 1 := by
    nlinarith [mul_nonneg (sub_nonneg.mpr (show p * p * p - ps * ps * ps ≤ 1 by linarith)) hc.le]
  have hq3 := abs_cube_le_one q (by nlinarith [mul_self_nonneg p])
  have hqs3 := abs_cube_le_one qs (by nlinarith [mul_self_nonneg ps])
  have hs1' : |s| ≤ 1 := by
    rw [abs_le]; constructor <;> nlinarith [mul_self_nonneg c, mul_self_nonneg (s - 1), mul_self_nonneg (s + 1)]
  have hv : -2 ≤ (q * q * q - qs * qs * qs) * s := by
    have h2 : |q * q * q - qs * qs * qs| ≤ 2 := by
      calc |q * q * q - qs * qs * qs| ≤ |q * q * q| + |qs * qs * qs| := abs_sub _ _
        _ ≤ 2 := by linarith
    have : |(q * q * q - qs * qs * qs) * s| ≤ 2 := by
      rw [abs_mul]
      calc _ ≤ 2 * 1 := mul_le_mul h2 hs1' (abs_nonneg _) (by norm_num)
        _ = 2 := by norm_num
    linarith [(abs_le.mp this).1]
  rw [hT]
  have h1 : 0 ≤ e2 * A := mul_nonneg he2 hA.le
  have h2 : 0 ≤ e22 * B := mul_nonneg he22 hB.le
  have h3 := mul_le_mul_of_nonneg_left hu h1
  have h4 := mul_le_mul_of_nonneg_left hv h2
  linarith

/-- the component of Bowring's vector across the true normal direction -/
theorem pass_core_across {A B e2 e22 W N I h c s ps qs p q : ℝ}
    (hA : 0 < A) (hB : 0 < B) (he2 : 0 ≤ e2) (hW : 0 < W) (hW1 : W ≤ 1)
    (hs1 : ps * ps + qs * qs = 1) (hx : N * c = A * ps) (hz : N * I * s = B * qs)
    (hcW : c = ps * W) (hsW : B * s = A * qs * W)
    (h22 : e22 * (B * B) = e2 * (A * A)) (hBB : B * B = A * A * (1 - e2))
    (hpq : p * p + q * q = 1) (hd : 0 ≤ p * ps + q * qs) :
    B * |((N * I + h) * s + e22 * B * (q * q) * q) * c - ((N + h) * c - e2 * A * (p * p) * p) * s| ≤
      5 / 2 * e2 * (A * A) * ((q * ps - p * qs) * (q * ps - p * qs)) := by
  have hS : B * (((N * I + h) * s + e22 * B * (q * q) * q) * c - ((N + h) * c - e2 * A * (p * p) * p) * s) =
      W * e2 * (A * A) * (p * p * p * qs + q * q * q * ps - ps * qs) := by
    have e1 : ((N * I + h) * s + e22 * B * (q * q) * q) * c - ((N + h) * c - e2 * A * (p * p) * p) * s
        = B * qs * c - A * ps * s + e22 * B * (q * q * q) * c + e2 * A * (p * p * p) * s := by
      linear_combination c * hz - s * hx
    rw [e1]
    linear_combination (-(A * ps) + e2 * A * (p * p * p)) * hsW
      + (B * B * qs + e22 * (B * B) * (q * q * q)) * hcW
      + (q * q * q * ps * W) * h22 + (qs * ps * W) * hBB
  have hF := bowring_F_bound hpq hs1 hd
  have hσσ0 : 0 ≤ (q * ps - p * qs) * (q * ps - p * qs) := mul_self_nonneg _
  have hcoef : 0 ≤ e2 * (A * A) := by positivity
  rw [← abs_of_pos hB, ← abs_mul, abs_of_pos hB, hS, abs_mul,
    abs_of_nonneg (by positivity : 0 ≤ W * e2 * (A * A))]
  calc W * e2 * (A * A) * |p * p * p * qs + q * q * q * ps - ps * qs|
      ≤ 1 * (e2 * (A * A)) * (5 / 2 * ((q * ps - p * qs) * (q * ps - p * qs))) := by
        rw [mul_assoc W]
        exact mul_le_mul (mul_le_mul_of_nonneg_right hW1 hcoef) hF (abs_nonneg _) (by positivity)
    _ = _ := by ring

/-- (1) ONE PASS.  Any unit vector `(p, q)` less than a right angle from the true
    parametric latitude, used in Bowring's formula at the point of latitude `φ` and height `h`,
    gives a latitude whose error is at most `K σ²`, `σ` the sine of the parametric error. -/
theorem bowring_pass_error {e : Ellipsoid ℝ} (w : WF e) {φ h p q : ℝ} (hc : 0 < Real.cos φ)
    (hpq : p * p + q * q = 1)
    (hd : 0 ≤ p * pstar e φ + q * qstar e φ) (hD : 0 < bowringD e h) :
    0 < Real.cos (Complex.arg ⟨(e.N φ + h) * Real.cos φ - e.e2 * e.A * (p * p) * p,
          (e.N φ * e.Ime2 + h) * Real.sin φ + e.e22 * e.B * (q * q) * q⟩ - φ) ∧
    |Real.sin (Complex.arg ⟨(e.N φ + h) * Real.cos φ - e.e2 * e.A * (p * p) * p,
          (e.N φ * e.Ime2 + h) * Real.sin φ + e.e22 * e.B * (q * q) * q⟩ - φ)| ≤
      bowringK e h * ((q * pstar e φ - p * qstar e φ) * (q * pstar e φ - p * qstar e φ)) := by
  obtain ⟨hps, hs1, hx, hz, hcW, hsW, k, hk, hX, hY⟩ := star_facts w φ hc
  have hA := w.hA; have hB := w.hB; have hW := w.W_pos φ; have hW1 := w.W_le_one φ
  have he2 := w.e2_nonneg; have he22 := w.e22_nonneg
  have hcs : Real.cos φ * Real.cos φ + Real.sin φ * Real.sin φ = 1 := by
    have := Real.sin_sq_add_cos_sq φ; nlinarith
  have hBB : e.B * e.B = e.A * e.A * (1 - e.e2) := by rw [w.BB_eq, w.hIme2]
  have hTD := pass_core_along (h := h) hA hB he2 he22 hc hcs hps hs1 hx hz hk hX hY hpq
  have hYX := pass_core_across (h := h) hA hB he2 hW hW1 hs1 hx hz hcW hsW w.e22_mul_BB hBB hpq hd
  have hTpos := lt_of_lt_of_le hD hTD
  obtain ⟨hCpos, hSle⟩ := arg_dir_error hcs hTpos
  rw [Real.cos_sub, Real.sin_sub]
  refine ⟨hCpos, ?_⟩
  have hS0 := abs_nonneg (Real.sin (Complex.arg ⟨(e.N φ + h) * Real.cos φ - e.e2 * e.A * (p * p) * p,
          (e.N φ * e.Ime2 + h) * Real.sin φ + e.e22 * e.B * (q * q) * q⟩) * Real.cos φ -
        Real.cos (Complex.arg ⟨(e.N φ + h) * Real.cos φ - e.e2 * e.A * (p * p) * p,
          (e.N φ * e.Ime2 + h) * Real.sin φ + e.e22 * e.B * (q * q) * q⟩) * Real.sin φ)
  have hSD := le_trans (mul_le_mul_of_nonneg_left hTD hS0) hSle
  unfold bowringK
  rw [div_mul_eq_mul_div, le_div_iff₀ (mul_pos hB hD)]
  have h5 := mul_le_mul_of_nonneg_left hSD hB.le
  unfold bowringD at hD h5 ⊢
  linarith [hYX, h5]

/-- the contraction step: quadratic, and its first-order corollary -/
theorem bowring_contraction {e : Ellipsoid ℝ} (w : WF e) {φ h p q : ℝ} (hc : 0 < Real.cos φ)
    (hpq : p * p + q * q = 1)
    (hd : 0 ≤ p * pstar e φ + q * qstar e φ) (hD : 0 < bowringD e h) :
    |Real.sin (Complex.arg ⟨(e.N φ + h) * Real.cos φ - e.e2 * e.A * (p * p) * p,
          (e.N φ * e.Ime2 + h) * Real.sin φ + e.e22 * e.B * (q * q) * q⟩ - φ)| ≤
      bowringK e h * (q * pstar e φ - p * qstar e φ) ^ 2 ∧
    |Real.sin (Complex.arg ⟨(e.N φ + h) * Real.cos φ - e.e2 * e.A * (p * p) * p,
          (e.N φ * e.Ime2 + h) * Real.sin φ + e.e22 * e.B * (q * q) * q⟩ - φ)| ≤
      bowringK e h * |q * pstar e φ - p * qstar e φ| := by
  have h1 := (bowring_pass_error w hc hpq hd hD).2
  obtain ⟨-, hs1, -⟩ := star_facts w φ hc
  have hK : 0 ≤ bowringK e h := by
    unfold bowringK
    have := w.hA; have := w.hB; have := w.e2_nonneg
    positivity
  have hσ1 : |q * pstar e φ - p * qstar e φ| ≤ 1 := by
    rw [abs_le_one_iff_mul_self_le_one]
    nlinarith [mul_self_nonneg (p * pstar e φ + q * qstar e φ)]
  refine ⟨by rwa [sq], le_trans h1 (mul_le_mul_of_nonneg_left ?_ hK)⟩
  rw [← abs_mul_abs_self]
  nlinarith [abs_nonneg (q * pstar e φ - p * qstar e φ)]

/-! ### the two passes of `xyz2blh` at a general point -/

/-- (2) first pass at a general point with `x > 0`: Bowring's formula with the unit vector
    `(p, q)`, `p > 0`, `q / p = (a/b) z / x` -/
theorem bowring1_general {e : Ellipsoid ℝ} (w : WF e) {x z : ℝ} (hx : 0 < x) :
    ∃ p q : ℝ, 0 < p ∧ p * p + q * q = 1 ∧ q * (e.B * x) = p * (e.A * z) ∧
      e.bowring1 x z = Complex.arg ⟨x - e.e2 * e.A * (p * p) * p, z + e.e22 * e.B * (q * q) * q⟩ := by
  have hA := w.hA; have hB := w.hB
  obtain ⟨T, hT⟩ : ∃ T, T = e.AB * z / x := ⟨_, rfl⟩
  have hTz : T * (e.B * x) = e.A * z := by rw [hT, w.hAB]; field_simp
  have hC : 0 < 1 / (1 + T * T) := one_div_pos.mpr (by nlinarith [mul_self_nonneg T])
  obtain ⟨p, hpdef⟩ : ∃ p, p = Real.sqrt (1 / (1 + T * T)) := ⟨_, rfl⟩
  have hp : 0 < p := by rw [hpdef]; exact Real.sqrt_pos.mpr hC
  have hpp : p * p = 1 / (1 + T * T) := by rw [hpdef]; exact Real.mul_self_sqrt hC.le
  have hsin2 : 1 - 1 / (1 + T * T) = (T * p) * (T * p) := by
    have : (T * p) * (T * p) = T * T * (p * p) := by ring
    rw [this, hpp]; field_simp; ring
  have hsin0 : Real.sqrt ((T * p) * (T * p)) = |T * p| := Real.sqrt_mul_self_eq_abs _
  have hsign : (if z < 0 then -|T * p| else |T * p|) = T * p := by
    have hBx : 0 < e.B * x := mul_pos hB hx
    split_ifs with hz
    · have : T < 0 := by
        by_contra hq; push Not at hq
        have := mul_nonneg hq hBx.le
        have := mul_neg_of_pos_of_neg hA hz
        linarith
      rw [abs_of_neg (mul_neg_of_neg_of_pos this hp)]; ring
    · push Not at hz
      have : 0 ≤ T := by
        by_contra hq; push Not at hq
        have := mul_neg_of_neg_of_pos hq hBx
        have := mul_nonneg hA.le hz
        linarith
      exact abs_of_nonneg (mul_nonneg this hp.le)
  refine ⟨p, T * p, hp, ?_, ?_, ?_⟩
  · rw [← hsin2, hpp]; ring
  · linear_combination p * hTz
  · unfold bowring1 bowringYX
    simp only [scalar_sqrt_real, transc_atan2_real, ← hT, ← hpp]
    have hcosp : Real.sqrt (p * p) = p := Real.sqrt_mul_self hp.le
    have hsin2' : 1 - p * p = (T * p) * (T * p) := by rw [hpp]; exact hsin2
    simp only [hcosp, hsin2', hsin0, hsign]

/-- (3) second pass at a general point, from a latitude `b` with `cos b > 0`: Bowring's formula
    with the parametric latitude of `b`; the clamp is inactive -/
theorem bowring2_general (clamp : Bool) {e : Ellipsoid ℝ} (w : WF e) (x z : ℝ) {b : ℝ}
    (hb : 0 < Real.cos b) :
    e.bowring2 clamp x z b =
      Complex.arg ⟨x - e.e2 * e.A * (pstar e b * pstar e b) * pstar e b,
        z + e.e22 * e.B * (qstar e b * qstar e b) * qstar e b⟩ := by
  obtain ⟨hp, hpq, -, -, hq⟩ := param_of_lat w b hb
  change 0 < pstar e b at hp
  change pstar e b * pstar e b + qstar e b * qstar e b = 1 at hpq
  change e.Ime2 * e.N b / e.B * Real.sin b = qstar e b at hq
  have hcos2 : 1 - qstar e b * qstar e b = pstar e b * pstar e b := by linarith
  have hnn : ¬ (pstar e b * pstar e b < 0) := not_lt.mpr (mul_self_nonneg _)
  have hcos : Real.sqrt (pstar e b * pstar e b) = pstar e b := Real.sqrt_mul_self hp.le
  unfold bowring2 bowringYX
  simp only [scalar_sqrt_real, transc_atan2_real, transc_sin_real, hq, hcos2]
  cases clamp <;> simp [hnn, hcos]

/-! ### the parametric error entering each pass -/

/-- algebra of the first-pass parametric error (all quantities abstract) -/
theorem sigma0_core {A B e2 e22 I W N h c s ps qs p q : ℝ}
    (hA : 0 < A) (hB : 0 < B) (he2 : 0 ≤ e2) (hW : 0 < W) (hBAW : B ≤ A * W) (hc : 0 < c)
    (hcs : c * c + s * s = 1) (hNh : 0 < N + h) (hR : 0 ≤ N * I + h)
    (hp : 0 < p) (hpq : p * p + q * q = 1)
    (hq : q * (B * ((N + h) * c)) = p * (A * ((N * I + h) * s)))
    (hcW : c = ps * W) (hsW : B * s = A * qs * W) (hBB : B * B = A * A * I) (hI : I = 1 - e2)
    (h22 : e22 * (B * B) = e2 * (A * A)) :
    |q * ps - p * qs| ≤ e22 * |h| / (N + h) ∧ 0 ≤ p * ps + q * qs := by
  have key : (q * ps - p * qs) * (B * W * (N + h)) = p * s * A * e2 * h := by
    have hcA : c * A ≠ 0 := (mul_pos hc hA).ne'
    apply mul_right_cancel₀ hcA
    linear_combination (ps * W * A) * hq - (p * A * A * (N * I + h) * s) * hcW
      + (p * B * (N + h) * c) * hsW - (p * (N + h) * c * s) * hBB - (p * A * A * s * c * h) * hI
  have hp1 : p ≤ 1 := by nlinarith [mul_self_nonneg q, mul_self_nonneg (p - 1)]
  have hs1 : |s| ≤ 1 := by
    rw [abs_le_one_iff_mul_self_le_one]; nlinarith [mul_self_nonneg c]
  constructor
  · rw [le_div_iff₀ hNh]
    have habs : |q * ps - p * qs| * (B * W * (N + h)) = p * |s| * A * e2 * |h| := by
      have := congrArg abs key
      rwa [abs_mul, abs_of_pos (by positivity : 0 < B * W * (N + h)), abs_mul, abs_mul, abs_mul, abs_mul,
        abs_of_pos hp, abs_of_pos hA, abs_of_nonneg he2] at this
    have hσ0 := abs_nonneg (q * ps - p * qs)
    have hh0 := abs_nonneg h
    have hs0 := abs_nonneg s
    -- B² ≤ A·B·W
    have h1 : B * B ≤ A * (B * W) := by nlinarith
    have h2 : |q * ps - p * qs| * (N + h) * (B * B) ≤ |q * ps - p * qs| * (N + h) * (A * (B * W)) :=
      mul_le_mul_of_nonneg_left h1 (by positivity)
    have h3 : p * |s| ≤ 1 := by nlinarith
    have h4 : p * |s| * (A * A * e2 * |h|) ≤ 1 * (A * A * e2 * |h|) :=
      mul_le_mul_of_nonneg_right h3 (by positivity)
    have h5 : |q * ps - p * qs| * (N + h) * (B * B) ≤ e22 * |h| * (B * B) := by
      calc |q * ps - p * qs| * (N + h) * (B * B) ≤ |q * ps - p * qs| * (N + h) * (A * (B * W)) := h2
        _ = A * (|q * ps - p * qs| * (B * W * (N + h))) := by ring
        _ = p * |s| * (A * A * e2 * |h|) := by rw [habs]; ring
        _ ≤ 1 * (A * A * e2 * |h|) := h4
        _ = e22 * |h| * (B * B) := by linear_combination (-|h|) * h22
    exact le_of_mul_le_mul_right h5 (by positivity)
  · have hd : (p * ps + q * qs) * (B * ((N + h) * c) * W) =
        p * B * ((N + h) * c * c + (N * I + h) * s * s) := by
      linear_combination (qs * W) * hq - (p * B * ((N + h) * c)) * hcW - (p * ((N * I + h) * s)) * hsW
    have hpos : 0 < B * ((N + h) * c) * W := by positivity
    have hrhs : 0 ≤ p * B * ((N + h) * c * c + (N * I + h) * s * s) := by
      have : 0 ≤ (N * I + h) * s * s := by rw [mul_assoc]; exact mul_nonneg hR (mul_self_nonneg s)
      positivity
    rw [← hd] at hrhs
    exact nonneg_of_mul_nonneg_left hrhs hpos

/-- the first-pass vector points into the right half plane -/
theorem X1_pos_core {A B e2 R x z p q : ℝ}
    (hB : 0 < B) (hBA : B ≤ A) (he2 : 0 ≤ e2) (hx : 0 < x) (hR0 : 0 < R) (hR : e2 * A < R)
    (hxz : R * R ≤ x * x + z * z) (hp : 0 < p) (hpq : p * p + q * q = 1)
    (hq : q * (B * x) = p * (A * z)) :
    0 < x - e2 * A * (p * p) * p := by
  have hA : 0 < A := lt_of_lt_of_le hB hBA
  -- p² (B² x² + A² z²) = B² x²
  have h1 : p * p * (B * B * (x * x) + A * A * (z * z)) = B * B * (x * x) := by
    linear_combination (B * B * (x * x)) * hpq - (q * (B * x) + p * (A * z)) * hq
  have hzz : 0 ≤ z * z := mul_self_nonneg _
  have hpp : 0 ≤ p * p := mul_self_nonneg p
  have hBBAA : B * B ≤ A * A := mul_le_mul hBA hBA hB.le hA.le
  have h2 : p * p * (B * B * (x * x + z * z)) ≤ B * B * (x * x) := by
    rw [← h1]
    apply mul_le_mul_of_nonneg_left _ hpp
    have := mul_le_mul_of_nonneg_right hBBAA hzz
    linarith
  have h3 : p * p * (x * x + z * z) ≤ x * x := by
    have hBB : 0 < B * B := mul_pos hB hB
    apply le_of_mul_le_mul_left _ hBB
    calc _ = p * p * (B * B * (x * x + z * z)) := by ring
      _ ≤ _ := h2
  have h7 : (p * R) * (p * R) ≤ x * x := by
    have := mul_le_mul_of_nonneg_left hxz hpp
    calc (p * R) * (p * R) = p * p * (R * R) := by ring
      _ ≤ p * p * (x * x + z * z) := this
      _ ≤ x * x := h3
  have h8 : p * R ≤ x := (mul_self_le_mul_self_iff (by positivity) hx.le).mpr h7
  have hpp1 : p * p ≤ 1 := by linarith [mul_self_nonneg q]
  have h9 : e2 * A * (p * p) * p ≤ e2 * A * p := by
    have h0 : 0 ≤ e2 * A * p := by positivity
    have := mul_le_mul_of_nonneg_left hpp1 h0
    linarith
  have h10 : e2 * A * p < R * p := mul_lt_mul_of_pos_right hR hp
  linarith

/-- `(N(1−e²)+h)² ≤ x² + z²` -/
theorem R_sq_le {N I h c s : ℝ} (hcs : c * c + s * s = 1) (hR0 : 0 ≤ N * I + h) (hNR : N * I + h ≤ N + h) :
    (N * I + h) * (N * I + h) ≤ (N + h) * c * ((N + h) * c) + (N * I + h) * s * ((N * I + h) * s) := by
  have h5 : (N * I + h) * (N * I + h) ≤ (N + h) * (N + h) := mul_le_mul hNR hNR hR0 (le_trans hR0 hNR)
  have h6 := mul_le_mul_of_nonneg_right h5 (mul_self_nonneg c)
  have : (N * I + h) * (N * I + h) = (N * I + h) * (N * I + h) * (c * c) + (N * I + h) * s * ((N * I + h) * s) := by
    linear_combination (-((N * I + h) * (N * I + h))) * hcs
  linarith

theorem cos_arg_pos {X Y : ℝ} (hX : 0 < X) : 0 < Real.cos (Complex.arg ⟨X, Y⟩) := by
  have h1 : ‖(⟨X, Y⟩ : ℂ)‖ * Real.cos (Complex.arg ⟨X, Y⟩) = X := Complex.norm_mul_cos_arg ⟨X, Y⟩
  have hr0 : 0 ≤ ‖(⟨X, Y⟩ : ℂ)‖ := norm_nonneg _
  by_contra hneg; push Not at hneg
  have := mul_nonpos_of_nonneg_of_nonpos hr0 hneg
  linarith

/-- the parametric error entering the first pass: `|σ₀| ≤ e'² |h| / (N + h)`, and the first
    parametric latitude is less than a right angle from the true one -/
theorem bowring_sigma0 {e : Ellipsoid ℝ} (w : WF e) {φ h p q : ℝ} (hc : 0 < Real.cos φ)
    (hNh : 0 < e.N φ + h) (hR : 0 ≤ e.N φ * e.Ime2 + h)
    (hp : 0 < p) (hpq : p * p + q * q = 1)
    (hq : q * (e.B * ((e.N φ + h) * Real.cos φ)) = p * (e.A * ((e.N φ * e.Ime2 + h) * Real.sin φ))) :
    |q * pstar e φ - p * qstar e φ| ≤ e.e22 * |h| / (e.N φ + h) ∧ 0 ≤ p * pstar e φ + q * qstar e φ := by
  obtain ⟨-, -, -, -, hcW, hsW, -⟩ := star_facts w φ hc
  have hcs : Real.cos φ * Real.cos φ + Real.sin φ * Real.sin φ = 1 := by
    have := Real.sin_sq_add_cos_sq φ; nlinarith
  exact sigma0_core w.hA w.hB w.e2_nonneg (w.W_pos φ) (w.B_le_A_mul_W φ) hc hcs hNh hR hp hpq hq
    hcW hsW w.BB_eq w.hIme2 w.e22_mul_BB

/-- the parametric error entering the second pass, from a first latitude `b` -/
theorem bowring_sigma1 {e : Ellipsoid ℝ} (w : WF e) {φ b : ℝ} (hc : 0 < Real.cos φ) (hb : 0 < Real.cos b)
    (hcos : 0 < Real.cos (b - φ)) :
    |qstar e b * pstar e φ - pstar e b * qstar e φ| ≤ e.A / e.B * |Real.sin (b - φ)| ∧
      0 ≤ pstar e b * pstar e φ + qstar e b * qstar e φ := by
  have hA := w.hA; have hB := w.hB
  have hW := w.W_pos φ; have hWb := w.W_pos b
  have h1 := w.B_le_A_mul_W φ; have h2 := w.B_le_A_mul_W b
  have hpos : 0 < e.A * e.W b * e.W φ := by positivity
  constructor
  · have key : (qstar e b * pstar e φ - pstar e b * qstar e φ) * (e.A * e.W b * e.W φ)
        = e.B * Real.sin (b - φ) := by
      rw [Real.sin_sub]; unfold pstar qstar; field_simp
    have habs : |qstar e b * pstar e φ - pstar e b * qstar e φ| * (e.A * e.W b * e.W φ)
        = e.B * |Real.sin (b - φ)| := by
      have := congrArg abs key
      rwa [abs_mul, abs_of_pos hpos, abs_mul, abs_of_pos hB] at this
    have hσ0 := abs_nonneg (qstar e b * pstar e φ - pstar e b * qstar e φ)
    have hBB : e.B * e.B ≤ (e.A * e.W b) * (e.A * e.W φ) := mul_le_mul h2 h1 hB.le (by positivity)
    rw [div_mul_eq_mul_div, le_div_iff₀ hB]
    have h3 := mul_le_mul_of_nonneg_left hBB hσ0
    have h4 : |qstar e b * pstar e φ - pstar e b * qstar e φ| * (e.A * e.W b * (e.A * e.W φ))
        = e.B * (e.A * |Real.sin (b - φ)|) := by
      calc _ = e.A * (|qstar e b * pstar e φ - pstar e b * qstar e φ| * (e.A * e.W b * e.W φ)) := by ring
        _ = _ := by rw [habs]; ring
    rw [h4] at h3
    have : e.B * (|qstar e b * pstar e φ - pstar e b * qstar e φ| * e.B) ≤ e.B * (e.A * |Real.sin (b - φ)|) := by
      calc _ = |qstar e b * pstar e φ - pstar e b * qstar e φ| * (e.B * e.B) := by ring
        _ ≤ _ := h3
    exact le_of_mul_le_mul_left this hB
  · have key : (pstar e b * pstar e φ + qstar e b * qstar e φ) * (e.A * e.A * (e.W b * e.W φ))
        = e.A * e.A * (Real.cos b * Real.cos φ) + e.B * e.B * (Real.sin b * Real.sin φ) := by
      unfold pstar qstar; field_simp
    have hnn : 0 ≤ e.A * e.A * (Real.cos b * Real.cos φ) + e.B * e.B * (Real.sin b * Real.sin φ) := by
      rw [w.BB_eq, w.hIme2]
      rw [Real.cos_sub] at hcos
      have he2 := w.e2_nonneg; have he21 := w.e2_lt_one
      have : e.A * e.A * (Real.cos b * Real.cos φ) + e.A * e.A * (1 - e.e2) * (Real.sin b * Real.sin φ)
          = e.A * e.A * ((1 - e.e2) * (Real.cos b * Real.cos φ + Real.sin b * Real.sin φ)
            + e.e2 * (Real.cos b * Real.cos φ)) := by ring
      rw [this]
      have h5 : 0 ≤ (1 - e.e2) * (Real.cos b * Real.cos φ + Real.sin b * Real.sin φ) :=
        mul_nonneg (by linarith) hcos.le
      have h6 : 0 ≤ e.e2 * (Real.cos b * Real.cos φ) := by positivity
      positivity
    rw [← key] at hnn
    exact nonneg_of_mul_nonneg_left hnn (by positivity)

/-! ### (4) the two passes composed -/

theorem bowringK_nonneg {e : Ellipsoid ℝ} (w : WF e) {h : ℝ} (hD : 0 < bowringD e h) : 0 ≤ bowringK e h := by
  unfold bowringK
  have := w.hA; have := w.hB; have := w.e2_nonneg
  positivity

/-- `D > 0` implies the geometric side conditions -/
theorem bowringD_pos_facts {e : Ellipsoid ℝ} (w : WF e) {h : ℝ} (φ : ℝ) (hD : 0 < bowringD e h) :
    e.e2 * e.A < e.N φ * e.Ime2 + h ∧ e.N φ * e.Ime2 + h ≤ e.N φ + h ∧ 0 < e.N φ + h := by
  unfold bowringD at hD
  have hA := w.hA; have hB := w.hB
  have hAN := w.A_le_N φ
  have hI := w.Ime2_pos; have hI1 := w.Ime2_le_one
  have h1 : 0 ≤ e.e22 * e.B := mul_nonneg w.e22_nonneg hB.le
  have h2 : 0 ≤ e.e2 * e.A := mul_nonneg w.e2_nonneg hA.le
  have h3 : e.A * e.Ime2 ≤ e.N φ * e.Ime2 := mul_le_mul_of_nonneg_right hAN hI.le
  have hN := w.N_pos φ
  have h4 : e.N φ * e.Ime2 ≤ e.N φ := by
    have := mul_le_mul_of_nonneg_left hI1 hN.le
    linarith
  refine ⟨by linarith, by linarith, by linarith⟩

/-- the two Bowring passes at the point of latitude `φ`, height `h` (in the meridian plane) -/
theorem bowring_two_pass_core (clamp : Bool) {e : Ellipsoid ℝ} (w : WF e) {φ h : ℝ}
    (hc : 0 < Real.cos φ) (hD : 0 < bowringD e h) :
    0 < Real.cos (e.bowring2 clamp ((e.N φ + h) * Real.cos φ) ((e.N φ * e.Ime2 + h) * Real.sin φ)
        (e.bowring1 ((e.N φ + h) * Real.cos φ) ((e.N φ * e.Ime2 + h) * Real.sin φ)) - φ) ∧
    |Real.sin (e.bowring2 clamp ((e.N φ + h) * Real.cos φ) ((e.N φ * e.Ime2 + h) * Real.sin φ)
        (e.bowring1 ((e.N φ + h) * Real.cos φ) ((e.N φ * e.Ime2 + h) * Real.sin φ)) - φ)| ≤
      bowringK e h * (e.A / e.B) ^ 2 * (bowringK e h * (e.e22 * |h| / (e.N φ + h)) ^ 2) ^ 2 := by
  obtain ⟨hR, hNR, hNh⟩ := bowringD_pos_facts w φ hD
  have hA := w.hA; have hB := w.hB
  have hR0 : 0 < e.N φ * e.Ime2 + h := lt_of_le_of_lt (mul_nonneg w.e2_nonneg hA.le) hR
  have hx : 0 < (e.N φ + h) * Real.cos φ := mul_pos hNh hc
  have hcs : Real.cos φ * Real.cos φ + Real.sin φ * Real.sin φ = 1 := by
    have := Real.sin_sq_add_cos_sq φ; linarith
  have hK := bowringK_nonneg w hD
  -- first pass
  obtain ⟨p0, q0, hp0, hpq0, hq0, hb1⟩ := bowring1_general w (z := (e.N φ * e.Ime2 + h) * Real.sin φ) hx
  obtain ⟨hσ0, hd0⟩ := bowring_sigma0 w hc hNh hR0.le hp0 hpq0 hq0
  obtain ⟨hcos1, hsin1⟩ := bowring_pass_error w hc hpq0 hd0 hD
  have hX1 := X1_pos_core hB w.hBA w.e2_nonneg hx hR0 hR (R_sq_le hcs hR0.le hNR) hp0 hpq0 hq0
  rw [hb1]
  set b1 := Complex.arg ⟨(e.N φ + h) * Real.cos φ - e.e2 * e.A * (p0 * p0) * p0,
      (e.N φ * e.Ime2 + h) * Real.sin φ + e.e22 * e.B * (q0 * q0) * q0⟩ with hb1def
  have hcb1 : 0 < Real.cos b1 := cos_arg_pos hX1
  -- second pass
  rw [bowring2_general clamp w _ _ hcb1]
  obtain ⟨-, hpq1, -⟩ := star_facts w b1 hcb1
  obtain ⟨hσ1, hd1⟩ := bowring_sigma1 w hc hcb1 hcos1
  obtain ⟨hcos2, hsin2⟩ := bowring_pass_error (h := h) w hc hpq1 hd1 hD
  refine ⟨hcos2, ?_⟩
  -- compose
  have hs0 : 0 ≤ e.e22 * |h| / (e.N φ + h) := le_trans (abs_nonneg _) hσ0
  have e1 : (q0 * pstar e φ - p0 * qstar e φ) * (q0 * pstar e φ - p0 * qstar e φ)
      ≤ (e.e22 * |h| / (e.N φ + h)) ^ 2 := by
    rw [← abs_mul_abs_self, sq]
    exact mul_le_mul hσ0 hσ0 (abs_nonneg _) hs0
  have e2 : |Real.sin (b1 - φ)| ≤ bowringK e h * (e.e22 * |h| / (e.N φ + h)) ^ 2 :=
    le_trans hsin1 (mul_le_mul_of_nonneg_left e1 hK)
  have hAB : 0 ≤ e.A / e.B := by positivity
  have e3 : |qstar e b1 * pstar e φ - pstar e b1 * qstar e φ|
      ≤ e.A / e.B * (bowringK e h * (e.e22 * |h| / (e.N φ + h)) ^ 2) :=
    le_trans hσ1 (mul_le_mul_of_nonneg_left e2 hAB)
  have e4 : (qstar e b1 * pstar e φ - pstar e b1 * qstar e φ) * (qstar e b1 * pstar e φ - pstar e b1 * qstar e φ)
      ≤ (e.A / e.B * (bowringK e h * (e.e22 * |h| / (e.N φ + h)) ^ 2)) ^ 2 := by
    rw [← abs_mul_abs_self, sq]
    exact mul_le_mul e3 e3 (abs_nonneg _) (le_trans (abs_nonneg _) e3)
  calc _ ≤ bowringK e h * ((qstar e b1 * pstar e φ - pstar e b1 * qstar e φ) *
            (qstar e b1 * pstar e φ - pstar e b1 * qstar e φ)) := hsin2
    _ ≤ bowringK e h * (e.A / e.B * (bowringK e h * (e.e22 * |h| / (e.N φ + h)) ^ 2)) ^ 2 :=
        mul_le_mul_of_nonneg_left e4 hK
    _ = _ := by ring

/-- (4) latitude returned by `xyz2blh` for the point `blh2xyz φ l h`:
    `|sin (b₂ − φ)| ≤ K (a/b)² (K (e'² |h| / (N + h))²)²` -/
theorem bowring_two_pass_error (clamp : Bool) {e : Ellipsoid ℝ} (w : WF e) {φ l h : ℝ}
    (hc : 0 < Real.cos φ) (hD : 0 < bowringD e h) (hl : l ∈ Set.Ioc (-π) π) :
    |Real.sin ((xyz2blhWith clamp e ((e.N φ + h) * Real.cos φ * Real.cos l)
        ((e.N φ + h) * Real.cos φ * Real.sin l) ((e.N φ * e.Ime2 + h) * Real.sin φ)).1 - φ)| ≤
      bowringK e h * (e.A / e.B) ^ 2 * (bowringK e h * (e.e22 * |h| / (e.N φ + h)) ^ 2) ^ 2 := by
  obtain ⟨-, -, hNh⟩ := bowringD_pos_facts w φ hD
  rw [xyz2blh_blh2xyz clamp e hc hNh hl]
  exact (bowring_two_pass_core clamp w hc hD).2

/-- the returned latitude is less than a right angle from the true one (so the bound on the sine
    is a bound on the angle) -/
theorem bowring_two_pass_cos_pos (clamp : Bool) {e : Ellipsoid ℝ} (w : WF e) {φ l h : ℝ}
    (hc : 0 < Real.cos φ) (hD : 0 < bowringD e h) (hl : l ∈ Set.Ioc (-π) π) :
    0 < Real.cos ((xyz2blhWith clamp e ((e.N φ + h) * Real.cos φ * Real.cos l)
        ((e.N φ + h) * Real.cos φ * Real.sin l) ((e.N φ * e.Ime2 + h) * Real.sin φ)).1 - φ) := by
  obtain ⟨-, -, hNh⟩ := bowringD_pos_facts w φ hD
  rw [xyz2blh_blh2xyz clamp e hc hNh hl]
  exact (bowring_two_pass_core clamp w hc hD).1

/-! ### (5) numeric instance: every terrestrial ellipsoid, heights from −10 km to 20 000 km -/

theorem final_numeric {K R s0 T : ℝ} (hK0 : 0 ≤ K) (hK : K ≤ 3 / 100) (hR0 : 0 ≤ R) (hR : R ≤ 1011 / 1000)
    (hs0 : 0 ≤ s0) (hs : s0 ≤ 107 / 10000) (hT : T ≤ 26500000) :
    T * (K * R * (K * s0 ^ 2) ^ 2) < 1 / 1000 := by
  calc T * (K * R * (K * s0 ^ 2) ^ 2)
      ≤ 26500000 * (3 / 100 * (1011 / 1000) * (3 / 100 * (107 / 10000) ^ 2) ^ 2) := by gcongr
    _ < 1 / 1000 := by norm_num

/-- the numeric consequences of `e² ≤ 0.0105`, `6.3e6 ≤ a ≤ 6.4e6`, `−10⁴ ≤ h` -/
theorem numeric_facts {A B u v I h : ℝ} (hB : 0 < B) (hBA : B ≤ A) (hu : u ≤ 105 / 10000)
    (hv0 : 0 ≤ v) (hA1 : 6300000 ≤ A) (hA2 : A ≤ 6400000) (hh1 : -10000 ≤ h)
    (hI : I = 1 - u) (hBB : B * B = A * A * I) (h22 : v * (B * B) = u * (A * A)) :
    99 / 100 * A ≤ B ∧ v ≤ 107 / 10000 ∧ 6000000 ≤ A * I + h - u * A - 2 * v * B ∧
      5 / 2 * u * (A * A) / (B * (A * I + h - u * A - 2 * v * B)) ≤ 3 / 100 ∧
      (A / B) ^ 2 ≤ 1011 / 1000 := by
  have hA : 0 < A := by linarith
  have hAA : 0 < A * A := mul_pos hA hA
  have hI1 : 9895 / 10000 ≤ I := by linarith
  have h1 : 99 / 100 * A ≤ B := by
    by_contra hcon; push Not at hcon
    have h2 : B * B < 99 / 100 * A * B := mul_lt_mul_of_pos_right hcon hB
    have h3 : 99 / 100 * A * B < 99 / 100 * A * (99 / 100 * A) := mul_lt_mul_of_pos_left hcon (by positivity)
    have h4 : A * A * (9895 / 10000) ≤ A * A * I := mul_le_mul_of_nonneg_left hI1 hAA.le
    linarith
  have hvI : v * I = u := by
    have : (v * I) * (A * A) = u * (A * A) := by rw [← h22, hBB]; ring
    exact mul_right_cancel₀ hAA.ne' this
  have h2 : v ≤ 107 / 10000 := by
    by_contra hcon; push Not at hcon
    have hIpos : 0 < I := by linarith
    have := mul_lt_mul_of_pos_right hcon hIpos
    linarith
  have hvB : v * B ≤ 107 / 10000 * A := by
    calc v * B ≤ v * A := mul_le_mul_of_nonneg_left hBA hv0
      _ ≤ 107 / 10000 * A := mul_le_mul_of_nonneg_right h2 hA.le
  have huA : u * A ≤ 105 / 10000 * A := mul_le_mul_of_nonneg_right hu hA.le
  have hAI : 9895 / 10000 * A ≤ A * I := by
    have := mul_le_mul_of_nonneg_left hI1 hA.le
    linarith
  have h3 : 6000000 ≤ A * I + h - u * A - 2 * v * B := by linarith
  refine ⟨h1, h2, h3, ?_, ?_⟩
  · have hDpos : 0 < A * I + h - u * A - 2 * v * B := by linarith
    rw [div_le_iff₀ (mul_pos hB hDpos)]
    have h5 : u * (A * A) ≤ 105 / 10000 * (6400000 * A) := by
      calc u * (A * A) ≤ 105 / 10000 * (A * A) := mul_le_mul_of_nonneg_right hu hAA.le
        _ ≤ 105 / 10000 * (6400000 * A) := by
          have := mul_le_mul_of_nonneg_right hA2 hA.le
          linarith
    have h6 : (99 / 100 * A) * 6000000 ≤ B * (A * I + h - u * A - 2 * v * B) :=
      mul_le_mul h1 h3 (by norm_num) hB.le
    linarith
  · rw [div_pow, div_le_iff₀ (by positivity), sq, sq, hBB]
    have := mul_le_mul_of_nonneg_left hI1 hAA.le
    linarith

/-- (5) sub-millimetre: for `e² ≤ 0.0105`, `6.3·10⁶ ≤ a ≤ 6.4·10⁶` and `−10 km ≤ h ≤ 20 000 km` the
    latitude returned by `xyz2blh` (exact real arithmetic) is off by less than 1 mm of arc at
    radius `N + h` -/
theorem bowring_submm (clamp : Bool) {e : Ellipsoid ℝ} (w : WF e) (he2 : e.e2 ≤ 105 / 10000)
    (hA1 : 6300000 ≤ e.A) (hA2 : e.A ≤ 6400000) {φ l h : ℝ} (hh1 : -10000 ≤ h) (hh2 : h ≤ 20000000)
    (hc : 0 < Real.cos φ) (hl : l ∈ Set.Ioc (-π) π) :
    (e.N φ + h) * |Real.sin ((xyz2blhWith clamp e ((e.N φ + h) * Real.cos φ * Real.cos l)
        ((e.N φ + h) * Real.cos φ * Real.sin l) ((e.N φ * e.Ime2 + h) * Real.sin φ)).1 - φ)| < 1 / 1000 := by
  have hA := w.hA; have hB := w.hB
  obtain ⟨hBA99, hv, hD6, hK3, hAB⟩ := numeric_facts hB w.hBA he2 w.e22_nonneg hA1 hA2 hh1
    w.hIme2 w.BB_eq w.e22_mul_BB
  have hD : 0 < bowringD e h := by unfold bowringD; linarith
  have hKle : bowringK e h ≤ 3 / 100 := by unfold bowringK bowringD; exact hK3
  have hK0 := bowringK_nonneg w hD
  obtain ⟨-, -, hNh⟩ := bowringD_pos_facts w φ hD
  have hAN := w.A_le_N φ
  -- N ≤ a / 0.99
  have hN : e.N φ ≤ 6500000 := by
    have hW := w.W_pos φ
    have hNW : e.N φ * e.W φ = e.A := by rw [N_real]; field_simp
    have h1 := w.B_le_A_mul_W φ
    have hNpos := w.N_pos φ
    have h2 : e.N φ * e.B ≤ e.A * e.A := by
      calc e.N φ * e.B ≤ e.N φ * (e.A * e.W φ) := mul_le_mul_of_nonneg_left h1 hNpos.le
        _ = e.A * (e.N φ * e.W φ) := by ring
        _ = e.A * e.A := by rw [hNW]
    have h3 : e.N φ * (99 / 100 * e.A) ≤ e.N φ * e.B := mul_le_mul_of_nonneg_left hBA99 hNpos.le
    have h4 : e.A * (99 / 100 * e.N φ) ≤ e.A * e.A := by linarith
    have h5 : 99 / 100 * e.N φ ≤ e.A := le_of_mul_le_mul_left h4 hA
    linarith
  have hs0 : 0 ≤ e.e22 * |h| / (e.N φ + h) := by
    have := w.e22_nonneg; have := abs_nonneg h; positivity
  have hs : e.e22 * |h| / (e.N φ + h) ≤ 107 / 10000 := by
    rw [div_le_iff₀ hNh]
    have hhN : |h| ≤ e.N φ + h := by
      rw [abs_le]; constructor <;> linarith
    calc e.e22 * |h| ≤ e.e22 * (e.N φ + h) := mul_le_mul_of_nonneg_left hhN w.e22_nonneg
      _ ≤ 107 / 10000 * (e.N φ + h) := mul_le_mul_of_nonneg_right hv hNh.le
  have hmain := bowring_two_pass_error clamp w hc hD hl
  have hfin := final_numeric hK0 hKle (sq_nonneg (e.A / e.B)) hAB hs0 hs (by linarith : e.N φ + h ≤ 26500000)
  exact lt_of_le_of_lt (mul_le_mul_of_nonneg_left hmain hNh.le) hfin

/-- `bowring_submm` for the variant the current tree contains (`Ellipsoid.xyz2blh`) -/
theorem bowring_submm_xyz2blh {e : Ellipsoid ℝ} (w : WF e) (he2 : e.e2 ≤ 105 / 10000)
    (hA1 : 6300000 ≤ e.A) (hA2 : e.A ≤ 6400000) {φ l h : ℝ} (hh1 : -10000 ≤ h) (hh2 : h ≤ 20000000)
    (hc : 0 < Real.cos φ) (hl : l ∈ Set.Ioc (-π) π) :
    (e.N φ + h) * |Real.sin ((xyz2blh e ((e.N φ + h) * Real.cos φ * Real.cos l)
        ((e.N φ + h) * Real.cos φ * Real.sin l) ((e.N φ * e.Ime2 + h) * Real.sin φ)).1 - φ)| < 1 / 1000 :=
  bowring_submm Gen.bowringClamp w he2 hA1 hA2 hh1 hh2 hc hl

/-! ### the table rows satisfy the numeric hypotheses -/

open Gama.Gen in
/-- decidable side condition on the literals of a row: `6.3e6 ≤ a ≤ 6.4e6` and a sufficient
    condition for `e² ≤ 0.0105` (`0.9895 a² ≤ b²`, resp. `2 f ≤ 0.0105`) -/
def bowringRowOk (r : EllRow) : Bool :=
  decide (6300000 * 10 ^ r.a.2 ≤ r.a.1) && decide (r.a.1 ≤ 6400000 * 10 ^ r.a.2) &&
  match r.kind with
  | .ab  => decide (9895 * (r.a.1 * 10 ^ r.p.2) ^ 2 ≤ 10000 * (r.p.1 * 10 ^ r.a.2) ^ 2)
  | .af  => decide (20000 * r.p.1 ≤ 105 * 10 ^ r.p.2)
  | .af1 => decide (20000 * 10 ^ r.p.2 ≤ 105 * r.p.1)

theorem e2_le_of_sq {e : Ellipsoid ℝ} (w : WF e) (h : 9895 * (e.A * e.A) ≤ 10000 * (e.B * e.B)) :
    e.e2 ≤ 105 / 10000 := by
  have hA := w.hA
  rw [w.he2, div_le_iff₀ (mul_pos hA hA)]
  linarith

theorem e2_le_of_flat {e : Ellipsoid ℝ} (w : WF e) {f : ℝ} (hB : e.B = e.A * (1 - f))
    (hf : 2 * f ≤ 105 / 10000) : e.e2 ≤ 105 / 10000 := by
  apply e2_le_of_sq w
  rw [hB]
  have hAA : 0 ≤ e.A * e.A := mul_self_nonneg _
  have h1 : 9895 / 10000 ≤ (1 - f) * (1 - f) := by nlinarith [mul_self_nonneg f]
  have := mul_le_mul_of_nonneg_left h1 hAA
  linarith

open Gama.Gen in
theorem ofRow_A (r : EllRow) : (ofRow r : Ellipsoid ℝ).A = lit r.a := by
  unfold ofRow; split <;> rfl

open Gama.Gen in
/-- a good row satisfies the numeric hypotheses of `bowring_submm` -/
theorem ofRow_bowring_hyps (r : EllRow) (hg : rowGood r = true) (hb : bowringRowOk r = true) :
    WF (ofRow r : Ellipsoid ℝ) ∧ (ofRow r : Ellipsoid ℝ).e2 ≤ 105 / 10000 ∧
      6300000 ≤ (ofRow r : Ellipsoid ℝ).A ∧ (ofRow r : Ellipsoid ℝ).A ≤ 6400000 := by
  have h10 : ∀ n : ℕ, (0 : ℝ) < (10 : ℝ) ^ n := fun n => by positivity
  have wf := ofRow_wf r hg
  unfold bowringRowOk at hb
  simp only [Bool.and_eq_true, decide_eq_true_eq] at hb
  obtain ⟨⟨ha1, ha2⟩, hk⟩ := hb
  refine ⟨wf, ?_, ?_, ?_⟩
  · unfold rowGood at hg
    revert wf
    unfold ofRow
    cases hkind : r.kind <;> simp only [hkind, Bool.and_eq_true, decide_eq_true_eq] at hg hk ⊢ <;> intro wf
    · -- set_ab
      obtain ⟨h1, h2⟩ := hg
      have hp0 : (lit r.p : ℝ) ≠ 0 := by
        rw [lit_real]; have : (0 : ℝ) < r.p.1 := by exact_mod_cast h1
        exact (div_pos this (h10 _)).ne'
      have hB : (setAb (lit r.a) (lit r.p) : Ellipsoid ℝ).B = lit r.p := by
        have := (setAbff1_real (lit r.a : ℝ) (lit r.p) 0 0).2; simpa [setAb, hp0] using this
      have hAe : (setAb (lit r.a) (lit r.p) : Ellipsoid ℝ).A = lit r.a := rfl
      apply e2_le_of_sq wf
      rw [hB, hAe, lit_real, lit_real, div_mul_div_comm, div_mul_div_comm, mul_div_assoc', mul_div_assoc',
        div_le_div_iff₀ (mul_pos (h10 _) (h10 _)) (mul_pos (h10 _) (h10 _))]
      have hc : (9895 : ℝ) * ((r.a.1 : ℝ) * 10 ^ r.p.2) ^ 2 ≤ 10000 * ((r.p.1 : ℝ) * 10 ^ r.a.2) ^ 2 := by
        exact_mod_cast hk
      linarith
    · -- set_af
      obtain ⟨⟨h1, h2⟩, h3⟩ := hg
      have hf0 : (lit r.p : ℝ) ≠ 0 := by
        rw [lit_real]; have : (0 : ℝ) < r.p.1 := by exact_mod_cast h2
        exact (div_pos this (h10 _)).ne'
      have hB : (setAf (lit r.a) (lit r.p) : Ellipsoid ℝ).B = lit r.a * (1 - lit r.p) := by
        have := (setAbff1_real (lit r.a : ℝ) 0 (lit r.p) 0).2; simpa [setAf, hf0] using this
      apply e2_le_of_flat wf hB
      rw [lit_real, mul_div_assoc', div_le_div_iff₀ (h10 _) (by norm_num)]
      have hc : (20000 : ℝ) * (r.p.1 : ℝ) ≤ 105 * 10 ^ r.p.2 := by exact_mod_cast hk
      linarith
    · -- set_af1
      obtain ⟨h1, h2⟩ := hg
      have hB : (setAf1 (lit r.a) (lit r.p) : Ellipsoid ℝ).B = lit r.a * (1 - 1 / lit r.p) := by
        have := (setAbff1_real (lit r.a : ℝ) 0 0 (lit r.p)).2; simpa [setAf1] using this
      apply e2_le_of_flat wf hB
      have hp1 : (0 : ℝ) < r.p.1 := by
        have : 0 < r.p.1 := lt_of_le_of_lt (Nat.zero_le _) h2
        exact_mod_cast this
      rw [lit_real, one_div_div, mul_div_assoc', div_le_div_iff₀ hp1 (by norm_num)]
      have hc : (20000 : ℝ) * 10 ^ r.p.2 ≤ 105 * (r.p.1 : ℝ) := by exact_mod_cast hk
      linarith
  · rw [ofRow_A, lit_real, le_div_iff₀ (h10 _)]; exact_mod_cast ha1
  · rw [ofRow_A, lit_real, div_le_iff₀ (h10 _)]; exact_mod_cast ha2

open Gama.Gen in
theorem table_bowring_ok : ∀ r ∈ ellipsoidTable, bowringRowOk r = true := by decide

open Gama.Gen in
theorem default_bowring_ok : bowringRowOk defaultEllipsoid = true := by decide

open Gama.Gen in
/-- every row of the table (ellipsoids.cpp) satisfies the hypotheses of `bowring_submm` -/
theorem table_bowring_hyps : ∀ r ∈ ellipsoidTable,
    WF (ofRow r : Ellipsoid ℝ) ∧ (ofRow r : Ellipsoid ℝ).e2 ≤ 105 / 10000 ∧
      6300000 ≤ (ofRow r : Ellipsoid ℝ).A ∧ (ofRow r : Ellipsoid ℝ).A ≤ 6400000 :=
  fun r hr => ofRow_bowring_hyps r (table_good r hr) (table_bowring_ok r hr)

open Gama.Gen in
/-- the default constructor `Ellipsoid()` (WGS 84) as well -/
theorem default_bowring_hyps :
    WF (ofRow defaultEllipsoid : Ellipsoid ℝ) ∧ (ofRow defaultEllipsoid : Ellipsoid ℝ).e2 ≤ 105 / 10000 ∧
      6300000 ≤ (ofRow defaultEllipsoid : Ellipsoid ℝ).A ∧ (ofRow defaultEllipsoid : Ellipsoid ℝ).A ≤ 6400000 :=
  ofRow_bowring_hyps _ default_good default_bowring_ok

open Gama.Gen in
/-- sub-millimetre latitude for every ellipsoid of the table -/
theorem table_bowring_submm (clamp : Bool) : ∀ r ∈ ellipsoidTable, ∀ φ l h : ℝ,
    -10000 ≤ h → h ≤ 20000000 → 0 < Real.cos φ → l ∈ Set.Ioc (-π) π →
    ((ofRow r : Ellipsoid ℝ).N φ + h) *
      |Real.sin ((xyz2blhWith clamp (ofRow r : Ellipsoid ℝ)
          (((ofRow r : Ellipsoid ℝ).N φ + h) * Real.cos φ * Real.cos l)
          (((ofRow r : Ellipsoid ℝ).N φ + h) * Real.cos φ * Real.sin l)
          (((ofRow r : Ellipsoid ℝ).N φ * (ofRow r : Ellipsoid ℝ).Ime2 + h) * Real.sin φ)).1 - φ)| < 1 / 1000 := by
  intro r hr φ l h hh1 hh2 hc hl
  obtain ⟨wf, he2, hA1, hA2⟩ := table_bowring_hyps r hr
  exact bowring_submm clamp wf he2 hA1 hA2 hh1 hh2 hc hl

/-! ### non-vacuity -/

/-- the hypotheses of `bowring_submm` are satisfiable: `set_ab(6378137, 6356752)`, φ = π/4, l = 0,
    h = 1000 -/
example : ∃ (e : Ellipsoid ℝ) (φ l h : ℝ), WF e ∧ e.e2 ≤ 105 / 10000 ∧ 6300000 ≤ e.A ∧ e.A ≤ 6400000 ∧
    -10000 ≤ h ∧ h ≤ 20000000 ∧ 0 < Real.cos φ ∧ l ∈ Set.Ioc (-π) π ∧ 0 < bowringD e h := by
  have wf : WF (setAb (6378137 : ℝ) 6356752) := setAb_wf (by norm_num) (by norm_num)
  have hAe : (setAb (6378137 : ℝ) 6356752).A = 6378137 := rfl
  have hB : (setAb (6378137 : ℝ) 6356752).B = 6356752 := by
    have := (setAbff1_real (6378137 : ℝ) 6356752 0 0).2; simpa [setAb] using this
  have he2 : (setAb (6378137 : ℝ) 6356752).e2 ≤ 105 / 10000 := by
    apply e2_le_of_sq wf; rw [hAe, hB]; norm_num
  have hA1 : (6300000 : ℝ) ≤ (setAb (6378137 : ℝ) 6356752).A := by rw [hAe]; norm_num
  have hA2 : (setAb (6378137 : ℝ) 6356752).A ≤ 6400000 := by rw [hAe]; norm_num
  refine ⟨_, π / 4, 0, 1000, wf, he2, hA1, hA2, by norm_num, by norm_num, ?_, ?_, ?_⟩
  · rw [Real.cos_pi_div_four]; positivity
  · exact ⟨by linarith [Real.pi_pos], Real.pi_pos.le⟩
  · have := (numeric_facts wf.hB wf.hBA he2 wf.e22_nonneg hA1 hA2 (by norm_num : (-10000 : ℝ) ≤ 1000)
      wf.hIme2 wf.BB_eq wf.e22_mul_BB).2.2.1
    unfold bowringD; linarith

end Gama.Ellipsoid
