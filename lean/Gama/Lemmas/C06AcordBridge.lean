/-
  C06 — Acord feeds the fixed point: when the modelled `Acord2::execute` (soundness invariant `Sound5`, preserved by
  `Acord.execute` on exact observations — `C06_acord2_modelled_sound`) ends with `missing_xy_` and `missing_z_` empty,
  the approximate coordinates it leaves ARE the true configuration.  So every theorem stated "at the true coordinates"
  (`C06_true_coordinates_fixed_point_assembled`, `C06_exact_network_solution_zero`,
  `C06_refine_adjustment_fixed_point`) applies to the program's OWN approximate coordinates.

  `netOf keys pd stat ori xN` is the network the linearisation reads (`Lin.Net`) built from a point list of Acord
  (`PD Nat ℝ`: x, y, z, `test_xy()`, `test_z()`): coordinates from `pd` on the points `keys` of the network, statuses,
  orientations and `xNorthAngle` given.  `netOf keys (truePD T) …` is the true configuration.
  `uxy`, `uz` are the constructor invariant of Acord2 (a point of the network without coordinates is in the missing
  list: the two loops over `PD_` of the constructor, `missingXY` / `missingZ`; kept by every strategy — `KL.uxy`).
-/
import Gama.Lemmas.C06Mono
import Gama.Lemmas.C06FixedPoint
namespace Gama.C06AB
open Gama Gama.Lin Gama.Acord Gama.C06A Gama.C06S Gama.C06M Gama.C06FP

/-- the network the linearisation reads, with the coordinates of Acord's point list on the points `keys` -/
noncomputable def netOf (keys : List Nat) (pd : PD Nat ℝ) (stat : Nat → Status × Status) (ori : Nat → ℝ) (xN : ℝ) :
    Lin.Net ℝ :=
  { pt := fun i => if i ∈ keys then ⟨(pd i).x, (pd i).y, (pd i).z, (stat i).1, (stat i).2⟩
                   else ⟨0, 0, 0, (stat i).1, (stat i).2⟩
    ori := ori, xNorth := xN }

/-- the true configuration as a point list -/
noncomputable def truePD (T : Truth Nat) : PD Nat ℝ := fun i => ⟨T.x i, T.y i, T.z i, true, true⟩

/-- **Acord → fixed point**: the soundness invariant of the modelled `Acord2::execute`, the constructor invariant of
    the missing lists, and both lists empty at the end ⇒ the approximate coordinates are the true configuration -/
theorem acord_result_is_truth (T : Truth Nat) (xN : ℝ) (IR : AiPriv ℝ → Prop) (g : G5 Nat) (keys : List Nat)
    (stat : Nat → Status × Status) (ori : Nat → ℝ) (xN' : ℝ)
    (hs : Sound5 T xN IR g)
    (uxy : ∀ i ∈ keys, (g.st.pd i).bxy = false → i ∈ g.st.missXY)
    (uz : ∀ i ∈ keys, (g.st.pd i).bz = false → i ∈ g.st.missZ)
    (hxy : g.st.missXY = []) (hz : g.st.missZ = []) :
    netOf keys g.st.pd stat ori xN' = netOf keys (truePD T) stat ori xN' := by
  unfold netOf
  congr 1
  funext i
  by_cases hi : i ∈ keys
  · have hb : (g.st.pd i).bxy = true := by
      cases h : (g.st.pd i).bxy
      · have := uxy i hi h; rw [hxy] at this; cases this
      · rfl
    have hbz : (g.st.pd i).bz = true := by
      cases h : (g.st.pd i).bz
      · have := uz i hi h; rw [hz] at this; cases this
      · rfl
    obtain ⟨e1, e2⟩ := hs.sxy i hb
    have e3 := hs.sz i hbz
    simp only [hi, if_true, truePD, e1, e2, e3]
  · simp only [hi, if_false]

/-- hence an observation that is exact at the true configuration is exact at the coordinates Acord leaves -/
theorem exact_at_acord_result (T : Truth Nat) (xN : ℝ) (IR : AiPriv ℝ → Prop) (g : G5 Nat) (keys : List Nat)
    (stat : Nat → Status × Status) (ori : Nat → ℝ) (xN' : ℝ)
    (hs : Sound5 T xN IR g)
    (uxy : ∀ i ∈ keys, (g.st.pd i).bxy = false → i ∈ g.st.missXY)
    (uz : ∀ i ∈ keys, (g.st.pd i).bz = false → i ∈ g.st.missZ)
    (hxy : g.st.missXY = []) (hz : g.st.missZ = []) (ob : NObs ℝ)
    (h : ExactObs (netOf keys (truePD T) stat ori xN') ob) : ExactObs (netOf keys g.st.pd stat ori xN') ob := by
  rw [acord_result_is_truth T xN IR g keys stat ori xN' hs uxy uz hxy hz]; exact h

/-! ### witness: a finished run (every point published, nothing missing, strategy objects as constructed) -/

noncomputable def bG : G5 ℕ :=
  ⟨⟨truePD exT, [], [], []⟩, [], ⟨AzAlg.fresh, HdAlg.fresh, VecAlg.fresh, ZdAlg.fresh, ⟨⟨false, false⟩, [], 1⟩⟩⟩

theorem bSound : Sound5 exT 0 (fun _ => True) bG := by
  refine ⟨?_, ?_, ?_, ?_, ?_, ?_, ?_, trivial⟩
  · intro i _; exact ⟨rfl, rfl⟩
  · intro i _; rfl
  · intro c hc; simp [bG] at hc
  · intro c hc; simp [bG] at hc
  · intro h; simp [bG, AzAlg.fresh] at h
  · intro h; simp [bG, HdAlg.fresh] at h
  · intro h; simp [bG, VecAlg.fresh] at h

end Gama.C06AB
