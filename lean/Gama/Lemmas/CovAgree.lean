/-
  The sparse block-diagonal variant (`BlockDiagonal::cholDec` + `Homogenization::run` sweep) equals the
  dense variant (`Adj::choldec` + `Adj::forwardSubstitution`) block by block: same Cholesky factor
  (uniqueness of the factor with positive diagonal) and same substitution result.
-/
import Gama.Lemmas.CovBd
namespace Gama.Cov
open Finset Packed CovMat

set_option linter.unusedSectionVars false

variable {K : Type} [Field K] [LinearOrder K] [IsStrictOrderedRing K] [SqrtFn K]

attribute [local instance] scalarOfField

/-- uniqueness of the Cholesky factor with positive diagonal (upper form, `1`-based, rows `≤ N`) -/
theorem chol_unique (N : Nat) (c u f : Nat → Nat → K)
    (hu : ∀ i j, 1 ≤ i → i ≤ j → j ≤ N → c i j = ∑ r ∈ Icc 1 i, u r i * u r j)
    (hf : ∀ i j, 1 ≤ i → i ≤ j → j ≤ N → c i j = ∑ r ∈ Icc 1 i, f r i * f r j)
    (hup : ∀ i, 1 ≤ i → i ≤ N → 0 < u i i) (hfp : ∀ i, 1 ≤ i → i ≤ N → 0 < f i i) :
    ∀ i j, 1 ≤ i → i ≤ j → j ≤ N → u i j = f i j := by
  intro i
  induction i using Nat.strong_induction_on with
  | _ i ih =>
    intro j h1 h2 h3
    have hS : ∀ x, i ≤ x → x ≤ N →
        ∑ r ∈ Ico 1 i, u r i * u r x = ∑ r ∈ Ico 1 i, f r i * f r x := by
      intro x hx1 hx2
      apply Finset.sum_congr rfl
      intro r hr
      rw [Finset.mem_Ico] at hr
      rw [ih r hr.2 i hr.1 (by omega) (by omega), ih r hr.2 x hr.1 (by omega) hx2]
    have split : ∀ (g : Nat → Nat → K) x, ∑ r ∈ Icc 1 i, g r i * g r x = (∑ r ∈ Ico 1 i, g r i * g r x) + g i i * g i x := by
      intro g x
      rw [← Finset.Ico_add_one_right_eq_Icc, Finset.sum_Ico_succ_top h1]
    have eq : ∀ x, i ≤ x → x ≤ N → u i i * u i x = f i i * f i x := by
      intro x hx1 hx2
      have a := hu i x h1 hx1 hx2
      have b := hf i x h1 hx1 hx2
      rw [split u x] at a
      rw [split f x, ← hS x hx1 hx2] at b
      have := a.symm.trans b
      exact add_left_cancel this
    have hd : u i i = f i i := by
      have hsq := eq i (le_refl _) (by omega)
      have hu0 := hup i h1 (by omega)
      have hf0 := hfp i h1 (by omega)
      rcases mul_self_eq_mul_self_iff.mp hsq with h | h
      · exact h
      · rw [h] at hu0; linarith
    have := eq j h2 h3
    rw [hd] at this
    exact mul_left_cancel₀ (ne_of_gt (hfp i h1 (by omega))) this

/-- the diagonal of the `Adj::choldec` factor is positive when `sqrt` is -/
theorem adjCholdec_diag_pos {C U : CovMat K} (hC : C.WF)
    (hsq : ∀ x : K, 0 < x → SqrtFn.sq x * SqrtFn.sq x = x ∧ 0 < SqrtFn.sq x) (h : adjCholdec C = .ok U) :
    ∀ i, 1 ≤ i → i ≤ C.dim → 0 < U.get i i := by
  unfold adjCholdec at h
  cases hF : cholDec C with
  | error e => rw [hF] at h; cases h
  | ok F =>
    rw [hF] at h
    have hU : U = scaleToChol F := by cases h; rfl
    subst hU
    obtain ⟨hFw, hFd, _, hpos, _, _⟩ := cholDec_reproduces hC hF
    intro i h1 h2
    rw [scaleToChol_get hFw i i h1 (le_refl _) (by rw [hFd]; exact h2), if_pos rfl]
    exact (hsq _ (hpos i h1 h2)).2

/-- **sparse = dense, block by block.**  If neither variant rejects the block, the block-diagonal
    factor equals the dense factor entrywise, the column-oriented sweep of `Homogenization::run` equals
    `Adj::forwardSubstitution` with the same factor, and hence the homogenised vectors of the two code
    paths are equal. -/
theorem sparse_dense_agree {C U F : CovMat K} (hC : C.WF)
    (hsq : ∀ x : K, 0 < x → SqrtFn.sq x * SqrtFn.sq x = x ∧ 0 < SqrtFn.sq x)
    (tol : K) (htol : 0 < tol) (hd : adjCholdec C = .ok U) (hs : bdCholBlock tol C = .ok F) :
    (∀ i j, 1 ≤ i → i ≤ j → j ≤ C.dim → F.get i j = U.get i j) ∧
    (∀ v : Array K, v.size = C.dim → sweep F v = forwardSubst F v) ∧
    (∀ v : Array K, v.size = C.dim → ∀ i, 1 ≤ i → i ≤ C.dim →
      (sweep F v).getD (i - 1) 0 = (forwardSubst U v).getD (i - 1) 0) := by
  obtain ⟨hUw, hUd, _, hUne, hULL, _⟩ := adjCholdec_LLt hC (fun x hx => (hsq x hx).1) hd
  have hUpos := adjCholdec_diag_pos hC hsq hd
  obtain ⟨hFw, hFd, _, hFpos, hFLL, _⟩ := bdCholBlock_reproduces hsq hC tol htol hs
  have heq := chol_unique C.dim (fun i j => C.get i j) (fun i j => F.get i j) (fun i j => U.get i j)
    hFLL hULL hFpos hUpos
  have hFne : ∀ i, 1 ≤ i → i ≤ F.dim → F.get i i ≠ 0 := by
    intro i h1 h2; exact ne_of_gt (hFpos i h1 (by rw [← hFd]; exact h2))
  have hsw : ∀ v : Array K, v.size = C.dim → sweep F v = forwardSubst F v := by
    intro v hv
    exact sweep_eq_forwardSubst SqrtFn.sq F hFw v (by rw [hFd]; exact hv) hFne
  refine ⟨heq, hsw, ?_⟩
  intro v hv i h1 h2
  rw [hsw v hv]
  -- forwardSubst F v satisfies the equations with the coefficients of U (they are equal)
  have hUne' : ∀ i, 1 ≤ i → i ≤ U.dim → U.get i i ≠ 0 := by
    intro i h1 h2; exact hUne i h1 (by rw [← hUd]; exact h2)
  have hspecF := (forwardSubst_spec SqrtFn.sq F v (by rw [hFd]; exact hv) hFne).2
  have := forwardSubst_unique SqrtFn.sq U v (by rw [hUd]; exact hv) hUne' (forwardSubst F v)
    (by
      intro i h1 h2
      have h2' : i ≤ C.dim := by rw [← hUd]; exact h2
      rw [← hspecF i h1 (by rw [hFd]; exact h2')]
      apply Finset.sum_congr rfl
      intro j hj
      rw [Finset.mem_Icc] at hj
      rw [CovMat.get_symm U i j, CovMat.get_symm F i j, heq j i hj.1 hj.2 h2'])
  exact this i h1 (by rw [hUd]; exact h2)

end Gama.Cov
