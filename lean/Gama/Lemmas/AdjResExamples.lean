/-
  Event lists used by the non-vacuity examples of Props/C11AdjRes.lean (adjustment-results reader).
-/
import Gama.Model.AdjResRun
namespace Gama.AdjRes.Ex
open Gama.AdjRes

def xmlns : String × String := ("xmlns", "http://www.gnu.org/software/gama/gama-local-adjustment")

/-- start, character data, stop of a leaf element -/
def leaf (n : String) (txt : String) : List Event := [.start n [], .text txt.toList, .stop]

/-- the spine up to `<cov-mat>`: `state == s_cov_mat` -/
def toCovMat : List Event :=
  [.start "gama-local-adjustment" [xmlns], .start "description" [], .stop,
   .start "network-general-parameters" [("epoch", "0")], .stop,
   .start "network-processing-summary" [], .stop, .start "coordinates" [],
   .start "fixed" [], .stop, .start "approximate" [], .stop, .start "adjusted" [], .stop,
   .start "orientation-shifts" [], .stop, .start "cov-mat" []]

end Gama.AdjRes.Ex
