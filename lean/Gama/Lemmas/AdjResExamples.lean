/-
  Event lists used by the non-vacuity examples of Props/C11AdjRes.lean (adjustment-results reader).
-/
import Gama.Model.AdjResRun
namespace Gama.AdjRes.Ex
open Gama.AdjRes

def xmlns : String × String := ("xmlns", "http://www.gnu.org/software/gama/gama-local-adjustment")

/-- start, character data, stop of a leaf element -/
def leaf (n : String) (txt : String) : List Event := [.start n [], .text txt.toList, .stop]

/-- the spine up to `<cov-mat>` with the given content of `<adjusted>`: `state == s_cov_mat` -/
def spine (adjusted : List Event) : List Event :=
  [.start "gama-local-adjustment" [xmlns], .start "description" [], .stop,
   .start "network-general-parameters" [("epoch", "0")], .stop,
   .start "network-processing-summary" [], .stop, .start "coordinates" [],
   .start "fixed" [], .stop, .start "approximate" [], .stop, .start "adjusted" []] ++ adjusted ++
  [.stop, .start "orientation-shifts" [], .stop, .start "cov-mat" []]

/-- one adjusted point with x, y and z: three adjustment indexes (14 events) -/
def pointXYZ : List Event :=
  [.start "point" []] ++ leaf "id" "A" ++ leaf "x" "1" ++ leaf "y" "2" ++ leaf "z" "3" ++ [.stop]

/-- the spine with three adjusted unknowns announced before `<cov-mat>` -/
def toCovMat : List Event := spine pointXYZ

/-- the spine without any adjusted point: every `<cov-mat>` with `dim ≥ 1` is refused (fix 3e87ff8) -/
def toCovMatNoPoints : List Event := spine []

end Gama.AdjRes.Ex
