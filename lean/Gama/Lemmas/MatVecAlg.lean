/-
  Lemmas about Model/MatVec.lean: the loop combinators, index maps, and the
  entrywise meaning of sums, products and transposes.
-/
import Gama.Model.MatVec
import Mathlib.Data.Matrix.Mul
import Mathlib.Tactic.Ring
namespace Gama.MatVec
open Finset

variable {K : Type}

/-! ### loop combinators -/

theorem rd_ok {a : Array K} {p : Nat} (h : p < a.size) : rd a p = .ok a[p] := by
  simp [rd, h]

theorem rd_oob {a : Array K} {p : Nat} (h : a.size ≤ p) : rd a p = .error .oob := by
  simp [rd, Array.getElem?_eq_none h]

theorem tabulate_spec (n : Nat) (f : Nat → Except Err K) (g : Nat → K)
    (h : ∀ p, p < n → f p = .ok (g p)) :
    ∃ a, tabulate n f = .ok a ∧ a.size = n ∧ ∀ p, p < n → a[p]? = some (g p) := by
  induction n with
  | zero => exact ⟨#[], rfl, rfl, by intro p hp; omega⟩
  | succ n ih =>
    obtain ⟨a, ha, hs, he⟩ := ih (fun p hp => h p (by omega))
    refine ⟨a.push (g n), ?_, by simp [hs], ?_⟩
    · simp [tabulate, ha, h n (by omega)]
    · intro p hp
      by_cases hpn : p = n
      · subst hpn; simp [← hs]
      · have : p < n := by omega
        rw [Array.getElem?_push]; simp [hs, hpn, he p this]

theorem sumLoop_spec [AddCommMonoid K] (n : Nat) (f : Nat → Except Err K) (g : Nat → K)
    (h : ∀ k, k < n → f k = .ok (g k)) : sumLoop n f = .ok (∑ k ∈ range n, g k) := by
  induction n with
  | zero => simp [sumLoop]
  | succ n ih =>
    simp [sumLoop, ih (fun k hk => h k (by omega)), h n (by omega), Finset.sum_range_succ]

/-- an error in any iteration makes the whole loop fail -/
theorem tabulate_error (n : Nat) (f : Nat → Except Err K) (p : Nat) (e : Err) (hp : p < n)
    (h : f p = .error e) : ∃ e', tabulate n f = .error e' := by
  induction n with
  | zero => omega
  | succ n ih =>
    by_cases hpn : p = n
    · subst hpn
      cases ht : tabulate p f with
      | error e' => exact ⟨e', by simp [tabulate, ht]⟩
      | ok a => exact ⟨e, by simp [tabulate, ht, h]⟩
    · obtain ⟨e', he'⟩ := ih (by omega)
      exact ⟨e', by simp [tabulate, he']⟩

/-! ### index maps -/

theorem idx_lt {i k r c : Nat} (hi : i < r) (hk : k < c) : i * c + k < r * c := by
  calc i * c + k < i * c + c := by omega
    _ = (i + 1) * c := by ring
    _ ≤ r * c := Nat.mul_le_mul_right c hi

/-- `Mat::operator()` : `(r,c) ↦ (r-1)·cols + (c-1)` is a bijection of
    `[1,rows]×[1,cols]` onto `[0, rows·cols)` -/
theorem matIdx_lt {rows cols r c : Nat} (hr : 1 ≤ r ∧ r ≤ rows) (hc : 1 ≤ c ∧ c ≤ cols) :
    matIdx cols r c < rows * cols := by
  unfold matIdx; exact idx_lt (by omega) (by omega)

theorem matIdx_inj {cols r c r' c' : Nat} (hr : 1 ≤ r) (hc : 1 ≤ c ∧ c ≤ cols)
    (hr' : 1 ≤ r') (hc' : 1 ≤ c' ∧ c' ≤ cols) (h : matIdx cols r c = matIdx cols r' c') :
    r = r' ∧ c = c' := by
  unfold matIdx at h
  have hpos : 0 < cols := by omega
  have h1 : ((r - 1) * cols + (c - 1)) / cols = r - 1 := by
    rw [Nat.mul_comm, Nat.mul_add_div hpos, Nat.div_eq_of_lt (by omega)]; simp
  have h2 : ((r' - 1) * cols + (c' - 1)) / cols = r' - 1 := by
    rw [Nat.mul_comm, Nat.mul_add_div hpos, Nat.div_eq_of_lt (by omega)]; simp
  have h3 : ((r - 1) * cols + (c - 1)) % cols = c - 1 := by
    rw [Nat.mul_comm, Nat.mul_add_mod, Nat.mod_eq_of_lt (by omega)]
  have h4 : ((r' - 1) * cols + (c' - 1)) % cols = c' - 1 := by
    rw [Nat.mul_comm, Nat.mul_add_mod, Nat.mod_eq_of_lt (by omega)]
  rw [h] at h1 h3
  constructor <;> omega

theorem matIdx_surj {rows cols p : Nat} (hp : p < rows * cols) :
    ∃ r c, (1 ≤ r ∧ r ≤ rows) ∧ (1 ≤ c ∧ c ≤ cols) ∧ matIdx cols r c = p := by
  have hpos : 0 < cols := by
    rcases Nat.eq_zero_or_pos cols with h | h
    · subst h; simp at hp
    · exact h
  refine ⟨p / cols + 1, p % cols + 1, ⟨Nat.le_add_left 1 _, ?_⟩, ⟨Nat.le_add_left 1 _, ?_⟩, ?_⟩
  · have : p / cols < rows := by rw [Nat.div_lt_iff_lt_mul hpos]; exact hp
    omega
  · have := Nat.mod_lt p hpos; omega
  · unfold matIdx; simp; rw [Nat.mul_comm]; exact Nat.div_add_mod p cols

/-- triangular numbers: `i(i-1)/2` -/
theorem tri_succ (i : Nat) : (i + 1) * i / 2 = i * (i - 1) / 2 + i := by
  cases i with
  | zero => rfl
  | succ k =>
    simp only [Nat.add_sub_cancel]
    have : (k + 1 + 1) * (k + 1) = (k + 1) * k + 2 * (k + 1) := by ring
    rw [this, Nat.add_mul_div_left _ _ (by omega : 0 < 2)]

theorem tri_mono {i j : Nat} (h : i ≤ j) : i * (i - 1) / 2 ≤ j * (j - 1) / 2 := by
  induction j with
  | zero => have : i = 0 := by omega
            subst this; exact Nat.le_refl _
  | succ k ih =>
    by_cases hik : i = k + 1
    · subst hik; exact Nat.le_refl _
    · have := ih (by omega)
      have h2 := tri_succ k
      simp only [Nat.add_sub_cancel] at *
      omega

/-- lower-triangle offset of `(i,j)`, `1 ≤ j ≤ i ≤ n`, lies in `[0, n(n+1)/2)` -/
theorem symIdx_lt {n i j : Nat} (hj : 1 ≤ j) (hji : j ≤ i) (hi : i ≤ n) :
    symIdx i j < n * (n + 1) / 2 := by
  unfold symIdx
  simp only [ge_iff_le, hji, if_true]
  have h1 := tri_succ i
  have h2 : (i + 1) * (i + 1 - 1) / 2 ≤ (n + 1) * (n + 1 - 1) / 2 := tri_mono (by omega : i + 1 ≤ n + 1)
  simp only [Nat.add_sub_cancel] at h2
  have h3 : n * (n + 1) = (n + 1) * n := by ring
  rw [h3]; omega

/-- the accessor is symmetric -/
theorem symIdx_symm (i j : Nat) : symIdx i j = symIdx j i := by
  unfold symIdx
  by_cases h1 : i ≥ j <;> by_cases h2 : j ≥ i <;> simp [h1, h2]
  · have : i = j := by omega
    subst this; rfl
  · omega

/-- distinct cells of the lower triangle have distinct offsets -/
theorem symIdx_inj {i j i' j' : Nat} (hj : 1 ≤ j) (hji : j ≤ i) (hj' : 1 ≤ j') (hji' : j' ≤ i')
    (h : symIdx i j = symIdx i' j') : i = i' ∧ j = j' := by
  unfold symIdx at h
  simp only [ge_iff_le, hji, hji', if_true] at h
  have key : ∀ a b : Nat, a < b → a * (a - 1) / 2 + a ≤ b * (b - 1) / 2 := by
    intro a b hab
    have := tri_succ a
    have h2 : (a + 1) * (a + 1 - 1) / 2 ≤ b * (b - 1) / 2 := tri_mono (by omega : a + 1 ≤ b)
    simp only [Nat.add_sub_cancel] at h2
    omega
  rcases Nat.lt_trichotomy i i' with hlt | heq | hgt
  · have := key i i' hlt; omega
  · subst heq; exact ⟨rfl, by omega⟩
  · have := key i' i hgt; omega

/-- every offset below `n(n+1)/2` is the offset of a cell of the lower triangle -/
theorem symIdx_surj {n p : Nat} (hp : p < n * (n + 1) / 2) :
    ∃ i j, 1 ≤ j ∧ j ≤ i ∧ i ≤ n ∧ symIdx i j = p := by
  induction n with
  | zero => simp at hp
  | succ k ih =>
    by_cases hk : p < k * (k + 1) / 2
    · obtain ⟨i, j, h1, h2, h3, h4⟩ := ih hk
      exact ⟨i, j, h1, h2, by omega, h4⟩
    · have h1 := tri_succ (k + 1)
      simp only [Nat.add_sub_cancel] at h1
      have h3 : (k + 1) * (k + 1 + 1) = (k + 1 + 1) * (k + 1) := by ring
      have h4 : k * (k + 1) = (k + 1) * k := by ring
      rw [h3, h1] at hp
      rw [h4] at hk
      refine ⟨k + 1, p - (k + 1) * k / 2 + 1, by omega, by omega, by omega, ?_⟩
      unfold symIdx
      have : k + 1 ≥ p - (k + 1) * k / 2 + 1 := by omega
      simp only [this, if_true, Nat.add_sub_cancel]
      omega

/-! ### entrywise meaning -/

/-- well-formed: the storage has exactly `rows·cols` elements -/
def Mat.WF (A : Mat K) : Prop := A.data.size = A.rows * A.cols

/-- entry `(i,j)`, 0-based, of a matrix given by its storage (junk `d` outside) -/
def Mat.at (A : Mat K) (d : K) (i j : Nat) : K := A.data.getD (i * A.cols + j) d

theorem Mat.rd_at {A : Mat K} (hA : A.WF) (d : K) {i j : Nat} (hi : i < A.rows) (hj : j < A.cols) :
    rd A.data (i * A.cols + j) = .ok (A.at d i j) := by
  have : i * A.cols + j < A.data.size := by rw [hA]; exact idx_lt hi hj
  rw [rd_ok this]; simp [Mat.at, Array.getD, this]

/-- the Mathlib matrix of a model matrix -/
def Mat.toMatrix (A : Mat K) (d : K) (r c : Nat) : Matrix (Fin r) (Fin c) K :=
  fun i j => A.at d i.val j.val

theorem div_mod_idx {i j c : Nat} (hj : j < c) : (i * c + j) / c = i ∧ (i * c + j) % c = j := by
  have hpos : 0 < c := by omega
  constructor
  · rw [Nat.mul_comm, Nat.mul_add_div hpos, Nat.div_eq_of_lt hj]; simp
  · rw [Nat.mul_comm, Nat.mul_add_mod, Nat.mod_eq_of_lt hj]

theorem at_of_tab {C : Mat K} {g : Nat → K} (d : K)
    (he : ∀ p, p < C.rows * C.cols → C.data[p]? = some (g p)) {i j : Nat}
    (hi : i < C.rows) (hj : j < C.cols) : C.at d i j = g (i * C.cols + j) := by
  have := he (i * C.cols + j) (idx_lt hi hj)
  simp [Mat.at, Array.getD_eq_getD_getElem?, this]

section products
variable [Semiring K]

/-- **fast product** `operator*(const Mat&, const Mat&)` (pointer walking) -/
theorem matMul_spec (A B : Mat K) (hA : A.WF) (hB : B.WF) (hc : A.cols = B.rows) (d : K) :
    ∃ C, matMul A B = .ok C ∧ C.rows = A.rows ∧ C.cols = B.cols ∧ C.WF ∧
      ∀ i j, i < A.rows → j < B.cols →
        C.at d i j = ∑ k ∈ range A.cols, A.at d i k * B.at d k j := by
  have hlines : ∀ p, p < A.rows * B.cols →
      sumLoop A.cols (fun k => mulRd A.data (p / B.cols * A.cols + k) B.data (p % B.cols + k * B.cols))
        = .ok (∑ k ∈ range A.cols, A.at d (p / B.cols) k * B.at d k (p % B.cols)) := by
    intro p hp
    have hpos : 0 < B.cols := by
      rcases Nat.eq_zero_or_pos B.cols with h | h
      · rw [h] at hp; simp at hp
      · exact h
    have hi : p / B.cols < A.rows := by rw [Nat.div_lt_iff_lt_mul hpos]; exact hp
    have hj : p % B.cols < B.cols := Nat.mod_lt _ hpos
    apply sumLoop_spec
    intro k hk
    have hk' : k < B.rows := by omega
    have e1 := Mat.rd_at hA d hi hk
    have e2 : rd B.data (p % B.cols + k * B.cols) = .ok (B.at d k (p % B.cols)) := by
      rw [Nat.add_comm]; exact Mat.rd_at hB d hk' hj
    simp [mulRd, e1, e2]
  obtain ⟨a, ha, hs, he⟩ := tabulate_spec (A.rows * B.cols) _ _ hlines
  refine ⟨⟨A.rows, B.cols, a⟩, ?_, rfl, rfl, hs, ?_⟩
  · have hg : ¬ (A.cols ≠ B.rows) := by simp [hc]
    simp only [matMul, hg, if_false, ha]
  · intro i j hi hj
    have := at_of_tab (C := ⟨A.rows, B.cols, a⟩) d he hi hj
    rw [this]
    obtain ⟨e1, e2⟩ := div_mod_idx (i := i) hj
    simp only [e1, e2]

/-- **generic product** `operator*(const MatBase&, const MatBase&)` (through `operator()`) -/
theorem mbMul_spec (A B : Mat K) (hA : A.WF) (hB : B.WF) (hc : A.cols = B.rows) (d : K) :
    ∃ C, mbMul A.mb B.mb = .ok C ∧ C.rows = A.rows ∧ C.cols = B.cols ∧ C.WF ∧
      ∀ i j, i < A.rows → j < B.cols →
        C.at d i j = ∑ k ∈ range A.cols, A.at d i k * B.at d k j := by
  have hlines : ∀ p, p < A.rows * B.cols →
      sumLoop B.rows (fun k0 => getMul A.mb B.mb (p / B.cols + 1) (k0 + 1) (p % B.cols + 1))
        = .ok (∑ k ∈ range B.rows, A.at d (p / B.cols) k * B.at d k (p % B.cols)) := by
    intro p hp
    have hpos : 0 < B.cols := by
      rcases Nat.eq_zero_or_pos B.cols with h | h
      · rw [h] at hp; simp at hp
      · exact h
    have hi : p / B.cols < A.rows := by rw [Nat.div_lt_iff_lt_mul hpos]; exact hp
    have hj : p % B.cols < B.cols := Nat.mod_lt _ hpos
    apply sumLoop_spec
    intro k hk
    have hk' : k < A.cols := by omega
    have e1 := Mat.rd_at hA d hi hk'
    have e2 := Mat.rd_at hB d hk hj
    simp [getMul, Mat.mb, matIdx, e1, e2]
  obtain ⟨a, ha, hs, he⟩ := tabulate_spec (A.rows * B.cols) _ _ hlines
  refine ⟨⟨A.rows, B.cols, a⟩, ?_, rfl, rfl, hs, ?_⟩
  · have hg : ¬ (A.cols ≠ B.rows) := by simp [hc]
    simp only [mbMul, hg, if_false]
    rw [show (Mat.mb A).rows = A.rows from rfl, show (Mat.mb B).cols = B.cols from rfl,
        show (Mat.mb B).rows = B.rows from rfl, ha,
        show (Mat.mb A).cols = A.cols from rfl, if_neg hg]
  · intro i j hi hj
    have := at_of_tab (C := ⟨A.rows, B.cols, a⟩) d he hi hj
    rw [this]
    obtain ⟨e1, e2⟩ := div_mod_idx (i := i) hj
    simp only [e1, e2, hc]

/-- both product implementations compute the Mathlib matrix product -/
theorem matMul_toMatrix (A B : Mat K) (hA : A.WF) (hB : B.WF) (hc : A.cols = B.rows) (d : K) :
    ∃ C, matMul A B = .ok C ∧ mbMul A.mb B.mb = .ok C ∧ C.rows = A.rows ∧ C.cols = B.cols ∧
      C.toMatrix d A.rows B.cols = A.toMatrix d A.rows A.cols * (B.toMatrix d A.cols B.cols) := by
  obtain ⟨C, h1, h2, h3, h4, h5⟩ := matMul_spec A B hA hB hc d
  obtain ⟨C', h1', h2', h3', h4', h5'⟩ := mbMul_spec A B hA hB hc d
  have hCC : C' = C := by
    rcases C with ⟨r, c, a⟩; rcases C' with ⟨r', c', a'⟩
    simp only at h2 h3 h2' h3'; subst h2 h3 h2' h3'
    congr 1
    apply Array.ext
    · rw [h4, h4']
    · intro p hp1 hp2
      have hp : p < A.rows * B.cols := by rw [← h4]; exact hp2
      have hpos : 0 < B.cols := by
        rcases Nat.eq_zero_or_pos B.cols with h | h
        · rw [h] at hp; simp at hp
        · exact h
      have hi : p / B.cols < A.rows := by rw [Nat.div_lt_iff_lt_mul hpos]; exact hp
      have hj : p % B.cols < B.cols := Nat.mod_lt _ hpos
      have e := h5 _ _ hi hj
      have e' := h5' _ _ hi hj
      have hpe : p / B.cols * B.cols + p % B.cols = p := Nat.div_add_mod' p B.cols
      simp only [Mat.at, hpe] at e e'
      rw [← e'] at e
      simp only [Array.getD, hp1, hp2, dif_pos] at e
      exact e.symm
  refine ⟨C, h1, hCC ▸ h1', h2, h3, ?_⟩
  funext i j
  simp only [Mat.toMatrix, Matrix.mul_apply]
  rw [h5 i.val j.val i.isLt j.isLt, ← Fin.sum_univ_eq_sum_range (fun k => A.at d i.val k * B.at d k j.val)]

end products

/-- **sum / difference** `Mat::operator±(const Mat&)` through `MatVecBase::add/sub` -/
theorem matAdd_spec [Add K] (A B : Mat K) (hA : A.WF) (hB : B.WF)
    (hr : A.rows = B.rows) (hc : A.cols = B.cols) (d : K) :
    ∃ C, matAdd A B = .ok C ∧ C.rows = A.rows ∧ C.cols = A.cols ∧ C.WF ∧
      ∀ i j, i < A.rows → j < A.cols → C.at d i j = A.at d i j + B.at d i j := by
  have hB' : B.data.size = A.rows * A.cols := by rw [hB, hr, hc]
  have hlines : ∀ p, p < A.rows * A.cols →
      zipRd (· + ·) A.data B.data p = .ok (A.data.getD p d + B.data.getD p d) := by
    intro p hp
    have h1 : p < A.data.size := by rw [hA]; exact hp
    have h2 : p < B.data.size := by rw [hB']; exact hp
    simp [zipRd, rd_ok h1, rd_ok h2, Array.getD, h1, h2]
  obtain ⟨a, ha, hs, he⟩ := tabulate_spec (A.rows * A.cols) _ _ hlines
  refine ⟨⟨A.rows, A.cols, a⟩, ?_, rfl, rfl, hs, ?_⟩
  · have hA' : A.data.size = A.rows * A.cols := hA
    simp [matAdd, baseAdd, ← hr, ← hc, hB', ha]
    simp [hA']
  · intro i j hi hj
    rw [at_of_tab (C := ⟨A.rows, A.cols, a⟩) d he hi hj]
    simp [Mat.at, hc]

theorem matSub_spec [Sub K] (A B : Mat K) (hA : A.WF) (hB : B.WF)
    (hr : A.rows = B.rows) (hc : A.cols = B.cols) (d : K) :
    ∃ C, matSub A B = .ok C ∧ C.rows = A.rows ∧ C.cols = A.cols ∧ C.WF ∧
      ∀ i j, i < A.rows → j < A.cols → C.at d i j = A.at d i j - B.at d i j := by
  have hB' : B.data.size = A.rows * A.cols := by rw [hB, hr, hc]
  have hlines : ∀ p, p < A.rows * A.cols →
      zipRd (· - ·) A.data B.data p = .ok (A.data.getD p d - B.data.getD p d) := by
    intro p hp
    have h1 : p < A.data.size := by rw [hA]; exact hp
    have h2 : p < B.data.size := by rw [hB']; exact hp
    simp [zipRd, rd_ok h1, rd_ok h2, Array.getD, h1, h2]
  obtain ⟨a, ha, hs, he⟩ := tabulate_spec (A.rows * A.cols) _ _ hlines
  refine ⟨⟨A.rows, A.cols, a⟩, ?_, rfl, rfl, hs, ?_⟩
  · have hA' : A.data.size = A.rows * A.cols := hA
    simp [matSub, baseSub, ← hr, ← hc, hB', ha]
    simp [hA']
  · intro i j hi hj
    rw [at_of_tab (C := ⟨A.rows, A.cols, a⟩) d he hi hj]
    simp [Mat.at, hc]

/-- **transpose** `Mat::transpose()` = `Mat(trans(*this))` -/
theorem matTranspose_spec (A : Mat K) (hA : A.WF) (d : K) :
    ∃ C, matTranspose A = .ok C ∧ C.rows = A.cols ∧ C.cols = A.rows ∧ C.WF ∧
      ∀ i j, i < A.cols → j < A.rows → C.at d i j = A.at d j i := by
  have hlines : ∀ p, p < A.cols * A.rows →
      rd A.data (tmatIdx A.cols (p / A.rows + 1) (p % A.rows + 1)) = .ok (A.at d (p % A.rows) (p / A.rows)) := by
    intro p hp
    have hpos : 0 < A.rows := by
      rcases Nat.eq_zero_or_pos A.rows with h | h
      · rw [h] at hp; simp at hp
      · exact h
    have hi : p / A.rows < A.cols := by rw [Nat.div_lt_iff_lt_mul hpos]; exact hp
    have hj : p % A.rows < A.rows := Nat.mod_lt _ hpos
    simp only [tmatIdx, Nat.add_sub_cancel]
    exact Mat.rd_at hA d hj hi
  obtain ⟨a, ha, hs, he⟩ := tabulate_spec (A.cols * A.rows) _ _ hlines
  refine ⟨⟨A.cols, A.rows, a⟩, ?_, rfl, rfl, hs, ?_⟩
  · simp [matTranspose, matOfTrans, trans, ha]
  · intro i j hi hj
    rw [at_of_tab (C := ⟨A.cols, A.rows, a⟩) d he hi hj]
    obtain ⟨e1, e2⟩ := div_mod_idx (i := i) hj
    simp only [e1, e2]

theorem matTranspose_toMatrix (A : Mat K) (hA : A.WF) (d : K) :
    ∃ C, matTranspose A = .ok C ∧
      C.toMatrix d A.cols A.rows = (A.toMatrix d A.rows A.cols).transpose := by
  obtain ⟨C, h1, _, _, _, h5⟩ := matTranspose_spec A hA d
  refine ⟨C, h1, ?_⟩
  funext i j
  simp only [Mat.toMatrix, Matrix.transpose_apply]
  exact h5 i.val j.val i.isLt j.isLt

end Gama.MatVec
