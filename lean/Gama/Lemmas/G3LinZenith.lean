/-
  C19 — the zenith-angle coefficients of the generated g3 linearisation are partial derivatives
  (station part, in the station's own north-east-up frame).  Proved for the *repaired* formula
  `pd(-l1*l3*q, -l2*l3*q, r/s)` (notes/proposed/C19-zenith-horizontal-coef.diff); the formula of the
  unrepaired code (`-l1*q, -l2*q`) is not the derivative (see `zenith_old_formula_wrong`).
-/
import Gama.Lemmas.G3LinReal
import Mathlib.Analysis.SpecialFunctions.Sqrt
import Mathlib.Tactic.Linarith
namespace Gama
namespace G3Lin
open Neu G3Book Gama.Gen.G3Lin

theorem hasDerivAt_line (x0 a : ℝ) : HasDerivAt (fun t : ℝ => x0 + a * t) a 0 := by
  simpa using ((hasDerivAt_id (0:ℝ)).const_mul a).const_add x0

theorem hasDerivAt_norm3 (x0 y0 z0 a b c : ℝ) (h : x0 * x0 + y0 * y0 + z0 * z0 ≠ 0) :
    HasDerivAt (fun t : ℝ => Real.sqrt ((x0 + a * t) * (x0 + a * t) + (y0 + b * t) * (y0 + b * t) +
        (z0 + c * t) * (z0 + c * t)))
      ((x0 * a + y0 * b + z0 * c) / Real.sqrt (x0 * x0 + y0 * y0 + z0 * z0)) 0 := by
  have hx := hasDerivAt_line x0 a
  have hy := hasDerivAt_line y0 b
  have hz := hasDerivAt_line z0 c
  have hq : HasDerivAt (fun t : ℝ => (x0 + a * t) * (x0 + a * t) + (y0 + b * t) * (y0 + b * t) +
      (z0 + c * t) * (z0 + c * t)) (2 * (x0 * a + y0 * b + z0 * c)) 0 :=
    (show HasDerivAt (fun t : ℝ => (x0 + a * t) * (x0 + a * t) + (y0 + b * t) * (y0 + b * t) +
        (z0 + c * t) * (z0 + c * t)) _ 0 from
      ((hx.mul hx).add (hy.mul hy)).add (hz.mul hz)).congr_deriv (by simp; ring)
  have hs := hq.sqrt (by simpa using h)
  refine hs.congr_deriv ?_
  simp only [mul_zero, add_zero]
  rw [mul_div_mul_left _ _ two_ne_zero]

/-- zenith angle of the vector `(x, y, z)(t) = (x0, y0, z0) + t (a, b, c)` against the third axis -/
noncomputable def zen (x y z : ℝ) : ℝ := Real.arccos (z / Real.sqrt (x * x + y * y + z * z))

theorem hasDerivAt_zen (x0 y0 z0 a b c : ℝ) (h : x0 * x0 + y0 * y0 ≠ 0) :
    HasDerivAt (fun t : ℝ => zen (x0 + a * t) (y0 + b * t) (z0 + c * t))
      (-c / Real.sqrt (x0 * x0 + y0 * y0) +
        z0 * (x0 * a + y0 * b + z0 * c) / (Real.sqrt (x0 * x0 + y0 * y0) * (x0 * x0 + y0 * y0 + z0 * z0))) 0 := by
  set hd := Real.sqrt (x0 * x0 + y0 * y0) with hhd
  set sd := Real.sqrt (x0 * x0 + y0 * y0 + z0 * z0) with hsd
  have hq2 : 0 < x0 * x0 + y0 * y0 := lt_of_le_of_ne (add_nonneg (mul_self_nonneg _) (mul_self_nonneg _)) (Ne.symm h)
  have hq3 : 0 < x0 * x0 + y0 * y0 + z0 * z0 := by nlinarith [mul_self_nonneg z0]
  have hdp : 0 < hd := Real.sqrt_pos.mpr hq2
  have hsp : 0 < sd := Real.sqrt_pos.mpr hq3
  have hd2 : hd * hd = x0 * x0 + y0 * y0 := Real.mul_self_sqrt hq2.le
  have sd2 : sd * sd = x0 * x0 + y0 * y0 + z0 * z0 := Real.mul_self_sqrt hq3.le
  have hN := hasDerivAt_norm3 x0 y0 z0 a b c (ne_of_gt hq3)
  have hZ := hasDerivAt_line z0 c
  have hu := hZ.div hN (by simpa using ne_of_gt hsp)
  have hlt : z0 * z0 < sd * sd := by rw [sd2]; linarith
  have habs : |z0| < sd := abs_lt_of_sq_lt_sq' (by simpa [sq] using hlt) hsp.le |> fun ⟨p, q⟩ => abs_lt.mpr ⟨p, q⟩
  have hu0 : (z0 + c * 0) / Real.sqrt ((x0 + a * 0) * (x0 + a * 0) + (y0 + b * 0) * (y0 + b * 0) +
      (z0 + c * 0) * (z0 + c * 0)) = z0 / sd := by simp [hsd]
  have h1 : z0 / sd ≠ -1 := by
    intro e; rw [div_eq_iff (ne_of_gt hsp)] at e; have := abs_lt.mp habs; linarith
  have h2 : z0 / sd ≠ 1 := by
    intro e; rw [div_eq_iff (ne_of_gt hsp)] at e; have := abs_lt.mp habs; linarith
  have hac := Real.hasDerivAt_arccos (x := z0 / sd) h1 h2
  have hcomp := (hu0 ▸ hac).comp (0:ℝ) hu
  have hsqrt : Real.sqrt (1 - (z0 / sd) ^ 2) = hd / sd := by
    have : 1 - (z0 / sd) ^ 2 = (hd / sd) ^ 2 := by
      field_simp
      nlinarith
    rw [this, Real.sqrt_sq (div_nonneg hdp.le hsp.le)]
  have hfun : (fun t : ℝ => zen (x0 + a * t) (y0 + b * t) (z0 + c * t)) =
      (Real.arccos ∘ fun t => (z0 + c * t) / Real.sqrt ((x0 + a * t) * (x0 + a * t) +
        (y0 + b * t) * (y0 + b * t) + (z0 + c * t) * (z0 + c * t))) := by
    funext t; simp [zen, Function.comp]
  rw [hfun]
  refine hcomp.congr_deriv ?_
  simp only [mul_zero, add_zero]
  rw [← hsd, hsqrt]
  have hsdn : sd ≠ 0 := ne_of_gt hsp
  have hdn : hd ≠ 0 := ne_of_gt hdp
  rw [← sd2]
  field_simp
  nlinarith [sd2, hd2]

/-- the line of sight in the station's frame, as `Model::linearization(ZenithAngle*)` computes it -/
noncomputable def zLocal (P : Pts ℝ) (o : GObs ℝ) : E3 ℝ := sightLocal P o

/-- the station's coefficients of the generated zenith row: `sc · (-l1 l3 q, -l2 l3 q, r/s)` -/
theorem zenith_station_coeffs (P : Pts ℝ) (o : GObs ℝ) (tol : ℝ) :
    ∃ cN cE cU tN tE tU,
      (@zenith ℝ realTrig P o tol).rows =
        [[⟨[(.frm, .freeH)], [⟨.frm, .N, cN⟩, ⟨.frm, .E, cE⟩]⟩, ⟨[(.frm, .freeU)], [⟨.frm, .U, cU⟩]⟩,
          ⟨[(.to, .freeH)], [⟨.to, .N, tN⟩, ⟨.to, .E, tE⟩]⟩, ⟨[(.to, .freeU)], [⟨.to, .U, tU⟩]⟩]] ∧
      let l := zLocal P o
      let r := Real.sqrt (l.e1 * l.e1 + l.e2 * l.e2)
      let s := l.e1 * l.e1 + l.e2 * l.e2 + l.e3 * l.e3
      cN = -l.e1 * l.e3 * (1 / (r * s)) * (@angScale ℝ realTrig / @linScale ℝ realScalar) ∧
      cE = -l.e2 * l.e3 * (1 / (r * s)) * (@angScale ℝ realTrig / @linScale ℝ realScalar) ∧
      cU = r / s * (@angScale ℝ realTrig / @linScale ℝ realScalar) :=
  ⟨_, _, _, _, _, _, rfl, rfl, rfl, rfl⟩

theorem zen_idH (k l1 l2 l3 la r s : ℝ) (hr : r ≠ 0) (hs : s ≠ 0) :
    k * (-0 / r + l3 * (la * -1) / (r * s)) = -la * l3 * (1 / (r * s)) * k := by
  field_simp
  ring

theorem zen_idU (k l1 l2 l3 r : ℝ) (hr : r ≠ 0) (hs : l1 * l1 + l2 * l2 + l3 * l3 ≠ 0) (hr2 : r * r = l1 * l1 + l2 * l2) :
    k * (- -1 / r + l3 * (l3 * -1) / (r * (l1 * l1 + l2 * l2 + l3 * l3))) = r / (l1 * l1 + l2 * l2 + l3 * l3) * k := by
  have : - -1 / r + l3 * (l3 * -1) / (r * (l1 * l1 + l2 * l2 + l3 * l3)) = r / (l1 * l1 + l2 * l2 + l3 * l3) := by
    have hS : l1 * l1 + l2 * l2 + l3 * l3 = r * r + l3 * l3 := by rw [hr2]
    rw [hS] at hs ⊢
    have hs' : r ^ 2 + l3 ^ 2 ≠ 0 := by simpa [sq] using hs
    field_simp
    ring
  rw [this]; ring

/-- the scale of an angular row: `Angular().scale() / Linear().scale()` [cc per mm for rad per m] -/
noncomputable def angPerLin : ℝ := @angScale ℝ realTrig / @linScale ℝ realScalar

/-- the station's three zenith coefficients are the partial derivatives of the zenith angle of the
    line of sight `l` (in the station's frame) when the station moves along its own n, e, u axis
    (the line of sight then changes by −1 along that axis) -/
theorem zenith_station_derivs (P : Pts ℝ) (o : GObs ℝ) (tol : ℝ)
    (h : (zLocal P o).e1 * (zLocal P o).e1 + (zLocal P o).e2 * (zLocal P o).e2 ≠ 0) :
    ∃ cN cE cU tN tE tU,
      (@zenith ℝ realTrig P o tol).rows =
        [[⟨[(.frm, .freeH)], [⟨.frm, .N, cN⟩, ⟨.frm, .E, cE⟩]⟩, ⟨[(.frm, .freeU)], [⟨.frm, .U, cU⟩]⟩,
          ⟨[(.to, .freeH)], [⟨.to, .N, tN⟩, ⟨.to, .E, tE⟩]⟩, ⟨[(.to, .freeU)], [⟨.to, .U, tU⟩]⟩]] ∧
      HasDerivAt (fun t => angPerLin * zen ((zLocal P o).e1 - t) (zLocal P o).e2 (zLocal P o).e3) cN 0 ∧
      HasDerivAt (fun t => angPerLin * zen (zLocal P o).e1 ((zLocal P o).e2 - t) (zLocal P o).e3) cE 0 ∧
      HasDerivAt (fun t => angPerLin * zen (zLocal P o).e1 (zLocal P o).e2 ((zLocal P o).e3 - t)) cU 0 := by
  obtain ⟨cN, cE, cU, tN, tE, tU, hrows, hN, hE, hU⟩ := zenith_station_coeffs P o tol
  refine ⟨cN, cE, cU, tN, tE, tU, hrows, ?_, ?_, ?_⟩
  all_goals set l1 := (zLocal P o).e1
  all_goals set l2 := (zLocal P o).e2
  all_goals set l3 := (zLocal P o).e3
  all_goals have hq2 : 0 < l1 * l1 + l2 * l2 := lt_of_le_of_ne (add_nonneg (mul_self_nonneg _) (mul_self_nonneg _)) (Ne.symm h)
  all_goals have hr : 0 < Real.sqrt (l1 * l1 + l2 * l2) := Real.sqrt_pos.mpr hq2
  all_goals have hr2 : Real.sqrt (l1 * l1 + l2 * l2) * Real.sqrt (l1 * l1 + l2 * l2) = l1 * l1 + l2 * l2 := Real.mul_self_sqrt hq2.le
  all_goals have hs : 0 < l1 * l1 + l2 * l2 + l3 * l3 := by nlinarith [mul_self_nonneg l3]
  · have := (hasDerivAt_zen l1 l2 l3 (-1) 0 0 h).const_mul angPerLin
    have hf : (fun t : ℝ => angPerLin * zen (l1 - t) l2 l3) = fun t => angPerLin * zen (l1 + -1 * t) (l2 + 0 * t) (l3 + 0 * t) := by
      funext t; congr 2 <;> ring
    rw [hf]
    refine this.congr_deriv ?_
    rw [hN]
    have e : l1 * -1 + l2 * 0 + l3 * 0 = l1 * -1 := by ring
    rw [e]
    exact zen_idH _ l1 l2 l3 l1 _ _ hr.ne' hs.ne'
  · have := (hasDerivAt_zen l1 l2 l3 0 (-1) 0 h).const_mul angPerLin
    have hf : (fun t : ℝ => angPerLin * zen l1 (l2 - t) l3) = fun t => angPerLin * zen (l1 + 0 * t) (l2 + -1 * t) (l3 + 0 * t) := by
      funext t; congr 2 <;> ring
    rw [hf]
    refine this.congr_deriv ?_
    rw [hE]
    have e : l1 * 0 + l2 * -1 + l3 * 0 = l2 * -1 := by ring
    rw [e]
    exact zen_idH _ l1 l2 l3 l2 _ _ hr.ne' hs.ne'
  · have := (hasDerivAt_zen l1 l2 l3 0 0 (-1) h).const_mul angPerLin
    have hf : (fun t : ℝ => angPerLin * zen l1 l2 (l3 - t)) = fun t => angPerLin * zen (l1 + 0 * t) (l2 + 0 * t) (l3 + -1 * t) := by
      funext t; congr 2 <;> ring
    rw [hf]
    refine this.congr_deriv ?_
    rw [hU]
    have e : l1 * 0 + l2 * 0 + l3 * -1 = l3 * -1 := by ring
    rw [e]
    exact zen_idU _ l1 l2 l3 _ hr.ne' hs.ne' hr2

end G3Lin
end Gama
