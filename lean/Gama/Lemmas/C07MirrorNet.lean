/-
  C07 — the mirrored DESCRIPTION of a network (`PE.Net`) and what `project_equations()` assembles from it (round 9).

  `mirNet` is the network the program holds for the mirrored description of the same survey (axes-xy with the other
  handedness together with the other sense of angles): `y ↦ −y` for every point; horizontal angles (direction, angle,
  azimuth) read in the other sense, `Y`, `Ydiff` negated; every orientation of a stand-point and `xNorthAngle()` in the
  other sense; and in every cluster the covariance between a negated and a not negated observation changes its sign —
  the loop nest of `change_y_signs_for_inconsistent_system_` with the REGENERATED condition (`Gen.YSign.flipCov`, C10's
  translator) over the pattern of negated observations.  For `<coordinates>` / `<vectors>` clusters (`Y`, `Ydiff` the
  only negated classes) this IS what `remove_inconsistency()` does to the input; for a stand-point cluster with a
  full covariance matrix it is the re-expression `cov(−L, d) = −cov(L, d)` of the input.

    * `sigmaOf_mir`, `revisedObs_mir`   what the pass reads of `mirNet net` is `mirLin` / `mirNObs` of what it reads of `net`
    * `mirCluster_cov`                  per cluster `C' = D_s C D_s` (entries), `s = kSgn` of the observation's class
    * `mirCluster_weight`               `C P = 1 → C' (D_s P D_s) = 1`: the weight block of the mirrored cluster is DERIVED
-/
import Gama.Lemmas.C07Mirror
import Gama.Lemmas.CovYSign
import Gama.Gen.YSign
namespace Gama.C07Mir
open Gama Gama.Lin Gama.PE Gama.LS Gama.C06FP Gama.C07PE Gama.Cov.YSign Matrix

def mirOb (o : PE.Ob ℝ) : PE.Ob ℝ := { o with value := mirVal o.kind o.value }

/-- which observations of the cluster are negated in the mirrored description -/
def msOf (c : PE.Cluster ℝ) : List Bool := c.obs.map fun o => kNeg o.kind

def mirCluster (c : PE.Cluster ℝ) : PE.Cluster ℝ :=
  { stand := c.stand.map fun so => (so.1, so.2.map fun o => -o)
    cov := Gen.YSign.flipCov (msOf c) c.cov
    obs := c.obs.map mirOb }

def mirPoint (p : PE.Point ℝ) : PE.Point ℝ := { p with pt := flipPt p.pt }

/-- the mirrored description of the network -/
def mirNet (net : PE.Net ℝ) : PE.Net ℝ :=
  { net with points := net.points.map mirPoint, clusters := net.clusters.map mirCluster, xNorth := -net.xNorth }

theorem ptAt_mir (net : PE.Net ℝ) (i : Nat) : ptAt (mirNet net) i = flipPt (ptAt net i) := by
  unfold ptAt mirNet
  simp only [List.getElem?_map]
  cases net.points[i]? with
  | none => simp [flipPt]
  | some p => rfl

theorem sigmaOf_mir (net : PE.Net ℝ) : sigmaOf (mirNet net) = mirLin (sigmaOf net) := by
  have h1 : (sigmaOf (mirNet net)).pt = (mirLin (sigmaOf net)).pt := funext (ptAt_mir net)
  have h2 : (sigmaOf (mirNet net)).ori = (mirLin (sigmaOf net)).ori := by
    funext k
    simp only [sigmaOf, mirLin, mirNet]
    simp only [List.getElem?_map]
    cases net.clusters[k]? with
    | none => simp
    | some c =>
      simp only [Option.map_some, mirCluster]
      cases c.stand with
      | none => simp
      | some so =>
        obtain ⟨st, o⟩ := so
        cases o <;> simp
  have h3 : (sigmaOf (mirNet net)).xNorth = (mirLin (sigmaOf net)).xNorth := rfl
  cases hs : sigmaOf (mirNet net)
  cases hm : mirLin (sigmaOf net)
  rw [hs] at h1 h2 h3; rw [hm] at h1 h2 h3
  simp only at h1 h2 h3
  rw [h1, h2, h3]

theorem revisedFrom_mir : ∀ (k : Nat) (cs : List (PE.Cluster ℝ)),
    revisedFrom k (cs.map mirCluster) = (revisedFrom k cs).map mirNObs
  | _, [] => rfl
  | k, c :: cs => by
    simp only [List.map_cons, revisedFrom, List.map_append, revisedFrom_mir (k + 1) cs]
    congr 1
    simp only [mirCluster, List.filter_map, List.map_map]
    rfl

theorem revisedObs_mir (net : PE.Net ℝ) : revisedObs (mirNet net) = (revisedObs net).map mirNObs :=
  revisedFrom_mir 0 net.clusters

/-! ### the covariance matrix of a mirrored cluster -/

/-- the sign vector C10's theorems use is the row sign of the observation's class -/
theorem signVec_msOf (c : PE.Cluster ℝ) (N : Nat) (i : Fin N) (hi : i.val < c.obs.length) :
    (signVec (msOf c) N i : ℝ) = kSgn (c.obs[i.val]'hi).kind := by
  unfold signVec sgn mirroredAt msOf
  rw [kSgn_eq]
  simp [List.getD_eq_getElem?_getD, hi]

/-- **`C' = D_s C D_s`** for a cluster of the mirrored description, for every well-formed band matrix whose dimension
    does not exceed the number of observations (the parser guarantees equality) -/
theorem mirCluster_cov (c : PE.Cluster ℝ) (hwf : c.cov.WF) (hlen : c.cov.dim ≤ c.obs.length) :
    (mirCluster c).cov.dim = c.cov.dim ∧ (mirCluster c).cov.WF ∧
    matN c.cov.dim (mirCluster c).cov =
      diagonal (signVec (msOf c) c.cov.dim) * matN c.cov.dim c.cov * diagonal (signVec (msOf c) c.cov.dim) := by
  have hc : ∀ a b : Bool, Gen.YSign.flipCond a b = (a != b) := by decide
  have hl : c.cov.dim ≤ (msOf c).length := by simpa [msOf] using hlen
  obtain ⟨w, d, _, _⟩ := flipCov_DCD Gen.YSign.flipCond hc (msOf c) c.cov hwf hl
  exact ⟨d, w, matN_flipCov Gen.YSign.flipCond hc (msOf c) c.cov hwf hl⟩

/-- **the weight block of the mirrored cluster is derived**: `C P = 1 → C' (D_s P D_s) = 1` -/
theorem mirCluster_weight (c : PE.Cluster ℝ) (hwf : c.cov.WF) (hlen : c.cov.dim ≤ c.obs.length)
    (P : Matrix (Fin c.cov.dim) (Fin c.cov.dim) ℝ) (hP : matN c.cov.dim c.cov * P = 1) :
    matN c.cov.dim (mirCluster c).cov *
      (diagonal (signVec (msOf c) c.cov.dim) * P * diagonal (signVec (msOf c) c.cov.dim)) = 1 := by
  rw [(mirCluster_cov c hwf hlen).2.2]
  exact inv_conj _ (signVec_sq (msOf c) c.cov.dim) _ _ hP

/-- what `project_equations()` hands over carries the clusters of the network it ends with -/
theorem pe_clusters (net : PE.Net ℝ) (np : Ls.Net.NetProblem ℝ) (u : Unknowns ℝ)
    (h : projectEquations net = .ok (np, u)) : np.clusters = npClusters u.net := by
  obtain ⟨net', a, F⟩ := pe_final net np u h
  obtain ⟨b, Fr⟩ := assemble_fresh net' a F.asm
  rw [F.np_eq, F.u_net]
  exact Fr.clusters

/-- the axes with the y axis pointing the other way -/
def flipY : CS → CS
  | .EN => .ES | .ES => .EN | .NW => .NE | .NE => .NW | .SE => .SW | .SW => .SE | .WS => .WN | .WN => .WS


/-! ### renaming the points: lifted from one observation (`runEvs_rename`) to the whole pass -/

/-- the same observation with every unknown's identity relabelled by `f` -/
def renOb {K : Type} (f : Unk → Unk) (ob : Lin.Ob K) : Lin.Ob K := ⟨fun r c => f (ob.name r c), ob.evs⟩

theorem runAll_rename {K : Type} (f : Unk → Unk) (hf : Function.Injective f) : ∀ (L : List (Lin.Ob K)) (s : IdxState),
    runAll (L.map (renOb f)) (s.mapKeys f) = ((runAll L s).1.mapKeys f, (runAll L s).2)
  | [], _ => rfl
  | ob :: t, s => by
    show (let r := runEvs (fun r c => f (ob.name r c)) ob.evs (s.mapKeys f)
          let r2 := runAll (t.map (renOb f)) r.1
          (r2.1, r.2 :: r2.2)) = _
    simp only [runEvs_rename f hf, runAll_rename f hf t]
    rfl

theorem orderList_rename {K : Type} {m : Nat} (f : Unk → Unk) (obs : Fin m → Lin.Ob K) (σ : Equiv.Perm (Fin m)) :
    orderList (fun i => renOb f (obs i)) σ = (orderList obs σ).map (renOb f) := by
  unfold orderList
  rw [List.map_ofFn]
  rfl

theorem finalState_rename {K : Type} {m : Nat} (f : Unk → Unk) (hf : Function.Injective f) (obs : Fin m → Lin.Ob K)
    (σ : Equiv.Perm (Fin m)) :
    finalState (fun i => renOb f (obs i)) σ = (finalState obs σ).mapKeys f ∧
    rowsOf (fun i => renOb f (obs i)) σ = rowsOf obs σ := by
  unfold finalState rowsOf
  rw [orderList_rename, show IdxState.init = IdxState.init.mapKeys f from rfl, runAll_rename f hf]
  exact ⟨rfl, rfl⟩

end Gama.C07Mir
