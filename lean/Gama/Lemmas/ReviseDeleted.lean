/-
  C14 round 8 — the executed model of `project_equations()` on the input from which the excluded items
  were deleted, part 2: the whole call, then the solvers.

  `projectEquations net0 = .ok (np, u)`.  `u.net` is the network as the call leaves it: `active()` flags
  after the last `revision_observations()`, `xy` status `unused` for the points `singular_coords` removed.
  The DELETED INPUT is `{ delObs u.net with idx := idx0 }`:

    * the passive observations are gone, with their rows/columns of the covariance matrices;
    * the points `singular_coords` removed are unused (position kept — what "deleting a point" means in
      a model that names points by position; physically dropping the entry is `Lemmas/ReviseRename`);
    * the index fields are ARBITRARY (`idx0`: a fresh process, or whatever an earlier call left).

  `pe_deleted`: the call on the deleted input succeeds in ONE inner call (nothing more is revised, no
  point is singular), hands the solver a problem with the same `m, n, rows, rhs, min_x` and the same
  cofactor blocks, hence `netSolve alg` gives the same answer for every algorithm; `pocet_neznamych_`
  and the table `unknowns_` are the same.
-/
import Gama.Lemmas.ReviseStable
import Gama.Lemmas.ProjectEquationsFinal
import Gama.Lemmas.ProjectEquationsOri
namespace Gama.RevPE
open Gama Gama.Lin Gama.Ls.Net

variable {K : Type}

theorem AgreeOn.symm' {C : Unk → Prop} {s t : IdxState} (h : AgreeOn C s t) : AgreeOn C t s :=
  ⟨h.1.symm, fun u hu => (h.2 u hu).symm⟩

theorem AgreeOn.trans' {C : Unk → Prop} {s t r : IdxState} (h : AgreeOn C s t) (h' : AgreeOn C t r) : AgreeOn C s r :=
  ⟨h.1.trans h'.1, fun u hu => (h.2 u hu).trans (h'.2 u hu)⟩

/-! ### one inner call does not depend on the index fields it finds -/

theorem linPass_agree [TrigScalar K] (net : PE.Net K) (obs : List (NObs K)) (s t : IdxState)
    (hst : AgreeOn (PE.Cleared net) s t) (r : PassOut K) (h : PE.linPass net obs s = .ok r) :
    ∃ r', PE.linPass net obs t = .ok r' ∧ r'.rows = r.rows ∧ r'.rhs = r.rhs ∧ AgreeOn (PE.Cleared net) r.idx r'.idx := by
  unfold PE.linPass at h ⊢
  simp only [] at h ⊢
  split at h
  · cases h
  · rename_i r0 hp
    split at h
    · rename_i hlen
      injection h with h; subst h
      obtain ⟨b, hb, b1, b2, b3⟩ := PE.passFrom_agree (PE.sigmaOf net) net.fuel (PE.Cleared net) _
        (fun ob _ out ho => PE.lin_events_cleared net ob out ho) _ _ hst _ hp
      refine ⟨b, ?_, b1.symm, b2.symm, b3⟩
      rw [hb]
      simp only [hlen, if_true]
    · cases h

theorem unknownsList_idx [Zero K] (net : PE.Net K) (idx0 s : IdxState) :
    PE.unknownsList ({ net with idx := idx0 } : PE.Net K) s = PE.unknownsList net s := by
  unfold PE.unknownsList
  have := oriLoop_map net ({ net with idx := idx0 } : PE.Net K) rfl s id (fun _ => rfl) net.clusters 0
    (List.replicate s.maxn none)
  rw [List.map_id] at this
  exact congrArg _ this

theorem assemble_idx [TrigScalar K] (net : PE.Net K) (a : PE.Asm K) (h : PE.assemble net = .ok a) (idx0 : IdxState) :
    ∃ a', PE.assemble { net with idx := idx0 } = .ok a' ∧ a'.np = a.np ∧
      AgreeOn (PE.Cleared net) a.idx a'.idx ∧ a'.list = PE.unknownsList net a'.idx := by
  unfold PE.assemble at h
  simp only [] at h
  split at h
  · cases h
  · rename_i r hr
    injection h with h; subst h
    have hag : AgreeOn (PE.Cleared net) (net.idx.resetPass (PE.guardOf net)) (idx0.resetPass (PE.guardOf net)) :=
      AgreeOn.trans' (PE.cleared_agree net net.idx) (AgreeOn.symm' (PE.cleared_agree net idx0))
    obtain ⟨r', h1, h2, h3, h4⟩ := linPass_agree net _ _ _ hag r hr
    have h1' : PE.linPass ({ net with idx := idx0 } : PE.Net K) (PE.revisedObs ({ net with idx := idx0 } : PE.Net K))
        (idx0.resetPass (PE.guardOf ({ net with idx := idx0 } : PE.Net K))) = .ok r' := h1
    refine ⟨_, by unfold PE.assemble; simp only []; rw [h1'], ?_, h4, unknownsList_idx net idx0 _⟩
    simp only [h2, h3, h4.1]
    rfl

/-! ### `singular_coords` and `min_x` read the numbering of the visible unknowns only -/

open MinX in
theorem singularFrom_degen (pts : List PtS) (dg dg' : Nat → Bool) (j : MinX.Unk → Nat)
    (hd : ∀ p, (xyOf pts p).active = true → dg p = dg' p) :
    ∀ (r : List PtS) (p : Nat), TailAt pts r p → singularFrom dg j p r = singularFrom dg' j p r := by
  intro r
  induction r with
  | nil => intro p _; rfl
  | cons q r ih =>
    intro p ht
    have hq := ht.head
    have hsp : singularPoint dg j p q = singularPoint dg' j p q := by
      unfold singularPoint
      by_cases h1 : (q.xy = .fixed || !q.xy.active) = true
      · simp only [h1, if_true]
      · have hact : q.xy.active = true := by
          cases hh : q.xy <;> simp_all [NetDecision.CStat.active]
        rw [hd p (by rw [getElem?_xyOf pts p q hq]; exact hact)]
    simp only [singularFrom, hsp, ih (p + 1) ht.tail]

theorem singularCoords_agree [Scalar K] (A : Ls.DMat K) (pts : List MinX.PtS) (i j : MinX.Unk → Nat)
    (ha : MinX.Agree pts i j) :
    SingularCoords.singularCoords A i pts = SingularCoords.singularCoords A j pts := by
  unfold SingularCoords.singularCoords MinX.singularCoords
  rw [MinX.singularFrom_agree pts _ i j ha pts 0 (MinX.TailAt.self pts)]
  apply singularFrom_degen pts _ _ j _ pts 0 (MinX.TailAt.self pts)
  intro p hp
  have hx : MinX.vis pts (.x p) = true := by simp [MinX.vis, hp]
  have hy : MinX.vis pts (.y p) = true := by simp [MinX.vis, hp]
  rw [ha _ hx, ha _ hy]

theorem active_cstat' (s : Lin.Status) : (PE.cstat s).active = s.isActive := by cases s <;> rfl

/-- a visible unknown (a point with an active coordinate group, or an orientation) is cleared by the prologue -/
theorem vis_cleared [Zero K] (net : PE.Net K) (u : MinX.Unk) (h : MinX.vis (PE.ptsOf net) u = true) :
    PE.Cleared net (PE.toLin u) := by
  have key : ∀ p, ((MinX.xyOf (PE.ptsOf net) p).active || (MinX.zOf (PE.ptsOf net) p).active) = true →
      Gen.Lin.resetGuard (PE.ptAt net p) = true := by
    intro p hp
    simp only [PE.xyOf_ptsOf, PE.zOf_ptsOf, active_cstat', Bool.or_eq_true] at hp
    rcases hp with hp | hp
    · exact (PE.resetGuard_of_active _).1 hp
    · exact (PE.resetGuard_of_active _).2 hp
  cases u with
  | ori k => exact Or.inl rfl
  | x p => exact Or.inr (key p h)
  | y p => exact Or.inr (key p h)
  | z p => exact Or.inr (key p h)

theorem idxFn_agree [Zero K] (net : PE.Net K) (s t : IdxState) (h : AgreeOn (PE.Cleared net) s t) :
    MinX.Agree (PE.ptsOf net) (PE.idxFn s) (PE.idxFn t) :=
  fun u hu => h.2 _ (vis_cleared net u hu)

/-! ### the table `unknowns_` reads the numbering of the cleared unknowns only -/

theorem oriLoop_agree [Zero K] (net : PE.Net K) (s t : IdxState) (h : AgreeOn (PE.Cleared net) s t) :
    ∀ (cs : List (PE.Cluster K)) (k : Nat) (l : List (Option PE.UEntry)),
    PE.oriLoop net s k cs l = PE.oriLoop net t k cs l
  | [], _, _ => rfl
  | c :: cs, k, l => by
    simp only [PE.oriLoop, h.2 ⟨k, .ori⟩ (Or.inl rfl)]
    exact oriLoop_agree net s t h cs (k + 1) _

theorem ptLoop_agree [Zero K] (net : PE.Net K) (s t : IdxState) (h : AgreeOn (PE.Cleared net) s t) :
    ∀ (ps : List (PE.Point K)) (i : Nat) (l : List (Option PE.UEntry)),
    (∀ k p, ps[k]? = some p → net.points[i + k]? = some p) →
    PE.ptLoop s i ps l = PE.ptLoop t i ps l
  | [], _, _, _ => rfl
  | p :: ps, i, l, ht => by
    have hp : PE.ptAt net i = p.pt := PE.ptAt_of_get net i p (by simpa using ht 0 p (by simp))
    have hc : ∀ c, (p.pt.active_xy = true ∨ p.pt.active_z = true) → s.get ⟨i, c⟩ = t.get ⟨i, c⟩ := by
      intro c hact
      apply h.2
      right
      show Gen.Lin.resetGuard (PE.ptAt net i) = true
      rw [hp]
      rcases hact with hact | hact
      · exact (PE.resetGuard_of_active _).1 hact
      · exact (PE.resetGuard_of_active _).2 hact
    have ih := fun l' => ptLoop_agree net s t h ps (i + 1) l' (by
      intro k q hk
      have := ht (k + 1) q (by simpa using hk)
      rw [show i + 1 + k = i + (k + 1) by omega]; exact this)
    simp only [PE.ptLoop]
    by_cases hxy : p.pt.active_xy = true
    · by_cases hz : p.pt.active_z = true
      · simp only [hc _ (Or.inl hxy), ih]
      · simp only [hc _ (Or.inl hxy), ih]
    · by_cases hz : p.pt.active_z = true
      · simp only [hc _ (Or.inr hz), ih]
      · simp only [hxy, hz, Bool.false_eq_true, false_and, if_false, ih]

theorem unknownsList_agree [Zero K] (net : PE.Net K) (s t : IdxState) (h : AgreeOn (PE.Cleared net) s t) :
    PE.unknownsList net s = PE.unknownsList net t := by
  unfold PE.unknownsList
  rw [h.1, oriLoop_agree net s t h]
  exact ptLoop_agree net s t h net.points 0 _ (by intro k p hk; simpa using hk)

/-! ### the whole call on the deleted input -/

theorem cofs_asm_delObs [TrigScalar K] (net : PE.Net K) (a : PE.Asm K) (h : PE.assemble net = .ok a) :
    cofs { a.np with clusters := PE.npClusters (delObs net) } = cofs a.np := by
  obtain ⟨b, F⟩ := PE.assemble_fresh net a h
  unfold cofs activeClusters
  simp only [F.clusters, F.m0]
  exact cofs_delObs net (activeCovIdem_all net) _

/-- what the call on the deleted input returns, compared with the call on the full input -/
structure SameCall [Scalar K] (np np' : NetProblem K) (u u' : PE.Unknowns K) : Prop where
  m : np'.m = np.m
  n : np'.n = np.n
  rows : np'.rows = np.rows
  rhs : np'.rhs = np.rhs
  minx : np'.minx = np.minx
  cofs : cofs np' = cofs np
  u_n : u'.n = u.n
  u_list : u'.list = u.list
  /-- nothing more is removed -/
  removed : u'.removed = []
  points : u'.net.points = u.net.points
  /-- … and nothing more is revised: the call leaves the observations of the deleted input as they are -/
  clusters : u'.net.clusters = (delObs u.net).clusters

theorem SameCall.solve [Scalar K] {np np' : NetProblem K} {u u' : PE.Unknowns K} (S : SameCall np np' u u')
    (alg : Ls.Alg) : netSolve alg np' = netSolve alg np :=
  netSolve_congr alg np' np S.m S.n S.rows S.rhs S.cofs S.minx

/-- **`project_equations()` on the input with the excluded items deleted** -/
theorem pe_deleted [TrigScalar K] (net0 : PE.Net K) (np : NetProblem K) (u : PE.Unknowns K)
    (h : PE.projectEquations net0 = .ok (np, u)) (idx0 : IdxState) :
    ∃ np' u', PE.projectEquations { delObs u.net with idx := idx0 } = .ok (np', u') ∧ SameCall np np' u u' := by
  obtain ⟨net, a, F⟩ := PE.pe_final net0 np u h
  obtain ⟨n1, hn1⟩ := F.revised
  obtain ⟨hh, hprep, hsc⟩ := F.nosing
  have hD : ({ delObs u.net with idx := idx0 } : PE.Net K) = { delObs net with idx := idx0 } := by
    rw [F.u_net]; rfl
  rw [hD]
  -- the revision changes nothing
  have hrev : PE.revise ({ delObs net with idx := idx0 } : PE.Net K) = { delObs net with idx := idx0 } := by
    have hc := congrArg PE.Net.clusters (revise_delObs_revise n1)
    rw [← hn1] at hc
    unfold PE.revise at hc ⊢
    simp only at hc ⊢
    congr 1
  -- the inner call
  have h1 := assemble_delObs net a F.asm
  obtain ⟨a2, h2, hnp2, hag, hl2⟩ := assemble_idx (delObs net) _ h1 idx0
  have hcof := cofs_asm_delObs net a F.asm
  have hprep2 : prepare a2.np = .ok hh := by
    rw [hnp2, prepare_congr ({ a.np with clusters := PE.npClusters (delObs net) }) a.np rfl rfl rfl rfl hcof]
    exact hprep
  have hagree : MinX.Agree (PE.ptsOf net) (PE.idxFn a.idx) (PE.idxFn a2.idx) := idxFn_agree net _ _ hag
  have hsc2 : (SingularCoords.singularCoords hh.Ad (PE.idxFn a2.idx)
      (PE.ptsOf ({ delObs net with idx := idx0 } : PE.Net K))).1 = false := by
    show (SingularCoords.singularCoords hh.Ad (PE.idxFn a2.idx) (PE.ptsOf net)).1 = false
    rw [← singularCoords_agree hh.Ad _ _ _ hagree]; exact hsc
  refine ⟨{ a2.np with minx := (MinX.feed (PE.idxFn a2.idx) (PE.ptsOf net)).2 },
    ⟨a2.np.n, a2.list, { delObs net with idx := a2.idx }, []⟩, ?_, ?_⟩
  · unfold PE.projectEquations
    simp only [PE.peLoop, hrev, h2, hprep2, hsc2]
    rfl
  · have hfeed := MinX.feed_agree (PE.ptsOf net) _ _ hagree
    refine ⟨?_, ?_, ?_, ?_, ?_, ?_, ?_, ?_, rfl, ?_, ?_⟩
    · rw [F.np_eq, hnp2]
    · rw [F.np_eq, hnp2]
    · rw [F.np_eq, hnp2]
    · rw [F.np_eq, hnp2]
    · rw [F.np_eq]; simp only [hfeed]
    · rw [F.np_eq]
      have e1 : cofs ({ a2.np with minx := (MinX.feed (PE.idxFn a2.idx) (PE.ptsOf net)).2 } : NetProblem K) = cofs a2.np := rfl
      have e2 : cofs ({ a.np with minx := (MinX.feed (PE.idxFn a.idx) (PE.ptsOf net)).2 } : NetProblem K) = cofs a.np := rfl
      rw [e1, e2, hnp2]; exact hcof
    · rw [F.u_n, hnp2]
    · rw [F.u_list, hl2]
      have e : a.list = PE.unknownsList net a.idx := by
        obtain ⟨b, Fr⟩ := PE.assemble_fresh net a F.asm
        exact Fr.list
      rw [e]
      exact (unknownsList_agree net _ _ hag).symm ▸ (unknownsList_delObs net a2.idx)
    · rw [F.u_net] <;> rfl
    · rw [F.u_net] <;> rfl

end Gama.RevPE
