/-
  C06 — the stopping test at the true coordinates, on the SAME records as the pass of `project_equations`.

  `Gama/Gen/TestLinVisitor.lean` (regenerated from test_linearization_visitor.cpp / .h on every run) holds the 13
  `TestLinearizationVisitor::visit` functions over `Lin.Obs`; `Gama/Model/TestLinearization.lean` the loop of
  `TestLinearization()` over the observations of the pass.  Here, over ℝ:

    * `vwrap_zero`      : the visitor's two loops reduce a misclosure of k full circles to 0 — every k : ℤ
                          (C06GN's `polDirection_fixed`, `polAngle_fixed` covered k ∈ {0, 1} only);
    * `visit_zero`      : `ExactView k o` (the hypothesis of `C06FP.pass_rhs_zero`) and the zero solution ⇒ pol = 0,
                          all 13 classes;
    * `visit_terminates`: over ℝ every visit returns from some fuel on (any record, any solution);
    * `testLinearization_true_coordinates` : exact observations, x = 0, v = 0 ⇒ the stopping test never asks for
                          another iteration and, from some fuel on, answers "stop".
  This discharges the hypothesis `hpols` of `Props/C06Assembled.lean`.
-/
import Gama.Lemmas.C06FixedPoint
import Gama.Model.TestLinearization
namespace Gama.C06PL
open Gama Gama.Lin Gama.C06L Gama.C06FP Gama.TL Real

/-- the zero solution: `x = 0`, `v = 0` -/
def Z : Gen.TestLin.Sol ℝ := ⟨fun _ _ => 0, 0⟩

theorem bd_eq (o : Obs ℝ) :
    Gen.Lin.bearingDistance o.pfrom.y o.pfrom.x o.pto.y o.pto.x =
      if hdist o < CUT then (0, 0) else (brg (dX o) (dY o), hdist o) := bearingDistancePt_eq o

theorem bd_eq2 (o : Obs ℝ) :
    Gen.Lin.bearingDistance o.pfrom.y o.pfrom.x o.pfs.y o.pfs.x =
      if hdist2 o < CUT then (0, 0) else (brg (dX2 o) (dY2 o), hdist2 o) := bearingDistancePt_eq2 o

/-- the visitor's two loops (`while (mer > M_PI) mer -= 2*M_PI; while (mer < -M_PI) mer += 2*M_PI;`) reduce a
    misclosure of `k` full circles to 0 — every `k : ℤ`, whatever the fuel that sufficed -/
theorem vwrap_zero (c1 c2 : ℝ → Bool) (hc1 : ∀ v, c1 v = true ↔ π < v) (hc2 : ∀ v, c2 v = true ↔ v < -π)
    (fuel : Nat) (a : ℝ) (k : ℤ) (ha : a = 2 * π * k) (r1 r : ℝ)
    (h1 : whileLoop c1 (fun v => v - 2 * π) fuel a = some r1)
    (h2 : whileLoop c2 (fun v => v + 2 * π) fuel r1 = some r) : r = 0 := by
  have hp := Real.pi_pos
  obtain ⟨k1, e1, u1, _⟩ := whileLoop_sub_spec c1 π (2 * π) hc1 fuel a r1 h1
  obtain ⟨k2, e2, l2, o2⟩ := whileLoop_add_spec c2 (-π) (2 * π) hc2 fuel r1 r h2
  have hr : r = ((k - k1 + k2 : ℤ) : ℝ) * (2 * π) := by rw [e2, e1, ha]; push_cast; ring
  set j : ℤ := k - k1 + k2 with hj
  have hu : r ≤ π := by
    rcases o2 with h0 | h0
    · subst h0; simp at e2; rw [e2]; exact u1
    · linarith
  have h1' : (-1 : ℝ) < (j : ℝ) := by rw [hr] at l2; nlinarith
  have h2' : (j : ℝ) < 1 := by rw [hr] at hu; nlinarith
  have h1'' : (-1 : ℤ) < j := by exact_mod_cast h1'
  have h2'' : j < 1 := by exact_mod_cast h2'
  have : j = 0 := by omega
  rw [hr, this]; simp

/-- over ℝ both loops end for every start value, from some fuel on -/
theorem vwrap_terminates (c1 c2 : ℝ → Bool) (hc1 : ∀ v, c1 v = true ↔ π < v) (hc2 : ∀ v, c2 v = true ↔ v < -π)
    (a : ℝ) : ∃ f0 : Nat, ∀ fuel, f0 ≤ fuel → ∃ r1 r, whileLoop c1 (fun v => v - 2 * π) fuel a = some r1 ∧
      whileLoop c2 (fun v => v + 2 * π) fuel r1 = some r := by
  have hF : (0:ℝ) < 2 * π := by have := Real.pi_pos; linarith
  obtain ⟨n1, hn1⟩ := exists_nat_ge ((a - π) / (2 * π))
  obtain ⟨r1, hr1⟩ := whileLoop_sub_terminates c1 π (2 * π) hc1 n1 a (by
    rw [div_le_iff₀ hF] at hn1; linarith)
  obtain ⟨n2, hn2⟩ := exists_nat_ge ((-π - r1) / (2 * π))
  obtain ⟨r, hr⟩ := whileLoop_add_terminates c2 (-π) (2 * π) hc2 n2 r1 (by
    rw [div_le_iff₀ hF] at hn2; linarith)
  refine ⟨max n1 n2, fun fuel hf => ⟨r1, r, ?_, ?_⟩⟩
  · exact whileLoop_mono_le _ _ (le_trans (le_max_left _ _) hf) _ _ hr1
  · exact whileLoop_mono_le _ _ (le_trans (le_max_right _ _) hf) _ _ hr

theorem distance_Z (fuel : Nat) (o : Obs ℝ) (h : ExactView .distance o) :
    Gen.TestLin.distance fuel o Z = some (0, 0) := by
  obtain ⟨hc, hv⟩ := h
  simp only [Gen.TestLin.distance, Z, ofNat_real, zero_div, add_zero, ite_self, bd_eq, hc, if_false, hv]
  simp

theorem s_distance_Z (fuel : Nat) (o : Obs ℝ) (h : ExactView .s_distance o) :
    Gen.TestLin.s_distance fuel o Z = some (0, 0) := by
  have hv : o.value = sdist o := h
  have e : Real.sqrt ((o.pfrom.x - o.pto.x) * (o.pfrom.x - o.pto.x) + (o.pfrom.y - o.pto.y) * (o.pfrom.y - o.pto.y)
      + (o.pfrom.z - o.pto.z) * (o.pfrom.z - o.pto.z)) = sdist o := by
    unfold sdist dX dY dZ; congr 1; ring
  simp only [Gen.TestLin.s_distance, Z, ofNat_real, sqrt_real, zero_div, add_zero, ite_self, hv]
  simp
  rw [sub_eq_zero, ← e]; congr 1; ring




theorem hp1 : ∀ v : ℝ, decide (π < v) = true ↔ π < v := by intro v; simp
theorem hp2 : ∀ v : ℝ, decide (v < -π) = true ↔ v < -π := by intro v; simp

theorem direction_zero (fuel : Nat) (o : Obs ℝ) (h : ExactView .direction o) (mp : ℝ × ℝ)
    (hm : Gen.TestLin.direction fuel o Z = some mp) : mp.2 = 0 := by
  obtain ⟨hc, k, hk⟩ := h
  simp only [Gen.TestLin.direction, Z, ofNat_real, ofSci_real, pi_real, zero_div, add_zero, ite_self,
    zero_mul, Nat.cast_ofNat, bd_eq, hc, if_false] at hm
  split at hm
  · exact absurd hm (by simp)
  · rename_i r1 h1
    split at hm
    · exact absurd hm (by simp)
    · rename_i r h2
      have hr : r = 0 := vwrap_zero _ _ hp1 hp2 fuel _ k
        (show o.value + o.orientation - brg (dX o) (dY o) = 2 * π * k by rw [hk]; ring) r1 r h1 h2
      rw [← Option.some.inj hm, hr]
      show (0 : ℝ) * hdist o * 1000 = 0
      ring

theorem direction_terminates (o : Obs ℝ) (s : Gen.TestLin.Sol ℝ) :
    ∃ f0 : Nat, ∀ fuel, f0 ≤ fuel → ∃ mp, Gen.TestLin.direction fuel o s = some mp := by
  simp only [Gen.TestLin.direction, ofNat_real, pi_real, Nat.cast_ofNat]
  generalize hA : (_ - (Gen.Lin.bearingDistance _ _ _ _).1 : ℝ) = A
  obtain ⟨f0, hf⟩ := vwrap_terminates _ _ hp1 hp2 A
  refine ⟨f0, fun fuel hfu => ?_⟩
  obtain ⟨r1, r, h1, h2⟩ := hf fuel hfu
  split
  · rename_i hn; exact absurd (hn.symm.trans h1) (by simp)
  · rename_i r1' h1'
    have e1 : r1' = r1 := Option.some.inj (h1'.symm.trans h1)
    subst e1
    split
    · rename_i hn; exact absurd (hn.symm.trans h2) (by simp)
    · exact ⟨_, rfl⟩

theorem angle_zero (fuel : Nat) (o : Obs ℝ) (h : ExactView .angle o) (mp : ℝ × ℝ)
    (hm : Gen.TestLin.angle fuel o Z = some mp) : mp.2 = 0 := by
  obtain ⟨hc, hc', hv⟩ := h
  simp only [Gen.TestLin.angle, Z, ofNat_real, ofSci_real, pi_real, zero_div, add_zero, ite_self,
    zero_mul, Nat.cast_ofNat, bd_eq, bd_eq2, hc, hc', if_false] at hm
  split at hm
  · exact absurd hm (by simp)
  · rename_i r1 h1
    split at hm
    · exact absurd hm (by simp)
    · rename_i r h2
      have hk : ∃ k : ℤ, o.value - brg (dX2 o) (dY2 o) + brg (dX o) (dY o) = 2 * π * k := by
        rw [hv]; unfold angleBsFs
        by_cases hd : brg (dX2 o) (dY2 o) - brg (dX o) (dY o) < 0
        · exact ⟨1, by simp only [hd, if_true]; push_cast; ring⟩
        · exact ⟨0, by simp only [hd, if_false]; push_cast; ring⟩
      obtain ⟨k, hk⟩ := hk
      have hr : r = 0 := vwrap_zero _ _ hp1 hp2 fuel _ k hk r1 r h1 h2
      rw [← Option.some.inj hm, hr]
      show (0 : ℝ) * _ * 1000 = 0
      ring

theorem angle_terminates (o : Obs ℝ) (s : Gen.TestLin.Sol ℝ) :
    ∃ f0 : Nat, ∀ fuel, f0 ≤ fuel → ∃ mp, Gen.TestLin.angle fuel o s = some mp := by
  simp only [Gen.TestLin.angle, ofNat_real, pi_real, Nat.cast_ofNat]
  generalize hA : (_ - (Gen.Lin.bearingDistance _ _ _ _).1 + (Gen.Lin.bearingDistance _ _ _ _).1 : ℝ) = A
  obtain ⟨f0, hf⟩ := vwrap_terminates _ _ hp1 hp2 A
  refine ⟨f0, fun fuel hfu => ?_⟩
  obtain ⟨r1, r, h1, h2⟩ := hf fuel hfu
  split
  · rename_i hn; exact absurd (hn.symm.trans h1) (by simp)
  · rename_i r1' h1'
    have e1 : r1' = r1 := Option.some.inj (h1'.symm.trans h1)
    subst e1
    split
    · rename_i hn; exact absurd (hn.symm.trans h2) (by simp)
    · exact ⟨_, rfl⟩

theorem z_angle_zero (fuel : Nat) (o : Obs ℝ) (h : ExactView .z_angle o) (mp : ℝ × ℝ)
    (hm : Gen.TestLin.z_angle fuel o Z = some mp) : mp.2 = 0 := by
  have hv : o.value = zenithComputed o := h
  have e : Real.sqrt ((-o.pto.x + o.pfrom.x) * (-o.pto.x + o.pfrom.x) + (-o.pto.y + o.pfrom.y) * (-o.pto.y + o.pfrom.y)
      + (-o.pto.z + o.pfrom.z) * (-o.pto.z + o.pfrom.z)) = sdist o := by
    unfold sdist dX dY dZ; congr 1; ring
  simp only [Gen.TestLin.z_angle, Z, ofNat_real, ofSci_real, sqrt_real, acos_real, pi_real, zero_div, add_zero, ite_self,
    zero_mul, Nat.cast_ofNat, Nat.cast_zero, Nat.cast_one, mul_neg, mul_one, neg_neg, zero_add, neg_add_rev, e, beq_real] at hm
  by_cases hs : sdist o = 0
  · simp only [hs, if_true] at hm
    rw [← Option.some.inj hm]
  · simp only [hs, if_false] at hm
    split at hm
    · exact absurd hm (by simp)
    · rename_i r1 h1
      split at hm
      · exact absurd hm (by simp)
      · rename_i r h2
        have hz : zenithComputed o = if π < o.value then 2 * π - zenith o else zenith o := rfl
        have ez : (-o.pfrom.z + o.pto.z) / sdist o = dZ o / sdist o := by unfold dZ; ring
        have hr : r = 0 := by
          by_cases hv1 : π < o.value
          · simp only [hv1, decide_true, if_true] at h1
            rw [if_pos hv1] at hz
            exact vwrap_zero _ _ hp1 hp2 fuel _ 0
              (show o.value - (2 * π - Real.arccos ((-o.pfrom.z + o.pto.z) / sdist o)) = 2 * π * (0 : ℤ) by
                rw [ez, hv, hz]; unfold zenith; push_cast; ring) r1 r h1 h2
          · simp only [hv1, decide_false, if_false] at h1
            rw [if_neg hv1] at hz
            exact vwrap_zero _ _ hp1 hp2 fuel _ 0
              (show o.value - Real.arccos ((-o.pfrom.z + o.pto.z) / sdist o) = 2 * π * (0 : ℤ) by
                rw [ez, hv, hz]; unfold zenith; push_cast; ring) r1 r h1 h2
        rw [← Option.some.inj hm, hr]
        show (0 : ℝ) * _ * 1000 = 0
        ring

theorem z_angle_terminates (o : Obs ℝ) (s : Gen.TestLin.Sol ℝ) :
    ∃ f0 : Nat, ∀ fuel, f0 ≤ fuel → ∃ mp, Gen.TestLin.z_angle fuel o s = some mp := by
  simp only [Gen.TestLin.z_angle]
  generalize (Scalar.sqrt _ : ℝ) = sl
  cases hb : Scalar.beq sl (Scalar.ofNat 0 : ℝ)
  · simp only [Bool.false_eq_true, if_false, ofNat_real, pi_real, Nat.cast_ofNat]
    generalize (@ite ℝ (_ = true) (instDecidableEqBool _ _) _ _) = za
    generalize hA : (_ - za : ℝ) = A
    obtain ⟨f0, hf⟩ := vwrap_terminates _ _ hp1 hp2 A
    refine ⟨f0, fun fuel hfu => ?_⟩
    obtain ⟨r1, r, h1, h2⟩ := hf fuel hfu
    split
    · rename_i hn; exact absurd (hn.symm.trans h1) (by simp)
    · rename_i r1' h1'
      have e1 : r1' = r1 := Option.some.inj (h1'.symm.trans h1)
      subst e1
      split
      · rename_i hn; exact absurd (hn.symm.trans h2) (by simp)
      · exact ⟨_, rfl⟩
  · simp only [if_true]
    exact ⟨0, fun _ _ => ⟨_, rfl⟩⟩

/-! ### all 13 classes -/

/-- **exact observation, zero solution ⇒ positional misclosure 0** — the hypothesis is the one of
    `C06FP.lin_rhs_zero` (so of `pass_rhs_zero`): for Direction any number `k : ℤ` of full circles -/
theorem visit_zero (k : Kind) (fuel : Nat) (o : Obs ℝ) (h : ExactView k o) (mp : ℝ × ℝ)
    (hm : Kind.visit k fuel o Z = some mp) : mp.2 = 0 := by
  have triv : ∀ {f : Nat → Obs ℝ → Gen.TestLin.Sol ℝ → Option (ℝ × ℝ)}, f fuel o Z = some mp →
      f fuel o Z = some (0, 0) → mp.2 = 0 := by
    intro f h1 h2; rw [h1] at h2; rw [Option.some.inj h2]
  have z0 : (some ((Scalar.ofNat 0 : ℝ), (Scalar.ofNat 0 : ℝ)) : Option (ℝ × ℝ)) = some (0, 0) := by simp
  cases k with
  | distance => exact triv hm (distance_Z fuel o h)
  | direction => exact direction_zero fuel o h mp hm
  | azimuth => exact triv hm z0
  | angle => exact angle_zero fuel o h mp hm
  | s_distance => exact triv hm (s_distance_Z fuel o h)
  | z_angle => exact z_angle_zero fuel o h mp hm
  | h_diff => exact triv hm z0
  | zdiff => exact triv hm z0
  | xdiff => exact triv hm z0
  | ydiff => exact triv hm z0
  | x => exact triv hm z0
  | y => exact triv hm z0
  | z => exact triv hm z0

/-- over ℝ every visit returns, from some fuel on — any record, any solution (at `double` a loop on a huge
    misclosure need not end: `mer - 2π == mer`) -/
theorem visit_terminates (k : Kind) (o : Obs ℝ) (s : Gen.TestLin.Sol ℝ) :
    ∃ f0 : Nat, ∀ fuel, f0 ≤ fuel → ∃ mp, Kind.visit k fuel o s = some mp := by
  cases k with
  | direction => exact direction_terminates o s
  | angle => exact angle_terminates o s
  | z_angle => exact z_angle_terminates o s
  | distance => exact ⟨0, fun _ _ => ⟨_, rfl⟩⟩
  | azimuth => exact ⟨0, fun _ _ => ⟨_, rfl⟩⟩
  | s_distance => exact ⟨0, fun _ _ => ⟨_, rfl⟩⟩
  | h_diff => exact ⟨0, fun _ _ => ⟨_, rfl⟩⟩
  | zdiff => exact ⟨0, fun _ _ => ⟨_, rfl⟩⟩
  | xdiff => exact ⟨0, fun _ _ => ⟨_, rfl⟩⟩
  | ydiff => exact ⟨0, fun _ _ => ⟨_, rfl⟩⟩
  | x => exact ⟨0, fun _ _ => ⟨_, rfl⟩⟩
  | y => exact ⟨0, fun _ _ => ⟨_, rfl⟩⟩
  | z => exact ⟨0, fun _ _ => ⟨_, rfl⟩⟩

/-! ### the loop of `TestLinearization()` -/

/-- the solution vectors are zero ⇒ every visit reads the zero solution -/
theorem solOf_zero (idx : IdxState) (x v : List ℝ) (hx : ∀ i, GN.xAt x i = 0) (hv : ∀ i, GN.xAt v i = 0)
    (i : Nat) (ob : NObs ℝ) : solOf idx x v i ob = Z := by
  unfold solOf Z
  congr 1
  · funext r c; exact hx _
  · exact hv _

/-- every `dif_p(i)` the loop computes is 0 -/
theorem polsFrom_zero (σ : Net ℝ) (fuel : Nat) (idx : IdxState) (x v : List ℝ)
    (hx : ∀ i, GN.xAt x i = 0) (hv : ∀ i, GN.xAt v i = 0) (obs : List (NObs ℝ)) :
    ∀ (i : Nat) (pols : List ℝ), (∀ ob ∈ obs, ExactObs σ ob) → polsFrom σ fuel idx x v i obs = some pols →
      ∀ p ∈ pols, p = 0 := by
  induction obs with
  | nil => intro i pols _ h; simp only [polsFrom] at h; rw [← Option.some.inj h]; simp
  | cons ob t ih =>
    intro i pols hex h
    simp only [polsFrom] at h
    split at h
    · exact absurd h (by simp)
    · rename_i p hp
      split at h
      · exact absurd h (by simp)
      · rename_i r hr
        rw [← Option.some.inj h]
        intro q hq
        rcases List.mem_cons.1 hq with rfl | hq
        · simp only [polOf, solOf_zero idx x v hx hv, Option.map_eq_some_iff] at hp
          obtain ⟨mp, hmp, rfl⟩ := hp
          exact visit_zero ob.kind fuel (σ.view ob) (hex ob List.mem_cons_self) mp hmp
        · exact ih (i + 1) r (fun o ho => hex o (List.mem_cons_of_mem _ ho)) hr q hq

theorem polsFrom_length (σ : Net ℝ) (fuel : Nat) (idx : IdxState) (x v : List ℝ) (obs : List (NObs ℝ)) :
    ∀ (i : Nat) (pols : List ℝ), polsFrom σ fuel idx x v i obs = some pols → pols.length = obs.length := by
  induction obs with
  | nil => intro i pols h; simp only [polsFrom] at h; rw [← Option.some.inj h]; rfl
  | cons ob t ih =>
    intro i pols h
    simp only [polsFrom] at h
    split at h
    · exact absurd h (by simp)
    · split at h
      · exact absurd h (by simp)
      · rename_i r hr
        rw [← Option.some.inj h, List.length_cons, List.length_cons, ih (i + 1) r hr]

/-- over ℝ the loop returns from some fuel on (any solution, any observations) -/
theorem polsFrom_terminates (σ : Net ℝ) (idx : IdxState) (x v : List ℝ) (obs : List (NObs ℝ)) :
    ∀ i : Nat, ∃ f0 : Nat, ∀ fuel, f0 ≤ fuel → ∃ pols, polsFrom σ fuel idx x v i obs = some pols := by
  induction obs with
  | nil => intro i; exact ⟨0, fun _ _ => ⟨[], rfl⟩⟩
  | cons ob t ih =>
    intro i
    obtain ⟨f1, h1⟩ := visit_terminates ob.kind (σ.view ob) (solOf idx x v i ob)
    obtain ⟨f2, h2⟩ := ih (i + 1)
    refine ⟨max f1 f2, fun fuel hf => ?_⟩
    obtain ⟨mp, hmp⟩ := h1 fuel (le_trans (le_max_left _ _) hf)
    obtain ⟨r, hr⟩ := h2 fuel (le_trans (le_max_right _ _) hf)
    exact ⟨mp.2 :: r, by simp only [polsFrom, polOf, hmp, Option.map_some, hr]⟩

/-- **the stopping test at the true coordinates**: every observation exact, the adjustment returned `x = 0`,
    `v = 0` ⇒ `TestLinearization` never answers "iterate" and, from some fuel on, answers "stop" -/
theorem testLinearization_true_coordinates (σ : Net ℝ) (idx : IdxState) (x v : List ℝ) (obs : List (NObs ℝ))
    (hex : ∀ ob ∈ obs, ExactObs σ ob) (hx : ∀ i, GN.xAt x i = 0) (hv : ∀ i, GN.xAt v i = 0) :
    (∀ fuel, testLinearization σ fuel idx x v obs ≠ some true) ∧
    ∃ f0 : Nat, ∀ fuel, f0 ≤ fuel → testLinearization σ fuel idx x v obs = some false := by
  have key : ∀ fuel pols, polsFrom σ fuel idx x v 1 obs = some pols → GN.testLin pols = false :=
    fun fuel pols h => testLin_all_zero pols (polsFrom_zero σ fuel idx x v hx hv obs 1 pols hex h)
  refine ⟨fun fuel h => ?_, ?_⟩
  · simp only [testLinearization, Option.map_eq_some_iff] at h
    obtain ⟨pols, hp, ht⟩ := h
    rw [key fuel pols hp] at ht
    exact absurd ht (by simp)
  · obtain ⟨f0, hf⟩ := polsFrom_terminates σ idx x v obs 1
    refine ⟨f0, fun fuel h => ?_⟩
    obtain ⟨pols, hp⟩ := hf fuel h
    simp only [testLinearization, hp, Option.map_some, key fuel pols hp]

/-! ### non-vacuity: a direction read one full circle low (k = −1) -/

/-- C05's example network: the direction 7 → 8 observed as `brg 3 4 − 2π` with orientation 0, and the 5 m distance -/
noncomputable def lowObs : List (NObs ℝ) := [⟨.direction, 0, 7, 8, 0, brg 3 4 - 2 * π⟩, ⟨.distance, 0, 7, 8, 0, 5⟩]

theorem lowObs_exact : ∀ ob ∈ lowObs, ExactObs exNet ob := by
  intro ob hob
  simp only [lowObs, List.mem_cons, List.not_mem_nil, or_false] at hob
  rcases hob with rfl | rfl
  · exact ⟨ex_not_cut, -1, by simp [Net.view, exNet, dX, dY]; ring⟩
  · exact ⟨ex_not_cut, by rw [ex_hdist]; rfl⟩

end Gama.C06PL
