/-
  C14 / C07 — the regenerated requirement table of `LocalRevision` is SYMMETRIC in the two ends of
  every two-ended observation type, hence exchanging the ends of an observation does not change
  whether the revision keeps it; lifted to clusters, to the whole revision and to the active view.
  Core Lean only.
-/
import Gama.Lemmas.Revise
namespace Gama.Rev
variable {K : Type}

/-- the types that have a station end and a target end (everything but `x`, `y`, `z`, which have no
    target, and `angle`, which has two targets) -/
def twoEnded : ObsType → Bool
  | .x | .y | .z | .angle => false
  | _ => true

/-- the two-ended types whose VALUE is a symmetric (distance, slope distance) or antisymmetric
    (height difference, coordinate differences: the sign changes) function of the ends, i.e. the types
    for which "the same observation written from the other end" exists.  (A direction / azimuth /
    zenith angle read from the other end is a different measurement.) -/
def swappable : ObsType → Bool
  | .distance | .s_distance | .h_diff | .xdiff | .ydiff | .zdiff => true
  | _ => false

/-- `some false`: value unchanged; `some true`: value negated -/
def swapNegates : ObsType → Option Bool
  | .distance | .s_distance => some false
  | .h_diff | .xdiff | .ydiff | .zdiff => some true
  | _ => none

/-- the flags required of BOTH ends, when the generated row has the shape `[(from, f), (to, f)]` -/
def symFlags (t : ObsType) : Option (List Flag) :=
  match Gen.requirements t with
  | [(.from, f), (.to, g)] => if f = g then some f else none
  | _ => none

/-- `decide` on the regenerated table: every two-ended type asks the same of its two ends -/
theorem symFlags_isSome : ∀ t : ObsType, twoEnded t = true → (symFlags t).isSome = true := by
  intro t; cases t <;> decide

theorem twoEnded_of_swappable {t : ObsType} (h : swappable t = true) : twoEnded t = true := by
  cases t <;> simp_all [swappable, twoEnded]

theorem requirements_of_symFlags {t : ObsType} {f : List Flag} (h : symFlags t = some f) :
    Gen.requirements t = [(.from, f), (.to, f)] := by
  unfold symFlags at h
  split at h
  · rename_i f' g heq
    by_cases e : f' = g
    · simp only [e, if_true, Option.some.injEq] at h
      rw [heq, e, h]
    · simp [e] at h
  · simp at h

/-- the observation written from the other end; the value is re-expressed by `v` (identity for a
    distance, negation for a height / coordinate difference — the revision never reads it) -/
def swapEnds (v : Obs K → K) (o : Obs K) : Obs K := { o with frm := o.to, to := o.frm, value := v o }

/-- what a symmetric row MEANS: `LocalRevision::<type>` is the conjunction of the same test on both
    ends, so it cannot tell which end is which -/
theorem reqOk_of_symFlags (pts : List (Pt K)) (o : Obs K) {f : List Flag} (h : symFlags o.ty = some f) :
    reqOk pts o =
      ((match findPt pts o.frm with | none => false | some p => f.all p.flag) &&
       (match findPt pts o.to with | none => false | some p => f.all p.flag)) := by
  unfold reqOk
  rw [requirements_of_symFlags h]
  simp only [List.all_cons, List.all_nil, Bool.and_true, Obs.roleId]
  cases findPt pts o.frm <;> cases findPt pts o.to <;> rfl

theorem reqOk_swapEnds (v : Obs K → K) (pts : List (Pt K)) (o : Obs K) (h : twoEnded o.ty = true) :
    reqOk pts (swapEnds v o) = reqOk pts o := by
  obtain ⟨f, hf⟩ := Option.isSome_iff_exists.mp (symFlags_isSome o.ty h)
  have hf' : symFlags (swapEnds v o).ty = some f := hf
  rw [reqOk_of_symFlags pts o hf, reqOk_of_symFlags pts (swapEnds v o) hf', Bool.and_comm]
  rfl

/-! ### lifted to the revision -/

/-- re-express the swappable observations selected by their (from, to) pair from the other end -/
def sw (v : Obs K → K) (sel : Nat → Nat → Bool) (o : Obs K) : Obs K :=
  if swappable o.ty && sel o.frm o.to then swapEnds v o else o

/-- the value map may look at everything but the activity flag -/
def ValueOk (v : Obs K → K) : Prop := ∀ o : Obs K, ∀ a : Bool, v { o with active := a } = v o

theorem sw_active (v : Obs K → K) (sel : Nat → Nat → Bool) (o : Obs K) : (sw v sel o).active = o.active := by
  unfold sw; split <;> rfl

theorem sw_ty (v : Obs K → K) (sel : Nat → Nat → Bool) (o : Obs K) : (sw v sel o).ty = o.ty := by
  unfold sw; split <;> rfl

theorem localRev_sw (v : Obs K → K) (hv : ValueOk v) (sel : Nat → Nat → Bool) (pts : List (Pt K)) (o : Obs K) :
    localRev pts (sw v sel o) = sw v sel (localRev pts o) := by
  unfold sw
  by_cases h : (swappable o.ty && sel o.frm o.to) = true
  · have h' : (swappable (localRev pts o).ty && sel (localRev pts o).frm (localRev pts o).to) = true := h
    rw [if_pos h, if_pos h']
    have ht : twoEnded o.ty = true := twoEnded_of_swappable (by simp at h; exact h.1)
    unfold localRev
    rw [reqOk_swapEnds v pts o ht]
    unfold swapEnds
    simp only [hv o (o.active && reqOk pts o)]
  · have h' : ¬ (swappable (localRev pts o).ty && sel (localRev pts o).frm (localRev pts o).to) = true := h
    rw [if_neg h, if_neg h']

theorem passDir_sw (v : Obs K → K) (hv : ValueOk v) (sel : Nat → Nat → Bool) (o : Obs K) :
    passDir (sw v sel o) = sw v sel (passDir o) := by
  unfold passDir
  rw [sw_ty]
  by_cases hd : (o.ty == ObsType.direction) = true
  · have : swappable o.ty = false := by
      have : o.ty = .direction := by simpa using hd
      rw [this]; rfl
    simp [hd, sw, this]
  · simp [hd]

theorem activeTargets_sw (v : Obs K → K) (sel : Nat → Nat → Bool) (os : List (Obs K)) :
    activeTargets (os.map (sw v sel)) = activeTargets os := by
  induction os with
  | nil => rfl
  | cons o os ih =>
    rw [List.map_cons, activeTargets_cons, activeTargets_cons, ih]
    have h1 : isActiveDir (sw v sel o) = isActiveDir o := by
      unfold isActiveDir; rw [sw_ty, sw_active]
    rw [h1]
    by_cases ha : isActiveDir o = true
    · have hd : o.ty = .direction := by
        unfold isActiveDir at ha; simp at ha; exact ha.1
      have : sw v sel o = o := by
        unfold sw; rw [hd]; rfl
      rw [this]
    · simp [ha]

theorem distinctTargets_sw (v : Obs K → K) (sel : Nat → Nat → Bool) (os : List (Obs K)) :
    distinctTargets (os.map (sw v sel)) = distinctTargets os := by
  show (activeTargets (os.map (sw v sel))).eraseDups.length = (activeTargets os).eraseDups.length
  rw [activeTargets_sw]

def mapCl (f : Obs K → Obs K) (c : Cluster K) : Cluster K := { c with obs := c.obs.map f }

theorem filter_active_sw (v : Obs K → K) (sel : Nat → Nat → Bool) (os : List (Obs K)) :
    (os.map (sw v sel)).filter (·.active) = (os.filter (·.active)).map (sw v sel) := by
  induction os with
  | nil => rfl
  | cons o os ih =>
    simp only [List.map_cons, List.filter_cons, sw_active]
    split <;> simp [ih]

theorem filter_passive_sw (v : Obs K → K) (sel : Nat → Nat → Bool) (os : List (Obs K)) :
    (os.map (sw v sel)).filter (fun o => !o.active) = (os.filter (fun o => !o.active)).map (sw v sel) := by
  induction os with
  | nil => rfl
  | cons o os ih =>
    simp only [List.map_cons, List.filter_cons, sw_active]
    split <;> simp [ih]

theorem reviseCl_eq (pts : List (Pt K)) (c : Cluster K) :
    reviseCl pts c =
      { c with obs := (reviseCl pts c).obs, actObs := ((reviseCl pts c).obs.filter (·.active)).length } := by
  unfold reviseCl updateCl
  simp only [standRule_def]
  split <;> rfl

/-- the revision of a cluster commutes with writing selected observations from the other end -/
theorem reviseCl_sw (v : Obs K → K) (hv : ValueOk v) (sel : Nat → Nat → Bool) (pts : List (Pt K)) (c : Cluster K) :
    reviseCl pts (mapCl (sw v sel) c) = mapCl (sw v sel) (reviseCl pts c) := by
  have hobs : (reviseCl pts (mapCl (sw v sel) c)).obs = (reviseCl pts c).obs.map (sw v sel) := by
    rw [reviseCl_obs, reviseCl_obs]
    have e1 : (mapCl (sw v sel) c).obs.map (localRev pts) = (c.obs.map (localRev pts)).map (sw v sel) := by
      simp only [mapCl, List.map_map]
      apply List.map_congr_left
      intro o _
      exact localRev_sw v hv sel pts o
    rw [e1, distinctTargets_sw]
    simp only [mapCl, List.map_map]
    apply List.map_congr_left
    intro o _
    simp only [Function.comp]
    rw [localRev_sw v hv, passDir_sw v hv]
    by_cases hf : (c.stand && decide (distinctTargets (c.obs.map (localRev pts)) < 2)) = true
    · simp [hf]
    · simp [hf]
  rw [reviseCl_eq pts (mapCl (sw v sel) c), hobs, filter_active_sw, List.length_map]
  conv => rhs; rw [reviseCl_eq pts c]
  rfl

def mapNet (f : Obs K → Obs K) (n : Net K) : Net K :=
  { n with cls := n.cls.map (mapCl f), revised := n.revised.map f, rejected := n.rejected.map f }

theorem allObs_mapCl (f : Obs K → Obs K) (cls : List (Cluster K)) :
    allObs (cls.map (mapCl f)) = (allObs cls).map f := by
  unfold allObs mapCl
  induction cls with
  | nil => rfl
  | cons c cs ih => simp [ih]

/-- THE WHOLE REVISION commutes with writing selected distances / slope distances / height and
    coordinate differences from the other end: same point statuses and records, the same
    observations kept and rejected (re-expressed), the same counts -/
theorem revise_sw (v : Obs K → K) (hv : ValueOk v) (sel : Nat → Nat → Bool) (n : Net K) :
    revise (mapNet (sw v sel) n) = mapNet (sw v sel) (revise n) := by
  unfold revise revisionObservations
  have hp : revisionPoints (mapNet (sw v sel) n) = mapNet (sw v sel) (revisionPoints n) := rfl
  rw [hp]
  have hc : (mapNet (sw v sel) (revisionPoints n)).cls.map (reviseCl (mapNet (sw v sel) (revisionPoints n)).pts) =
      ((revisionPoints n).cls.map (reviseCl (revisionPoints n).pts)).map (mapCl (sw v sel)) := by
    show ((revisionPoints n).cls.map (mapCl (sw v sel))).map (reviseCl (revisionPoints n).pts) = _
    rw [List.map_map, List.map_map]
    apply List.map_congr_left
    intro c _
    exact reviseCl_sw v hv sel _ c
  simp only [hc, allObs_mapCl, filter_active_sw, filter_passive_sw, List.length_map]
  unfold mapNet
  simp

/-- … hence the active view (what the linearisation reads) of the re-expressed input is the
    re-expressed active view: the same points, per cluster the same observations kept -/
theorem activeView_sw (v : Obs K → K) (hv : ValueOk v) (sel : Nat → Nat → Bool) (n : Net K) :
    activeView (revise (mapNet (sw v sel) n)) =
      ((activeView (revise n)).1, (activeView (revise n)).2.map fun c => (c.1, c.2.map (sw v sel))) := by
  rw [revise_sw v hv sel n]
  unfold activeView
  refine Prod.ext rfl ?_
  show (((revise n).cls.map (mapCl (sw v sel))).map fun c => (c.stand, c.obs.filter (·.active))).filter _ = _
  rw [List.map_map]
  generalize (revise n).cls = cls
  induction cls with
  | nil => rfl
  | cons c cs ih =>
    simp only [List.map_cons, List.filter_cons, Function.comp, mapCl, filter_active_sw] at ih ⊢
    by_cases he : (c.obs.filter (·.active)).isEmpty = true
    · have : ((c.obs.filter (·.active)).map (sw v sel)).isEmpty = true := by simpa using he
      simp [he, this, ih]
    · have : ¬ ((c.obs.filter (·.active)).map (sw v sel)).isEmpty = true := by simpa using he
      simp [he, this, ih]

end Gama.Rev
