/-
  C19 round 9 — buffer sizing of the adjustment input (`dm_floats`, `BlockDiagonal`).

  `Model::update_linearization` allocates `A = new SparseMatrix<>(dm_floats, dm_rows, dm_cols)`: `nonz = new Float[floats]`,
  and every `A->add_element` of the linearisation loop writes `nonz[ncnt_++]` unchecked — the number reserved by the
  eight `Model::revision(T*)` (`Rev.floats`, summed into `dm_floats`) must cover the number of coefficients the eight
  `Model::linearization(T*)` push for the same point states.  (Finding G1, `revision(Angle*)` testing
  `free_position()`, was exactly a violation of this: heap-buffer-overflow.)

    * `linObs_floats`  : one observation, all eight types, any scalar type: `Σ row lengths = Rev.floats`;
    * `book_floats`    : the network: `dm_floats = floatsWritten (netEqs …)` — EQUAL, for every sparse pattern;
    NOT proved here: `BlockDiagonal<>(blocks, nonzeroes)` (from `Cluster::update`'s `act_nonz`, `G3Dump.bdAnnounced`) =
    what `add_block` receives (`G3Dump.bdWritten`) — both are executed by `drv_g3` and compared on every network.
-/
import Gama.Model.G3Dump
import Gama.Lemmas.G3OneStep
import Gama.Lemmas.G3LinShape
namespace Gama
namespace G3Dump
open Neu G3Book G3Lin G3Net Gama.Gen.G3Lin

set_option linter.unusedSectionVars false
set_option linter.unusedVariables false

variable {ι : Type} [DecidableEq ι] {K : Type}

theorem evalRow_length (P : Pts K) (r : GRow K) : (evalRow P r).length = (emitted P r).length := by
  have := congrArg List.length (evalRow_indices P r)
  simpa using this

theorem sum_lengths (P : Pts K) (rows : List (GRow K)) (pat : List (Role × Comp))
    (h : ∀ r ∈ rows, emitted P r = pat) :
    ((rows.map (evalRow P)).map List.length).sum = rows.length * pat.length := by
  induction rows with
  | nil => simp
  | cons a l ih =>
    have ha := h a List.mem_cons_self
    have := ih (fun r hr => h r (List.mem_cons_of_mem _ hr))
    simp only [List.map_cons, List.sum_cons, List.length_cons, this, evalRow_length, ha]
    ring

section adj
variable [Scalar K]

theorem adjusted_ptsOf (net : Net ι K) (ind : Par ι → Nat) (ob : Obs ι) (r : Role) (n : ι) (pf : PtS)
    (hn : roleName ob r = some n) (hp : net.points n = some pf) (c : Comp) :
    adjusted (ptsOf net ind ob) (r, c) = (pf.state c).isFree := by
  unfold adjusted
  rw [ptsOf_isFree net ind ob r n hn c]
  simp [isFreePar, parState, hp]

/-- `Model::update_parameters`: N and E of a point of the table are in the same state -/
theorem points_normal (net : Net ι K) (n : ι) (pf : PtS) (hp : net.points n = some pf) : pf.sN = pf.sE := by
  unfold Net.points at hp
  cases hg : net.pts n with
  | none => rw [hg] at hp; cases hp
  | some g =>
    rw [hg] at hp
    simp only [Option.map_some, Option.some.injEq] at hp
    subst hp
    rfl

/-- the adjusted n, e, u of the point of one role: `b2n freeH 2 + b2n freeU 1` -/
theorem neu_count (net : Net ι K) (ind : Par ι → Nat) (ob : Obs ι) (r : Role) (n : ι) (pf : PtS)
    (hn : roleName ob r = some n) (hp : net.points n = some pf) :
    ((neuOf r).filter (adjusted (ptsOf net ind ob))).length = b2n pf.freeH 2 + b2n pf.freeU 1 := by
  have hN := adjusted_ptsOf net ind ob r n pf hn hp .N
  have hE := adjusted_ptsOf net ind ob r n pf hn hp .E
  have hU := adjusted_ptsOf net ind ob r n pf hn hp .U
  have hne := points_normal net n pf hp
  simp only [PtS.state] at hN hE hU
  rw [← hne] at hE
  cases h1 : pf.sN.isFree <;> cases h2 : pf.sU.isFree <;>
    simp [neuOf, List.filter_cons, hN, hE, hU, PtS.freeH, PtS.freeU, ← hne, b2n, h1, h2]

theorem u_count (net : Net ι K) (ind : Par ι → Nat) (ob : Obs ι) (r : Role) (n : ι) (pf : PtS)
    (hn : roleName ob r = some n) (hp : net.points n = some pf) :
    ([(r, Comp.U)].filter (adjusted (ptsOf net ind ob))).length = b2n pf.freeU 1 := by
  have hU := adjusted_ptsOf net ind ob r n pf hn hp .U
  simp only [PtS.state] at hU
  cases h2 : pf.sU.isFree <;> simp [List.filter_cons, hU, PtS.freeU, b2n, h2]

theorem ne_count (net : Net ι K) (ind : Par ι → Nat) (ob : Obs ι) (r : Role) (n : ι) (pf : PtS)
    (hn : roleName ob r = some n) (hp : net.points n = some pf) :
    ([(r, Comp.N), (r, Comp.E)].filter (adjusted (ptsOf net ind ob))).length = b2n pf.freeH 2 := by
  have hN := adjusted_ptsOf net ind ob r n pf hn hp .N
  have hE := adjusted_ptsOf net ind ob r n pf hn hp .E
  have hne := points_normal net n pf hp
  simp only [PtS.state] at hN hE
  rw [← hne] at hE
  cases h1 : pf.sN.isFree <;> simp [List.filter_cons, hN, hE, PtS.freeH, ← hne, b2n, h1]

end adj

theorem b2n_mul (b : Bool) (k c : Nat) : k * b2n b c = b2n b (k * c) := by
  cases b <;> simp [b2n]

/-- **`dm_floats` adequacy, one observation**: the number of coefficients `Model::linearization(T*)` pushes into the
    sparse matrix is exactly what `Model::revision(T*)` reserved — all eight types, any states of the points -/
theorem linObs_floats [Trig K] (net : Net ι K) (ind : Par ι → Nat) (no : NObs ι K) (r : Rev ι)
    (h : revision net.points no.obs = some r) (hna : ∀ f t, no.obs ≠ .azimuth f t) :
    ((linObs net ind no).rows.map List.length).sum = r.floats := by
  obtain ⟨ob, o⟩ := no
  have hnorm := ptsOf_normal net ind ob
  simp only at h
  cases ob with
  | angle f l rr =>
    cases hf : net.points f with
    | none => simp [revision, hf] at h
    | some pf =>
      cases hl : net.points l with
      | none => simp [revision, hf, hl] at h
      | some pl =>
        cases hr : net.points rr with
        | none => simp [revision, hf, hl, hr] at h
        | some pr =>
          simp only [revision, hf, hl, hr] at h
          split_ifs at h
          cases h
          show (((angle (ptsOf net ind (.angle f l rr)) o net.tol).rows.map (evalRow _)).map List.length).sum = _
          rw [sum_lengths _ _ _ (only_free_angle _ o net.tol)]
          simp only [patAngle, List.filter_append, List.length_append,
            neu_count net ind (.angle f l rr) .frm f pf rfl hf, neu_count net ind (.angle f l rr) .left l pl rfl hl,
            neu_count net ind (.angle f l rr) .right rr pr rfl hr]
          show 1 * _ = _
          omega
  | azimuth f t => exact absurd rfl (hna f t)
  | distance f t =>
    cases hf : net.points f with
    | none => simp [revision, revFromTo, hf] at h
    | some pf =>
      cases ht : net.points t with
      | none => simp [revision, revFromTo, hf, ht] at h
      | some pt =>
        simp only [revision, revFromTo, hf, ht] at h
        split_ifs at h
        cases h
        show (((distance (ptsOf net ind (.distance f t)) o net.tol).rows.map (evalRow _)).map List.length).sum = _
        rw [sum_lengths _ _ _ (only_free_distance _ hnorm o net.tol)]
        simp only [patFromTo, List.filter_append, List.length_append,
          neu_count net ind (.distance f t) .frm f pf rfl hf, neu_count net ind (.distance f t) .to t pt rfl ht]
        show 1 * _ = _
        simp only [Nat.mul_one, Nat.one_mul]; omega
  | zenith f t =>
    cases hf : net.points f with
    | none => simp [revision, revFromTo, hf] at h
    | some pf =>
      cases ht : net.points t with
      | none => simp [revision, revFromTo, hf, ht] at h
      | some pt =>
        simp only [revision, revFromTo, hf, ht] at h
        split_ifs at h
        cases h
        show (((zenith (ptsOf net ind (.zenith f t)) o net.tol).rows.map (evalRow _)).map List.length).sum = _
        rw [sum_lengths _ _ _ (only_free_zenith _ hnorm o net.tol)]
        simp only [patFromTo, List.filter_append, List.length_append,
          neu_count net ind (.zenith f t) .frm f pf rfl hf, neu_count net ind (.zenith f t) .to t pt rfl ht]
        show 1 * _ = _
        simp only [Nat.mul_one, Nat.one_mul]; omega
  | vector f t =>
    cases hf : net.points f with
    | none => simp [revision, revFromTo, hf] at h
    | some pf =>
      cases ht : net.points t with
      | none => simp [revision, revFromTo, hf, ht] at h
      | some pt =>
        simp only [revision, revFromTo, hf, ht] at h
        split_ifs at h
        cases h
        show (((vector (ptsOf net ind (.vector f t)) o net.tol).rows.map (evalRow _)).map List.length).sum = _
        rw [sum_lengths _ _ _ (only_free_vector _ hnorm o net.tol)]
        simp only [patFromTo, List.filter_append, List.length_append,
          neu_count net ind (.vector f t) .frm f pf rfl hf, neu_count net ind (.vector f t) .to t pt rfl ht]
        show 3 * _ = _
        simp only [Nat.mul_add, b2n_mul, Nat.reduceMul]; omega
  | height p =>
    cases hp : net.points p with
    | none => simp [revision, hp] at h
    | some pp =>
      simp only [revision, hp] at h
      split_ifs at h
      cases h
      show (((height (ptsOf net ind (.height p)) o net.tol).rows.map (evalRow _)).map List.length).sum = _
      rw [sum_lengths _ _ _ (only_free_height _ hnorm o net.tol)]
      simp only [patHeight, u_count net ind (.height p) .pt p pp rfl hp]
      show 1 * _ = _
      omega
  | hdiff f t =>
    cases hf : net.points f with
    | none => simp [revision, hf] at h
    | some pf =>
      cases ht : net.points t with
      | none => simp [revision, hf, ht] at h
      | some pt =>
        simp only [revision, hf, ht] at h
        split_ifs at h
        cases h
        show (((hdiff (ptsOf net ind (.hdiff f t)) o net.tol).rows.map (evalRow _)).map List.length).sum = _
        rw [sum_lengths _ _ _ (only_free_hdiff _ hnorm o net.tol)]
        have e : patHdiff = [(Role.frm, Comp.U)] ++ [(Role.to, Comp.U)] := rfl
        simp only [e, List.filter_append, List.length_append,
          u_count net ind (.hdiff f t) .frm f pf rfl hf, u_count net ind (.hdiff f t) .to t pt rfl ht]
        show 1 * _ = _
        omega
  | xyz p =>
    cases hp : net.points p with
    | none => simp [revision, hp] at h
    | some pp =>
      simp only [revision, hp] at h
      split_ifs at h
      cases h
      show (((xyz (ptsOf net ind (.xyz p)) o net.tol).rows.map (evalRow _)).map List.length).sum = _
      rw [sum_lengths _ _ _ (only_free_xyz _ hnorm o net.tol)]
      simp only [patPoint, neu_count net ind (.xyz p) .pt p pp rfl hp]
      show 3 * _ = _
      simp only [Nat.mul_add, b2n_mul, Nat.reduceMul]

/-- the azimuth record reserves one float more than its linearisation pushes when the station's height is adjusted
    (`revision(Azimuth*)` uses the from/to pattern, the row has no coefficient for the station's `u`): adequate, not
    tight.  (Azimuth records are unreachable from the parser: `C19_azimuth_unreachable`.) -/
theorem linObs_floats_azimuth [Trig K] (net : Net ι K) (ind : Par ι → Nat) (f t : ι) (o : GObs K) (r : Rev ι)
    (h : revision net.points (.azimuth f t) = some r) :
    ((linObs net ind ⟨.azimuth f t, o⟩).rows.map List.length).sum ≤ r.floats := by
  have hnorm := ptsOf_normal net ind (.azimuth f t)
  cases hf : net.points f with
  | none => simp [revision, revFromTo, hf] at h
  | some pf =>
    cases ht : net.points t with
    | none => simp [revision, revFromTo, hf, ht] at h
    | some pt =>
      simp only [revision, revFromTo, hf, ht] at h
      split_ifs at h
      cases h
      show (((azimuth (ptsOf net ind (.azimuth f t)) o net.tol).rows.map (evalRow _)).map List.length).sum ≤ _
      rw [sum_lengths _ _ _ (only_free_azimuth _ hnorm o net.tol)]
      simp only [patAzimuth, List.filter_append, List.length_append,
        ne_count net ind (.azimuth f t) .frm f pf rfl hf, neu_count net ind (.azimuth f t) .to t pt rfl ht]
      show 1 * _ ≤ _
      simp only [Nat.mul_one, Nat.one_mul]; omega

/-- **`dm_floats` is adequate for every observation type** -/
theorem linObs_floats_le [Trig K] (net : Net ι K) (ind : Par ι → Nat) (no : NObs ι K) (r : Rev ι)
    (h : revision net.points no.obs = some r) :
    ((linObs net ind no).rows.map List.length).sum ≤ r.floats := by
  obtain ⟨ob, o⟩ := no
  cases ob with
  | azimuth f t => exact linObs_floats_azimuth net ind f t o r h
  | angle f l rr => exact le_of_eq (linObs_floats net ind _ r h (by intro f t e; cases e))
  | distance f t => exact le_of_eq (linObs_floats net ind _ r h (by intro f t e; cases e))
  | zenith f t => exact le_of_eq (linObs_floats net ind _ r h (by intro f t e; cases e))
  | vector f t => exact le_of_eq (linObs_floats net ind _ r h (by intro f t e; cases e))
  | height p => exact le_of_eq (linObs_floats net ind _ r h (by intro f t e; cases e))
  | hdiff f t => exact le_of_eq (linObs_floats net ind _ r h (by intro f t e; cases e))
  | xyz p => exact le_of_eq (linObs_floats net ind _ r h (by intro f t e; cases e))

/-! ### the network -/

theorem zip_fst_lengths {α β : Type} (l : List (List α)) (r : List β) (h : l.length = r.length) :
    ((l.zip r).map fun e => e.1.length).sum = (l.map List.length).sum := by
  induction l generalizing r with
  | nil => simp
  | cons a l ih =>
    cases r with
    | nil => simp at h
    | cons b r =>
      simp only [List.zip_cons_cons, List.map_cons, List.sum_cons]
      rw [ih r (by simpa using h)]

theorem floatsWritten_flatMap {α : Type} (L : List α) (F : α → List (Row K × K)) :
    floatsWritten (L.flatMap F) = (L.map fun a => floatsWritten (F a)).sum := by
  induction L with
  | nil => rfl
  | cons a l ih =>
    simp only [List.flatMap_cons, List.map_cons, List.sum_cons, ← ih]
    unfold floatsWritten
    rw [List.map_append, List.sum_append]

/-- the coefficients written by the whole loop, observation by observation -/
theorem floatsWritten_netEqs [Trig K] (net : Net ι K) (nobs : List (NObs ι K)) :
    floatsWritten (netEqs net nobs) =
      ((activeOf net nobs).map fun no => ((linObs net (bookOf net nobs).idx.ind no).rows.map List.length).sum).sum := by
  unfold netEqs linearizeNet
  rw [List.flatMap_map, floatsWritten_flatMap]
  congr 1
  apply List.map_congr_left
  intro o _
  unfold floatsWritten
  apply zip_fst_lengths
  have := genOf_lengths o.obs (ptsOf net (bookOf net nobs).idx.ind o.obs) o.o net.tol
  simp only [linObs, evalLin, List.length_map]
  rw [this.1, this.2]

theorem sum_floats_active (P : Points ι) (nobs : List (NObs ι K)) (g : NObs ι K → Nat)
    (hg : ∀ no r, no ∈ nobs → revision P no.obs = some r → g no ≤ r.floats) :
    ((nobs.filter fun o => (revision P o.obs).isSome).map g).sum ≤
      ((nobs.filterMap fun o => revision P o.obs).map (·.floats)).sum := by
  induction nobs with
  | nil => simp
  | cons a l ih =>
    have ih' := ih (fun no r hno hr => hg no r (List.mem_cons_of_mem _ hno) hr)
    cases hr : revision P a.obs with
    | none => simpa [List.filterMap_cons, List.filter_cons, hr] using ih'
    | some r =>
      have := hg a r List.mem_cons_self hr
      simp only [List.filterMap_cons, List.filter_cons, hr, Option.isSome_some, if_true, List.map_cons, List.sum_cons]
      omega

theorem sum_floats_active_eq (P : Points ι) (nobs : List (NObs ι K)) (g : NObs ι K → Nat)
    (hg : ∀ no r, no ∈ nobs → revision P no.obs = some r → g no = r.floats) :
    ((nobs.filter fun o => (revision P o.obs).isSome).map g).sum =
      ((nobs.filterMap fun o => revision P o.obs).map (·.floats)).sum := by
  induction nobs with
  | nil => simp
  | cons a l ih =>
    have ih' := ih (fun no r hno hr => hg no r (List.mem_cons_of_mem _ hno) hr)
    cases hr : revision P a.obs with
    | none => simpa [List.filterMap_cons, List.filter_cons, hr] using ih'
    | some r =>
      have := hg a r List.mem_cons_self hr
      simp only [List.filterMap_cons, List.filter_cons, hr, Option.isSome_some, if_true, List.map_cons, List.sum_cons]
      omega

theorem book_floats_eq (net : Net ι K) (nobs : List (NObs ι K)) :
    (bookOf net nobs).floats = ((nobs.filterMap fun o => revision net.points o.obs).map (·.floats)).sum := by
  have := (updateObservations_fold net.points (nobs.map (·.obs)) Book.init).2.2.1
  rw [List.filterMap_map] at this
  simpa [bookOf, updateObservations, Book.init, Function.comp_def] using this

/-- **`dm_floats` adequacy, the network**: the linearisation loop writes at most `dm_floats` coefficients into
    `SparseMatrix(dm_floats, dm_rows, dm_cols)` — for every network, every state of every point -/
theorem book_floats_le [Trig K] (net : Net ι K) (nobs : List (NObs ι K)) :
    floatsWritten (netEqs net nobs) ≤ (bookOf net nobs).floats := by
  rw [floatsWritten_netEqs, book_floats_eq]
  exact sum_floats_active net.points nobs _ (fun no r _ hr => linObs_floats_le net _ no r hr)

/-- … and exactly `dm_floats` when the network has no azimuth record (none can come from the parser) -/
theorem book_floats [Trig K] (net : Net ι K) (nobs : List (NObs ι K))
    (hna : ∀ no ∈ nobs, ∀ f t, no.obs ≠ .azimuth f t) :
    floatsWritten (netEqs net nobs) = (bookOf net nobs).floats := by
  rw [floatsWritten_netEqs, book_floats_eq]
  exact sum_floats_active_eq net.points nobs _ (fun no r hno hr => linObs_floats net _ no r hr (hna no hno))

end G3Dump
end Gama
