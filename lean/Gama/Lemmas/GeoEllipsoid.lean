/-
  Lemmas about the model of ellipsoid.cpp over ℝ.
  `atan2 y x = Complex.arg (x + y i)`, `sqrt = Real.sqrt`.
-/
import Gama.Lemmas.GeoReal
import Gama.Model.Ellipsoid
namespace Gama.Ellipsoid
open Real

/-! ### unfolding at ℝ -/

theorem W_real (e : Ellipsoid ℝ) (b : ℝ) : e.W b = Real.sqrt (1 - e.e2 * Real.sin b * Real.sin b) := rfl
theorem N_real (e : Ellipsoid ℝ) (b : ℝ) : e.N b = e.A / e.W b := rfl

theorem blh2xyz_real (e : Ellipsoid ℝ) (b l h : ℝ) :
    e.blh2xyz b l h = ((e.N b + h) * Real.cos b * Real.cos l, (e.N b + h) * Real.cos b * Real.sin l,
                       (e.N b * e.Ime2 + h) * Real.sin b) := rfl

theorem halfPi_real : (halfPi : ℝ) = π / 2 := by
  unfold halfPi; simp

theorem negHalfPi_real : (negHalfPi : ℝ) = -(π / 2) := by
  unfold negHalfPi; simp [neg_div]

theorem axisDist_real (x y : ℝ) : axisDist x y =
    if |y| < |x| then some (|x| * Real.sqrt (1 + |y| / |x| * (|y| / |x|)))
    else if |y| ≠ 0 then some (|y| * Real.sqrt (1 + |x| / |y| * (|x| / |y|))) else none := by
  unfold axisDist
  simp only [scalar_abs_real, scalar_sqrt_real]
  split_ifs <;> simp_all

/-- off the axis the coded expression is the Euclidean distance from the axis -/
theorem axisDist_eq {x y : ℝ} (h : x ≠ 0 ∨ y ≠ 0) : axisDist x y = some (Real.sqrt (x * x + y * y)) := by
  rw [axisDist_real]
  have key : ∀ u v : ℝ, 0 < u → u * Real.sqrt (1 + v / u * (v / u)) = Real.sqrt (u * u + v * v) := by
    intro u v hu
    calc u * Real.sqrt (1 + v / u * (v / u))
        = Real.sqrt (u * u) * Real.sqrt (1 + v / u * (v / u)) := by rw [Real.sqrt_mul_self hu.le]
      _ = Real.sqrt (u * u * (1 + v / u * (v / u))) := (Real.sqrt_mul (mul_self_nonneg u) _).symm
      _ = Real.sqrt (u * u + v * v) := by congr 1; field_simp
  split_ifs with h1 h2
  · have hx : 0 < |x| := lt_of_le_of_lt (abs_nonneg y) h1
    rw [key |x| |y| hx, abs_mul_abs_self, abs_mul_abs_self]
  · have hy : 0 < |y| := lt_of_le_of_ne (abs_nonneg y) (Ne.symm h2)
    rw [key |y| |x| hy, abs_mul_abs_self, abs_mul_abs_self, add_comm]
  · exfalso
    push Not at h1 h2
    have hy : y = 0 := by simpa using h2
    have hx : x = 0 := by
      have : |x| ≤ 0 := by simpa [hy] using h1
      simpa using le_antisymm this (abs_nonneg x)
    rcases h with h | h <;> contradiction

theorem axisDist_zero : axisDist (0 : ℝ) 0 = none := by
  rw [axisDist_real]; simp

/-! ### well-formed ellipsoids: what `set_abff1` establishes -/

/-- the relations between the data members that `set_abff1` establishes, for 0 < b ≤ a -/
structure WF (e : Ellipsoid ℝ) : Prop where
  hB : 0 < e.B
  hBA : e.B ≤ e.A
  hff : e.ff = (e.A - e.B) / e.A
  hn : e.n = (e.A - e.B) / (e.A + e.B)
  he2 : e.e2 = (e.A * e.A - e.B * e.B) / (e.A * e.A)
  he22 : e.e22 = (e.A * e.A - e.B * e.B) / (e.B * e.B)
  hIme2 : e.Ime2 = 1 - e.e2
  hIpe22 : e.Ipe22 = 1 + e.e22
  hAIme2 : e.AIme2 = e.A * e.Ime2
  hAB : e.AB = e.A / e.B

namespace WF
variable {e : Ellipsoid ℝ} (w : WF e)
include w

theorem hA : 0 < e.A := lt_of_lt_of_le w.hB w.hBA

theorem e2_nonneg : 0 ≤ e.e2 := by
  rw [w.he2]
  have hA := w.hA
  apply div_nonneg _ (mul_self_nonneg _)
  nlinarith [w.hB, w.hBA]

theorem e2_lt_one : e.e2 < 1 := by
  rw [w.he2]
  have hA := w.hA
  rw [div_lt_one (by positivity)]
  nlinarith [w.hB]

theorem e22_nonneg : 0 ≤ e.e22 := by
  rw [w.he22]
  have hA := w.hA
  apply div_nonneg _ (mul_self_nonneg _)
  nlinarith [w.hB, w.hBA]

theorem Ime2_eq : e.Ime2 = e.B * e.B / (e.A * e.A) := by
  rw [w.hIme2, w.he2]
  have hA := w.hA.ne'
  field_simp
  ring

theorem Ime2_pos : 0 < e.Ime2 := by
  rw [w.Ime2_eq]; have := w.hA; have := w.hB; positivity

/-- (1 − e²)(1 + e'²) = 1 -/
theorem Ime2_mul_Ipe22 : e.Ime2 * e.Ipe22 = 1 := by
  rw [w.Ime2_eq, w.hIpe22, w.he22]
  have hA := w.hA.ne'; have hB := w.hB.ne'
  field_simp
  ring

theorem W_arg_pos (b : ℝ) : 0 < 1 - e.e2 * Real.sin b * Real.sin b := by
  have h1 := w.e2_nonneg; have h2 := w.e2_lt_one
  have hs : Real.sin b * Real.sin b ≤ 1 := by nlinarith [Real.sin_sq_add_cos_sq b, sq_nonneg (Real.cos b)]
  nlinarith [mul_nonneg h1 (mul_self_nonneg (Real.sin b))]

theorem W_pos (b : ℝ) : 0 < e.W b := by
  rw [W_real]; exact Real.sqrt_pos.mpr (w.W_arg_pos b)

theorem W_sq (b : ℝ) : e.W b * e.W b = 1 - e.e2 * Real.sin b * Real.sin b := by
  rw [W_real]; exact Real.mul_self_sqrt (w.W_arg_pos b).le

theorem N_pos (b : ℝ) : 0 < e.N b := by
  rw [N_real]; exact div_pos w.hA (w.W_pos b)

end WF

theorem setAbff1_real (pa pb pf pf1 : ℝ) :
    (setAbff1 pa pb pf pf1).A = pa ∧
    (setAbff1 pa pb pf pf1).B = (if pb ≠ 0 then pb else if pf ≠ 0 then pa * (1 - pf) else pa * (1 - 1 / pf1)) := by
  unfold setAbff1
  constructor
  · rfl
  · simp only []
    split_ifs <;> simp_all

/-- generic: whatever branch was taken, the derived members satisfy their defining relations
    as soon as 0 < B ≤ A -/
theorem setAbff1_wf (pa pb pf pf1 : ℝ)
    (hB : 0 < (setAbff1 pa pb pf pf1).B) (hBA : (setAbff1 pa pb pf pf1).B ≤ pa) :
    WF (setAbff1 pa pb pf pf1) := by
  have hA : (setAbff1 pa pb pf pf1).A = pa := rfl
  have hpa : 0 < pa := lt_of_lt_of_le hB hBA
  refine ⟨hB, hBA, ?_, rfl, rfl, rfl, rfl, rfl, rfl, rfl⟩
  -- ff = (A - B)/A in each of the three branches
  have hne := hpa.ne'
  unfold setAbff1
  simp only []
  split_ifs with h1 h2
  · rfl
  · simp only []; field_simp; ring
  · simp only []; field_simp; ring

theorem setAb_wf {a b : ℝ} (hb : 0 < b) (hba : b ≤ a) : WF (setAb a b) := by
  have hB : (setAb a b).B = b := by
    have := (setAbff1_real a b 0 0).2; simpa [setAb, hb.ne'] using this
  exact setAbff1_wf a b 0 0 (by rw [show (setAbff1 a b 0 0).B = b from hB]; exact hb)
    (by rw [show (setAbff1 a b 0 0).B = b from hB]; exact hba)

theorem setAf_wf {a f : ℝ} (ha : 0 < a) (hf : 0 < f) (hf1 : f < 1) : WF (setAf a f) := by
  have hB : (setAbff1 a 0 f 0).B = a * (1 - f) := by
    have := (setAbff1_real a 0 f 0).2; simpa [hf.ne'] using this
  refine setAbff1_wf a 0 f 0 ?_ ?_ <;> rw [hB] <;> nlinarith

theorem setAf1_wf {a f1 : ℝ} (ha : 0 < a) (hf : 1 < f1) : WF (setAf1 a f1) := by
  have hB : (setAbff1 a 0 0 f1).B = a * (1 - 1 / f1) := by
    have := (setAbff1_real a 0 0 f1).2; simpa using this
  have h0 : 0 < 1 / f1 := by positivity
  have h1 : 1 / f1 < 1 := by rw [div_lt_one (by linarith)]; exact hf
  refine setAbff1_wf a 0 0 f1 ?_ ?_ <;> rw [hB] <;> nlinarith

/-! ### polar form -/

theorem arg_polar {r θ : ℝ} (hr : 0 < r) (hθ : θ ∈ Set.Ioc (-π) π) :
    Complex.arg ⟨r * Real.cos θ, r * Real.sin θ⟩ = θ := by
  have : (⟨r * Real.cos θ, r * Real.sin θ⟩ : ℂ) = (r : ℂ) * (Complex.cos θ + Complex.sin θ * Complex.I) := by
    apply Complex.ext
    · simp [Complex.cos_ofReal_re, Complex.sin_ofReal_re, Complex.cos_ofReal_im, Complex.sin_ofReal_im]
    · simp [Complex.cos_ofReal_re, Complex.sin_ofReal_re, Complex.cos_ofReal_im, Complex.sin_ofReal_im]
  rw [this]
  exact Complex.arg_mul_cos_add_sin_mul_I hr hθ

theorem sqrt_polar {r θ : ℝ} (hr : 0 < r) :
    Real.sqrt (r * Real.cos θ * (r * Real.cos θ) + r * Real.sin θ * (r * Real.sin θ)) = r := by
  have : r * Real.cos θ * (r * Real.cos θ) + r * Real.sin θ * (r * Real.sin θ) = r * r := by
    nlinarith [Real.sin_sq_add_cos_sq θ]
  rw [this, Real.sqrt_mul_self hr.le]


/-! ### `xyz2blh` off and on the axis -/

theorem xyz2blh_axis (c : Bool) (e : Ellipsoid ℝ) (z : ℝ) :
    xyz2blhWith c e 0 0 z =
      if 0 < z then (π / 2, 0, z - e.Ime2 * e.N (π / 2)) else (-(π / 2), 0, -z - e.Ime2 * e.N (-(π / 2))) := by
  unfold xyz2blhWith
  rw [axisDist_zero]
  simp only [halfPi_real, negHalfPi_real]

theorem xyz2blh_off_axis (c : Bool) (e : Ellipsoid ℝ) {x y : ℝ} (z : ℝ) (h : x ≠ 0 ∨ y ≠ 0) :
    xyz2blhWith c e x y z =
      (e.bowring2 c (Real.sqrt (x * x + y * y)) z (e.bowring1 (Real.sqrt (x * x + y * y)) z),
       Complex.arg ⟨x, y⟩,
       e.heightOf (Real.sqrt (x * x + y * y)) z
         (e.bowring2 c (Real.sqrt (x * x + y * y)) z (e.bowring1 (Real.sqrt (x * x + y * y)) z))) := by
  unfold xyz2blhWith
  rw [axisDist_eq h]
  simp only [transc_atan2_real]

/-- both height formulas return `h` when the latitude is exact -/
theorem heightOf_exact (e : Ellipsoid ℝ) {b h : ℝ} (hc : 0 < Real.cos b) (hn : 0 < e.N b + h) :
    e.heightOf ((e.N b + h) * Real.cos b) ((e.N b * e.Ime2 + h) * Real.sin b) b = h := by
  unfold heightOf
  simp only [scalar_abs_real, transc_cos_real, transc_sin_real]
  split_ifs with hx
  · field_simp; ring
  · have hpos : 0 < (e.N b + h) * Real.cos b := mul_pos hn hc
    have hz : (e.N b * e.Ime2 + h) * Real.sin b ≠ 0 := by
      intro h0; rw [h0] at hx; simp at hx; linarith
    have hs : Real.sin b ≠ 0 := right_ne_zero_of_mul hz
    field_simp; ring

/-! ### Bowring's formula in terms of the parametric latitude (cos u, sin u) = (p, q) -/

/-- first pass, for a point `(x, z) = (a p, b q)` with `p > 0`, `p² + q² = 1` -/
theorem bowring1_param {e : Ellipsoid ℝ} (w : WF e) {p q : ℝ} (hp : 0 < p) (hpq : p * p + q * q = 1) :
    e.bowring1 (e.A * p) (e.B * q) =
      Complex.arg ⟨e.A * p - e.e2 * e.A * (p * p) * p, e.B * q + e.e22 * e.B * (q * q) * q⟩ := by
  have hA := w.hA; have hB := w.hB
  have htan : e.AB * (e.B * q) / (e.A * p) = q / p := by
    rw [w.hAB]; field_simp
  have hcos2 : 1 / (1 + q / p * (q / p)) = p * p := by
    have : p * p + q * q ≠ 0 := by rw [hpq]; exact one_ne_zero
    field_simp
    nlinarith
  have hcos : Real.sqrt (p * p) = p := Real.sqrt_mul_self hp.le
  have hsin2 : 1 - p * p = q * q := by linarith
  have hsin0 : Real.sqrt (q * q) = |q| := Real.sqrt_mul_self_eq_abs q
  have hsign : (if e.B * q < 0 then -|q| else |q|) = q := by
    split_ifs with hz
    · have : q < 0 := by
        by_contra hq; push Not at hq
        have := mul_nonneg hB.le hq; linarith
      rw [abs_of_neg this]; ring
    · push Not at hz
      have : 0 ≤ q := by
        by_contra hq; push Not at hq
        have := mul_neg_of_pos_of_neg hB hq; linarith
      exact abs_of_nonneg this
  unfold bowring1 bowringYX
  simp only [scalar_sqrt_real, transc_atan2_real, htan, hcos2, hcos, hsin2, hsin0, hsign]

/-- second pass, when the `sin u` recomputed from the first latitude is `q` -/
theorem bowring2_param (c : Bool) {e : Ellipsoid ℝ} {p q b : ℝ} (hp : 0 < p) (hpq : p * p + q * q = 1)
    (hq : e.Ime2 * e.N b / e.B * Real.sin b = q) :
    e.bowring2 c (e.A * p) (e.B * q) b =
      Complex.arg ⟨e.A * p - e.e2 * e.A * (p * p) * p, e.B * q + e.e22 * e.B * (q * q) * q⟩ := by
  have hcos2 : 1 - q * q = p * p := by linarith
  have hnn : ¬ (p * p < 0) := not_lt.mpr (mul_self_nonneg p)
  have hcos : Real.sqrt (p * p) = p := Real.sqrt_mul_self hp.le
  unfold bowring2 bowringYX
  simp only [scalar_sqrt_real, transc_atan2_real, transc_sin_real, hq, hcos2]
  cases c <;> simp [hnn, hcos]

/-- on the ellipsoid the parametric latitude of the point at geodetic latitude `b` -/
theorem param_of_lat {e : Ellipsoid ℝ} (w : WF e) (b : ℝ) (hc : 0 < Real.cos b) :
    let p := Real.cos b / e.W b
    let q := e.B * Real.sin b / (e.A * e.W b)
    0 < p ∧ p * p + q * q = 1 ∧ e.N b * Real.cos b = e.A * p ∧ e.N b * e.Ime2 * Real.sin b = e.B * q ∧
      e.Ime2 * e.N b / e.B * Real.sin b = q := by
  intro p q
  have hA := w.hA; have hB := w.hB; have hW := w.W_pos b; have hW2 := w.W_sq b
  have hI := w.Ime2_eq
  have he2 := w.he2
  refine ⟨div_pos hc hW, ?_, ?_, ?_, ?_⟩
  · show Real.cos b / e.W b * (Real.cos b / e.W b) + e.B * Real.sin b / (e.A * e.W b) * (e.B * Real.sin b / (e.A * e.W b)) = 1
    have hsc := Real.sin_sq_add_cos_sq b
    have key : e.A * e.A * (e.W b * e.W b) = e.A * e.A * (Real.cos b * Real.cos b) + e.B * e.B * (Real.sin b * Real.sin b) := by
      rw [hW2, he2]; field_simp; nlinarith
    field_simp
    nlinarith
  · show e.N b * Real.cos b = e.A * (Real.cos b / e.W b)
    rw [N_real]; field_simp
  · show e.N b * e.Ime2 * Real.sin b = e.B * (e.B * Real.sin b / (e.A * e.W b))
    rw [N_real, hI]; field_simp
  · show e.Ime2 * e.N b / e.B * Real.sin b = e.B * Real.sin b / (e.A * e.W b)
    rw [N_real, hI]; field_simp

/-- the pair handed to `atan2` is a positive multiple of (cos b, sin b) -/
theorem bowring_dir {e : Ellipsoid ℝ} (w : WF e) (b : ℝ) (hc : 0 < Real.cos b) :
    let p := Real.cos b / e.W b
    let q := e.B * Real.sin b / (e.A * e.W b)
    let k := e.A * (1 - e.e2 * (p * p)) / e.W b
    0 < k ∧ e.A * p - e.e2 * e.A * (p * p) * p = k * Real.cos b ∧
      e.B * q + e.e22 * e.B * (q * q) * q = k * Real.sin b := by
  intro p q k
  obtain ⟨hp, hpq, -, -, -⟩ := param_of_lat w b hc
  have hA := w.hA; have hB := w.hB; have hW := w.W_pos b
  have he2 := w.he2; have he22 := w.he22
  have h1 := w.e2_nonneg; have h2 := w.e2_lt_one
  have hpp : p * p ≤ 1 := by nlinarith [mul_self_nonneg q]
  have hk : 0 < 1 - e.e2 * (p * p) := by nlinarith [mul_nonneg h1 (mul_self_nonneg p)]
  refine ⟨div_pos (mul_pos hA hk) hW, ?_, ?_⟩
  · show e.A * (Real.cos b / e.W b) - e.e2 * e.A * (p * p) * (Real.cos b / e.W b) = e.A * (1 - e.e2 * (p * p)) / e.W b * Real.cos b
    field_simp
  · -- B²(1 + e'² q²) = A²(1 − e² p²) because p² + q² = 1
    have key : e.B * e.B * (1 + e.e22 * (q * q)) = e.A * e.A * (1 - e.e2 * (p * p)) := by
      rw [he2, he22]; field_simp; nlinarith
    show e.B * (e.B * Real.sin b / (e.A * e.W b)) + e.e22 * e.B * (q * q) * (e.B * Real.sin b / (e.A * e.W b))
        = e.A * (1 - e.e2 * (p * p)) / e.W b * Real.sin b
    have : e.B * (e.B * Real.sin b / (e.A * e.W b)) + e.e22 * e.B * (q * q) * (e.B * Real.sin b / (e.A * e.W b))
        = e.B * e.B * (1 + e.e22 * (q * q)) * Real.sin b / (e.A * e.W b) := by
      field_simp
    rw [this, key]
    field_simp


/-! ### the round-trip statements -/

theorem cos_pos_of_lat {b : ℝ} (hb : b ∈ Set.Ioo (-(π / 2)) (π / 2)) : 0 < Real.cos b :=
  Real.cos_pos_of_mem_Ioo hb

theorem lat_mem_Ioc {b : ℝ} (hb : b ∈ Set.Ioo (-(π / 2)) (π / 2)) : b ∈ Set.Ioc (-π) π := by
  have := Real.pi_pos
  exact ⟨by linarith [hb.1], by linarith [hb.2]⟩

/-- first Bowring pass is exact on the surface -/
theorem bowring1_surface {e : Ellipsoid ℝ} (w : WF e) {b : ℝ} (hb : b ∈ Set.Ioo (-(π / 2)) (π / 2)) :
    e.bowring1 (e.N b * Real.cos b) (e.N b * e.Ime2 * Real.sin b) = b := by
  have hc := cos_pos_of_lat hb
  obtain ⟨hp, hpq, hx, hz, -⟩ := param_of_lat w b hc
  obtain ⟨hk, hX, hY⟩ := bowring_dir w b hc
  rw [hx, hz, bowring1_param w hp hpq, hX, hY]
  exact arg_polar hk (lat_mem_Ioc hb)

/-- second Bowring pass is exact on the surface -/
theorem bowring2_surface (c : Bool) {e : Ellipsoid ℝ} (w : WF e) {b : ℝ} (hb : b ∈ Set.Ioo (-(π / 2)) (π / 2)) :
    e.bowring2 c (e.N b * Real.cos b) (e.N b * e.Ime2 * Real.sin b) b = b := by
  have hc := cos_pos_of_lat hb
  obtain ⟨hp, hpq, hx, hz, hq⟩ := param_of_lat w b hc
  obtain ⟨hk, hX, hY⟩ := bowring_dir w b hc
  rw [hx, hz, bowring2_param c hp hpq hq, hX, hY]
  exact arg_polar hk (lat_mem_Ioc hb)

/-- the point is off the axis when cos b > 0 and N + h > 0 -/
theorem off_axis {e : Ellipsoid ℝ} {b l h : ℝ} (hc : 0 < Real.cos b) (hn : 0 < e.N b + h) :
    (e.N b + h) * Real.cos b * Real.cos l ≠ 0 ∨ (e.N b + h) * Real.cos b * Real.sin l ≠ 0 := by
  have hr : (e.N b + h) * Real.cos b ≠ 0 := (mul_pos hn hc).ne'
  by_contra hcon
  push Not at hcon
  have h1 : Real.cos l = 0 := by
    rcases mul_eq_zero.mp hcon.1 with h | h
    · exact absurd h hr
    · exact h
  have h2 : Real.sin l = 0 := by
    rcases mul_eq_zero.mp hcon.2 with h | h
    · exact absurd h hr
    · exact h
  have := Real.sin_sq_add_cos_sq l
  rw [h1, h2] at this
  norm_num at this

/-- `xyz2blh ∘ blh2xyz` off the poles, with the Bowring result left symbolic -/
theorem xyz2blh_blh2xyz (c : Bool) (e : Ellipsoid ℝ) {b l h : ℝ} (hc : 0 < Real.cos b) (hn : 0 < e.N b + h)
    (hl : l ∈ Set.Ioc (-π) π) :
    xyz2blhWith c e ((e.N b + h) * Real.cos b * Real.cos l) ((e.N b + h) * Real.cos b * Real.sin l)
        ((e.N b * e.Ime2 + h) * Real.sin b) =
      (e.bowring2 c ((e.N b + h) * Real.cos b) ((e.N b * e.Ime2 + h) * Real.sin b)
          (e.bowring1 ((e.N b + h) * Real.cos b) ((e.N b * e.Ime2 + h) * Real.sin b)),
       l,
       e.heightOf ((e.N b + h) * Real.cos b) ((e.N b * e.Ime2 + h) * Real.sin b)
         (e.bowring2 c ((e.N b + h) * Real.cos b) ((e.N b * e.Ime2 + h) * Real.sin b)
          (e.bowring1 ((e.N b + h) * Real.cos b) ((e.N b * e.Ime2 + h) * Real.sin b)))) := by
  have hr : 0 < (e.N b + h) * Real.cos b := mul_pos hn hc
  rw [xyz2blh_off_axis c e _ (off_axis hc hn), sqrt_polar hr, arg_polar hr hl]

end Gama.Ellipsoid
