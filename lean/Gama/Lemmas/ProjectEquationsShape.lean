/-
  PE — the event SHAPE of the regenerated member functions `Gen.Lin.<type>` over ANY scalar type
  (`[TrigScalar K]`): which (role, coordinate) pairs are touched / receive a coefficient, in program
  order, as a function of the class and of the `free_xy()` / `free_z()` bits only.  The values (and the
  regime of `bearing_distance`, the wrap loops, the second face) do not enter.  C05's `touches_of_ok` /
  `pushes_of_ok` are the same facts over ℝ; this file re-proves them without the real-number forms so
  that the structural theorems about `project_equations()` hold over every carrier.
-/
import Gama.Lemmas.LinReal
import Gama.Model.LinPass
namespace Gama.PE
open Gama Gama.Lin

variable {K : Type}

/-- an event without its coefficient: `(isPush, role, coordinate)` -/
def evShape : List (Ev K) → List (Bool × Role × Coord)
  | [] => []
  | .touch r c :: t => (false, r, c) :: evShape t
  | .push r c _ :: t => (true, r, c) :: evShape t

@[simp] theorem evShape_nil : evShape ([] : List (Ev K)) = [] := rfl
@[simp] theorem evShape_touch (r c) (t : List (Ev K)) : evShape (Ev.touch r c :: t) = (false, r, c) :: evShape t := rfl
@[simp] theorem evShape_push (r c) (v : K) (t : List (Ev K)) : evShape (Ev.push r c v :: t) = (true, r, c) :: evShape t := rfl
@[simp] theorem evShape_append (a b : List (Ev K)) : evShape (a ++ b) = evShape a ++ evShape b := by
  induction a with
  | nil => rfl
  | cons e t ih => cases e <;> simp [ih]
@[simp] theorem evShape_ite (b : Bool) (l : List (Ev K)) :
    evShape (if b = true then l else []) = if b = true then evShape l else [] := by
  cases b <;> simp

def xyB (r : Role) (b : Bool) : List (Bool × Role × Coord) :=
  if b = true then [(false, r, .x), (false, r, .y), (true, r, .y), (true, r, .x)] else []
def oneB (r : Role) (c : Coord) (b : Bool) : List (Bool × Role × Coord) :=
  if b = true then [(false, r, c), (true, r, c)] else []

/-- the shape of a class, from the four adjusted bits (`fxy fz` of `from`, `txy tz` of `to`, `sxy` of `fs`) -/
def shapeB (k : Kind) (fxy fz txy tz sxy : Bool) : List (Bool × Role × Coord) :=
  match k with
  | .direction => [(false, .station, .ori), (true, .station, .ori)] ++ xyB .pfrom fxy ++ xyB .pto txy
  | .distance | .azimuth => xyB .pfrom fxy ++ xyB .pto txy
  | .angle => xyB .pfrom fxy ++ xyB .pto txy ++ xyB .pfs sxy
  | .s_distance | .z_angle => xyB .pfrom fxy ++ oneB .pfrom .z fz ++ xyB .pto txy ++ oneB .pto .z tz
  | .h_diff | .zdiff => oneB .pfrom .z fz ++ oneB .pto .z tz
  | .x => oneB .pfrom .x fxy
  | .y => oneB .pfrom .y fxy
  | .z => oneB .pfrom .z fz
  | .xdiff => oneB .pfrom .x fxy ++ oneB .pto .x txy
  | .ydiff => oneB .pfrom .y fxy ++ oneB .pto .y txy

def kindShape (k : Kind) (o : Obs K) : List (Bool × Role × Coord) :=
  shapeB k o.pfrom.free_xy o.pfrom.free_z o.pto.free_xy o.pto.free_z o.pfs.free_xy

/-- **in every regime a member function that returns has the shape of its class** -/
theorem shape_of_ok [TrigScalar K] (k : Kind) (fuel : Nat) (o : Obs K) (out : LinOut K)
    (h : k.lin fuel o = .ok out) : evShape out.evs = kindShape k o := by
  cases k
  case direction =>
    have h' : Gen.Lin.direction fuel o = .ok out := h
    unfold Gen.Lin.direction at h'
    simp only [] at h'
    split at h'
    · cases h'
    · split at h'
      · cases h'
      · injection h' with h'; subst h'
        simp [kindShape, shapeB, xyB]
  case distance =>
    have h' : Gen.Lin.distance fuel o = .ok out := h
    unfold Gen.Lin.distance at h'
    injection h' with h'; subst h'
    simp [kindShape, shapeB, xyB]
  case angle =>
    have h' : Gen.Lin.angle fuel o = .ok out := h
    unfold Gen.Lin.angle at h'
    simp only [] at h'
    split at h'
    · cases h'
    · split at h'
      · cases h'
      · injection h' with h'; subst h'
        simp [kindShape, shapeB, xyB]
  case azimuth =>
    have h' : Gen.Lin.azimuth fuel o = .ok out := h
    unfold Gen.Lin.azimuth at h'
    simp only [] at h'
    split at h'
    · cases h'
    · split at h'
      · cases h'
      · injection h' with h'; subst h'
        simp [kindShape, shapeB, xyB]
  case s_distance =>
    have h' : Gen.Lin.s_distance fuel o = .ok out := h
    unfold Gen.Lin.s_distance at h'
    simp only [] at h'
    split at h'
    · cases h'
    · injection h' with h'; subst h'
      simp [kindShape, shapeB, xyB, oneB]
  case z_angle =>
    have h' : Gen.Lin.z_angle fuel o = .ok out := h
    unfold Gen.Lin.z_angle at h'
    simp only [] at h'
    split at h'
    · cases h'
    · injection h' with h'; subst h'
      simp [kindShape, shapeB, xyB, oneB]
  case h_diff =>
    have h' : Gen.Lin.h_diff fuel o = .ok out := h
    unfold Gen.Lin.h_diff at h'
    injection h' with h'; subst h'
    simp [kindShape, shapeB, oneB]
  case x =>
    have h' : Gen.Lin.x fuel o = .ok out := h
    unfold Gen.Lin.x at h'
    injection h' with h'; subst h'
    simp [kindShape, shapeB, oneB]
  case y =>
    have h' : Gen.Lin.y fuel o = .ok out := h
    unfold Gen.Lin.y at h'
    injection h' with h'; subst h'
    simp [kindShape, shapeB, oneB]
  case z =>
    have h' : Gen.Lin.z fuel o = .ok out := h
    unfold Gen.Lin.z at h'
    injection h' with h'; subst h'
    simp [kindShape, shapeB, oneB]
  case xdiff =>
    have h' : Gen.Lin.xdiff fuel o = .ok out := h
    unfold Gen.Lin.xdiff at h'
    injection h' with h'; subst h'
    simp [kindShape, shapeB, oneB]
  case ydiff =>
    have h' : Gen.Lin.ydiff fuel o = .ok out := h
    unfold Gen.Lin.ydiff at h'
    injection h' with h'; subst h'
    simp [kindShape, shapeB, oneB]
  case zdiff =>
    have h' : Gen.Lin.zdiff fuel o = .ok out := h
    unfold Gen.Lin.zdiff at h'
    injection h' with h'; subst h'
    simp [kindShape, shapeB, oneB]

/-! ### facts that follow from the shape alone -/

/-- `wellTouched` on shapes -/
def wellTouchedS : List (Bool × Role × Coord) → List (Role × Coord) → Bool
  | [], _ => true
  | (false, r, c) :: t, seen => wellTouchedS t ((r, c) :: seen)
  | (true, r, c) :: t, seen => decide ((r, c) ∈ seen) && wellTouchedS t seen

theorem wellTouched_eq (evs : List (Ev K)) : ∀ seen, wellTouched evs seen = wellTouchedS (evShape evs) seen := by
  induction evs with
  | nil => intro seen; rfl
  | cons e t ih =>
    intro seen
    cases e with
    | touch r c => exact ih _
    | push r c v => simp only [wellTouched, evShape_push, wellTouchedS, ih]

theorem shapeB_wellTouched (k : Kind) (a b c d e : Bool) : wellTouchedS (shapeB k a b c d e) [] = true := by
  cases k <;> cases a <;> cases b <;> cases c <;> cases d <;> cases e <;> rfl

/-- the adjusted bit that guards a (role, coordinate) pair -/
def freeB (fxy fz txy tz sxy : Bool) : Role × Coord → Bool
  | (.station, .ori) => true
  | (.pfrom, .x) | (.pfrom, .y) => fxy
  | (.pfrom, .z) => fz
  | (.pto, .x) | (.pto, .y) => txy
  | (.pto, .z) => tz
  | (.pfs, .x) | (.pfs, .y) => sxy
  | _ => false

theorem shapeB_free (k : Kind) (a b c d e : Bool) : ∀ x ∈ shapeB k a b c d e, freeB a b c d e x.2 = true := by
  cases k <;> cases a <;> cases b <;> cases c <;> cases d <;> cases e <;> decide

/-- the roles (points) a class refers to with a coefficient -/
def pointRoles : Kind → List Role
  | .angle => [.pfrom, .pto, .pfs]
  | .x | .y | .z => [.pfrom]
  | _ => [.pfrom, .pto]

/-- the pushes of a shape -/
def pushesS (l : List (Bool × Role × Coord)) : List (Role × Coord) := (l.filter (·.1)).map (·.2)
def touchesS (l : List (Bool × Role × Coord)) : List (Role × Coord) := (l.filter (fun x => !x.1)).map (·.2)

theorem shapeB_pushes_nodup (k : Kind) (a b c d e : Bool) : (pushesS (shapeB k a b c d e)).Nodup := by
  cases k <;> cases a <;> cases b <;> cases c <;> cases d <;> cases e <;> decide

theorem shapeB_pushes_roles (k : Kind) (a b c d e : Bool) :
    ∀ x ∈ pushesS (shapeB k a b c d e), x = (.station, .ori) ∨ (x.1 ∈ pointRoles k ∧ x.2 ≠ .ori) := by
  cases k <;> cases a <;> cases b <;> cases c <;> cases d <;> cases e <;> decide

/-- a direction touches (and pushes) its orientation unknown first -/
theorem shapeB_direction_ori (a b c d e : Bool) :
    (false, Role.station, Coord.ori) ∈ shapeB .direction a b c d e := by
  simp [shapeB]

theorem shapeB_ori_direction (k : Kind) (a b c d e : Bool) :
    ∀ x ∈ shapeB k a b c d e, x.2.2 = .ori → k = .direction ∧ x.2.1 = .station := by
  cases k <;> cases a <;> cases b <;> cases c <;> cases d <;> cases e <;> decide

theorem pushes_map_shape (evs : List (Ev K)) :
    (pushes evs).map (fun p => (p.1, p.2.1)) = pushesS (evShape evs) := by
  induction evs with
  | nil => rfl
  | cons e t ih =>
    cases e with
    | touch r c => simpa [pushesS, pushes] using ih
    | push r c v => simpa [pushesS, pushes] using ih

theorem touches_shape (evs : List (Ev K)) : touches evs = touchesS (evShape evs) := by
  induction evs with
  | nil => rfl
  | cons e t ih =>
    cases e with
    | touch r c => simp [touches, touchesS, ih]
    | push r c v => simpa [touches, touchesS] using ih

end Gama.PE
