/-
  C04 round 3 (after repo 65eea33) — the caller-visible configuration `cfg` of the envelope machine:
  queries and `reset` never change it, `min_x…` set it; a list marked `min_x_default` is the list of all
  parameters of the current system (`MD`).  These facts need no invariant.  Core Lean only.
-/
import Gama.Model.EnvHist
import Gama.Lemmas.EnvState
namespace Gama.C04
open Gama

/-- the two fields `cfg` and `MD` look at are untouched -/
def SameCfg (a b : EnvState) : Prop := a.minx = b.minx ∧ a.minxDef = b.minxDef

theorem SameCfg.trans {a b c : EnvState} (h1 : SameCfg a b) (h2 : SameCfg b c) : SameCfg a c :=
  ⟨h1.1.trans h2.1, h1.2.trans h2.2⟩

theorem setStage_cfg (s : EnvState) (st : Nat) : SameCfg (setStage s st) s := by
  unfold setStage; split <;> exact ⟨rfl, rfl⟩

theorem solveOrdering_cfg (s : EnvState) : SameCfg (solveOrdering s) s := by
  unfold solveOrdering; split
  · exact ⟨rfl, rfl⟩
  · exact setStage_cfg s 1

theorem solveX0_cfg (s : EnvState) : SameCfg (solveX0 s) s := by
  unfold solveX0; split
  · exact ⟨rfl, rfl⟩
  · exact (setStage_cfg _ 2).trans (solveOrdering_cfg s)

theorem ensureX0_cfg (s : EnvState) : SameCfg (ensureX0 s) s := by
  unfold ensureX0; split
  · exact solveX0_cfg s
  · exact ⟨rfl, rfl⟩

theorem solveQ0_cfg (s : EnvState) : SameCfg (solveQ0 s) s := by
  unfold solveQ0; split
  · exact (setStage_cfg _ 3).trans (ensureX0_cfg s)
  · exact ⟨rfl, rfl⟩

theorem ensureQ0_cfg (s : EnvState) : SameCfg (ensureQ0 s) s := by
  unfold ensureQ0; split
  · exact solveQ0_cfg s
  · exact ⟨rfl, rfl⟩

theorem cached_cfg (s : EnvState) (k : Int) (f : Prov) : SameCfg (cached s k f).1 s := by
  unfold cached
  split
  · split <;> exact ⟨rfl, rfl⟩
  · exact ⟨rfl, rfl⟩

/-- `s'` keeps the caller's configuration of `s`, and the marker stays truthful -/
def Good (inp : EnvInput) (s s' : EnvState) : Prop := (MD inp s → MD inp s') ∧ cfg s' = cfg s

theorem Good.of_same {inp : EnvInput} {s s' : EnvState} (h : SameCfg s' s) : Good inp s s' := by
  refine ⟨fun hm hd => ?_, ?_⟩
  · rw [h.1]; exact hm (h.2 ▸ hd)
  · unfold cfg; rw [h.1, h.2]

theorem Good.trans {inp : EnvInput} {a b c : EnvState} (h1 : Good inp a b) (h2 : Good inp b c) : Good inp a c :=
  ⟨fun hm => h2.1 (h1.1 hm), h2.2.trans h1.2⟩

theorem mat_good (inp : EnvInput) (s : EnvState) : Good inp s (mat inp s) := by
  unfold mat
  cases hm : s.minx with
  | none =>
    refine ⟨fun _ _ => by simp, ?_⟩
    simp [cfg, hm]
  | some l => simp only [Option.isNone_some]; exact Good.of_same ⟨rfl, rfl⟩

theorem preX_good (inp : EnvInput) (s : EnvState) : Good inp s (preX inp s) := by
  unfold preX; split
  · exact (mat_good inp s).trans (Good.of_same (solveX0_cfg _))
  · exact mat_good inp s

theorem solveX_good (inp : EnvInput) (s : EnvState) : Good inp s (solveX inp s).1 := by
  unfold solveX
  dsimp only
  split
  · split
    · exact (preX_good inp s).trans (Good.of_same ⟨rfl, rfl⟩)
    · split
      · exact (preX_good inp s).trans (Good.of_same ⟨rfl, rfl⟩)
      · exact (preX_good inp s).trans (Good.of_same ⟨rfl, rfl⟩)
  · exact Good.of_same ⟨rfl, rfl⟩

theorem q0xx_same (inp : EnvInput) (s : EnvState) (i j : Nat) : SameCfg (q0xx inp s i j).1 s := by
  unfold q0xx
  simp only []
  split
  · exact ensureQ0_cfg s
  · split
    · exact ensureQ0_cfg s
    · exact (cached_cfg _ _ _).trans (ensureQ0_cfg s)

/-- what the next configuration is -/
def nextCfg (c : Option (List Nat)) : Op → Option (List Nat)
  | .minx l => some l
  | .minxAll => none
  | _ => c

theorem reset_md (inp' : EnvInput) (s : EnvState) : MD inp' (reset s) ∧ cfg (reset s) = cfg s := by
  constructor
  · intro hd; simp [reset, setStage] at hd
  · simp [reset, setStage, cfg]

/-- every call keeps the marker truthful and changes the configuration only through `min_x…` -/
theorem step_cfg (inp : EnvInput) (s : EnvState) (op : Op) (hm : MD inp s) :
    MD inp (step inp s op).1 ∧ cfg (step inp s op).1 = nextCfg (cfg s) op := by
  have fin : ∀ {s' : EnvState}, Good inp s s' → MD inp s' ∧ cfg s' = cfg s := fun g => ⟨g.1 hm, g.2⟩
  cases op with
  | unknowns =>
    simp only [step, nextCfg]
    have := fin (solveX_good inp s)
    split <;> (try split) <;> exact this
  | residuals =>
    simp only [step, nextCfg]
    split
    · exact fin ((Good.of_same (ensureX0_cfg s)).trans (Good.of_same ⟨rfl, rfl⟩))
    · exact fin (Good.of_same ⟨rfl, rfl⟩)
  | sumsq => simp only [step, nextCfg]; exact fin (Good.of_same (ensureX0_cfg s))
  | defect => simp only [step, nextCfg]; exact fin (Good.of_same (ensureX0_cfg s))
  | lindep i => simp only [step, nextCfg]; exact fin (Good.of_same (ensureX0_cfg s))
  | q0xx i j => simp only [step, nextCfg]; exact fin (Good.of_same (q0xx_same inp s i j))
  | qxx i j =>
    simp only [step, nextCfg]
    split
    · exact fin (Good.of_same ((q0xx_same inp _ i j).trans (ensureQ0_cfg s)))
    · have g1 : Good inp s (solveX inp (ensureQ0 s)).1 :=
        (Good.of_same (ensureQ0_cfg s)).trans (solveX_good inp _)
      split
      · exact fin g1
      · split
        · exact fin g1
        · exact fin (g1.trans (Good.of_same ((cached_cfg _ _ _).trans (cached_cfg _ _ _))))
  | qbb i j =>
    simp only [step, nextCfg]
    have g1 : Good inp s (ensureQ0 s) := Good.of_same (ensureQ0_cfg s)
    split
    · exact fin g1
    · split
      · exact fin g1
      · split <;> (split <;> exact fin (g1.trans (Good.of_same ⟨rfl, rfl⟩)))
  | minxAll =>
    refine ⟨fun hd => ?_, ?_⟩
    · simp [step] at hd
    · simp [step, cfg, nextCfg]
  | minx l =>
    refine ⟨fun hd => ?_, ?_⟩
    · simp [step] at hd
    · simp [step, cfg, nextCfg]
  | reset => exact reset_md inp s

end Gama.C04
