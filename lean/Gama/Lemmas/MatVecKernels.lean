/-
  Source tie of the matvec operator LOOPS: every regenerated kernel of Gen/MatVecKernels.lean (one Lean line per
  C++ statement, pointers walking the operands) EQUALS the closed-form hand model of Model/MatVec.lean that
  `drv_matvec` executes next to the C++ — for all operands, conforming or not, in bounds or not.  The proofs
  resolve the pointer walks (`forE_acc` + `walk_add*`: `ai = ab + k·stride`) and the sequential stores
  (`fill_fresh`).  A changed loop bound, stride, start offset, operand order or guard in the C++ changes the
  regenerated definition and breaks the equation.
-/
import Gama.Gen.MatVecKernels
import Gama.Lemmas.KernelLoops
namespace Gama.MatVec
open Gama.Gen
variable {K : Type}

/-- accumulation without pointer state: `s = 0; for …: s += g i` -/
theorem forE_acc0 [Add K] [Zero K] (lo n : Nat) (g : Nat → Except Err K) :
    forE lo n (0 : K) (fun k s => g k >>= fun x => pure (s + x)) = sumLoop n (fun k => g (lo + k)) := by
  induction n with
  | zero => rfl
  | succ n ih =>
    simp only [forE, ih, sumLoop]
    cases sumLoop n (fun k => g (lo + k)) with
    | error e => rfl
    | ok s =>
      simp only [bind, Except.bind, pure, Except.pure]
      cases g (lo + n) <;> rfl

/-- stores through the accessor `t(i) = g i`, `i = 1..n`, into a fresh `Vec t(n)` -/
theorem fill_idx [Zero K] (n : Nat) (g : Nat → Except Err K) :
    forE 1 n (mkBuf n : Array K) (fun i t => g i >>= fun x => wr t (i - 1) x >>= fun t' => pure t')
      = tabulate n (fun k => g (1 + k)) := by
  have key : ∀ m r, m ≤ r →
      forE 1 m (Array.replicate r (0 : K)) (fun i t => g i >>= fun x => wr t (i - 1) x >>= fun t' => pure t')
        = tabulate m (fun k => g (1 + k)) >>= fun a => pure (a ++ Array.replicate (r - m) (0 : K)) := by
    intro m r hm
    induction m with
    | zero => simp [forE, tabulate, bind, Except.bind, pure, Except.pure]
    | succ m ih =>
      simp only [forE, ih (by omega), tabulate]
      cases hT : tabulate m (fun k => g (1 + k)) with
      | error e => rfl
      | ok a =>
        simp only [bind, Except.bind, pure, Except.pure]
        cases g (1 + m) with
        | error e => rfl
        | ok x =>
          have hsz : a.size = m := tabulate_size _ _ _ hT
          obtain ⟨q, hq⟩ : ∃ q, r - m = q + 1 := ⟨r - m - 1, by omega⟩
          have hq' : r - (m + 1) = q := by omega
          have hlt : 1 + m - 1 < (a ++ Array.replicate (q + 1) (0 : K)).size := by simp [hsz]
          rw [hq, hq']
          simp only [wr, hlt, if_true]
          have := set_fresh (K := K) #[] a q x
          simp only [Array.empty_append, Array.size_empty, Nat.zero_add] at this
          have e1 : 1 + m - 1 = a.size := by omega
          rw [e1, this]
  have := key n n (Nat.le_refl n)
  rw [mkBuf, this]
  cases tabulate n (fun k => g (1 + k)) with
  | error e => rfl
  | ok a => simp [bind, Except.bind, pure, Except.pure]

section
variable [Add K] [Mul K] [Zero K]

/-- `operator*(const Mat&, const Vec&)` (vec.h): `*ai++ * *bi++`, `*ti++ = s` -/
theorem gen_matMulVec (A : Mat K) (b : Vec K) : MV.matMulVec A b = matMulVec A b := by
  unfold MV.matMulVec matMulVec
  split
  · rfl
  · simp only [Nat.add_sub_cancel]
    have inner : ∀ (ai : Nat), forE 1 A.cols ((0:K), 0, ai) (fun j st => do
          let x ← mulRd A.data st.2.2 b st.2.1
          pure (st.1 + x, st.2.1 + 1, st.2.2 + 1))
        = (sumLoop A.cols (fun k => mulRd A.data (ai + k) b k)) >>= fun s => pure (s, A.cols, ai + A.cols) := by
      intro ai
      have := forE_acc (K := K) 1 A.cols (0, ai) (fun _ t => mulRd A.data t.2 b t.1) (fun _ t => (t.1 + 1, t.2 + 1))
      simp only [walk_add2, Nat.mul_one, Nat.zero_add] at this
      exact this
    simp only [inner, bind_assoc, pure_bind]
    have outer := fill_fresh (K := K) 1 A.rows 0 (fun _ ai => sumLoop A.cols (fun k => mulRd A.data (ai + k) b k)) (fun _ ai => ai + A.cols)
    simp only [walk_add1, Nat.zero_add] at outer
    rw [outer]
    simp only [bind_assoc, pure_bind, bind_pure]

/-- `operator*(const TransMat&, const Vec&)` (transmat.h): `ai = ab`, `ai += A.rows()`, `ab++` -/
theorem gen_tMulVec (A : TMat K) (b : Vec K) : MV.tMulVec A b = tMulVec A b := by
  unfold MV.tMulVec tMulVec
  split
  · rfl
  · simp only [Nat.add_sub_cancel]
    have inner : ∀ (ab : Nat), forE 1 A.cols ((0:K), 0, ab) (fun j st => do
          let x ← mulRd A.data st.2.2 b st.2.1
          pure (st.1 + x, st.2.1 + 1, st.2.2 + A.rows))
        = (sumLoop A.cols (fun k => mulRd A.data (ab + k * A.rows) b k)) >>= fun s => pure (s, A.cols, ab + A.cols * A.rows) := by
      intro ab
      have := forE_acc (K := K) 1 A.cols (0, ab) (fun _ t => mulRd A.data t.2 b t.1) (fun _ t => (t.1 + 1, t.2 + A.rows))
      simp only [walk_add2, Nat.mul_one, Nat.zero_add] at this
      exact this
    simp only [inner, bind_assoc, pure_bind]
    have outer := fill_fresh (K := K) 1 A.rows 0 (fun _ ab => sumLoop A.cols (fun k => mulRd A.data (ab + k * A.rows) b k)) (fun _ ab => ab + 1)
    simp only [walk_add1, Nat.zero_add, Nat.mul_one] at outer
    rw [outer]
    simp only [bind_assoc, pure_bind, bind_pure]

/-- `operator*(const Vec&, const TransMat&)` (transmat.h) AS CODED (known finding C15-vec-transmat): guard
    `A.rows() != b.dim()`, result of dimension `A.rows()`, stride `a_cols`, `j ≤ a_cols` -/
theorem gen_vecMulT (b : Vec K) (A : TMat K) : MV.vecMulT b A = vecMulT b A := by
  unfold MV.vecMulT vecMulT
  split
  · rfl
  · simp only [Nat.add_sub_cancel]
    have inner : ∀ (ab : Nat), forE 1 A.cols ((0:K), 0, ab) (fun j st => do
          let x ← mulRd A.data st.2.2 b st.2.1
          pure (st.1 + x, st.2.1 + 1, st.2.2 + A.cols))
        = (sumLoop A.cols (fun k => mulRd A.data (ab + k * A.cols) b k)) >>= fun s => pure (s, A.cols, ab + A.cols * A.cols) := by
      intro ab
      have := forE_acc (K := K) 1 A.cols (0, ab) (fun _ t => mulRd A.data t.2 b t.1) (fun _ t => (t.1 + 1, t.2 + A.cols))
      simp only [walk_add2, Nat.mul_one, Nat.zero_add] at this
      exact this
    simp only [inner, bind_assoc, pure_bind]
    have outer := fill_fresh (K := K) 1 A.rows 0 (fun _ ab => sumLoop A.cols (fun k => mulRd A.data (ab + k * A.cols) b k)) (fun _ ab => ab + 1)
    simp only [walk_add1, Nat.zero_add, Nat.mul_one] at outer
    rw [outer]
    simp only [bind_assoc, pure_bind, bind_pure]

/-- `operator*(const TransVec&, const Mat&)` (transvec.h): `ai = aj`, `ai += a_cols`, `i < a_rows`, `aj++` -/
theorem gen_tvecMulMat (b : Vec K) (A : Mat K) : MV.tvecMulMat b A = tvecMulMat b A := by
  unfold MV.tvecMulMat tvecMulMat
  split
  · rfl
  · simp only [Nat.add_sub_cancel, Nat.sub_zero]
    have inner : ∀ (aj : Nat), forE 0 A.rows ((0:K), 0, aj) (fun i st => do
          let x ← mulRd b st.2.1 A.data st.2.2
          pure (st.1 + x, st.2.1 + 1, st.2.2 + A.cols))
        = (sumLoop A.rows (fun k => mulRd b k A.data (aj + k * A.cols))) >>= fun s => pure (s, A.rows, aj + A.rows * A.cols) := by
      intro aj
      have := forE_acc (K := K) 0 A.rows (0, aj) (fun _ t => mulRd b t.1 A.data t.2) (fun _ t => (t.1 + 1, t.2 + A.cols))
      simp only [walk_add2, Nat.mul_one, Nat.zero_add] at this
      exact this
    simp only [inner, bind_assoc, pure_bind]
    have outer := fill_fresh (K := K) 1 A.cols 0 (fun _ aj => sumLoop A.rows (fun k => mulRd b k A.data (aj + k * A.cols))) (fun _ aj => aj + 1)
    simp only [walk_add1, Nat.zero_add, Nat.mul_one] at outer
    rw [outer]
    simp only [bind_assoc, pure_bind, bind_pure]

/-- `operator*(const MatBase&, const Vec&)` (vec.h): `s += A(i,j)*b(j)`, `t(i) = s` through the accessors -/
theorem gen_mbMulVec (A : MB K) (b : Vec K) : MV.mbMulVec A b = mbMulVec A b := by
  unfold MV.mbMulVec mbMulVec
  split
  · rfl
  · simp only [Nat.add_sub_cancel]
    have inner : ∀ (i : Nat), forE 1 A.cols (0:K) (fun j st => do
          let x ← getMulVec A b i j
          pure (st + x))
        = sumLoop A.cols (fun k => getMulVec A b i (1 + k)) := fun i => forE_acc0 1 A.cols (fun j => getMulVec A b i j)
    simp only [inner]
    have outer := fill_idx (K := K) A.rows (fun i => sumLoop A.cols (fun k => getMulVec A b i (1 + k)))
    simp only [bind_pure] at outer ⊢
    rw [outer]
    simp only [getMulVec, Nat.add_comm 1, Nat.add_sub_cancel]
    rfl

/-- `operator*(const TransVec&, const MatBase&)` (transvec.h): `s += b(i)*A(i,j)`, `i ≤ A.rows()`, `t(j) = s` -/
theorem gen_tvecMulMB (b : Vec K) (A : MB K) : MV.tvecMulMB b A = tvecMulMB b A := by
  unfold MV.tvecMulMB tvecMulMB
  split
  · rfl
  · simp only [Nat.add_sub_cancel]
    have inner : ∀ (j : Nat), forE 1 A.rows (0:K) (fun i st => do
          let x ← vecMulGet b A i j
          pure (st + x))
        = sumLoop A.rows (fun k => vecMulGet b A (1 + k) j) := fun j => forE_acc0 1 A.rows (fun i => vecMulGet b A i j)
    simp only [inner]
    have outer := fill_idx (K := K) A.cols (fun j => sumLoop A.rows (fun k => vecMulGet b A (1 + k) j))
    simp only [bind_pure] at outer ⊢
    rw [outer]
    simp only [vecMulGet, Nat.add_comm 1, Nat.add_sub_cancel]
    rfl

/-- `VecBase::dot` (vecbase.h): `while (a != e) sum += *a++ * *b++` -/
theorem gen_dot (a b : Vec K) : MV.dot a b = dot a b := by
  unfold MV.dot dot
  split
  · rfl
  · simp only [Nat.sub_zero]
    have := forE_acc (K := K) 0 a.size (0, 0) (fun _ t => mulRd a t.1 b t.2) (fun _ t => (t.1 + 1, t.2 + 1))
    simp only [walk_add2, Nat.mul_one, Nat.zero_add] at this
    simp only [this, bind_assoc, pure_bind, bind_pure]

end
end Gama.MatVec
