/-
  C05, clause 5 — the hypotheses `hx`, `hy` of `C05_azimuth_rhs_geographic` ("the record holds gama's internal
  coordinates: `dX = comp xDir`, `dY = ySign · comp yDir`") DERIVED from the input stage
  (`Model/Input.lean`: `Input.Net`, `consistent`, `changeYSigns`, `removeInconsistency`; C07's model, read-only).

  What is NOT derivable and stays a hypothesis, because it is the definition of the file format: a point at
  ground position (E, N) is written in the input file with `x = comp cs.xDir E N`, `y = comp cs.yDir E N` —
  its components along the two compass directions the `axes-xy` code names (`FileCoords`).
  From there: `remove_inconsistency` negates the y of every point with xy iff the handedness of axes and angles
  disagree (`removed_inconsistency_` is false after parsing), so every internal point has `x = comp xDir E N`,
  `y = ySign · comp yDir E N`; `comp` is linear, so the internal differences are the components of the ground
  displacement — `hx`, `hy`.

  Two vocabularies meet here: `Input.consistent cs lh` takes the LEFT-handedness of the angles (gkfparser's
  attribute), `Gen.XNorth.consistent cs rh` (regenerated from network.cpp / angobs.h) the RIGHT-handedness;
  `consistent_agree`: they are one predicate with `rh = !lh`.
-/
import Gama.Lemmas.LinXNorth
import Gama.Model.Input
import Gama.Model.LinPass
namespace Gama.Lin
open Real

/-- `comp` is linear: the component of a difference is the difference of the components -/
theorem comp_sub (d : Dir) (E₁ N₁ E₂ N₂ : ℝ) : comp d E₂ N₂ - comp d E₁ N₁ = comp d (E₂ - E₁) (N₂ - N₁) := by
  cases d <;> simp [comp] <;> ring

/-- the hand-written `LocalNetwork::consistent` of the input model (argument: left-handed angles) is the
    regenerated one (argument: right-handed angles) -/
theorem consistent_agree (cs : CS) (lh : Bool) : Input.consistent cs lh = Gen.XNorth.consistent cs (!lh) := by
  cases cs <;> cases lh <;> rfl

/-- `LocalNetwork::y_sign` of the input model = the `ySign` of the azimuth theorem -/
theorem ySign_agree (cs : CS) (lh : Bool) : (Input.ySign cs lh : ℝ) = ySign cs (!lh) := by
  unfold Input.ySign ySign
  rw [consistent_agree]
  split <;> simp

/-- THE FILE FORMAT (definition, not derivable): the point at position `i` of the input, when it has xy, holds
    the components of its ground position `(E i, N i)` along the declared axes -/
def FileCoords (n : Input.Net ℝ) (E N : Nat → ℝ) : Prop :=
  ∀ i p, n.points[i]? = some p → p.hasXY = true → p.x = comp n.cs.xDir (E i) (N i) ∧ p.y = comp n.cs.yDir (E i) (N i)

/-- what `remove_inconsistency` does to the points of a freshly parsed network (`removed = false`): position,
    `test_xy()`, x and z kept; y multiplied by `y_sign()` for the points with xy -/
theorem removeInconsistency_point (n : Input.Net ℝ) (hrem : n.removed = false) (i : Nat) (p' : Input.NetPoint ℝ)
    (h : (Input.removeInconsistency n).points[i]? = some p') :
    ∃ p, n.points[i]? = some p ∧ p'.hasXY = p.hasXY ∧ p'.x = p.x ∧ p'.z = p.z ∧
      (p.hasXY = true → p'.y = ySign n.cs (!n.leftHandedAngles) * p.y) := by
  unfold Input.removeInconsistency at h
  by_cases hc : Input.consistent n.cs n.leftHandedAngles = true
  · rw [if_pos hc] at h
    refine ⟨p', h, rfl, rfl, rfl, fun _ => ?_⟩
    have : Gen.XNorth.consistent n.cs (!n.leftHandedAngles) = true := by rw [← consistent_agree]; exact hc
    simp [ySign, this]
  · rw [if_neg hc, hrem] at h
    simp only [Bool.false_eq_true, if_false, Input.changeYSigns, List.getElem?_map] at h
    cases hp : n.points[i]? with
    | none => rw [hp] at h; exact absurd h (by simp)
    | some p =>
      rw [hp] at h
      simp only [Option.map_some, Option.some.injEq] at h
      have hn : Gen.XNorth.consistent n.cs (!n.leftHandedAngles) = false := by
        rw [← consistent_agree]; simpa using hc
      refine ⟨p, rfl, ?_⟩
      subst h
      cases hxy : p.hasXY <;> simp [ySign, hn, hxy]

/-- **`hx`, `hy` derived**: after `remove_inconsistency` the internal coordinate differences between two points
    with xy are the components of the ground displacement, y with the sign `y_sign()` -/
theorem internal_differences (n : Input.Net ℝ) (hrem : n.removed = false) (E N : Nat → ℝ) (hfile : FileCoords n E N)
    (i j : Nat) (pi pj : Input.NetPoint ℝ)
    (hi : (Input.removeInconsistency n).points[i]? = some pi) (hj : (Input.removeInconsistency n).points[j]? = some pj)
    (hxi : pi.hasXY = true) (hxj : pj.hasXY = true) :
    pj.x - pi.x = comp n.cs.xDir (E j - E i) (N j - N i) ∧
    pj.y - pi.y = ySign n.cs (!n.leftHandedAngles) * comp n.cs.yDir (E j - E i) (N j - N i) := by
  obtain ⟨qi, hqi, hhi, hxi', -, hyi⟩ := removeInconsistency_point n hrem i pi hi
  obtain ⟨qj, hqj, hhj, hxj', -, hyj⟩ := removeInconsistency_point n hrem j pj hj
  rw [hhi] at hxi; rw [hhj] at hxj
  obtain ⟨fxi, fyi⟩ := hfile i qi hqi hxi
  obtain ⟨fxj, fyj⟩ := hfile j qj hqj hxj
  rw [hxi', hxj', hyi hxi, hyj hxj, fxi, fxj, fyi, fyj, ← comp_sub, ← comp_sub]
  exact ⟨rfl, by ring⟩

/-- the network the pass reads holds the internal points (`PD[id]` after `remove_inconsistency`) -/
def ReadsInternal (σ : Net ℝ) (n : Input.Net ℝ) : Prop :=
  ∀ i p, (Input.removeInconsistency n).points[i]? = some p → p.hasXY = true → (σ.pt i).x = p.x ∧ (σ.pt i).y = p.y

/-- `C05_azimuth_rhs_geographic` with `hx`, `hy` discharged by the input stage -/
theorem azimuth_rhs_geographic_from_input (n : Input.Net ℝ) (hrem : n.removed = false) (E N : Nat → ℝ)
    (hfile : FileCoords n E N) (σ : Net ℝ) (hσ : ReadsInternal σ n) (ob : NObs ℝ)
    (pi pj : Input.NetPoint ℝ)
    (hi : (Input.removeInconsistency n).points[ob.pfrom]? = some pi) (hj : (Input.removeInconsistency n).points[ob.pto]? = some pj)
    (hxi : pi.hasXY = true) (hxj : pj.hasXY = true)
    (hN : σ.xNorth = Gen.XNorth.xNorthAngle n.cs (!n.leftHandedAngles))
    (α : ℝ) (hα : IsPolarAngle (N ob.pto - N ob.pfrom) (E ob.pto - E ob.pfrom) α)
    (fuel : Nat) (out : LinOut ℝ) (h : ¬ hdist (σ.view ob) < CUT) (hok : Gen.Lin.azimuth fuel (σ.view ob) = .ok out) :
    IsWrapOf (((σ.view ob).value - (if (!n.leftHandedAngles) then -α else α)) * R2CC) out.rhs := by
  obtain ⟨dx, dy⟩ := internal_differences n hrem E N hfile ob.pfrom ob.pto pi pj hi hj hxi hxj
  obtain ⟨ax, ay⟩ := hσ ob.pfrom pi hi hxi
  obtain ⟨bx, by'⟩ := hσ ob.pto pj hj hxj
  refine azimuth_rhs_geographic n.cs (!n.leftHandedAngles) (E ob.pto - E ob.pfrom) (N ob.pto - N ob.pfrom) α fuel
    (σ.view ob) out ?_ ?_ hN hα h hok
  · rw [← dx]; simp [dX, Net.view, ax, bx]
  · rw [← dy]; simp [dY, Net.view, ay, by']

/-! ### a concrete instance: axes `en`, left-handed angles (inconsistent → y mirrored), a line due north of 100 m -/

noncomputable def exIn : Input.Net ℝ :=
  { cs := .EN, leftHandedAngles := true, removed := false,
    points := [⟨true, 0, 0, 0⟩, ⟨true, 0, 100, 0⟩], clusters := [] }
noncomputable def exInE : Nat → ℝ := fun _ => 0
noncomputable def exInN : Nat → ℝ := fun i => if i = 1 then 100 else 0
noncomputable def exInσ : Net ℝ :=
  { pt := fun i => if i = 1 then ⟨0, -100, 0, .free, .free⟩ else ⟨0, 0, 0, .free, .free⟩, ori := fun _ => 0,
    xNorth := Gen.XNorth.xNorthAngle .EN false }
noncomputable def exInOb : NObs ℝ := ⟨.azimuth, 0, 0, 1, 0, 0⟩

theorem exIn_removed : (Input.removeInconsistency exIn).points = [⟨true, 0, 0, 0⟩, ⟨true, 0, -100, 0⟩] := by
  have hc : Input.consistent CS.EN true = false := rfl
  simp [Input.removeInconsistency, hc, exIn, Input.changeYSigns]

theorem exIn_file : FileCoords exIn exInE exInN := by
  intro i p h _
  rcases i with _ | _ | i
  · simp [exIn] at h; subst h; simp [exIn, comp, CS.xDir, CS.yDir, exInE, exInN]
  · simp [exIn] at h; subst h; simp [exIn, comp, CS.xDir, CS.yDir, exInE, exInN]
  · simp [exIn] at h

theorem exIn_reads : ReadsInternal exInσ exIn := by
  intro i p h _
  rw [exIn_removed] at h
  rcases i with _ | _ | i
  · simp at h; subst h; simp [exInσ]
  · simp at h; subst h; simp [exInσ]
  · simp at h

theorem exIn_hdist : ¬ hdist (exInσ.view exInOb) < CUT := by
  have : hdist (exInσ.view exInOb) = 100 := by
    simp [hdist, dX, dY, Net.view, exInσ, exInOb]
  rw [this]; unfold CUT; norm_num

theorem exIn_points : (Input.removeInconsistency exIn).points[exInOb.pfrom]? = some ⟨true, 0, 0, 0⟩ ∧
    (Input.removeInconsistency exIn).points[exInOb.pto]? = some ⟨true, 0, -100, 0⟩ := by
  rw [exIn_removed]; exact ⟨rfl, rfl⟩

theorem exIn_alpha : IsPolarAngle (exInN exInOb.pto - exInN exInOb.pfrom) (exInE exInOb.pto - exInE exInOb.pfrom) 0 := by
  simp [exInN, exInE, exInOb, IsPolarAngle]

end Gama.Lin
