/-
  C06 — `refine_obsdh_reductions` (both modes) and the loop of `refine_adjustment`, over ℝ.

  `Gama/Gen/RefineObsdh.lean` (regenerated from test_linearization_visitor.cpp / network.cpp on every run) holds the
  arithmetic of the two branches and the list of tests; `Gama/Model/RefineAdjustment.lean` the loops.  Here:

    * `branch_eq`        : closed form of a branch — `redOf` (the recomputed reduction: mark-to-mark minus
                           instrument-to-target, slope distance or zenith angle, at the coordinates `coordinates` returns),
                           `store = 0 < |r − rs| ∧ ¬adjusted`, `ask = tol < |r − rs|`;
    * `obsdh_false_eq`   : with `adjusted = false` the function stores `redOf` in every observation a branch applies to
                           (`stored`), whatever was stored before, reading neither `x` nor the index fields;
    * `obsdh_false_idem`, `obsdh_true_zero` : on stored reductions neither mode asks, for `x = 0`;
    * `obsdh_true_obs`, `obsdh_true_status` : with `adjusted = true` nothing is stored, and `status = false` means
                           every stored reduction is within the tolerance of the reduction at the adjusted coordinates;
    * `stored_exact`     : a raw value that is exact between INSTRUMENT and TARGET (the heights above the marks
                           included) + the stored reduction = the mark-to-mark value the linearisation compares with
                           (`C06FP.ExactView`);
    * `loop_break_invariant`, `refineAdjustment_fixed_point` : the two loop theorems of `Props/C06Refine.lean`.
-/
import Gama.Lemmas.C06PolLin
import Gama.Model.RefineAdjustment
namespace Gama.C06RA
open Gama Gama.Lin Gama.RA Gama.Gen.Obsdh Gama.C06FP Gama.C06PL Gama.TL Real

@[simp] theorem abs_real (x : ℝ) : (Scalar.abs x : ℝ) = |x| := rfl

/-! ### the reductions -/

/-- slope distance mark to mark minus slope distance instrument to target, from `f` to `t` -/
noncomputable def slopeRedAt (f t : ℝ × ℝ × ℝ) (fdh tdh : ℝ) : ℝ :=
  √((t.1 - f.1) * (t.1 - f.1) + (t.2.1 - f.2.1) * (t.2.1 - f.2.1) + (t.2.2 - f.2.2) * (t.2.2 - f.2.2))
    - √((t.1 - f.1) * (t.1 - f.1) + (t.2.1 - f.2.1) * (t.2.1 - f.2.1)
        + (t.2.2 - f.2.2 + (tdh - fdh)) * (t.2.2 - f.2.2 + (tdh - fdh)))

/-- zenith angle mark to mark minus zenith angle instrument to target (`atan2(horizontal distance, dz)`) -/
noncomputable def zenRedAt (f t : ℝ × ℝ × ℝ) (fdh tdh : ℝ) : ℝ :=
  Complex.arg ⟨t.2.2 - f.2.2, √((t.1 - f.1) * (t.1 - f.1) + (t.2.1 - f.2.1) * (t.2.1 - f.2.1))⟩
    - Complex.arg ⟨t.2.2 - f.2.2 + (tdh - fdh), √((t.1 - f.1) * (t.1 - f.1) + (t.2.1 - f.2.1) * (t.2.1 - f.2.1))⟩

/-- the two `continue` guards do not fire: a height above the mark is given and both points have x, y and z -/
def Applies (v : DhObs ℝ) : Prop := ¬ (v.from_dh = 0 ∧ v.to_dh = 0) ∧ v.pfrom.xyz = true ∧ v.pto.xyz = true

noncomputable instance (v : DhObs ℝ) : Decidable (Applies v) := Classical.propDecidable _

/-- the reduction a branch recomputes (`rs` / `rz`), `none` when it does not apply -/
noncomputable def redOf (adjusted : Bool) (x : Nat → ℝ) (k : Kind) (v : DhObs ℝ) : Option ℝ :=
  match k with
  | .s_distance =>
    if Applies v then some (slopeRedAt (coordinates adjusted x v.pfrom) (coordinates adjusted x v.pto) v.from_dh v.to_dh)
    else none
  | .z_angle =>
    if Applies v then some (zenRedAt (coordinates adjusted x v.pfrom) (coordinates adjusted x v.pto) v.from_dh v.to_dh)
    else none
  | _ => none

/-- `linear_tol` for a slope distance, `angular_tol` for a zenith angle -/
noncomputable def tolOf : Kind → ℝ
  | .z_angle => angular_tol
  | _ => linear_tol

theorem linear_tol_pos : (0 : ℝ) < linear_tol := by
  simp only [linear_tol, ofSci_real]; norm_num

theorem angular_tol_pos : (0 : ℝ) < angular_tol := by
  simp only [angular_tol, ofSci_real, ofNat_real, pi_real]
  have := Real.pi_pos
  positivity

theorem tolOf_pos (k : Kind) : 0 < tolOf k := by
  cases k <;> first | exact angular_tol_pos | exact linear_tol_pos

theorem guard1 (v : DhObs ℝ) :
    (Scalar.beq v.from_dh (0 : ℝ) && Scalar.beq v.to_dh (0 : ℝ)) = true ↔ (v.from_dh = 0 ∧ v.to_dh = 0) := by
  simp

theorem guard2 (v : DhObs ℝ) :
    ((!v.pfrom.xyz) || (!v.pto.xyz)) = true ↔ ¬ (v.pfrom.xyz = true ∧ v.pto.xyz = true) := by
  cases v.pfrom.xyz <;> cases v.pto.xyz <;> simp

theorem slopeBranch_eq (a : Bool) (x : Nat → ℝ) (v : DhObs ℝ) :
    slopeBranch a x v = (redOf a x .s_distance v).map fun rs =>
      (rs, decide (0 < |v.reduction - rs|) && !a, decide (linear_tol < |v.reduction - rs|)) := by
  unfold slopeBranch redOf Applies
  simp only [ofNat_real, Nat.cast_zero, sqrt_real, abs_real, guard1, guard2]
  by_cases h1 : v.from_dh = 0 ∧ v.to_dh = 0
  · simp [h1.1, h1.2]
  · by_cases h2 : v.pfrom.xyz = true ∧ v.pto.xyz = true
    · simp only [h1, h2, not_true_eq_false, not_false_eq_true, and_self, if_false, if_true, Option.map_some, slopeRedAt]
    · simp only [h1, h2, not_false_eq_true, if_true, if_false, and_false, Option.map_none]

theorem zenithBranch_eq (a : Bool) (x : Nat → ℝ) (v : DhObs ℝ) :
    zenithBranch a x v = (redOf a x .z_angle v).map fun rs =>
      (rs, decide (0 < |v.reduction - rs|) && !a, decide (angular_tol < |v.reduction - rs|)) := by
  unfold zenithBranch redOf Applies
  simp only [ofNat_real, Nat.cast_zero, sqrt_real, abs_real, atan2_real, guard1, guard2]
  by_cases h1 : v.from_dh = 0 ∧ v.to_dh = 0
  · simp [h1.1, h1.2]
  · by_cases h2 : v.pfrom.xyz = true ∧ v.pto.xyz = true
    · simp only [h1, h2, not_true_eq_false, not_false_eq_true, and_self, if_false, if_true, Option.map_some, zenRedAt]
    · simp only [h1, h2, not_false_eq_true, if_true, if_false, and_false, Option.map_none]

/-- **closed form of a branch** -/
theorem branch_eq (a : Bool) (x : Nat → ℝ) (k : Kind) (v : DhObs ℝ) :
    branch a x k v = (redOf a x k v).map fun rs =>
      (rs, decide (0 < |v.reduction - rs|) && !a, decide (tolOf k < |v.reduction - rs|)) := by
  cases k <;> first
    | exact slopeBranch_eq a x v
    | exact zenithBranch_eq a x v
    | rfl

/-! ### the function, per observation -/

theorem coordinates_false (x : Nat → ℝ) (p : DhPt ℝ) : coordinates false x p = (p.pt.x, p.pt.y, p.pt.z) := rfl

/-- with a zero solution the adjusted coordinates are the coordinates -/
theorem coordinates_true_zero (x : Nat → ℝ) (hx : ∀ i, x i = 0) (p : DhPt ℝ) :
    coordinates true x p = (p.pt.x, p.pt.y, p.pt.z) := by
  simp [coordinates, hx]

/-- the reduction `refine_obsdh_reductions(IS)` (adjusted = false) recomputes for `o` at the coordinates of `σ`;
    `none`: the observation is not touched -/
noncomputable def curRed (σ : Net ℝ) (xyz : Nat → Bool) (o : DObs ℝ) : Option ℝ :=
  redOf false (fun _ => 0) o.kind (dhView σ xyz IdxState.init o)

/-- the observation after `refine_obsdh_reductions(IS)` -/
noncomputable def stored (σ : Net ℝ) (xyz : Nat → Bool) (o : DObs ℝ) : DObs ℝ :=
  match curRed σ xyz o with
  | some rs => { o with red := rs }
  | none => o

/-- the recomputed reduction depends on the class, the coordinates, `test_xyz()` and the two heights only -/
theorem redOf_congr (a : Bool) (x x' : Nat → ℝ) (k : Kind) (v v' : DhObs ℝ)
    (hf : coordinates a x v.pfrom = coordinates a x' v'.pfrom) (ht : coordinates a x v.pto = coordinates a x' v'.pto)
    (h1 : v.from_dh = v'.from_dh) (h2 : v.to_dh = v'.to_dh) (h3 : v.pfrom.xyz = v'.pfrom.xyz)
    (h4 : v.pto.xyz = v'.pto.xyz) : redOf a x k v = redOf a x' k v' := by
  have hA : Applies v ↔ Applies v' := by unfold Applies; rw [h1, h2, h3, h4]
  unfold redOf
  cases k <;> simp only [hA, hf, ht, h1, h2]

theorem redOf_false (σ : Net ℝ) (xyz : Nat → Bool) (idx : IdxState) (x : Nat → ℝ) (o : DObs ℝ) :
    redOf false x o.kind (dhView σ xyz idx o) = curRed σ xyz o :=
  redOf_congr false _ _ _ _ _ rfl rfl rfl rfl rfl rfl

theorem redOf_true_zero (σ : Net ℝ) (xyz : Nat → Bool) (idx : IdxState) (x : Nat → ℝ) (hx : ∀ i, x i = 0) (o : DObs ℝ) :
    redOf true x o.kind (dhView σ xyz idx o) = curRed σ xyz o := by
  have hA : Applies (dhView σ xyz idx o) ↔ Applies (dhView σ xyz IdxState.init o) := Iff.rfl
  unfold curRed redOf
  cases o.kind <;> simp only [hA, coordinates_true_zero x hx, coordinates_false] <;> rfl

theorem curRed_red (σ : Net ℝ) (xyz : Nat → Bool) (o : DObs ℝ) (r : ℝ) :
    curRed σ xyz { o with red := r } = curRed σ xyz o :=
  redOf_congr false _ _ _ _ _ rfl rfl rfl rfl rfl rfl

theorem curRed_stored (σ : Net ℝ) (xyz : Nat → Bool) (o : DObs ℝ) : curRed σ xyz (stored σ xyz o) = curRed σ xyz o := by
  unfold stored
  cases h : curRed σ xyz o with
  | none => exact h
  | some rs => simp only []; rw [curRed_red, h]

theorem stored_red (σ : Net ℝ) (xyz : Nat → Bool) (o : DObs ℝ) (rs : ℝ) (h : curRed σ xyz o = some rs) :
    (stored σ xyz o).red = rs := by
  unfold stored; rw [h]

theorem stored_kind (σ : Net ℝ) (xyz : Nat → Bool) (o : DObs ℝ) : (stored σ xyz o).kind = o.kind := by
  unfold stored; cases curRed σ xyz o <;> rfl

/-- **adjusted = false stores the recomputed reduction**, whatever was stored -/
theorem obsdhStep_false (σ : Net ℝ) (xyz : Nat → Bool) (idx : IdxState) (x : List ℝ) (o : DObs ℝ) :
    (obsdhStep false σ xyz idx x o).1 = stored σ xyz o := by
  unfold obsdhStep stored
  rw [branch_eq, redOf_false]
  cases h : curRed σ xyz o with
  | none => rfl
  | some rs =>
    simp only [Option.map_some, Bool.not_false, Bool.and_true]
    by_cases hd : 0 < |(dhView σ xyz idx o).reduction - rs|
    · simp [hd]
    · have : o.red = rs := by
        have h0 : |o.red - rs| = 0 := le_antisymm (not_lt.1 hd) (abs_nonneg _)
        exact sub_eq_zero.1 (abs_eq_zero.1 h0)
      simp only [hd, decide_false, Bool.false_eq_true, if_false]
      cases o; simp_all

/-- on a stored reduction the function asks for nothing and changes nothing -/
theorem obsdhStep_false_stored (σ : Net ℝ) (xyz : Nat → Bool) (idx : IdxState) (x : List ℝ) (o : DObs ℝ) :
    obsdhStep false σ xyz idx x (stored σ xyz o) = (stored σ xyz o, false, false) := by
  unfold obsdhStep
  rw [branch_eq, redOf_false, curRed_stored]
  cases h : curRed σ xyz o with
  | none => rfl
  | some rs =>
    have hr : (dhView σ xyz idx (stored σ xyz o)).reduction = rs := stored_red σ xyz o rs h
    have ht := tolOf_pos (stored σ xyz o).kind
    simp only [Option.map_some, hr, sub_self, abs_zero, lt_self_iff_false, decide_false, Bool.false_and,
      Bool.false_eq_true, if_false, not_lt.2 ht.le]

/-- … also with `adjusted = true`, when the solution is zero -/
theorem obsdhStep_true_stored (σ : Net ℝ) (xyz : Nat → Bool) (idx : IdxState) (x : List ℝ) (hx : ∀ i, GN.xAt x i = 0)
    (o : DObs ℝ) : obsdhStep true σ xyz idx x (stored σ xyz o) = (stored σ xyz o, false, false) := by
  unfold obsdhStep
  rw [branch_eq, redOf_true_zero σ xyz idx _ hx, curRed_stored]
  cases h : curRed σ xyz o with
  | none => rfl
  | some rs =>
    have hr : (dhView σ xyz idx (stored σ xyz o)).reduction = rs := stored_red σ xyz o rs h
    have ht := tolOf_pos (stored σ xyz o).kind
    simp only [Option.map_some, hr, sub_self, abs_zero, lt_self_iff_false, decide_false, Bool.false_and,
      Bool.false_eq_true, if_false, not_lt.2 ht.le]

/-- adjusted = true stores nothing -/
theorem obsdhStep_true_obs (σ : Net ℝ) (xyz : Nat → Bool) (idx : IdxState) (x : List ℝ) (o : DObs ℝ) :
    (obsdhStep true σ xyz idx x o).1 = o ∧ (obsdhStep true σ xyz idx x o).2.2 = false := by
  unfold obsdhStep
  rw [branch_eq]
  cases redOf true (GN.xAt x) o.kind (dhView σ xyz idx o) with
  | none => exact ⟨rfl, rfl⟩
  | some rs => simp

/-- adjusted = true, `status` not raised: the stored reduction is within the tolerance of the reduction at the
    adjusted coordinates -/
theorem obsdhStep_true_status (σ : Net ℝ) (xyz : Nat → Bool) (idx : IdxState) (x : List ℝ) (o : DObs ℝ)
    (h : (obsdhStep true σ xyz idx x o).2.1 = false) (rs : ℝ)
    (hr : redOf true (GN.xAt x) o.kind (dhView σ xyz idx o) = some rs) : |o.red - rs| ≤ tolOf o.kind := by
  unfold obsdhStep at h
  rw [branch_eq, hr] at h
  simp only [Option.map_some, decide_eq_false_iff_not, not_lt] at h
  exact h

/-! ### the function, on `IS->OD` -/

theorem obsdh_false_eq (σ : Net ℝ) (xyz : Nat → Bool) (idx : IdxState) (x : List ℝ) (obs : List (DObs ℝ)) :
    (refineObsdh false σ xyz idx x obs).1 = obs.map (stored σ xyz) := by
  unfold refineObsdh
  induction obs with
  | nil => rfl
  | cons o t ih => simp only [obsdhFrom, List.map_cons, obsdhStep_false, ih]

theorem obsdh_false_idem (σ : Net ℝ) (xyz : Nat → Bool) (idx : IdxState) (x : List ℝ) (obs : List (DObs ℝ)) :
    refineObsdh false σ xyz idx x (obs.map (stored σ xyz)) = (obs.map (stored σ xyz), false, false) := by
  unfold refineObsdh
  induction obs with
  | nil => rfl
  | cons o t ih => simp only [List.map_cons, obsdhFrom, obsdhStep_false_stored, ih, Bool.or_self]

theorem obsdh_true_zero (σ : Net ℝ) (xyz : Nat → Bool) (idx : IdxState) (x : List ℝ) (hx : ∀ i, GN.xAt x i = 0)
    (obs : List (DObs ℝ)) :
    refineObsdh true σ xyz idx x (obs.map (stored σ xyz)) = (obs.map (stored σ xyz), false, false) := by
  unfold refineObsdh
  induction obs with
  | nil => rfl
  | cons o t ih => simp only [List.map_cons, obsdhFrom, obsdhStep_true_stored σ xyz idx x hx, ih, Bool.or_self]

theorem obsdh_true_obs (σ : Net ℝ) (xyz : Nat → Bool) (idx : IdxState) (x : List ℝ) (obs : List (DObs ℝ)) :
    (refineObsdh true σ xyz idx x obs).1 = obs ∧ (refineObsdh true σ xyz idx x obs).2.2 = false := by
  unfold refineObsdh
  induction obs with
  | nil => exact ⟨rfl, rfl⟩
  | cons o t ih =>
    obtain ⟨h1, h2⟩ := obsdhStep_true_obs σ xyz idx x o
    simp only [obsdhFrom, h1, h2, ih.1, ih.2, Bool.or_self, and_self]

theorem obsdh_true_status (σ : Net ℝ) (xyz : Nat → Bool) (idx : IdxState) (x : List ℝ) (obs : List (DObs ℝ))
    (h : (refineObsdh true σ xyz idx x obs).2.1 = false) :
    ∀ o ∈ obs, ∀ rs, redOf true (GN.xAt x) o.kind (dhView σ xyz idx o) = some rs → |o.red - rs| ≤ tolOf o.kind := by
  unfold refineObsdh at h
  induction obs with
  | nil => intro o ho; cases ho
  | cons o t ih =>
    simp only [obsdhFrom, Bool.or_eq_false_iff] at h
    intro o' ho'
    rcases List.mem_cons.1 ho' with rfl | hm
    · exact obsdhStep_true_status σ xyz idx x _ h.1
    · exact ih h.2 o' hm

/-! ### exact raw values + stored reductions = exact values -/

/-- slope distance between INSTRUMENT and TARGET (the heights above the marks included) at the coordinates of `σ` -/
noncomputable def instrDist (σ : Net ℝ) (o : DObs ℝ) : ℝ :=
  √(((σ.pt o.pto).x - (σ.pt o.pfrom).x) * ((σ.pt o.pto).x - (σ.pt o.pfrom).x)
    + ((σ.pt o.pto).y - (σ.pt o.pfrom).y) * ((σ.pt o.pto).y - (σ.pt o.pfrom).y)
    + ((σ.pt o.pto).z - (σ.pt o.pfrom).z + (o.to_dh - o.from_dh)) * ((σ.pt o.pto).z - (σ.pt o.pfrom).z + (o.to_dh - o.from_dh)))

/-- zenith angle from the INSTRUMENT to the TARGET at the coordinates of `σ` -/
noncomputable def instrZen (σ : Net ℝ) (o : DObs ℝ) : ℝ :=
  Complex.arg ⟨(σ.pt o.pto).z - (σ.pt o.pfrom).z + (o.to_dh - o.from_dh),
    √(((σ.pt o.pto).x - (σ.pt o.pfrom).x) * ((σ.pt o.pto).x - (σ.pt o.pfrom).x)
      + ((σ.pt o.pto).y - (σ.pt o.pfrom).y) * ((σ.pt o.pto).y - (σ.pt o.pfrom).y))⟩

/-- the observation is exact: where `refine_obsdh_reductions` applies (slope distance / zenith angle with a height
    above the mark, both points with x, y, z) the stored `value_` is the quantity between instrument and target; where
    it does not, `value()` as it stands is the function of the coordinates the linearisation compares with -/
def DhExact (σ : Net ℝ) (xyz : Nat → Bool) (o : DObs ℝ) : Prop :=
  (curRed σ xyz o = none → ExactObs σ o.nobs) ∧
  (∀ rs, curRed σ xyz o = some rs →
    (o.kind = .s_distance ∧ o.raw = instrDist σ o) ∨
    (o.kind = .z_angle ∧ o.raw = instrZen σ o ∧ sdist (σ.view o.nobs) ≠ 0))

theorem arg_eq_arccos (dz h : ℝ) (hh : 0 ≤ h) (hne : √(h * h + dz * dz) ≠ 0) :
    Complex.arg ⟨dz, h⟩ = Real.arccos (dz / √(h * h + dz * dz)) := by
  have hz : (⟨dz, h⟩ : ℂ) ≠ 0 := by
    intro h0
    have h1 : dz = 0 := congrArg Complex.re h0
    have h2 : h = 0 := congrArg Complex.im h0
    exact hne (by rw [h1, h2]; simp)
  rw [Complex.arg_of_im_nonneg_of_ne_zero (z := ⟨dz, h⟩) hh hz, Complex.norm_def, Complex.normSq_mk]
  congr 3; ring

theorem exactObs_of_kind (σ : Net ℝ) (ob : NObs ℝ) (k : Kind) (hk : ob.kind = k) (h : ExactView k (σ.view ob)) :
    ExactObs σ ob := by
  subst hk; exact h

/-- **the bridge**: an exact observation with the reduction `refine_obsdh_reductions(IS)` stores is exact in the
    sense of the fixed-point theorems (`value() = value_ + reduction()` is the mark-to-mark quantity) -/
theorem stored_exact (σ : Net ℝ) (xyz : Nat → Bool) (o : DObs ℝ) (h : DhExact σ xyz o) :
    ExactObs σ (stored σ xyz o).nobs := by
  obtain ⟨h0, h1⟩ := h
  cases hc : curRed σ xyz o with
  | none =>
    have : stored σ xyz o = o := by unfold stored; rw [hc]
    rw [this]; exact h0 hc
  | some rs =>
    have hs : stored σ xyz o = { o with red := rs } := by unfold stored; rw [hc]
    rw [hs]
    rcases h1 rs hc with ⟨hk, hraw⟩ | ⟨hk, hraw, hne⟩
    · -- slope distance
      unfold curRed redOf at hc
      rw [hk] at hc
      simp only [coordinates_false] at hc
      split at hc
      · injection hc with hc
        refine exactObs_of_kind σ _ .s_distance hk ?_
        show o.raw + rs = sdist _
        rw [← hc, hraw]
        unfold slopeRedAt instrDist sdist dX dY dZ
        simp only [dhView, dhPt, Net.view, DObs.nobs]
        ring
      · cases hc
    · -- zenith angle
      unfold curRed redOf at hc
      rw [hk] at hc
      simp only [coordinates_false] at hc
      split at hc
      · injection hc with hc
        refine exactObs_of_kind σ _ .z_angle hk ?_
        show o.raw + rs = zenithComputed _
        have hval : o.raw + rs = Complex.arg ⟨(σ.pt o.pto).z - (σ.pt o.pfrom).z,
            √(((σ.pt o.pto).x - (σ.pt o.pfrom).x) * ((σ.pt o.pto).x - (σ.pt o.pfrom).x)
              + ((σ.pt o.pto).y - (σ.pt o.pfrom).y) * ((σ.pt o.pto).y - (σ.pt o.pfrom).y))⟩ := by
          rw [← hc, hraw]
          unfold zenRedAt instrZen
          simp only [dhView, dhPt]
          ring
        have hsd : sdist (σ.view ({ o with red := rs } : DObs ℝ).nobs) = sdist (σ.view o.nobs) := rfl
        have hle : ¬ π < o.raw + rs := by rw [hval]; exact not_lt.2 (Complex.arg_le_pi _)
        unfold zenithComputed
        have hv' : (σ.view ({ o with red := rs } : DObs ℝ).nobs).value = o.raw + rs := rfl
        rw [hv', if_neg hle, hval]
        unfold zenith
        rw [hsd]
        set H := √(((σ.pt o.pto).x - (σ.pt o.pfrom).x) * ((σ.pt o.pto).x - (σ.pt o.pfrom).x)
              + ((σ.pt o.pto).y - (σ.pt o.pfrom).y) * ((σ.pt o.pto).y - (σ.pt o.pfrom).y)) with hH
        have hHH : H * H = ((σ.pt o.pto).x - (σ.pt o.pfrom).x) * ((σ.pt o.pto).x - (σ.pt o.pfrom).x)
              + ((σ.pt o.pto).y - (σ.pt o.pfrom).y) * ((σ.pt o.pto).y - (σ.pt o.pfrom).y) :=
          Real.mul_self_sqrt (add_nonneg (mul_self_nonneg _) (mul_self_nonneg _))
        have hS : sdist (σ.view o.nobs) = √(H * H + ((σ.pt o.pto).z - (σ.pt o.pfrom).z) * ((σ.pt o.pto).z - (σ.pt o.pfrom).z)) := by
          rw [hHH]; rfl
        rw [hS] at hne ⊢
        exact arg_eq_arccos _ H (Real.sqrt_nonneg _) hne
      · cases hc

/-! ### the loop of `refine_adjustment` -/

/-- every stored reduction is within the tolerance of the reduction at the ADJUSTED coordinates
    (`coordinates + x/1000` of the adjustment `a` of the state) -/
def Within (s : St ℝ) (a : Adj ℝ) : Prop :=
  ∀ o ∈ s.obs, ∀ rs, redOf true (GN.xAt a.x) o.kind (dhView s.σ s.xyz a.idx o) = some rs → |o.red - rs| ≤ tolOf o.kind

theorem runTests_append_false (E : Env ℝ) (t : Test) : ∀ (pre : List Test) (s s' : St ℝ),
    runTests E (pre ++ [t]) s = some (s', false) →
    ∃ s1, runTests E pre s = some (s1, false) ∧ runTest E s1 t = some (s', false) := by
  intro pre
  induction pre with
  | nil =>
    intro s s' h
    refine ⟨s, rfl, ?_⟩
    simp only [List.nil_append, runTests] at h
    cases hr : runTest E s t with
    | none => rw [hr] at h; cases h
    | some r =>
      rcases r with ⟨s1, b⟩
      rw [hr] at h
      cases b
      · simp only [] at h; injection h with h; injection h with h1 _; rw [h1]
      · simp only [] at h; injection h with h; injection h with _ h2; cases h2
  | cons t0 rest ih =>
    intro s s' h
    simp only [List.cons_append, runTests] at h ⊢
    cases hr : runTest E s t0 with
    | none => rw [hr] at h; cases h
    | some r =>
      rcases r with ⟨s1, b⟩
      rw [hr] at h
      cases b
      · simp only [] at h ⊢; exact ih s1 s' h
      · simp only [] at h; injection h with h; injection h with _ h2; cases h2

/-- the third test of a2adf726 answered "no": nothing was stored, and the invariant holds -/
theorem runTest_obsdh_true_false (E : Env ℝ) (s s' : St ℝ) (h : runTest E s (.obsdh true) = some (s', false)) :
    s' = s ∧ ∃ a, E.adjust s.σ s.xyz s.obs = some a ∧ Within s a := by
  simp only [runTest] at h
  cases ha : E.adjust s.σ s.xyz s.obs with
  | none => rw [ha] at h; cases h
  | some a =>
    rw [ha] at h
    simp only [Option.some.injEq, Prod.mk.injEq] at h
    obtain ⟨h1, h2⟩ := h
    rw [(obsdh_true_obs s.σ s.xyz a.idx a.x s.obs).1] at h1
    exact ⟨h1.symm, a, rfl, obsdh_true_status s.σ s.xyz a.idx a.x s.obs h2⟩

/-- **the invariant of a2adf726**: a loop whose last test is `refine_obsdh_reductions(this, true)`, left by `break` -/
theorem loop_break_invariant (E : Env ℝ) (pre : List Test) : ∀ (n : Nat) (s s' : St ℝ),
    loop E (pre ++ [.obsdh true]) n s = some (s', true) →
    ∃ a, E.adjust s'.σ s'.xyz s'.obs = some a ∧ Within s' a := by
  intro n
  induction n with
  | zero => intro s s' h; simp [loop] at h
  | succ n ih =>
    intro s s' h
    simp only [loop] at h
    cases hr : runTests E (pre ++ [.obsdh true]) s with
    | none => rw [hr] at h; cases h
    | some r =>
      rcases r with ⟨s1, b⟩
      rw [hr] at h
      cases b
      · simp only [Option.some.injEq, Prod.mk.injEq, and_true] at h
        subst h
        obtain ⟨s0, _, h3⟩ := runTests_append_false E _ pre s s1 hr
        obtain ⟨e, a, ha, hw⟩ := runTest_obsdh_true_false E s0 s1 h3
        subst e
        exact ⟨a, ha, hw⟩
      · simp only [] at h
        cases hi : iterate E s1 with
        | none => rw [hi] at h; cases h
        | some s2 => rw [hi] at h; exact ih s2 s' h

theorem refineTests_eq : refineTests = [.obsdh false, .testLin] ++ [.obsdh true] := rfl

/-- one turn at the fixed point: no test asks, nothing changes -/
theorem runTests_fixed (E : Env ℝ) (σ : Net ℝ) (xyz : Nat → Bool) (obs : List (DObs ℝ)) (i0 : Nat) (a : Adj ℝ)
    (hadj : E.adjust σ xyz (obs.map (stored σ xyz)) = some a)
    (hx : ∀ i, GN.xAt a.x i = 0)
    (htl : testLinearization σ E.fuel a.idx a.x a.v a.robs = some false) :
    runTests E refineTests ⟨σ, xyz, obs.map (stored σ xyz), i0⟩ = some (⟨σ, xyz, obs.map (stored σ xyz), i0⟩, false) := by
  simp only [refineTests, runTests, runTest, obsdh_false_idem, hadj, htl, Option.map_some, obsdh_true_zero σ xyz a.idx a.x hx]

/-- **the loop at the true coordinates**: exact observations (heights above the marks included), the reductions
    stored by `refine_obsdh_reductions(IS)`, an adjustment that answers `x = 0`, `v = 0` on exact data ⇒ the loop
    is left by `break` in its first turn, 0 iterations, nothing changed -/
theorem refineAdjustment_fixed_point (σ : Net ℝ) (xyz : Nat → Bool) (obs : List (DObs ℝ)) (a : Adj ℝ)
    (hex : ∀ o ∈ obs, DhExact σ xyz o)
    (hsub : ∀ ob ∈ a.robs, ∃ o ∈ obs, ob = (stored σ xyz o).nobs)
    (hzero : (∀ ob ∈ a.robs, ExactObs σ ob) → (∀ i, GN.xAt a.x i = 0) ∧ (∀ i, GN.xAt a.v i = 0)) :
    ∃ f0 : Nat, ∀ E : Env ℝ, E.adjust σ xyz (obs.map (stored σ xyz)) = some a → f0 ≤ E.fuel → ∀ maxIter i0 : Nat,
      refineAdjustment E (maxIter + 1) ⟨σ, xyz, obs.map (stored σ xyz), i0⟩
        = some (⟨σ, xyz, obs.map (stored σ xyz), 0⟩, true, false) := by
  have hexr : ∀ ob ∈ a.robs, ExactObs σ ob := by
    intro ob hob
    obtain ⟨o, ho, rfl⟩ := hsub ob hob
    exact stored_exact σ xyz o (hex o ho)
  obtain ⟨hx, hv⟩ := hzero hexr
  obtain ⟨_, f0, hf⟩ := testLinearization_true_coordinates σ a.idx a.x a.v a.robs hexr hx hv
  refine ⟨f0, fun E hadj hfu maxIter i0 => ?_⟩
  have h1 := runTests_fixed E σ xyz obs 0 a hadj hx (hf E.fuel hfu)
  simp only [refineAdjustment, loop, h1, Option.map_some, lt_self_iff_false, decide_false]

/-! ### a witness: slope distance 13 m to a target 12 m above its mark, marks 5 m apart -/

namespace Ex

def σ : Net ℝ :=
  { pt := fun i => if i = 1 then ⟨3, 4, 0, .free, .free⟩ else ⟨0, 0, 0, .fixed, .fixed⟩, ori := fun _ => 0, xNorth := 0 }

def xyz : Nat → Bool := fun _ => true

/-- `<s-distance from=0 to=1 val=13 to_dh=12/>`, no reduction stored yet -/
def o : DObs ℝ := ⟨.s_distance, 0, 0, 1, 0, 13, 0, 12, 0⟩

theorem sqrt25 : √(25 : ℝ) = 5 := by
  rw [show (25 : ℝ) = 5 * 5 by norm_num]; exact Real.sqrt_mul_self (by norm_num)

theorem sqrt169 : √(169 : ℝ) = 13 := by
  rw [show (169 : ℝ) = 13 * 13 by norm_num]; exact Real.sqrt_mul_self (by norm_num)

theorem applies : Applies (dhView σ xyz IdxState.init o) := by
  refine ⟨fun h => ?_, rfl, rfl⟩
  have : (12 : ℝ) = 0 := h.2
  norm_num at this

theorem curRed_o : curRed σ xyz o = some (-8) := by
  have hA := applies
  unfold curRed redOf
  show (if Applies (dhView σ xyz IdxState.init o) then some (slopeRedAt _ _ _ _) else none) = _
  rw [if_pos hA]
  simp only [coordinates_false, slopeRedAt, dhView, dhPt, σ, o]
  norm_num
  rw [sqrt25, sqrt169]; norm_num

theorem exact_o : DhExact σ xyz o := by
  refine ⟨fun h => (by rw [curRed_o] at h; cases h), fun rs _ => Or.inl ⟨rfl, ?_⟩⟩
  simp only [instrDist, σ, o]
  norm_num
  exact sqrt169.symm

/-- an environment whose adjustment answers the zero solution on these observations -/
noncomputable def a : Adj ℝ := ⟨IdxState.init, [], [], [(stored σ xyz o).nobs]⟩

noncomputable def E (fuel : Nat) : Env ℝ :=
  { adjust := fun _ _ _ => some a, refineApprox := fun n z _ _ => (n, z), fuel := fuel }

end Ex

end Gama.C06RA
