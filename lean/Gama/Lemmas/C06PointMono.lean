/-
  C06 — clause 6 ("adding further consistent observations never makes a determined point undetermined") at the
  level of ONE point of AcordIntersection: `ApproxPoint::calculation` on the arranged observation list
  (`Inter.apCalc`: all pairs, the six intersection classes with their small-angle guards, Select_solution_g2d,
  Statistics_g2d) is MONOTONE in the list for exact observations (`apCalc_mono`).

  Why there is no counterexample of the kind "a further observation changes WHICH pair is intersected first and the
  small-angle guard then refuses": the double loop intersects EVERY pair i < j — nothing is taken "first"; a guarded
  pair contributes no candidate and refuses nothing; two candidates of a pair are resolved by the first observation of
  the whole list that decides, and on exact observations every decision is for the true point (`selectSol_sound`), so
  an inserted observation that decides earlier decides the same; the candidates collected are all the true point
  and their median is it.

  What `aiMono` (Lemmas/C06Mono.lean) needs beyond this lemma, NOT proved — the exact conditions under which the step
  monotonicity of `aiExecute` follows from `apCalc_mono`:
    (a) `arrange` is monotone: for `o ⊆ o'` (`ObsSet.le`), point lists `pd ≤ pd'` (`KnownLe`, true values) and
        orientations `oris ≤ oris'`, `arrange pd oris sm cb` is a SUB-LIST of `arrange pd' oris' sm' cb` up to the
        exact values (medians of equal exact values; needs `DirSep` / `AzSep` as in `C06_reset_ok`, and that the grouping
        passes `arrDist / arrDir / arrAngObs / arrAngU` keep first occurrences in order);
    (b) the guards of the six `Cogo` classes are monotone in the limit (`sal' ≤ sal`: a pair solved at 0.15 is solved at
        0.1) — the static limit of the larger run is ≤ that of the smaller one unless the larger run has completed;
    (c) the walks `siPass / solveIntersection / compLoop` visit the missing ids in the SAME order (`sortIds lt`), so
        "known after the k-th id of pass n" is preserved in lock step, and a larger run that stops earlier (a walk that
        solves nothing) has reached a state in which every point the smaller run solves later is already known
        (monotone fixed-point argument, uses soundness `aiExecute_sound_exact`);
    (d) `necessaryObs` (≥ 2 observations name the id), `solvableData` (≥ 2 known unselected points) and
        `findMissing` are monotone in the observation list and antitone in the known set;
    (e) the start invariant of `KL_init` (a point without xy is in `missing_xy_`), because `aiLoop` returns as soon as
        `missing_xy_` holds no point without xy.
-/
import Gama.Lemmas.C06Inter
import Gama.Lemmas.C06ResetEval
open Gama Gama.Cogo Gama.Median Gama.C06R Gama.C06L Gama.Acord Gama.C06A Gama.Inter
namespace Gama.C06I
open Real
variable {ι : Type} [DecidableEq ι]

/-- Select_solution_g2d walks the arranged observations until one decides: on exact observations a decision
    survives every insertion of further exact observations (an inserted one that decides earlier decides for the
    true point too) -/
theorem selectSol_mono (X : Pt ℝ) (pd : PD ι ℝ) (b1 b2 : Pt ℝ) (hX : b1 = X ∨ b2 = X)
    {sm sm' : List (AObs ι ℝ)} (hsub : sm.Sublist sm') (hsm' : ∀ a ∈ sm', ArrOK X pd a) :
    ∀ p, selectSol pd b1 b2 sm = some p → selectSol pd b1 b2 sm' = some X := by
  induction hsub with
  | slnil => intro p h; simp [selectSol] at h
  | @cons l1 l2 a _ ih =>
    intro p h
    have ih' := ih (fun x hx => hsm' x (List.mem_cons_of_mem _ hx)) p h
    cases hd : selectSol pd b1 b2 (a :: l2) with
    | some q => rw [selectSol_sound X pd b1 b2 hX (a :: l2) hsm' q hd]
    | none =>
      exfalso
      unfold selectSol at hd
      simp only [] at hd
      split_ifs at hd <;> simp_all
  | @cons_cons l1 l2 a hsl ih =>
    intro p h
    have hs1 : ∀ x ∈ a :: l1, ArrOK X pd x := by
      intro x hx
      rcases List.mem_cons.mp hx with rfl | hx
      · exact hsm' _ List.mem_cons_self
      · exact hsm' x (List.mem_cons_of_mem _ (hsl.subset hx))
    have hp : p = X := selectSol_sound X pd b1 b2 hX (a :: l1) hs1 p h
    subst hp
    have ih' := ih (fun x hx => hsm' x (List.mem_cons_of_mem _ hx))
    unfold selectSol at h ⊢
    simp only [] at h ⊢
    split_ifs at h ⊢ <;> first | exact ih' _ h | exact h

/-- the candidate list only grows along the double loop -/
theorem pairStep_prefix (pd : PD ι ℝ) (sal : ℝ) (sm : List (AObs ι ℝ)) (solved : List (Pt ℝ)) (a b : AObs ι ℝ) :
    ∃ t, pairStep pd sal sm solved a b = solved ++ t ∧ pairStep pd sal sm [] a b = t := by
  unfold pairStep
  split
  · exact ⟨_, rfl, by simp⟩
  · split
    · exact ⟨_, rfl, by simp⟩
    · exact ⟨[], by simp, rfl⟩
  · exact ⟨[], by simp, rfl⟩

theorem pairStep_ne (pd : PD ι ℝ) (sal : ℝ) (sm : List (AObs ι ℝ)) (solved : List (Pt ℝ)) (a b : AObs ι ℝ)
    (h : solved ≠ [] ∨ pairStep pd sal sm [] a b ≠ []) : pairStep pd sal sm solved a b ≠ [] := by
  obtain ⟨t, h1, h2⟩ := pairStep_prefix pd sal sm solved a b
  rw [h1]
  rcases h with h | h
  · simp [h]
  · rw [h2] at h; simp [h]

theorem foldl_pairStep_ne (pd : PD ι ℝ) (sal : ℝ) (sm : List (AObs ι ℝ)) (a : AObs ι ℝ) :
    ∀ (rest : List (AObs ι ℝ)) (solved : List (Pt ℝ)),
      (solved ≠ [] ∨ ∃ b ∈ rest, pairStep pd sal sm [] a b ≠ []) →
      rest.foldl (fun s b => pairStep pd sal sm s a b) solved ≠ [] := by
  intro rest
  induction rest with
  | nil => intro solved h; rcases h with h | ⟨b, hb, _⟩; exact h; cases hb
  | cons b r ih =>
    intro solved h
    simp only [List.foldl_cons]
    apply ih
    rcases h with h | ⟨c, hc, hp⟩
    · exact Or.inl (pairStep_ne pd sal sm solved a b (Or.inl h))
    · rcases List.mem_cons.mp hc with rfl | hc
      · exact Or.inl (pairStep_ne pd sal sm solved a c (Or.inr hp))
      · exact Or.inr ⟨c, hc, hp⟩

theorem foldl_pairStep_ne_inv (pd : PD ι ℝ) (sal : ℝ) (sm : List (AObs ι ℝ)) (a : AObs ι ℝ) :
    ∀ (rest : List (AObs ι ℝ)) (solved : List (Pt ℝ)),
      rest.foldl (fun s b => pairStep pd sal sm s a b) solved ≠ [] →
      (solved ≠ [] ∨ ∃ b ∈ rest, pairStep pd sal sm [] a b ≠ []) := by
  intro rest
  induction rest with
  | nil => intro solved h; exact Or.inl h
  | cons b r ih =>
    intro solved h
    simp only [List.foldl_cons] at h
    rcases ih _ h with h1 | ⟨c, hc, hp⟩
    · obtain ⟨t, e1, e2⟩ := pairStep_prefix pd sal sm solved a b
      rw [e1] at h1
      by_cases hs : solved = []
      · subst hs
        exact Or.inr ⟨b, List.mem_cons_self, by rw [e2]; simpa using h1⟩
      · exact Or.inl hs
    · exact Or.inr ⟨c, List.mem_cons_of_mem _ hc, hp⟩

/-- the double loop yields a candidate iff some pair (in list order) does -/
theorem pairsFold_ne_iff (pd : PD ι ℝ) (sal : ℝ) (sm : List (AObs ι ℝ)) :
    ∀ (l : List (AObs ι ℝ)) (solved : List (Pt ℝ)),
      pairsFold pd sal sm l solved ≠ [] ↔
        (solved ≠ [] ∨ ∃ a b, [a, b].Sublist l ∧ pairStep pd sal sm [] a b ≠ []) := by
  intro l
  induction l with
  | nil =>
    intro solved
    simp only [pairsFold]
    constructor
    · exact fun h => Or.inl h
    · rintro (h | ⟨a, b, hs, _⟩)
      · exact h
      · simp at hs
  | cons a rest ih =>
    intro solved
    unfold pairsFold
    rw [ih]
    constructor
    · rintro (h | ⟨c, d, hs, hp⟩)
      · rcases foldl_pairStep_ne_inv pd sal sm a rest solved h with h1 | ⟨b, hb, hp⟩
        · exact Or.inl h1
        · exact Or.inr ⟨a, b, List.Sublist.cons_cons _ (List.singleton_sublist.mpr hb), hp⟩
      · exact Or.inr ⟨c, d, List.Sublist.cons _ hs, hp⟩
    · rintro (h | ⟨c, d, hs, hp⟩)
      · exact Or.inl (foldl_pairStep_ne pd sal sm a rest solved (Or.inl h))
      · cases hs with
        | cons _ hs' => exact Or.inr ⟨c, d, hs', hp⟩
        | cons_cons _ hs' =>
          exact Or.inl (foldl_pairStep_ne pd sal sm a rest solved (Or.inr ⟨d, List.singleton_sublist.mp hs', hp⟩))

/-- a pair that yields a candidate with the arranged list `sm` yields one with every longer exact list -/
theorem pairStep_mono (X : Pt ℝ) (pd : PD ι ℝ) (sal : ℝ) (hsal : 0 < sal) {sm sm' : List (AObs ι ℝ)}
    (hsub : sm.Sublist sm') (hsm' : ∀ a ∈ sm', ArrOK X pd a) (a b : AObs ι ℝ) (ha : ArrOK X pd a) (hb : ArrOK X pd b)
    (h : pairStep pd sal sm [] a b ≠ []) : pairStep pd sal sm' [] a b ≠ [] := by
  unfold pairStep at h ⊢
  have hm := cogoPair_true X pd sal hsal a b ha hb
  split at h
  · simp
  · rename_i p q hp
    rw [hp] at hm
    have hX : p = X ∨ q = X := by
      have := hm (by simp)
      simp at this
      rcases this with h | h
      · exact Or.inl h.symm
      · exact Or.inr h.symm
    split at h
    · rename_i s hsel
      rw [selectSol_mono X pd p q hX hsub hsm' s hsel]
      simp
    · exact absurd rfl h
  · exact absurd rfl h

/-- **ApproxPoint::calculation is monotone in the arranged observations** (exact data, same point list, same
    small-angle limit): if it reports a unique solution from the arranged list `sm`, it reports the true point from
    every list `sm'` of exact arranged observations that contains `sm` as a sub-list (further observations
    inserted anywhere).  Every pair of `sm` is still intersected, a guarded (small-angle) pair of the longer list
    only adds nothing, and a selection between two candidates stays a selection of the true point. -/
theorem apCalc_mono (X : Pt ℝ) (pd : PD ι ℝ) (sal : ℝ) (hsal : 0 < sal) {sm sm' : List (AObs ι ℝ)}
    (hsub : sm.Sublist sm') (hsm' : ∀ a ∈ sm', ArrOK X pd a) (p : Pt ℝ) (h : apCalc pd sal sm = some p) :
    apCalc pd sal sm' = some X := by
  have hne : pairsFold pd sal sm sm [] ≠ [] := by
    intro e; unfold apCalc at h; rw [e] at h; simp at h
  rcases (pairsFold_ne_iff pd sal sm sm []).mp hne with h0 | ⟨a, b, hs, hp⟩
  · exact absurd rfl h0
  have hab : ∀ x ∈ [a, b], ArrOK X pd x := fun x hx => hsm' x (hsub.subset (hs.subset hx))
  have hp' := pairStep_mono X pd sal hsal hsub hsm' a b (hab a (by simp)) (hab b (by simp)) hp
  have hne' : pairsFold pd sal sm' sm' [] ≠ [] :=
    (pairsFold_ne_iff pd sal sm' sm' []).mpr (Or.inr ⟨a, b, hs.trans hsub, hp'⟩)
  cases hc : apCalc pd sal sm' with
  | none =>
    exfalso
    unfold apCalc at hc
    split at hc
    · rename_i e; exact hne' e
    · cases hc
  | some q => rw [apCalc_sound X pd sal hsal sm' hsm' q hc]

end Gama.C06I

/-! ### non-vacuity: the evaluated example of `Lemmas/C06ResetEval.lean` with and without its second distance -/

namespace Gama.C06RD
open Real

/-- the arranged list of the evaluated example without the second distance -/
noncomputable def rArrSmall : List (AObs ℕ ℝ) := [.dist 0 (5/4), .dir 2 (Real.pi / 2)]

theorem rArrSmall_sublist : rArrSmall.Sublist rArr := by
  unfold rArrSmall rArr
  exact List.Sublist.cons_cons _ (List.Sublist.cons _ (List.Sublist.refl _))

theorem apCalc_small_eval : apCalc rPd salDefault rArrSmall = some ⟨0, 1⟩ := by
  unfold rArrSmall
  simp only [apCalc, pairsFold, List.foldl_cons, List.foldl_nil, pairStep, cogo_AC, List.nil_append, statMedian]

theorem rArr_ok : ∀ a ∈ rArr, C06I.ArrOK (⟨0, 1⟩ : Pt ℝ) rPd a := by
  intro a ha
  simp only [rArr, List.mem_cons, List.not_mem_nil, or_false] at ha
  rcases ha with rfl | rfl | rfl
  · simp only [C06I.ArrOK, ptA, g2d_b1_A]
  · simp only [C06I.ArrOK, ptB, g2d_b1_B]
  · simp only [C06I.ArrOK, ptC, bearing_C_b1, true_and]
    unfold C06I.Sight
    have : Real.sqrt (((1:ℝ) - 0) * (1 - 0) + (0 - 0) * (0 - 0)) = 1 := by norm_num
    rw [this]; norm_num
end Gama.C06RD
