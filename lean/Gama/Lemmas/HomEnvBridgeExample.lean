/-
  Non-vacuity of `Lemmas/HomEnvBridge.lean` over ℝ with `Real.sqrt`: C10's example input of `Homogenization::run`
  (`Cov.runExMat`: 3×2 sparse matrix with unsorted rows; `Cov.runExCov`: `BlockDiagonal(2,4)` after
  `add_block(1,0,[9])`, `add_block(2,1,[4,2,5])` — one uncorrelated and one correlated block) and the
  `Ls.Problem` with the same rows, blocks and right-hand side `(1,2,3)`: the hypotheses `Env.HoldsProblem` hold.
-/
import Gama.Lemmas.HomEnvBridge
import Gama.Lemmas.Ls.ComposeEnvSolve
namespace Gama.Ls
open Gama.Ls.Env

set_option linter.unusedSectionVars false
set_option linter.unusedVariables false

section
variable {K : Type} [Field K] [LinearOrder K] [IsStrictOrderedRing K] [SqrtFn K]
attribute [local instance 2000] scalarOfField

/-- `envSolve` throws exactly when its homogenisation throws -/
theorem envSolve_error_iff (p : Problem K) :
    (∃ e, envSolve p = .error e) ↔ (∃ e, Env.homogenize p = .error e) := by
  constructor
  · rintro ⟨e, he⟩; exact ⟨e, envSolve_error p e he⟩
  · rintro ⟨e, he⟩
    refine ⟨e, ?_⟩
    unfold envSolve envAnswer envAnswerOrd
    rw [he]
end

noncomputable section
/-- `Real.sqrt` as the square root of the scalar signature (examples only) -/
@[reducible] def exSqrtFn : SqrtFn ℝ := ⟨Real.sqrt⟩
attribute [local instance] exSqrtFn
attribute [local instance 2000] scalarOfField

/-- rows `[(1,1)]`, `[(1,2),(2,1)]`, `[(2,3)]`; blocks `[9]` (width 0) and `[[4,2],[2,5]]` (width 1); rhs `(1,2,3)` -/
def exP : Problem ℝ :=
  ⟨3, 2, #[#[(1, 1)], #[(1, 2), (2, 1)], #[(2, 3)]], #[⟨1, 0, #[9]⟩, ⟨2, 1, #[4, 2, 5]⟩], #[1, 2, 3], .none⟩

theorem exDense : ∀ i c, i < exP.m → c < exP.n →
    Cov.denseRow (@SMat.rowEntries ℝ ⟨0⟩ Cov.runExMat (i + 1)) (c + 1) = Env.mget exP.dense i c := by
  intro i c hi hc
  have hi' : i < 3 := hi
  have hc' : c < 2 := hc
  have r1 : @SMat.rowEntries ℝ ⟨0⟩ Cov.runExMat 1 = [(1, 1)] := rfl
  have r2 : @SMat.rowEntries ℝ ⟨0⟩ Cov.runExMat 2 = [(1, 2), (2, 1)] := rfl
  have r3 : @SMat.rowEntries ℝ ⟨0⟩ Cov.runExMat 3 = [(2, 3)] := rfl
  have hi2 : i = 0 ∨ i = 1 ∨ i = 2 := by omega
  have hc2 : c = 0 ∨ c = 1 := by omega
  rcases hi2 with rfl | rfl | rfl <;> rcases hc2 with rfl | rfl <;>
    simp [r1, r2, r3, Cov.denseRow, Env.mget, Env.vget, Problem.dense, exP]

theorem exHolds : Env.HoldsProblem exP Cov.runExMat Cov.runExCov [] where
  blocks := by
    intro b hb
    have : b = ⟨1, 0, #[9]⟩ ∨ b = ⟨2, 1, #[4, 2, 5]⟩ := by simpa [exP] using hb
    rcases this with rfl | rfl <;> exact ⟨by decide, by decide⟩
  dims := rfl
  built := Cov.runExCov_built
  wf := Cov.runExMat_wf
  rows := rfl
  cols := rfl
  rhs := rfl
  dense := exDense
  entries := by
    intro i hi
    have hi' : i < 3 := hi
    have hi2 : i = 0 ∨ i = 1 ∨ i = 2 := by omega
    rcases hi2 with rfl | rfl | rfl <;> rfl

theorem exRowsOK : RowsOK exP := by
  apply RowsOK.of_nodup
  intro i hi
  have hi' : i < 3 := hi
  have hi2 : i = 0 ∨ i = 1 ∨ i = 2 := by omega
  rcases hi2 with rfl | rfl | rfl <;> simp [exP]

/-- both blocks of the example are accepted at the default tolerance `1e-14` (they are at `1/100`: `Cov.exBd_accepts`) -/
theorem exRun_accepted : ∃ out, @Cov.Hom.run ℝ (Cov.fieldScalar ℝ Real.sqrt) (Env.bdTol : ℝ) Cov.runExMat Cov.runExCov
    exP.rhs = .ok out := by
  let _ : Cov.SqrtFn ℝ := ⟨Real.sqrt⟩
  have hsq : ∀ x : ℝ, 0 < x → Cov.SqrtFn.sq x * Cov.SqrtFn.sq x = x ∧ 0 < Cov.SqrtFn.sq x :=
    fun x hx => ⟨Real.mul_self_sqrt hx.le, Real.sqrt_pos.mpr hx⟩
  have hle : (Env.bdTol : ℝ) ≤ 1 / 100 := by
    show (OfScientific.ofScientific 1 true 14 : ℝ) ≤ 1 / 100
    norm_num
  have h100 := (Cov.bd_ret_zero_iff (K := ℝ) hsq (1 / 100) (by norm_num) Cov.exBd Cov.exCs []
    Cov.exBd_holds Cov.exCs_wf).mp Cov.exBd_accepts
  have hacc0 : (Cov.exBd.cholDec (Env.bdTol : ℝ)).1 = 0 :=
    (Cov.bd_ret_zero_iff (K := ℝ) hsq (Env.bdTol : ℝ) Env.bdTol_pos Cov.exBd Cov.exCs []
      Cov.exBd_holds Cov.exCs_wf).mpr (fun k hk => by
        obtain ⟨U, hU, hp⟩ := h100 k hk
        exact ⟨U, hU, fun i h1 h2 => le_trans hle (hp i h1 h2)⟩)
  have hacc : (Cov.bdCholDec (Env.bdTol : ℝ) Cov.exCs).1 = 0 := by
    rw [← (Cov.BlockDiag.cholDec_blockwise (Env.bdTol : ℝ) Cov.exBd Cov.exCs [] Cov.exBd_holds Cov.exCs_wf).1]
    exact hacc0
  have h := Cov.Hom.run_spec (K := ℝ) hsq (Env.bdTol : ℝ) Env.bdTol_pos Cov.runExMat Cov.runExCov exP.rhs Cov.exCs []
    Cov.runExCov_built Cov.exCs_wf Cov.runExMat_wf (by decide) (by decide)
  rcases hrun : @Cov.Hom.run ℝ (Cov.fieldScalar ℝ Real.sqrt) (Env.bdTol : ℝ) Cov.runExMat Cov.runExCov exP.rhs
    with e | out
  · exact absurd hacc (h.1.1 ⟨e, hrun⟩)
  · exact ⟨out, rfl⟩

/-- … hence `envSolve` answers on the example too (`C16_hom_run_eq_env_homogenize` (1), `envSolve_error_iff`) -/
theorem exEnvSolve_accepted : ∃ a, envSolve exP = .ok a := by
  obtain ⟨out, hout⟩ := exRun_accepted
  have h1 := (hom_run_eq_homogenize (K := ℝ) ⟨fun _ h => Real.mul_self_sqrt h, fun x _ => Real.sqrt_nonneg x⟩
    exP Cov.runExMat Cov.runExCov [] exHolds).1
  match hr : envSolve exP with
  | .ok a => exact ⟨a, rfl⟩
  | .error e =>
    obtain ⟨e', he'⟩ := h1.2 ((envSolve_error_iff exP).1 ⟨e, hr⟩)
    rw [hout] at he'
    cases he'

end
end Gama.Ls
