/-
  Non-vacuity of `Lemmas/HomEnvBridge.lean` over ℝ with `Real.sqrt`: C10's example input of `Homogenization::run`
  (`Cov.runExMat`: 3×2 sparse matrix with unsorted rows; `Cov.runExCov`: `BlockDiagonal(2,4)` after
  `add_block(1,0,[9])`, `add_block(2,1,[4,2,5])` — one uncorrelated and one correlated block) and the
  `Ls.Problem` with the same rows, blocks and right-hand side `(1,2,3)`: the hypotheses `Env.HoldsProblem` hold.
-/
import Gama.Lemmas.HomEnvBridge
import Gama.Lemmas.Ls.ComposeEnvSolve
namespace Gama.Ls
open Gama.Ls.Env

set_option linter.unusedSectionVars false
set_option linter.unusedVariables false

section
variable {K : Type} [Field K] [LinearOrder K] [IsStrictOrderedRing K] [SqrtFn K]
attribute [local instance 2000] scalarOfField

/-- `envSolve` throws exactly when its homogenisation throws -/
theorem envSolve_error_iff (p : Problem K) :
    (∃ e, envSolve p = .error e) ↔ (∃ e, Env.homogenize p = .error e) := by
  constructor
  · rintro ⟨e, he⟩; exact ⟨e, envSolve_error p e he⟩
  · rintro ⟨e, he⟩
    refine ⟨e, ?_⟩
    unfold envSolve envAnswer envAnswerOrd
    rw [he]
end

noncomputable section
/-- `Real.sqrt` as the square root of the scalar signature (examples only) -/
@[reducible] def exSqrtFn : SqrtFn ℝ := ⟨Real.sqrt⟩
attribute [local instance] exSqrtFn
attribute [local instance 2000] scalarOfField

/-- rows `[(1,1)]`, `[(1,2),(2,1)]`, `[(2,3)]`; blocks `[9]` (width 0) and `[[4,2],[2,5]]` (width 1); rhs `(1,2,3)` -/
def exP : Problem ℝ :=
  ⟨3, 2, #[#[(1, 1)], #[(1, 2), (2, 1)], #[(2, 3)]], #[⟨1, 0, #[9]⟩, ⟨2, 1, #[4, 2, 5]⟩], #[1, 2, 3], .none⟩

theorem exDense : ∀ i c, i < exP.m → c < exP.n →
    Cov.denseRow (@SMat.rowEntries ℝ ⟨0⟩ Cov.runExMat (i + 1)) (c + 1) = Env.mget exP.dense i c := by
  intro i c hi hc
  have hi' : i < 3 := hi
  have hc' : c < 2 := hc
  have r1 : @SMat.rowEntries ℝ ⟨0⟩ Cov.runExMat 1 = [(1, 1)] := rfl
  have r2 : @SMat.rowEntries ℝ ⟨0⟩ Cov.runExMat 2 = [(1, 2), (2, 1)] := rfl
  have r3 : @SMat.rowEntries ℝ ⟨0⟩ Cov.runExMat 3 = [(2, 3)] := rfl
  have hi2 : i = 0 ∨ i = 1 ∨ i = 2 := by omega
  have hc2 : c = 0 ∨ c = 1 := by omega
  rcases hi2 with rfl | rfl | rfl <;> rcases hc2 with rfl | rfl <;>
    simp [r1, r2, r3, Cov.denseRow, Env.mget, Env.vget, Problem.dense, exP]

theorem exHolds : Env.HoldsProblem exP Cov.runExMat Cov.runExCov [] where
  blocks := by
    intro b hb
    have : b = ⟨1, 0, #[9]⟩ ∨ b = ⟨2, 1, #[4, 2, 5]⟩ := by simpa [exP] using hb
    rcases this with rfl | rfl <;> exact ⟨by decide, by decide⟩
  dims := rfl
  built := Cov.runExCov_built
  wf := Cov.runExMat_wf
  nodup := by decide
  rows := rfl
  cols := rfl
  rhs := rfl
  dense := exDense

end
end Gama.Ls
