/-
  The sub-configuration `(fixed, unused, free)` of `Ex.netWobs` (`B` unused) evaluated over ℝ: the revision leaves the one
  height difference `A→C` of the uncorrelated cluster (variance 16); `project_equations()` hands over the 1×1 system
  `rows = [(1,1)]` (`C.z ↦ 1`), `rhs_ = (4)`, `min_x_ = []`; `NetHyp .gso` holds (`Σ = [16]`, `AᵀPA = [1/4]`, full rank).
-/
import Gama.Lemmas.PeWitnessSub
namespace Gama.C06NZ.Ex
open Gama Gama.Lin Gama.PE Gama.Ls Gama.Ls.Net Gama.LS Gama.C06FP Gama.C06NZ Gama.Ls.Ex Gama.Props.C01 Matrix Gama.NetDecision

noncomputable def net3 : PE.Net ℝ := netWs .fixed .unused .free
noncomputable def rn3 : PE.Net ℝ := revise net3
noncomputable def b3 : PassOut ℝ := ⟨[[(1, 1)]], [4], ⟨1, [(⟨2, .z⟩, 1)]⟩⟩
noncomputable def np3 : NetProblem ℝ :=
  { m := 1, n := 1, rows := #[#[(1, 1)]], rhs := #[4], clusters := npClusters rn3, m0 := 2, minx := [] }

theorem robs3 : revisedObs rn3 = [⟨.h_diff, 2, 0, 2, 0, 5 + 4 / 1000⟩] := rfl

theorem pass3_real : @passFrom ℝ instTrigScalarReal (sigmaOf rn3) rn3.fuel (revisedObs rn3) IdxState.init = .ok b3 := by
  rw [robs3]
  simp only [passFrom, Kind.lin, h_diff_eq]
  show Except.ok (⟨[[(1, 1)]], [((5 + 4 / 1000 : ℝ) - (105 - 100)) * 1000], ⟨1, [(⟨2, .z⟩, 1)]⟩⟩ : PassOut ℝ) = _
  unfold b3
  norm_num

section facade
attribute [local instance] sqrtFnOfSqrtField
attribute [local instance 2000] scalarOfField
attribute [local instance 3000] fieldTrig
attribute [-simp] Gama.C06R.add_eq Gama.C06R.sub_eq Gama.C06R.mul_eq Gama.C06R.div_eq Gama.C06R.neg_eq Gama.C06R.zero_eq
  Gama.C06R.one_eq Gama.C06R.lt_eq Gama.C06R.le_eq

theorem pass3 : passFrom (sigmaOf rn3) rn3.fuel (revisedObs rn3) IdxState.init = .ok b3 := by
  rw [passFrom_inst]; exact pass3_real

noncomputable def asm3 : Asm ℝ := { np := np3, idx := b3.idx, list := unknownsList rn3 b3.idx }

theorem assemble3 : assemble rn3 = .ok asm3 := by
  have hlin : linPass rn3 (revisedObs rn3) (rn3.idx.resetPass (guardOf rn3)) = .ok b3 := by
    unfold linPass
    have h1 : (revisedObs rn3).takeWhile (oriOK rn3) = revisedObs rn3 := rfl
    have h2 : rn3.idx.resetPass (guardOf rn3) = IdxState.init := rfl
    simp only [h1, h2, pass3, if_true]
  unfold assemble
  simp only [hlin]
  rfl

theorem np3_act : activeClusters np3 = [⟨⟨1, 0, #[16]⟩, [true]⟩] := rfl

theorem np3_cofs : cofs np3 = [⟨1, 0, #[16 * (1 / (2 * 2))]⟩] := by
  unfold cofs
  rw [np3_act]
  have e2 := activeCov_1_0_t (K := ℝ) 16
  have hm : np3.m0 = 2 := rfl
  simp only [List.map_cons, List.map_nil, Cluster.cofactor, Net.Cluster.obs, e2, scaleBuf, hm, List.map_toArray]

theorem np3_prepare : ∃ hh, prepare np3 = .ok hh := by
  have e1 := covEps_pos
  have e2 := covEps_small
  have hf : factors (cofs np3) = .ok [⟨1, 0, #[Real.sqrt 4]⟩] := by
    rw [np3_cofs, show (16 : ℝ) * (1 / (2 * 2)) = 4 by norm_num]
    have h2 : Cov.adjCholdec (⟨1, 0, #[4]⟩ : Cov.CovMat ℝ) = .ok ⟨1, 0, #[Real.sqrt 4]⟩ :=
      adjCholdec_1_0 4 (by rw [tolOfS, maxS]; norm_num; linarith)
    simp only [factors, h2]
  unfold prepare
  simp only [hf]
  exact ⟨_, rfl⟩

noncomputable def u3 : Unknowns ℝ := ⟨1, asm3.list, { rn3 with idx := b3.idx }, []⟩

theorem pe3 : projectEquations net3 = .ok (np3, u3) := by
  obtain ⟨hh, hp⟩ := np3_prepare
  have hp' : prepare asm3.np = .ok hh := hp
  have hs : (SingularCoords.singularCoords hh.Ad (idxFn asm3.idx) (ptsOf rn3)).1 = false := rfl
  have hr : revise net3 = rn3 := rfl
  show peLoop 4 net3 [] = _
  unfold peLoop
  simp only [hr, assemble3, hp', hs]
  rfl

theorem np3_dimsN : dimsN np3 = [1] := by unfold dimsN; rw [np3_cofs]; rfl

theorem np3_Sigma : (Sigma np3 : Matrix (Fin 1) (Fin 1) ℝ) = !![16] := by
  ext i j
  show sigmaF np3 i.val j.val = _
  unfold sigmaF
  rw [np3_dimsN, np3_act]
  fin_cases i <;> fin_cases j <;>
    simp [AdjM.locate, Net.Cluster.obs, Cov.activeIdx, Cov.CovMat.get, Cov.Packed.idx, Cov.Packed.rowOff, Cov.CovMat.raw,
      Cov.CovMat.inBuf, List.range, List.range.loop] <;> rfl

noncomputable def Pc3 : Matrix (Fin (toProblem np3).m) (Fin (toProblem np3).m) ℝ := (!![1 / 16] : Matrix (Fin 1) (Fin 1) ℝ)

theorem np3_sigma_inv : Sigma np3 * Pc3 = 1 := by
  have h := np3_Sigma
  have e : (!![16] : Matrix (Fin 1) (Fin 1) ℝ) * !![1 / 16] = 1 := by
    ext i j; fin_cases i; fin_cases j; simp [Matrix.mul_apply]
  exact (congrArg (fun M : Matrix (Fin 1) (Fin 1) ℝ => M * !![1 / 16]) h).trans e

theorem np3_A : ((toProblem np3).A : Matrix (Fin 1) (Fin 1) ℝ) = !![1] := by
  have h : (toProblem np3).A = toMatrix 1 1 (toProblem np3).dense := rfl
  have hd : (toProblem np3).dense = #[#[1]] := by
    simp [Problem.dense, toProblem, np3]
  rw [h, hd]
  ext i j; fin_cases i; fin_cases j; rfl

theorem gap3 : GapAllP (!![1] : Matrix (Fin 1) (Fin 1) ℝ) (((2 : ℝ) * 2) • (!![1 / 16] : Matrix (Fin 1) (Fin 1) ℝ)) (1 / 8192) := by
  intro k β hk _
  right
  have : β 0 = 1 := by fin_cases k; exact hk
  simp [Matrix.mulVec, dotProduct, this]
  norm_num

theorem kerLit3 (g : Fin 1 → ℝ) (hg : (!![1] : Matrix (Fin 1) (Fin 1) ℝ) *ᵥ g = 0) : g = 0 := by
  have h0 := congrFun hg 0
  simp [Matrix.mulVec, dotProduct] at h0
  funext i; fin_cases i; exact h0

theorem np3_netHyp : NetHyp .gso np3 := by
  have hrows : RowsOK (toProblem np3) := by
    intro i hi
    have : i = 0 := by have : i < 1 := hi; omega
    subst this
    simp [toProblem, np3, Array.getD]
  have hm0 : np3.m0 ≠ 0 := by show (2 : ℝ) ≠ 0; norm_num
  have hdim : (dimsN np3).sum = np3.m := by rw [np3_dimsN]; rfl
  have hreg : Env.RegListOK (toProblem np3) := by
    intro l hl
    have : l = [] := by
      have h : Reg.subset [] = Reg.subset l := hl
      injection h with h'; exact h'.symm
    subst this
    exact ⟨List.nodup_nil, fun k hk => by cases hk⟩
  have hker : ∀ g : Fin (toProblem np3).n → ℝ, (toProblem np3).A *ᵥ g = 0 → g = 0 := by
    intro g hg
    have h := kerLit3 g
    rw [← np3_A] at h
    exact h hg
  have hgap : RankGap (toProblem np3).A ((np3.m0 * np3.m0) • Pc3) (toProblem np3).S (1 / 8192) := by
    refine ⟨?_, fun g hg hne => (hne (hker g hg)).elim⟩
    have h := gap3
    rw [← np3_A] at h
    exact h
  exact { rows := hrows, m0 := hm0, weight := ⟨Pc3, np3_sigma_inv⟩
          first := C01_net_solverhyp_of_gap np3 hdim hrows hm0 Pc3 np3_sigma_inv hreg C01_gap_thresholds_default hgap .gso (by decide)
          second := trivial }

theorem cfg3_netHyp (np : NetProblem ℝ) (hp : (peWorld netWobs (dcfg .fixed .unused .free)).prob = some np) :
    NetHyp .gso np := by
  have h : projectEquations (withStatuses netWobs (dcfg .fixed .unused .free)) = .ok (np3, u3) := pe3
  rw [peWorld_prob_eq netWobs _ _ _ h np hp]
  exact np3_netHyp

end facade
end Gama.C06NZ.Ex
