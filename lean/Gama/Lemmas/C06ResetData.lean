/-
  C06 (round 4) — ONE concrete network for the non-vacuity example of `C06_acord_intersection_sound` /
  `C06_reset_ok`: a point determined by two distances, with a direction from an oriented station deciding the
  side.  Shared by Gama/Lemmas/C06Reset.lean (the exactness hypotheses hold for it) and
  Gama/Lemmas/C06ResetEval.lean (`aiExecute` evaluated on it end to end over ℝ).

  Points (ids ℕ):  0 = A (−3/4, 0),  1 = B (3/4, 0),  2 = C (0, 0)  — given;   3 = X (0, 1) — to be computed.
  Observations:    cluster 0 (station X, not oriented):  distance X→A = 5/4,  distance X→B = 5/4
                   cluster 1 (station C, orientation 0): direction C→X, value π/2 (bearing of X from C)
  The two circles meet in (0, 1) and (0, −1); Select_solution_g2d decides by the direction (its "tolerance" for a
  direction is the distance station–candidate in metres, compared with the angular deviation in radians: the
  deviation π of the wrong candidate has to exceed that distance, hence the small network).
-/
import Gama.Lemmas.C06Inter
open Gama Gama.Cogo Gama.C06R Gama.Acord Gama.C06A Gama.Inter

namespace Gama.C06RD

/-- the true coordinates -/
noncomputable def rT : Truth ℕ :=
  ⟨fun i => if i = 0 then -(3/4) else if i = 1 then 3/4 else 0, fun i => if i = 3 then 1 else 0, fun _ => 0⟩

/-- the clusters of `OD` as AcordIntersection sees them -/
noncomputable def rCls : List (Cl ℕ ℝ) :=
  [⟨none, [.distance 3 0 (5/4), .distance 3 1 (5/4)]⟩, ⟨some 0, [.direction 2 3 (Real.pi / 2)]⟩]

/-- the point list: A, B, C given (xy only), X unknown -/
noncomputable def rPd : PD ℕ ℝ := fun i =>
  if i = 0 then ⟨-(3/4), 0, 0, true, false⟩ else if i = 1 then ⟨3/4, 0, 0, true, false⟩
  else if i = 2 then ⟨0, 0, 0, true, false⟩ else LP.unset

/-- the state AcordIntersection::execute starts from: `missing_xy_ = {X}`, static small-angle limit 0.15 -/
noncomputable def rSt : AiState ℕ ℝ := ⟨rPd, [none, some 0], [3], salDefault⟩

def rKeys : List ℕ := [0, 1, 2, 3]
def rLt (a b : ℕ) : Bool := decide (a < b)

end Gama.C06RD
