/-
  C16: `Envelope::set(sm, graph, ordering)` – the profile computed from the graph and the
  ordering is well shaped, covers every structurally non-zero cell of `PᵀAᵀAP`, and the
  accumulation loop stores exactly the dense normal matrix.

  Main results (all for a well-formed `A`, `g` = column graph of `A` (`AdjOf`), `o` a
  permutation of `1..A.cols`):
  * `ofSparse_profileOK`, `ofSparse_dim`, `ofSparse_defect`, `ofSparse_width`;
  * `minNeighbours_spec`, `minNeighbours_attained`, `width_ge_of_nbr`, `profile_covers`;
  * `ofSparse_entry` (over a linearly ordered field with `ordFieldScalar`; no `nodupRows`),
    `ofSparse_element`, `profile_covers_dense`, `ofSparse_entry_symm`;
  * the loop invariants `accRow_ent` (one sparse row adds `a aᵀ`) and `accAll_ent`.
-/
import Gama.Lemmas.SparseBasic
import Mathlib.Tactic.Ring
import Mathlib.Tactic.Linarith

set_option autoImplicit false

namespace Gama
namespace Env

/-! ### sanity: the definitions on a concrete instance -/

/-- path graph 1 – 2 – 3 with the ordering (3,1,2): `xadj = [_,0,1,3,4]`, `adjncy = [2,1,3,2]` -/
example :
    minNeighbours { nodes := 3, xadj := #[0,0,1,3,4], adjncy := #[2,1,3,2] }
      { nodes := 3, perm := #[0,3,1,2], invp := #[0,2,3,1] } 3 = #[0,1,2,1] := by decide

example : profileOf #[0,1,2,1] 3 = #[0,0,0,0,2] := by decide

/-! ### array helpers -/

theorem getI_set (a : Array Nat) (i k v : Nat) :
    (a.setIfInBounds i v)[k]! = if i = k ∧ i < a.size then v else a[k]! := by
  simp only [Array.getElem!_eq_getD, Array.getD_eq_getD_getElem?, Array.getElem?_setIfInBounds]
  by_cases h : i = k
  · by_cases h2 : i < a.size
    · subst h; simp [h2]
    · subst h
      simp [h2]
  · simp [h]

theorem getI_eq_getD (a : Array Nat) (k : Nat) : a[k]! = a.getD k 0 := rfl

theorem getI_range (n k : Nat) : (Array.range n)[k]! = if k < n then k else 0 := by
  simp only [Array.getElem!_eq_getD, Array.getD_eq_getD_getElem?, Array.getElem?_range]
  split <;> rfl

theorem getI_replicate (n k v : Nat) : (Array.replicate n v)[k]! = if k < n then v else 0 := by
  simp only [Array.getElem!_eq_getD, Array.getD_eq_getD_getElem?, Array.getElem?_replicate]
  split <;> rfl

/-! ### `minNeighbours` -/

/-- the neighbour scan of one node -/
def mnInner (o : SOrdering) (node : Nat) (l : List Nat) (mn : Array Nat) : Array Nat :=
  l.foldl (fun mn nb =>
      let c := o.invp[nb]!
      if mn[node]! > c then mn.setIfInBounds node c else mn) mn

theorem mnInner_spec (o : SOrdering) (node : Nat) (l : List Nat) (mn : Array Nat) :
    (mnInner o node l mn).size = mn.size ∧
    (∀ k, k ≠ node → (mnInner o node l mn)[k]! = mn[k]!) ∧
    (mnInner o node l mn)[node]! ≤ mn[node]! ∧
    (node < mn.size → ∀ nb ∈ l, (mnInner o node l mn)[node]! ≤ o.invp[nb]!) ∧
    ((mnInner o node l mn)[node]! = mn[node]! ∨ ∃ nb ∈ l, (mnInner o node l mn)[node]! = o.invp[nb]!) := by
  induction l generalizing mn with
  | nil => simp [mnInner]
  | cons a t ih =>
    have hstep : mnInner o node (a :: t) mn =
        mnInner o node t (if mn[node]! > o.invp[a]! then mn.setIfInBounds node o.invp[a]! else mn) := rfl
    rw [hstep]
    obtain ⟨h1, h2, h3, h4, h5⟩ := ih (if mn[node]! > o.invp[a]! then mn.setIfInBounds node o.invp[a]! else mn)
    by_cases hc : mn[node]! > o.invp[a]!
    · simp only [hc, if_true] at h1 h2 h3 h4 h5 ⊢
      rw [Array.size_setIfInBounds] at h1 h4
      refine ⟨h1, ?_, ?_, ?_, ?_⟩
      · intro k hk
        rw [h2 k hk, getI_set]
        simp [Ne.symm hk]
      · rw [getI_set] at h3
        split at h3 <;> omega
      · intro hn nb hnb
        have h3' := h3
        rw [getI_set] at h3'
        simp only [hn, and_self, if_true] at h3'
        rcases List.mem_cons.1 hnb with rfl | hnb
        · exact h3'
        · exact h4 hn nb hnb
      · by_cases hn : node < mn.size
        · right
          rcases h5 with h5 | ⟨nb, hnb, h5⟩
          · refine ⟨a, List.mem_cons_self, ?_⟩
            rw [h5, getI_set]; simp [hn]
          · exact ⟨nb, List.mem_cons_of_mem _ hnb, h5⟩
        · rcases h5 with h5 | ⟨nb, hnb, h5⟩
          · left
            rw [h5, getI_set]; simp [hn]
          · right; exact ⟨nb, List.mem_cons_of_mem _ hnb, h5⟩
    · simp only [hc, if_false] at h1 h2 h3 h4 h5 ⊢
      refine ⟨h1, h2, h3, ?_, ?_⟩
      · intro hn nb hnb
        rcases List.mem_cons.1 hnb with rfl | hnb
        · omega
        · exact h4 hn nb hnb
      · rcases h5 with h5 | ⟨nb, hnb, h5⟩
        · left; exact h5
        · right; exact ⟨nb, List.mem_cons_of_mem _ hnb, h5⟩

/-- the node loop of `minNeighbours` over an arbitrary list of nodes -/
def mnOuter (g : Adj) (o : SOrdering) (l : List Nat) (mn : Array Nat) : Array Nat :=
  l.foldl (fun mn node => mnInner o node (g.nbrs (o.perm[node]!)) mn) mn

theorem minNeighbours_eq (g : Adj) (o : SOrdering) (dim : Nat) :
    minNeighbours g o dim = mnOuter g o (List.range' 1 g.nodes) (Array.range (dim + 1)) := rfl

theorem mnOuter_spec (g : Adj) (o : SOrdering) (l : List Nat) (hl : l.Nodup) (mn : Array Nat) :
    (mnOuter g o l mn).size = mn.size ∧
    (∀ k, k ∉ l → (mnOuter g o l mn)[k]! = mn[k]!) ∧
    (∀ k, k ∈ l →
      (mnOuter g o l mn)[k]! ≤ mn[k]! ∧
      (k < mn.size → ∀ nb ∈ g.nbrs (o.perm[k]!), (mnOuter g o l mn)[k]! ≤ o.invp[nb]!) ∧
      ((mnOuter g o l mn)[k]! = mn[k]! ∨
        ∃ nb ∈ g.nbrs (o.perm[k]!), (mnOuter g o l mn)[k]! = o.invp[nb]!)) := by
  induction l generalizing mn with
  | nil => simp [mnOuter]
  | cons a t ih =>
    have hstep : mnOuter g o (a :: t) mn = mnOuter g o t (mnInner o a (g.nbrs (o.perm[a]!)) mn) := rfl
    rw [hstep]
    obtain ⟨hat, ht⟩ := List.nodup_cons.1 hl
    obtain ⟨i1, i2, i3, i4, i5⟩ := mnInner_spec o a (g.nbrs (o.perm[a]!)) mn
    obtain ⟨h1, h2, h3⟩ := ih ht (mnInner o a (g.nbrs (o.perm[a]!)) mn)
    refine ⟨h1.trans i1, ?_, ?_⟩
    · intro k hk
      have hka : k ≠ a := fun h => hk (h ▸ List.mem_cons_self)
      have hkt : k ∉ t := fun h => hk (List.mem_cons_of_mem _ h)
      rw [h2 k hkt, i2 k hka]
    · intro k hk
      by_cases hka : k = a
      · subst hka
        rw [h2 k hat]
        exact ⟨i3, i4, i5⟩
      · have hkt : k ∈ t := by
          rcases List.mem_cons.1 hk with h | h
          · exact absurd h hka
          · exact h
        have := h3 k hkt
        rw [i2 k hka, i1] at this
        exact this

/-! ### `profileOf` -/

/-- body of the pointer loop -/
def profStep (mn : Array Nat) (p : Array Nat × Nat) (i : Nat) : Array Nat × Nat :=
  ((p.1.setIfInBounds i p.2).setIfInBounds (i + 1) (p.2 + (i - mn[i]!)), p.2 + (i - mn[i]!))

theorem profileOf_eq (mn : Array Nat) (dim : Nat) :
    profileOf mn dim = ((List.range' 1 dim).foldl (profStep mn) (Array.replicate (dim + 2) 0, 0)).1 := rfl

theorem profFold_spec (mn : Array Nat) (dim m : Nat) (hm : m ≤ dim) :
    ((List.range' 1 m).foldl (profStep mn) (Array.replicate (dim + 2) 0, 0)).1.size = dim + 2 ∧
    ((List.range' 1 m).foldl (profStep mn) (Array.replicate (dim + 2) 0, 0)).2 =
      ((List.range' 1 m).foldl (profStep mn) (Array.replicate (dim + 2) 0, 0)).1[m + 1]! ∧
    ((List.range' 1 m).foldl (profStep mn) (Array.replicate (dim + 2) 0, 0)).1[1]! = 0 ∧
    (∀ i, 1 ≤ i → i ≤ m →
      ((List.range' 1 m).foldl (profStep mn) (Array.replicate (dim + 2) 0, 0)).1[i + 1]! =
      ((List.range' 1 m).foldl (profStep mn) (Array.replicate (dim + 2) 0, 0)).1[i]! + (i - mn[i]!)) := by
  induction m with
  | zero =>
    refine ⟨by simp, ?_, ?_, ?_⟩
    · simp
    · simp
    · intro i h1 h2; omega
  | succ m ih =>
    obtain ⟨h1, h2, h3, h4⟩ := ih (by omega)
    rw [List.range'_1_concat, List.foldl_append]
    generalize (List.range' 1 m).foldl (profStep mn) (Array.replicate (dim + 2) 0, 0) = p at h1 h2 h3 h4
    obtain ⟨arr, e⟩ := p
    simp only at h1 h2 h3 h4
    simp only [List.foldl_cons, List.foldl_nil, profStep]
    have e1 : 1 + m = m + 1 := by omega
    rw [e1]
    have hs : (arr.setIfInBounds (m + 1) e).size = dim + 2 := by rw [Array.size_setIfInBounds, h1]
    have hget : ∀ k, ((arr.setIfInBounds (m + 1) e).setIfInBounds (m + 1 + 1) (e + (m + 1 - mn[m + 1]!)))[k]! =
        if k = m + 1 + 1 then e + (m + 1 - mn[m + 1]!) else arr[k]! := by
      intro k
      rw [getI_set, getI_set, hs, h1]
      by_cases hk : k = m + 1 + 1
      · subst hk; simp; omega
      · by_cases hk2 : k = m + 1
        · subst hk2; simp [h2]
        · have : ¬ (m + 1 + 1 = k) := fun h => hk h.symm
          have : ¬ (m + 1 = k) := fun h => hk2 h.symm
          simp [*]
    refine ⟨by rw [Array.size_setIfInBounds, hs], ?_, ?_, ?_⟩
    · rw [hget]; simp
    · rw [hget]; simp [h3]
    · intro i hi1 hi2
      rw [hget, hget]
      by_cases hi : i = m + 1
      · subst hi
        simp [h2]
      · have a1 : ¬ (i + 1 = m + 1 + 1) := by omega
        have a2 : ¬ (i = m + 1 + 1) := by omega
        simp only [a1, a2, if_false]
        exact h4 i hi1 (by omega)

theorem profileOf_spec (mn : Array Nat) (dim : Nat) :
    (profileOf mn dim).size = dim + 2 ∧ (profileOf mn dim)[1]! = 0 ∧
    (∀ i, 1 ≤ i → i ≤ dim → (profileOf mn dim)[i + 1]! = (profileOf mn dim)[i]! + (i - mn[i]!)) := by
  obtain ⟨h1, _, h3, h4⟩ := profFold_spec mn dim dim (Nat.le_refl _)
  rw [profileOf_eq]
  exact ⟨h1, h3, h4⟩

/-! ### well-formed matrices: positions and column indices of a row -/

section WF
variable {K : Type}

theorem rptr_le_ncnt {A : SMat K} (hA : A.WF) (d : Nat) :
    ∀ r, 1 ≤ r → r + d = A.rows + 1 → A.rptr[r]! ≤ A.ncnt := by
  induction d with
  | zero =>
    intro r _ h
    have : r = A.rows + 1 := by omega
    subst this
    exact Nat.le_of_eq hA.rptr_last
  | succ d ih =>
    intro r h1 h
    have := ih (r + 1) (by omega) (by omega)
    have := hA.rptr_mono r h1 (by omega)
    omega

theorem rowRange_lt_ncnt {A : SMat K} (hA : A.WF) {r p : Nat} (h1 : 1 ≤ r) (h2 : r ≤ A.rows)
    (hp : p ∈ A.rowRange r) : p < A.ncnt := by
  unfold SMat.rowRange at hp
  rw [List.mem_range'_1] at hp
  have := rptr_le_ncnt hA (A.rows - r) (r + 1) (by omega) (by omega)
  have := hA.rptr_mono r h1 h2
  omega

theorem rowCols_range {A : SMat K} (hA : A.WF) {r c : Nat} (h1 : 1 ≤ r) (h2 : r ≤ A.rows)
    (hc : c ∈ A.rowCols r) : 1 ≤ c ∧ c ≤ A.cols := by
  unfold SMat.rowCols at hc
  obtain ⟨p, hp, rfl⟩ := List.mem_map.1 hc
  exact hA.cind_range p (rowRange_lt_ncnt hA h1 h2 hp)

end WF

/-! ### `accRow` keeps the array sizes -/

section Sizes
variable {K : Type} [Scalar K]

theorem foldl_modify_size {α β : Type} (f : β → Nat) (h : β → α → α) (l : List β) (a : Array α) :
    (l.foldl (fun a q => a.modify (f q) (h q)) a).size = a.size := by
  induction l generalizing a with
  | nil => rfl
  | cons x t ih => rw [List.foldl_cons, ih, Array.size_modify]

/-- the body of the `j` loop of `set` for a fixed entry `(ia, fa)` of the row: an index repeated
    in the row adds `2*fa*fb` to the diagonal, any other one `fa*fb` to the profile cell -/
def accStep (xenv : Array Nat) (ia : Nat) (fa : K) (p : Array K × Array K) (q : Nat × K) :
    Array K × Array K :=
  if ia == q.1 then (p.1.modify (ia - 1) (· + Scalar.ofNat 2 * fa * q.2), p.2)
  else (p.1, p.2.modify (xenv.getD (max ia q.1 + 1) 0 - (max ia q.1 - min ia q.1)) (· + fa * q.2))

theorem accRow_cons (xenv : Array Nat) (ia : Nat) (fa : K) (rest : List (Nat × K))
    (diag env : Array K) :
    accRow xenv ((ia, fa) :: rest) (diag, env) =
      accRow xenv rest (rest.foldl (accStep xenv ia fa) (diag.modify (ia - 1) (· + fa * fa), env)) := rfl

theorem accStep_size (xenv : Array Nat) (ia : Nat) (fa : K) (p : Array K × Array K) (q : Nat × K) :
    (accStep xenv ia fa p q).1.size = p.1.size ∧ (accStep xenv ia fa p q).2.size = p.2.size := by
  unfold accStep
  split
  · exact ⟨Array.size_modify, rfl⟩
  · exact ⟨rfl, Array.size_modify⟩

theorem accStep_foldl_size (xenv : Array Nat) (ia : Nat) (fa : K) (t : List (Nat × K))
    (p : Array K × Array K) :
    (t.foldl (accStep xenv ia fa) p).1.size = p.1.size ∧
    (t.foldl (accStep xenv ia fa) p).2.size = p.2.size := by
  induction t generalizing p with
  | nil => exact ⟨rfl, rfl⟩
  | cons q t ih =>
    rw [List.foldl_cons]
    obtain ⟨h1, h2⟩ := ih (accStep xenv ia fa p q)
    obtain ⟨h3, h4⟩ := accStep_size xenv ia fa p q
    exact ⟨h1.trans h3, h2.trans h4⟩

theorem accRow_size (xenv : Array Nat) (l : List (Nat × K)) (p : Array K × Array K) :
    (accRow xenv l p).1.size = p.1.size ∧ (accRow xenv l p).2.size = p.2.size := by
  induction l generalizing p with
  | nil => exact ⟨rfl, rfl⟩
  | cons x t ih =>
    obtain ⟨ia, fa⟩ := x
    obtain ⟨diag, env⟩ := p
    rw [accRow_cons]
    obtain ⟨h1, h2⟩ := ih (t.foldl (accStep xenv ia fa) (diag.modify (ia - 1) (· + fa * fa), env))
    obtain ⟨h3, h4⟩ := accStep_foldl_size xenv ia fa t (diag.modify (ia - 1) (· + fa * fa), env)
    exact ⟨h1.trans (h3.trans Array.size_modify), h2.trans h4⟩

/-- the permuted sparse row `r` as the C++ copies it to `c[]`, `a[]` -/
def permRow (A : SMat K) (o : SOrdering) (r : Nat) : List (Nat × K) :=
  (A.rowRange r).map fun q => (o.invp[A.cind[q]!]!, A.nonz.getD q 0)

/-- the row loop of `set` over an arbitrary list of rows -/
def accAll (A : SMat K) (o : SOrdering) (xenv : Array Nat) (rs : List Nat)
    (p : Array K × Array K) : Array K × Array K :=
  rs.foldl (fun p r => accRow xenv (permRow A o r) p) p

theorem accAll_size (A : SMat K) (o : SOrdering) (xenv : Array Nat) (rs : List Nat)
    (p : Array K × Array K) :
    (accAll A o xenv rs p).1.size = p.1.size ∧ (accAll A o xenv rs p).2.size = p.2.size := by
  induction rs generalizing p with
  | nil => exact ⟨rfl, rfl⟩
  | cons r t ih =>
    have : accAll A o xenv (r :: t) p = accAll A o xenv t (accRow xenv (permRow A o r) p) := rfl
    rw [this]
    obtain ⟨h1, h2⟩ := ih (accRow xenv (permRow A o r) p)
    obtain ⟨h3, h4⟩ := accRow_size xenv (permRow A o r) p
    exact ⟨h1.trans h3, h2.trans h4⟩

theorem ofSparse_pos (A : SMat K) (g : Adj) (o : SOrdering) (h : 0 < A.cols) :
    ofSparse A g o =
      { dim := A.cols, defect := 0
        diag := (accAll A o (profileOf (minNeighbours g o A.cols) A.cols) (List.range' 1 A.rows)
          (Array.replicate A.cols (0 : K),
           Array.replicate ((profileOf (minNeighbours g o A.cols) A.cols).getD (A.cols + 1) 0) (0 : K))).1
        env := (accAll A o (profileOf (minNeighbours g o A.cols) A.cols) (List.range' 1 A.rows)
          (Array.replicate A.cols (0 : K),
           Array.replicate ((profileOf (minNeighbours g o A.cols) A.cols).getD (A.cols + 1) 0) (0 : K))).2
        xenv := profileOf (minNeighbours g o A.cols) A.cols } := by
  unfold ofSparse
  have : A.cols ≠ 0 := by omega
  simp only [this, if_false]
  rfl

theorem ofSparse_zero (A : SMat K) (g : Adj) (o : SOrdering) (h : A.cols = 0) :
    ofSparse A g o = empty := by
  unfold ofSparse
  simp [h]

theorem ofSparse_dim (A : SMat K) (g : Adj) (o : SOrdering) : (ofSparse A g o).dim = A.cols := by
  by_cases h : A.cols = 0
  · rw [ofSparse_zero A g o h, h]; rfl
  · rw [ofSparse_pos A g o (by omega)]

theorem ofSparse_defect (A : SMat K) (g : Adj) (o : SOrdering) : (ofSparse A g o).defect = 0 := by
  by_cases h : A.cols = 0
  · rw [ofSparse_zero A g o h]; rfl
  · rw [ofSparse_pos A g o (by omega)]

omit [Scalar K] in
theorem elementLoc_gt (E : Env K) {i j : Nat} (h : i > j) :
    E.elementLoc i j =
      if i - j > E.xenv.getD (i + 1) 0 - E.xenv.getD i 0 then none
      else some (.env (E.xenv.getD (i + 1) 0 - (i - j))) := by
  unfold elementLoc
  rw [if_pos h]
  rfl

omit [Scalar K] in
theorem elementLoc_lt (E : Env K) {i j : Nat} (h : i < j) :
    E.elementLoc i j =
      if j - i > E.xenv.getD (j + 1) 0 - E.xenv.getD j 0 then none
      else some (.env (E.xenv.getD (j + 1) 0 - (j - i))) := by
  unfold elementLoc
  rw [if_neg (show ¬ i > j by omega), if_pos h]
  rfl

omit [Scalar K] in
theorem elementLoc_eq (E : Env K) (i : Nat) :
    E.elementLoc i i = some (.diag (i - 1)) := by
  unfold elementLoc
  rw [if_neg (show ¬ i > i by omega), if_neg (show ¬ i < i by omega)]

/-- `element(i,j)` is `nullptr` left of the profile, hence the entry reads as 0 -/
theorem entry_outside (E : Env K) {i j : Nat} (hji : j < i) (hout : E.width i < i - j) :
    E.entry i j = 0 := by
  unfold entry element
  rw [elementLoc_gt E hji, if_pos (show i - j > E.xenv.getD (i + 1) 0 - E.xenv.getD i 0 from hout)]
  rfl

omit [Scalar K] in
theorem elementLoc_symm (E : Env K) (i j : Nat) : E.elementLoc i j = E.elementLoc j i := by
  rcases Nat.lt_trichotomy i j with h | h | h
  · rw [elementLoc_lt E h, elementLoc_gt E h]
  · rw [h]
  · rw [elementLoc_gt E h, elementLoc_lt E h]

theorem entry_symm (E : Env K) (i j : Nat) : E.entry i j = E.entry j i := by
  unfold entry element
  rw [elementLoc_symm]

end Sizes

/-! ### goal 1 and 2: the profile of `Envelope::set` -/

section Profile
variable {K : Type}

/-- the adjacency structure describes the column graph of `A` (what `graphOf A` computes) -/
def AdjOf (A : SMat K) (g : Adj) : Prop :=
  ∀ i j, 1 ≤ i → i ≤ A.cols →
    (j ∈ g.nbrs i ↔ i ≠ j ∧ ∃ r, 1 ≤ r ∧ r ≤ A.rows ∧ i ∈ A.rowCols r ∧ j ∈ A.rowCols r)

theorem nbrs_range {A : SMat K} {g : Adj} (hA : A.WF) (hadj : AdjOf A g) {i j : Nat}
    (h1 : 1 ≤ i) (h2 : i ≤ A.cols) (hj : j ∈ g.nbrs i) : 1 ≤ j ∧ j ≤ A.cols := by
  obtain ⟨_, r, hr1, hr2, _, hjr⟩ := (hadj i j h1 h2).1 hj
  exact rowCols_range hA hr1 hr2 hjr

/-- `min_neighbour[i]` after the scan: between 1 and `i`, and not above the new number of any
    neighbour of the node that gets number `i` -/
theorem minNeighbours_spec {A : SMat K} {g : Adj} {o : SOrdering} (hA : A.WF)
    (hg : g.nodes = A.cols) (hadj : AdjOf A g) (ho : o.IsPerm A.cols)
    {i : Nat} (h1 : 1 ≤ i) (h2 : i ≤ A.cols) :
    1 ≤ (minNeighbours g o A.cols)[i]! ∧ (minNeighbours g o A.cols)[i]! ≤ i ∧
    ∀ nb ∈ g.nbrs (o.perm[i]!), (minNeighbours g o A.cols)[i]! ≤ o.invp[nb]! := by
  rw [minNeighbours_eq, hg]
  obtain ⟨_, _, h⟩ := mnOuter_spec g o (List.range' 1 A.cols) (List.nodup_range' 1) (Array.range (A.cols + 1))
  obtain ⟨a, b, c⟩ := h i (by rw [List.mem_range'_1]; omega)
  rw [getI_range] at a c
  have hlt : i < A.cols + 1 := by omega
  simp only [hlt, if_true] at a c
  refine ⟨?_, a, b (by rw [Array.size_range]; exact hlt)⟩
  rcases c with c | ⟨nb, hnb, c⟩
  · omega
  · rw [c]
    obtain ⟨p1, p2⟩ := ho.perm_range i h1 h2
    obtain ⟨n1, n2⟩ := nbrs_range hA hadj p1 p2 hnb
    exact (ho.invp_range nb n1 n2).1

/-- the minimum is attained: `mn[i] = min(i, min_{nb ∈ nbrs(perm i)} invp nb)` together with
    `minNeighbours_spec` -/
theorem minNeighbours_attained {A : SMat K} {g : Adj} {o : SOrdering}
    (hg : g.nodes = A.cols) {i : Nat} (h1 : 1 ≤ i) (h2 : i ≤ A.cols) :
    (minNeighbours g o A.cols)[i]! = i ∨
    ∃ nb ∈ g.nbrs (o.perm[i]!), (minNeighbours g o A.cols)[i]! = o.invp[nb]! := by
  rw [minNeighbours_eq, hg]
  obtain ⟨_, _, h⟩ := mnOuter_spec g o (List.range' 1 A.cols) (List.nodup_range' 1) (Array.range (A.cols + 1))
  obtain ⟨_, _, c⟩ := h i (by rw [List.mem_range'_1]; omega)
  rw [getI_range, if_pos (show i < A.cols + 1 by omega)] at c
  exact c

/-- the row pointers produced by `set`: `xenv[1] = 0`, `xenv[i+1] = xenv[i] + (i − mn[i])` -/
theorem xenv_spec {A : SMat K} {g : Adj} {o : SOrdering} (hA : A.WF)
    (hg : g.nodes = A.cols) (hadj : AdjOf A g) (ho : o.IsPerm A.cols) :
    (profileOf (minNeighbours g o A.cols) A.cols).size = A.cols + 2 ∧
    (profileOf (minNeighbours g o A.cols) A.cols).getD 1 0 = 0 ∧
    ∀ i, 1 ≤ i → i ≤ A.cols →
      (profileOf (minNeighbours g o A.cols) A.cols).getD (i + 1) 0 =
        (profileOf (minNeighbours g o A.cols) A.cols).getD i 0 + (i - (minNeighbours g o A.cols)[i]!) ∧
      1 ≤ (minNeighbours g o A.cols)[i]! ∧ (minNeighbours g o A.cols)[i]! ≤ i := by
  obtain ⟨s1, s2, s3⟩ := profileOf_spec (minNeighbours g o A.cols) A.cols
  refine ⟨s1, s2, ?_⟩
  intro i h1 h2
  obtain ⟨m1, m2, _⟩ := minNeighbours_spec hA hg hadj ho h1 h2
  exact ⟨s3 i h1 h2, m1, m2⟩

/-- two columns of one sparse row: the later new number reaches back to the earlier one -/
theorem cov_of_lt {A : SMat K} {g : Adj} {o : SOrdering} (hA : A.WF)
    (hg : g.nodes = A.cols) (hadj : AdjOf A g) (ho : o.IsPerm A.cols)
    {r : Nat} (hr1 : 1 ≤ r) (hr : r ≤ A.rows) {c c' : Nat} (hc : c ∈ A.rowCols r)
    (hc' : c' ∈ A.rowCols r) (hlt : o.invp[c']! < o.invp[c]!) :
    o.invp[c]! - o.invp[c']! ≤
      (profileOf (minNeighbours g o A.cols) A.cols).getD (o.invp[c]! + 1) 0 -
      (profileOf (minNeighbours g o A.cols) A.cols).getD (o.invp[c]!) 0 := by
  obtain ⟨c1, c2⟩ := rowCols_range hA hr1 hr hc
  obtain ⟨a1, a2⟩ := ho.invp_range c c1 c2
  have hne : c ≠ c' := by
    intro h; subst h; omega
  have hnb : c' ∈ g.nbrs c := (hadj c c' c1 c2).2 ⟨hne, r, hr1, hr, hc, hc'⟩
  have hm := (minNeighbours_spec hA hg hadj ho a1 a2).2.2
  rw [ho.perm_invp c c1 c2] at hm
  have := hm c' hnb
  obtain ⟨_, _, s3⟩ := xenv_spec hA hg hadj ho
  have := (s3 _ a1 a2).1
  omega

variable [Scalar K]

/-- **Goal 1.**  `Envelope::set` produces a well shaped profile (for at least one column; for
    `dim = 0` the C++ leaves all pointers null and the model is `Env.empty`). -/
theorem ofSparse_profileOK {A : SMat K} {g : Adj} {o : SOrdering} (hA : A.WF)
    (hg : g.nodes = A.cols) (hadj : AdjOf A g) (ho : o.IsPerm A.cols) (hpos : 0 < A.cols) :
    (ofSparse A g o).ProfileOK := by
  obtain ⟨s1, s2, s3⟩ := xenv_spec hA hg hadj ho
  rw [ofSparse_pos A g o hpos]
  constructor
  · exact s1
  · exact (accAll_size _ _ _ _ _).1.trans Array.size_replicate
  · exact s2
  · intro i h1 h2
    dsimp only at h2 ⊢
    have := (s3 i h1 h2).1
    omega
  · intro i h1 h2
    dsimp only at h2 ⊢
    obtain ⟨a, b, c⟩ := s3 i h1 h2
    omega
  · exact (accAll_size _ _ _ _ _).2.trans Array.size_replicate

/-- width of profile row `i` is `i − min_neighbour[i]` -/
theorem ofSparse_width {A : SMat K} {g : Adj} {o : SOrdering} (hA : A.WF)
    (hg : g.nodes = A.cols) (hadj : AdjOf A g) (ho : o.IsPerm A.cols)
    {i : Nat} (h1 : 1 ≤ i) (h2 : i ≤ A.cols) :
    (ofSparse A g o).width i = i - (minNeighbours g o A.cols)[i]! := by
  obtain ⟨_, _, s3⟩ := xenv_spec hA hg hadj ho
  rw [ofSparse_pos A g o (by omega)]
  have := (s3 i h1 h2).1
  simp only [width, rowEnd, rowBegin]
  omega

/-- the ≤-half of `mn[i] = min(i, min_{nb ∈ nbrs(perm i)} invp nb)` in terms of the width -/
theorem width_ge_of_nbr {A : SMat K} {g : Adj} {o : SOrdering} (hA : A.WF)
    (hg : g.nodes = A.cols) (hadj : AdjOf A g) (ho : o.IsPerm A.cols)
    {i : Nat} (h1 : 1 ≤ i) (h2 : i ≤ A.cols) {nb : Nat} (hnb : nb ∈ g.nbrs (o.perm[i]!)) :
    i - o.invp[nb]! ≤ (ofSparse A g o).width i := by
  rw [ofSparse_width hA hg hadj ho h1 h2]
  have := (minNeighbours_spec hA hg hadj ho h1 h2).2.2 nb hnb
  omega

/-- **Goal 2.**  Structural coverage: two different new column numbers `j < i` that meet in a
    sparse row lie within the profile of row `i`. -/
theorem profile_covers {A : SMat K} {g : Adj} {o : SOrdering} (hA : A.WF)
    (hg : g.nodes = A.cols) (hadj : AdjOf A g) (ho : o.IsPerm A.cols)
    {i j : Nat} (hj1 : 1 ≤ j) (hji : j < i) (hi : i ≤ A.cols)
    (hrow : ∃ r, 1 ≤ r ∧ r ≤ A.rows ∧ o.perm[i]! ∈ A.rowCols r ∧ o.perm[j]! ∈ A.rowCols r) :
    i - j ≤ (ofSparse A g o).width i := by
  have hi1 : 1 ≤ i := by omega
  obtain ⟨p1, p2⟩ := ho.perm_range i hi1 hi
  have hne : o.perm[i]! ≠ o.perm[j]! := by
    intro h
    have a := ho.invp_perm i hi1 hi
    have b := ho.invp_perm j hj1 (by omega)
    rw [h, b] at a
    omega
  have hnb : o.perm[j]! ∈ g.nbrs (o.perm[i]!) := (hadj _ _ p1 p2).2 ⟨hne, hrow⟩
  have := width_ge_of_nbr hA hg hadj ho hi1 hi hnb
  rw [ho.invp_perm j hj1 (by omega)] at this
  exact this

end Profile

/-! ### goal 3: the accumulation loop stores the dense normal matrix -/

section Accumulate
variable {K : Type} [Field K]

theorem getD_modify {α : Type} (a : Array α) (i k : Nat) (f : α → α) (d : α) :
    (a.modify i f).getD k d = if i = k ∧ k < a.size then f (a.getD k d) else a.getD k d := by
  simp only [Array.getD_eq_getD_getElem?, Array.getElem?_modify]
  by_cases h : i = k
  · subst h
    by_cases h2 : i < a.size
    · simp [h2]
    · simp [h2]
  · simp [h]

theorem getD_replicate_zero (n k : Nat) : (Array.replicate n (0 : K)).getD k 0 = 0 := by
  simp only [Array.getD_eq_getD_getElem?, Array.getElem?_replicate]
  split <;> rfl

/-- monotone row pointers `xenv[1] ≤ xenv[2] ≤ … ≤ xenv[n+1]` -/
def Shape (xenv : Array Nat) (n : Nat) : Prop :=
  ∀ i, 1 ≤ i → i ≤ n → xenv.getD i 0 ≤ xenv.getD (i + 1) 0

theorem Shape.le {xenv : Array Nat} {n : Nat} (hS : Shape xenv n) {i : Nat} (h1 : 1 ≤ i) (d : Nat) :
    i + d ≤ n + 1 → xenv.getD i 0 ≤ xenv.getD (i + d) 0 := by
  induction d with
  | zero => intro _; exact Nat.le_refl _
  | succ d ih =>
    intro h
    have a := ih (by omega)
    have b := hS (i + d) (by omega) (by omega)
    rw [show i + (d + 1) = i + d + 1 by omega]
    omega

theorem Shape.le' {xenv : Array Nat} {n : Nat} (hS : Shape xenv n) {i k : Nat} (h1 : 1 ≤ i)
    (hik : i ≤ k) (hk : k ≤ n + 1) : xenv.getD i 0 ≤ xenv.getD k 0 := by
  have := hS.le h1 (k - i) (by omega)
  rwa [show i + (k - i) = k by omega] at this

/-- strictly lower cell `(i,j)`, `j < i`, of the profile storage (0 outside the profile) -/
def entL (xenv : Array Nat) (env : Array K) (i j : Nat) : K :=
  if i - j > xenv.getD (i + 1) 0 - xenv.getD i 0 then 0
  else env.getD (xenv.getD (i + 1) 0 - (i - j)) 0

/-- the symmetric matrix a profile storage stands for -/
def ent (xenv : Array Nat) (diag env : Array K) (i j : Nat) : K :=
  if i > j then entL xenv env i j else if i < j then entL xenv env j i else diag.getD (i - 1) 0

theorem entL_modify {xenv : Array Nat} {n : Nat} (hS : Shape xenv n) (env : Array K)
    (hsz : env.size = xenv.getD (n + 1) 0) {row col : Nat} (hc1 : 1 ≤ col) (hcr : col < row)
    (hrn : row ≤ n) (hcov : row - col ≤ xenv.getD (row + 1) 0 - xenv.getD row 0) (v : K)
    {i j : Nat} (hj1 : 1 ≤ j) (hji : j < i) (hi : i ≤ n) :
    entL xenv (env.modify (xenv.getD (row + 1) 0 - (row - col)) (fun x => x + v)) i j =
      entL xenv env i j + if i = row ∧ j = col then v else 0 := by
  unfold entL
  by_cases hout : i - j > xenv.getD (i + 1) 0 - xenv.getD i 0
  · have : ¬ (i = row ∧ j = col) := by
      rintro ⟨rfl, rfl⟩; omega
    rw [if_pos hout, if_pos hout, if_neg this, add_zero]
  · simp only [hout, if_false]
    rw [getD_modify]
    have m1 := hS i (by omega) hi
    have m2 := hS row (by omega) hrn
    have m3 := hS.le' (show 1 ≤ row + 1 by omega) (show row + 1 ≤ n + 1 by omega) (Nat.le_refl _)
    have key : (xenv.getD (row + 1) 0 - (row - col) = xenv.getD (i + 1) 0 - (i - j) ∧
        xenv.getD (i + 1) 0 - (i - j) < env.size) ↔ (i = row ∧ j = col) := by
      constructor
      · rintro ⟨e, _⟩
        rcases Nat.lt_trichotomy i row with h | h | h
        · have := hS.le' (show 1 ≤ i + 1 by omega) (show i + 1 ≤ row by omega) (by omega)
          omega
        · subst h; omega
        · have := hS.le' (show 1 ≤ row + 1 by omega) (show row + 1 ≤ i by omega) (by omega)
          omega
      · rintro ⟨rfl, rfl⟩
        refine ⟨rfl, ?_⟩
        omega
    by_cases hc : i = row ∧ j = col
    · rw [if_pos (key.2 hc), if_pos hc]
    · rw [if_neg (fun h => hc (key.1 h)), if_neg hc, add_zero]

theorem ent_modify_env {xenv : Array Nat} {n : Nat} (hS : Shape xenv n) (diag env : Array K)
    (hsz : env.size = xenv.getD (n + 1) 0) {row col : Nat} (hc1 : 1 ≤ col) (hcr : col < row)
    (hrn : row ≤ n) (hcov : row - col ≤ xenv.getD (row + 1) 0 - xenv.getD row 0) (v : K)
    {i j : Nat} (hi1 : 1 ≤ i) (hi : i ≤ n) (hj1 : 1 ≤ j) (hj : j ≤ n) :
    ent xenv diag (env.modify (xenv.getD (row + 1) 0 - (row - col)) (fun x => x + v)) i j =
      ent xenv diag env i j + if (i = row ∧ j = col) ∨ (i = col ∧ j = row) then v else 0 := by
  unfold ent
  rcases Nat.lt_trichotomy i j with h | h | h
  · have a : ¬ i > j := by omega
    simp only [a, h, if_true, if_false]
    rw [entL_modify hS env hsz hc1 hcr hrn hcov v hi1 h hj]
    have : ((i = row ∧ j = col) ∨ (i = col ∧ j = row)) ↔ (j = row ∧ i = col) := by omega
    simp only [this]
  · subst h
    have : ¬ ((i = row ∧ i = col) ∨ (i = col ∧ i = row)) := by omega
    simp [this]
  · simp only [show i > j from h, if_true]
    rw [entL_modify hS env hsz hc1 hcr hrn hcov v hj1 h hi]
    have : ((i = row ∧ j = col) ∨ (i = col ∧ j = row)) ↔ (i = row ∧ j = col) := by omega
    simp only [this]

theorem ent_modify_diag (xenv : Array Nat) {n : Nat} (diag env : Array K) (hsz : diag.size = n)
    {ia : Nat} (ha1 : 1 ≤ ia) (ha : ia ≤ n) (v : K) {i j : Nat} (hi1 : 1 ≤ i) (hj1 : 1 ≤ j) :
    ent xenv (diag.modify (ia - 1) (fun x => x + v)) env i j =
      ent xenv diag env i j + if i = ia ∧ j = ia then v else 0 := by
  unfold ent
  rcases Nat.lt_trichotomy i j with h | h | h
  · have a : ¬ i > j := by omega
    have : ¬ (i = ia ∧ j = ia) := by omega
    simp [a, h, this]
  · subst h
    have a : ¬ i > i := by omega
    have b : ¬ i < i := by omega
    simp only [a, if_false, and_self]
    rw [getD_modify]
    by_cases hc : i = ia
    · subst hc
      have : i - 1 = i - 1 ∧ i - 1 < diag.size := ⟨rfl, by omega⟩
      simp [this]
    · have : ¬ (ia - 1 = i - 1 ∧ i - 1 < diag.size) := by omega
      simp [this, hc]
  · have : ¬ (i = ia ∧ j = ia) := by omega
    simp [show i > j from h, this]

/-- coefficient of new column number `c` in a permuted sparse row (duplicates add) -/
def rc (l : List (Nat × K)) (c : Nat) : K :=
  ((l.filter fun q => q.1 == c).map fun q => q.2).foldl (· + ·) 0

theorem foldl_add (l : List K) (a : K) : l.foldl (· + ·) a = a + l.foldl (· + ·) 0 := by
  induction l generalizing a with
  | nil => simp
  | cons x t ih =>
    rw [List.foldl_cons, List.foldl_cons, ih (a + x), ih (0 + x)]
    ring

theorem rc_nil (c : Nat) : rc ([] : List (Nat × K)) c = 0 := rfl

theorem rc_cons (q : Nat × K) (t : List (Nat × K)) (c : Nat) :
    rc (q :: t) c = (if q.1 = c then q.2 else 0) + rc t c := by
  unfold rc
  rw [List.filter_cons]
  by_cases h : q.1 = c
  · have hb : (q.1 == c) = true := beq_iff_eq.2 h
    rw [if_pos hb, List.map_cons, List.foldl_cons, foldl_add, if_pos h]
    ring
  · have hb : ¬ (q.1 == c) = true := fun hb => h (beq_iff_eq.1 hb)
    rw [if_neg hb, if_neg h, zero_add]

theorem rc_eq_zero (l : List (Nat × K)) (c : Nat) (h : ∀ q ∈ l, q.1 ≠ c) : rc l c = 0 := by
  induction l with
  | nil => rfl
  | cons q t ih =>
    rw [rc_cons, if_neg (h q List.mem_cons_self), zero_add]
    exact ih fun q' hq' => h q' (List.mem_cons_of_mem _ hq')

/-- cell `(max a b, min a b)` lies inside the profile -/
def Cov (xenv : Array Nat) (a b : Nat) : Prop :=
  max a b - min a b ≤ xenv.getD (max a b + 1) 0 - xenv.getD (max a b) 0

variable [LinearOrder K] (sq : K → K)

/-- one step of the `j` loop: entry `q` of the rest of the row against the fixed `(ia, fa)` -/
theorem accStep_ent {xenv : Array Nat} {n : Nat} (hS : Shape xenv n)
    {ia : Nat} (ha1 : 1 ≤ ia) (ha : ia ≤ n) (fa : K) (q : Nat × K)
    (hq1 : 1 ≤ q.1) (hqn : q.1 ≤ n) (hcov : q.1 ≠ ia → Cov xenv ia q.1)
    (p : Array K × Array K) (hd : p.1.size = n) (he : p.2.size = xenv.getD (n + 1) 0)
    {i j : Nat} (hi1 : 1 ≤ i) (hi : i ≤ n) (hj1 : 1 ≤ j) (hj : j ≤ n) :
    letI := ordFieldScalar K sq
    ent xenv (accStep xenv ia fa p q).1 (accStep xenv ia fa p q).2 i j =
      ent xenv p.1 p.2 i j +
        ((if i = ia then fa * (if q.1 = j then q.2 else 0) else 0) +
         (if j = ia then fa * (if q.1 = i then q.2 else 0) else 0)) := by
  let _ : Scalar K := ordFieldScalar K sq
  unfold accStep
  by_cases hc : ia = q.1
  · have hb : (ia == q.1) = true := beq_iff_eq.2 hc
    rw [if_pos hb]
    have h2 : (Scalar.ofNat 2 : K) = 2 := by
      show ((2 : ℕ) : K) = 2
      exact Nat.cast_ofNat
    show ent xenv (p.1.modify (ia - 1) (fun x => x + Scalar.ofNat 2 * fa * q.2)) p.2 i j = _
    rw [ent_modify_diag xenv p.1 p.2 hd ha1 ha _ hi1 hj1, h2]
    split_ifs <;> first | (exfalso; omega) | ring
  · have hb : ¬ (ia == q.1) = true := fun hb => hc (beq_iff_eq.1 hb)
    rw [if_neg hb]
    have q4 := hcov (Ne.symm hc)
    unfold Cov at q4
    show ent xenv p.1 (p.2.modify (xenv.getD (max ia q.1 + 1) 0 - (max ia q.1 - min ia q.1))
      (fun x => x + fa * q.2)) i j = _
    rw [ent_modify_env hS p.1 p.2 he (row := max ia q.1) (col := min ia q.1) (by omega) (by omega)
      (by omega) q4 (fa * q.2) hi1 hi hj1 hj]
    have hC : ((i = max ia q.1 ∧ j = min ia q.1) ∨ (i = min ia q.1 ∧ j = max ia q.1)) ↔
        ((i = ia ∧ q.1 = j) ∨ (q.1 = i ∧ j = ia)) := by omega
    simp only [hC]
    split_ifs <;> first | (exfalso; omega) | ring

/-- the `j` loop of `set` for a fixed entry `(ia, fa)` of the row -/
theorem inner_fold {xenv : Array Nat} {n : Nat} (hS : Shape xenv n)
    {ia : Nat} (ha1 : 1 ≤ ia) (ha : ia ≤ n) (fa : K) (t : List (Nat × K))
    (ht : ∀ q ∈ t, 1 ≤ q.1 ∧ q.1 ≤ n ∧ (q.1 ≠ ia → Cov xenv ia q.1))
    (p : Array K × Array K) (hd : p.1.size = n) (he : p.2.size = xenv.getD (n + 1) 0)
    {i j : Nat} (hi1 : 1 ≤ i) (hi : i ≤ n) (hj1 : 1 ≤ j) (hj : j ≤ n) :
    letI := ordFieldScalar K sq
    ent xenv (t.foldl (accStep xenv ia fa) p).1 (t.foldl (accStep xenv ia fa) p).2 i j =
      ent xenv p.1 p.2 i j +
        ((if i = ia then fa * rc t j else 0) + (if j = ia then fa * rc t i else 0)) := by
  let _ : Scalar K := ordFieldScalar K sq
  induction t generalizing p with
  | nil => simp [rc_nil]
  | cons q t ih =>
    obtain ⟨q2, q3, q4⟩ := ht q List.mem_cons_self
    obtain ⟨s1, s2⟩ := accStep_size xenv ia fa p q
    rw [List.foldl_cons]
    rw [ih (fun q' hq' => ht q' (List.mem_cons_of_mem _ hq')) _ (s1.trans hd) (s2.trans he)]
    rw [accStep_ent sq hS ha1 ha fa q q2 q3 q4 p hd he hi1 hi hj1 hj, rc_cons, rc_cons]
    split_ifs <;> ring

/-- one sparse row: `accRow` adds the rank-one matrix `a aᵀ` of the permuted row to the
    stored matrix – provided the new column numbers are in range and every pair of
    *different* ones lies inside the profile (a repeated number goes to the diagonal) -/
theorem accRow_ent {xenv : Array Nat} {n : Nat} (hS : Shape xenv n) (l : List (Nat × K))
    (hr : ∀ q ∈ l, 1 ≤ q.1 ∧ q.1 ≤ n)
    (hcov : ∀ q ∈ l, ∀ q' ∈ l, q.1 ≠ q'.1 → Cov xenv q.1 q'.1)
    (p : Array K × Array K) (hd : p.1.size = n) (he : p.2.size = xenv.getD (n + 1) 0)
    {i j : Nat} (hi1 : 1 ≤ i) (hi : i ≤ n) (hj1 : 1 ≤ j) (hj : j ≤ n) :
    letI := ordFieldScalar K sq
    ent xenv (accRow xenv l p).1 (accRow xenv l p).2 i j = ent xenv p.1 p.2 i j + rc l i * rc l j := by
  let _ : Scalar K := ordFieldScalar K sq
  induction l generalizing p with
  | nil => simp [accRow, rc_nil]
  | cons x t ih =>
    obtain ⟨ia, fa⟩ := x
    obtain ⟨diag, env⟩ := p
    simp only at hd he
    obtain ⟨ha1, ha⟩ := hr (ia, fa) List.mem_cons_self
    have ht : ∀ q ∈ t, 1 ≤ q.1 ∧ q.1 ≤ n ∧ (q.1 ≠ ia → Cov xenv ia q.1) := fun q hq =>
      ⟨(hr q (List.mem_cons_of_mem _ hq)).1, (hr q (List.mem_cons_of_mem _ hq)).2,
        fun hne => hcov (ia, fa) List.mem_cons_self q (List.mem_cons_of_mem _ hq) (Ne.symm hne)⟩
    have hsz1 : (diag.modify (ia - 1) (fun x => x + fa * fa)).size = n := by
      rw [Array.size_modify]; exact hd
    obtain ⟨f1, f2⟩ := accStep_foldl_size xenv ia fa t (diag.modify (ia - 1) (fun x => x + fa * fa), env)
    rw [accRow_cons]
    rw [ih (fun q hq => hr q (List.mem_cons_of_mem _ hq))
      (fun q hq q' hq' => hcov q (List.mem_cons_of_mem _ hq) q' (List.mem_cons_of_mem _ hq'))
      _ (f1.trans hsz1) (f2.trans he)]
    rw [inner_fold sq hS ha1 ha fa t ht _ hsz1 he hi1 hi hj1 hj]
    show ent xenv (diag.modify (ia - 1) (fun x => x + fa * fa)) env i j + _ + _ = _
    rw [ent_modify_diag xenv diag env hd ha1 ha (fa * fa) hi1 hj1, rc_cons, rc_cons]
    simp only
    split_ifs <;> first | (exfalso; omega) | ring

/-- `Env.entry` in terms of `ent` -/
theorem entry_eq_ent (E : Env K) (i j : Nat) :
    letI := ordFieldScalar K sq
    E.entry i j = ent E.xenv E.diag E.env i j := by
  unfold entry element ent entL
  rcases Nat.lt_trichotomy i j with h | h | h
  · rw [elementLoc_lt E h, if_neg (show ¬ i > j by omega), if_pos h]
    split <;> rfl
  · subst h
    rw [elementLoc_eq E i, if_neg (show ¬ i > i by omega), if_neg (show ¬ i < i by omega)]
    rfl
  · rw [elementLoc_gt E h, if_pos h]
    split <;> rfl

/-- what `accRow_ent` needs of one permuted row -/
def RowOK (xenv : Array Nat) (n : Nat) (l : List (Nat × K)) : Prop :=
  (∀ q ∈ l, 1 ≤ q.1 ∧ q.1 ≤ n) ∧
    ∀ q ∈ l, ∀ q' ∈ l, q.1 ≠ q'.1 → Cov xenv q.1 q'.1

/-- invariant of the row loop -/
theorem accAll_ent (A : SMat K) (o : SOrdering) {xenv : Array Nat} {n : Nat} (hS : Shape xenv n)
    (rs : List Nat)
    (hrs : letI := ordFieldScalar K sq; ∀ r ∈ rs, RowOK xenv n (permRow A o r))
    (p : Array K × Array K) (hd : p.1.size = n) (he : p.2.size = xenv.getD (n + 1) 0)
    {i j : Nat} (hi1 : 1 ≤ i) (hi : i ≤ n) (hj1 : 1 ≤ j) (hj : j ≤ n) :
    letI := ordFieldScalar K sq
    ent xenv (accAll A o xenv rs p).1 (accAll A o xenv rs p).2 i j =
      ent xenv p.1 p.2 i j +
        (rs.map fun r => rc (permRow A o r) i * rc (permRow A o r) j).foldl (· + ·) 0 := by
  induction rs generalizing p with
  | nil => simp [accAll]
  | cons r t ih =>
    let _ : Scalar K := ordFieldScalar K sq
    have hstep : accAll A o xenv (r :: t) p = accAll A o xenv t (accRow xenv (permRow A o r) p) := rfl
    rw [hstep]
    obtain ⟨s1, s2⟩ := accRow_size xenv (permRow A o r) p
    obtain ⟨r2, r3⟩ := hrs r List.mem_cons_self
    rw [ih (fun r' hr' => hrs r' (List.mem_cons_of_mem _ hr')) _ (s1.trans hd) (s2.trans he)]
    rw [accRow_ent sq hS (permRow A o r) r2 r3 p hd he hi1 hi hj1 hj]
    rw [List.map_cons, List.foldl_cons, foldl_add _ (0 + _)]
    ring

theorem getD_ofFn {α : Type} {n : Nat} (f : Fin n → α) (k : Nat) (h : k < n) (d : α) :
    (Array.ofFn f).getD k d = f ⟨k, h⟩ := by
  simp [h]

theorem coeff_eq_rc (A : SMat K) (o : SOrdering) (r c : Nat) :
    letI := ordFieldScalar K sq
    Dense.coeff A o.invp r c = rc (permRow A o r) c := by
  unfold Dense.coeff Dense.sum rc permRow
  rw [List.filter_map, List.map_map]
  rfl

/-- the dense reference `PᵀAᵀAP` in terms of the row coefficients -/
theorem normal_get (A : SMat K) (o : SOrdering) {n i j : Nat} (hi1 : 1 ≤ i) (hi : i ≤ n)
    (hj1 : 1 ≤ j) (hj : j ≤ n) :
    letI := ordFieldScalar K sq
    (Dense.normal A o.invp n).get (i - 1) (j - 1) =
      ((List.range' 1 A.rows).map fun r => rc (permRow A o r) i * rc (permRow A o r) j).foldl (· + ·) 0 := by
  unfold Dense.get Dense.normal
  rw [getD_ofFn _ (i - 1) (by omega), getD_ofFn _ (j - 1) (by omega)]
  simp only [Nat.sub_add_cancel hi1, Nat.sub_add_cancel hj1, coeff_eq_rc sq]
  rfl

theorem mem_permRow {A : SMat K} {o : SOrdering} {r : Nat} {q : Nat × K}
    (hq : letI := ordFieldScalar K sq; q ∈ permRow A o r) :
    ∃ c ∈ A.rowCols r, q.1 = o.invp[c]! := by
  unfold permRow at hq
  obtain ⟨p, hp, rfl⟩ := List.mem_map.1 hq
  exact ⟨A.cind[p]!, List.mem_map.2 ⟨p, hp, rfl⟩, rfl⟩

theorem permRow_ok {A : SMat K} {g : Adj} {o : SOrdering} (hA : A.WF)
    (hg : g.nodes = A.cols) (hadj : AdjOf A g) (ho : o.IsPerm A.cols)
    {r : Nat} (hr1 : 1 ≤ r) (hr : r ≤ A.rows) :
    letI := ordFieldScalar K sq
    RowOK (profileOf (minNeighbours g o A.cols) A.cols) A.cols (permRow A o r) := by
  let _ : Scalar K := ordFieldScalar K sq
  refine ⟨?_, ?_⟩
  · intro q hq
    obtain ⟨c, hc, e⟩ := mem_permRow sq hq
    obtain ⟨c1, c2⟩ := rowCols_range hA hr1 hr hc
    rw [e]
    exact ho.invp_range c c1 c2
  · intro q hq q' hq' hne
    obtain ⟨c, hc, e⟩ := mem_permRow sq hq
    obtain ⟨c', hc', e'⟩ := mem_permRow sq hq'
    rw [e, e'] at hne ⊢
    unfold Cov
    rcases Nat.lt_or_gt_of_ne hne with h | h
    · have := cov_of_lt hA hg hadj ho hr1 hr hc' hc h
      rw [Nat.max_eq_right (Nat.le_of_lt h), Nat.min_eq_left (Nat.le_of_lt h)]
      exact this
    · have := cov_of_lt hA hg hadj ho hr1 hr hc hc' h
      rw [Nat.max_eq_left (Nat.le_of_lt h), Nat.min_eq_right (Nat.le_of_lt h)]
      exact this

omit [LinearOrder K] in
theorem ent_zero (xenv : Array Nat) (a b i j : Nat) :
    ent xenv (Array.replicate a (0 : K)) (Array.replicate b (0 : K)) i j = 0 := by
  unfold ent entL
  simp only [getD_replicate_zero]
  split_ifs <;> rfl

/-- **Goal 3.**  The accumulation loop of `Envelope::set` loses nothing: the stored symmetric
    matrix is the dense normal matrix `PᵀAᵀAP` (cells outside the profile read as 0) – for every
    well-formed matrix, also with a column index repeated inside a row (since /repo 0a3ec43). -/
theorem ofSparse_entry {A : SMat K} {g : Adj} {o : SOrdering} (hA : A.WF)
    (hg : g.nodes = A.cols) (hadj : AdjOf A g) (ho : o.IsPerm A.cols)
    {i j : Nat} (hi1 : 1 ≤ i) (hi : i ≤ A.cols) (hj1 : 1 ≤ j) (hj : j ≤ A.cols) :
    letI := ordFieldScalar K sq
    (ofSparse A g o).entry i j = (Dense.normal A o.invp A.cols).get (i - 1) (j - 1) := by
  let _ : Scalar K := ordFieldScalar K sq
  obtain ⟨s1, s2, s3⟩ := xenv_spec hA hg hadj ho
  have hS : Shape (profileOf (minNeighbours g o A.cols) A.cols) A.cols := by
    intro k h1 h2
    have := (s3 k h1 h2).1
    omega
  rw [normal_get sq A o hi1 hi hj1 hj, entry_eq_ent sq, ofSparse_pos A g o (by omega)]
  dsimp only
  rw [accAll_ent sq A o hS (List.range' 1 A.rows)
    (fun r hr => by
      rw [List.mem_range'_1] at hr
      exact permRow_ok sq hA hg hadj ho hr.1 (by omega))
    _ Array.size_replicate Array.size_replicate hi1 hi hj1 hj]
  rw [ent_zero, zero_add]

/-- `*element(i,j)`, where it is not `nullptr`, is the entry of the dense normal matrix -/
theorem ofSparse_element {A : SMat K} {g : Adj} {o : SOrdering} (hA : A.WF)
    (hg : g.nodes = A.cols) (hadj : AdjOf A g) (ho : o.IsPerm A.cols)
    {i j : Nat} (hi1 : 1 ≤ i) (hi : i ≤ A.cols) (hj1 : 1 ≤ j) (hj : j ≤ A.cols) {v : K}
    (hv : letI := ordFieldScalar K sq; (ofSparse A g o).element i j = some v) :
    letI := ordFieldScalar K sq
    v = (Dense.normal A o.invp A.cols).get (i - 1) (j - 1) := by
  rw [← ofSparse_entry sq hA hg hadj ho hi1 hi hj1 hj]
  unfold entry
  rw [hv]
  rfl

/-- **Corollary of goal 3.**  Outside the profile the dense normal matrix is zero: the
    envelope drops no non-zero of `PᵀAᵀAP`. -/
theorem profile_covers_dense {A : SMat K} {g : Adj} {o : SOrdering} (hA : A.WF)
    (hg : g.nodes = A.cols) (hadj : AdjOf A g) (ho : o.IsPerm A.cols)
    {i j : Nat} (hj1 : 1 ≤ j) (hji : j < i) (hi : i ≤ A.cols)
    (hout : letI := ordFieldScalar K sq; (ofSparse A g o).width i < i - j) :
    letI := ordFieldScalar K sq
    (Dense.normal A o.invp A.cols).get (i - 1) (j - 1) = 0 := by
  let _ : Scalar K := ordFieldScalar K sq
  rw [← ofSparse_entry sq hA hg hadj ho (by omega) hi hj1 (by omega)]
  exact entry_outside (ofSparse A g o) hji hout

/-- the same for the upper triangle (the stored matrix is symmetric by construction) -/
theorem ofSparse_entry_symm {A : SMat K} {g : Adj} {o : SOrdering} (i j : Nat) :
    letI := ordFieldScalar K sq
    (ofSparse A g o).entry i j = (ofSparse A g o).entry j i := by
  let _ : Scalar K := ordFieldScalar K sq
  exact entry_symm (ofSparse A g o) i j

end Accumulate

end Env
end Gama
