/-
  C07 — transport of the row/column relations of `Lemmas/C07Lin.lean` to solutions, on top of the
  LS layer (`LS5 IsLSSolution.perm`, `LS6 IsLSSolution.shift_single`), plus the two sign
  transformations the LS layer does not have: negating columns (mirrored y unknowns) and negating
  rows together with the weight matrix (mirrored observations).
-/
import Gama.Lemmas.LS.Transform
namespace Gama.LS
open Matrix Finset

variable {𝕜 : Type*} [Field 𝕜]
variable {m n : Type*} [Fintype m] [Fintype n] [DecidableEq m] [DecidableEq n]
variable {A : Matrix m n 𝕜} {b : m → 𝕜} {P : Matrix m m 𝕜} {S : Finset n} {x : n → 𝕜} {v : m → 𝕜} {rtr : 𝕜}

theorem diag_sq {ι : Type*} [Fintype ι] [DecidableEq ι] (s : ι → 𝕜) (hs : ∀ i, s i * s i = 1) :
    (diagonal s) * (diagonal s) = (1 : Matrix ι ι 𝕜) := by
  rw [diagonal_mul_diagonal]
  ext i j
  by_cases h : i = j
  · subst h; simp [hs]
  · simp [h]

/-- negating columns (unknowns `j` with `t j = -1`): the solution changes sign in those unknowns,
    residuals and the sum of squares stay -/
theorem IsLSSolution.colSign (t : n → 𝕜) (ht : ∀ j, t j * t j = 1) (h : IsLSSolution A b P S x v rtr) :
    IsLSSolution (A * diagonal t) b P S (diagonal t *ᵥ x) v rtr where
  res := by
    rw [mulVec_mulVec, Matrix.mul_assoc, diag_sq t ht, Matrix.mul_one]; exact h.res
  normal := by
    rw [transpose_mul, diagonal_transpose, ← mulVec_mulVec, h.normal, mulVec_zero]
  rtr_eq := h.rtr_eq
  orth := by
    intro g hg
    have hk : A *ᵥ (diagonal t *ᵥ g) = 0 := by rw [mulVec_mulVec]; exact hg
    have := h.orth _ hk
    rw [← this]
    refine sum_congr rfl fun i _ => ?_
    simp only [mulVec_diagonal]; ring

/-- negating rows (observations `i` with `s i = -1`) together with their right-hand sides and the
    corresponding rows AND columns of the weight matrix: same solution, residuals negated in those
    rows, same sum of squares.  (The weight matrix must be conjugated: this is what
    `change_y_signs_for_inconsistent_system_` omits for correlated clusters.) -/
theorem IsLSSolution.rowSign (s : m → 𝕜) (hs : ∀ i, s i * s i = 1) (h : IsLSSolution A b P S x v rtr) :
    IsLSSolution (diagonal s * A) (diagonal s *ᵥ b) (diagonal s * P * diagonal s) S x (diagonal s *ᵥ v) rtr where
  res := by
    rw [h.res, mulVec_sub, mulVec_mulVec]
  normal := by
    have e : (diagonal s * P * diagonal s) *ᵥ (diagonal s *ᵥ v) = diagonal s *ᵥ (P *ᵥ v) := by
      rw [mulVec_mulVec, Matrix.mul_assoc, diag_sq s hs, Matrix.mul_one, ← mulVec_mulVec]
    rw [e, transpose_mul, diagonal_transpose, ← mulVec_mulVec, mulVec_mulVec (P *ᵥ v), diag_sq s hs, one_mulVec]
    exact h.normal
  rtr_eq := by
    have e : (diagonal s * P * diagonal s) *ᵥ (diagonal s *ᵥ v) = diagonal s *ᵥ (P *ᵥ v) := by
      rw [mulVec_mulVec, Matrix.mul_assoc, diag_sq s hs, Matrix.mul_one, ← mulVec_mulVec]
    rw [e, h.rtr_eq]
    simp only [dotProduct, mulVec_diagonal]
    refine sum_congr rfl fun i _ => ?_
    calc v i * (P *ᵥ v) i = (s i * s i) * (v i * (P *ᵥ v) i) := by rw [hs, one_mul]
      _ = s i * v i * (s i * (P *ᵥ v) i) := by ring
  orth := by
    intro g hg
    refine h.orth g ?_
    have : diagonal s *ᵥ ((diagonal s * A) *ᵥ g) = 0 := by rw [hg, mulVec_zero]
    rwa [mulVec_mulVec, ← Matrix.mul_assoc, diag_sq s hs, Matrix.one_mul] at this

/-- circle rotation as a shift along the orientation column: if the rows in `R` have the
    coefficient `-1` in column `k`, all other rows `0`, and exactly the right-hand sides of the rows
    in `R` grow by `d`, then the new right-hand side is `b + (-d) • A eₖ` -/
theorem rhs_shift_eq (k : n) (R : Finset m) (d : 𝕜) (b' : m → 𝕜)
    (hcol : ∀ i, A i k = if i ∈ R then -1 else 0)
    (hb : ∀ i, b' i = if i ∈ R then b i + d else b i) :
    b' = b + (-d) • A *ᵥ Pi.single k 1 := by
  funext i
  have : (A *ᵥ Pi.single k 1) i = A i k := by simp [mulVec_single_one]
  rw [hb i, Pi.add_apply, Pi.smul_apply, this, hcol i]
  by_cases hi : i ∈ R <;> simp [hi]

end Gama.LS
