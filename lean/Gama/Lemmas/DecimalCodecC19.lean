/-
  C19 — the codec of the adjustment-data dump instantiated with the real stream format:
  `out.precision(p)` with the default floatfield (`%.{p}g`; src/gama-g3.cpp sets p = 16), read back by the
  `<adj-input-data>` reader; integers through `operator<<(int)` / `toInteger`.
-/
import Gama.Lemmas.AdjXmlLemmas
import Gama.Lemmas.DecimalCodecSig
namespace Gama
namespace AdjXml
open Gama.Dec

/-- the number codec of `AdjInputData::write_xml` on a stream with `precision(p)` -/
def streamCodec (m : RMode) (p : Nat) : Codec ℚ String := ⟨fmtGen m p, rdDecimal, fmtNat, rdNat⟩

theorem rdNat_fmtNat (n : Nat) : rdNat (fmtNat n) = some n := by
  have h := rdIntL_fmtIntL (n : Int)
  have hf : fmtIntL (n : Int) = decDigits n := by
    unfold fmtIntL
    have : decide ((n : Int) < 0) = false := by simp
    rw [this]; simp [signText]
  rw [hf] at h
  unfold rdNat fmtNat
  rw [String.toList_ofList, h]

theorem streamCodec_printer (m : RMode) (p : Nat) : (streamCodec m p).Printer (roundSig m (sigDigits p)) :=
  { rdF_fmtF := fun x => rd_fmtGen m p x
    fmtF_q := fun x => fmtGen_roundSig m p x
    rdN_fmtN := rdNat_fmtNat }

/-- numerals of at most `P` digits -/
def Numeral' (P : Nat) : Type := {d : Numeral // d.m < 10 ^ P}

/-- the stream decomposed as in `DecimalStream`: `D` = round to `P` significant digits, `N` = value of the numeral
    (over ℚ the second rounding, to the nearest double, is the identity), `shw` = `%g` rendering -/
theorem streamCodec_stream (m : RMode) (p : Nat) :
    DecimalStream (Dec := Numeral' (sigDigits p)) (streamCodec m p)
      (fun x => ⟨sigD m (sigDigits p) x, sigD_m_lt m _ (sigDigits_pos p) x⟩)
      (fun d => d.1.val)
      (fun d => String.ofList (genShow (sigDigits p) d.1)) :=
  { fmt_eq := fun _ => rfl
    rd_show := fun d => by
      show rdDecimal (String.ofList (genShow (sigDigits p) d.1)) = some d.1.val
      unfold rdDecimal
      rw [String.toList_ofList]
      exact rd_genShow _ (sigDigits_pos p) d.1 d.2
    stable := fun x => Subtype.ext (sigD_stable m m _ (sigDigits_pos p) x)
    rdN_fmtN := rdNat_fmtNat }

/-- data of the non-vacuity examples: a 3×4 matrix with an empty row, a banded and a 1×1 block, numbers that the
    16-digit stream rounds (1/3, 2/7) and numbers it keeps (1.23456789, 0.99996) -/
def realData : AdjData ℚ :=
  { mat := some ⟨3, 4, [[(1, 123456789 / 100000000), (4, -1 / 3)], [], [(2, 99996 / 100000)]]⟩
    cov := some [⟨2, 1, [5, 2 / 7, 7]⟩, ⟨1, 0, [1 / 1000000]⟩]
    rhs := [100, -200000000000000000000, 3 / 1000000]
    minx := some [2, 4] }

theorem realData_WF : WF realData := by
  refine ⟨rfl, ⟨_, rfl, ?_⟩, by decide⟩
  decide

end AdjXml
end Gama
