/-
  The three Lean copies of `IsInteger` / `IsFloat` (lib/gnu_gama/intfloat.h) related to each other:

    1. `Gama.Lit.*`       Model/Literals.lean     (C11; flag `Gkf.intLoneSignRejected`)
    2. `Gama.Literals.*`  Model/GeoLiterals.lean  (C18; flag `Gen.isIntegerNeedsDigit`)
    3. `Gama.PointId.isInteger`  Model/PointIdBase.lean (C07; bytes, caller has trimmed)

  Copy 2 is copy 1 function by function (`isSpace`, `isDigit`, `trim`, `skipSign`, the digit runs, the exponent
  part, the mantissa) with the guard after the sign as the same Boolean parameter.  Copy 3 has no
  `TrimWhiteSpaces` (its caller `PointID::init` has already removed surrounding white space) and reads bytes:
  it is copy 1 on the Latin-1 reading of the bytes, restricted to strings that trimming leaves alone.
  Core Lean only (no Mathlib).
-/
import Gama.Lemmas.LiteralsComplete
import Gama.Model.GeoLiterals
import Gama.Model.PointIdBase
namespace Gama.LitEq
open Gama.Lit

/-! ### copy 2 = copy 1, function by function -/

theorem isSpace_eq (c : Char) : Literals.isSpace c = Lit.isSpace c := by
  rw [Bool.eq_iff_iff]
  simp [Literals.isSpace, Lit.isSpace]

theorem isSpace_fun : Literals.isSpace = Lit.isSpace := funext isSpace_eq

theorem isDigit_fun : Literals.isDigit = Lit.isDigit := rfl

theorem skipWs_eq (l : List Char) : skipWs l = l.dropWhile Lit.isSpace := by
  induction l with
  | nil => rfl
  | cons c cs ih =>
    cases h : Lit.isSpace c with
    | true => simp [skipWs, List.dropWhile, h, ih]
    | false => simp [skipWs, List.dropWhile, h]

theorem skipDigits_eq (l : List Char) : skipDigits l = l.dropWhile Lit.isDigit := by
  induction l with
  | nil => rfl
  | cons c cs ih =>
    cases h : Lit.isDigit c with
    | true => simp [skipDigits, List.dropWhile, h, ih]
    | false => simp [skipDigits, List.dropWhile, h]

theorem allDigits_eq (l : List Char) : allDigits l = l.all Lit.isDigit := by
  induction l with
  | nil => rfl
  | cons c cs ih => simp [allDigits, List.all, ih]

/-- `dropWhile` over a list with one more element at the end -/
theorem dropWhile_snoc (p : Char → Bool) (l : List Char) (c : Char) :
    (l ++ [c]).dropWhile p =
      if (l.dropWhile p).isEmpty then (if p c then [] else [c]) else l.dropWhile p ++ [c] := by
  induction l with
  | nil => cases h : p c <;> simp [List.dropWhile, h]
  | cons a as ih =>
    cases h : p a with
    | true => simp only [List.cons_append, List.dropWhile, h]; exact ih
    | false => simp [List.dropWhile, h]

/-- the second loop of `TrimWhiteSpaces` written with `reverse`/`dropWhile` (copy 2) is `dropBack` (copy 1) -/
theorem dropBack_eq (l : List Char) : dropBack l = (l.reverse.dropWhile Lit.isSpace).reverse := by
  induction l with
  | nil => rfl
  | cons c cs ih =>
    rw [List.reverse_cons, dropWhile_snoc]
    unfold dropBack
    rw [ih]
    cases hR : cs.reverse.dropWhile Lit.isSpace with
    | nil =>
      cases hc : Lit.isSpace c <;> simp
    | cons a as =>
      simp

theorem trim_eq (s : List Char) : Literals.trim s = Lit.trim s := by
  unfold Literals.trim Lit.trim
  rw [isSpace_fun, dropBack_eq, skipWs_eq]

theorem skipSign_eq (l : List Char) : Literals.skipSign l = Lit.skipSign l := by
  unfold Literals.skipSign
  split
  · rfl
  · rfl
  · rename_i h1 h2
    cases l with
    | nil => rfl
    | cons c t =>
      have hc : isSign c = false := by
        cases hs : isSign c with
        | false => rfl
        | true =>
          rcases isSign_cases hs with rfl | rfl
          · exact absurd rfl (h1 t)
          · exact absurd rfl (h2 t)
      rw [skipSign_cons_nonsign _ _ hc]

/-- `IsInteger`, the guard after the sign as a parameter: copy 2 = copy 1 on every string, for both values -/
theorem isIntegerWith_eq (b : Bool) (s : List Char) : Literals.isIntegerWith b s = Lit.isIntegerOf b s := by
  unfold Literals.isIntegerWith Lit.isIntegerOf
  rw [trim_eq]
  cases Lit.trim s with
  | nil => rfl
  | cons c cs =>
    simp only [skipSign_eq, allDigits_eq, isDigit_fun]

theorem length_dropWhile_le (p : Char → Bool) (l : List Char) : (l.dropWhile p).length ≤ l.length := by
  induction l with
  | nil => simp
  | cons c cs ih =>
    cases h : p c with
    | true => simp only [List.dropWhile, h, List.length_cons]; omega
    | false => simp [List.dropWhile, h]

theorem takeWhile_isEmpty_eq (p : Char → Bool) (l : List Char) :
    decide ((l.dropWhile p).length < l.length) = !(l.takeWhile p).isEmpty := by
  cases l with
  | nil => rfl
  | cons c cs =>
    cases h : p c with
    | true =>
      have := length_dropWhile_le p cs
      simp [List.dropWhile, List.takeWhile, h]
      omega
    | false => simp [List.dropWhile, List.takeWhile, h]

theorem skipDigits_isEmpty_eq (l : List Char) : (skipDigits l).isEmpty = l.all Lit.isDigit := by
  induction l with
  | nil => rfl
  | cons c cs ih =>
    cases h : Lit.isDigit c with
    | true => simp [skipDigits, h, ih]
    | false => simp [skipDigits, h]

theorem isExp_eq (c : Char) : (decide (c = 'e') || decide (c = 'E')) = isExp c := by
  rw [Bool.eq_iff_iff]
  simp [isExp]

/-- the part behind the mantissa: copy 2's `tailOk` is copy 1's `expPart` -/
theorem tailOk_eq (x : List Char) : Literals.tailOk x = Lit.expPart x := by
  cases x with
  | nil => rfl
  | cons c r =>
    simp only [Literals.tailOk, Lit.expPart]
    rw [isExp_eq]
    cases hc : isExp c with
    | false => simp
    | true =>
      cases r with
      | nil => simp [Literals.exponentOk]
      | cons a as =>
        simp only [Literals.exponentOk, skipSign_eq, Bool.true_and, Bool.not_true]
        cases Lit.skipSign (a :: as) with
        | nil => simp
        | cons y ys => simp [skipDigits_isEmpty_eq, isDigit_fun]

theorem mantissa_eq (x : List Char) :
    Literals.mantissa x =
      (!(x.takeWhile Lit.isDigit).isEmpty || !((afterDot (x.dropWhile Lit.isDigit)).takeWhile Lit.isDigit).isEmpty,
       (afterDot (x.dropWhile Lit.isDigit)).dropWhile Lit.isDigit) := by
  simp only [Literals.mantissa, isDigit_fun]
  generalize List.dropWhile Lit.isDigit x = X
  split
  · simp [afterDot]
  · rename_i h
    have hX : afterDot X = X := by
      unfold afterDot
      split
      · rename_i r; exact absurd rfl (h r)
      · rfl
    rw [hX]

theorem tail_and (T : List Char) (D : Bool) :
    (expPart T && D) = (if T.isEmpty then D else if expPart T then D else false) := by
  cases T with
  | nil => simp [expPart]
  | cons a as => cases expPart (a :: as) <;> simp

/-- `IsFloat`: copy 2 = copy 1 on every string -/
theorem isFloat_eq (s : List Char) : Literals.isFloat s = Lit.isFloat s := by
  unfold Literals.isFloat Lit.isFloat
  rw [trim_eq]
  cases Lit.trim s with
  | nil => rfl
  | cons c cs =>
    simp only [mantissa_eq, floatBody_eq', skipSign_eq, tailOk_eq, skipDigits_eq, takeWhile_isEmpty_eq]
    exact tail_and _ _

/-! ### copy 3 (`PointId.isInteger`: bytes, no trimming) against copy 1 -/

/-- a byte read as the character with the same code (Latin-1; bytes ≥ 0x80 become characters ≥ 128, which are
    neither blanks nor digits nor signs in either model) -/
def byteChar (b : UInt8) : Char := Char.ofNat b.toNat

def toChars (s : PointId.Bytes) : List Char := s.map byteChar

theorem byte_table : ∀ n, n < 256 →
    Lit.isSpace (Char.ofNat n) = (decide (n = 32) || (decide (9 ≤ n) && decide (n ≤ 13))) ∧
    Lit.isDigit (Char.ofNat n) = (decide (48 ≤ n) && decide (n ≤ 57)) ∧
    Lit.isSign (Char.ofNat n) = (decide (n = 43) || decide (n = 45)) := by decide +kernel

theorem isSpace_byte (b : UInt8) : Lit.isSpace (byteChar b) = PointId.isSpace b :=
  (byte_table b.toNat (UInt8.toNat_lt b)).1

theorem isDigit_byte (b : UInt8) : Lit.isDigit (byteChar b) = PointId.isDigit b :=
  (byte_table b.toNat (UInt8.toNat_lt b)).2.1

theorem isSign_byte (b : UInt8) : Lit.isSign (byteChar b) = (decide (b.toNat = 43) || decide (b.toNat = 45)) :=
  (byte_table b.toNat (UInt8.toNat_lt b)).2.2

theorem all_isDigit_byte (t : PointId.Bytes) : (toChars t).all Lit.isDigit = t.all PointId.isDigit := by
  induction t with
  | nil => rfl
  | cons c cs ih =>
    simp only [toChars, List.map_cons, List.all_cons, isDigit_byte] at ih ⊢
    rw [ih]

/-- `IsInteger` of copy 1 without its `TrimWhiteSpaces` (guard after the sign present) -/
def isIntegerBare (t : List Char) : Bool :=
  match t with
  | [] => false
  | _ =>
    let r := Lit.skipSign t
    !r.isEmpty && allDigits r

theorem pointId_isInteger_bare (s : PointId.Bytes) : PointId.isInteger s = isIntegerBare (toChars s) := by
  cases s with
  | nil => rfl
  | cons c t =>
    have ht : toChars (c :: t) = byteChar c :: toChars t := rfl
    rw [ht]
    simp only [PointId.isInteger, isIntegerBare, Lit.skipSign, isSign_byte, allDigits_eq]
    cases h : (decide (c.toNat = 43) || decide (c.toNat = 45)) with
    | true =>
      simp only [Bool.or_eq_true, decide_eq_true_eq] at h
      simp only [if_true, all_isDigit_byte]
      cases t <;> rfl
    | false =>
      have h' : ¬ (c.toNat = 43 ∨ c.toNat = 45) := by
        intro hh; simp only [Bool.or_eq_false_iff, decide_eq_false_iff_not] at h; rcases hh with hh | hh
        · exact h.1 hh
        · exact h.2 hh
      simp only [if_false, Bool.false_eq_true]
      rw [← ht, all_isDigit_byte]
      rfl

theorem isIntegerBare_noSpace (t : List Char) (h : isIntegerBare t = true) : NoSpace t := by
  cases t with
  | nil => intro c hc; cases hc
  | cons a as =>
    simp only [isIntegerBare, Bool.and_eq_true] at h
    obtain ⟨_, hd⟩ := h
    cases hs : isSign a with
    | true =>
      rw [skipSign_cons_sign _ _ hs] at hd
      intro c hc
      rcases List.mem_cons.mp hc with rfl | hc
      · exact isSign_not_space hs
      · exact isDigit_not_space (allDigits_sound _ hd c hc)
    | false =>
      rw [skipSign_cons_nonsign _ _ hs] at hd
      exact allDigit_noSpace (allDigits_sound _ hd)

theorem allSpace_nil : AllSpace [] := by intro c hc; cases hc

theorem trim_self_of_noSpace (t : List Char) (h : NoSpace t) : Lit.trim t = t := by
  have := Lit.trim_eq [] t [] allSpace_nil allSpace_nil h
  simpa using this

/-- copy 1 restricted to the strings `TrimWhiteSpaces` leaves alone is the bare scanner -/
theorem isIntegerBare_eq (t : List Char) :
    isIntegerBare t = (Lit.isIntegerOf true t && decide (Lit.trim t = t)) := by
  by_cases htr : Lit.trim t = t
  · simp only [htr, decide_true, Bool.and_true]
    unfold isIntegerBare Lit.isIntegerOf
    rw [htr]
    cases t with
    | nil => rfl
    | cons a as =>
      simp only [Bool.true_and]
      cases (Lit.skipSign (a :: as)).isEmpty <;> simp
  · simp only [htr, decide_false, Bool.and_false]
    cases hb : isIntegerBare t with
    | false => rfl
    | true => exact absurd (trim_self_of_noSpace t (isIntegerBare_noSpace t hb)) htr

/-- a string that `TrimWhiteSpaces` leaves alone and that is in the integer language is `[+-]? d+` -/
theorem intLang_trim_self (t : List Char) :
    (IntLang t ∧ Lit.trim t = t) ↔ ∃ sg ds, t = sg ++ ds ∧ SignOpt sg ∧ AllDigit ds ∧ ds ≠ [] := by
  constructor
  · rintro ⟨⟨ws1, sg, ds, ws2, h, a1, a2, hsg, hds, hne⟩, htr⟩
    refine ⟨sg, ds, ?_, hsg, hds, hne⟩
    rw [← htr, h]
    exact Lit.trim_eq ws1 (sg ++ ds) ws2 a1 a2 (noSpace_append (signOpt_noSpace hsg) (allDigit_noSpace hds))
  · rintro ⟨sg, ds, h, hsg, hds, hne⟩
    refine ⟨⟨[], sg, ds, [], by simp [h], allSpace_nil, allSpace_nil, hsg, hds, hne⟩, ?_⟩
    rw [h]
    exact trim_self_of_noSpace _ (noSpace_append (signOpt_noSpace hsg) (allDigit_noSpace hds))

/-! ### the guard after the sign: what the two flag values differ by -/

/-- without the guard `IsInteger` accepts what it accepts with the guard, plus exactly the strings whose trimmed
    form is a lone sign -/
theorem isIntegerOf_false_eq (s : List Char) :
    Lit.isIntegerOf false s =
      (Lit.isIntegerOf true s || decide (Lit.trim s = ['+'] ∨ Lit.trim s = ['-'])) := by
  unfold Lit.isIntegerOf
  cases Lit.trim s with
  | nil => simp
  | cons a as =>
    cases hs : isSign a with
    | true =>
      simp only [skipSign_cons_sign _ _ hs, Bool.false_and, Bool.true_and]
      cases as with
      | nil =>
        rcases isSign_cases hs with rfl | rfl <;> decide
      | cons b bs => simp
    | false =>
      simp only [skipSign_cons_nonsign _ _ hs, Bool.false_and, Bool.true_and]
      have h1 : a ≠ '+' := by intro h; subst h; revert hs; decide
      have h2 : a ≠ '-' := by intro h; subst h; revert hs; decide
      simp [h1, h2]

/-! ### copy 3 at its call site: `PointID::init` passes `normalize s`, which trimming leaves alone -/

theorem snoc_cases {α : Type} (l : List α) : l = [] ∨ ∃ init a, l = init ++ [a] := by
  induction l with
  | nil => exact Or.inl rfl
  | cons c cs ih =>
    rcases ih with rfl | ⟨init, a, rfl⟩
    · exact Or.inr ⟨[], c, rfl⟩
    · exact Or.inr ⟨c :: init, a, rfl⟩

/-- a string whose first and last characters are not blanks is left alone by `TrimWhiteSpaces` -/
theorem trim_self_of_ends (t : List Char) (hh : ∀ c cs, t = c :: cs → Lit.isSpace c = false)
    (hl : ∀ init c, t = init ++ [c] → Lit.isSpace c = false) : Lit.trim t = t := by
  cases t with
  | nil => rfl
  | cons c cs =>
    unfold Lit.trim
    rw [skipWs_cons_nonspace _ _ (hh c cs rfl), dropBack_eq]
    rcases snoc_cases (c :: cs) with h | ⟨init, a, h⟩
    · cases h
    · rw [h, List.reverse_append]
      have ha := hl init a h
      simp [ha]

/-- no two adjacent white-space bytes (`p`: the byte before the list was white space) -/
def noAdj : Bool → PointId.Bytes → Bool
  | _, [] => true
  | p, c :: cs => !(p && PointId.isSpace c) && noAdj (PointId.isSpace c) cs

theorem isSpace_32 : PointId.isSpace 32 = true := by decide

theorem noAdj_collapse (prev : Bool) (s : PointId.Bytes) : noAdj prev (PointId.collapse prev s) = true := by
  induction s generalizing prev with
  | nil => rfl
  | cons c cs ih =>
    unfold PointId.collapse
    cases hp : prev <;> cases hc : PointId.isSpace c <;>
      simp [noAdj, hc, isSpace_32, ih]

theorem noAdj_snoc2 (p : Bool) (pre : PointId.Bytes) (d c : UInt8) (h : noAdj p (pre ++ [d, c]) = true)
    (hd : PointId.isSpace d = true) : PointId.isSpace c = false := by
  induction pre generalizing p with
  | nil =>
    simp only [List.nil_append, noAdj, hd, Bool.and_true, Bool.true_and, Bool.and_eq_true,
      Bool.not_eq_true'] at h
    exact h.2
  | cons a as ih =>
    simp only [List.cons_append, noAdj, Bool.and_eq_true] at h
    exact ih _ h.2

theorem dropTrailingSpace_snoc (init : PointId.Bytes) (a : UInt8) :
    PointId.dropTrailingSpace (init ++ [a]) = if PointId.isSpace a then init else init ++ [a] := by
  simp [PointId.dropTrailingSpace]

/-- `normalize s` neither starts nor ends with white space -/
theorem normalize_ends (s : PointId.Bytes) :
    (∀ c cs, PointId.normalize s = c :: cs → PointId.isSpace c = false) ∧
    (∀ init c, PointId.normalize s = init ++ [c] → PointId.isSpace c = false) := by
  unfold PointId.normalize
  have hna := noAdj_collapse true s
  generalize PointId.collapse true s = l at hna
  have hhead : ∀ c cs, l = c :: cs → PointId.isSpace c = false := by
    intro c cs h; subst h
    simp only [noAdj, Bool.true_and, Bool.and_eq_true, Bool.not_eq_true'] at hna
    exact hna.1
  rcases snoc_cases l with rfl | ⟨init, a, rfl⟩
  · constructor
    · intro c cs h; cases h
    · intro init c h
      have : (init ++ [c]).length = 0 := by rw [← h]; rfl
      simp at this
  · rw [dropTrailingSpace_snoc]
    cases ha : PointId.isSpace a with
    | false =>
      simp only [Bool.false_eq_true, if_false]
      refine ⟨hhead, ?_⟩
      intro i c h
      have := List.append_inj' h rfl
      rw [← (List.cons.inj this.2).1]; exact ha
    | true =>
      simp only [if_true]
      constructor
      · intro c cs h
        exact hhead c (cs ++ [a]) (by rw [h]; rfl)
      · intro i d h
        subst h
        cases hd : PointId.isSpace d with
        | false => rfl
        | true =>
          have := noAdj_snoc2 true i d a (by simpa using hna) hd
          rw [ha] at this; cases this

theorem toChars_cons (c : UInt8) (cs : PointId.Bytes) : toChars (c :: cs) = byteChar c :: toChars cs := rfl

/-- the string `PointID::init` hands to `IsInteger` is a fixed point of `TrimWhiteSpaces` -/
theorem trim_normalize (s : PointId.Bytes) :
    Lit.trim (toChars (PointId.normalize s)) = toChars (PointId.normalize s) := by
  obtain ⟨hh, hl⟩ := normalize_ends s
  generalize PointId.normalize s = l at hh hl
  apply trim_self_of_ends
  · intro c cs h
    cases l with
    | nil => cases h
    | cons b bs =>
      rw [toChars_cons] at h
      rw [← (List.cons.inj h).1, isSpace_byte]
      exact hh b bs rfl
  · intro init c h
    rcases snoc_cases l with rfl | ⟨i, b, rfl⟩
    · have : (init ++ [c]).length = 0 := by rw [← h]; rfl
      simp at this
    · have h' : toChars i ++ [byteChar b] = init ++ [c] := by
        rw [← h]; simp [toChars]
      have := List.append_inj' h' rfl
      rw [← (List.cons.inj this.2).1, isSpace_byte]
      exact hl i b rfl

end Gama.LitEq
