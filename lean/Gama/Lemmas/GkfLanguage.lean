/-
  Automaton language = liberal grammar language (Model/GkfLiberal.lean), for ALL event lists.

  Plan:
   1. `next`/`cleanRun`: the error-free transitions of the run model as a pure function of the automaton state
      (`step_next`: a clean parser state follows `next`, or falls into `state_error` for good).  Built on
      `startSig`/`stopSig`/`childTable`, which are read off the GENERATED `start`/`stop`/`handlerOps`.
   2. generic parsing lemmas (`simple_parse`, `items_parse`): a run that reaches `state_stop` from a container
      state splits into children of that level + its end tag + the rest (strong induction on the length).
   3. per level (cluster, points-observations, network, root, document) the children are identified through table
      facts proved by `decide` on the generated automaton (`cluster_facts`, `spine_facts`): they are re-checked
      against whatever the generator emits and fail exactly when the accepted language changes.
-/
import Gama.Model.GkfLiberal
import Gama.Lemmas.GkfGrammar
namespace Gama.Gkf

/-! ### 1. error-free transitions as a pure function -/

/-- a check performed by a handler -/
inductive Chk where
  | attrs (h : Handler)   -- attribute loop + value checks of `process_h`
  | xyz                   -- `pp_xydef || pp_zdef`
  deriving DecidableEq, Repr

/-- the checks a handler skeleton performs (up to its first unconditional return) -/
def sigOf : List Op → List Chk
  | [] => []
  | .attrs g :: r => .attrs g :: sigOf r
  | .needXYorZ :: r => .xyz :: sigOf r
  | .ret :: _ => []
  | .setState _ :: r => sigOf r
  | .retIfFailed :: r => sigOf r

def Chk.pass (as : List Attr) (d : Bool) : Chk → Bool
  | .attrs g => attrsOk g as && d
  | .xyz => hasXYorZ as

def sigPass (as : List Attr) (d : Bool) (sig : List Chk) : Bool := sig.all (Chk.pass as d)

/-- a guarded handler on an error-free state: all checks pass and it runs to its end, or `state_error` -/
theorem execOps_exact (ops : List Op) (as : List Attr) (d : Bool) :
    ∀ st : St, opsGuarded ops = true → st.err = none →
      (sigPass as d (sigOf ops) = true →
        execOps ops as d st false = { st with state := opsFinal ops st.state }) ∧
      (sigPass as d (sigOf ops) = false → (execOps ops as d st false).state = .error_) := by
  induction ops using opsGuarded.induct with
  | case1 => intro st _ _; simp [execOps, opsFinal, sigOf, sigPass]
  | case2 hd r ih =>
    intro st hg h
    simp only [opsGuarded] at hg
    have ihr := ih st hg h
    by_cases hc : (attrsOk hd as && d) = true
    · simpa [execOps, hc, sigOf, sigPass, Chk.pass, opsFinal] using ihr
    · have hc' : (attrsOk hd as && d) = false := by simpa using hc
      constructor
      · intro hp; simp [sigOf, sigPass, Chk.pass, hc'] at hp
      · intro _
        simp only [execOps, hc', Bool.false_eq_true, if_false, if_true]
        rw [error_of_none _ h]
  | case3 r ih =>
    intro st hg h
    simp only [opsGuarded] at hg
    have ihr := ih st hg h
    by_cases hc : hasXYorZ as = true
    · simpa [execOps, hc, sigOf, sigPass, Chk.pass, opsFinal] using ihr
    · have hc' : hasXYorZ as = false := by simpa using hc
      constructor
      · intro hp; simp [sigOf, sigPass, Chk.pass, hc'] at hp
      · intro _
        simp only [execOps, hc', Bool.false_eq_true, if_false, if_true]
        rw [error_of_none _ h]
  | case4 hd r hne => intro st hg; simp [opsGuarded] at hg
  | case5 r hne => intro st hg; simp [opsGuarded] at hg
  | case6 r ih =>
    intro st hg h
    simp only [opsGuarded] at hg
    simpa [execOps, opsFinal, sigOf] using ih st hg h
  | case7 s r ih =>
    intro st hg h
    simp only [opsGuarded] at hg
    simpa [execOps, opsFinal, sigOf] using ih { st with state := s } hg (by simpa using h)
  | case8 r => intro st _ _; simp [execOps, opsFinal, sigOf, sigPass]

/-- start tag `t` in state `s`: the state entered if the listed checks pass (`none`: refused) -/
def startSig (s : State) (t : Tag) : Option (State × List Chk) :=
  match start s t with
  | .run h => some (opsFinal (handlerOps h) s, sigOf (handlerOps h))
  | .set s' => some (s', [])
  | _ => none

/-- end tag in state `s`: the state entered and whether a `finish_*` runs (`none`: refused) -/
def stopSig (s : State) : Option (State × Bool) :=
  match stop s with
  | .goto s' f => some (s', f.isSome)
  | _ => none

/-- the error-free transition; `none` = the event is refused (parser goes to `state_error`) -/
def next (s : State) : Event → Option State
  | .start t as d =>
    match startSig s t with
    | some (s1, sig) => if sigPass as d sig then some s1 else none
    | none => none
  | .stop d =>
    match stopSig s with
    | some (p, fin) => if !fin || d then some p else none
    | none => none
  | .text x => if textAccepting s || isBlank x then some s else none

def cleanRun : State → List Event → Option State
  | s, [] => some s
  | s, e :: r => (next s e).bind (fun s1 => cleanRun s1 r)

theorem step_next (st : St) (s : State) (e : Event) (hc : Clean st s) :
    match next s e with
    | some s1 => Clean (step st e) s1
    | none => (step st e).state = .error_ := by
  obtain ⟨h1, h2⟩ := hc
  cases e with
  | start t as d =>
    simp only [next, startSig, step, react, h1]
    cases hs : start s t with
    | run h =>
      simp only
      have hx := execOps_exact (handlerOps h) as d st (handlers_guarded h) h2
      by_cases hp : sigPass as d (sigOf (handlerOps h)) = true
      · simp only [hp, if_true, hx.1 hp, h1]
        exact ⟨rfl, h2⟩
      · have hp' : sigPass as d (sigOf (handlerOps h)) = false := by simpa using hp
        simp only [hp', Bool.false_eq_true, if_false]
        exact hx.2 hp'
    | set s' => simp only [sigPass, List.all_nil, if_true]; exact ⟨rfl, h2⟩
    | err k => simp only; rw [error_of_none _ h2]
    | ignore => exact absurd hs (start_never_ignore s t)
  | stop d =>
    simp only [next, stopSig, step, react, h1]
    cases hs : stop s with
    | goto s' f =>
      cases f with
      | none => simp only [Option.isSome_none, Bool.not_false, Bool.true_or, if_true]; exact ⟨rfl, h2⟩
      | some ff =>
        cases d with
        | true => simp only [Option.isSome_some, Bool.not_true, Bool.or_true, if_true]; exact ⟨rfl, h2⟩
        | false =>
          simp only [Option.isSome_some, Bool.not_true, Bool.or_false, Bool.false_eq_true, if_false]
          rw [error_of_none _ (by simpa using h2)]
    | fail k => simp only; rw [error_of_none _ h2]
    | silent => simp only
  | text x =>
    simp only [next, step, react, h1]
    by_cases hp : (textAccepting s || isBlank x) = true
    · simp only [hp, if_true]; exact ⟨h1, h2⟩
    · have hp' : (textAccepting s || isBlank x) = false := by simpa using hp
      simp only [hp', Bool.false_eq_true, if_false]
      rw [error_of_none _ h2]

theorem run_cleanRun_some : ∀ (evs : List Event) (st : St) (s s1 : State), Clean st s →
    cleanRun s evs = some s1 → Clean (run st evs) s1 := by
  intro evs
  induction evs with
  | nil => intro st s s1 hc h; simp only [cleanRun, Option.some.injEq] at h; subst h; exact hc
  | cons e r ih =>
    intro st s s1 hc h
    have hn := step_next st s e hc
    simp only [cleanRun] at h
    cases hne : next s e with
    | none => rw [hne] at h; cases h
    | some s2 =>
      rw [hne] at h hn
      rw [run_cons]
      exact ih _ s2 s1 hn (by simpa using h)

theorem run_cleanRun_none : ∀ (evs : List Event) (st : St) (s : State), Clean st s →
    cleanRun s evs = none → (run st evs).state = .error_ := by
  intro evs
  induction evs with
  | nil => intro st s _ h; cases h
  | cons e r ih =>
    intro st s hc h
    have hn := step_next st s e hc
    simp only [cleanRun] at h
    rw [run_cons]
    cases hne : next s e with
    | none => rw [hne] at hn; exact run_error_absorbing r _ hn
    | some s2 =>
      rw [hne] at h hn
      exact ih _ s2 hn (by simpa using h)

/-- the run reaches `state_stop` from an error-free state exactly when the pure run does -/
theorem run_stop_iff (evs : List Event) (st : St) (s : State) (hc : Clean st s) :
    (run st evs).state = .stop_ ↔ cleanRun s evs = some .stop_ := by
  constructor
  · intro h
    cases hcr : cleanRun s evs with
    | none => rw [run_cleanRun_none evs st s hc hcr] at h; cases h
    | some s1 => rw [← (run_cleanRun_some evs st s s1 hc hcr).1, h]
  · intro h; exact (run_cleanRun_some evs st s _ hc h).1

theorem cleanRun_append (a b : List Event) : ∀ s, cleanRun s (a ++ b) = (cleanRun s a).bind (fun s1 => cleanRun s1 b) := by
  induction a with
  | nil => intro s; simp [cleanRun]
  | cons e r ih =>
    intro s
    simp only [List.cons_append, cleanRun]
    cases next s e with
    | none => rfl
    | some s1 => simpa using ih s1

/-! ### 2. tables read off the automaton, generic parsing lemmas -/

/-- the rest of the document is accepted from automaton state `s` -/
def Acc (s : State) (evs : List Event) : Prop := cleanRun s evs = some .stop_

/-- the start tags state `s` does not refuse outright: tag, state entered, checks performed -/
def childTable (s : State) : List (Tag × State × List Chk) :=
  Tag.all.filterMap (fun t => (startSig s t).map (fun r => (t, r.1, r.2)))

theorem mem_childTable {s : State} {t : Tag} {s1 : State} {sig : List Chk} :
    startSig s t = some (s1, sig) ↔ (t, s1, sig) ∈ childTable s := by
  unfold childTable
  rw [List.mem_filterMap]
  constructor
  · intro h; exact ⟨t, Tag.mem_all t, by simp [h]⟩
  · intro ⟨t', _, h⟩
    cases hs : startSig s t' with
    | none => rw [hs] at h; cases h
    | some r =>
      obtain ⟨r1, r2⟩ := r
      rw [hs] at h
      simp only [Option.map_some, Option.some.injEq, Prod.mk.injEq] at h
      obtain ⟨h0, h1, h2⟩ := h
      subst h0 h1 h2
      exact hs

/-- two tables with the same entries (order is that of the generated `Tag.all`: irrelevant) -/
def sameTable (a b : List (Tag × State × List Chk)) : Bool :=
  a.all (fun x => b.contains x) && b.all (fun x => a.contains x)

theorem sameTable_mem {a b : List (Tag × State × List Chk)} (h : sameTable a b = true)
    (x : Tag × State × List Chk) : x ∈ a ↔ x ∈ b := by
  simp only [sameTable, Bool.and_eq_true, List.all_eq_true, List.contains_iff_mem] at h
  exact ⟨h.1 x, h.2 x⟩

theorem acc_cons {s : State} {e : Event} {r : List Event} :
    Acc s (e :: r) ↔ ∃ s1, next s e = some s1 ∧ Acc s1 r := by
  unfold Acc; simp only [cleanRun]; cases next s e <;> simp

theorem cleanRun_cons_of_next {s s1 : State} {e : Event} (h : next s e = some s1) (r : List Event) :
    cleanRun s (e :: r) = cleanRun s1 r := by simp [cleanRun, h]

theorem next_start {s s1 : State} {t : Tag} {as : List Attr} {d : Bool} :
    next s (.start t as d) = some s1 ↔ ∃ sig, (t, s1, sig) ∈ childTable s ∧ sigPass as d sig = true := by
  simp only [next]
  constructor
  · intro h
    cases hs : startSig s t with
    | none => rw [hs] at h; cases h
    | some r =>
      obtain ⟨s2, sig⟩ := r
      rw [hs] at h
      simp only at h
      by_cases hp : sigPass as d sig = true
      · simp only [hp, if_true, Option.some.injEq] at h
        subst h
        exact ⟨sig, mem_childTable.mp hs, hp⟩
      · simp [hp] at h
  · intro ⟨sig, hm, hp⟩
    rw [mem_childTable.mpr hm]; simp [hp]

theorem next_stop {s p : State} {d : Bool} :
    next s (.stop d) = some p ↔ ∃ fin, stopSig s = some (p, fin) ∧ (fin = true → d = true) := by
  simp only [next]
  constructor
  · intro h
    cases hs : stopSig s with
    | none => rw [hs] at h; cases h
    | some r =>
      obtain ⟨p', fin⟩ := r
      rw [hs] at h
      simp only at h
      by_cases hp : (!fin || d) = true
      · simp only [hp, if_true, Option.some.injEq] at h
        subst h
        refine ⟨fin, rfl, ?_⟩
        intro hf; subst hf; simpa using hp
      · simp [hp] at h
  · intro ⟨fin, hs, hd⟩
    rw [hs]
    cases fin with
    | false => simp
    | true => simp [hd rfl]

theorem next_text {s s1 : State} {x : List Char} :
    next s (.text x) = some s1 ↔ s1 = s ∧ (textAccepting s || isBlank x) = true := by
  simp only [next]
  by_cases hp : (textAccepting s || isBlank x) = true
  · simp only [hp, if_true, Option.some.injEq, and_true]; exact eq_comm
  · simp [hp]

/-- `state_stop`: nothing but blank text may follow (table fact) -/
theorem stop_facts : stopSig .stop_ = none ∧ childTable .stop_ = [] ∧ textAccepting .stop_ = false := by decide

/-- a state all of whose start tags are refused, and whose end tag leads to `s2` (`fin`: a `finish_*` runs) -/
def simpleState (s1 s2 : State) (fin : Bool) : Bool :=
  (childTable s1).isEmpty && stopSig s1 == some (s2, fin)

theorem simpleState_spec {s1 s2 : State} {fin : Bool} (hs : simpleState s1 s2 fin = true) :
    childTable s1 = [] ∧ stopSig s1 = some (s2, fin) := by
  simpa [simpleState] using hs

def textsOk (s : State) (ts : List (List Char)) : Bool := ts.all (fun x => textAccepting s || isBlank x)

theorem textsOk_blanks {s : State} (h : textAccepting s = false) (ts : List (List Char)) :
    textsOk s ts = blanks ts := by simp [textsOk, blanks, h]

/-- the body of an element without element children: character data, then its end tag -/
theorem simple_parse {s1 s2 : State} {fin : Bool} (hs : simpleState s1 s2 fin = true) :
    ∀ evs, Acc s1 evs → ∃ ts b rest, evs = texts ts ++ .stop b :: rest ∧ textsOk s1 ts = true ∧
      (fin = true → b = true) ∧ Acc s2 rest := by
  obtain ⟨hct, hst⟩ := simpleState_spec hs
  intro evs
  induction evs with
  | nil =>
    intro h
    simp only [Acc, cleanRun, Option.some.injEq] at h
    subst h
    rw [stop_facts.1] at hst; cases hst
  | cons e r ih =>
    intro h
    obtain ⟨s', hn, hacc⟩ := acc_cons.mp h
    cases e with
    | start t as d =>
      obtain ⟨sig, hm, _⟩ := next_start.mp hn
      rw [hct] at hm; cases hm
    | stop b =>
      obtain ⟨fin', hs', hb⟩ := next_stop.mp hn
      rw [hst] at hs'
      simp only [Option.some.injEq, Prod.mk.injEq] at hs'
      obtain ⟨h1, h2⟩ := hs'
      subst h1 h2
      exact ⟨[], b, r, rfl, rfl, hb, hacc⟩
    | text x =>
      obtain ⟨h1, hx⟩ := next_text.mp hn
      subst h1
      obtain ⟨ts, b, rest, he, hts, hb, hr⟩ := ih hacc
      refine ⟨x :: ts, b, rest, ?_, ?_, hb, hr⟩
      · rw [he]; rfl
      · simp only [textsOk, List.all_cons, Bool.and_eq_true]; exact ⟨hx, hts⟩

theorem simple_run {s1 s2 : State} {fin : Bool} (hs : simpleState s1 s2 fin = true) (b : Bool)
    (rest : List Event) (hb : fin = true → b = true) :
    ∀ ts, textsOk s1 ts = true → cleanRun s1 (texts ts ++ .stop b :: rest) = cleanRun s2 rest := by
  obtain ⟨_, hst⟩ := simpleState_spec hs
  intro ts
  induction ts with
  | nil => intro _; exact cleanRun_cons_of_next (next_stop.mpr ⟨fin, hst, hb⟩) rest
  | cons x ts ih =>
    intro h
    simp only [textsOk, List.all_cons, Bool.and_eq_true] at h
    have : next s1 (.text x) = some s1 := next_text.mpr ⟨rfl, h.1⟩
    simp only [texts, List.map_cons, List.cons_append]
    rw [cleanRun_cons_of_next this]
    exact ih h.2

/-- children of a container state: the events split into items of that level and a tail `R`
    (normally the end tag and the rest of the document) -/
theorem items_parse {ι : Type} (s : State) (ev : ι → List Event) (ok : ι → Prop) (R : List Event → Prop)
    (wsItem : List Char → ι) (hws : ∀ x, ev (wsItem x) = [.text x])
    (hwsok : ∀ x, isBlank x = true → ok (wsItem x))
    (htext : textAccepting s = false) (hne : s ≠ .stop_)
    (hstop : ∀ b rest, Acc s (.stop b :: rest) → R (.stop b :: rest))
    (hchild : ∀ t as d evs, Acc s (.start t as d :: evs) →
        (∃ i rest, ok i ∧ .start t as d :: evs = ev i ++ rest ∧ Acc s rest ∧ rest.length ≤ evs.length) ∨
        R (.start t as d :: evs)) :
    ∀ n evs, evs.length ≤ n → Acc s evs →
      ∃ (items : List ι) (tail : List Event), evs = items.flatMap ev ++ tail ∧ (∀ i ∈ items, ok i) ∧ R tail := by
  intro n
  induction n with
  | zero =>
    intro evs hl h
    have : evs = [] := List.eq_nil_of_length_eq_zero (by omega)
    subst this
    simp only [Acc, cleanRun, Option.some.injEq] at h
    exact absurd h hne
  | succ n ih =>
    intro evs hl h
    cases evs with
    | nil =>
      simp only [Acc, cleanRun, Option.some.injEq] at h
      exact absurd h hne
    | cons e r =>
      simp only [List.length_cons] at hl
      cases e with
      | text x =>
        obtain ⟨s', hn, hacc⟩ := acc_cons.mp h
        obtain ⟨h1, hx⟩ := next_text.mp hn
        subst h1
        rw [htext, Bool.false_or] at hx
        obtain ⟨items, tail, he, hok, hR⟩ := ih r (by omega) hacc
        refine ⟨wsItem x :: items, tail, ?_, ?_, hR⟩
        · simp only [List.flatMap_cons, hws, List.cons_append, List.nil_append]; rw [he]
        · intro i hi
          rcases List.mem_cons.mp hi with rfl | hi
          · exact hwsok x hx
          · exact hok i hi
      | stop b => exact ⟨[], _, rfl, (fun _ hi => by cases hi), hstop b r h⟩
      | start t as d =>
        rcases hchild t as d r h with ⟨i, rest, hi, he, hacc, hlen⟩ | hR
        · obtain ⟨items, tail, he', hok, hR⟩ := ih rest (by omega) hacc
          refine ⟨i :: items, tail, ?_, ?_, hR⟩
          · rw [he, he']; simp [List.flatMap_cons, List.append_assoc]
          · intro j hj
            rcases List.mem_cons.mp hj with rfl | hj
            · exact hi
            · exact hok j hj
        · exact ⟨[], _, rfl, (fun _ hi => by cases hi), hR⟩

theorem items_run {ι : Type} (s : State) (ev : ι → List Event) (ok : ι → Prop)
    (h : ∀ i, ok i → ∀ rest, cleanRun s (ev i ++ rest) = cleanRun s rest) :
    ∀ (items : List ι) (tail : List Event), (∀ i ∈ items, ok i) →
      cleanRun s (items.flatMap ev ++ tail) = cleanRun s tail := by
  intro items
  induction items with
  | nil => intro tail _; rfl
  | cons i r ih =>
    intro tail hok
    simp only [List.flatMap_cons, List.append_assoc]
    rw [h i (hok i List.mem_cons_self)]
    exact ih tail (fun j hj => hok j (List.mem_cons_of_mem _ hj))

/-! ### nesting depth of an accepted sequence -/

theorem stop_depth0 : ∀ s : State, depthOf s = 0 → stopSig s = none :=
  forall_state (p := fun s => depthOf s = 0 → stopSig s = none) (by decide)

theorem next_depth {s s1 : State} {e : Event} (hs : s ≠ .error_) (h : next s e = some s1) :
    s1 ≠ .error_ ∧ depthAfter [e] (depthOf s) = some (depthOf s1) := by
  cases e with
  | start t as d =>
    have hsd := start_depth s t hs
    unfold startDepthOk at hsd
    simp only [next, startSig] at h
    have key : depthOf s1 = depthOf s + 1 := by
      cases hst : start s t with
      | run hh =>
        rw [hst] at h hsd
        simp only at h
        split at h
        · simp only [Option.some.injEq] at h; subst h; simpa using hsd
        · cases h
      | set s' =>
        rw [hst] at h hsd
        simp only [sigPass, List.all_nil, if_true, Option.some.injEq] at h
        subst h; simpa using hsd
      | err k => rw [hst] at h; cases h
      | ignore => rw [hst] at h; cases h
    exact ⟨depthOf_error_of_pos (by omega), by simp [depthAfter, key]⟩
  | stop d =>
    obtain ⟨fin, hsig, _⟩ := next_stop.mp h
    have hpos : 0 < depthOf s := by
      apply Nat.pos_of_ne_zero
      intro h0; rw [stop_depth0 s h0] at hsig; cases hsig
    have hst := stop_depth s hs hpos
    unfold stopDepthOk at hst
    simp only [stopSig] at hsig
    cases hstop : stop s with
    | goto s' f =>
      rw [hstop] at hsig hst
      simp only [Option.some.injEq, Prod.mk.injEq] at hsig
      obtain ⟨h1, _⟩ := hsig
      subst h1
      simp only [Bool.and_eq_true, beq_iff_eq, bne_iff_ne, ne_eq] at hst
      refine ⟨hst.2, ?_⟩
      have : depthOf s ≠ 0 := by omega
      simp only [depthAfter, this, if_false]
      congr 1; omega
    | fail k => rw [hstop] at hsig; cases hsig
    | silent => rw [hstop] at hsig; cases hsig
  | text x =>
    obtain ⟨h1, _⟩ := next_text.mp h
    subst h1
    exact ⟨hs, rfl⟩

theorem cleanRun_depth : ∀ (evs : List Event) (s s1 : State), s ≠ .error_ → cleanRun s evs = some s1 →
    depthAfter evs (depthOf s) = some (depthOf s1) := by
  intro evs
  induction evs with
  | nil => intro s s1 _ h; simp only [cleanRun, Option.some.injEq] at h; subst h; rfl
  | cons e r ih =>
    intro s s1 hs h
    simp only [cleanRun] at h
    cases hn : next s e with
    | none => rw [hn] at h; cases h
    | some s2 =>
      rw [hn] at h
      obtain ⟨h2, hd⟩ := next_depth hs hn
      rw [depthAfter_cons, hd]
      exact ih s2 s1 h2 (by simpa using h)

/-! ### 3. the levels -/

theorem flatMap_text (l : List (List Char)) : l.flatMap (fun x => [Event.text x]) = texts l := by
  induction l with
  | nil => rfl
  | cons a r ih => simp only [List.flatMap_cons, ih, texts, List.map_cons]; rfl

theorem textsOk_of_accepting {s : State} (h : textAccepting s = true) (ts : List (List Char)) :
    textsOk s ts = true := by simp [textsOk, h]

theorem sigPass_one {as : List Attr} {d : Bool} {h : Handler} :
    sigPass as d [.attrs h] = true ↔ attrsOk h as = true ∧ d = true := by
  simp [sigPass, Chk.pass]

theorem sigPass_child {as : List Attr} {d : Bool} {h : Handler} {x : Bool} :
    sigPass as d (if x then [.attrs h, .xyz] else [.attrs h]) = true ↔
      attrsOk h as = true ∧ d = true ∧ (x = true → hasXYorZ as = true) := by
  cases x <;> simp [sigPass, Chk.pass, and_assoc]

/-- end tag of a container -/
theorem container_stop {s p : State} {fin : Bool} (hst : stopSig s = some (p, fin)) {b : Bool}
    {rest : List Event} (h : Acc s (.stop b :: rest)) : (fin = true → b = true) ∧ Acc p rest := by
  obtain ⟨s', hn, hacc⟩ := acc_cons.mp h
  obtain ⟨fin', hs', hb⟩ := next_stop.mp hn
  rw [hst] at hs'
  simp only [Option.some.injEq, Prod.mk.injEq] at hs'
  obtain ⟨h1, h2⟩ := hs'
  subst h1 h2
  exact ⟨hb, hacc⟩

/-- an element entering a state `s1` without element children and without text that returns to `s` -/
theorem leaf_parse {s s1 : State} (t : Tag) (as : List Attr) {evs : List Event}
    (h1 : simpleState s1 s false = true) (htx : textAccepting s1 = false) (hacc : Acc s1 evs) :
    ∃ (ws : List (List Char)) (b : Bool) (rest : List Event),
      .start t as true :: evs = LLeaf.events ⟨t, as, ws, b⟩ ++ rest ∧ blanks ws = true ∧ Acc s rest ∧
      rest.length ≤ evs.length := by
  obtain ⟨ts, b, rest, he, hts, _, hr⟩ := simple_parse h1 evs hacc
  rw [textsOk_blanks htx] at hts
  refine ⟨ts, b, rest, ?_, hts, hr, ?_⟩
  · simp [LLeaf.events, he]
  · rw [he]; simp [texts]; omega

theorem leaf_run {s s1 : State} (l : LLeaf) (rest : List Event)
    (hn : next s (.start l.tag l.attrs true) = some s1)
    (h1 : simpleState s1 s false = true) (htx : textAccepting s1 = false) (hws : blanks l.ws = true) :
    cleanRun s (l.events ++ rest) = cleanRun s rest := by
  simp only [LLeaf.events, List.cons_append, List.append_assoc]
  rw [cleanRun_cons_of_next hn]
  exact simple_run h1 l.endBit rest (fun h => by cases h) l.ws (by rw [textsOk_blanks htx]; exact hws)

/-! #### clusters -/

def clusterExpected (k : ClusterKind) : List (Tag × State × List Chk) :=
  k.children.map (fun c => (c.1, itemState k c.1, if c.2.2 then [.attrs c.2.1, .xyz] else [.attrs c.2.1])) ++
  [(.cov_mat, k.covState, [.attrs .cov_])]

def clusterFacts (k : ClusterKind) : Bool :=
  sameTable (childTable k.state) (clusterExpected k) &&
  k.children.all (fun c => simpleState (itemState k c.1) k.state false && !textAccepting (itemState k c.1)) &&
  simpleState k.covState k.afterCov false && textAccepting k.covState &&
  simpleState k.afterCov .point_obs true && !textAccepting k.afterCov &&
  !textAccepting k.state && stopSig k.state == some (.point_obs, true) && k.state != .stop_

/-- the generated automaton, seen from inside each kind of cluster: which start tags are not refused, where
    they lead, what they check; `<cov-mat>` collects text and leads to a state where only blank text and the
    cluster's end tag (with `finish_*`) are accepted -/
theorem cluster_facts : ∀ k : ClusterKind, clusterFacts k = true := by
  intro k; cases k <;> decide

structure ClusterFacts (k : ClusterKind) : Prop where
  table : ∀ x, x ∈ childTable k.state ↔ x ∈ clusterExpected k
  leaf : ∀ c ∈ k.children, simpleState (itemState k c.1) k.state false = true ∧
            textAccepting (itemState k c.1) = false
  cov : simpleState k.covState k.afterCov false = true
  covText : textAccepting k.covState = true
  after : simpleState k.afterCov .point_obs true = true
  afterText : textAccepting k.afterCov = false
  text : textAccepting k.state = false
  stop : stopSig k.state = some (.point_obs, true)
  ne : k.state ≠ .stop_

theorem clusterFacts_spec (k : ClusterKind) : ClusterFacts k := by
  have h := cluster_facts k
  simp only [clusterFacts, Bool.and_eq_true, List.all_eq_true, Bool.not_eq_true', beq_iff_eq,
    bne_iff_ne, ne_eq] at h
  obtain ⟨⟨⟨⟨⟨⟨⟨⟨h1, h2⟩, h3⟩, h4⟩, h5⟩, h6⟩, h7⟩, h8⟩, h9⟩ := h
  exact ⟨sameTable_mem h1, h2, h3, h4, h5, h6, h7, h8, h9⟩

/-- what ends a cluster: an optional `<cov-mat>` (+ blank text), the end tag with `dataOk`, the rest -/
def ClusterTail (tail : List Event) : Prop :=
  ∃ (cov : Option LCov) (rest : List Event), tail = LCov.optEvents cov ++ .stop true :: rest ∧
    LCov.optOk cov = true ∧ Acc .point_obs rest

theorem cluster_parse (k : ClusterKind) (evs : List Event) (h : Acc k.state evs) :
    ∃ (items : List LItem) (cov : Option LCov) (rest : List Event),
      evs = items.flatMap LItem.events ++ (LCov.optEvents cov ++ .stop true :: rest) ∧
      items.all (LItem.okIn k) = true ∧ LCov.optOk cov = true ∧ Acc .point_obs rest := by
  have F := clusterFacts_spec k
  have := items_parse k.state LItem.events (fun i => i.okIn k = true) ClusterTail LItem.ws
    (fun _ => rfl) (fun x hx => hx) F.text F.ne
    (by
      intro b rest hacc
      obtain ⟨hb, hr⟩ := container_stop F.stop hacc
      rw [hb rfl]
      exact ⟨none, rest, rfl, rfl, hr⟩)
    (by
      intro t as d evs hacc
      obtain ⟨s1, hn, hacc1⟩ := acc_cons.mp hacc
      obtain ⟨sig, hm, hp⟩ := next_start.mp hn
      have hm' := (F.table _).mp hm
      simp only [clusterExpected, List.mem_append, List.mem_map, List.mem_singleton, Prod.mk.injEq] at hm'
      rcases hm' with ⟨c, hc, h1, h2, h3⟩ | ⟨h1, h2, h3⟩
      · left
        subst h1 h2 h3
        obtain ⟨ha, hd, hx⟩ := sigPass_child.mp hp
        subst hd
        obtain ⟨ws, b, rest, he, hws, hr, hl⟩ := leaf_parse c.1 as (F.leaf c hc).1 (F.leaf c hc).2 hacc1
        refine ⟨.leaf ⟨c.1, as, ws, b⟩, rest, ?_, he, hr, hl⟩
        simp only [LItem.okIn, LLeaf.okIn, Bool.and_eq_true, List.any_eq_true]
        refine ⟨⟨c, hc, ?_⟩, hws⟩
        cases hc2 : c.2.2 with
        | false => simp [ha]
        | true => simp [ha, hx hc2]
      · right
        subst h1 h2 h3
        obtain ⟨ha, hd⟩ := sigPass_one.mp hp
        subst hd
        obtain ⟨ts, b1, rest1, he1, _, _, hr1⟩ := simple_parse F.cov evs hacc1
        obtain ⟨ws, b2, rest2, he2, hws, hb2, hr2⟩ := simple_parse F.after rest1 hr1
        rw [textsOk_blanks F.afterText] at hws
        rw [hb2 rfl] at he2
        refine ⟨some ⟨as, ts, b1, ws⟩, rest2, ?_, ?_, hr2⟩
        · simp [LCov.optEvents, LCov.events, he1, he2]
        · simp [LCov.optOk, LCov.ok, ha, hws])
    evs.length evs (Nat.le_refl _) h
  obtain ⟨items, tail, he, hok, cov, rest, ht, hcov, hr⟩ := this
  exact ⟨items, cov, rest, by rw [he, ht], List.all_eq_true.mpr hok, hcov, hr⟩

theorem cluster_item_run (k : ClusterKind) (i : LItem) (hi : i.okIn k = true) (rest : List Event) :
    cleanRun k.state (i.events ++ rest) = cleanRun k.state rest := by
  have F := clusterFacts_spec k
  cases i with
  | ws x =>
    simp only [LItem.okIn] at hi
    exact cleanRun_cons_of_next (next_text.mpr ⟨rfl, by simp [hi]⟩) rest
  | leaf l =>
    simp only [LItem.okIn, LLeaf.okIn, Bool.and_eq_true, List.any_eq_true, beq_iff_eq] at hi
    obtain ⟨⟨c, hc, ⟨ht, ha⟩, hx⟩, hws⟩ := hi
    have hm : (l.tag, itemState k c.1, if c.2.2 then [Chk.attrs c.2.1, .xyz] else [.attrs c.2.1]) ∈
        childTable k.state := by
      apply (F.table _).mpr
      simp only [clusterExpected, List.mem_append, List.mem_map]
      left; exact ⟨c, hc, by rw [ht]⟩
    have hn : next k.state (.start l.tag l.attrs true) = some (itemState k c.1) :=
      next_start.mpr ⟨_, hm, sigPass_child.mpr ⟨ha, rfl, fun h2 => by simpa [h2] using hx⟩⟩
    exact leaf_run l rest hn (F.leaf c hc).1 (F.leaf c hc).2 hws

theorem cluster_body_run (k : ClusterKind) (items : List LItem) (cov : Option LCov) (rest : List Event)
    (hi : items.all (LItem.okIn k) = true) (hc : LCov.optOk cov = true) :
    cleanRun k.state (items.flatMap LItem.events ++ (LCov.optEvents cov ++ .stop true :: rest)) =
      cleanRun .point_obs rest := by
  have F := clusterFacts_spec k
  rw [items_run k.state LItem.events (fun i => i.okIn k = true) (cluster_item_run k) items _
    (List.all_eq_true.mp hi)]
  cases cov with
  | none => exact cleanRun_cons_of_next (next_stop.mpr ⟨true, F.stop, fun _ => rfl⟩) rest
  | some cv =>
    simp only [LCov.optOk, LCov.ok, Bool.and_eq_true] at hc
    have hm : (Tag.cov_mat, k.covState, [Chk.attrs .cov_]) ∈ childTable k.state := by
      apply (F.table _).mpr
      simp [clusterExpected]
    have hn : next k.state (.start .cov_mat cv.attrs true) = some k.covState :=
      next_start.mpr ⟨_, hm, sigPass_one.mpr ⟨hc.1, rfl⟩⟩
    simp only [LCov.optEvents, LCov.events, List.cons_append, List.append_assoc]
    rw [cleanRun_cons_of_next hn,
      simple_run F.cov cv.endBit _ (fun h => by cases h) cv.text (textsOk_of_accepting F.covText _),
      simple_run F.after true rest (fun _ => rfl) cv.wsAfter (by rw [textsOk_blanks F.afterText]; exact hc.2)]

/-- a whole cluster element seen from `<points-observations>` -/
theorem cluster_elem_parse (k : ClusterKind) (as : List Attr) (evs : List Event) (ha : attrsOk k.handler as = true)
    (h : Acc k.state evs) :
    ∃ (c : LCluster) (rest : List Event), c.ok = true ∧ .start k.tag as true :: evs = c.events ++ rest ∧
      Acc .point_obs rest ∧ rest.length ≤ evs.length := by
  obtain ⟨items, cov, rest, he, hi, hc, hr⟩ := cluster_parse k evs h
  refine ⟨⟨k, as, items, cov⟩, rest, ?_, ?_, hr, ?_⟩
  · simp [LCluster.ok, ha, hi, hc]
  · simp [LCluster.events, he]
  · rw [he]; simp; omega

/-! #### points-observations, network, root, document -/

def ClusterKind.all : List ClusterKind := [.obs, .hdiffs, .coords, .vectors]

theorem ClusterKind.mem_all (k : ClusterKind) : k ∈ ClusterKind.all := by cases k <;> simp [ClusterKind.all]

def poExpected : List (Tag × State × List Chk) :=
  (.point_, .point_, [.attrs .point_]) :: ClusterKind.all.map (fun k => (k.tag, k.state, [.attrs k.handler]))

def netExpected : List (Tag × State × List Chk) :=
  [(.description, .description, []), (.parameters, .parameters, [.attrs .parameters_]),
   (.points_observations, .point_obs, [.attrs .point_obs_])]

/-- the generated automaton in `state_point_obs` and in `<point>` -/
theorem po_facts :
    sameTable (childTable .point_obs) poExpected = true ∧ textAccepting .point_obs = false ∧
    stopSig .point_obs = some (.network, false) ∧
    simpleState .point_ .point_obs false = true ∧ textAccepting .point_ = false := by decide

/-- … in `state_network`, `<description>`, `<parameters>` -/
theorem net_facts :
    sameTable (childTable .network) netExpected = true ∧ textAccepting .network = false ∧
    stopSig .network = some (.gama_xml, false) ∧
    simpleState .description .network false = true ∧ textAccepting .description = true ∧
    simpleState .parameters .network false = true ∧ textAccepting .parameters = false := by decide

/-- … in `state_gama_xml` (root open) and `state_start` (nothing open yet) -/
theorem root_facts :
    sameTable (childTable .gama_xml) [(.network, .network, [.attrs .network_])] = true ∧
    textAccepting .gama_xml = false ∧ stopSig .gama_xml = some (.stop_, false) ∧
    sameTable (childTable .start_) [(.gama_xml, .gama_xml, [.attrs .gama_xml_])] = true ∧
    textAccepting .start_ = false ∧ stopSig .start_ = none := by decide

/-- normal end of a container: its end tag, then the rest is accepted from the parent state -/
def StopTail (p : State) (tail : List Event) : Prop :=
  ∃ (b : Bool) (rest : List Event), tail = .stop b :: rest ∧ Acc p rest

theorem po_parse (evs : List Event) (h : Acc .point_obs evs) :
    ∃ (items : List LPOItem) (b : Bool) (rest : List Event),
      evs = items.flatMap LPOItem.events ++ .stop b :: rest ∧ items.all LPOItem.ok = true ∧ Acc .network rest := by
  obtain ⟨T1, T2, T3, T4, T5⟩ := po_facts
  have := items_parse .point_obs LPOItem.events (fun i => i.ok = true) (StopTail .network) LPOItem.ws
    (fun _ => rfl) (fun x hx => hx) T2 (by decide)
    (by
      intro b rest hacc
      exact ⟨b, rest, rfl, (container_stop T3 hacc).2⟩)
    (by
      intro t as d evs hacc
      obtain ⟨s1, hn, hacc1⟩ := acc_cons.mp hacc
      obtain ⟨sig, hm, hp⟩ := next_start.mp hn
      have hm' := (sameTable_mem T1 _).mp hm
      simp only [poExpected, List.mem_cons, List.mem_map, Prod.mk.injEq] at hm'
      left
      rcases hm' with ⟨h1, h2, h3⟩ | ⟨k, _, h1, h2, h3⟩
      · subst h1 h2 h3
        obtain ⟨ha, hd⟩ := sigPass_one.mp hp
        subst hd
        obtain ⟨ws, b, rest, he, hws, hr, hl⟩ := leaf_parse .point_ as T4 T5 hacc1
        exact ⟨.point ⟨.point_, as, ws, b⟩, rest, by simp [LPOItem.ok, ha, hws], he, hr, hl⟩
      · subst h1 h2 h3
        obtain ⟨ha, hd⟩ := sigPass_one.mp hp
        subst hd
        obtain ⟨c, rest, hc, he, hr, hl⟩ := cluster_elem_parse k as evs ha hacc1
        exact ⟨.cluster c, rest, hc, he, hr, hl⟩)
    evs.length evs (Nat.le_refl _) h
  obtain ⟨items, tail, he, hok, b, rest, ht, hr⟩ := this
  exact ⟨items, b, rest, by rw [he, ht], List.all_eq_true.mpr hok, hr⟩

theorem po_item_run (i : LPOItem) (hi : i.ok = true) (rest : List Event) :
    cleanRun .point_obs (i.events ++ rest) = cleanRun .point_obs rest := by
  obtain ⟨T1, T2, T3, T4, T5⟩ := po_facts
  cases i with
  | ws x =>
    simp only [LPOItem.ok] at hi
    exact cleanRun_cons_of_next (next_text.mpr ⟨rfl, by simp [hi]⟩) rest
  | point l =>
    simp only [LPOItem.ok, Bool.and_eq_true, beq_iff_eq] at hi
    obtain ⟨⟨ht, ha⟩, hws⟩ := hi
    have hm : (l.tag, State.point_, [Chk.attrs .point_]) ∈ childTable .point_obs := by
      apply (sameTable_mem T1 _).mpr
      rw [ht]; simp [poExpected]
    exact leaf_run l rest (next_start.mpr ⟨_, hm, sigPass_one.mpr ⟨ha, rfl⟩⟩) T4 T5 hws
  | cluster c =>
    simp only [LPOItem.ok, LCluster.ok, Bool.and_eq_true] at hi
    obtain ⟨⟨ha, hitems⟩, hcov⟩ := hi
    have hm : (c.kind.tag, c.kind.state, [Chk.attrs c.kind.handler]) ∈ childTable .point_obs := by
      apply (sameTable_mem T1 _).mpr
      simp only [poExpected, List.mem_cons, List.mem_map]
      right; exact ⟨c.kind, c.kind.mem_all, rfl⟩
    simp only [LPOItem.events, LCluster.events, List.cons_append, List.append_assoc]
    rw [cleanRun_cons_of_next (next_start.mpr ⟨_, hm, sigPass_one.mpr ⟨ha, rfl⟩⟩)]
    exact cluster_body_run c.kind c.items c.cov rest hitems hcov

theorem net_parse (evs : List Event) (h : Acc .network evs) :
    ∃ (items : List LNetItem) (b : Bool) (rest : List Event),
      evs = items.flatMap LNetItem.events ++ .stop b :: rest ∧ items.all LNetItem.ok = true ∧ Acc .gama_xml rest := by
  obtain ⟨T1, T2, T3, T4, T5, T6, T7⟩ := net_facts
  have := items_parse .network LNetItem.events (fun i => i.ok = true) (StopTail .gama_xml) LNetItem.ws
    (fun _ => rfl) (fun x hx => hx) T2 (by decide)
    (by
      intro b rest hacc
      exact ⟨b, rest, rfl, (container_stop T3 hacc).2⟩)
    (by
      intro t as d evs hacc
      obtain ⟨s1, hn, hacc1⟩ := acc_cons.mp hacc
      obtain ⟨sig, hm, hp⟩ := next_start.mp hn
      have hm' := (sameTable_mem T1 _).mp hm
      simp only [netExpected, List.mem_cons, Prod.mk.injEq, List.mem_nil_iff, or_false] at hm'
      left
      rcases hm' with ⟨h1, h2, h3⟩ | ⟨h1, h2, h3⟩ | ⟨h1, h2, h3⟩
      · subst h1 h2 h3
        obtain ⟨ts, b, rest, he, _, _, hr⟩ := simple_parse T4 evs hacc1
        refine ⟨.description as d ts b, rest, rfl, ?_, hr, ?_⟩
        · simp [LNetItem.events, he]
        · rw [he]; simp [texts]; omega
      · subst h1 h2 h3
        obtain ⟨ha, hd⟩ := sigPass_one.mp hp
        subst hd
        obtain ⟨ws, b, rest, he, hws, hr, hl⟩ := leaf_parse .parameters as T6 T7 hacc1
        exact ⟨.parameters ⟨.parameters, as, ws, b⟩, rest, by simp [LNetItem.ok, ha, hws], he, hr, hl⟩
      · subst h1 h2 h3
        obtain ⟨ha, hd⟩ := sigPass_one.mp hp
        subst hd
        obtain ⟨items, b, rest, he, hok, hr⟩ := po_parse evs hacc1
        refine ⟨.pointsObs as items b, rest, by simp [LNetItem.ok, ha, hok], ?_, hr, ?_⟩
        · simp [LNetItem.events, he]
        · rw [he]; simp; omega)
    evs.length evs (Nat.le_refl _) h
  obtain ⟨items, tail, he, hok, b, rest, ht, hr⟩ := this
  exact ⟨items, b, rest, by rw [he, ht], List.all_eq_true.mpr hok, hr⟩

theorem net_item_run (i : LNetItem) (hi : i.ok = true) (rest : List Event) :
    cleanRun .network (i.events ++ rest) = cleanRun .network rest := by
  obtain ⟨T1, T2, T3, T4, T5, T6, T7⟩ := net_facts
  obtain ⟨P1, P2, P3, P4, P5⟩ := po_facts
  cases i with
  | ws x =>
    simp only [LNetItem.ok] at hi
    exact cleanRun_cons_of_next (next_text.mpr ⟨rfl, by simp [hi]⟩) rest
  | description as sb text eb =>
    have hm : (Tag.description, State.description, ([] : List Chk)) ∈ childTable .network := by
      apply (sameTable_mem T1 _).mpr; simp [netExpected]
    simp only [LNetItem.events, List.cons_append, List.append_assoc]
    rw [cleanRun_cons_of_next (next_start.mpr ⟨_, hm, rfl⟩)]
    exact simple_run T4 eb rest (fun h => by cases h) text (textsOk_of_accepting T5 _)
  | parameters l =>
    simp only [LNetItem.ok, Bool.and_eq_true, beq_iff_eq] at hi
    obtain ⟨⟨ht, ha⟩, hws⟩ := hi
    have hm : (l.tag, State.parameters, [Chk.attrs .parameters_]) ∈ childTable .network := by
      apply (sameTable_mem T1 _).mpr
      rw [ht]; simp [netExpected]
    exact leaf_run l rest (next_start.mpr ⟨_, hm, sigPass_one.mpr ⟨ha, rfl⟩⟩) T6 T7 hws
  | pointsObs as items eb =>
    simp only [LNetItem.ok, Bool.and_eq_true] at hi
    have hm : (Tag.points_observations, State.point_obs, [Chk.attrs .point_obs_]) ∈ childTable .network := by
      apply (sameTable_mem T1 _).mpr; simp [netExpected]
    simp only [LNetItem.events, List.cons_append, List.append_assoc]
    rw [cleanRun_cons_of_next (next_start.mpr ⟨_, hm, sigPass_one.mpr ⟨hi.1, rfl⟩⟩),
      items_run .point_obs LPOItem.events (fun i => i.ok = true) po_item_run items _ (List.all_eq_true.mp hi.2)]
    exact cleanRun_cons_of_next (next_stop.mpr ⟨false, P3, fun h => by cases h⟩) rest

theorem root_parse (evs : List Event) (h : Acc .gama_xml evs) :
    ∃ (items : List LRootItem) (b : Bool) (rest : List Event),
      evs = items.flatMap LRootItem.events ++ .stop b :: rest ∧ items.all LRootItem.ok = true ∧ Acc .stop_ rest := by
  obtain ⟨T1, T2, T3, _, _, _⟩ := root_facts
  have := items_parse .gama_xml LRootItem.events (fun i => i.ok = true) (StopTail .stop_) LRootItem.ws
    (fun _ => rfl) (fun x hx => hx) T2 (by decide)
    (by
      intro b rest hacc
      exact ⟨b, rest, rfl, (container_stop T3 hacc).2⟩)
    (by
      intro t as d evs hacc
      obtain ⟨s1, hn, hacc1⟩ := acc_cons.mp hacc
      obtain ⟨sig, hm, hp⟩ := next_start.mp hn
      have hm' := (sameTable_mem T1 _).mp hm
      simp only [List.mem_singleton, Prod.mk.injEq] at hm'
      left
      obtain ⟨h1, h2, h3⟩ := hm'
      subst h1 h2 h3
      obtain ⟨ha, hd⟩ := sigPass_one.mp hp
      subst hd
      obtain ⟨items, b, rest, he, hok, hr⟩ := net_parse evs hacc1
      refine ⟨.network as items b, rest, by simp [LRootItem.ok, ha, hok], ?_, hr, ?_⟩
      · simp [LRootItem.events, he]
      · rw [he]; simp; omega)
    evs.length evs (Nat.le_refl _) h
  obtain ⟨items, tail, he, hok, b, rest, ht, hr⟩ := this
  exact ⟨items, b, rest, by rw [he, ht], List.all_eq_true.mpr hok, hr⟩

theorem root_item_run (i : LRootItem) (hi : i.ok = true) (rest : List Event) :
    cleanRun .gama_xml (i.events ++ rest) = cleanRun .gama_xml rest := by
  obtain ⟨T1, T2, T3, _, _, _⟩ := root_facts
  obtain ⟨N1, N2, N3, _⟩ := net_facts
  cases i with
  | ws x =>
    simp only [LRootItem.ok] at hi
    exact cleanRun_cons_of_next (next_text.mpr ⟨rfl, by simp [hi]⟩) rest
  | network as items eb =>
    simp only [LRootItem.ok, Bool.and_eq_true] at hi
    have hm : (Tag.network, State.network, [Chk.attrs .network_]) ∈ childTable .gama_xml := by
      apply (sameTable_mem T1 _).mpr; simp
    simp only [LRootItem.events, List.cons_append, List.append_assoc]
    rw [cleanRun_cons_of_next (next_start.mpr ⟨_, hm, sigPass_one.mpr ⟨hi.1, rfl⟩⟩),
      items_run .network LNetItem.events (fun i => i.ok = true) net_item_run items _ (List.all_eq_true.mp hi.2)]
    exact cleanRun_cons_of_next (next_stop.mpr ⟨false, N3, fun h => by cases h⟩) rest

/-- after the root element: blank character data only -/
theorem stop_parse : ∀ evs : List Event, Acc .stop_ evs → ∃ post, evs = texts post ∧ blanks post = true := by
  obtain ⟨S1, S2, S3⟩ := stop_facts
  intro evs
  induction evs with
  | nil => intro _; exact ⟨[], rfl, rfl⟩
  | cons e r ih =>
    intro h
    obtain ⟨s', hn, hacc⟩ := acc_cons.mp h
    cases e with
    | start t as d =>
      obtain ⟨sig, hm, _⟩ := next_start.mp hn
      rw [S2] at hm; cases hm
    | stop b =>
      obtain ⟨fin, hs, _⟩ := next_stop.mp hn
      rw [S1] at hs; cases hs
    | text x =>
      obtain ⟨h1, hx⟩ := next_text.mp hn
      subst h1
      rw [S3, Bool.false_or] at hx
      obtain ⟨post, he, hb⟩ := ih hacc
      exact ⟨x :: post, by rw [he]; rfl, by simp only [blanks, List.all_cons, hx, Bool.true_and]; exact hb⟩

theorem stop_run : ∀ post : List (List Char), blanks post = true → cleanRun .stop_ (texts post) = some .stop_ := by
  intro post
  induction post with
  | nil => intro _; rfl
  | cons x r ih =>
    intro h
    simp only [blanks, List.all_cons, Bool.and_eq_true] at h
    simp only [texts, List.map_cons]
    rw [cleanRun_cons_of_next (next_text.mpr ⟨rfl, by simp [h.1]⟩)]
    exact ih h.2

/-- what a document is after its leading blank text -/
def DocTail (tail : List Event) : Prop :=
  ∃ (as : List Attr) (items : List LRootItem) (b : Bool) (post : List (List Char)),
    tail = .start .gama_xml as true :: (items.flatMap LRootItem.events ++ .stop b :: texts post) ∧
    attrsOk .gama_xml_ as = true ∧ items.all LRootItem.ok = true ∧ blanks post = true

theorem doc_parse (evs : List Event) (h : Acc .start_ evs) : ∃ d : LDoc, d.ok = true ∧ d.events = evs := by
  obtain ⟨_, _, _, T1, T2, T3⟩ := root_facts
  have := items_parse .start_ (fun x : List Char => [Event.text x]) (fun x => isBlank x = true) DocTail id
    (fun _ => rfl) (fun x hx => hx) T2 (by decide)
    (by
      intro b rest hacc
      obtain ⟨s', hn, _⟩ := acc_cons.mp hacc
      obtain ⟨fin, hs, _⟩ := next_stop.mp hn
      rw [T3] at hs; cases hs)
    (by
      intro t as d evs hacc
      obtain ⟨s1, hn, hacc1⟩ := acc_cons.mp hacc
      obtain ⟨sig, hm, hp⟩ := next_start.mp hn
      have hm' := (sameTable_mem T1 _).mp hm
      simp only [List.mem_singleton, Prod.mk.injEq] at hm'
      right
      obtain ⟨h1, h2, h3⟩ := hm'
      subst h1 h2 h3
      obtain ⟨ha, hd⟩ := sigPass_one.mp hp
      subst hd
      obtain ⟨items, b, rest, he, hok, hr⟩ := root_parse evs hacc1
      obtain ⟨post, hpost, hb⟩ := stop_parse rest hr
      exact ⟨as, items, b, post, by rw [he, hpost], ha, hok, hb⟩)
    evs.length evs (Nat.le_refl _) h
  obtain ⟨pre, tail, he, hok, as, items, b, post, ht, ha, hitems, hpost⟩ := this
  refine ⟨⟨pre, as, items, b, post⟩, ?_, ?_⟩
  · simp only [LDoc.ok, Bool.and_eq_true]
    exact ⟨⟨⟨List.all_eq_true.mpr hok, ha⟩, hitems⟩, hpost⟩
  · rw [he, ht, flatMap_text]; rfl

theorem doc_run (d : LDoc) (hd : d.ok = true) : cleanRun .start_ d.events = some .stop_ := by
  obtain ⟨R1, R2, R3, T1, T2, T3⟩ := root_facts
  simp only [LDoc.ok, Bool.and_eq_true] at hd
  obtain ⟨⟨⟨hpre, ha⟩, hitems⟩, hpost⟩ := hd
  have hm : (Tag.gama_xml, State.gama_xml, [Chk.attrs .gama_xml_]) ∈ childTable .start_ := by
    apply (sameTable_mem T1 _).mpr; simp
  simp only [LDoc.events]
  rw [← flatMap_text d.pre,
    items_run .start_ (fun x : List Char => [Event.text x]) (fun x => isBlank x = true)
      (fun x hx rest => cleanRun_cons_of_next (next_text.mpr ⟨rfl, by simp [hx]⟩) rest) d.pre _
      (List.all_eq_true.mp hpre),
    cleanRun_cons_of_next (next_start.mpr ⟨_, hm, sigPass_one.mpr ⟨ha, rfl⟩⟩),
    items_run .gama_xml LRootItem.events (fun i => i.ok = true) root_item_run d.items _ (List.all_eq_true.mp hitems),
    cleanRun_cons_of_next (next_stop.mpr ⟨false, R3, fun h => by cases h⟩)]
  exact stop_run d.post hpost

/-! ### the two inclusions for the run model -/

theorem init_clean : Clean St.init .start_ := ⟨rfl, rfl⟩

/-- accepted ⇒ a document of the liberal grammar (well-nestedness is not even needed: it follows) -/
theorem accepted_is_liberal' (evs : List Event) (h : (run St.init evs).state = .stop_) :
    ∃ d : LDoc, d.ok = true ∧ d.events = evs :=
  doc_parse evs ((run_stop_iff evs St.init .start_ init_clean).mp h)

theorem accepted_is_liberal (evs : List Event) (_hw : depthAfter evs 0 = some 0)
    (h : (run St.init evs).state = .stop_) : ∃ d : LDoc, d.ok = true ∧ d.events = evs :=
  accepted_is_liberal' evs h

theorem liberal_is_accepted (d : LDoc) (hd : d.ok = true) :
    (run St.init d.events).state = .stop_ ∧ (run St.init d.events).err = none ∧
      depthAfter d.events 0 = some 0 := by
  have h := doc_run d hd
  have hc := run_cleanRun_some d.events St.init .start_ .stop_ init_clean h
  exact ⟨hc.1, hc.2, cleanRun_depth d.events .start_ .stop_ (by decide) h⟩

/-- an accepted sequence is well nested -/
theorem accepted_wellnested (evs : List Event) (h : (run St.init evs).state = .stop_) :
    depthAfter evs 0 = some 0 := by
  obtain ⟨d, hd, he⟩ := accepted_is_liberal' evs h
  rw [← he]; exact (liberal_is_accepted d hd).2.2

/-! ### the documented grammar is contained in the liberal one -/

theorem flatMap_map_eq {α β γ : Type} (f : α → β) (g : β → List γ) (h : α → List γ)
    (hh : ∀ a, g (f a) = h a) : ∀ l : List α, (l.map f).flatMap g = l.flatMap h := by
  intro l
  induction l with
  | nil => rfl
  | cons a r ih => simp only [List.map_cons, List.flatMap_cons, hh, ih]

/-- documented attribute names of `t` are all compared by `process_g` -/
def docSub (t : Tag) (g : Handler) : Bool := (docAttrs t).all (fun n => (attrNames g).contains n)

/-- XSD attribute names ⊆ names accepted by the handler (on the generated `attrNames`) -/
theorem doc_attr_spine :
    docSub .gama_xml .gama_xml_ = true ∧ docSub .network .network_ = true ∧
    docSub .parameters .parameters_ = true ∧ docSub .points_observations .point_obs_ = true ∧
    docSub .point_ .point_ = true ∧ docSub .cov_mat .cov_ = true := by decide

def docClusterOk (k : ClusterKind) : Bool :=
  docSub k.tag k.handler &&
  (clusterTags k).all (fun t => k.children.any (fun c => c.1 == t && docSub t c.2.1 && (!c.2.2 || k == .coords)))

theorem doc_attr_cluster : ∀ k : ClusterKind, docClusterOk k = true := by
  intro k; cases k <;> decide

theorem Leaf.toL_events (l : Leaf) : l.toL.events = l.events := by
  simp [Leaf.toL, LLeaf.events, Leaf.events, texts]

theorem CovEl.toL_events (c : CovEl) : c.toL.events = c.events := by
  simp [CovEl.toL, LCov.events, CovEl.events, texts]

theorem Cluster.toL_events (c : Cluster) : c.toL.events = c.events := by
  simp only [Cluster.toL, LCluster.events, Cluster.events]
  rw [flatMap_map_eq _ _ Leaf.events (fun l => by simp [LItem.events, Leaf.toL_events])]
  cases c.cov <;> simp [LCov.optEvents, CovEl.toL_events]

theorem POItem.toL_events (p : POItem) : p.toL.events = p.events := by
  cases p <;> simp [POItem.toL, LPOItem.events, POItem.events, Leaf.toL_events, Cluster.toL_events]

theorem NetItem.toL_events (i : NetItem) : i.toL.events = i.events := by
  cases i with
  | description text => simp [NetItem.toL, LNetItem.events, NetItem.events, texts]
  | parameters as => simp [NetItem.toL, LNetItem.events, NetItem.events, LLeaf.events, texts]
  | pointsObs as items =>
    simp only [NetItem.toL, LNetItem.events, NetItem.events]
    rw [flatMap_map_eq _ _ POItem.events POItem.toL_events]

theorem Doc.toL_events (d : Doc) : d.toL.events = d.events := by
  simp only [Doc.toL, LDoc.events, Doc.events, LRootItem.events, texts, List.map_nil, List.nil_append,
    List.flatMap_cons, List.flatMap_nil, List.append_nil]
  rw [flatMap_map_eq _ _ NetItem.events NetItem.toL_events]
  simp

theorem Leaf.toL_okIn (k : ClusterKind) (l : Leaf) (h : k.itemOk l = true) : l.toL.okIn k = true := by
  obtain ⟨hmem, hdoc, hxy⟩ := itemOk_tag k l h
  have T := doc_attr_cluster k
  simp only [docClusterOk, Bool.and_eq_true, List.all_eq_true, List.any_eq_true, beq_iff_eq,
    Bool.or_eq_true, Bool.not_eq_true'] at T
  obtain ⟨c, hc, ⟨hct, hsub⟩, hx⟩ := T.2 l.tag hmem
  simp only [LLeaf.okIn, Leaf.toL, Bool.and_eq_true, List.any_eq_true, beq_iff_eq, Bool.or_eq_true,
    Bool.not_eq_true']
  refine ⟨⟨c, hc, ⟨hct.symm, attrsOk_of_documented l.tag c.2.1 l.attrs hdoc hsub⟩, ?_⟩, rfl⟩
  rcases hx with hx | hx
  · left; exact hx
  · right; exact hxy hx

theorem Cluster.toL_ok (c : Cluster) (h : c.valid = true) : c.toL.ok = true := by
  have T := doc_attr_cluster c.kind
  simp only [docClusterOk, Bool.and_eq_true] at T
  simp only [Cluster.valid, Bool.and_eq_true] at h
  obtain ⟨⟨⟨ha, hitems⟩, hcov⟩, _⟩ := h
  simp only [LCluster.ok, Cluster.toL, Bool.and_eq_true, List.all_map]
  refine ⟨⟨attrsOk_of_documented _ _ _ ha T.1, ?_⟩, ?_⟩
  · rw [List.all_eq_true]
    intro l hl
    exact Leaf.toL_okIn c.kind l (List.all_eq_true.mp hitems l hl)
  · cases hc : c.cov with
    | none => rfl
    | some cv =>
      rw [hc] at hcov
      simp only [Option.map_some, LCov.optOk, LCov.ok, CovEl.toL, Bool.and_eq_true]
      exact ⟨attrsOk_of_documented _ _ _ hcov doc_attr_spine.2.2.2.2.2, rfl⟩

theorem POItem.toL_ok (p : POItem) (h : p.valid = true) : p.toL.ok = true := by
  cases p with
  | point l =>
    simp only [POItem.valid, Bool.and_eq_true, beq_iff_eq] at h
    simp only [POItem.toL, LPOItem.ok, Leaf.toL, Bool.and_eq_true, beq_iff_eq]
    exact ⟨⟨h.1, attrsOk_of_documented .point_ _ _ h.2 doc_attr_spine.2.2.2.2.1⟩, rfl⟩
  | cluster c => exact Cluster.toL_ok c h

theorem NetItem.toL_ok (i : NetItem) (h : i.valid = true) : i.toL.ok = true := by
  cases i with
  | description text => rfl
  | parameters as =>
    simp only [NetItem.valid] at h
    simp [NetItem.toL, LNetItem.ok, blanks, attrsOk_of_documented .parameters _ _ h doc_attr_spine.2.2.1]
  | pointsObs as items =>
    simp only [NetItem.valid, Bool.and_eq_true] at h
    simp only [NetItem.toL, LNetItem.ok, Bool.and_eq_true, List.all_map]
    refine ⟨attrsOk_of_documented .points_observations _ _ h.1 doc_attr_spine.2.2.2.1, ?_⟩
    rw [List.all_eq_true]
    intro p hp
    exact POItem.toL_ok p (List.all_eq_true.mp h.2 p hp)

theorem Doc.toL_ok (d : Doc) (h : d.valid = true) : d.toL.ok = true := by
  simp only [Doc.valid, Bool.and_eq_true] at h
  have h1 := attrsOk_of_documented .gama_xml _ _ h.1.1 doc_attr_spine.1
  have h2 := attrsOk_of_documented .network _ _ h.1.2 doc_attr_spine.2.1
  have h3 : (d.items.map NetItem.toL).all LNetItem.ok = true := by
    rw [List.all_map, List.all_eq_true]
    intro i hi
    exact NetItem.toL_ok i (List.all_eq_true.mp h.2 i hi)
  simp only [Doc.toL, LDoc.ok, LRootItem.ok, blanks, List.all_nil, List.all_cons, h1, h2, h3, Bool.and_self]

theorem doc_is_liberal (d : Doc) (h : d.valid = true) : ∃ l : LDoc, l.ok = true ∧ l.events = d.events :=
  ⟨d.toL, Doc.toL_ok d h, Doc.toL_events d⟩

end Gama.Gkf
