/-
  C12 — the record round trips instantiated with the number codec of b-C13 (`Gama.Export.Codec`, law `Codec.Printer`:
  `rd (fmt x) = some (q x)`, satisfied by the fixed-digits decimal printer `decCodec` with `q = decQ`), and a concrete
  mixed section for the non-vacuity examples of Props/C12.
-/
import Gama.Lemmas.XmlRecords
import Gama.Lemmas.ExportPrinter
namespace Gama.XmlRec
open Gama.ReaderPoint
variable {K : Type}

/-- the number format of a C13 codec, as the writer / reader of the adjustment XML use it -/
def numOf (C : Gama.Export.Codec K) : Num K := ⟨C.fmt, C.rd⟩

theorem numOf_law {C : Gama.Export.Codec K} {q qd : K → K} (P : C.Printer q qd) (x : K) :
    (numOf C).rd ((numOf C).fmt x) = some (q x) := P.rd_fmt x

/-- arithmetic on the counting numbers of `decCodec` (units of 10⁻⁴; truncated), only to run the examples -/
instance natScalar : Scalar Nat :=
  { add := Nat.add, sub := Nat.sub, mul := Nat.mul, div := Nat.div, neg := id, zero := 0, one := 1,
    lt := Nat.lt, le := Nat.le, sqrt := id, ofNat := id, ofSci := fun m _ _ => m,
    decLt := fun a b => Nat.decLt a b, decLe := fun a b => Nat.decLe a b, beq := fun a b => a == b, abs := id }

/-- y mirrored? no: `ySign = 1`; corrections `X(k) = 1000·k`; numbers carry a last digit the printer rounds -/
def exFrame : Frame Nat := ⟨1, fun k => 1000 * k, 1, 1, 3⟩

/-- a fixed 3D point, a free 3D point, a constrained plane point, a free height point, an unused point -/
def exPoints : List (LPoint Nat) :=
  [⟨"F", true, true, 0, 0, 0, false, false, 1001, 2002, 3003⟩,
   ⟨"A", true, true, 1, 2, 3, false, false, 1001, 2002, 3003⟩,
   ⟨"B x", true, false, 4, 5, 0, true, false, 4004, 5005, 0⟩,
   ⟨"C", false, true, 0, 0, 6, false, false, 0, 0, 6006⟩,
   ⟨"U", false, false, 0, 0, 0, false, false, 7, 7, 7⟩]

theorem exPoints_trimmed : ∀ p ∈ exPoints, Trimmed p.id := by
  intro p hp
  simp only [exPoints, List.mem_cons, List.not_mem_nil, or_false] at hp
  rcases hp with rfl | rfl | rfl | rfl | rfl <;> exact ⟨by decide, by decide⟩

def exOris : List (LOri Nat) := [⟨"A", 7, 100⟩, ⟨"B x", 8, 390⟩]

theorem exOris_trimmed : ∀ o ∈ exOris, Trimmed o.id := by
  intro o ho
  simp only [exOris, List.mem_cons, List.not_mem_nil, or_false] at ho
  rcases ho with rfl | rfl <;> exact ⟨by decide, by decide⟩

/-- a mirrored vector component with outlier columns, an angle, a coordinate observation without control -/
def exObs : List (LObs Nat) :=
  [⟨.dy, "A", "B x", "", "", 12345, 20, 7, 1, 9, 4, 2, true⟩,
   ⟨.angle, "A", "", "B x", "C", 100, 30, 7, 1, 0, 0, 2, true⟩,
   ⟨.coordZ, "C", "", "", "", 6006, 0, 7, 1, 0, 0, 2, false⟩]

end Gama.XmlRec
