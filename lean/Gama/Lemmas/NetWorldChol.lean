/-
  The observations of an `AdjCholDec` object (`obsChol`) meet `SolverObs.Sound` — from the solver's
  own theorems (`C02_refusal_chol` = `chol_refusal`, `C20_chol_lindep` = `chol_lindep_spec`,
  `card_flags_add_rank`).

  `obsChol p`: a fresh object answers (`cholSolve p = .ok a`) or throws `e` from `solve()`.  After the
  throw `null_space()` reads `defect()` (= `nullity`) and `lindep(i)` (= `nullity && invp(i) > N0`) of
  the same object: both are fixed by the factorisation `cholFact p`, which precedes the Gram–Schmidt
  stage that throws and does not look at the regularisation list; the model exposes that state as the
  answer on the same system with all unknowns regularised (`{ p with reg := .all }`: same `cholFact`,
  and the Gram–Schmidt stage cannot refuse).
-/
import Gama.Lemmas.NetWorldGso
import Gama.Lemmas.Ls.CholC20
import Gama.Lemmas.Ls.CholSingular
import Gama.Lemmas.Ls.ComposeCholBelongs
namespace Gama.NetDecision
open Gama Gama.Ls Gama.LS Gama.Ls.Chol Matrix Finset

set_option linter.unusedSectionVars false

variable {K : Type} [Field K] [LinearOrder K] [IsStrictOrderedRing K] [SqrtFn K]
attribute [local instance 2000] scalarOfField

/-- the same system with every unknown in the regularisation list -/
def allReg (p : Problem K) : Problem K := { p with reg := .all }

/-- observations of an `AdjCholDec` object fed with `p` (see the header) -/
def obsChol (p : Problem K) : SolverObs K :=
  match cholSolve p with
  | .ok a => obsOfAnswer a none
  | .error e =>
    match cholSolve (allReg p) with
    | .ok a => obsOfAnswer a (some e)
    | .error _ => { refused := some e, defect := 0, lindep := fun _ => false, qxx := fun _ => 0 }

/-- what `C20_chol_lindep` + `card_flags_add_rank` give for an answer record, in `Sound` form -/
theorem chol_flags_sound (p : Problem K) (hU : Chol.UnambiguousF (cholFact p)) (a : Answer K)
    (h : cholSolve p = .ok a) (r : Option ErrKind) :
    (flaggedOf p.n (obsOfAnswer a r).lindep).length = a.defect ∧
    (∀ i : Fin p.n, (obsOfAnswer a r).lindep (i.val + 1) = true → ∃ g, p.A *ᵥ g = 0 ∧ g i ≠ 0) ∧
    (∀ g : Fin p.n → K, p.A *ᵥ g = 0 → (∀ i : Fin p.n, (obsOfAnswer a r).lindep (i.val + 1) = true → g i = 0) → g = 0) ∧
    a.defect + p.A.rank = p.n := by
  unfold cholSolve at h
  cases hs : Chol.solve p with
  | error e => rw [hs] at h; simp [Except.map] at h
  | ok s =>
    rw [hs] at h
    have ha : a = s.answer := (Except.ok.inj h).symm
    subst ha
    obtain ⟨_, hn, _⟩ := solve_shape p s hs
    obtain ⟨_, h2, h3, h4⟩ := chol_lindep_spec p hU s hs
    have hl : ∀ i : Fin p.n, (obsOfAnswer s.answer r).lindep (i.val + 1) = true ↔ s.lindep0 i.val = true := by
      intro i
      rw [obsOfAnswer_lindep]
      show (if s.idx (i.val + 1) then Except.ok (s.lindep0 (i.val + 1 - 1)) else Except.error ErrKind.NotModelled) = _ ↔ _
      have hi : s.idx (i.val + 1) = true := by simp [Chol.Solved.idx, hn]
      rw [hi]; simp
    have hcard : (univ.filter fun j : Fin p.n => (obsOfAnswer s.answer r).lindep (j.val + 1) = true).card
        = s.answer.defect := by
      show _ = s.nullity
      rw [← h2]
      refine card_bij (fun (j : Fin p.n) _ => j.val) ?_ ?_ ?_
      · intro j hj
        exact mem_filter.2 ⟨mem_range.2 j.2, (hl j).1 (mem_filter.1 hj).2⟩
      · intro j _ k _ hjk; exact Fin.ext hjk
      · intro z hz
        obtain ⟨z1, z2⟩ := mem_filter.1 hz
        exact ⟨⟨z, mem_range.1 z1⟩, mem_filter.2 ⟨mem_univ _, (hl ⟨z, mem_range.1 z1⟩).2 z2⟩, rfl⟩
    refine ⟨by rw [flaggedOf_length_eq_card]; exact hcard, ?_, ?_, ?_⟩
    · intro i hi
      obtain ⟨g, g1, g2, _⟩ := h4 i ((hl i).1 hi)
      exact ⟨g, g1, by rw [g2]; simp⟩
    · intro g hg hz
      exact h3 g hg (fun i hi => hz i ((hl i).2 hi))
    · have := card_flags_add_rank p.A (univ.filter fun j : Fin p.n => (obsOfAnswer s.answer r).lindep (j.val + 1) = true)
        (fun g hg hz => h3 g hg (fun i hi => hz i (mem_filter.2 ⟨mem_univ _, (hl i).2 hi⟩)))
        (fun i hi => by
          obtain ⟨g, g1, g2, g3⟩ := h4 i ((hl i).1 (mem_filter.1 hi).2)
          exact ⟨g, g1, g2, fun i' hi' hne => g3 i' ((hl i').1 (mem_filter.1 hi').2) hne⟩)
      rw [hcard, Fintype.card_fin] at this
      exact this

/-- **the observations of the Cholesky solver are sound** (hypotheses of its own theorems, for the
    configured list and for the list of all unknowns) -/
theorem obsChol_sound (p : Problem K) (hU : Chol.UnambiguousF (cholFact p))
    (hsq : Chol.GsSqrtExact p) (hun : Chol.GsUnamb p)
    (hsqA : Chol.GsSqrtExact (allReg p)) (hunA : Chol.GsUnamb (allReg p))
    (hrl : regList p.n p.reg ≠ none) :
    (obsChol p).Sound p.A p.S := by
  obtain ⟨hok, herr⟩ := chol_refusal p hU hsq hun
  cases hc : cholSolve p with
  | ok a =>
    have ho : obsChol p = obsOfAnswer a none := by unfold obsChol; rw [hc]
    obtain ⟨c1, c2, c3, c4⟩ := chol_flags_sound p hU a hc none
    rw [ho]
    refine ⟨?_, ?_, c1, c2, c3, c4⟩
    · constructor
      · intro h; cases h
      · intro h; exact absurd (hok a hc) h
    · intro e he; cases he
  | error e =>
    have he : e = .BadRegularization ∧ ¬ Resolves p.A p.S := by
      rcases herr e hc with h | ⟨_, h⟩
      · exact h
      · exact absurd h hrl
    obtain ⟨rfl, hnr⟩ := he
    have hUA : Chol.UnambiguousF (cholFact (allReg p)) := hU
    obtain ⟨_, herrA⟩ := chol_refusal (allReg p) hUA hsqA hunA
    cases hcA : cholSolve (allReg p) with
    | error e' =>
      exfalso
      rcases herrA e' hcA with ⟨_, h⟩ | ⟨_, h⟩
      · apply h
        intro g _ hz
        funext i
        exact hz i (Finset.mem_univ i)
      · simp [allReg, regList] at h
    | ok a =>
      have ho : obsChol p = obsOfAnswer a (some .BadRegularization) := by unfold obsChol; rw [hc]; simp only; rw [hcA]
      obtain ⟨c1, c2, c3, c4⟩ := chol_flags_sound (allReg p) hUA a hcA (some .BadRegularization)
      rw [ho]
      refine ⟨?_, ?_, c1, c2, c3, c4⟩
      · constructor
        · intro _; exact hnr
        · intro _; rfl
      · intro e he; cases he; rfl

end Gama.NetDecision
