/-
  C19 helper lemmas: `AdjInputData::write_xml` / `<adj-input-data>` reader round trip.
-/
import Gama.Model.AdjXml
import Std.Data.String.ToNat
namespace Gama
namespace AdjXml

variable {K S : Type}

/-- the codec round-trips (`istringstream >>` reads back what `operator<<` wrote) -/
structure Codec.Lawful (c : Codec K S) : Prop where
  rdF_fmtF : ∀ x, c.rdF (c.fmtF x) = some x
  rdN_fmtN : ∀ n, c.rdN (c.fmtN n) = some n

/-- a printer with finitely many digits: reading back what was written gives the *quantised* number `q x`, and a
    quantised number prints like the original (so a second dump is identical).  `Lawful` is the case `q = id`. -/
structure Codec.Printer (c : Codec K S) (q : K → K) : Prop where
  rdF_fmtF : ∀ x, c.rdF (c.fmtF x) = some (q x)
  fmtF_q : ∀ x, c.fmtF (q x) = c.fmtF x
  rdN_fmtN : ∀ n, c.rdN (c.fmtN n) = some n

theorem Codec.Lawful.printer {c : Codec K S} (h : c.Lawful) : c.Printer id :=
  ⟨h.rdF_fmtF, fun _ => rfl, h.rdN_fmtN⟩

def qRow (q : K → K) (row : List (Nat × K)) : List (Nat × K) := row.map fun e => (e.1, q e.2)
def Block.mapQ (q : K → K) (b : Block K) : Block K := ⟨b.dim, b.width, b.vals.map q⟩
def SpMat.mapQ (q : K → K) (m : SpMat K) : SpMat K := ⟨m.rows, m.cols, m.rowsL.map (qRow q)⟩
/-- the data with every number replaced by what the reader gets back for it -/
def AdjData.mapQ (q : K → K) (d : AdjData K) : AdjData K :=
  ⟨d.mat.map (SpMat.mapQ q), d.cov.map (List.map (Block.mapQ q)), d.rhs.map q, d.minx⟩

theorem run_nil (c : Codec K S) (r : RS K S) : run c r [] = .ok r := rfl

theorem run_cons (c : Codec K S) (r : RS K S) (e : Ev S) (es : List (Ev S)) :
    run c r (e :: es) = (step c r e).bind (fun r' => run c r' es) := by
  simp [run, List.foldlM_cons, bind, Except.bind]

theorem run_append (c : Codec K S) (r : RS K S) (a b : List (Ev S)) :
    run c r (a ++ b) = (run c r a).bind (fun r' => run c r' b) := by
  induction a generalizing r with
  | nil => simp [run_nil, Except.bind]
  | cons e a ih =>
    rw [List.cons_append, run_cons, run_cons]
    cases step c r e with
    | error x => rfl
    | ok r' => simp [Except.bind, ih]

theorem run_append_ok (c : Codec K S) {r r' : RS K S} {a : List (Ev S)} (b : List (Ev S))
    (h : run c r a = .ok r') : run c r (a ++ b) = run c r' b := by
  rw [run_append, h]; rfl

theorem addElement_snoc (R C : Nat) (done : List (List (Nat × K))) (p : List (Nat × K)) (i : Nat) (x : K) :
    addElement ⟨R, C, done ++ [p]⟩ i x = ⟨R, C, done ++ [p ++ [(i, x)]]⟩ := by
  simp [addElement, List.reverse_append]

/-- one `<int>i</int><flt>x</flt>` pair inside a row -/
theorem run_pair (c : Codec K S) {q : K → K} (hc : c.Printer q) (r : RS K S) (R C : Nat) (done : List (List (Nat × K)))
    (p : List (Nat × K)) (i : Nat) (x : K) (m j : Nat)
    (hst : r.st = .smRow2) (hbuf : r.buf = []) (hmat : r.mat = some ⟨R, C, done ++ [p]⟩)
    (hm : r.matNonz = m + 1) (hj : r.rowNonz = j + 1) :
    run c r (el .int (c.fmtN i) ++ el .flt (c.fmtF x)) =
      .ok { r with mat := some ⟨R, C, done ++ [p ++ [(i, q x)]]⟩, matNonz := m, rowNonz := j } := by
  obtain ⟨st, buf, mat, matNonz, rowNonz⟩ := r
  simp only at hst hbuf hmat hm hj
  subst hst hbuf hmat hm hj
  simp [el, run_cons, run_nil, step, endEl, next, after, addsText, Except.bind, hc.rdN_fmtN, hc.rdF_fmtF,
    addElement_snoc, pure, Except.pure, throw, throwThe, MonadExceptOf.throw]

/-- all `<int><flt>` pairs of a row -/
theorem run_pairs (c : Codec K S) {q : K → K} (hc : c.Printer q) (es : List (Nat × K)) :
    ∀ (r : RS K S) (R C : Nat) (done : List (List (Nat × K))) (p : List (Nat × K)) (m j : Nat),
      r.st = .smRow2 → r.buf = [] → r.mat = some ⟨R, C, done ++ [p]⟩ →
      r.matNonz = m + es.length → r.rowNonz = j + es.length →
      run c r (es.flatMap fun (i, x) => el .int (c.fmtN i) ++ el .flt (c.fmtF x)) =
        .ok { r with mat := some ⟨R, C, done ++ [p ++ qRow q es]⟩, matNonz := m, rowNonz := j } := by
  induction es with
  | nil =>
    intro r R C done p m j hst hbuf hmat hm hj
    obtain ⟨st, buf, mat, matNonz, rowNonz⟩ := r
    simp only at hst hbuf hmat hm hj
    subst hst hbuf hmat hm hj
    simp [run_nil, qRow]
  | cons e es ih =>
    intro r R C done p m j hst hbuf hmat hm hj
    obtain ⟨i, x⟩ := e
    rw [List.flatMap_cons]
    have h1 := run_pair c hc r R C done p i x (m + es.length) (j + es.length) hst hbuf hmat
      (by simp [hm, List.length_cons]; omega) (by simp [hj, List.length_cons]; omega)
    rw [run_append_ok c _ h1]
    rw [ih _ R C done (p ++ [(i, q x)]) m j (by simp [hst]) (by simp [hbuf]) (by simp) (by simp) (by simp)]
    simp [List.append_assoc, qRow]

/-- one `<row>` -/
theorem run_row (c : Codec K S) {q : K → K} (hc : c.Printer q) (r : RS K S) (R C : Nat) (done : List (List (Nat × K)))
    (row : List (Nat × K)) (m : Nat)
    (hst : r.st = .sm4) (hbuf : r.buf = []) (hmat : r.mat = some ⟨R, C, done⟩)
    (hm : r.matNonz = m + row.length) :
    run c r (writeRow c row) = .ok { r with mat := some ⟨R, C, done ++ [qRow q row]⟩, matNonz := m, rowNonz := 0 } := by
  unfold writeRow
  -- <row> <nonz>n</nonz>
  have h1 : run c r ([.start .row] ++ el .nonz (c.fmtN row.length)) =
      .ok { r with st := .smRow2, mat := some ⟨R, C, done ++ [[]]⟩, rowNonz := row.length } := by
    obtain ⟨st, buf, mat, matNonz, rowNonz⟩ := r
    simp only at hst hbuf hmat hm
    subst hst hbuf hmat hm
    simp [el, run_cons, run_nil, step, endEl, next, after, addsText, Except.bind, hc.rdN_fmtN, pure, Except.pure]
  rw [List.append_assoc, List.append_assoc, ← List.append_assoc [Ev.start Tag.row], run_append_ok c _ h1]
  have h2 := run_pairs c hc row { r with st := .smRow2, mat := some ⟨R, C, done ++ [[]]⟩, rowNonz := row.length }
    R C done [] m 0 rfl (by simp [hbuf]) rfl (by simp [hm]) (by simp)
  rw [run_append_ok c _ h2]
  obtain ⟨st, buf, mat, matNonz, rowNonz⟩ := r
  simp only at hst hbuf hmat hm
  subst hst hbuf hmat hm
  simp [run_cons, run_nil, step, endEl, after, Except.bind, pure, Except.pure]

/-- all rows -/
theorem run_rows (c : Codec K S) {q : K → K} (hc : c.Printer q) (rs : List (List (Nat × K))) :
    ∀ (r : RS K S) (R C : Nat) (done : List (List (Nat × K))) (m : Nat),
      r.st = .sm4 → r.buf = [] → r.mat = some ⟨R, C, done⟩ →
      r.matNonz = m + (rs.map List.length).sum →
      ∃ k, run c r (rs.flatMap (writeRow c)) =
        .ok { r with mat := some ⟨R, C, done ++ rs.map (qRow q)⟩, matNonz := m, rowNonz := k } := by
  induction rs with
  | nil =>
    intro r R C done m hst hbuf hmat hm
    refine ⟨r.rowNonz, ?_⟩
    obtain ⟨st, buf, mat, matNonz, rowNonz⟩ := r
    simp only at hst hbuf hmat hm
    subst hst hbuf hmat hm
    simp [run_nil]
  | cons row rs ih =>
    intro r R C done m hst hbuf hmat hm
    rw [List.flatMap_cons]
    have h1 := run_row c hc r R C done row (m + (rs.map List.length).sum) hst hbuf hmat
      (by simp [hm]; omega)
    rw [run_append_ok c _ h1]
    obtain ⟨k, h2⟩ := ih { r with mat := some ⟨R, C, done ++ [qRow q row]⟩, matNonz := m + (rs.map List.length).sum, rowNonz := 0 }
      R C (done ++ [qRow q row]) m hst hbuf rfl rfl
    refine ⟨k, ?_⟩
    rw [h2]
    simp [List.append_assoc]

/-- the `<flt>` elements of a block -/
theorem run_bflts (c : Codec K S) {q : K → K} (hc : c.Printer q) (vs : List K) :
    ∀ (r : RS K S) (acc : List K) (m j : Nat),
      r.st = .bdBlock3 → r.buf = [] → r.bdVec = acc → r.bdVecDim = j + vs.length → r.bdNonz = m + vs.length →
      run c r (vs.flatMap fun x => el .flt (c.fmtF x)) =
        .ok { r with bdVec := acc ++ vs.map q, bdVecDim := j, bdNonz := m } := by
  induction vs with
  | nil =>
    intro r acc m j hst hbuf hv hd hn
    obtain ⟨st, buf, mat, matNonz, rowNonz, cov, bdBlocks, bdNonz, bdDim, bdWidth, bdVec, bdVecDim⟩ := r
    simp only at hst hbuf hv hd hn
    subst hst hbuf hv hd hn
    simp [run_nil]
  | cons x vs ih =>
    intro r acc m j hst hbuf hv hd hn
    rw [List.flatMap_cons]
    have h1 : run c r (el .flt (c.fmtF x)) =
        .ok { r with bdVec := acc ++ [q x], bdVecDim := j + vs.length, bdNonz := m + vs.length } := by
      obtain ⟨st, buf, mat, matNonz, rowNonz, cov, bdBlocks, bdNonz, bdDim, bdWidth, bdVec, bdVecDim⟩ := r
      simp only [List.length_cons] at hst hbuf hv hd hn
      subst hst hbuf hv hd hn
      simp [el, run_cons, run_nil, step, endEl, next, after, addsText, Except.bind, hc.rdF_fmtF, pure, Except.pure]
    rw [run_append_ok c _ h1]
    rw [ih { r with bdVec := acc ++ [q x], bdVecDim := j + vs.length, bdNonz := m + vs.length }
      (acc ++ [q x]) m j hst hbuf rfl rfl rfl]
    simp [List.append_assoc]

/-- one `<block>` -/
theorem run_block (c : Codec K S) {q : K → K} (hc : c.Printer q) (r : RS K S) (done : List (Block K)) (b : Block K) (k m : Nat)
    (hst : r.st = .bd3) (hbuf : r.buf = []) (hcov : r.cov = some done)
    (hk : r.bdBlocks = k + 1) (hm : r.bdNonz = m + packedSize b.dim b.width)
    (hdim : 0 < b.dim) (hw : b.width < b.dim) (hlen : b.vals.length = packedSize b.dim b.width) :
    run c r (writeBlock c b) =
      .ok { r with cov := some (done ++ [b.mapQ q]), bdBlocks := k, bdNonz := m, bdDim := b.dim, bdWidth := b.width,
                   bdVec := b.vals.map q, bdVecDim := 0 } := by
  unfold writeBlock
  have h1 : run c r ([.start .block] ++ el .dim (c.fmtN b.dim) ++ el .width (c.fmtN b.width)) =
      .ok { r with st := .bdBlock3, bdDim := b.dim, bdWidth := b.width, bdVecDim := packedSize b.dim b.width,
                   bdVec := [] } := by
    obtain ⟨st, buf, mat, matNonz, rowNonz, cov, bdBlocks, bdNonz, bdDim, bdWidth, bdVec, bdVecDim⟩ := r
    simp only at hst hbuf hcov hk hm
    subst hst hbuf hcov hk hm
    simp [el, run_cons, run_nil, step, endEl, next, after, addsText, Except.bind, hc.rdN_fmtN, pure, Except.pure,
      hdim, hw]
  rw [List.append_assoc, run_append_ok c _ h1]
  have h2 := run_bflts c hc b.vals { r with st := .bdBlock3, bdDim := b.dim, bdWidth := b.width, bdVecDim := packedSize b.dim b.width, bdVec := [] } [] m 0 rfl hbuf rfl (by simp [hlen]) (by simp [hm, hlen])
  rw [run_append_ok c _ h2]
  obtain ⟨st, buf, mat, matNonz, rowNonz, cov, bdBlocks, bdNonz, bdDim, bdWidth, bdVec, bdVecDim⟩ := r
  simp only at hst hbuf hcov hk hm
  subst hst hbuf hcov hk hm
  obtain ⟨d, w, v⟩ := b
  simp [run_cons, run_nil, step, endEl, after, Except.bind, pure, Except.pure, Block.mapQ]

/-- all blocks -/
theorem run_blocks (c : Codec K S) {q : K → K} (hc : c.Printer q) (bs : List (Block K)) :
    ∀ (r : RS K S) (done : List (Block K)) (k m : Nat),
      r.st = .bd3 → r.buf = [] → r.cov = some done → r.bdBlocks = k + bs.length → r.bdNonz = m + covNonz bs →
      (∀ b ∈ bs, 0 < b.dim ∧ b.width < b.dim ∧ b.vals.length = packedSize b.dim b.width) →
      ∃ d w v z, run c r (bs.flatMap (writeBlock c)) =
        .ok { r with cov := some (done ++ bs.map (Block.mapQ q)), bdBlocks := k, bdNonz := m, bdDim := d, bdWidth := w,
                     bdVec := v, bdVecDim := z } := by
  induction bs with
  | nil =>
    intro r done k m hst hbuf hcov hk hm _
    refine ⟨r.bdDim, r.bdWidth, r.bdVec, r.bdVecDim, ?_⟩
    obtain ⟨st, buf, mat, matNonz, rowNonz, cov, bdBlocks, bdNonz, bdDim, bdWidth, bdVec, bdVecDim⟩ := r
    simp only [covNonz] at hst hbuf hcov hk hm
    subst hst hbuf hcov hk hm
    simp [run_nil]
  | cons b bs ih =>
    intro r done k m hst hbuf hcov hk hm hwf
    rw [List.flatMap_cons]
    obtain ⟨hd, hw, hl⟩ := hwf b (by simp)
    have h1 := run_block c hc r done b (k + bs.length) (m + covNonz bs) hst hbuf hcov
      (by simp [hk]; omega) (by simp [hm, covNonz]; omega) hd hw hl
    rw [run_append_ok c _ h1]
    obtain ⟨d, w, v, z, h2⟩ := ih { r with cov := some (done ++ [b.mapQ q]), bdBlocks := k + bs.length, bdNonz := m + covNonz bs, bdDim := b.dim, bdWidth := b.width, bdVec := b.vals.map q, bdVecDim := 0 }
      (done ++ [b.mapQ q]) k m hst hbuf rfl rfl rfl (fun b' hb' => hwf b' (by simp [hb']))
    refine ⟨d, w, v, z, ?_⟩
    rw [h2]
    simp [List.append_assoc]

/-- the `<flt>` elements of `<vector>` -/
theorem run_vflts (c : Codec K S) {q : K → K} (hc : c.Printer q) (vs : List K) :
    ∀ (r : RS K S) (acc : List K) (j : Nat),
      r.st = .vec2 → r.buf = [] → r.vec = acc → r.vecDim = j + vs.length →
      run c r (vs.flatMap fun x => el .flt (c.fmtF x)) = .ok { r with vec := acc ++ vs.map q, vecDim := j } := by
  induction vs with
  | nil =>
    intro r acc j hst hbuf hv hd
    obtain ⟨st, buf, mat, matNonz, rowNonz, cov, bdBlocks, bdNonz, bdDim, bdWidth, bdVec, bdVecDim, vec, vecCap, vecDim, arr, arrDim, out⟩ := r
    simp only at hst hbuf hv hd
    subst hst hbuf hv hd
    simp [run_nil]
  | cons x vs ih =>
    intro r acc j hst hbuf hv hd
    rw [List.flatMap_cons]
    have h1 : run c r (el .flt (c.fmtF x)) = .ok { r with vec := acc ++ [q x], vecDim := j + vs.length } := by
      obtain ⟨st, buf, mat, matNonz, rowNonz, cov, bdBlocks, bdNonz, bdDim, bdWidth, bdVec, bdVecDim, vec, vecCap, vecDim, arr, arrDim, out⟩ := r
      simp only [List.length_cons] at hst hbuf hv hd
      subst hst hbuf hv hd
      simp [el, run_cons, run_nil, step, endEl, next, after, addsText, Except.bind, hc.rdF_fmtF, pure, Except.pure]
    rw [run_append_ok c _ h1]
    rw [ih { r with vec := acc ++ [q x], vecDim := j + vs.length } (acc ++ [q x]) j hst hbuf rfl rfl]
    simp [List.append_assoc]

/-- the `<int>` elements of `<array>` -/
theorem run_aints (c : Codec K S) {q : K → K} (hc : c.Printer q) (vs : List Nat) :
    ∀ (r : RS K S) (acc : List Nat) (j : Nat),
      r.st = .arr2 → r.buf = [] → r.arr = some acc → r.arrDim = j + vs.length →
      run c r (vs.flatMap fun i => el .int (c.fmtN i)) = .ok { r with arr := some (acc ++ vs), arrDim := j } := by
  induction vs with
  | nil =>
    intro r acc j hst hbuf hv hd
    obtain ⟨st, buf, mat, matNonz, rowNonz, cov, bdBlocks, bdNonz, bdDim, bdWidth, bdVec, bdVecDim, vec, vecCap, vecDim, arr, arrDim, out⟩ := r
    simp only at hst hbuf hv hd
    subst hst hbuf hv hd
    simp [run_nil]
  | cons x vs ih =>
    intro r acc j hst hbuf hv hd
    rw [List.flatMap_cons]
    have h1 : run c r (el .int (c.fmtN x)) = .ok { r with arr := some (acc ++ [x]), arrDim := j + vs.length } := by
      obtain ⟨st, buf, mat, matNonz, rowNonz, cov, bdBlocks, bdNonz, bdDim, bdWidth, bdVec, bdVecDim, vec, vecCap, vecDim, arr, arrDim, out⟩ := r
      simp only [List.length_cons] at hst hbuf hv hd
      subst hst hbuf hv hd
      simp [el, run_cons, run_nil, step, endEl, next, after, addsText, Except.bind, hc.rdN_fmtN, pure, Except.pure]
    rw [run_append_ok c _ h1]
    rw [ih { r with arr := some (acc ++ [x]), arrDim := j + vs.length } (acc ++ [x]) j hst hbuf rfl rfl]
    simp [List.append_assoc]

/-- `<sparse-mat> … </sparse-mat>` -/
theorem run_mat (c : Codec K S) {q : K → K} (hc : c.Printer q) (r : RS K S) (m : SpMat K)
    (hst : r.st = .aid1) (hbuf : r.buf = []) :
    ∃ k, run c r (writeMat c m) = .ok { r with st := .aid2, mat := some (m.mapQ q), matNonz := 0, rowNonz := k } := by
  unfold writeMat
  have h1 : run c r ([.start .sparseMat] ++ el .rows (c.fmtN m.rows) ++ el .cols (c.fmtN m.cols) ++ el .nonz (c.fmtN m.nonz)) =
      .ok { r with st := .sm4, mat := some ⟨m.rows, m.cols, []⟩, matNonz := m.nonz } := by
    obtain ⟨st, buf, mat, matNonz, rowNonz, cov, bdBlocks, bdNonz, bdDim, bdWidth, bdVec, bdVecDim, vec, vecCap, vecDim, arr, arrDim, out⟩ := r
    simp only at hst hbuf
    subst hst hbuf
    simp [el, run_cons, run_nil, step, endEl, next, after, addsText, Except.bind, hc.rdN_fmtN, pure, Except.pure]
  rw [List.append_assoc, run_append_ok c _ h1]
  obtain ⟨k, h2⟩ := run_rows c hc m.rowsL { r with st := .sm4, mat := some ⟨m.rows, m.cols, []⟩, matNonz := m.nonz }
    m.rows m.cols [] 0 rfl hbuf rfl (by simp [SpMat.nonz])
  rw [run_append_ok c _ h2]
  refine ⟨k, ?_⟩
  obtain ⟨st, buf, mat, matNonz, rowNonz, cov, bdBlocks, bdNonz, bdDim, bdWidth, bdVec, bdVecDim, vec, vecCap, vecDim, arr, arrDim, out⟩ := r
  obtain ⟨R, C, L⟩ := m
  simp [run_cons, run_nil, step, endEl, after, Except.bind, pure, Except.pure, SpMat.mapQ]

/-- `<block-diagonal> … </block-diagonal>` -/
theorem run_cov (c : Codec K S) {q : K → K} (hc : c.Printer q) (r : RS K S) (bs : List (Block K))
    (hst : r.st = .aid2) (hbuf : r.buf = [])
    (hwf : ∀ b ∈ bs, 0 < b.dim ∧ b.width < b.dim ∧ b.vals.length = packedSize b.dim b.width) :
    ∃ d w v z, run c r (writeCov c bs) =
      .ok { r with st := .aid3, cov := some (bs.map (Block.mapQ q)), bdBlocks := 0, bdNonz := 0, bdDim := d, bdWidth := w, bdVec := v, bdVecDim := z } := by
  unfold writeCov
  have h1 : run c r ([.start .blockDiagonal] ++ el .blocks (c.fmtN bs.length) ++ el .nonz (c.fmtN (covNonz bs))) =
      .ok { r with st := .bd3, cov := some [], bdBlocks := bs.length, bdNonz := covNonz bs } := by
    obtain ⟨st, buf, mat, matNonz, rowNonz, cov, bdBlocks, bdNonz, bdDim, bdWidth, bdVec, bdVecDim, vec, vecCap, vecDim, arr, arrDim, out⟩ := r
    simp only at hst hbuf
    subst hst hbuf
    simp [el, run_cons, run_nil, step, endEl, next, after, addsText, Except.bind, hc.rdN_fmtN, pure, Except.pure]
  rw [List.append_assoc, run_append_ok c _ h1]
  obtain ⟨d, w, v, z, h2⟩ := run_blocks c hc bs { r with st := .bd3, cov := some [], bdBlocks := bs.length, bdNonz := covNonz bs }
    [] 0 0 rfl hbuf rfl (by simp) (by simp) hwf
  rw [run_append_ok c _ h2]
  refine ⟨d, w, v, z, ?_⟩
  obtain ⟨st, buf, mat, matNonz, rowNonz, cov, bdBlocks, bdNonz, bdDim, bdWidth, bdVec, bdVecDim, vec, vecCap, vecDim, arr, arrDim, out⟩ := r
  simp [run_cons, run_nil, step, endEl, after, Except.bind, pure, Except.pure]

/-- `<vector> … </vector>` -/
theorem run_vec (c : Codec K S) {q : K → K} (hc : c.Printer q) (r : RS K S) (v : List K)
    (hst : r.st = .aid3) (hbuf : r.buf = []) :
    run c r (writeVec c v) = .ok { r with st := .aid4, vec := v.map q, vecCap := v.length, vecDim := 0 } := by
  unfold writeVec
  have h1 : run c r ([.start .vector] ++ el .dim (c.fmtN v.length)) =
      .ok { r with st := .vec2, vec := [], vecCap := v.length, vecDim := v.length } := by
    obtain ⟨st, buf, mat, matNonz, rowNonz, cov, bdBlocks, bdNonz, bdDim, bdWidth, bdVec, bdVecDim, vec, vecCap, vecDim, arr, arrDim, out⟩ := r
    simp only at hst hbuf
    subst hst hbuf
    simp [el, run_cons, run_nil, step, endEl, next, after, addsText, Except.bind, hc.rdN_fmtN, pure, Except.pure]
  rw [List.append_assoc, run_append_ok c _ h1]
  have h2 := run_vflts c hc v { r with st := .vec2, vec := [], vecCap := v.length, vecDim := v.length } [] 0 rfl hbuf rfl (by simp)
  rw [run_append_ok c _ h2]
  obtain ⟨st, buf, mat, matNonz, rowNonz, cov, bdBlocks, bdNonz, bdDim, bdWidth, bdVec, bdVecDim, vec, vecCap, vecDim, arr, arrDim, out⟩ := r
  simp [run_cons, run_nil, step, endEl, after, Except.bind, pure, Except.pure]

/-- `<array> … </array>` -/
theorem run_arr (c : Codec K S) {q : K → K} (hc : c.Printer q) (r : RS K S) (a : List Nat)
    (hst : r.st = .aid4) (hbuf : r.buf = []) :
    run c r (writeArr c a) = .ok { r with st := .aid5, arr := some a, arrDim := 0 } := by
  unfold writeArr
  have h1 : run c r ([.start .array] ++ el .dim (c.fmtN a.length)) =
      .ok { r with st := .arr2, arr := some [], arrDim := a.length } := by
    obtain ⟨st, buf, mat, matNonz, rowNonz, cov, bdBlocks, bdNonz, bdDim, bdWidth, bdVec, bdVecDim, vec, vecCap, vecDim, arr, arrDim, out⟩ := r
    simp only at hst hbuf
    subst hst hbuf
    simp [el, run_cons, run_nil, step, endEl, next, after, addsText, Except.bind, hc.rdN_fmtN, pure, Except.pure]
  rw [List.append_assoc, run_append_ok c _ h1]
  have h2 := run_aints c hc a { r with st := .arr2, arr := some [], arrDim := a.length } [] 0 rfl hbuf rfl (by simp)
  rw [run_append_ok c _ h2]
  obtain ⟨st, buf, mat, matNonz, rowNonz, cov, bdBlocks, bdNonz, bdDim, bdWidth, bdVec, bdVecDim, vec, vecCap, vecDim, arr, arrDim, out⟩ := r
  simp [run_cons, run_nil, step, endEl, after, Except.bind, pure, Except.pure]

/-- what the C++ writer / reader pair needs for the round trip: the reader insists on the
    sections `<sparse-mat>`, `<block-diagonal>`, `<vector>` in this order (`<array>` is optional),
    on `0 < dim`, `width < dim` for every block and on exactly `packedSize dim width` values in it.
    (gama-g3 always satisfies this: it throws "No parameters and/or observations" before an empty
    matrix or right-hand side can be written.) -/
structure WF (d : AdjData K) : Prop where
  mat : d.mat.isSome
  cov : ∃ bs, d.cov = some bs ∧ ∀ b ∈ bs, 0 < b.dim ∧ b.width < b.dim ∧ b.vals.length = packedSize b.dim b.width
  rhs : d.rhs ≠ []

/-- `readAdj (writeAdj d) = d` up to the quantisation of the printer -/
theorem readAdj_writeAdj_printer (c : Codec K S) {q : K → K} (hc : c.Printer q) (d : AdjData K) (hd : WF d) :
    readAdj c (writeAdj c d) = .ok (d.mapQ q) := by
  obtain ⟨dm, dc, dr, dx⟩ := d
  obtain ⟨hm, ⟨bs, hcov, hwf⟩, hr⟩ := hd
  simp only at hm hcov hr
  obtain ⟨m, rfl⟩ := Option.isSome_iff_exists.mp hm
  subst hcov
  have hlen : dr.length ≠ 0 := by simpa using hr
  unfold readAdj readAll writeAdj
  simp only [hlen, ne_eq, not_false_eq_true, if_true]
  -- <adj-input-data>
  have h0 : run c (RS.init : RS K S) [.start .adjInputData] = .ok { (RS.init : RS K S) with st := .aid1 } := by
    simp [run_cons, run_nil, step, next, RS.init, Except.bind, pure, Except.pure]
  rw [List.append_assoc, List.append_assoc, List.append_assoc, List.append_assoc, run_append_ok c _ h0]
  obtain ⟨k, h1⟩ := run_mat c hc { (RS.init : RS K S) with st := .aid1 } m rfl rfl
  rw [run_append_ok c _ h1]
  obtain ⟨dd, w, v, z, h2⟩ := run_cov c hc { (RS.init : RS K S) with st := .aid2, mat := some (m.mapQ q), matNonz := 0, rowNonz := k } bs rfl rfl hwf
  rw [run_append_ok c _ h2]
  have h3 := run_vec c hc { (RS.init : RS K S) with st := .aid3, mat := some (m.mapQ q), matNonz := 0, rowNonz := k, cov := some (bs.map (Block.mapQ q)), bdBlocks := 0, bdNonz := 0, bdDim := dd, bdWidth := w, bdVec := v, bdVecDim := z } dr rfl rfl
  rw [run_append_ok c _ h3]
  cases dx with
  | none =>
    simp [run_cons, run_nil, step, endEl, after, RS.init, Except.bind, pure, Except.pure, Except.map, hlen, AdjData.mapQ]
  | some a =>
    have h4 := run_arr c hc { (RS.init : RS K S) with st := .aid4, mat := some (m.mapQ q), matNonz := 0, rowNonz := k, cov := some (bs.map (Block.mapQ q)), bdBlocks := 0, bdNonz := 0, bdDim := dd, bdWidth := w, bdVec := v, bdVecDim := z, vec := dr.map q, vecCap := dr.length, vecDim := 0 } a rfl rfl
    simp only []
    rw [run_append_ok c _ h4]
    simp [run_cons, run_nil, step, endEl, after, RS.init, Except.bind, pure, Except.pure, Except.map, hlen, AdjData.mapQ]

theorem qRow_id (row : List (Nat × K)) : qRow id row = row := by
  simp [qRow]

theorem AdjData.mapQ_id (d : AdjData K) : d.mapQ id = d := by
  obtain ⟨m, c, r, x⟩ := d
  have h1 : (SpMat.mapQ (id : K → K)) = id := by
    funext m; obtain ⟨a, b, l⟩ := m; simp [SpMat.mapQ, qRow_id, show (qRow (id : K → K)) = id from funext qRow_id]
  have h2 : (Block.mapQ (id : K → K)) = id := by
    funext b; obtain ⟨a, b, l⟩ := b; simp [Block.mapQ]
  simp [AdjData.mapQ, h1, h2]

/-- `readAdj (writeAdj d) = d` for an exact codec -/
theorem readAdj_writeAdj (c : Codec K S) (hc : c.Lawful) (d : AdjData K) (hd : WF d) :
    readAdj c (writeAdj c d) = .ok d := by
  rw [readAdj_writeAdj_printer c hc.printer d hd, AdjData.mapQ_id]

/-! ### the second dump -/

theorem writeRow_q (c : Codec K S) {q : K → K} (hc : c.Printer q) (row : List (Nat × K)) :
    writeRow c (qRow q row) = writeRow c row := by
  simp [writeRow, qRow, List.flatMap_map, hc.fmtF_q]

@[simp] theorem qRow_length (q : K → K) (row : List (Nat × K)) : (qRow q row).length = row.length := by simp [qRow]
@[simp] theorem Block.mapQ_dim (q : K → K) (b : Block K) : (b.mapQ q).dim = b.dim := rfl
@[simp] theorem Block.mapQ_width (q : K → K) (b : Block K) : (b.mapQ q).width = b.width := rfl

theorem writeMat_q (c : Codec K S) {q : K → K} (hc : c.Printer q) (m : SpMat K) :
    writeMat c (m.mapQ q) = writeMat c m := by
  simp [writeMat, SpMat.mapQ, SpMat.nonz, List.flatMap_map, writeRow_q c hc, Function.comp_def]

theorem writeBlock_q (c : Codec K S) {q : K → K} (hc : c.Printer q) (b : Block K) :
    writeBlock c (b.mapQ q) = writeBlock c b := by
  simp [writeBlock, Block.mapQ, List.flatMap_map, hc.fmtF_q]

theorem writeCov_q (c : Codec K S) {q : K → K} (hc : c.Printer q) (bs : List (Block K)) :
    writeCov c (bs.map (Block.mapQ q)) = writeCov c bs := by
  simp [writeCov, covNonz, List.flatMap_map, writeBlock_q c hc, Function.comp_def]

theorem writeVec_q (c : Codec K S) {q : K → K} (hc : c.Printer q) (v : List K) :
    writeVec c (v.map q) = writeVec c v := by
  simp [writeVec, List.flatMap_map, hc.fmtF_q]

/-- the quantised data prints exactly like the original: a second dump is identical to the first -/
theorem writeAdj_mapQ (c : Codec K S) {q : K → K} (hc : c.Printer q) (d : AdjData K) :
    writeAdj c (d.mapQ q) = writeAdj c d := by
  obtain ⟨m, cv, r, x⟩ := d
  cases m <;> cases cv <;>
    simp [writeAdj, AdjData.mapQ, writeMat_q c hc, writeCov_q c hc, writeVec_q c hc]

theorem WF.mapQ {d : AdjData K} (h : WF d) (q : K → K) : WF (d.mapQ q) := by
  obtain ⟨hm, ⟨bs, hc, hb⟩, hr⟩ := h
  refine ⟨by simpa [AdjData.mapQ] using hm, ⟨bs.map (Block.mapQ q), by simp [AdjData.mapQ, hc], ?_⟩,
    by simpa [AdjData.mapQ] using hr⟩
  intro b hb'
  obtain ⟨b0, h0, rfl⟩ := List.mem_map.mp hb'
  simpa [Block.mapQ] using hb b0 h0

/-- a printer with a fixed number of decimal digits (as C13's `decCodec`): numbers are counted in units of 10⁻⁴ and
    printed in units of 10⁻³, rounded up, as decimal numerals; integers are printed exactly -/
def decCodec : Codec Nat String :=
  ⟨fun n => Nat.repr ((n + 9) / 10), fun t => t.toNat?.map (· * 10), Nat.repr, String.toNat?⟩

def decQ (n : Nat) : Nat := (n + 9) / 10 * 10

theorem decCodec_printer : decCodec.Printer decQ :=
  { rdF_fmtF := fun x => by simp [decCodec, decQ, Nat.toNat?_repr]
    fmtF_q := fun x => by
      have : ((x + 9) / 10 * 10 + 9) / 10 = (x + 9) / 10 := by omega
      simp [decCodec, decQ, this]
    rdN_fmtN := fun n => by simp [decCodec, Nat.toNat?_repr] }

/-- `operator<<` with `precision(p)` and `istringstream >>` on doubles, decomposed into the two roundings they
    perform.  Printing is rounding to a decimal numeral of `p` significant digits (`D x : Dec`) followed by its exact
    rendering (`shw`); reading is exact parsing followed by rounding to the nearest double (`N d`).  The hypotheses
    about the C++ stream (glibc `printf("%.{p}g")` / `strtod`, both correctly rounding) are exactly these fields:
    * `fmt_eq`, `rd_show` — the decomposition (the rendering is read back exactly);
    * `stable` — printing the number that was read back gives the same numeral.  For IEEE doubles: `p ≥ 17` because
      then `N (D x) = x` (17 significant digits identify a double — `DecimalStream.exact` below); `p ≤ 15` because every
      numeral of at most 15 digits survives decimal → double → decimal; `p = 16` (what gama-g3 uses for the dump) because
      either the numeral `D x` is nearer to `x` than half a unit in the last place of `x` (then `N (D x) = x`), or the doubles
      are locally denser than the 16-digit numerals and the double nearest to `D x` is within half a numeral step of
      `D x`.  With 16 digits `N ∘ D` is a projection that is *not* the identity (relative change up to 5·10⁻¹⁶, half a unit of the 16th digit; measured 5.1e-16).
    The `adj` dump stream of the check tests `rd (fmt x)` bit for bit against `x` on the real tool for both precisions
    (counts `dump16_*` in the evidence). -/
structure DecimalStream (c : Codec K S) {Dec : Type} (D : K → Dec) (N : Dec → K) (shw : Dec → S) : Prop where
  fmt_eq : ∀ x, c.fmtF x = shw (D x)
  rd_show : ∀ d, c.rdF (shw d) = some (N d)
  stable : ∀ x, D (N (D x)) = D x
  rdN_fmtN : ∀ n, c.rdN (c.fmtN n) = some n

/-- such a stream is a printer in the sense of the round-trip theorem, with `q = N ∘ D` (round to `p` digits, then to
    the nearest double), and `q` is a projection -/
theorem DecimalStream.printer {c : Codec K S} {Dec : Type} {D : K → Dec} {N : Dec → K} {shw : Dec → S}
    (h : DecimalStream c D N shw) : c.Printer (N ∘ D) ∧ ∀ x, (N ∘ D) ((N ∘ D) x) = (N ∘ D) x :=
  ⟨{ rdF_fmtF := fun x => by rw [h.fmt_eq, h.rd_show]; rfl
     fmtF_q := fun x => by rw [h.fmt_eq, h.fmt_eq]; exact congrArg shw (h.stable x)
     rdN_fmtN := h.rdN_fmtN },
   fun x => congrArg N (h.stable x)⟩

/-- with enough digits (`precision(17)` on IEEE doubles: `N (D x) = x`) the stream is exact -/
theorem DecimalStream.exact {c : Codec K S} {Dec : Type} {D : K → Dec} {N : Dec → K} {shw : Dec → S}
    (h : DecimalStream c D N shw) (h17 : ∀ x, N (D x) = x) : c.Lawful :=
  ⟨fun x => by rw [h.fmt_eq, h.rd_show, h17], h.rdN_fmtN⟩

/-- the three-decimal printer of the examples is such a stream: numerals are the counts of 10⁻³ -/
theorem decCodec_stream : DecimalStream decCodec (fun n => (n + 9) / 10) (· * 10) Nat.repr :=
  { fmt_eq := fun _ => rfl
    rd_show := fun d => by simp [decCodec, Nat.toNat?_repr]
    stable := fun x => by show ((x + 9) / 10 * 10 + 9) / 10 = (x + 9) / 10; omega
    rdN_fmtN := fun n => by simp [decCodec, Nat.toNat?_repr] }

/-- data and codec of the non-vacuity example in `Props/C19.lean` -/
def exampleCodec : Codec Nat Nat := ⟨id, some, id, some⟩
def exampleData : AdjData Nat :=
  { mat := some ⟨3, 4, [[(1, 10), (4, 20)], [], [(2, 30)]]⟩
    cov := some [⟨2, 1, [5, 6, 7]⟩, ⟨1, 0, [9]⟩]
    rhs := [100, 200, 300]
    minx := some [2, 4] }

end AdjXml
end Gama
