/-
  Invariant of the `AdjEnvelope` state machine (Model/EnvState.lean) and the refinement
  "every answer is what a fresh object would compute".  Core Lean only.
-/
import Gama.Model.EnvState
import Gama.Lemmas.Cache
namespace Gama.C04
open Gama Gama.MTF

/-- the ordering maps the unknowns `1..n` to 1-based positions.  Bounded by `inp.n` (round 4): an ordering read
    from an array of length `n` (the driver's `Info.toInput`, `invp i = getD (i-1) 0`) satisfies it, the former
    unbounded form did not -/
def EnvInput.Pos (inp : EnvInput) : Prop := ∀ i, 1 ≤ i → i ≤ inp.n → 1 ≤ inp.invp i

/-- indices of the cofactor queries are unknowns of the current system: `1 ≤ i ≤ n` (the C++ indexes
    `ordering.invp` with them unchecked) -/
def Op.Valid (n : Nat) : Op → Prop
  | .qxx i j => (1 ≤ i ∧ i ≤ n) ∧ (1 ≤ j ∧ j ≤ n)
  | .q0xx i j => (1 ≤ i ∧ i ≤ n) ∧ (1 ≤ j ∧ j ≤ n)
  | _ => True

instance (n : Nat) (o : Op) : Decidable (o.Valid n) := by
  cases o <;> simp only [Op.Valid] <;> infer_instance

structure Inv (inp : EnvInput) (s : EnvState) : Prop where
  wf : s.mtf.WF
  cap : s.mtf.cap = cacheSize
  low : s.stage < 2 → s.ix = true ∧ s.ires = true ∧ s.iq0 = true
  x0 : 2 ≤ s.stage → s.haveX0 = true
  q0 : 3 ≤ s.stage → s.haveQ0 = true
  iq0 : s.stage < 3 → s.iq0 = true
  resid : s.ires = false → s.haveResid = true
  xok : s.ix = false → s.haveX = true ∧ 2 ≤ s.stage ∧
          (inp.nullity = 0 → s.xreg = none) ∧
          (0 < inp.nullity → s.xreg = some (eff inp s.minx) ∧ inp.resolves (eff inp s.minx) = true)
  live : ∀ k b, (k, b) ∈ s.mtf.ents →
          (0 < k → s.ix = false ∧ 0 < inp.nullity ∧ s.content b = .trow inp.id k.toNat (eff inp s.minx))
          ∧ (k < 0 → 3 ≤ s.stage ∧ s.content b = .invcol inp.id (-k).toNat) ∧ k ≠ 0
  /-- `tmpres` has the dimension of the current system whenever `init_q_bb` is clear -/
  tq : s.iqbb = false → s.tmpresDim = inp.n

theorem inv_init (inp : EnvInput) (m : Option (List Nat)) : Inv inp (init m) := by
  refine ⟨?_, ?_, ?_, ?_, ?_, ?_, ?_, ?_, ?_, ?_⟩ <;>
    simp [init, setStage, MTF.init, MTF.cap, cacheSize]
  · exact wf_init _ (by decide)

/-- `reset(data')` establishes the invariant for ANY new input `inp'` (same or other data, same or
    other size): the key table is erased, so no claim about a cached vector survives, and
    `init_q_bb` is set, so `tmpres` is re-dimensioned before it is used -/
theorem inv_reset {inp inp' : EnvInput} {s : EnvState} (h : Inv inp s) : Inv inp' (reset s) := by
  refine ⟨?_, ?_, ?_, ?_, ?_, ?_, ?_, ?_, ?_, ?_⟩ <;>
    simp [reset, setStage, MTF.erase]
  · exact wf_erase h.wf
  · have := h.cap; rw [← cap_erase] at this; simpa [MTF.erase] using this


/-- no regularised row is cached while `init_x` is set -/
theorem Inv.no_pos {inp : EnvInput} {s : EnvState} (h : Inv inp s) (hix : s.ix = true) :
    ∀ k b, (k, b) ∈ s.mtf.ents → ¬ 0 < k := by
  intro k b hm hk
  have := ((h.live k b hm).1 hk).1
  simp [hix] at this

/-- no inverse column is cached before the inverse exists -/
theorem Inv.no_neg {inp : EnvInput} {s : EnvState} (h : Inv inp s) (hst : s.stage < 3) :
    ∀ k b, (k, b) ∈ s.mtf.ents → ¬ k < 0 := by
  intro k b hm hk
  have := ((h.live k b hm).2.1 hk).1
  omega

theorem solveX0_frame (s : EnvState) :
    (solveX0 s).mtf = s.mtf ∧ (solveX0 s).content = s.content ∧ (solveX0 s).minx = s.minx
    ∧ (solveX0 s).xreg = s.xreg ∧ (solveX0 s).haveX = s.haveX := by
  unfold solveX0 solveOrdering setStage
  split <;> simp <;> split <;> simp

theorem solveX0_stage (s : EnvState) : 2 ≤ (solveX0 s).stage := by
  unfold solveX0 solveOrdering setStage
  split
  · assumption
  · simp

theorem inv_solveX0 {inp : EnvInput} {s : EnvState} (h : Inv inp s) : Inv inp (solveX0 s) := by
  by_cases hs : s.stage ≥ 2
  · simp [solveX0, hs, h]
  · have hlow := h.low (by omega)
    have hnp := h.no_pos hlow.1
    have hnn := h.no_neg (by omega : s.stage < 3)
    have hfr := solveX0_frame s
    refine ⟨?_, ?_, ?_, ?_, ?_, ?_, ?_, ?_, ?_, ?_⟩
    rotate_right
    · intro hq; simp [solveX0, hs, solveOrdering, setStage] at hq
    · rw [hfr.1]; exact h.wf
    · rw [hfr.1]; exact h.cap
    · intro hlt; have := solveX0_stage s; omega
    · intro _; simp [solveX0, hs, solveOrdering, setStage]
    · intro h3; simp [solveX0, hs, solveOrdering, setStage] at h3
    · intro _; simp [solveX0, hs, solveOrdering, setStage]
    · intro hr; simp [solveX0, hs, solveOrdering, setStage] at hr
    · intro hx; simp [solveX0, hs, solveOrdering, setStage] at hx
    · intro k b hm
      rw [hfr.1] at hm
      refine ⟨fun hk => absurd hk (hnp k b hm), fun hk => absurd hk (hnn k b hm), (h.live k b hm).2.2⟩


theorem ensureQ0_frame {inp : EnvInput} {s : EnvState} (h : Inv inp s) :
    (ensureQ0 s).mtf = s.mtf ∧ (ensureQ0 s).content = s.content ∧ (ensureQ0 s).minx = s.minx
    ∧ (ensureQ0 s).xreg = s.xreg ∧ (ensureQ0 s).haveX = s.haveX ∧ (ensureQ0 s).ix = s.ix
    ∧ 3 ≤ (ensureQ0 s).stage ∧ (ensureQ0 s).haveQ0 = true := by
  unfold ensureQ0
  by_cases h3 : s.stage < 3
  · have hiq := h.iq0 h3
    by_cases h2 : s.stage < 2
    · have hfr := solveX0_frame s
      have hlow := h.low h2
      have hx0 := (inv_solveX0 h).x0 (solveX0_stage s)
      simp [h3, solveQ0, ensureX0, hiq, h2, setStage, hfr, hx0]
      -- ix: solveX0 sets it to true, and it was true
      simp [solveX0, solveOrdering, setStage, hlow.1]
      have : ¬ s.stage ≥ 2 := by omega
      simp [this]
    · have hx0 := h.x0 (by omega)
      simp [h3, solveQ0, ensureX0, hiq, h2, setStage, hx0]
  · have := h.q0 (by omega)
    simp [h3, this]; omega

theorem inv_ensureQ0 {inp : EnvInput} {s : EnvState} (h : Inv inp s) : Inv inp (ensureQ0 s) := by
  have hfr := ensureQ0_frame h
  by_cases h3 : s.stage < 3
  · have hiq := h.iq0 h3
    have h1 : Inv inp (ensureX0 s) := by
      unfold ensureX0; split
      · exact inv_solveX0 h
      · exact h
    have hst1 : 2 ≤ (ensureX0 s).stage := by
      unfold ensureX0; split
      · exact solveX0_stage s
      · omega
    refine ⟨?_, ?_, ?_, ?_, ?_, ?_, ?_, ?_, ?_, ?_⟩
    rotate_right
    · intro hq; simp [ensureQ0, h3, solveQ0, hiq, setStage] at hq
    · rw [hfr.1]; exact h.wf
    · rw [hfr.1]; exact h.cap
    · intro hlt; omega
    · intro _; simp [ensureQ0, h3, solveQ0, hiq, setStage]; exact h1.x0 hst1
    · intro _; exact hfr.2.2.2.2.2.2.2
    · intro hlt; omega
    · intro hr
      simp [ensureQ0, h3, solveQ0, hiq, setStage] at hr ⊢
      exact h1.resid hr
    · intro hx
      rw [hfr.2.2.2.2.2.1] at hx
      have := h.xok hx
      rw [hfr.2.2.2.2.1, hfr.2.2.2.1, hfr.2.2.1]
      exact ⟨this.1, by omega, this.2.2⟩
    · intro k b hm
      rw [hfr.1] at hm
      have := h.live k b hm
      rw [hfr.2.1, hfr.2.2.1, hfr.2.2.2.2.2.1]
      exact ⟨this.1, fun hk => ⟨hfr.2.2.2.2.2.2.1, (this.2.1 hk).2⟩, this.2.2⟩
  · simp [ensureQ0, h3]; exact h


theorem eff_materialise (inp : EnvInput) (m : Option (List Nat)) :
    eff inp (if m.isNone then some (allList inp.n) else m) = eff inp m := by
  cases m <;> simp [eff]

theorem mat_frame (inp : EnvInput) (s : EnvState) :
    (mat inp s).mtf = s.mtf ∧ (mat inp s).content = s.content ∧ eff inp (mat inp s).minx = eff inp s.minx
    ∧ (mat inp s).stage = s.stage ∧ (mat inp s).haveQ0 = s.haveQ0 ∧ (mat inp s).ix = s.ix := by
  unfold mat
  cases hm : s.minx <;> simp [eff, hm]

theorem preX_frame (inp : EnvInput) (s : EnvState) :
    (preX inp s).mtf = s.mtf ∧ (preX inp s).content = s.content
    ∧ eff inp (preX inp s).minx = eff inp s.minx ∧ 2 ≤ (preX inp s).stage
    ∧ (2 ≤ s.stage → (preX inp s).stage = s.stage ∧ (preX inp s).haveQ0 = s.haveQ0) := by
  have hm := mat_frame inp s
  have hf := solveX0_frame (mat inp s)
  unfold preX
  by_cases hlt : (mat inp s).stage < 2
  · simp only [hlt, if_true]
    refine ⟨by rw [hf.1, hm.1], by rw [hf.2.1, hm.2.1], by rw [hf.2.2.1, hm.2.2.1], solveX0_stage _, ?_⟩
    intro h2; rw [hm.2.2.2.1] at hlt; omega
  · simp only [hlt, if_false]
    refine ⟨hm.1, hm.2.1, hm.2.2.1, by omega, fun _ => ⟨hm.2.2.2.1, hm.2.2.2.2.1⟩⟩

theorem inv_mat {inp : EnvInput} {s : EnvState} (h : Inv inp s) (hix : s.ix = true) :
    Inv inp (mat inp s) := by
  have hnp := h.no_pos hix
  unfold mat
  split
  · refine ⟨h.wf, h.cap, h.low, h.x0, h.q0, h.iq0, h.resid, ?_, ?_, h.tq⟩
    · intro hx; simp [hix] at hx
    · intro k b hm
      exact ⟨fun hk => absurd hk (hnp k b hm), (h.live k b hm).2.1, (h.live k b hm).2.2⟩
  · exact h

theorem inv_preX {inp : EnvInput} {s : EnvState} (h : Inv inp s) (hix : s.ix = true) :
    Inv inp (preX inp s) ∧ (preX inp s).ix = true := by
  have h1 := inv_mat h hix
  have hix1 : (mat inp s).ix = true := by rw [(mat_frame inp s).2.2.2.2.2]; exact hix
  unfold preX
  by_cases hlt : (mat inp s).stage < 2
  · simp only [hlt, if_true]
    refine ⟨inv_solveX0 h1, ?_⟩
    have : ¬ (mat inp s).stage ≥ 2 := by omega
    simp [solveX0, this, solveOrdering, setStage]
  · simp only [hlt, if_false]
    exact ⟨h1, hix1⟩


/-- updating only the x-related fields keeps the invariant when no regularised row is cached -/
theorem inv_setX {inp : EnvInput} {p : EnvState} (h : Inv inp p) (hix : p.ix = true) (hst : 2 ≤ p.stage)
    (xr : Option (List Nat))
    (hxr : (inp.nullity = 0 → xr = none) ∧
           (0 < inp.nullity → xr = some (eff inp p.minx) ∧ inp.resolves (eff inp p.minx) = true)) :
    Inv inp { p with ix := false, haveX := p.haveX0, xreg := xr } := by
  have hnp := h.no_pos hix
  refine ⟨h.wf, h.cap, ?_, h.x0, h.q0, h.iq0, h.resid, ?_, ?_, h.tq⟩
  · intro hlt; simp at hlt; omega
  · intro _; exact ⟨h.x0 hst, hst, hxr.1, hxr.2⟩
  · intro k b hm
    exact ⟨fun hk => absurd hk (hnp k b hm), (h.live k b hm).2.1, (h.live k b hm).2.2⟩

theorem solveX_spec {inp : EnvInput} {s : EnvState} (h : Inv inp s) :
    Inv inp (solveX inp s).1
    ∧ (solveX inp s).1.mtf = s.mtf ∧ (solveX inp s).1.content = s.content
    ∧ eff inp (solveX inp s).1.minx = eff inp s.minx
    ∧ (2 ≤ s.stage → (solveX inp s).1.stage = s.stage ∧ (solveX inp s).1.haveQ0 = s.haveQ0)
    ∧ ((solveX inp s).2 = true ↔ (inp.nullity ≠ 0 ∧ inp.resolves (eff inp s.minx) = false))
    ∧ ((solveX inp s).2 = false → (solveX inp s).1.ix = false) := by
  by_cases hix : s.ix = true
  · have hp := inv_preX h hix
    have hf := preX_frame inp s
    by_cases hn : inp.nullity = 0
    · simp only [solveX, hix, if_true, hn]
      refine ⟨inv_setX hp.1 hp.2 hf.2.2.2.1 none ⟨fun _ => rfl, fun h0 => by omega⟩,
        hf.1, hf.2.1, hf.2.2.1, hf.2.2.2.2, by simp, by simp⟩
    · by_cases hr : inp.resolves (eff inp (preX inp s).minx) = true
      · simp only [solveX, hix, if_true, hn, if_false, hr]
        refine ⟨inv_setX hp.1 hp.2 hf.2.2.2.1 _ ⟨fun h0 => absurd h0 hn, fun _ => ⟨rfl, hr⟩⟩,
          hf.1, hf.2.1, hf.2.2.1, hf.2.2.2.2, ?_, by simp⟩
        rw [hf.2.2.1] at hr; simp [hr]
      · simp only [solveX, hix, if_true, hn, if_false, hr]
        have hsame : { preX inp s with ix := true } = preX inp s := by
          cases hq : preX inp s; simp [hq] at hp; simp [hp.2]
        rw [hsame]
        refine ⟨hp.1, hf.1, hf.2.1, hf.2.2.1, hf.2.2.2.2, ?_, by simp⟩
        rw [hf.2.2.1] at hr; simp [hn, hr]
  · simp only [solveX, hix]
    have hix' : s.ix = false := by simpa using hix
    refine ⟨h, rfl, rfl, rfl, fun _ => ⟨rfl, rfl⟩, ?_, fun _ => hix'⟩
    have := h.xok hix'
    constructor
    · intro hf; simp at hf
    · intro ⟨hn, hr⟩
      have := (this.2.2.2 (by omega)).2
      simp [this] at hr


/-- what the freshly written / found buffer must hold for key `k` in state `s` -/
def FillOk (inp : EnvInput) (s : EnvState) (k : Int) (fill : Prov) : Prop :=
  (0 < k → s.ix = false ∧ 0 < inp.nullity ∧ fill = .trow inp.id k.toNat (eff inp s.minx))
  ∧ (k < 0 → 3 ≤ s.stage ∧ fill = .invcol inp.id (-k).toNat) ∧ k ≠ 0

theorem cached_spec {inp : EnvInput} {s : EnvState} (h : Inv inp s) (k : Int) (fill : Prov)
    (hfill : FillOk inp s k fill) :
    Inv inp (cached s k fill).1
    ∧ (∃ rest, (cached s k fill).1.mtf.ents = (k, (cached s k fill).2) :: rest)
    ∧ (cached s k fill).1.ix = s.ix ∧ (cached s k fill).1.minx = s.minx
    ∧ (cached s k fill).1.stage = s.stage ∧ (cached s k fill).1.xreg = s.xreg
    ∧ (cached s k fill).1.haveX = s.haveX ∧ (cached s k fill).1.haveQ0 = s.haveQ0
    ∧ (∀ k0 b0 rest, s.mtf.ents = (k0, b0) :: rest → k0 ≠ k → (k0, b0) ∈ (cached s k fill).1.mtf.ents)
    ∧ (∀ b0, (k, b0) ∈ s.mtf.ents → (cached s k fill).2 = b0) := by
  have hcap : 0 < s.mtf.cap := by rw [h.cap]; decide
  obtain ⟨m', b, g, hget, hspec⟩ := get_spec s.mtf k hcap
  have hwf' := hspec.wf h.wf
  have hcap' := hspec.cap
  obtain ⟨rest', hhead⟩ := hspec.head
  have hkb : (k, b) ∈ m'.ents := by rw [hhead]; exact List.mem_cons_self ..
  have hkeep : ∀ k0 b0 rest, s.mtf.ents = (k0, b0) :: rest → k0 ≠ k → (k0, b0) ∈ m'.ents :=
    fun k0 b0 rest hh hne => hspec.keeps_front hh hne (by rw [h.cap]; decide)
  cases g with
  | true =>
    have hmem := hspec.hit_mem
    simp only [cached, hget, ↓reduceIte, Bool.false_eq_true]
    refine ⟨⟨hwf', by rw [hcap']; exact h.cap, h.low, h.x0, h.q0, h.iq0, h.resid, h.xok, ?_, h.tq⟩,
      ⟨rest', hhead⟩, trivial, trivial, trivial, trivial, trivial, trivial, hkeep,
      fun b0 hb0 => h.wf.buf_of_key hmem hb0⟩
    intro k' b' hm
    by_cases hk : k' = k
    · subst hk
      have : b' = b := hwf'.buf_of_key hm hkb
      subst this
      exact h.live _ _ hmem
    · exact h.live _ _ (hspec.old k' b' hm hk)
  | false =>
    simp only [cached, hget, ↓reduceIte, Bool.false_eq_true]
    refine ⟨⟨hwf', by rw [hcap']; exact h.cap, h.low, h.x0, h.q0, h.iq0, h.resid, h.xok, ?_, h.tq⟩,
      ⟨rest', hhead⟩, trivial, trivial, trivial, trivial, trivial, trivial, hkeep,
      fun b0 hb0 => absurd (List.mem_map.mpr ⟨(k, b0), hb0, rfl⟩) hspec.miss_fresh⟩
    intro k' b' hm
    by_cases hk : k' = k
    · subst hk
      have : b' = b := hwf'.buf_of_key hm hkb
      subst this
      simp only [upd, if_true]
      refine ⟨fun hp => ?_, fun hn => ?_, hfill.2.2⟩
      · have := hfill.1 hp; exact ⟨this.1, this.2.1, this.2.2⟩
      · exact hfill.2.1 hn
    · have hold := hspec.old k' b' hm hk
      have hbne : b' ≠ b := by
        intro hb; subst hb
        exact hk (hwf'.key_of_buf hm hkb)
      have := h.live _ _ hold
      simp only [upd, hbne, if_false]
      exact this


/-! ### the history-free specification -/

def q0spec (inp : EnvInput) (i j : Nat) : Out :=
  let ii := inp.invp i
  let jj := inp.invp j
  if inp.inEnv ii jj then .q0in ii jj
  else .q0col (.invcol inp.id (if ii < jj then jj else ii)) (if ii < jj then ii else jj)

/-- the answer as a function of the input and the *effective* regularisation list only -/
def spec (inp : EnvInput) (reg : List Nat) : Op → Out
  | .unknowns => if inp.nullity = 0 then .x none else if inp.resolves reg then .x (some reg) else .badReg
  | .residuals => .resid
  | .sumsq => .sumsq
  | .defect => .defect
  | .lindep i => .lindep i
  | .q0xx i j => q0spec inp i j
  | .qxx i j =>
    if inp.nullity = 0 then q0spec inp i j
    else if inp.resolves reg then .qxxSing (.trow inp.id i reg) (.trow inp.id j reg) else .badReg
  | .qbb i j => if inp.qbbIn i j then .qbbIn i j else .qbbFull i j
  | .minxAll => .ok
  | .minx _ => .ok
  | .reset => .ok

theorem inv_ensureX0 {inp : EnvInput} {s : EnvState} (h : Inv inp s) :
    Inv inp (ensureX0 s) ∧ (ensureX0 s).haveX0 = true ∧ (ensureX0 s).minx = s.minx := by
  unfold ensureX0
  split
  · exact ⟨inv_solveX0 h, (inv_solveX0 h).x0 (solveX0_stage s), (solveX0_frame s).2.2.1⟩
  · exact ⟨h, h.x0 (by omega), rfl⟩

theorem q0xx_spec {inp : EnvInput} {s : EnvState} (h : Inv inp s) (hp : inp.Pos) {i j : Nat}
    (hi : 1 ≤ i ∧ i ≤ inp.n) (hj : 1 ≤ j ∧ j ≤ inp.n) :
    Inv inp (q0xx inp s i j).1 ∧ (q0xx inp s i j).2 = q0spec inp i j
    ∧ eff inp (q0xx inp s i j).1.minx = eff inp s.minx := by
  have h1 := inv_ensureQ0 h
  have hf := ensureQ0_frame h
  have hii := hp i hi.1 hi.2
  have hjj := hp j hj.1 hj.2
  unfold q0xx q0spec
  simp only [hf.2.2.2.2.2.2.2, Bool.not_true, Bool.false_eq_true, if_false]
  by_cases he : inp.inEnv (inp.invp i) (inp.invp j) = true
  · simp only [he, if_true]
    exact ⟨h1, trivial, by rw [hf.2.2.1]⟩
  · simp only [he, Bool.false_eq_true, if_false]
    generalize hhi : (if inp.invp i < inp.invp j then inp.invp j else inp.invp i) = hiN
    have hpos : 1 ≤ hiN := by rw [← hhi]; split <;> assumption
    have hfill : FillOk inp (ensureQ0 s) (-(hiN : Int)) (.invcol inp.id hiN) := by
      refine ⟨fun h0 => by omega, fun _ => ⟨hf.2.2.2.2.2.2.1, by simp⟩, by omega⟩
    have hc := cached_spec h1 (-(hiN : Int)) (.invcol inp.id hiN) hfill
    obtain ⟨rest, hhead⟩ := hc.2.1
    have hlive := hc.1.live _ _ (by rw [hhead]; exact List.mem_cons_self ..)
    have hcont := (hlive.2.1 (by omega)).2
    simp at hcont
    refine ⟨hc.1, ?_, ?_⟩
    · simp [hcont]
    · rw [hc.2.2.2.1, hf.2.2.1]


theorem qxx_sing_spec {inp : EnvInput} {s : EnvState} (h : Inv inp s) {i j : Nat}
    (hi : 1 ≤ i) (hj : 1 ≤ j) (hix : s.ix = false) (hn : 0 < inp.nullity) :
    let reg := eff inp s.minx
    let c1 := cached s (i : Int) (.trow inp.id i reg)
    let c2 := cached c1.1 (j : Int) (.trow inp.id j reg)
    Inv inp c2.1 ∧ c2.1.content c1.2 = .trow inp.id i reg ∧ c2.1.content c2.2 = .trow inp.id j reg
    ∧ c2.1.minx = s.minx := by
  intro reg c1 c2
  have hf1 : FillOk inp s (i : Int) (.trow inp.id i reg) :=
    ⟨fun _ => ⟨hix, hn, by simp [reg]⟩, fun h0 => by omega, by omega⟩
  have hc1 := cached_spec h (i : Int) (.trow inp.id i reg) hf1
  have hf2 : FillOk inp c1.1 (j : Int) (.trow inp.id j reg) := by
    refine ⟨fun _ => ⟨?_, hn, ?_⟩, fun h0 => by omega, by omega⟩
    · show (cached s (i : Int) (.trow inp.id i reg)).1.ix = false
      rw [hc1.2.2.1]; exact hix
    · show Prov.trow inp.id j reg = .trow inp.id (j : Int).toNat (eff inp (cached s (i : Int) (.trow inp.id i reg)).1.minx)
      rw [hc1.2.2.2.1]; simp [reg]
  have hc2 := cached_spec hc1.1 (j : Int) (.trow inp.id j reg) hf2
  obtain ⟨rest1, hhead1⟩ := hc1.2.1
  obtain ⟨rest2, hhead2⟩ := hc2.2.1
  have hminx : c2.1.minx = s.minx := by
    show (cached c1.1 (j : Int) (.trow inp.id j reg)).1.minx = s.minx
    rw [hc2.2.2.2.1]; exact hc1.2.2.2.1
  have hix2 : c2.1.ix = false := by
    show (cached c1.1 (j : Int) (.trow inp.id j reg)).1.ix = false
    rw [hc2.2.2.1]
    show (cached s (i : Int) (.trow inp.id i reg)).1.ix = false
    rw [hc1.2.2.1]; exact hix
  -- the second buffer
  have hl2 := hc2.1.live _ _ (by rw [hhead2]; exact List.mem_cons_self ..)
  have hb : c2.1.content c2.2 = .trow inp.id j reg := by
    have := (hl2.1 (by omega)).2.2
    rw [hminx] at this; simpa [reg] using this
  -- the first buffer is still live and untouched
  have ha : c2.1.content c1.2 = .trow inp.id i reg := by
    by_cases hij : (i : Int) = (j : Int)
    · -- same key: the second `get` is a hit on the same buffer
      have hm1 : ((j : Int), c1.2) ∈ c1.1.mtf.ents := by
        rw [← hij]; show ((i : Int), c1.2) ∈ (cached s (i : Int) (.trow inp.id i reg)).1.mtf.ents
        rw [hhead1]; exact List.mem_cons_self ..
      have hsame : c2.2 = c1.2 := hc2.2.2.2.2.2.2.2.2.2 _ hm1
      have hijn : i = j := by exact_mod_cast hij
      rw [← hsame, hb, hijn]
    · have hm : ((i : Int), c1.2) ∈ c2.1.mtf.ents := hc2.2.2.2.2.2.2.2.2.1 _ _ _ hhead1 hij
      have := ((hc2.1.live _ _ hm).1 (by omega)).2.2
      rw [hminx] at this; simpa [reg] using this
  exact ⟨hc2.1, ha, hb, hminx⟩


/-- the invariant only looks at some fields: transfer it to a state that agrees on them -/
theorem Inv.transfer {inp : EnvInput} {s s' : EnvState} (h : Inv inp s)
    (hm : s'.mtf = s.mtf) (hc : s'.content = s.content) (hst : s'.stage = s.stage)
    (hix : s'.ix = s.ix) (hminx : s'.minx = s.minx) (hxreg : s'.xreg = s.xreg) (hX : s'.haveX = s.haveX)
    (hiq0 : s'.iq0 = s.iq0)
    (hx0 : s.haveX0 = true → s'.haveX0 = true) (hq0 : s.haveQ0 = true → s'.haveQ0 = true)
    (hres : s'.ires = false → s'.haveResid = true) (hlow : s'.stage < 2 → s'.ires = true)
    (htq : s'.iqbb = false → s'.tmpresDim = inp.n) :
    Inv inp s' := by
  refine ⟨by rw [hm]; exact h.wf, by rw [hm]; exact h.cap, ?_, ?_, ?_, ?_, hres, ?_, ?_, htq⟩
  · intro hlt
    have := h.low (by omega)
    exact ⟨by rw [hix]; exact this.1, hlow hlt, by rw [hiq0]; exact this.2.2⟩
  · intro h2; exact hx0 (h.x0 (by omega))
  · intro h3; exact hq0 (h.q0 (by omega))
  · intro h3; rw [hiq0]; exact h.iq0 (by omega)
  · intro hx
    rw [hix] at hx
    have := h.xok hx
    rw [hX, hst, hxreg, hminx]; exact this
  · intro k b hkb
    rw [hm] at hkb
    have := h.live k b hkb
    rw [hix, hc, hminx, hst]; exact this

theorem inv_config {inp : EnvInput} {s : EnvState} (h : Inv inp s) (m : Option (List Nat)) :
    Inv inp { s with minx := m, minxDef := false, mtf := s.mtf.erase, ix := true } := by
  refine ⟨wf_erase h.wf, by rw [cap_erase]; exact h.cap, ?_, h.x0, h.q0, h.iq0, h.resid, ?_, ?_, h.tq⟩
  · intro hlt; exact ⟨rfl, (h.low hlt).2⟩
  · intro hx; simp at hx
  · intro k b hm; simp [MTF.erase] at hm

/-- FULL_VECTOR branch of `q_bb`: `tmpres` is re-dimensioned iff `init_q_bb`; afterwards it has the
    dimension of the current system (its content is zeroed and refilled by the code before use) -/
theorem qbb_full_spec {inp : EnvInput} {p : EnvState} (h1 : Inv inp p) :
    Inv inp (if p.iqbb then { p with tmpresDim := inp.n, iqbb := false } else p)
    ∧ (if p.iqbb then { p with tmpresDim := inp.n, iqbb := false } else p).tmpresDim = inp.n
    ∧ (if p.iqbb then { p with tmpresDim := inp.n, iqbb := false } else p).minx = p.minx := by
  by_cases hq : p.iqbb = true
  · simp only [hq, if_true]
    exact ⟨h1.transfer rfl rfl rfl rfl rfl rfl rfl rfl (fun hh => hh) (fun hh => hh)
      h1.resid (fun hlt => (h1.low hlt).2.1) (fun _ => rfl), trivial, trivial⟩
  · have hq' : p.iqbb = false := by simpa using hq
    simp only [hq', Bool.false_eq_true, if_false]
    exact ⟨h1, h1.tq hq', trivial⟩

/-- one step keeps the invariant and answers according to the history-free specification -/
theorem step_spec {inp : EnvInput} {s : EnvState} (h : Inv inp s) (hp : inp.Pos) (op : Op) (hv : op.Valid inp.n) :
    Inv inp (step inp s op).1 ∧ (step inp s op).2 = spec inp (eff inp s.minx) op := by
  cases op with
  | unknowns =>
    have hs := solveX_spec (inp := inp) h
    simp only [step, spec]
    by_cases ht : (solveX inp s).2 = true
    · have := hs.2.2.2.2.2.1.mp ht
      simp only [ht, if_true]
      refine ⟨hs.1, ?_⟩
      simp [this.1, this.2]
    · have htf : (solveX inp s).2 = false := by simpa using ht
      have hix := hs.2.2.2.2.2.2 htf
      have hx := hs.1.xok hix
      have hnt : ¬ (inp.nullity ≠ 0 ∧ inp.resolves (eff inp s.minx) = false) :=
        fun hc => ht (hs.2.2.2.2.2.1.mpr hc)
      simp only [htf, Bool.false_eq_true, if_false, hx.1, Bool.not_true]
      refine ⟨hs.1, ?_⟩
      by_cases hn : inp.nullity = 0
      · simp [hn, hx.2.2.1 hn]
      · have h0 : 0 < inp.nullity := by omega
        have hr : inp.resolves (eff inp s.minx) = true := by
          by_cases hr : inp.resolves (eff inp s.minx) = true
          · exact hr
          · exact absurd ⟨hn, by simpa using hr⟩ hnt
        have := (hx.2.2.2 h0).1
        rw [hs.2.2.2.1] at this
        simp [hn, hr, this]
  | residuals =>
    simp only [step, spec]
    by_cases hr : s.ires = true
    · have h1 := inv_ensureX0 h
      have hst : 2 ≤ (ensureX0 s).stage := by
        unfold ensureX0; split
        · exact solveX0_stage s
        · omega
      simp only [hr, if_true]
      refine ⟨?_, by simp [h1.2.1]⟩
      exact h1.1.transfer rfl rfl rfl rfl rfl rfl rfl rfl (fun hh => hh) (fun hh => hh)
        (fun _ => h1.2.1) (fun hlt => absurd hlt (by simp; omega)) h1.1.tq
    · have hr' : s.ires = false := by simpa using hr
      simp only [hr', Bool.false_eq_true, if_false]
      exact ⟨h, by simp [h.resid hr']⟩
  | sumsq =>
    have h1 := inv_ensureX0 h
    simp only [step, spec, h1.2.1, if_true]
    exact ⟨h1.1, trivial⟩
  | defect =>
    have h1 := inv_ensureX0 h
    simp only [step, spec, h1.2.1, if_true]
    exact ⟨h1.1, trivial⟩
  | lindep i =>
    have h1 := inv_ensureX0 h
    simp only [step, spec, h1.2.1, if_true]
    exact ⟨h1.1, trivial⟩
  | q0xx i j =>
    have := q0xx_spec h hp hv.1 hv.2
    simp only [step, spec]
    exact ⟨this.1, this.2.1⟩
  | qxx i j =>
    have h1 := inv_ensureQ0 h
    have hf := ensureQ0_frame h
    simp only [step, spec]
    by_cases hn : inp.nullity = 0
    · have := q0xx_spec h1 hp hv.1 hv.2
      simp only [hn, if_true]
      exact ⟨this.1, this.2.1⟩
    · have h0 : 0 < inp.nullity := by omega
      have hs := solveX_spec (inp := inp) h1
      have heff : eff inp (solveX inp (ensureQ0 s)).1.minx = eff inp s.minx := by
        rw [hs.2.2.2.1, hf.2.2.1]
      simp only [hn, if_false]
      by_cases ht : (solveX inp (ensureQ0 s)).2 = true
      · have := hs.2.2.2.2.2.1.mp ht
        rw [hf.2.2.1] at this
        simp only [ht, if_true]
        refine ⟨hs.1, ?_⟩
        simp [this.2]
      · have htf : (solveX inp (ensureQ0 s)).2 = false := by simpa using ht
        have hix := hs.2.2.2.2.2.2 htf
        have hx := hs.1.xok hix
        have hnt : ¬ (inp.nullity ≠ 0 ∧ inp.resolves (eff inp (ensureQ0 s).minx) = false) :=
          fun hc => ht (hs.2.2.2.2.2.1.mpr hc)
        have hr : inp.resolves (eff inp s.minx) = true := by
          by_cases hr : inp.resolves (eff inp s.minx) = true
          · exact hr
          · rw [hf.2.2.1] at hnt; exact absurd ⟨hn, by simpa using hr⟩ hnt
        have hxr := (hx.2.2.2 h0).1
        have hq := qxx_sing_spec hs.1 hv.1.1 hv.2.1 hix h0
        simp only [htf, Bool.false_eq_true, if_false, hx.1, Bool.not_true, hxr, Option.getD_some]
        refine ⟨hq.1, ?_⟩
        rw [hq.2.1, hq.2.2.1, heff]
        simp [hr]
  | qbb i j =>
    have h1 := inv_ensureQ0 h
    have hf := ensureQ0_frame h
    simp only [step, spec]
    rw [if_neg (by simp [hf.2.2.2.2.2.2.2])]
    by_cases hb : inp.qbbIn i j = true
    · simp only [hb, if_true]; exact ⟨h1, trivial⟩
    · simp only [hb, Bool.false_eq_true, if_false]
      have hq := qbb_full_spec h1
      simp only [hq.2.1, bne_self_eq_false, Bool.false_eq_true, if_false]
      exact ⟨hq.1, trivial⟩
  | minxAll => exact ⟨inv_config h none, rfl⟩
  | minx l => exact ⟨inv_config h (some l), rfl⟩
  | reset => exact ⟨inv_reset h, rfl⟩


theorem run_inv {inp : EnvInput} (hp : inp.Pos) {s : EnvState} (h : Inv inp s) {ops : List Op}
    (hops : ∀ o ∈ ops, o.Valid inp.n) : Inv inp (run inp s ops) := by
  induction ops generalizing s with
  | nil => exact h
  | cons o ops ih =>
    exact ih (step_spec h hp o (hops o (List.mem_cons_self ..))).1
      (fun o' ho' => hops o' (List.mem_cons_of_mem _ ho'))

theorem step_eq_fresh {inp : EnvInput} {s : EnvState} (h : Inv inp s) (hp : inp.Pos) (op : Op)
    (hv : op.Valid inp.n) : (step inp s op).2 = fresh inp s.minx op := by
  rw [(step_spec h hp op hv).2]
  unfold fresh
  rw [(step_spec (inv_init inp s.minx) hp op hv).2]
  simp [init, setStage]

/-- queries (as opposed to configuration changes) -/
def Op.IsQuery : Op → Prop
  | .minxAll => False
  | .minx _ => False
  | .reset => False
  | _ => True

/-- a query never changes the effective regularisation list -/
theorem step_query_eff {inp : EnvInput} {s : EnvState} (h : Inv inp s) (hp : inp.Pos) (q : Op)
    (hv : q.Valid inp.n) (hq : q.IsQuery) : eff inp (step inp s q).1.minx = eff inp s.minx := by
  cases q with
  | unknowns => exact (solveX_spec (inp := inp) h).2.2.2.1 ▸ (by
      simp only [step]; split <;> (try split) <;> rfl)
  | residuals =>
    simp only [step]
    split
    · simp [(inv_ensureX0 h).2.2]
    · rfl
  | sumsq => simp [step, (inv_ensureX0 h).2.2]
  | defect => simp [step, (inv_ensureX0 h).2.2]
  | lindep i => simp [step, (inv_ensureX0 h).2.2]
  | q0xx i j => exact (q0xx_spec h hp hv.1 hv.2).2.2
  | qxx i j =>
    have h1 := inv_ensureQ0 h
    have hf := ensureQ0_frame h
    simp only [step]
    by_cases hn : inp.nullity = 0
    · simp only [hn, if_true]
      rw [(q0xx_spec h1 hp hv.1 hv.2).2.2, hf.2.2.1]
    · have h0 : 0 < inp.nullity := by omega
      have hs := solveX_spec (inp := inp) h1
      have heff : eff inp (solveX inp (ensureQ0 s)).1.minx = eff inp s.minx := by
        rw [hs.2.2.2.1, hf.2.2.1]
      simp only [hn, if_false]
      by_cases ht : (solveX inp (ensureQ0 s)).2 = true
      · simp only [ht, if_true]; exact heff
      · have htf : (solveX inp (ensureQ0 s)).2 = false := by simpa using ht
        have hix := hs.2.2.2.2.2.2 htf
        have hx := hs.1.xok hix
        have hxr := (hx.2.2.2 h0).1
        have hq := qxx_sing_spec hs.1 hv.1.1 hv.2.1 hix h0
        simp only [htf, Bool.false_eq_true, if_false, hx.1, Bool.not_true, hxr, Option.getD_some]
        rw [hq.2.2.2, heff]
  | qbb i j =>
    have hf := ensureQ0_frame h
    simp only [step]
    rw [if_neg (by simp [hf.2.2.2.2.2.2.2])]
    split
    · simp [hf.2.2.1]
    · have hq := qbb_full_spec (inv_ensureQ0 h)
      simp only [hq.2.1, bne_self_eq_false, Bool.false_eq_true, if_false]
      rw [hq.2.2, hf.2.2.1]
  | minxAll => exact absurd hq (by simp [Op.IsQuery])
  | minx l => exact absurd hq (by simp [Op.IsQuery])
  | reset => exact absurd hq (by simp [Op.IsQuery])

theorem step_twice {inp : EnvInput} {s : EnvState} (h : Inv inp s) (hp : inp.Pos) (q : Op)
    (hv : q.Valid inp.n) (hq : q.IsQuery) :
    (step inp (step inp s q).1 q).2 = (step inp s q).2 := by
  have h1 := step_spec h hp q hv
  rw [(step_spec h1.1 hp q hv).2, h1.2, step_query_eff h hp q hv hq]

/-- a list marked as built by `solve_x` is the list of all parameters of the current system -/
def MD (inp : EnvInput) (s : EnvState) : Prop := s.minxDef = true → s.minx = some (allList inp.n)

theorem eff_cfg {inp : EnvInput} {s : EnvState} (hmd : MD inp s) : eff inp (cfg s) = eff inp s.minx := by
  unfold cfg
  by_cases hd : s.minxDef = true
  · simp [hd, hmd hd, eff]
  · simp [hd]

theorem step_after_reset {inp : EnvInput} {s : EnvState} (h : Inv inp s) (hmd : MD inp s) (hp : inp.Pos) (q : Op)
    (hv : q.Valid inp.n) : (step inp (step inp s .reset).1 q).2 = (step inp s q).2 := by
  have h1 := step_spec h hp .reset trivial
  rw [(step_spec h1.1 hp q hv).2, (step_spec h hp q hv).2]
  have : eff inp (step inp s .reset).1.minx = eff inp s.minx := by
    have := eff_cfg hmd
    simpa [step, reset, setStage, cfg] using this
  rw [this]

end Gama.C04
