/-
  C03 row 11 (W8c) — glue for `Props/C03/XmlCov.lean`: the XML `<cov-mat>` of `LocalNetworkXML::coordinates`
  (/repo/lib/gnu_gama/xml/localnetworkxml.cpp, the `<adjusted>` loop, `orientation_shifts`, the `<cov-mat>` loop)
  stated on the OUTPUT of the executed models — no free `pts`, `Q`, `m0`:

    * `PE.xmlPtsOf u`   the point records the three loops over `PD` read (`active_xy()`, `active_z()`,
                        `index_x/y/z()`), taken from the network `project_equations()` leaves (`u.net`);
    * `XmlCovNet.covEnv` the valuation of the accessor atoms of the regenerated writer site at loop indices `(i, j)`:
                        `net.m_0()` ↦ the value of `m_0()`, `net.qxx(ind[i],ind[j])` ↦ what `NetAnswer.qxx` returns;
    * the range facts about `ind[]` that follow from the theorems about `project_equations()`;
    * the evaluated witness `XmlCovNet.netD` (a station with two directions and a distance, a second distance).
-/
import Gama.Lemmas.XmlCovSite
import Gama.Lemmas.ProjectEquationsGlue
import Gama.Lemmas.ProjectEquationsUnknowns
import Gama.Lemmas.ProjectEquationsOri
import Gama.Lemmas.ProjectEquationsTotal
import Gama.Lemmas.ProjectEquationsGapExample
namespace Gama.PE
open Gama Gama.Lin

/-- the records of `PD` as `LocalNetworkXML::coordinates` reads them, one per point in `PD` order (`k` = position):
    `active_xy()`, `active_z()`, `index_x()`, `index_y()`, `index_z()` of the network as `project_equations()` left it.
    The writer's first test `if (!p.active_xy() && !p.active_z()) continue;` needs no extra filter: it implies
    `bxy = bz = false` (`CovBand.Pt.bxy`, `.bz`), and such a record contributes nothing to `CovBand.ptInds`. -/
def xmlPtsOf {K : Type} (u : Unknowns K) : List CovBand.Pt :=
  u.net.points.zipIdx.map fun pk =>
    { activeXY := pk.1.pt.active_xy
      activeZ := pk.1.pt.active_z
      ix := u.net.idx.get ⟨pk.2, .x⟩
      iy := u.net.idx.get ⟨pk.2, .y⟩
      iz := u.net.idx.get ⟨pk.2, .z⟩ }

open Gama.CovBand in
/-- every element of `ind[]` is at most `pocet_neznamych_`: the coordinates of an active point were cleared by the
    prologue, so a non-zero index was handed out by this pass (`Fresh.get_le`); an orientation unknown `i` is a
    position of `unknowns_` (`hlen`, `hori`: `C01_pe_unknowns`, `C12_hori_of_project_equations`) -/
theorem pe_ind_le {K : Type} [TrigScalar K] (net : PE.Net K) (np : Ls.Net.NetProblem K) (u : Unknowns K)
    (h : projectEquations net = .ok (np, u)) (hlen : u.list.length = np.n)
    (hori : ∀ o ∈ orisOf u, o.standpointIndex = o.i) :
    ∀ k ∈ indList (xmlPtsOf u) (orisOf u), k ≤ np.n := by
  obtain ⟨net', a, F⟩ := pe_final net np u h
  obtain ⟨b, Fr⟩ := assemble_fresh net' a F.asm
  have e : np.n = a.np.n := by rw [F.np_eq]
  intro k hk
  rcases List.mem_append.mp hk with hk | hk
  · obtain ⟨p, hp, hkp⟩ := List.mem_flatMap.mp hk
    obtain ⟨⟨pt, i⟩, hpi, rfl⟩ := List.mem_map.mp hp
    have hget : u.net.points[i]? = some pt := List.mem_zipIdx_iff_getElem?.mp hpi
    rw [F.u_net] at hget
    have hpt : ptAt net' i = pt.pt := ptAt_of_get net' i pt hget
    have hcl : ∀ c, (pt.pt.active_xy = true ∨ pt.pt.active_z = true) → Cleared net' ⟨i, c⟩ := by
      intro c hc
      right
      show Gen.Lin.resetGuard (ptAt net' i) = true
      rw [hpt]
      rcases hc with hc | hc
      · exact (resetGuard_of_active _).1 hc
      · exact (resetGuard_of_active _).2 hc
    have hle : ∀ c, (pt.pt.active_xy = true ∨ pt.pt.active_z = true) → u.net.idx.get ⟨i, c⟩ ≤ np.n := by
      intro c hc
      rw [F.u_net, e]
      exact Fr.get_le _ (hcl c hc)
    have key : ∀ (c : Bool) (l : List Nat), k ∈ (if c = true then l else []) → c = true ∧ k ∈ l := by
      intro c l h; cases c <;> simp_all
    simp only [ptInds, Pt.bxy, Pt.bz, List.mem_append] at hkp
    rcases hkp with hkp | hkp
    · obtain ⟨hb, hkp⟩ := key _ _ hkp
      simp only [Bool.and_eq_true] at hb
      simp only [List.mem_cons, List.not_mem_nil, or_false] at hkp
      rcases hkp with rfl | rfl
      · exact hle _ (Or.inl hb.1)
      · exact hle _ (Or.inl hb.1)
    · obtain ⟨hb, hkp⟩ := key _ _ hkp
      simp only [Bool.and_eq_true] at hb
      simp only [List.mem_cons, List.not_mem_nil, or_false] at hkp
      subst hkp
      exact hle _ (Or.inr hb.1)
  · obtain ⟨o, ho, rfl⟩ := List.mem_map.mp hk
    rw [hori o ho]
    obtain ⟨ej, hej, hf⟩ := List.mem_filterMap.mp ho
    have hget := List.mem_zipIdx_iff_getElem?.mp hej
    have hlt : ej.2 < u.list.length := by
      by_contra hn
      rw [List.getElem?_eq_none (by omega)] at hget
      cases hget
    rcases ej with ⟨e', j⟩
    simp only at hf hlt
    rcases e' with _ | ⟨pid, ty, ori⟩
    · cases hf
    · cases ty <;> rcases ori with _ | k <;> simp only at hf <;> try cases hf
      show j + 1 ≤ np.n
      omega

/-- a coordinate x / y of a point that is NOT `free_xy()` (fixed or unused) has index 0 after the pass: the
    prologue cleared it (`Cleared`), and every index the pass hands out is handed to a name touched by a member
    function of `LocalLinearization` (`passFrom_keys`), which touches only coordinates guarded by `free_xy()`
    (`shape_of_ok`, `shapeB_free`) -/
theorem Fresh.notfree_xy_zero {K : Type} [TrigScalar K] {net : PE.Net K} {a : Asm K} {b : PassOut K}
    (F : Fresh net a b) (i : Nat) (c : Coord) (hc : c = .x ∨ c = .y) (hcl : Cleared net ⟨i, c⟩)
    (hnf : (ptAt net i).free_xy = false) : a.idx.get ⟨i, c⟩ = 0 := by
  rw [F.agree _ hcl]
  by_contra h
  have hk : (⟨i, c⟩ : Unk) ∈ b.idx.tab.map Prod.fst := List.mem_map_of_mem (IdxState.get_mem h)
  rcases passFrom_keys _ _ _ _ _ F.pass _ hk with h0 | ⟨ob, hob, out, ho, r, c', he, hv⟩
  · simp [IdxState.init] at h0
  have hs : (false, r, c') ∈ kindShape ob.kind ((sigmaOf net).view ob) := by
    rw [← shape_of_ok _ _ _ _ ho, evShape_eq_map]
    exact List.mem_map.mpr ⟨Ev.touch r c', he, rfl⟩
  have hf := shapeB_free _ _ _ _ _ _ _ hs
  rw [name_eq] at hv
  injection hv with hi hcc
  subst hcc
  subst hi
  simp only at hf
  have hfr : (ptAt net (roleId ob r)).free_xy = true := by
    cases r <;> rcases hc with rfl | rfl <;>
      first
      | (simp [freeB] at hf; done)
      | simpa [freeB, sigmaOf, Lin.Net.view, roleId, kindShape] using hf
  rw [hfr] at hnf
  cases hnf

open Gama.CovBand in
/-- every element of `ind[]` is at least 1.  `index_x()`, `index_z()`: the writer's own tests (`bxy`, `bz`).
    `index_y()` (appended under the test of `index_x()` only): the point is `active_xy()`; if it is `free_xy()`
    (free or constrained), `singular_coords` returned `false` in the last inner call, so BOTH indexes are non-zero
    (`MinX.singularFrom_false`: a point with `index_x() == 0 || index_y() == 0` would have been `set_unused_xy()` and
    the call repeated); if it is fixed, `index_x()` is 0 (`Fresh.notfree_xy_zero`) and `bxy` is false.
    Orientations: `index_orientation() = i = j + 1`. -/
theorem pe_ind_pos {K : Type} [TrigScalar K] (net : PE.Net K) (np : Ls.Net.NetProblem K) (u : Unknowns K)
    (h : projectEquations net = .ok (np, u)) (hori : ∀ o ∈ orisOf u, o.standpointIndex = o.i) :
    ∀ k ∈ indList (xmlPtsOf u) (orisOf u), 1 ≤ k := by
  obtain ⟨net', a, F⟩ := pe_final net np u h
  obtain ⟨b, Fr⟩ := assemble_fresh net' a F.asm
  obtain ⟨hh, _, hns⟩ := F.nosing
  have hsf := MinX.singularFrom_false (ptsOf net') _ _ (ptsOf net') 0 (MinX.TailAt.self _) hns
  intro k hk
  rcases List.mem_append.mp hk with hk | hk
  · obtain ⟨p, hp, hkp⟩ := List.mem_flatMap.mp hk
    obtain ⟨⟨pt, i⟩, hpi, rfl⟩ := List.mem_map.mp hp
    have hget : u.net.points[i]? = some pt := List.mem_zipIdx_iff_getElem?.mp hpi
    rw [F.u_net] at hget
    have hget' : net'.points[i]? = some pt := hget
    have hpt : ptAt net' i = pt.pt := ptAt_of_get net' i pt hget'
    have key : ∀ (c : Bool) (l : List Nat), k ∈ (if c = true then l else []) → c = true ∧ k ∈ l := by
      intro c l h; cases c <;> simp_all
    simp only [ptInds, Pt.bxy, Pt.bz, List.mem_append] at hkp
    rcases hkp with hkp | hkp
    · obtain ⟨hb, hkp⟩ := key _ _ hkp
      simp only [Bool.and_eq_true, bne_iff_ne, ne_eq] at hb
      obtain ⟨hact, hx0⟩ := hb
      simp only [List.mem_cons, List.not_mem_nil, or_false] at hkp
      rcases hkp with rfl | rfl
      · exact Nat.pos_of_ne_zero hx0
      · apply Nat.pos_of_ne_zero
        rw [F.u_net] at hx0 ⊢
        show a.idx.get ⟨i, .y⟩ ≠ 0
        have hx0' : a.idx.get ⟨i, .x⟩ ≠ 0 := hx0
        have hclx : Cleared net' ⟨i, .x⟩ := by
          right
          show Gen.Lin.resetGuard (ptAt net' i) = true
          rw [hpt]; exact (resetGuard_of_active _).1 hact
        by_cases hfree : (ptAt net' i).free_xy = true
        · have hq : (ptsOf net')[i]? = some ⟨pt.id, cstat pt.pt.sxy, cstat pt.pt.sz⟩ := by
            unfold ptsOf; rw [List.getElem?_map, hget']; rfl
          rw [hpt] at hfree
          have hfr : pt.pt.sxy.isFree = true := hfree
          have hne : cstat pt.pt.sxy ≠ .fixed := by
            cases hs : pt.pt.sxy <;> simp_all [cstat, Status.isFree]
          have hac : (cstat pt.pt.sxy).active = true := by rw [active_cstat]; exact hact
          have := (hsf i _ hq hne hac).2
          simpa [idxFn, toLin] using this
        · exact absurd (Fr.notfree_xy_zero i .x (Or.inl rfl) hclx (by simpa using hfree)) hx0'
    · obtain ⟨hb, hkp⟩ := key _ _ hkp
      simp only [Bool.and_eq_true, bne_iff_ne, ne_eq] at hb
      simp only [List.mem_cons, List.not_mem_nil, or_false] at hkp
      subst hkp
      exact Nat.pos_of_ne_zero hb.2
  · obtain ⟨o, ho, rfl⟩ := List.mem_map.mp hk
    rw [hori o ho]
    obtain ⟨ej, hej, hf⟩ := List.mem_filterMap.mp ho
    rcases ej with ⟨e', j⟩
    simp only at hf
    rcases e' with _ | ⟨pid, ty, ori⟩
    · cases hf
    · cases ty <;> rcases ori with _ | k <;> simp only at hf <;> try cases hf
      show 1 ≤ j + 1
      omega
end Gama.PE

namespace Gama.XmlCovNet
open Gama Gama.Lin Gama.PE Gama.Ls Gama.Ls.Net Gama.CovBand

/-- the value of an accessor that may throw: the C++ would leave `LocalNetworkXML::write` with the exception
    (nothing more is printed); the model's valuation is total, `0` stands for "no value" and every statement about
    the printed number is made under `… = .ok q` -/
def okOr0 {ε K : Type} [Zero K] : Except ε K → K
  | .ok v => v
  | .error _ => 0

/-- `qxx(r, s)` as a total function (see `okOr0`) -/
def qxxVal {K : Type} [Zero K] (a : NetAnswer K) (r s : Nat) : K := okOr0 (a.qxx r s)

/-- the valuation of the accessor atoms of the regenerated covariance site at loop indices `(i, j)` (1-based):
    `net.m_0()` ↦ `m0`, `net.qxx(ind[i],ind[j])` ↦ the value `a.qxx (ind[i]) (ind[j])` returns (an error ↦ 0: the C++
    would throw), every other atom ↦ 0 (no other atom occurs in the site: `XmlCovSite.covTableOK`) -/
def covEnv {K : Type} [Zero K] (m0 : K) (a : NetAnswer K) (ind : List Nat) (i j : Nat) : Nat → K := fun atom =>
  if atom = XmlCovSite.aM0 then m0
  else if atom = XmlCovSite.aQxx then qxxVal a (ind.getD (i - 1) 0) (ind.getD (j - 1) 0)
  else 0

theorem aQxx_ne_aM0 : XmlCovSite.aQxx ≠ XmlCovSite.aM0 := by decide

theorem covEnv_m0 {K : Type} [Zero K] (m0 : K) (a : NetAnswer K) (ind : List Nat) (i j : Nat) :
    covEnv m0 a ind i j XmlCovSite.aM0 = m0 := by simp [covEnv]

theorem covEnv_qxx {K : Type} [Zero K] (m0 : K) (a : NetAnswer K) (ind : List Nat) (i j : Nat) :
    covEnv m0 a ind i j XmlCovSite.aQxx = qxxVal a (ind.getD (i - 1) 0) (ind.getD (j - 1) 0) := by
  simp [covEnv, aQxx_ne_aM0]

theorem qxxVal_ok {K : Type} [Zero K] (a : NetAnswer K) (r s : Nat) (q : K) (h : a.qxx r s = .ok q) :
    qxxVal a r s = q := by simp [qxxVal, okOr0, h]

/-! ### the evaluated witness -/

section witness
open Gama.PE.Ex Gama.Ls.Ex
attribute [local instance 2000] scalarOfField

/-- trigonometric functions over ℚ that are EXACT on axis-parallel geometry in the angular unit "quarter turn"
    (`π = 2`): `atan2` of an axis-parallel difference is `0, 1, 2, −1`, `sin`/`cos` of `0, 1, 2, 3` are `0, 1, 0, −1` /
    `1, 0, −1, 0`.  (The theorems hold for every `TrigFns`; this choice makes the direction rows of `netD` the true
    linearisation up to the unit of angle.) -/
def tD : TrigFns ℚ :=
  { pi := 2
    atan2 := fun dy dx => if dx = 0 then (if 0 < dy then 1 else if dy < 0 then -1 else 0) else if dx < 0 then 2 else 0
    sin := fun s => if s = 1 then 1 else if s = 3 then -1 else 0
    cos := fun s => if s = 0 then 1 else if s = 2 then -1 else 0
    acos := fun _ => 0 }

def ob (k : Kind) (f t : Nat) (v : ℚ) : Ob ℚ := ⟨true, k, f, t, 0, v⟩

/-- a plane network WITH DIRECTIONS: `A(0,0)`, `B(x=0,y=3)`, `D(x=2,y=0)` fixed, `C(x=0,y=1)` free (no heights);
    stand-point cluster at `A` (orientation 0) with the directions `A→D` (0), `A→C` (a quarter turn + 10⁻⁶) and the
    distance `A→C = 1.001`; a second cluster with the distance `B→C = 2`; all variances 4, `m_0_apr_ = 2`; stale
    index fields of an earlier call.  All distances are 1, 2 (roots exact under `Ex.sqQ`), all bearings axis-parallel.
    `project_equations()` numbers the unknowns in order of first use: orientation of `A` = 1, `C.x` = 2, `C.y` = 3. -/
def netD : PE.Net ℚ :=
  { points := [⟨"A", ⟨0, 0, 0, .fixed, .unused⟩⟩, ⟨"B", ⟨0, 3, 0, .fixed, .unused⟩⟩,
               ⟨"C", ⟨0, 1, 0, .free, .unused⟩⟩, ⟨"D", ⟨2, 0, 0, .fixed, .unused⟩⟩]
    clusters := [⟨some (0, some 0), ⟨3, 0, #[4, 4, 4]⟩,
                   [ob .direction 0 3 0, ob .direction 0 2 (1000001/1000000), ob .distance 0 2 (1001/1000)]⟩,
                 ⟨none, ⟨1, 0, #[4]⟩, [ob .distance 1 2 2]⟩]
    m0 := 2, xNorth := 0, fuel := 10
    idx := ⟨7, [(⟨2, .x⟩, 7), (⟨0, .ori⟩, 3)]⟩ }

/-- `m0²·qxx(ind[i],ind[j])` -/
def covOf (m0 : ℚ) (a : NetAnswer ℚ) (ind : List Nat) : Nat → Nat → ℚ :=
  fun i j => m0 * m0 * qxxVal a (ind.getD (i - 1) 0) (ind.getD (j - 1) 0)

/-- what the examples read off a run `project_equations()` ; `netSolve alg` ; `m_0()` (a priori) ; XML writer:
    the system, the orientation records, `ind[]`, `m_0()`, all `qxx(i,j)`, the `<flt>` sequence -/
def xmlSummary (alg : Alg) (band : Int) (r : Except PE.Err (NetProblem ℚ × Unknowns ℚ)) :
    Option ((List (List (Nat × ℚ)) × List ℚ) × List Ori × List Nat × ℚ × List (List ℚ) × List ℚ) :=
  match r with
  | .ok (np, u) =>
    match netSolve alg np with
    | .ok a =>
      match a.m0 np .apriori with
      | .ok m0 =>
        let ind := indList (xmlPtsOf u) (orisOf u)
        some ((np.rows.toList.map (·.toList), np.rhs.toList), orisOf u, ind, m0,
              (List.range np.n).map (fun i => (List.range np.n).map fun j => qxxVal a (i + 1) (j + 1)),
              (write (covOf m0 a ind) ind.length band).flt)
      | .error _ => none
    | .error _ => none
  | .error _ => none

/-- the rows of `netD`: direction `A→D` `−1·ori`; direction `A→C` `−1·ori − 1000·C.x` (`K = 10·200/π/d = 1000`);
    distance `A→C` `+1·C.y`; distance `B→C` `−1·C.y`; misclosures `(0, 1, 1, 0)` -/
def rowsD : List (List (Nat × ℚ)) × List ℚ :=
  ([[(1, -1)], [(1, -1), (3, 0), (2, -1000)], [(3, 1), (2, 0)], [(3, -1), (2, 0)]], [0, 1, 1, 0])

/-- `Q = (AᵀPA)⁻¹` for `AᵀPA = [[2, 1000, 0], [1000, 10⁶, 0], [0, 0, 2]]` (`P = m0²Σ⁻¹ = 1`) in the order (ori, C.x, C.y) -/
def qxxD : List (List ℚ) := [[1, -1/1000, 0], [-1/1000, 1/500000, 0], [0, 0, 1/2]]

set_option synthInstance.maxSize 1024 in
theorem netD_chol_band1 : xmlSummary .chol 1 (@projectEquations ℚ (trigOfField tD) netD)
    = some (rowsD, [⟨1, 1⟩], [2, 3, 1], 2, qxxD, [1/125000, 0, 2, 0, 4]) := by decide +kernel

set_option synthInstance.maxSize 1024 in
theorem netD_chol_full : xmlSummary .chol (-1) (@projectEquations ℚ (trigOfField tD) netD)
    = some (rowsD, [⟨1, 1⟩], [2, 3, 1], 2, qxxD, [1/125000, 0, -1/250, 2, 0, 4]) := by decide +kernel

/-- what a value of `xmlSummary` says about the run, for EVERY entry of the regenerated covariance site -/
theorem xmlSummary_spec (hT : XmlCovSite.covTableOK = true) (alg : Alg) (band : Int)
    (r : Except PE.Err (NetProblem ℚ × Unknowns ℚ)) (sys : List (List (Nat × ℚ)) × List ℚ) (o : List Ori)
    (ind : List Nat) (m0 : ℚ) (qt : List (List ℚ)) (flt : List ℚ)
    (h : xmlSummary alg band r = some (sys, o, ind, m0, qt, flt)) :
    ∃ np u a, r = .ok (np, u) ∧ orisOf u = o ∧ indList (xmlPtsOf u) (orisOf u) = ind ∧
      netSolve alg np = .ok a ∧ a.m0 np .apriori = .ok m0 ∧
      ∀ g e, XmlCovSite.IsCovXml g e → ∀ inv : Nat → ℚ,
        (write (fun i j => FormatExpr.eval inv (covEnv (okOr0 (a.m0 np .apriori)) a ind i j) e.expr)
          ind.length band).flt = flt := by
  unfold xmlSummary at h
  split at h
  · rename_i np u
    split at h
    · rename_i a ha
      split at h
      · rename_i m0' hm
        simp only [Option.some.injEq, Prod.mk.injEq] at h
        obtain ⟨_, h1, h2, h3, _, h5⟩ := h
        subst h3
        refine ⟨np, u, a, rfl, h1, h2, ha, hm, ?_⟩
        intro g e he inv
        have hc : (fun i j => FormatExpr.eval inv (covEnv (okOr0 (a.m0 np .apriori)) a ind i j) e.expr)
            = covOf m0' a ind := by
          funext i j
          rw [XmlCovSite.covXml_eval hT he, covEnv_m0, covEnv_qxx, hm]
          rfl
        rw [hc, ← h5, ← h2]
      · cases h
    · cases h
  · cases h

end witness

end Gama.XmlCovNet
