/-
  The adjustment-results reader allocates for `<cov-mat>` at most (adjusted unknowns read so far)·(band+1) elements:
  every `adj->cov.reset(dim, band)` stands right behind the guard of `band(false)`, which since fix 3e87ff8 also refuses
  `tmp_dim > unknowns` (generated `covGuardUnknowns`).  Table fact (`decide`): in every handler body `covReset` is
  immediately preceded by `covGuard`.
-/
import Gama.Lemmas.AdjResCov
namespace Gama.AdjRes

/-- every logged allocation is bounded by the unknowns announced before it -/
def AllocInv (st : St) : Prop := ∀ a ∈ st.allocs, (a.1 : Int) ≤ (a.2.1 : Int) * (a.2.2 + 1) ∧ 0 ≤ a.2.2

/-- the statement does not allocate -/
def AllocSame (st st' : St) : Prop := st'.allocs = st.allocs

theorem AllocInv.same {st st' : St} (h : AllocInv st) (hs : AllocSame st st') : AllocInv st' := by
  unfold AllocInv; rw [hs]; exact h

theorem AllocSame.trans {a b c : St} (h1 : AllocSame a b) (h2 : AllocSame b c) : AllocSame a c := Eq.trans h2 h1

theorem AllocSame.error (st : St) (k : Err) : AllocSame st (st.error k) := by
  unfold St.error AllocSame; split <;> rfl

theorem AllocSame.setState (st : St) (s : State) : AllocSame st (st.setState s) := by
  unfold St.setState AllocSame; split
  · split <;> rfl
  · rfl

theorem AllocSame.checkData (st : St) : AllocSame st st.checkData := by
  unfold St.checkData; split
  · exact rfl
  · exact (AllocSame.error st _).trans rfl

theorem AllocSame.getIntCheck (st : St) : AllocSame st st.getIntCheck := by
  unfold St.getIntCheck; split
  · exact rfl
  · exact .error _ _

theorem AllocSame.getFloatCheck (st : St) : AllocSame st st.getFloatCheck := by
  unfold St.getFloatCheck; split
  · exact rfl
  · exact .error _ _

theorem AllocSame.iterErr (st : St) (g : Option State) (w : Bool) (e : Err) : AllocSame st (st.iterErr g w e) := by
  unfold St.iterErr; split
  · exact .error _ _
  · split
    · split
      · exact .error _ _
      · exact rfl
    · simp only; split
      · exact (AllocSame.trans (b := { st with uninitCovEnd := true }) rfl (.error _ _))
      · exact rfl

theorem AllocSame.store (st : St) (g : Bool) : AllocSame st (st.store g) := by
  unfold St.store; split
  · split
    · exact rfl
    · exact (AllocSame.getFloatCheck st).trans rfl
  · exact rfl

theorem AllocSame.book (st : St) (b : Book) : AllocSame st (st.book b) := by
  cases b <;> simp only [St.book, AllocSame] <;> (try split) <;> rfl

theorem attrLoop_allocSame (names : List (String × AttrKind)) (ue : Err) :
    ∀ (as : List (String × String)) (st : St), AllocSame st (attrLoop names ue as st).1 := by
  intro as
  induction as with
  | nil => intro st; exact rfl
  | cons a r ih =>
    intro st
    obtain ⟨a, v⟩ := a
    simp only [attrLoop]
    split
    · exact .error _ _
    · exact ih st
    · exact (AllocSame.trans (b := { st with category := v }) rfl (ih _))
    · split
      · exact ih st
      · exact .error _ _

/-- every statement except `covReset` leaves the log alone -/
theorem execOp_allocSame (op : Op) (as : List (String × String)) (st : St) (h : op ≠ .covReset) :
    AllocSame st (execOp op as st).1 := by
  cases op with
  | push x => exact rfl
  | setState s => exact .setState _ _
  | assignState s => exact rfl
  | attrs names ue => exact attrLoop_allocSame names ue as st
  | needCategory e =>
    simp only [execOp]; split
    · exact .error _ _
    · exact rfl
  | getInt d =>
    simp only [execOp]
    cases d
    · exact .getIntCheck _
    · exact (AllocSame.getIntCheck st).trans rfl
    · exact (AllocSame.getIntCheck st).trans rfl
  | getFloat => exact .getFloatCheck _
  | getString d => cases d <;> exact rfl
  | checkData => exact .checkData _
  | clearCategory => exact rfl
  | stageSet k => exact rfl
  | stageSwitch cases e =>
    simp only [execOp]; split
    · exact .getIntCheck _
    · exact .error _ _
  | requireState ss e =>
    simp only [execOp]; split
    · exact .error _ _
    · exact rfl
  | requireFlagEq a b e =>
    simp only [execOp]; split
    · exact .error _ _
    · exact rfl
  | setFlag f v => exact rfl
  | covGuard e =>
    simp only [execOp]; split
    · exact (AllocSame.error st e).trans rfl
    · exact rfl
  | covReset => exact absurd rfl h
  | iterBegin => exact rfl
  | iterEnd => exact rfl
  | iterErr g w e => exact .iterErr _ _ _ _
  | store g => exact .store _ _
  | requireString al e =>
    simp only [execOp]; split
    · exact rfl
    · exact .error _ _
  | error e => exact .error _ _
  | data => exact rfl
  | book b => exact .book _ _

theorem guard_includes_unknowns : covGuardUnknowns = true := by decide

/-- what the guard establishes: `0 ≤ dim ≤ unknowns`, `0 ≤ band` -/
def GuardPost (st : St) : Prop := 0 ≤ st.dim ∧ st.dim ≤ st.unknowns ∧ 0 ≤ st.band

theorem covGuard_post (st : St) (e : Err) (as : List (String × String)) :
    GuardPost (execOp (.covGuard e) as st).1 ∧ (execOp (.covGuard e) as st).1.allocs = st.allocs ∧
    (execOp (.covGuard e) as st).2 = true := by
  simp only [execOp, guard_includes_unknowns, Bool.true_and]
  split
  · next h =>
    refine ⟨⟨by simp, ?_, by simp⟩, AllocSame.error st e, trivial⟩
    simp only
    exact Int.natCast_nonneg _
  · next h =>
    simp only [Bool.or_eq_true, decide_eq_true_eq, not_or] at h
    obtain ⟨⟨⟨⟨h1, h2⟩, _⟩, _⟩, h5⟩ := h
    exact ⟨⟨by omega, by omega, by omega⟩, rfl, trivial⟩

theorem covElems_le (dim band : Int) (u : Nat) (h1 : 0 ≤ dim) (h2 : dim ≤ u) (h3 : 0 ≤ band) :
    (covElems dim band : Int) ≤ (u : Int) * (band + 1) := by
  unfold covElems
  have hY : 0 ≤ band * (band + 1) / 2 := Int.ediv_nonneg (Int.mul_nonneg h3 (by omega)) (by decide)
  have hX : dim * (band + 1) ≤ (u : Int) * (band + 1) := Int.mul_le_mul_of_nonneg_right h2 (by omega)
  by_cases hn : 0 ≤ dim * (band + 1) - band * (band + 1) / 2
  · rw [Int.toNat_of_nonneg hn]; omega
  · have : (dim * (band + 1) - band * (band + 1) / 2).toNat = 0 := Int.toNat_eq_zero.mpr (by omega)
    rw [this]
    have : 0 ≤ dim * (band + 1) := Int.mul_nonneg h1 (by omega)
    simp only [Int.natCast_zero] ; omega

/-- `covReset` only right behind `covGuard` (`prev` = the previous statement was the guard) -/
def resetGuardedAux : Bool → List Op → Bool
  | _, [] => true
  | prev, .covReset :: r => prev && resetGuardedAux false r
  | _, .covGuard _ :: r => resetGuardedAux true r
  | _, _ :: r => resetGuardedAux false r

def resetGuarded (ops : List Op) : Bool := resetGuardedAux false ops

theorem resets_guarded : ∀ h : Handler, resetGuarded (startOps h) = true ∧ resetGuarded (endOps h) = true :=
  forall_handler (by decide)

theorem execOps_allocInv_aux (as : List (String × String)) : ∀ (ops : List Op) (prev : Bool) (st : St),
    resetGuardedAux prev ops = true → (prev = true → GuardPost st) → AllocInv st → AllocInv (execOps ops as st) := by
  intro ops
  induction ops with
  | nil => intro prev st _ _ h; exact h
  | cons op r ih =>
    intro prev st hg hp h
    by_cases hr : op = .covReset
    · subst hr
      simp only [resetGuardedAux, Bool.and_eq_true] at hg
      have gp := hp hg.1
      simp only [execOps, execOp]
      apply ih false _ hg.2 (fun hf => by cases hf)
      intro a ha
      simp only [List.mem_cons] at ha
      rcases ha with rfl | ha
      · exact ⟨covElems_le _ _ _ gp.1 gp.2.1 gp.2.2, gp.2.2⟩
      · exact h a ha
    · by_cases hgd : ∃ e, op = .covGuard e
      · obtain ⟨e, rfl⟩ := hgd
        simp only [resetGuardedAux] at hg
        have hpost := covGuard_post st e as
        simp only [execOps]
        split
        · next st' heq =>
          rw [heq] at hpost
          exact ih true st' hg (fun _ => hpost.1) (h.same hpost.2.1)
        · next st' heq => rw [heq] at hpost; cases hpost.2.2
      · have hg' : resetGuardedAux false r = true := by
          cases op <;> first | exact hg | exact absurd rfl hr | exact absurd ⟨_, rfl⟩ hgd
        have h' := h.same (execOp_allocSame op as st hr)
        simp only [execOps]
        split
        · next st' heq => rw [heq] at h'; exact ih false st' hg' (fun hf => by cases hf) h'
        · next st' heq => rw [heq] at h'; exact h'

theorem execOps_allocInv (as : List (String × String)) (ops : List Op) (st : St) (hg : resetGuarded ops = true)
    (h : AllocInv st) : AllocInv (execOps ops as st) :=
  execOps_allocInv_aux as ops false st hg (fun hf => by cases hf) h

theorem tagOf_allocSame (st : St) (name : String) : AllocSame st (tagOf st name).1 := by
  unfold tagOf; split
  · exact rfl
  · exact rfl
  · exact .error _ _

theorem react_allocInv (st : St) (ev : Event) (h : AllocInv st) : AllocInv (react st ev) := by
  cases ev with
  | start name as =>
    simp only [react]
    exact execOps_allocInv _ _ _ (resets_guarded _).1 ((h.same (.checkData _)).same (tagOf_allocSame _ name))
  | stop =>
    simp only [react]
    split
    · exact (execOps_allocInv _ _ _ (resets_guarded _).2 (h.same (st' := { st with stack := [] }) rfl)).same rfl
    · next x r _ =>
      exact (execOps_allocInv _ _ _ (resets_guarded _).2 (h.same (st' := { st with stack := r }) rfl)).same rfl
  | text s => exact h.same rfl

theorem run_allocInv (evs : List Event) : ∀ st : St, AllocInv st → AllocInv (run st evs) := by
  induction evs with
  | nil => intro st h; exact h
  | cons ev es ih =>
    intro st h; rw [run_cons]
    exact ih _ ((react_allocInv st ev h).same (st' := step st ev) rfl)

theorem init_allocInv : AllocInv St.init := by
  intro a ha; simp [St.init] at ha

end Gama.AdjRes
