/-
  C14 — lemmas about the revision model (`Gama/Model/Revise.lean`).
-/
import Gama.Lemmas.ReviseLoop
import Gama.Model.ReviseSpec
namespace Gama.Rev
variable {K : Type}

/-! ### points -/

theorem revisePt_idem (p : Pt K) : revisePt (revisePt p) = revisePt p := by
  cases p with
  | mk id sxy sz hxy hz x y z =>
    cases sxy <;> cases sz <;> cases hxy <;> cases hz <;> rfl

theorem missingXY_revisePt (p : Pt K) : missingXY (revisePt p) = false := by
  cases p with
  | mk id sxy sz hxy hz x y z =>
    cases sxy <;> cases sz <;> cases hxy <;> cases hz <;> rfl

theorem missingZ_revisePt (p : Pt K) : missingZ (revisePt p) = false := by
  cases p with
  | mk id sxy sz hxy hz x y z =>
    cases sxy <;> cases sz <;> cases hxy <;> cases hz <;> rfl

theorem recordsPt_revisePt (p : Pt K) : recordsPt (revisePt p) = [] := by
  simp [recordsPt, missingXY_revisePt, missingZ_revisePt]

theorem countsPt_revisePt (p : Pt K) : countsPt (revisePt p) = countsPt p := by
  cases p with
  | mk id sxy sz hxy hz x y z =>
    cases sxy <;> cases sz <;> cases hxy <;> cases hz <;> rfl

theorem revisePt_id (p : Pt K) : (revisePt p).id = p.id := rfl

/-! ### observations -/

theorem roleId_congr {o o' : Obs K} (h2 : o'.frm = o.frm) (h3 : o'.to = o.to) (h4 : o'.fs = o.fs) :
    o'.roleId = o.roleId := by
  funext r; cases r <;> simp [Obs.roleId, *]

theorem reqOk_congr (pts : List (Pt K)) {o o' : Obs K} (h1 : o'.ty = o.ty) (h2 : o'.frm = o.frm)
    (h3 : o'.to = o.to) (h4 : o'.fs = o.fs) : reqOk pts o' = reqOk pts o := by
  unfold reqOk
  rw [h1, roleId_congr h2 h3 h4]

theorem localRev_fix (pts : List (Pt K)) (o : Obs K) (h : o.active = true → reqOk pts o = true) :
    localRev pts o = o := by
  cases o with
  | mk ty frm to fs active value =>
    cases active with
    | false => simp [localRev]
    | true => simp [localRev, h rfl]

theorem localRev_sound (pts : List (Pt K)) (o : Obs K) :
    (localRev pts o).active = true → reqOk pts (localRev pts o) = true := by
  intro h
  have : reqOk pts (localRev pts o) = reqOk pts o := reqOk_congr pts rfl rfl rfl rfl
  rw [this]
  simp [localRev] at h
  exact h.2

theorem passDir_sound (pts : List (Pt K)) (o : Obs K)
    (h : o.active = true → reqOk pts o = true) :
    (passDir o).active = true → reqOk pts (passDir o) = true := by
  unfold passDir
  split
  · intro h'; simp at h'
  · exact h

theorem passDir_idem (o : Obs K) : passDir (passDir o) = passDir o := by
  unfold passDir
  split <;> simp_all

theorem isActiveDir_passDir (o : Obs K) : isActiveDir (passDir o) = false := by
  unfold isActiveDir passDir
  by_cases h : o.ty = .direction <;> simp [h]

theorem distinctTargets_passDir (os : List (Obs K)) : distinctTargets (os.map passDir) = 0 := by
  have : (os.map passDir).filter isActiveDir = [] := by
    simp [List.filter_eq_nil_iff, isActiveDir_passDir]
  simp [distinctTargets, this]

/-- every observation of the list is passive or satisfies its requirements -/
def SoundObs (pts : List (Pt K)) (os : List (Obs K)) : Prop :=
  ∀ o ∈ os, o.active = true → reqOk pts o = true

theorem map_localRev_fix (pts : List (Pt K)) (os : List (Obs K)) (h : SoundObs pts os) :
    os.map (localRev pts) = os := by
  induction os with
  | nil => rfl
  | cons o os ih =>
    simp only [List.map_cons]
    rw [localRev_fix pts o (h o (by simp)), ih (fun o' ho' => h o' (by simp [ho']))]

theorem soundObs_localRev (pts : List (Pt K)) (os : List (Obs K)) :
    SoundObs pts (os.map (localRev pts)) := by
  intro o ho
  simp only [List.mem_map] at ho
  obtain ⟨o', _, rfl⟩ := ho
  exact localRev_sound pts o'

theorem soundObs_passDir (pts : List (Pt K)) (os : List (Obs K)) (h : SoundObs pts os) :
    SoundObs pts (os.map passDir) := by
  intro o ho
  simp only [List.mem_map] at ho
  obtain ⟨o', ho', rfl⟩ := ho
  exact passDir_sound pts o' (h o' ho')

theorem standRule_obs_sound (pts : List (Pt K)) (c : Cluster K) (h : SoundObs pts c.obs) :
    SoundObs pts (standRule c).obs := by
  simp only [standRule_def]
  split
  · exact soundObs_passDir pts c.obs h
  · exact h

theorem standRule_idem (c : Cluster K) : standRule (standRule c) = standRule c := by
  simp only [standRule_def]
  by_cases h : (c.stand && decide (distinctTargets c.obs < 2)) = true
  · simp only [h, if_true]
    have h1 : c.stand = true := by simp at h; exact h.1
    simp [h1, distinctTargets_passDir, List.map_map, Function.comp_def, passDir_idem]
  · simp only [h]
    simp [h]

theorem reviseCl_obs_sound (pts : List (Pt K)) (c : Cluster K) : SoundObs pts (reviseCl pts c).obs := by
  unfold reviseCl updateCl
  exact standRule_obs_sound pts _ (soundObs_localRev pts c.obs)

theorem updateCl_standRule (c : Cluster K) (a : Nat) :
    standRule { c with actObs := a } = { standRule c with actObs := a } := by
  simp only [standRule_def]
  split <;> rfl

theorem reviseCl_idem (pts : List (Pt K)) (c : Cluster K) :
    reviseCl pts (reviseCl pts c) = reviseCl pts c := by
  have hs := reviseCl_obs_sound pts c
  have hfix := map_localRev_fix pts _ hs
  unfold reviseCl at hfix ⊢
  generalize hc1 : ({ c with obs := c.obs.map (localRev pts) } : Cluster K) = c1 at hfix ⊢
  have e : ({ updateCl (standRule c1) with obs := (updateCl (standRule c1)).obs.map (localRev pts) } : Cluster K)
      = updateCl (standRule c1) := by
    rw [hfix]
  rw [e]
  unfold updateCl
  rw [updateCl_standRule, standRule_idem]

/-! ### the network -/

theorem revise_revise (n : Net K) : revise (revise n) = { revise n with undefined := [] } := by
  unfold revise revisionObservations revisionPoints
  simp only [List.map_map, List.filter_map, List.flatMap_map, Function.comp_def,
    revisePt_idem, recordsPt_revisePt, countsPt_revisePt, reviseCl_idem,
    missingXY_revisePt, missingZ_revisePt]
  simp

/-! ### generated tables against the specification -/

theorem reqOk_eq_usable (pts : List (Pt K)) (o : Obs K) : reqOk pts o = Spec.usable pts o := by
  cases o with
  | mk ty frm to fs active value =>
    cases ty <;>
      simp only [reqOk, Spec.usable, Gen.requirements, Spec.geometry, Spec.member, List.all_cons, List.all_nil,
        Obs.roleId, Bool.and_true] <;>
      (try cases findPt pts frm) <;> (try cases findPt pts to) <;> (try cases findPt pts fs) <;>
      simp [Pt.flag, Spec.known, Spec.takesPart, Bool.and_comm, Bool.and_left_comm, Bool.and_assoc]

/-! ### reporting -/

theorem missingXY_of (p : Pt K) (ha : p.sxy.active = true) (hu : (revisePt p).sxy.active = false) :
    missingXY p = true := by
  cases h : missingXY p
  · simp [revisePt, h, ha] at hu
  · rfl

theorem missingZ_of (p : Pt K) (ha : p.sz.active = true) (hu : (revisePt p).sz.active = false) :
    missingZ p = true := by
  cases h : missingZ p
  · simp [revisePt, h, ha] at hu
  · rfl

theorem reported_xy (n : Net K) (p : Pt K) (hp : p ∈ n.pts) (h : missingXY p = true) :
    (p.id, 1) ∈ (revise n).removed := by
  have : (p.id, 1) ∈ recordsPt p := by simp [recordsPt, h, Gen.recordMissingXY]
  show (p.id, 1) ∈ n.removed ++ n.pts.flatMap recordsPt
  exact List.mem_append_right _ (List.mem_flatMap.mpr ⟨p, hp, this⟩)

theorem reported_z (n : Net K) (p : Pt K) (hp : p ∈ n.pts) (h : missingZ p = true) :
    (p.id, 2) ∈ (revise n).removed := by
  have : (p.id, 2) ∈ recordsPt p := by simp [recordsPt, h, Gen.recordMissingZ]
  show (p.id, 2) ∈ n.removed ++ n.pts.flatMap recordsPt
  exact List.mem_append_right _ (List.mem_flatMap.mpr ⟨p, hp, this⟩)

/-- nothing else is appended: a new record is a point that lost that group in this revision -/
theorem removed_only (n : Net K) (r : Nat × Nat) (h : r ∈ (revise n).removed) :
    r ∈ n.removed ∨ ∃ p ∈ n.pts, r.1 = p.id ∧ ((r.2 = 1 ∧ missingXY p = true) ∨ (r.2 = 2 ∧ missingZ p = true)) := by
  have h' : r ∈ n.removed ++ n.pts.flatMap recordsPt := h
  rcases List.mem_append.mp h' with h1 | h2
  · exact Or.inl h1
  · right
    obtain ⟨p, hp, hr⟩ := List.mem_flatMap.mp h2
    refine ⟨p, hp, ?_⟩
    simp only [recordsPt, Gen.recordMissingXY, Gen.recordMissingZ, Option.map_some, Option.toList_some,
      List.mem_append] at hr
    rcases hr with hr | hr
    · by_cases hm : missingXY p = true
      · simp [hm] at hr; subst hr; exact ⟨rfl, Or.inl ⟨rfl, hm⟩⟩
      · simp [hm] at hr
    · by_cases hm : missingZ p = true
      · simp [hm] at hr; subst hr; exact ⟨rfl, Or.inr ⟨rfl, hm⟩⟩
      · simp [hm] at hr

theorem length_filter_add (l : List (Obs K)) :
    (l.filter (·.active)).length + (l.filter (fun o => !o.active)).length = l.length := by
  induction l with
  | nil => rfl
  | cons o os ih =>
    cases h : o.active <;> simp [List.filter_cons, h] <;> omega

theorem rejected_complete (n : Net K) (c : Cluster K) (hc : c ∈ (revise n).cls) (o : Obs K) (ho : o ∈ c.obs)
    (h : o.active = false) : o ∈ (revise n).rejected := by
  show o ∈ (allObs (revise n).cls).filter (fun o => !o.active)
  refine List.mem_filter.mpr ⟨List.mem_flatMap.mpr ⟨c, hc, ho⟩, by simp [h]⟩

theorem revised_complete (n : Net K) (c : Cluster K) (hc : c ∈ (revise n).cls) (o : Obs K) (ho : o ∈ c.obs)
    (h : o.active = true) : o ∈ (revise n).revised := by
  show o ∈ (allObs (revise n).cls).filter (·.active)
  refine List.mem_filter.mpr ⟨List.mem_flatMap.mpr ⟨c, hc, ho⟩, by simp [h]⟩

theorem counts_revise (n : Net K) :
    (revise n).pocmer = (revise n).revised.length ∧
    (revise n).pocmer + (revise n).rejected.length = (allObs (revise n).cls).length :=
  ⟨rfl, length_filter_add _⟩

theorem actObs_revise (n : Net K) (c : Cluster K) (hc : c ∈ (revise n).cls) :
    c.actObs = (c.obs.filter (·.active)).length := by
  have hc' : c ∈ (revisionPoints n).cls.map (reviseCl (revisionPoints n).pts) := hc
  obtain ⟨c0, _, rfl⟩ := List.mem_map.mp hc'
  rfl

/-- the three code paths that make an observation passive in a revision -/
theorem reviseCl_obs (pts : List (Pt K)) (c : Cluster K) :
    (reviseCl pts c).obs = c.obs.map (fun o =>
      if c.stand && decide (distinctTargets (c.obs.map (localRev pts)) < 2)
      then passDir (localRev pts o) else localRev pts o) := by
  unfold reviseCl updateCl
  simp only [standRule_def]
  by_cases h : (c.stand && decide (distinctTargets (c.obs.map (localRev pts)) < 2)) = true
  · simp [h, List.map_map, Function.comp_def]
  · simp [h]

theorem passive_reason (pts : List (Pt K)) (c : Cluster K) (o : Obs K) :
    ((if c.stand && decide (distinctTargets (c.obs.map (localRev pts)) < 2)
      then passDir (localRev pts o) else localRev pts o).active = false) →
    o.active = false ∨ Spec.usable pts o = false ∨
      (c.stand = true ∧ o.ty = .direction ∧ distinctTargets (c.obs.map (localRev pts)) < 2) := by
  intro h
  by_cases hf : (c.stand && decide (distinctTargets (c.obs.map (localRev pts)) < 2)) = true
  · rw [if_pos hf] at h
    simp only [Bool.and_eq_true, decide_eq_true_eq] at hf
    by_cases hd : o.ty = .direction
    · exact Or.inr (Or.inr ⟨hf.1, hd, hf.2⟩)
    · have : passDir (localRev pts o) = localRev pts o := by
        unfold passDir; simp [localRev, hd]
      rw [this] at h
      simp only [localRev, Bool.and_eq_false_iff] at h
      rcases h with h | h
      · exact Or.inl h
      · exact Or.inr (Or.inl (by rw [← reqOk_eq_usable]; exact h))
  · rw [if_neg hf] at h
    simp only [localRev, Bool.and_eq_false_iff] at h
    rcases h with h | h
    · exact Or.inl h
    · exact Or.inr (Or.inl (by rw [← reqOk_eq_usable]; exact h))

/-- the count the station rule uses, in terms of the input -/
theorem distinctTargets_localRev (pts : List (Pt K)) (os : List (Obs K)) :
    distinctTargets (os.map (localRev pts)) = Spec.usableTargets pts os := by
  unfold distinctTargets Spec.usableTargets
  rw [List.filter_map, List.map_map]
  have h1 : (isActiveDir ∘ localRev pts) = (fun o : Obs K => o.ty == .direction && (o.active && Spec.usable pts o)) := by
    funext o
    simp [isActiveDir, localRev, reqOk_eq_usable]
  have h2 : ((fun o : Obs K => o.to) ∘ localRev pts) = (fun o : Obs K => o.to) := by
    funext o; rfl
  rw [h1, h2]

/-- completeness: each of the three reasons makes the observation passive -/
theorem reason_passive (pts : List (Pt K)) (c : Cluster K) (o : Obs K)
    (h : o.active = false ∨ Spec.usable pts o = false ∨
      (c.stand = true ∧ o.ty = .direction ∧ distinctTargets (c.obs.map (localRev pts)) < 2)) :
    (if c.stand && decide (distinctTargets (c.obs.map (localRev pts)) < 2)
      then passDir (localRev pts o) else localRev pts o).active = false := by
  have hp : ∀ q : Obs K, q.active = false → (passDir q).active = false := by
    intro q hq; unfold passDir; split <;> simp [hq]
  rcases h with h | h | ⟨h1, h2, h3⟩
  · have : (localRev pts o).active = false := by simp [localRev, h]
    split
    · exact hp _ this
    · exact this
  · have : (localRev pts o).active = false := by simp [localRev, reqOk_eq_usable, h]
    split
    · exact hp _ this
    · exact this
  · have hf : (c.stand && decide (distinctTargets (c.obs.map (localRev pts)) < 2)) = true := by simp [h1, h3]
    rw [if_pos hf]
    simp [passDir, localRev, h2]

/-! ### deletion -/

/-- every looked-up role of every type needs some coordinate group to take part -/
def tableNeedsActive : Bool :=
  ObsType.all.all fun t => (Gen.requirements t).all fun rf =>
    rf.2.contains .active_xy || rf.2.contains .active_z

theorem tableNeedsActive_true : tableNeedsActive = true := by decide

theorem mem_all (t : ObsType) : t ∈ ObsType.all := by cases t <;> simp [ObsType.all]

theorem active_of_flags (t : ObsType) (rf : Role × List Flag) (hrf : rf ∈ Gen.requirements t) (p : Pt K)
    (h : rf.2.all p.flag = true) : p.active = true := by
  have h1 := tableNeedsActive_true
  unfold tableNeedsActive at h1
  have h2 := List.all_eq_true.mp (List.all_eq_true.mp h1 t (mem_all t)) rf hrf
  have h3 := List.all_eq_true.mp h
  simp only [Bool.or_eq_true, List.contains_iff_mem] at h2
  rcases h2 with h2 | h2
  · have := h3 _ h2; simp [Pt.flag] at this; simp [Pt.active, this]
  · have := h3 _ h2; simp [Pt.flag] at this; simp [Pt.active, this]

theorem find_filter (l : List (Pt K)) (i : Nat) (p : Pt K) (h : findPt l i = some p) (ha : p.active = true) :
    findPt (l.filter Pt.active) i = some p := by
  induction l with
  | nil => simp [findPt] at h
  | cons q l ih =>
    unfold findPt at h ih ⊢
    by_cases hq : (q.id == i) = true
    · simp only [List.find?_cons, hq] at h
      cases h
      simp [List.filter_cons, ha, List.find?_cons, hq]
    · simp only [List.find?_cons, hq] at h
      by_cases hqa : q.active = true
      · simp only [List.filter_cons, hqa, if_true, List.find?_cons, hq]
        exact ih h
      · simp only [List.filter_cons, hqa]
        exact ih h

theorem reqOk_filter (P : List (Pt K)) (o : Obs K) (h : reqOk P o = true) :
    reqOk (P.filter Pt.active) o = true := by
  unfold reqOk at h ⊢
  rw [List.all_eq_true] at h ⊢
  intro rf hrf
  have h1 := h rf hrf
  cases hf : findPt P (o.roleId rf.1) with
  | none => simp [hf] at h1
  | some p =>
    simp only [hf] at h1
    rw [find_filter P _ p hf (active_of_flags o.ty rf hrf p h1)]
    exact h1

theorem map_revisePt_fix (l : List (Pt K)) (h : ∀ p ∈ l, revisePt p = p) : l.map revisePt = l := by
  induction l with
  | nil => rfl
  | cons p l ih =>
    simp only [List.map_cons]
    rw [h p (by simp), ih (fun q hq => h q (by simp [hq]))]

def keepActive (c : Cluster K) : Cluster K := { c with obs := c.obs.filter (·.active) }

def Good (P : List (Pt K)) (c : Cluster K) : Prop :=
  SoundObs P c.obs ∧
  ((c.stand && decide (distinctTargets c.obs < 2)) = true → ∀ o ∈ c.obs, isActiveDir o = false)

theorem good_reviseCl (P : List (Pt K)) (c0 : Cluster K) : Good P (reviseCl P c0) := by
  refine ⟨reviseCl_obs_sound P c0, ?_⟩
  unfold reviseCl updateCl
  simp only [standRule_def]
  by_cases hf : (c0.stand && decide (distinctTargets (c0.obs.map (localRev P)) < 2)) = true
  · simp only [hf, if_true]
    intro _ o ho
    obtain ⟨o', _, rfl⟩ := List.mem_map.mp ho
    exact isActiveDir_passDir o'
  · simp only [hf]
    intro h
    exact absurd h hf

theorem distinctTargets_filter (os : List (Obs K)) :
    distinctTargets (os.filter (·.active)) = distinctTargets os := by
  unfold distinctTargets
  rw [List.filter_filter]
  have : (fun a : Obs K => isActiveDir a && a.active) = isActiveDir := by
    funext o
    unfold isActiveDir
    cases o.active <;> simp
  rw [this]

theorem reviseCl_keepActive (P : List (Pt K)) (c : Cluster K) (hg : Good P c) :
    (reviseCl (P.filter Pt.active) (keepActive c)).stand = c.stand ∧
    (reviseCl (P.filter Pt.active) (keepActive c)).obs.filter (·.active) = c.obs.filter (·.active) := by
  have hs : SoundObs (P.filter Pt.active) (keepActive c).obs := by
    intro o ho ha
    have ho' : o ∈ c.obs := (List.mem_filter.mp ho).1
    exact reqOk_filter P o (hg.1 o ho' ha)
  have h1 := map_localRev_fix _ _ hs
  have hst : (standRule (keepActive c)).obs = (keepActive c).obs := by
    simp only [standRule_def]
    by_cases hf : ((keepActive c).stand && decide (distinctTargets (keepActive c).obs < 2)) = true
    · simp only [hf, if_true]
      have hf' : (c.stand && decide (distinctTargets c.obs < 2)) = true := by
        have : distinctTargets (keepActive c).obs = distinctTargets c.obs := distinctTargets_filter c.obs
        rw [this] at hf; exact hf
      have hno := hg.2 hf'
      show (keepActive c).obs.map passDir = (keepActive c).obs
      have : ∀ o ∈ (keepActive c).obs, passDir o = o := by
        intro o ho
        have hm := List.mem_filter.mp ho
        have hd := hno o hm.1
        unfold passDir
        by_cases ht : o.ty = .direction
        · simp [isActiveDir, ht] at hd
          simp [hd] at hm
        · simp [ht]
      calc (keepActive c).obs.map passDir = (keepActive c).obs.map id := List.map_congr_left this
        _ = (keepActive c).obs := List.map_id _
    · simp only [hf]
      rfl
  have hobs : (reviseCl (P.filter Pt.active) (keepActive c)).obs = (keepActive c).obs := by
    unfold reviseCl updateCl
    show (standRule { keepActive c with obs := (keepActive c).obs.map (localRev (P.filter Pt.active)) }).obs = _
    rw [h1]
    exact hst
  refine ⟨?_, ?_⟩
  · unfold reviseCl updateCl
    simp only [standRule_def]
    split <;> rfl
  · rw [hobs]
    show (c.obs.filter (·.active)).filter (·.active) = c.obs.filter (·.active)
    rw [List.filter_filter]
    congr 1
    funext o
    simp

theorem filter_map_filter_map {α β γ : Type} (l : List α) (f : α → β) (ne : β → Bool) (g : β → γ)
    (ne2 : γ → Bool) (h : α → γ) (H : ∀ a ∈ l, g (f a) = h a ∧ ne (f a) = ne2 (h a)) :
    (((l.map f).filter ne).map g).filter ne2 = (l.map h).filter ne2 := by
  induction l with
  | nil => rfl
  | cons a l ih =>
    have ha := H a (by simp)
    have ih' := ih (fun b hb => H b (by simp [hb]))
    simp only [List.map_cons, List.filter_cons]
    cases hne : ne (f a)
    · have : ne2 (h a) = false := by rw [← ha.2]; exact hne
      simp [this, ih']
    · have : ne2 (h a) = true := by rw [← ha.2]; exact hne
      simp only [if_true, List.map_cons, List.filter_cons, ha.1, this]
      rw [ih']

section abs
variable [Scalar K]

theorem absValue_eq_spec (t : ObsType) (c : AbsCtx K) : Gen.absValue t c = Spec.misclosure t c := by
  cases t <;> rfl

theorem absD0_eq_spec (a b : Bool) (c : AbsCtx K) : Gen.absD0 a b c = Spec.d0 a b c := rfl

theorem absExceeds_strict (v tol : K) : Gen.absExceeds v tol = decide (tol < v) := rfl

theorem outlying_iff (h0 : Scalar.beq (Scalar.ofNat 0 : K) (Scalar.ofNat 0) = true)
    (pts : List (Pt K)) (tol : K) (o : Obs K) (bi : K) :
    outlying pts tol o bi = true ↔
      (tol < Spec.misclosure o.ty (absCtx pts o bi)) ∧ Scalar.beq bi (Scalar.ofNat 0) = false := by
  unfold outlying testAbsTerm truthy misclosure
  rw [absValue_eq_spec, absExceeds_strict]
  by_cases h : tol < Spec.misclosure o.ty (absCtx pts o bi)
  · simp [h]
  · simp only [h, decide_false, Bool.false_eq_true, if_false, false_and, iff_false]
    -- the visitor returns the literal 0, which is falsy
    simp [h0]

theorem pairUp_nil (pts : List (Pt K)) (tol : K) (os : List (Obs K)) :
    (Spec.pairUp os ([] : List K)).map (Spec.applyMark pts tol) = os := by
  induction os with
  | nil => rfl
  | cons o os ih =>
    unfold Spec.pairUp
    cases h : o.active <;> simp [Spec.applyMark, ih]

theorem markObs_eq (pts : List (Pt K)) (tol : K) (os : List (Obs K)) (v : List K) :
    (markObs pts tol os v).1 = (Spec.pairUp os v).map (Spec.applyMark pts tol) := by
  induction os generalizing v with
  | nil => rfl
  | cons o os ih =>
    unfold markObs Spec.pairUp
    cases h : o.active
    · simp [Spec.applyMark, ih]
    · cases v with
      | nil => simp [Spec.applyMark, pairUp_nil]
      | cons b v' => simp [Spec.applyMark, ih]

end abs

end Gama.Rev
