/-
  String level of `deg2gon ∘ gon2deg` (gon2deg.cpp): the characters the repaired formatter writes, for every
  `sign` mode, are accepted by the model of `deg2gon`'s scanner and denote the printed fields.
-/
import Gama.Lemmas.GeoDmsParse
import Mathlib.Tactic.Set
import Mathlib.Algebra.Order.Field.Power
import Gama.Lemmas.GeoAngles
namespace Gama.Angles
open Gama.Grammar Gama.Grammar.Rx

/-- decimal digits of a natural number, as `toString` prints them -/
def natL (n : Nat) : List Char := (toString n).toList

theorem natL_eq (n : Nat) : natL n = Nat.toDigits 10 n := by
  unfold natL; simp

theorem natL_ne_nil (n : Nat) : natL n ≠ [] := by
  rw [natL_eq]; exact Nat.toDigits_ne_nil

theorem charIsDigit_iff (c : Char) : c.isDigit = Grammar.isDigit c := by
  unfold Char.isDigit Grammar.isDigit
  simp only [Char.le_def, ge_iff_le]

theorem natL_digits (n : Nat) : ∀ c ∈ natL n, Grammar.isDigit c = true := by
  intro c hc
  rw [natL_eq] at hc
  rw [← charIsDigit_iff]
  exact Nat.isDigit_of_mem_toDigits (by decide) (by decide) hc

theorem val_natL (n : Nat) : val (natL n) = n := by
  unfold val; rw [natL_eq]; exact Nat.ofDigitChars_ten_toDigits

theorem minus_not_digit' : Grammar.isDigit '-' = false := by decide
theorem minus_not_space' : Grammar.isSpace '-' = false := by decide

/-- a digit string followed by `-`: the scanner stops there -/
theorem scan_digits_minus {D : List Char} (hD : ∀ c ∈ D, Grammar.isDigit c = true) (r : List Char) :
    (D ++ '-' :: r).takeWhile Grammar.isDigit = D ∧ (D ++ '-' :: r).dropWhile Grammar.isDigit = '-' :: r := by
  have hstop : ∀ c w, ('-' :: r) = c :: w → Grammar.isDigit c = false := by
    intro c w h; simp at h; rw [← h.1]; decide
  exact ⟨takeWhile_append_of_stop hD hstop, dropWhile_append_of_stop hD hstop⟩

/-- the parse of a string laid out as the formatters print it:
    blanks, an optional `-`, blanks, degrees, `-`, minutes, `-`, seconds -/
theorem parseDms_layout (sp1 sp2 : List Char) (neg : Bool) (dn mn : Nat) (M sec' : List Char) (c0 : Char) (p : Nat × Int)
    (h1 : ∀ c ∈ sp1, Grammar.isSpace c = true) (h2 : ∀ c ∈ sp2, Grammar.isSpace c = true)
    (hdn : dn ≤ intMax) (hM : ∀ c ∈ M, Grammar.isDigit c = true) (hMne : M ≠ []) (hMv : val M = mn) (hmn : mn ≤ intMax)
    (hc0 : Grammar.isDigit c0 = true) (hsec : ∀ c ∈ c0 :: sec', Grammar.isSpace c = false)
    (hp : readSeconds (c0 :: sec') = some (p, [])) (hf : secFits p = true) :
    parseDms (String.ofList (sp1 ++ (if neg then ['-'] else []) ++ sp2 ++ natL dn ++ '-' :: M ++ '-' :: c0 :: sec')) =
      some (neg, (dn : Int), (mn : Int), p) := by
  -- the body after sign and blanks
  obtain ⟨a, D', hD⟩ : ∃ a D', natL dn = a :: D' := by
    cases h : natL dn with
    | nil => exact absurd h (natL_ne_nil dn)
    | cons a D' => exact ⟨a, D', rfl⟩
  have hDd := natL_digits dn
  have ha : Grammar.isDigit a = true := hDd a (by rw [hD]; exact List.mem_cons_self)
  obtain ⟨m0, M', hM0⟩ : ∃ m0 M', M = m0 :: M' := by
    cases M with
    | nil => exact absurd rfl hMne
    | cons m0 M' => exact ⟨m0, M', rfl⟩
  have hm0 : Grammar.isDigit m0 = true := hM m0 (by rw [hM0]; exact List.mem_cons_self)
  set tail1 : List Char := '-' :: (M ++ '-' :: c0 :: sec') with htail1
  set X : List Char := natL dn ++ tail1 with hX
  -- everything after the leading blanks has no trailing blank
  have hXlast : ∀ (pre : List Char), dropTrailing Grammar.isSpace (pre ++ X) = pre ++ X := by
    intro pre
    unfold dropTrailing
    have : (pre ++ X).reverse = (c0 :: sec').reverse ++ (pre ++ natL dn ++ '-' :: M ++ ['-']).reverse := by
      rw [← List.reverse_append]; congr 1; simp [hX, htail1]
    rw [this]
    cases hr : (c0 :: sec').reverse with
    | nil => simp at hr
    | cons z zs =>
      have hz : Grammar.isSpace z = false := hsec z (by
        have : z ∈ (c0 :: sec').reverse := by rw [hr]; exact List.mem_cons_self
        exact List.mem_reverse.mp this)
      simp only [List.cons_append, List.dropWhile, hz]
      rw [← List.cons_append, ← hr, ← List.reverse_append]
      simp [hX, htail1]
  have hreadD : readInt (sp2 ++ X) = some ((dn : Int), tail1) := by
    rw [readInt_eq]
    have hdw : (sp2 ++ X).dropWhile Grammar.isSpace = X :=
      dropWhile_append_of_stop h2 (by intro c w h; rw [hX, hD] at h; simp at h; rw [← h.1]; exact digit_not_space ha)
    have hXc : X = a :: (D' ++ tail1) := by rw [hX, hD]; rfl
    obtain ⟨-, hsk, hsm⟩ := digit_cons_scan (t := D' ++ tail1) ha
    have hsc := scan_digits_minus hDd (M ++ '-' :: c0 :: sec')
    simp only [hdw]
    rw [hXc, hsk, hsm, ← hXc, hX, htail1, hsc.1, hsc.2, val_natL]
    simp [natL_ne_nil, hdn]
  have hreadM : readInt (M ++ '-' :: c0 :: sec') = some ((mn : Int), '-' :: c0 :: sec') := by
    rw [readInt_eq]
    have hMc : M ++ '-' :: c0 :: sec' = m0 :: (M' ++ '-' :: c0 :: sec') := by rw [hM0]; rfl
    obtain ⟨hdw, hsk, hsm⟩ := digit_cons_scan (t := M' ++ '-' :: c0 :: sec') hm0
    have hsc := scan_digits_minus hM (c0 :: sec')
    rw [hMc]
    simp only [hdw, hsk, hsm]
    rw [← hMc, hsc.1, hsc.2, hMv]
    simp [hMne, hmn]
  have hsecP : ∀ n, parseSec n (dn : Int) (mn : Int) ('-' :: c0 :: sec') = some (n, (dn : Int), (mn : Int), p) := by
    intro n
    unfold parseSec
    simp only [isDigit_eq, hc0, Bool.not_true, Bool.false_eq_true, if_false, hp, hf]
    have h1 : ¬ ((dn : Int) < 0) := by omega
    have h2 : ¬ ((mn : Int) < 0) := by omega
    simp [h1, h2]
  have hminP : ∀ n, parseMin n (dn : Int) tail1 = some (n, (dn : Int), (mn : Int), p) := by
    intro n
    rw [htail1, hM0]
    unfold parseMin
    simp only [List.cons_append, isDigit_eq, hm0, Bool.not_true, Bool.false_eq_true, if_false]
    rw [← List.cons_append, ← hM0, hreadM]
    exact hsecP n
  unfold parseDms
  simp only [String.toList_ofList]
  cases neg with
  | false =>
    have hl : sp1 ++ (if false = true then ['-'] else []) ++ sp2 ++ natL dn ++ '-' :: M ++ '-' :: c0 :: sec' = (sp1 ++ sp2) ++ X := by
      simp [hX, htail1]
    rw [hl, trimWs_eq]
    have hdw : ((sp1 ++ sp2) ++ X).dropWhile Grammar.isSpace = X :=
      dropWhile_append_of_stop (by intro c hc; rcases List.mem_append.mp hc with h | h; exact h1 c h; exact h2 c h)
        (by intro c w h; rw [hX, hD] at h; simp at h; rw [← h.1]; exact digit_not_space ha)
    rw [hdw]
    have := hXlast []
    simp only [List.nil_append] at this
    rw [this]
    have hXc : X = a :: (D' ++ tail1) := by rw [hX, hD]; rfl
    rw [hXc]
    have hane : ¬ (a = '-') := by intro h; rw [h] at ha; exact absurd ha (by decide)
    have hane2 : ¬ (a = '+') := by intro h; rw [h] at ha; exact absurd ha (by decide)
    simp only [hane, hane2, decide_false, Bool.or_self, Bool.false_eq_true, if_false, List.isEmpty_cons]
    have hr := hreadD
    have : readInt (a :: (D' ++ tail1)) = some ((dn : Int), tail1) := by
      have h0 : readInt ([] ++ X) = some ((dn : Int), tail1) := by
        rw [readInt_eq]
        have hdw0 : ([] ++ X).dropWhile Grammar.isSpace = X := by
          rw [List.nil_append, hXc]; simp [List.dropWhile, digit_not_space ha]
        obtain ⟨-, hsk, hsm⟩ := digit_cons_scan (t := D' ++ tail1) ha
        have hsc := scan_digits_minus hDd (M ++ '-' :: c0 :: sec')
        simp only [hdw0]
        rw [hXc, hsk, hsm, ← hXc, hX, htail1, hsc.1, hsc.2, val_natL]
        simp [natL_ne_nil, hdn]
      rw [← hXc]; simpa using h0
    rw [this]
    exact hminP _
  | true =>
    have hl : sp1 ++ (if true = true then ['-'] else []) ++ sp2 ++ natL dn ++ '-' :: M ++ '-' :: c0 :: sec' = sp1 ++ ('-' :: (sp2 ++ X)) := by
      simp [hX, htail1]
    rw [hl, trimWs_eq]
    have hdw : (sp1 ++ ('-' :: (sp2 ++ X))).dropWhile Grammar.isSpace = '-' :: (sp2 ++ X) :=
      dropWhile_append_of_stop h1 (by intro c w h; simp at h; rw [← h.1]; decide)
    rw [hdw]
    have := hXlast ('-' :: sp2)
    simp only [List.cons_append] at this
    rw [this]
    simp only [decide_true, Bool.true_or, if_true]
    have hne : (sp2 ++ X).isEmpty = false := by
      rw [hX, hD]; cases sp2 <;> rfl
    simp only [hne, Bool.false_eq_true, if_false, hreadD]
    exact hminP _


/-! ### what the formatter writes, as lists of characters -/

theorem padLeft_toList (c : Char) (w : Nat) (s : String) :
    (padLeft c w s).toList = List.replicate (w - s.toList.length) c ++ s.toList := by
  unfold padLeft
  simp [String.toList_append, String.length_toList]

theorem natStr_toList (n : Nat) : (toString n).toList = natL n := rfl

theorem val_zeros_append (k : Nat) (l : List Char) : val (List.replicate k '0' ++ l) = val l := by
  unfold val
  rw [Nat.ofDigitChars_append, Nat.ofDigitChars_replicate_zero]; simp

theorem zeros_digits (k : Nat) : ∀ c ∈ List.replicate k '0', Grammar.isDigit c = true := by
  intro c hc; rw [List.mem_replicate] at hc; rw [hc.2]; decide

theorem digit_no_space_all {l : List Char} (h : ∀ c ∈ l, Grammar.isDigit c = true) : ∀ c ∈ l, Grammar.isSpace c = false :=
  fun c hc => digit_not_space (h c hc)

theorem takeWhile_all_digits {l : List Char} (h : ∀ c ∈ l, Grammar.isDigit c = true) :
    l.takeWhile Grammar.isDigit = l ∧ l.dropWhile Grammar.isDigit = [] := by
  have a := takeWhile_append_of_stop (p := Grammar.isDigit) (u := l) (v := []) h (by intro c w h; simp at h)
  have b := dropWhile_append_of_stop (p := Grammar.isDigit) (u := l) (v := []) h (by intro c w h; simp at h)
  simp only [List.append_nil] at a b
  exact ⟨a, b⟩

/-- the seconds field `setw(3+prec) << setfill('0') << fixed << setprecision(prec)` of a scaled value `n`
    reads back as `n · 10^(−prec)` -/
theorem seconds_field (n prec : Nat) :
    ∃ c0 sec', (padLeft '0' (3 + prec) (renderScaled n prec)).toList = c0 :: sec' ∧ Grammar.isDigit c0 = true ∧
      (∀ c ∈ c0 :: sec', Grammar.isSpace c = false) ∧
      readSeconds (c0 :: sec') = some ((n, -(prec : Int)), []) := by
  rw [padLeft_toList]
  unfold renderScaled
  by_cases hp : prec = 0
  · subst hp
    simp only [if_true, natStr_toList]
    generalize (3 + 0 - (natL n).length) = k
    have hall : ∀ c ∈ List.replicate k '0' ++ natL n, Grammar.isDigit c = true := by
      intro c hc; rcases List.mem_append.mp hc with h | h
      · exact zeros_digits k c h
      · exact natL_digits n c h
    obtain ⟨c0, sec', hL⟩ : ∃ c0 sec', List.replicate k '0' ++ natL n = c0 :: sec' := by
      cases h : List.replicate k '0' ++ natL n with
      | nil => have := natL_ne_nil n; simp at h; exact absurd h.2 this
      | cons a b => exact ⟨a, b, rfl⟩
    refine ⟨c0, sec', hL, hall c0 (by rw [hL]; exact List.mem_cons_self), ?_, ?_⟩
    · rw [← hL]; exact digit_no_space_all hall
    · rw [← hL]
      obtain ⟨ht, hd⟩ := takeWhile_all_digits hall
      unfold readSeconds
      simp only [takeDigits_eq, ht, hd, readFrac, readExp]
      have : Nat.ofDigitChars 10 (List.replicate k '0' ++ natL n) 0 = n := by
        have := val_zeros_append k (natL n); unfold val at this; rw [this]; exact val_natL n
      simp [this]
  · simp only [hp, if_false, String.toList_append, natStr_toList, padLeft_toList]
    have hdot : ".".toList = ['.'] := rfl
    rw [hdot]
    set q := n / 10 ^ prec with hq
    set r := n % 10 ^ prec with hr
    have hrlen : (natL r).length ≤ prec := by
      have : (Nat.repr r).length ≤ prec ↔ r < 10 ^ prec := Nat.length_repr_le_iff (by omega)
      have h2 : r < 10 ^ prec := Nat.mod_lt _ (Nat.pow_pos (by decide))
      have h3 := this.mpr h2
      have h4 : (natL r).length = (Nat.repr r).length := by
        unfold natL; rw [String.length_toList]; rfl
      rw [h4]; exact h3
    set F : List Char := List.replicate (prec - (natL r).length) '0' ++ natL r with hF
    have hFlen : F.length = prec := by rw [hF]; simp; omega
    have hFd : ∀ c ∈ F, Grammar.isDigit c = true := by
      intro c hc; rcases List.mem_append.mp hc with h | h
      · exact zeros_digits _ c h
      · exact natL_digits r c h
    have hFv : val F = r := by rw [hF, val_zeros_append]; exact val_natL r
    generalize (3 + prec - (natL q ++ ['.'] ++ F).length) = k
    set I : List Char := List.replicate k '0' ++ natL q with hI
    have hId : ∀ c ∈ I, Grammar.isDigit c = true := by
      intro c hc; rcases List.mem_append.mp hc with h | h
      · exact zeros_digits _ c h
      · exact natL_digits q c h
    have hIv : val I = q := by rw [hI, val_zeros_append]; exact val_natL q
    have hL : List.replicate k '0' ++ (natL q ++ ['.'] ++ F) = I ++ '.' :: F := by simp [hI]
    rw [hL]
    obtain ⟨c0, I', hI0⟩ : ∃ c0 I', I = c0 :: I' := by
      cases h : I with
      | nil => rw [hI] at h; have := natL_ne_nil q; simp at h; exact absurd h.2 this
      | cons a b => exact ⟨a, b, rfl⟩
    refine ⟨c0, I' ++ '.' :: F, by rw [hI0]; rfl, hId c0 (by rw [hI0]; exact List.mem_cons_self), ?_, ?_⟩
    · intro c hc
      have : c ∈ I ++ '.' :: F := by rw [hI0]; exact hc
      rcases List.mem_append.mp this with h | h
      · exact digit_not_space (hId c h)
      · rcases List.mem_cons.mp h with rfl | h
        · decide
        · exact digit_not_space (hFd c h)
    · have e : c0 :: (I' ++ '.' :: F) = I ++ '.' :: F := by rw [hI0]; rfl
      rw [e]
      have hstop : ∀ c w, ('.' :: F) = c :: w → Grammar.isDigit c = false := by
        intro c w h; simp at h; rw [← h.1]; decide
      have ht := takeWhile_append_of_stop hId hstop
      have hd := dropWhile_append_of_stop hId hstop
      obtain ⟨htF, hdF⟩ := takeWhile_all_digits hFd
      unfold readSeconds
      simp only [takeDigits_eq, ht, hd, readFrac, htF, hdF, readExp, Nat.zero_add, hFlen]
      have hm : Nat.ofDigitChars 10 F (Nat.ofDigitChars 10 I 0) = n := by
        rw [Nat.ofDigitChars_eq_ofDigitChars_zero, hFlen]
        have h1 : Nat.ofDigitChars 10 I 0 = q := hIv
        have h2 : Nat.ofDigitChars 10 F 0 = r := hFv
        rw [h1, h2, hq, hr, Nat.mul_comm]; exact Nat.div_add_mod' n (10 ^ prec)
      simp [hm]

theorem intStr_toList {d : Int} (h : 0 ≤ d) : (toString d).toList = natL d.toNat := by
  cases d with
  | ofNat k => rfl
  | negSucc k => exact absurd h (by simp)

theorem spaces_all (k : Nat) : ∀ c ∈ List.replicate k ' ', Grammar.isSpace c = true := by
  intro c hc; rw [List.mem_replicate] at hc; rw [hc.2]; decide

theorem digit_ne_blank {c : Char} (h : Grammar.isDigit c = true) : c ≠ ' ' := by
  intro hc; rw [hc] at h; exact absurd h (by decide)

/-- the layout of `gon2deg`'s result for every `sign` mode: blanks, `-` when a sign is requested and the angle is
    negative, blanks, then the three fields -/
theorem renderGon_layout (p : Printed) (sign : Int) (hd : 0 ≤ p.d) (hn : 0 ≤ p.n) (hz : p.secNegZero = false) :
    ∃ sp1 sp2 : List Char, (∀ c ∈ sp1, Grammar.isSpace c = true) ∧ (∀ c ∈ sp2, Grammar.isSpace c = true) ∧
      (p.renderGon sign).toList =
        sp1 ++ (if decide (p.neg = true ∧ (sign = 1 ∨ sign = 2 ∨ sign = 3)) = true then ['-'] else []) ++ sp2 ++ natL p.d.toNat ++
          '-' :: (padLeft '0' 2 (toString p.m)).toList ++
          '-' :: (padLeft '0' (3 + p.prec) (renderScaled p.n.toNat p.prec)).toList := by
  have hsec : p.seconds = padLeft '0' (3 + p.prec) (renderScaled p.n.toNat p.prec) := by
    unfold Printed.seconds
    have : ¬ (p.n < 0 ∨ p.secNegZero = true) := by rw [hz]; simp; omega
    rw [if_neg this]
  have hdash : "-".toList = ['-'] := rfl
  have hsp : " ".toList = [' '] := rfl
  have hemp : "".toList = [] := rfl
  generalize hM : (padLeft '0' 2 (toString p.m)).toList = M
  generalize hS : (padLeft '0' (3 + p.prec) (renderScaled p.n.toNat p.prec)).toList = S
  have hD := intStr_toList hd
  generalize hDn : natL p.d.toNat = D at hD
  have hD' : p.d.repr.toList = D := hD
  have hM' : (padLeft '0' 2 p.m.repr).toList = M := hM
  have hDd : ∀ c ∈ D, Grammar.isDigit c = true := by rw [← hDn]; exact natL_digits _
  have hDne : D ≠ [] := by rw [← hDn]; exact natL_ne_nil _
  unfold Printed.renderGon
  by_cases h3 : sign = 3
  · subst h3
    simp only [show ¬ ((3 : Int) = 1 ∨ (3 : Int) = 2) by decide, if_false, if_true, hsec]
    have hne1 : ¬ ((3 : Int) = 1) := by decide
    have hne2 : ¬ ((3 : Int) = 2) := by decide
    simp only [hne1, hne2, if_false, ite_self]
    refine ⟨[], [], by simp, by simp, ?_⟩
    cases hneg : p.neg <;>
      simp [String.toList_append, hdash, hemp, hM', hS, hD']
  · by_cases h1 : sign = 1
    · subst h1
      simp only [show ((1 : Int) = 1 ∨ (1 : Int) = 2) by decide, if_true, h3, if_false, hsec]
      cases hneg : p.neg
      · refine ⟨' ' :: List.replicate (3 - D.length) ' ', [], ?_, by simp, ?_⟩
        · intro c hc; rcases List.mem_cons.mp hc with rfl | hc
          · decide
          · exact spaces_all _ c hc
        · simp [String.toList_append, hdash, hsp, hM', hS, hD', padLeft_toList]
      · refine ⟨[], List.replicate (3 - D.length) ' ', by simp, spaces_all _, ?_⟩
        simp [setChar, String.toList_append, hdash, hsp, hM', hS, hD', padLeft_toList]
    · by_cases h2 : sign = 2
      · subst h2
        simp only [show ((2 : Int) = 1 ∨ (2 : Int) = 2) by decide, if_true, h3, h1, if_false, hsec]
        cases hneg : p.neg
        · refine ⟨' ' :: List.replicate (3 - D.length) ' ', [], ?_, by simp, ?_⟩
          · intro c hc; rcases List.mem_cons.mp hc with rfl | hc
            · decide
            · exact spaces_all _ c hc
          · simp [String.toList_append, hdash, hsp, hM', hS, hD', padLeft_toList]
        · -- the sign goes right in front of the digits
          simp only [if_true]
          cases D with
          | nil => exact absurd rfl hDne
          | cons a D1 =>
            have ha := digit_ne_blank (hDd a List.mem_cons_self)
            cases D1 with
            | nil =>
              refine ⟨[' ', ' '], [], by decide, by simp, ?_⟩
              simp [setChar, charAt, String.toList_append, hdash, hsp, hM', hS, hD', padLeft_toList, List.replicate]
            | cons b D2 =>
              have hb := digit_ne_blank (hDd b (by simp))
              cases D2 with
              | nil =>
                refine ⟨[' '], [], by decide, by simp, ?_⟩
                simp [setChar, charAt, String.toList_append, hdash, hsp, hM', hS, hD', padLeft_toList, List.replicate, ha]
              | cons c D3 =>
                refine ⟨[], [], by simp, by simp, ?_⟩
                simp [setChar, charAt, String.toList_append, hdash, hsp, hM', hS, hD', padLeft_toList, ha, hb]
      · have hno : ¬ (sign = 1 ∨ sign = 2) := fun h => h.elim h1 h2
        have hno3 : ¬ (sign = 1 ∨ sign = 2 ∨ sign = 3) := fun h => h.elim h1 (fun h => h.elim h2 h3)
        simp only [hno, h1, h2, h3, if_false, hsec, ite_self, hno3, and_false, decide_false, Bool.false_eq_true]
        refine ⟨List.replicate (3 - D.length) ' ', [], spaces_all _, by simp, ?_⟩
        simp [String.toList_append, hdash, hemp, hM', hS, hD', padLeft_toList]

/-! ### the round trip on strings -/

theorem toPrinted_extra (neg : Bool) (d m : ℤ) (s : ℚ) (prec : ℕ) :
    (toPrinted true neg d m s prec false).secNegZero = false ∧ (toPrinted true neg d m s prec false).d ≤ d + 1 := by
  rw [toPrinted_carry_shape]
  split_ifs <;> simp

set_option exponentiation.threshold 2000 in
theorem dblOverflow_ge : 60 ≤ dblOverflow := by
  unfold dblOverflow; decide

theorem sciToK_rat (n prec : ℕ) : (sciToK (n, -(prec : ℤ)) : ℚ) = (n : ℚ) / (10 : ℚ) ^ prec := by
  unfold sciToK
  by_cases hp : prec = 0
  · subst hp
    simp only [Int.natCast_zero, neg_zero, lt_self_iff_false, if_false, Int.natAbs_zero, pow_zero, div_one]
    show Rat.ofScientific n false 0 = n
    rw [Rat.ofScientific_false_def]; simp
  · have : (-(prec : ℤ)) < 0 := by omega
    simp only [this, if_true, Int.natAbs_neg, Int.natAbs_natCast]
    show Rat.ofScientific n true prec = _
    rw [Rat.ofScientific_true_def, Rat.mkRat_eq_div]; push_cast; rfl

/-- `deg2gon (gon2deg g sign prec)` on STRINGS (repaired formatter): the printed text is accepted and reads back within
    half a unit of the printed precision — of `g` when a sign is printed (`sign` 1, 2, 3), of `|g|` otherwise.
    Includes seconds that round up to 60 (carried into minutes and degrees) and every `sign` mode.
    `|g|·0.9 < 2³¹−1`: beyond, `int(gon)` in the C++ is undefined. -/
theorem deg2gon_gon2deg_string (g : ℚ) (sign : ℤ) (prec : ℕ) (hg : |g| * (9 / 10) < 2147483647) :
    ∃ (str : String) (v : ℚ), gon2degWith true true g sign prec = some str ∧ (deg2gon str : Option ℚ) = some v ∧
      |v - (if sign = 1 ∨ sign = 2 ∨ sign = 3 then g else |g|)| ≤ (1 / 2) / (10 : ℚ) ^ prec / 3600 / (9 / 10) := by
  set f := gonFields true g with hf
  set p := toPrinted true f.neg f.d f.m f.s prec false with hp
  have hx : 0 ≤ |g| * (9 / 10 : ℚ) := by positivity
  have hfe : f = splitDeg (decide (g < 0)) (|g| * (9 / 10)) := gonFields_eq true g
  obtain ⟨hneg, hdfl, hd0, hm0, hm60, hs0, hs60, hval⟩ := splitDeg_spec (decide (g < 0)) hx
  rw [← hfe] at hneg hdfl hd0 hm0 hm60 hs0 hs60 hval
  obtain ⟨pd0, pm0, pm60, pn0, pn60, pprec, pneg⟩ := toPrinted_carry_range f.neg f.d f.m f.s prec false hd0 hm0 hm60 hs0 hs60
  obtain ⟨psz, pdle⟩ := toPrinted_extra f.neg f.d f.m f.s prec
  rw [← hp] at pd0 pm0 pm60 pn0 pn60 pprec pneg psz pdle
  -- degrees fit `int`
  have hdmax : f.d ≤ 2147483646 := by
    rw [hdfl]
    have : (|g| * (9 / 10)).floor < 2147483647 := Rat.floor_lt_iff.mpr (by exact_mod_cast hg)
    omega
  have hpd : p.d.toNat ≤ intMax := by unfold intMax; omega
  -- layout and parse
  obtain ⟨sp1, sp2, h1, h2, hlay⟩ := renderGon_layout p sign pd0 pn0 psz
  obtain ⟨c0, sec', hsecL, hc0, hsecsp, hread⟩ := seconds_field p.n.toNat p.prec
  have hMl : (padLeft '0' 2 (toString p.m)).toList = List.replicate (2 - (natL p.m.toNat).length) '0' ++ natL p.m.toNat := by
    rw [padLeft_toList, intStr_toList pm0]
  have hMd : ∀ c ∈ List.replicate (2 - (natL p.m.toNat).length) '0' ++ natL p.m.toNat, Grammar.isDigit c = true := by
    intro c hc; rcases List.mem_append.mp hc with h | h
    · exact zeros_digits _ c h
    · exact natL_digits _ c h
  have hMne : List.replicate (2 - (natL p.m.toNat).length) '0' ++ natL p.m.toNat ≠ [] := by
    have := natL_ne_nil p.m.toNat; simp [this]
  have hMv : val (List.replicate (2 - (natL p.m.toNat).length) '0' ++ natL p.m.toNat) = p.m.toNat := by
    rw [val_zeros_append, val_natL]
  have hfit : secFits (p.n.toNat, -(p.prec : ℤ)) = true := by
    unfold secFits
    cases hpz : p.prec with
    | zero =>
      simp only [Int.natCast_zero, neg_zero]
      show ((p.n.toNat == 0) || (decide (0 ≤ 309) && decide (p.n.toNat * 10 ^ 0 < dblOverflow))) = true
      have : p.n.toNat < dblOverflow := by
        have : p.n < 60 := by rw [pprec] at hpz; rw [hpz] at pn60; simpa using pn60
        have := dblOverflow_ge; omega
      simp [this]
    | succ k =>
      show (decide (p.n.toNat.log2 ≤ k) || decide (p.n.toNat < dblOverflow * 10 ^ (k + 1))) = true
      have h10 : (10 : ℤ) ^ (k + 1) = ((10 ^ (k + 1) : ℕ) : ℤ) := by push_cast; rfl
      have : p.n.toNat < dblOverflow * 10 ^ (k + 1) := by
        have h60 : p.n < 60 * (10 : ℤ) ^ (k + 1) := by rw [pprec] at hpz; rw [hpz] at pn60; exact pn60
        have : p.n.toNat < 60 * 10 ^ (k + 1) := by
          have : (p.n.toNat : ℤ) < ((60 * 10 ^ (k + 1) : ℕ) : ℤ) := by
            rw [Int.toNat_of_nonneg pn0]; push_cast; exact h60
          exact_mod_cast this
        calc p.n.toNat < 60 * 10 ^ (k + 1) := this
          _ ≤ dblOverflow * 10 ^ (k + 1) := Nat.mul_le_mul_right _ dblOverflow_ge
      simp [this]
  have hparse := parseDms_layout sp1 sp2 (decide (p.neg = true ∧ (sign = 1 ∨ sign = 2 ∨ sign = 3))) p.d.toNat p.m.toNat _ sec' c0
    (p.n.toNat, -(p.prec : ℤ)) h1 h2 hpd hMd hMne hMv (by unfold intMax; omega) hc0 hsecsp hread hfit
  have hstr : String.ofList (p.renderGon sign).toList = p.renderGon sign := String.ofList_toList
  rw [hMl, hsecL] at hlay
  rw [← hlay, hstr] at hparse
  have hdeg : (deg2gon (p.renderGon sign) : Option ℚ) =
      some ((fun G : ℚ => if (!(Scalar.beq G 0) && decide (p.neg = true ∧ (sign = 1 ∨ sign = 2 ∨ sign = 3))) = true then -G else G)
        (((Scalar.ofInt (p.d.toNat : ℤ) : ℚ) / Scalar.ofNat 360 + Scalar.ofInt (p.m.toNat : ℤ) / Scalar.ofNat 21600
          + sciToK (p.n.toNat, -(p.prec : ℤ)) / Scalar.ofNat 1296000) * Scalar.ofNat 400)) := by
    unfold deg2gon
    rw [hparse]
    rfl
  refine ⟨p.renderGon sign, _, gon2degWith_rat true true g sign prec, hdeg, ?_⟩
  · -- the value
    have hb := (show abs (p.gon - abs g) ≤ (1 / 2) / (10 : ℚ) ^ prec / 3600 / (9 / 10) from by
      have h := toPrinted_close true f.neg f.d f.m f.s prec false hs60
      rw [← hval] at h
      rw [Printed.gon_eq]
      have e : p.degrees / (9 / 10) - |g| = (p.degrees - |g| * (9 / 10)) / (9 / 10) := by field_simp
      rw [e, abs_div, abs_of_pos (by norm_num : (0 : ℚ) < 9 / 10)]
      gcongr)
    have hgon : ((Scalar.ofInt (p.d.toNat : ℤ) : ℚ) / Scalar.ofNat 360 + Scalar.ofInt (p.m.toNat : ℤ) / Scalar.ofNat 21600
        + sciToK (p.n.toNat, -(p.prec : ℤ)) / Scalar.ofNat 1296000) * Scalar.ofNat 400 = p.gon := by
      rw [sciToK_rat, ofInt_rat, ofInt_rat, ofNat_rat, ofNat_rat, ofNat_rat, ofNat_rat]
      unfold Printed.gon
      have e1 : ((p.d.toNat : ℤ) : ℚ) = (p.d : ℚ) := by rw [Int.toNat_of_nonneg pd0]
      have e2 : ((p.m.toNat : ℤ) : ℚ) = (p.m : ℚ) := by rw [Int.toNat_of_nonneg pm0]
      have e3 : ((p.n.toNat : ℕ) : ℚ) = (p.n : ℚ) := by
        have : ((p.n.toNat : ℤ) : ℚ) = (p.n : ℚ) := by rw [Int.toNat_of_nonneg pn0]
        exact_mod_cast this
      rw [e1, e2, e3]; norm_num
    simp only [hgon]
    by_cases hs : sign = 1 ∨ sign = 2 ∨ sign = 3
    · simp only [hs, and_true, if_true]
      by_cases hn : p.neg = true
      · have hg0 : g < 0 := by
          have : f.neg = true := by rw [← pneg]; exact hn
          rw [hneg] at this; simpa using this
        simp only [hn, decide_true, Bool.and_true]
        by_cases hz : p.gon = 0
        · have : (Scalar.beq p.gon (0 : ℚ)) = true := by rw [hz]; rfl
          simp only [this, Bool.not_true, Bool.false_eq_true, if_false]
          rw [hz] at hb ⊢
          rw [abs_of_neg hg0] at hb
          rw [abs_sub_comm]; simpa using hb
        · have : (Scalar.beq p.gon (0 : ℚ)) = false := by
            show (p.gon == 0) = false
            simpa using hz
          simp only [this, Bool.not_false, if_true]
          rw [abs_of_neg hg0] at hb
          have : -p.gon - g = -(p.gon - -g) := by ring
          rw [this, abs_neg]; exact hb
      · have hn' : p.neg = false := by simpa using hn
        have hg0 : 0 ≤ g := by
          have : f.neg = false := by rw [← pneg]; exact hn'
          rw [hneg] at this; simpa using this
        simp only [hn', Bool.false_eq_true, decide_false, Bool.and_false, if_false]
        rw [abs_of_nonneg hg0] at hb; exact hb
    · simp only [hs, and_false, decide_false, Bool.and_false, Bool.false_eq_true, if_false]
      exact hb

/-! ### the overflow test of `istream >> double` -/

set_option exponentiation.threshold 2000 in
theorem dblOverflow_lt : dblOverflow < 10 ^ 310 := by unfold dblOverflow; decide

set_option exponentiation.threshold 2000 in
/-- what `secFits` decides: the decimal `mantissa · 10^exp` lies below `DBL_MAX` + ½ulp = 2¹⁰²⁴ − 2⁹⁷⁰
    (the guards in its definition only avoid large powers of ten) -/
theorem secFits_iff (p : ℕ × ℤ) : secFits p = true ↔ (p.1 : ℚ) * (10 : ℚ) ^ p.2 < (dblOverflow : ℚ) := by
  obtain ⟨m, x⟩ := p
  have hL : 60 ≤ dblOverflow := dblOverflow_ge
  unfold secFits
  cases x with
  | ofNat e =>
    simp only [Bool.or_eq_true, beq_iff_eq, Bool.and_eq_true, decide_eq_true_eq, Int.ofNat_eq_natCast, zpow_natCast]
    have hc : ((m : ℚ) * (10 : ℚ) ^ e < (dblOverflow : ℚ)) ↔ m * 10 ^ e < dblOverflow := by
      rw [← Nat.cast_lt (α := ℚ)]; push_cast; rfl
    rw [hc]
    constructor
    · rintro (h | ⟨-, h⟩)
      · subst h; simp; omega
      · exact h
    · intro h
      by_cases hm : m = 0
      · exact Or.inl hm
      · refine Or.inr ⟨?_, h⟩
        by_contra hc
        have he : 310 ≤ e := by omega
        have h1 : 10 ^ 310 ≤ 10 ^ e := Nat.pow_le_pow_right (by norm_num) he
        have h2 : 10 ^ e ≤ m * 10 ^ e := Nat.le_mul_of_pos_left _ (Nat.pos_of_ne_zero hm)
        have := dblOverflow_lt
        omega
  | negSucc k =>
    simp only [Bool.or_eq_true, decide_eq_true_eq, zpow_negSucc]
    have h10 : (0 : ℚ) < (10 : ℚ) ^ (k + 1) := by positivity
    have hc : ((m : ℚ) * ((10 : ℚ) ^ (k + 1))⁻¹ < (dblOverflow : ℚ)) ↔ m < dblOverflow * 10 ^ (k + 1) := by
      rw [← div_eq_mul_inv, div_lt_iff₀ h10, ← Nat.cast_lt (α := ℚ)]; push_cast; rfl
    rw [hc]
    constructor
    · rintro (h | h)
      · have h1 : m < 2 ^ (m.log2 + 1) := Nat.lt_log2_self
        have h2 : 2 ^ (m.log2 + 1) ≤ 2 ^ (k + 1) := Nat.pow_le_pow_right (by norm_num) (by omega)
        have h3 : 2 ^ (k + 1) ≤ 10 ^ (k + 1) := Nat.pow_le_pow_left (by norm_num) _
        have h4 : 10 ^ (k + 1) ≤ dblOverflow * 10 ^ (k + 1) := Nat.le_mul_of_pos_left _ (by omega)
        omega
      · exact h
    · intro h; exact Or.inr h


end Gama.Angles
