/-
  The language of the regular expressions of Gama/Model/GeoGrammar.lean, correctness of the
  derivative matcher, and the "peeling" lemmas that relate a maximal-munch scanner
  (`takeWhile`/`dropWhile`, optional character) to the language, used for `IsInteger`,
  `IsFloat` (Gama/Lemmas/GeoLiterals2.lean) and `deg2gon` (Gama/Lemmas/GeoDmsParse.lean).
-/
import Gama.Model.GeoGrammar
namespace Gama.Grammar
namespace Rx

/-- the language denoted by an expression -/
def Lang : Rx → List Char → Prop
  | empty, _ => False
  | eps, s => s = []
  | cls p, s => ∃ c, s = [c] ∧ p c = true
  | many p, s => ∀ c ∈ s, p c = true
  | alt a b, s => a.Lang s ∨ b.Lang s
  | seq a b, s => ∃ u v, s = u ++ v ∧ a.Lang u ∧ b.Lang v

theorem nullable_iff (r : Rx) : r.nullable = true ↔ r.Lang [] := by
  induction r with
  | empty => simp [nullable, Lang]
  | eps => simp [nullable, Lang]
  | cls p =>
    simp only [nullable, Lang]
    constructor
    · intro h; exact absurd h (by simp)
    · rintro ⟨c, h, -⟩; exact absurd h (by simp)
  | many p =>
    simp only [nullable, Lang]
    exact ⟨fun _ c hc => absurd hc (by simp), fun _ => trivial⟩
  | alt a b iha ihb => simp only [nullable, Lang, Bool.or_eq_true, iha, ihb]
  | seq a b iha ihb =>
    simp only [nullable, Lang, Bool.and_eq_true, iha, ihb]
    constructor
    · rintro ⟨h1, h2⟩; exact ⟨[], [], rfl, h1, h2⟩
    · rintro ⟨u, v, h, h1, h2⟩
      obtain ⟨hu, hv⟩ := List.append_eq_nil_iff.mp h.symm
      subst hu; subst hv; exact ⟨h1, h2⟩

theorem deriv_iff (r : Rx) (c : Char) (s : List Char) : (r.deriv c).Lang s ↔ r.Lang (c :: s) := by
  induction r generalizing s with
  | empty => simp [deriv, Lang]
  | eps => simp [deriv, Lang]
  | cls p =>
    simp only [deriv, Lang]
    by_cases h : p c = true
    · simp only [h, if_true, Lang]
      constructor
      · rintro rfl; exact ⟨c, rfl, h⟩
      · rintro ⟨c', h1, _⟩; simp at h1; exact h1.2
    · have h' : p c = false := by simpa using h
      simp only [h', Bool.false_eq_true, if_false, Lang]
      constructor
      · intro hf; exact hf.elim
      · rintro ⟨c', h1, h2⟩
        simp at h1
        rw [← h1.1] at h2; exact absurd h2 h
  | many p =>
    simp only [deriv, Lang]
    by_cases h : p c = true
    · simp only [h, if_true, Lang, List.mem_cons]
      constructor
      · intro hs x hx; rcases hx with rfl | hx
        · exact h
        · exact hs x hx
      · intro hs x hx; exact hs x (Or.inr hx)
    · have h' : p c = false := by simpa using h
      simp only [h', Bool.false_eq_true, if_false, Lang, List.mem_cons]
      constructor
      · intro hf; exact hf.elim
      · intro hs; exact absurd (hs c (Or.inl rfl)) h
  | alt a b iha ihb => simp only [deriv, Lang, iha, ihb]
  | seq a b iha ihb =>
    have key : (∃ u v, c :: s = u ++ v ∧ a.Lang u ∧ b.Lang v) ↔
        ((∃ u' v, s = u' ++ v ∧ a.Lang (c :: u') ∧ b.Lang v) ∨ (a.Lang [] ∧ b.Lang (c :: s))) := by
      constructor
      · rintro ⟨u, v, h, h1, h2⟩
        cases u with
        | nil => right; simp at h; subst h; exact ⟨h1, h2⟩
        | cons x u' =>
          simp at h; obtain ⟨rfl, rfl⟩ := h
          left; exact ⟨u', v, rfl, h1, h2⟩
      · rintro (⟨u', v, rfl, h1, h2⟩ | ⟨h1, h2⟩)
        · exact ⟨c :: u', v, rfl, h1, h2⟩
        · exact ⟨[], c :: s, rfl, h1, h2⟩
    simp only [deriv]
    by_cases hn : a.nullable = true
    · simp only [hn, if_true, Lang]
      rw [key, ← nullable_iff a]
      simp only [hn, true_and, ihb, iha]
    · have hn' : a.nullable = false := by simpa using hn
      simp only [hn', Bool.false_eq_true, if_false, Lang]
      rw [key, ← nullable_iff a]
      simp only [hn', Bool.false_eq_true, false_and, or_false, iha]

/-- the derivative matcher decides the language -/
theorem accepts_iff (r : Rx) (s : List Char) : r.accepts s = true ↔ r.Lang s := by
  induction s generalizing r with
  | nil => simp [Rx.accepts, nullable_iff]
  | cons c cs ih => simp only [Rx.accepts]; rw [ih, deriv_iff]

/-! ### first and last characters (over-approximation) -/

def starts : Rx → Char → Prop
  | empty, _ => False
  | eps, _ => False
  | cls p, c => p c = true
  | many p, c => p c = true
  | alt a b, c => a.starts c ∨ b.starts c
  | seq a b, c => a.starts c ∨ (a.nullable = true ∧ b.starts c)

def lasts : Rx → Char → Prop
  | empty, _ => False
  | eps, _ => False
  | cls p, c => p c = true
  | many p, c => p c = true
  | alt a b, c => a.lasts c ∨ b.lasts c
  | seq a b, c => b.lasts c ∨ (b.nullable = true ∧ a.lasts c)

theorem starts_of_lang (r : Rx) {c : Char} {w : List Char} (h : r.Lang (c :: w)) : r.starts c := by
  induction r generalizing w with
  | empty => exact h
  | eps => simp [Lang] at h
  | cls p => obtain ⟨c', h1, h2⟩ := h; simp at h1; rw [h1.1]; exact h2
  | many p => exact h c List.mem_cons_self
  | alt a b iha ihb =>
    rcases h with h | h
    · exact Or.inl (iha h)
    · exact Or.inr (ihb h)
  | seq a b iha ihb =>
    obtain ⟨u, v, h0, h1, h2⟩ := h
    cases u with
    | nil =>
      simp at h0; subst h0
      exact Or.inr ⟨(nullable_iff a).mpr h1, ihb h2⟩
    | cons x u' =>
      simp at h0; obtain ⟨rfl, -⟩ := h0
      exact Or.inl (iha h1)

theorem lasts_of_lang (r : Rx) {c : Char} {w : List Char} (h : r.Lang (w ++ [c])) : r.lasts c := by
  induction r generalizing w with
  | empty => exact h
  | eps => simp [Lang] at h
  | cls p =>
    obtain ⟨c', h1, h2⟩ := h
    have : w = [] ∧ c = c' := by
      cases w with
      | nil => simp at h1; exact ⟨rfl, h1⟩
      | cons x t => simp at h1
    rw [this.2]; exact h2
  | many p => exact h c (by simp)
  | alt a b iha ihb =>
    rcases h with h | h
    · exact Or.inl (iha h)
    · exact Or.inr (ihb h)
  | seq a b iha ihb =>
    obtain ⟨u, v, h0, h1, h2⟩ := h
    rcases List.eq_nil_or_concat v with rfl | ⟨v', x, rfl⟩
    · simp at h0; subst h0
      exact Or.inr ⟨(nullable_iff b).mpr h2, iha h1⟩
    · rw [List.concat_eq_append, ← List.append_assoc] at h0
      have := List.append_inj' h0 (by simp)
      simp at this
      obtain ⟨-, rfl⟩ := this
      rw [List.concat_eq_append] at h2
      exact Or.inl (ihb h2)

/-! ### list facts about maximal munch -/

theorem dropWhile_append_of_stop {p : Char → Bool} {u v : List Char} (hu : ∀ c ∈ u, p c = true)
    (hv : ∀ c w, v = c :: w → p c = false) : (u ++ v).dropWhile p = v := by
  induction u with
  | nil =>
    cases v with
    | nil => rfl
    | cons c w => simp [List.dropWhile, hv c w rfl]
  | cons a t ih =>
    simp only [List.cons_append, List.dropWhile, hu a List.mem_cons_self]
    exact ih (fun c hc => hu c (List.mem_cons_of_mem _ hc))

theorem takeWhile_append_of_stop {p : Char → Bool} {u v : List Char} (hu : ∀ c ∈ u, p c = true)
    (hv : ∀ c w, v = c :: w → p c = false) : (u ++ v).takeWhile p = u := by
  induction u with
  | nil =>
    cases v with
    | nil => rfl
    | cons c w => simp [List.takeWhile, hv c w rfl]
  | cons a t ih =>
    simp only [List.cons_append, List.takeWhile, hu a List.mem_cons_self]
    rw [ih (fun c hc => hu c (List.mem_cons_of_mem _ hc))]

theorem takeWhile_all (p : Char → Bool) (l : List Char) : ∀ c ∈ l.takeWhile p, p c = true := by
  induction l with
  | nil => intro c hc; simp at hc
  | cons a t ih =>
    intro c hc
    by_cases ha : p a = true
    · simp only [List.takeWhile, ha, List.mem_cons] at hc
      rcases hc with rfl | hc
      · exact ha
      · exact ih c hc
    · have ha' : p a = false := by simpa using ha
      simp [List.takeWhile, ha'] at hc

theorem dropWhile_stop (p : Char → Bool) (l : List Char) : ∀ c w, l.dropWhile p = c :: w → p c = false := by
  induction l with
  | nil => intro c w h; simp at h
  | cons a t ih =>
    intro c w h
    by_cases ha : p a = true
    · simp only [List.dropWhile, ha] at h; exact ih c w h
    · have ha' : p a = false := by simpa using ha
      simp only [List.dropWhile, ha'] at h
      simp at h; rw [← h.1]; exact ha'

/-- optional single character of class `q` -/
def skip (q : Char → Bool) : List Char → List Char
  | c :: t => if q c then t else c :: t
  | [] => []

/-- strip trailing characters of class `p` -/
def dropTrailing (p : Char → Bool) (l : List Char) : List Char := (l.reverse.dropWhile p).reverse

/-! ### peeling lemmas -/

theorem seq_eps (r : Rx) (l : List Char) : (seq eps r).Lang l ↔ r.Lang l := by
  simp only [Lang]
  constructor
  · rintro ⟨u, v, rfl, rfl, h⟩; simpa using h
  · intro h; exact ⟨[], l, rfl, rfl, h⟩

theorem seq_assoc (a b r : Rx) (l : List Char) : (seq (seq a b) r).Lang l ↔ (seq a (seq b r)).Lang l := by
  simp only [Lang]
  constructor
  · rintro ⟨_, v, rfl, ⟨u1, u2, rfl, h1, h2⟩, h3⟩
    exact ⟨u1, u2 ++ v, by simp, h1, u2, v, rfl, h2, h3⟩
  · rintro ⟨u1, _, rfl, h1, u2, v, rfl, h2, h3⟩
    exact ⟨u1 ++ u2, v, by simp, ⟨u1, u2, rfl, h1, h2⟩, h3⟩

theorem seq_alt (a b r : Rx) (l : List Char) : (seq (alt a b) r).Lang l ↔ (seq a r).Lang l ∨ (seq b r).Lang l := by
  simp only [Lang]
  constructor
  · rintro ⟨u, v, rfl, h1 | h1, h2⟩
    · exact Or.inl ⟨u, v, rfl, h1, h2⟩
    · exact Or.inr ⟨u, v, rfl, h1, h2⟩
  · rintro (⟨u, v, rfl, h1, h2⟩ | ⟨u, v, rfl, h1, h2⟩)
    · exact ⟨u, v, rfl, Or.inl h1, h2⟩
    · exact ⟨u, v, rfl, Or.inr h1, h2⟩

/-- a single character of a class, then `r` -/
theorem seq_cls (q : Char → Bool) (r : Rx) (l : List Char) :
    (seq (cls q) r).Lang l ↔ ∃ c t, l = c :: t ∧ q c = true ∧ r.Lang t := by
  simp only [Lang]
  constructor
  · rintro ⟨_, v, rfl, ⟨c, rfl, hc⟩, h⟩; exact ⟨c, v, rfl, hc, h⟩
  · rintro ⟨c, t, rfl, hc, h⟩; exact ⟨[c], t, rfl, ⟨c, rfl, hc⟩, h⟩

theorem seq_cls_cons (q : Char → Bool) (r : Rx) (c : Char) (t : List Char) :
    (seq (cls q) r).Lang (c :: t) ↔ q c = true ∧ r.Lang t := by
  rw [seq_cls]
  constructor
  · rintro ⟨c', t', h, hc, hr⟩; simp at h; obtain ⟨rfl, rfl⟩ := h; exact ⟨hc, hr⟩
  · rintro ⟨hc, hr⟩; exact ⟨c, t, rfl, hc, hr⟩

theorem seq_cls_nil (q : Char → Bool) (r : Rx) : ¬ (seq (cls q) r).Lang [] := by
  rw [seq_cls]; rintro ⟨c, t, h, -⟩; simp at h

/-- maximal munch is complete when what follows cannot start with the class -/
theorem seq_many (p : Char → Bool) (r : Rx) (hr : ∀ c, r.starts c → p c = false) (l : List Char) :
    (seq (many p) r).Lang l ↔ r.Lang (l.dropWhile p) := by
  simp only [Lang]
  constructor
  · rintro ⟨u, v, rfl, hu, hv⟩
    rw [dropWhile_append_of_stop hu]
    · exact hv
    · intro c w hcw; subst hcw; exact hr c (starts_of_lang r hv)
  · intro h
    exact ⟨l.takeWhile p, l.dropWhile p, (List.takeWhile_append_dropWhile).symm, takeWhile_all p l, h⟩

/-- the same at the end of the input -/
theorem many_seq_end (p : Char → Bool) (r : Rx) (hr : ∀ c, r.lasts c → p c = false) (l : List Char) :
    (seq r (many p)).Lang l ↔ r.Lang (dropTrailing p l) := by
  simp only [Lang, dropTrailing]
  constructor
  · rintro ⟨u, v, rfl, hu, hv⟩
    rw [List.reverse_append, dropWhile_append_of_stop (fun c hc => hv c (List.mem_reverse.mp hc))]
    · simpa using hu
    · intro c w hcw
      have : u = w.reverse ++ [c] := by
        have := congrArg List.reverse hcw; simpa using this
      subst this
      exact hr c (lasts_of_lang r hu)
  · intro h
    refine ⟨_, (l.reverse.takeWhile p).reverse, ?_, h, ?_⟩
    · rw [← List.reverse_append, List.takeWhile_append_dropWhile, List.reverse_reverse]
    · intro c hc; exact takeWhile_all p _ c (List.mem_reverse.mp hc)

/-- optional character -/
theorem seq_opt_cls (q : Char → Bool) (r : Rx) (hr : ∀ c, r.starts c → q c = false) (l : List Char) :
    (seq (opt (cls q)) r).Lang l ↔ r.Lang (skip q l) := by
  unfold opt
  rw [seq_alt, seq_eps, seq_cls]
  cases l with
  | nil => simp [skip]
  | cons c t =>
    by_cases hq : q c = true
    · simp only [skip, hq, if_true]
      constructor
      · rintro (h | ⟨c', t', h, -, h2⟩)
        · exact absurd hq (by rw [hr c (starts_of_lang r h)]; simp)
        · simp at h; obtain ⟨rfl, rfl⟩ := h; exact h2
      · intro h; exact Or.inr ⟨c, t, rfl, hq, h⟩
    · simp only [skip, hq]
      constructor
      · rintro (h | ⟨c', t', h, h1, -⟩)
        · simpa using h
        · simp at h; obtain ⟨rfl, rfl⟩ := h; exact absurd h1 hq
      · intro h; left; simpa using h

/-- optional group introduced by a character of class `q` -/
theorem seq_opt_group (q : Char → Bool) (g r : Rx) (hr : ∀ c, r.starts c → q c = false) (l : List Char) :
    (seq (opt (seq (cls q) g)) r).Lang l ↔
      match l with
      | c :: t => if q c = true then (seq g r).Lang t else r.Lang (c :: t)
      | [] => r.Lang [] := by
  unfold opt
  rw [seq_alt, seq_eps, seq_assoc, seq_cls]
  cases l with
  | nil => simp
  | cons c t =>
    simp only
    by_cases hq : q c = true
    · simp only [hq, if_true]
      constructor
      · rintro (h | ⟨c', t', h, -, h2⟩)
        · exact absurd hq (by rw [hr c (starts_of_lang r h)]; simp)
        · simp at h; obtain ⟨rfl, rfl⟩ := h; exact h2
      · intro h; exact Or.inr ⟨c, t, rfl, hq, h⟩
    · simp only [hq]
      constructor
      · rintro (h | ⟨c', t', h, h1, -⟩)
        · simpa using h
        · simp at h; obtain ⟨rfl, rfl⟩ := h; exact absurd h1 hq
      · intro h; left; simpa using h

theorem opt_lang (r : Rx) (l : List Char) : (opt r).Lang l ↔ l = [] ∨ r.Lang l := by
  simp [opt, Lang]

theorem digits1_lang (l : List Char) : digits1.Lang l ↔ l ≠ [] ∧ ∀ c ∈ l, isDigit c = true := by
  unfold digits1
  rw [seq_cls]
  constructor
  · rintro ⟨c, t, rfl, hc, ht⟩
    refine ⟨by simp, ?_⟩
    intro x hx; rcases List.mem_cons.mp hx with rfl | hx
    · exact hc
    · exact ht x hx
  · rintro ⟨hne, hall⟩
    cases l with
    | nil => exact absurd rfl hne
    | cons c t => exact ⟨c, t, rfl, hall c List.mem_cons_self, fun x hx => hall x (List.mem_cons_of_mem _ hx)⟩

/-- leading and trailing white space: the expression between sees the trimmed string -/
theorem trim_lang (r : Rx) (hs : ∀ c, r.starts c → isSpace c = false) (hl : ∀ c, r.lasts c → isSpace c = false)
    (hn : r.nullable = false) (l : List Char) :
    (seq ws (seq r ws)).Lang l ↔ r.Lang (dropTrailing isSpace (l.dropWhile isSpace)) := by
  unfold ws
  rw [seq_many, many_seq_end _ _ hl]
  intro c hc
  rcases hc with hc | ⟨h1, -⟩
  · exact hs c hc
  · rw [hn] at h1; exact absurd h1 (by simp)

end Rx

/-! ### character class facts -/

theorem digit_not_space {c : Char} (h : isDigit c = true) : isSpace c = false := by
  unfold isDigit at h; unfold isSpace
  simp only [Bool.and_eq_true, decide_eq_true_eq] at h
  simp only [Bool.or_eq_false_iff, decide_eq_false_iff_not]
  refine ⟨⟨⟨⟨⟨?_, ?_⟩, ?_⟩, ?_⟩, ?_⟩, ?_⟩ <;> (rintro rfl; exact absurd h.1 (by decide))

theorem sign_not_space {c : Char} (h : isSign c = true) : isSpace c = false := by
  unfold isSign at h
  simp only [Bool.or_eq_true, decide_eq_true_eq] at h
  rcases h with rfl | rfl <;> decide

theorem dot_not_space {c : Char} (h : isDot c = true) : isSpace c = false := by
  unfold isDot at h; simp only [decide_eq_true_eq] at h; subst h; decide

theorem exp_not_space {c : Char} (h : isExp c = true) : isSpace c = false := by
  unfold isExp at h
  simp only [Bool.or_eq_true, decide_eq_true_eq] at h
  rcases h with rfl | rfl <;> decide

theorem digit_not_sign {c : Char} (h : isDigit c = true) : isSign c = false := by
  cases hs : isSign c with
  | false => rfl
  | true =>
    unfold isSign at hs
    simp only [Bool.or_eq_true, decide_eq_true_eq] at hs
    rcases hs with rfl | rfl <;> exact absurd h (by decide)

theorem digit_not_dot {c : Char} (h : isDigit c = true) : isDot c = false := by
  cases hs : isDot c with
  | false => rfl
  | true =>
    unfold isDot at hs; simp only [decide_eq_true_eq] at hs; subst hs; exact absurd h (by decide)

theorem digit_not_exp {c : Char} (h : isDigit c = true) : isExp c = false := by
  cases hs : isExp c with
  | false => rfl
  | true =>
    unfold isExp at hs
    simp only [Bool.or_eq_true, decide_eq_true_eq] at hs
    rcases hs with rfl | rfl <;> exact absurd h (by decide)

theorem digit_not_minus {c : Char} (h : isDigit c = true) : isMinus c = false := by
  cases hs : isMinus c with
  | false => rfl
  | true =>
    unfold isMinus at hs; simp only [decide_eq_true_eq] at hs; subst hs; exact absurd h (by decide)

theorem dot_not_sign {c : Char} (h : isDot c = true) : isSign c = false := by
  unfold isDot at h; simp only [decide_eq_true_eq] at h; subst h; decide

theorem dot_not_digit {c : Char} (h : isDot c = true) : isDigit c = false := by
  unfold isDot at h; simp only [decide_eq_true_eq] at h; subst h; decide

theorem exp_not_digit {c : Char} (h : isExp c = true) : isDigit c = false := by
  unfold isExp at h
  simp only [Bool.or_eq_true, decide_eq_true_eq] at h
  rcases h with rfl | rfl <;> decide

theorem exp_not_dot {c : Char} (h : isExp c = true) : isDot c = false := by
  unfold isExp at h
  simp only [Bool.or_eq_true, decide_eq_true_eq] at h
  rcases h with rfl | rfl <;> decide

end Gama.Grammar
