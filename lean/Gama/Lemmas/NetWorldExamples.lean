/-
  Helpers and example worlds for `Props/C20/World.lean`, `Props/C02Agree.lean`:
  `Big` for ordered fields, the hypothesis bundle of the Cholesky model, the corrected world of the
  `free1` network (`free1World'`) with its `WF` / `RefusalFlags` / `RefusalFirst`, and a world derived
  from the Gram–Schmidt model on the refused problem `Ex.pT` (`exPE`, `exSolver`).
-/
import Gama.Lemmas.NetWorldChol
import Gama.Lemmas.Ls.GsoReal
namespace Gama.NetDecision
open Gama Gama.Ls Gama.LS Matrix

set_option linter.unusedSectionVars false
set_option linter.overlappingInstances false

section
open Gama.Ls.Gso
variable {K : Type} [Field K] [LinearOrder K] [IsStrictOrderedRing K] [SqrtField K]
theorem big_field_gso : Big K := by
  show ¬ (((10000 : Nat) : K) < 0)
  exact not_lt.2 (Nat.cast_nonneg _)

end

section
open Gama.Ls.Chol
variable {K : Type} [Field K] [LinearOrder K] [IsStrictOrderedRing K] [SqrtFn K]
attribute [local instance 2000] scalarOfField
theorem big_field_chol : Big K := by
  show ¬ (((10000 : Nat) : K) < 0)
  exact not_lt.2 (Nat.cast_nonneg _)

/-- the Cholesky model's hypotheses on one problem: rank unambiguous at the factorisation and at the
    Gram–Schmidt stage (for the configured list and for the full list), list indices in range -/
structure CholHyp (p : Problem K) : Prop where
  fact : Chol.UnambiguousF (cholFact p)
  sq : Chol.GsSqrtExact p
  gs : Chol.GsUnamb p
  sqA : Chol.GsSqrtExact (allReg p)
  gsA : Chol.GsUnamb (allReg p)
  reg : regList p.n p.reg ≠ none

end

/-- a huge-covariance test that never removes gives an empty record -/
theorem hugePass_none (a : Abs) (net : Net) (h : ∀ P c, a.huge P ≠ .ok (some c)) : (hugePass a net).2.1 = [] := by
  by_contra hne
  obtain ⟨P, _, c, hc⟩ := hugePass_removed a net hne
  exact h P c hc

/-- `free1World` with that corrected: a solver object is only asked when unknowns exist -/
def free1World' : WorldA := fun net =>
  let act := net.filter fun P => P.xy.active
  let us : List Unknown := if act.length < 2 then [] else act.flatMap fun P => [⟨P.id, .X⟩, ⟨P.id, .Y⟩]
  let bad : Except ErrKind Unit := if us.isEmpty then .ok () else .error .BadRegularization
  { net := net, rm := []
    abs := { unknowns := us, nObs := act.length * (act.length - 1) / 2, nPts := act.length
             defect := if us.isEmpty then 0 else 3
             flagged := if us.isEmpty then [] else [us.length - 2, us.length - 1, us.length]
             huge := fun P => if P.xy.adjusted then bad.map (fun _ => none) else .ok none
             resid := bad } }

theorem free1World'_huge (net : Net) (P : Point) (c : Rm) : (free1World' net).abs.huge P ≠ .ok (some c) := by
  have hb : ∀ bad : Except ErrKind Unit, bad.map (fun _ => (none : Option Rm)) ≠ .ok (some c) := by
    intro bad; cases bad <;> simp [Except.map]
  simp only [free1World']
  split
  · exact hb _
  · simp

theorem free1World'_us (net : Net) (h : (free1World' net).abs.unknowns ≠ []) :
    4 ≤ (free1World' net).abs.unknowns.length ∧
    ∀ u ∈ (free1World' net).abs.unknowns, ∃ P ∈ net, P.xy.active = true ∧ P.id = u.pid ∧ u.type ≠ .Z := by
  simp only [free1World'] at h ⊢
  split at h
  · exact absurd rfl h
  next hlen =>
  rw [if_neg hlen]
  constructor
  · have : ∀ l : List Point, (l.flatMap fun P => [(⟨P.id, .X⟩ : Unknown), ⟨P.id, .Y⟩]).length = 2 * l.length := by
      intro l; induction l with
      | nil => rfl
      | cons a t ih => simp [List.flatMap_cons, ih]; omega
    rw [this]; omega
  · intro u hu
    obtain ⟨P, hP, hmem⟩ := List.mem_flatMap.1 hu
    obtain ⟨hPn, hact⟩ := List.mem_filter.1 hP
    simp only [List.mem_cons, List.not_mem_nil, or_false] at hmem
    rcases hmem with rfl | rfl
    · exact ⟨P, hPn, hact, rfl, by simp⟩
    · exact ⟨P, hPn, hact, rfl, by simp⟩

/-- **non-vacuity of `C20_removal_terminates`, `C20_removal_bound`**: `WF` -/
theorem free1World'_WF : free1World'.WF := by
  refine ⟨fun _ => Nat.le_refl _, ?_, ?_⟩
  · intro net i hi
    have hne : (free1World' net).abs.unknowns ≠ [] := by
      intro h0
      simp only [free1World'] at hi h0
      rw [h0] at hi
      simp at hi
    obtain ⟨hlen, hus⟩ := free1World'_us net hne
    have hi' : i = (free1World' net).abs.unknowns.length - 2 ∨ i = (free1World' net).abs.unknowns.length - 1
        ∨ i = (free1World' net).abs.unknowns.length := by
      simp only [free1World'] at hi hne ⊢
      have : ¬ ((if (List.filter (fun P => P.xy.active) net).length < 2 then ([] : List Unknown)
          else List.flatMap (fun P => [⟨P.id, .X⟩, ⟨P.id, .Y⟩]) (List.filter (fun P => P.xy.active) net)).isEmpty = true) := by
        rw [List.isEmpty_iff]; exact hne
      rw [if_neg this] at hi
      simpa using hi
    have hlt : i - 1 < (free1World' net).abs.unknowns.length := by omega
    refine ⟨_, List.getElem?_eq_getElem hlt, ?_⟩
    obtain ⟨P, hP, hact, hid, hz⟩ := hus _ (List.getElem_mem hlt)
    exact ⟨P, hP, hid, by rw [if_neg hz]; exact hact⟩
  · intro net P c _ hc
    exact absurd hc (free1World'_huge net P c)

/-- **non-vacuity of `C20_adjusted_sound`, `C20_verdict_cannot_unreachable`**: `RefusalFlags` -/
theorem free1World'_RefusalFlags : free1World'.RefusalFlags := by
  intro net href
  have hne : (free1World' net).abs.unknowns ≠ [] := by
    intro h0
    rcases href with href | ⟨P, href⟩
    · simp only [free1World'] at href h0
      rw [h0] at href
      simp at href
    · simp only [free1World'] at href h0
      rw [h0] at href
      split at href <;> simp [Except.map] at href
  obtain ⟨hlen, _⟩ := free1World'_us net hne
  have hfl : (free1World' net).abs.flagged = [(free1World' net).abs.unknowns.length - 2,
      (free1World' net).abs.unknowns.length - 1, (free1World' net).abs.unknowns.length] := by
    simp only [free1World'] at hne ⊢
    have : ¬ ((if (List.filter (fun P => P.xy.active) net).length < 2 then ([] : List Unknown)
        else List.flatMap (fun P => [⟨P.id, .X⟩, ⟨P.id, .Y⟩]) (List.filter (fun P => P.xy.active) net)).isEmpty = true) := by
      rw [List.isEmpty_iff]; exact hne
    rw [if_neg this]
  have hlt : (free1World' net).abs.unknowns.length - 2 - 1 < (free1World' net).abs.unknowns.length := by omega
  exact ⟨_, _, by rw [hfl]; rfl, List.getElem?_eq_getElem hlt⟩

/-- … and `RefusalFirst` (this world's huge-covariance test never removes) -/
theorem free1World'_RefusalFirst : free1World'.RefusalFirst :=
  fun net _ => hugePass_none _ _ (free1World'_huge net)


section ExWorld
open Gama.Ls.Gso

/-- three heights, C constrained -/
def exNet : Net := [⟨"A", .unused, .free⟩, ⟨"B", .unused, .free⟩, ⟨"C", .unused, .constrained⟩]

/-- project equations: on the full configuration the system `Ex.pT` (A = [1 1 0; 0 0 1], list {3}: the
    kernel vector (−1,1,0) vanishes on the list — a refused problem); otherwise nothing to adjust -/
noncomputable def exPE : Net → ProjEq (Option (Problem ℝ)) := fun net =>
  if net = exNet then
    { net := net, rm := [], unknowns := [⟨"A", .Z⟩, ⟨"B", .Z⟩, ⟨"C", .Z⟩], nObs := 2, nPts := 3, prob := some Ex.pT }
  else { net := net, rm := [], unknowns := [], nObs := 0, nPts := 0, prob := none }

noncomputable def exSolver : Option (Problem ℝ) → SolverObs ℝ
  | some p => obsGso p
  | none => { refused := none, defect := 0, lindep := fun _ => false, qxx := fun _ => 0 }

def exDim : Option (Problem ℝ) → Nat
  | some p => p.n
  | none => 0

theorem exPE_wf : PEWF exPE := by
  refine ⟨?_, ?_, ?_⟩
  · intro net; unfold exPE; split <;> exact Nat.le_refl _
  · intro net u hu
    unfold exPE at hu ⊢
    split at hu
    next h =>
      rw [if_pos h]
      subst h
      simp only [List.mem_cons, List.not_mem_nil, or_false] at hu
      rcases hu with rfl | rfl | rfl
      · exact ⟨⟨"A", .unused, .free⟩, by simp [exNet], rfl⟩
      · exact ⟨⟨"B", .unused, .free⟩, by simp [exNet], rfl⟩
      · exact ⟨⟨"C", .unused, .constrained⟩, by simp [exNet], rfl⟩
    · simp at hu
  · intro net u hu Q hQ hid
    unfold exPE at hu hQ
    split at hu
    next h =>
      rw [if_pos h] at hQ
      subst h
      simp only [List.mem_cons, List.not_mem_nil, or_false] at hu
      simp only [exNet, List.mem_cons, List.not_mem_nil, or_false] at hQ
      rcases hu with rfl | rfl | rfl <;> rcases hQ with rfl | rfl | rfl <;> simp_all [CStat.active]
    · simp at hu

theorem exCounted (net : Net) : (exSolver (exPE net).prob).Counted (exDim (exPE net).prob) := by
  unfold exPE
  split
  · exact (obsGso_sound Ex.pT Ex.pT_unambiguous (by decide)).counted
  · exact ⟨rfl, fun h => by cases h⟩

theorem exDim_ok (net : Net) : exDim (exPE net).prob = (exPE net).unknowns.length := by
  unfold exPE; split <;> rfl

end ExWorld

-- ------------------------------------------------------------------ two sound solvers that flag different unknowns of ONE point

section OnePoint

/-- one point P with free xy, one observation whose row is (1, 1) in (X_P, Y_P); nothing constrained -/
def oneNet : Net := [⟨"P", .free, .unused⟩]

def oneA : Matrix (Fin 1) (Fin 2) ℚ := !![1, 1]

def onePE : Net → ProjEq Bool := fun net =>
  if net = oneNet then { net := net, rm := [], unknowns := [⟨"P", .X⟩, ⟨"P", .Y⟩], nObs := 1, nPts := 1, prob := true }
  else { net := net, rm := [], unknowns := [], nObs := 0, nPts := 0, prob := false }

def oneLin : Bool → LinProb ℚ
  | true => ⟨1, 2, oneA, ∅⟩
  | false => ⟨0, 0, 0, ∅⟩

/-- a solver that refuses the full configuration (empty list, defect 1) and names unknown `k` -/
def oneSolver (k : Nat) : Bool → SolverObs ℚ
  | true => { refused := some .BadRegularization, defect := 1, lindep := fun i => i == k, qxx := fun _ => 0 }
  | false => { refused := none, defect := 0, lindep := fun _ => false, qxx := fun _ => 0 }

theorem oneA_ker (g : Fin 2 → ℚ) : oneA *ᵥ g = 0 ↔ g 0 + g 1 = 0 := by
  constructor
  · intro h; have := congrFun h 0; simpa [oneA, Matrix.mulVec, dotProduct, Fin.sum_univ_two] using this
  · intro h; funext i; fin_cases i; simpa [oneA, Matrix.mulVec, dotProduct, Fin.sum_univ_two] using h

theorem oneSolver_sound (k : Nat) (hk : k = 1 ∨ k = 2) (b : Bool) :
    (oneSolver k b).Sound (oneLin b).A (oneLin b).S := by
  cases b with
  | false =>
    have hz : ∀ g : Fin 0 → ℚ, g = 0 := fun g => funext fun i => Fin.elim0 i
    refine ⟨⟨?_, ?_⟩, ?_, rfl, fun i => Fin.elim0 i, fun g _ _ => hz g, ?_⟩
    · intro h; cases h
    · intro h; exact absurd (fun g _ _ => hz g) h
    · intro e h; cases h
    · show 0 + Matrix.rank (0 : Matrix (Fin 0) (Fin 0) ℚ) = 0
      simp
  | true =>
    have hnr : ¬ Resolves oneA (∅ : Finset (Fin 2)) := by
      intro h
      have := h ![1, -1] ((oneA_ker _).2 (by simp)) (by simp)
      have := congrFun this 0
      simp at this
    have hfull : ∀ g : Fin 2 → ℚ, oneA *ᵥ g = 0 → (∀ i : Fin 2, (i.val + 1 == k) = true → g i = 0) → g = 0 := by
      intro g hg hz
      have h := (oneA_ker g).1 hg
      rcases hk with rfl | rfl
      · have h0 := hz 0 (by decide)
        funext i; fin_cases i
        · exact h0
        · simp only [Fin.mk_one, Pi.zero_apply]; rw [h0] at h; simpa using h
      · have h1 := hz 1 (by decide)
        funext i; fin_cases i
        · simp only [Fin.zero_eta, Pi.zero_apply]; rw [h1] at h; simpa using h
        · exact h1
    have hdep : ∀ i : Fin 2, (i.val + 1 == k) = true →
        ∃ g, oneA *ᵥ g = 0 ∧ g i = -1 ∧ ∀ i' : Fin 2, (i'.val + 1 == k) = true → i' ≠ i → g i' = 0 := by
      intro i hi
      rcases hk with rfl | rfl
      · fin_cases i
        · refine ⟨![-1, 1], (oneA_ker _).2 (by simp), by simp, ?_⟩
          intro i' hi' hne; fin_cases i' <;> simp_all
        · simp at hi
      · fin_cases i
        · simp at hi
        · refine ⟨![1, -1], (oneA_ker _).2 (by simp), by simp, ?_⟩
          intro i' hi' hne; fin_cases i' <;> simp_all
    have hcount : (flaggedOf 2 fun i => i == k).length = 1 := by rcases hk with rfl | rfl <;> decide
    refine ⟨⟨fun _ => hnr, fun _ => rfl⟩, ?_, hcount, ?_, hfull, ?_⟩
    · intro e h; cases h; rfl
    · intro i hi
      obtain ⟨g, g1, g2, _⟩ := hdep i hi
      exact ⟨g, g1, by rw [g2]; simp⟩
    · have := card_flags_add_rank oneA (Finset.univ.filter fun i : Fin 2 => (i.val + 1 == k) = true)
        (fun g hg hz => hfull g hg (fun i hi => hz i (Finset.mem_filter.2 ⟨Finset.mem_univ _, hi⟩)))
        (fun i hi => by
          obtain ⟨g, g1, g2, g3⟩ := hdep i (Finset.mem_filter.1 hi).2
          exact ⟨g, g1, g2, fun i' hi' hne => g3 i' (Finset.mem_filter.1 hi').2 hne⟩)
      have hc : (Finset.univ.filter fun i : Fin 2 => (i.val + 1 == k) = true).card = 1 := by
        rcases hk with rfl | rfl <;> decide
      rw [hc, Fintype.card_fin] at this
      exact this

theorem one_class (net : Net) : ∃ rc : String × Rm, KernelClass (oneLin (onePE net).prob).A (onePE net).unknowns rc := by
  refine ⟨("P", .singular_xy), ?_⟩
  intro g _ i u _ hu
  unfold onePE at hu i
  split at hu
  next h =>
    have hi : i.val = 0 ∨ i.val = 1 := by
      have := i.2
      simp only [onePE, if_pos h, oneLin] at this
      omega
    rcases hi with hi | hi <;> (rw [hi] at hu; simp at hu; subst hu; rfl)
  · simp at hu

theorem one_dim (net : Net) : (oneLin (onePE net).prob).n = (onePE net).unknowns.length := by
  unfold onePE; split <;> rfl

end OnePoint

end Gama.NetDecision
