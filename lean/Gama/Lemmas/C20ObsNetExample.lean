/-
  A small network run through the EXECUTED models by the kernel (non-vacuity of `Props/C20/ProjectEquations.lean`,
  `Props/C02ProjectEquations.lean`): `PE.peWorld` (= `PE.projectEquations`) ∘ `Ls.Net.obsNet alg` (= the solver object
  behind `netSolve alg`) under the removal loops of `NetDecision.decide`.

  `exBase`: `A` fixed (0,0,0); `P` free in xy and in z at (5,0,2); one distance `A–P` = 5 (unit variance) and one
  height difference `A→P` = 2 (unit variance); `m0 = 1`.  The bearing `A→P` is 0, so the distance row is
  `(∂x, ∂y) = (cos 0, sin 0) = (1, 0)`: the y column of `P` is EXACTLY zero.  `singular_coords` does not catch that
  (`C20_singular_one_zero_column`: the guard tests the larger sum only), the system handed over has
  `unknowns_ = [X P, Y P, Z P]`, design matrix `[[1,0,0],[0,0,1]]`, empty `min_x_`: defect 1, kernel `(0,1,0)`,
  supported in the ONE point `P`.  Every algorithm refuses (`BadRegularization`), names unknown 2 (`Y P`),
  `null_space()` removes `P` (`singular_xy`); the second `project_equations()` hands over `[Z P]` with `[[1]]`, which is
  adjusted with defect 0.

  Carrier: ℚ with the field signature (`scalarOfField`) and a square root that is exact on every argument met in
  these runs (`sqX`: 25 ↦ 5, 144/625 ↦ 12/25, 0 ↦ 0, 1 ↦ 1); "trigonometric" functions constant at the values of the
  one bearing in the network (`exTrig`: bearing 0; `exTrig'`: the 3-4-5 direction, for the `singular_coords` example).
-/
import Gama.Lemmas.C20ObsNet
namespace Gama.Ls.Net.Ex2
open Gama Gama.Lin Gama.PE Gama.NetDecision Gama.Ls Gama.Ls.Net

def sqX (x : ℚ) : ℚ := if x = 25 then 5 else if x = 144 / 625 then 12 / 25 else x

instance : SqrtFn ℚ := ⟨sqX⟩
attribute [local instance 2000] scalarOfField

/-- bearing 0 -/
def exTrig : TrigFns ℚ := ⟨fun _ => 0, fun _ => 1, fun _ _ => 0, fun _ => 0, 3⟩
/-- the direction (3,4)/5 -/
def exTrig' : TrigFns ℚ := ⟨fun _ => 4 / 5, fun _ => 3 / 5, fun _ _ => 0, fun _ => 0, 3⟩

def exBaseAt (px py : ℚ) : PE.Net ℚ :=
  { points := [⟨"A", ⟨0, 0, 0, .fixed, .fixed⟩⟩, ⟨"P", ⟨px, py, 2, .free, .free⟩⟩]
    clusters := [⟨none, ⟨1, 0, #[1]⟩, [⟨true, .distance, 0, 1, 0, 5⟩]⟩,
                 ⟨none, ⟨1, 0, #[1]⟩, [⟨true, .h_diff, 0, 1, 0, 2⟩]⟩]
    m0 := 1, xNorth := 0, fuel := 10
    idx := ⟨0, []⟩ }

/-- `P` due "north" of `A`: y column exactly zero -/
def exBase : PE.Net ℚ := exBaseAt 5 0
/-- `P` at (3,4): both columns non-zero and parallel -/
def exBase' : PE.Net ℚ := exBaseAt 3 4

def exCfg : NetDecision.Net := [⟨"A", .fixed, .fixed⟩, ⟨"P", .free, .free⟩]
/-- the configuration after the removal of `P`'s xy -/
def exCfg2 : NetDecision.Net := [⟨"A", .fixed, .fixed⟩, ⟨"P", .unused, .free⟩]

def qPE : NetDecision.Net → ProjEq (Option (NetProblem ℚ)) := @peWorld ℚ (trigOfField exTrig) exBase
def qPE' : NetDecision.Net → ProjEq (Option (NetProblem ℚ)) := @peWorld ℚ (trigOfField exTrig') exBase'

/-- what the examples read off a configuration: `(rows, rhs)` and `(m, n, min_x_)` -/
def sysOf (q : ProjEq (Option (NetProblem ℚ))) : Option (List (List (Nat × ℚ)) × List ℚ) :=
  q.prob.map fun np => (np.rows.toList.map (·.toList), np.rhs.toList)

def cntOf (q : ProjEq (Option (NetProblem ℚ))) : Option (Nat × Nat × List Nat) :=
  q.prob.map fun np => (np.m, np.n, np.minx)

/-- `netSolve` on the system of a configuration: refusal kind or defect -/
def solveOf (alg : Alg) (q : ProjEq (Option (NetProblem ℚ))) : Option (Except ErrKind Nat) :=
  q.prob.map fun np => (netSolve alg np).map (·.defect)

/-- what `null_space()` reads on a configuration: refusal, defect, named unknowns -/
def readOf (alg : Alg) (q : ProjEq (Option (NetProblem ℚ))) : Option ErrKind × Nat × List Nat :=
  ((obsNet alg q.prob).refused, (obsNet alg q.prob).defect,
    flaggedOf q.unknowns.length (obsNet alg q.prob).lindep)

theorem ex_first : (qPE exCfg).unknowns = [⟨"P", .X⟩, ⟨"P", .Y⟩, ⟨"P", .Z⟩] ∧ (qPE exCfg).net = exCfg ∧ (qPE exCfg).rm = []
    ∧ cntOf (qPE exCfg) = some (2, 3, []) ∧ sysOf (qPE exCfg) = some ([[(2, 0), (1, 1)], [(3, 1)]], [0, 0]) := by decide +kernel

theorem ex_second : (qPE exCfg2).unknowns = [⟨"P", .Z⟩]
    ∧ cntOf (qPE exCfg2) = some (1, 1, []) ∧ sysOf (qPE exCfg2) = some ([[(1, 1)]], [0]) := by decide +kernel

/-- first configuration: `netSolve` errs with `BadRegularization` for every algorithm; the object is refused with
    that error, reports defect 1 and names unknown 2 (`Y` of `P`) -/
theorem ex_first_env : solveOf .env (qPE exCfg) = some (.error .BadRegularization)
    ∧ readOf .env (qPE exCfg) = (some .BadRegularization, 1, [2]) := by decide +kernel
theorem ex_first_chol : solveOf .chol (qPE exCfg) = some (.error .BadRegularization)
    ∧ readOf .chol (qPE exCfg) = (some .BadRegularization, 1, [2]) := by decide +kernel
theorem ex_first_gso : solveOf .gso (qPE exCfg) = some (.error .BadRegularization)
    ∧ readOf .gso (qPE exCfg) = (some .BadRegularization, 1, [2]) := by decide +kernel

/-- second configuration: `netSolve` answers with defect 0; the object is not refused and names nothing -/
theorem ex_second_env : solveOf .env (qPE exCfg2) = some (.ok 0) ∧ readOf .env (qPE exCfg2) = (none, 0, []) := by
  decide +kernel
theorem ex_second_chol : solveOf .chol (qPE exCfg2) = some (.ok 0) ∧ readOf .chol (qPE exCfg2) = (none, 0, []) := by
  decide +kernel
theorem ex_second_gso : solveOf .gso (qPE exCfg2) = some (.ok 0) ∧ readOf .gso (qPE exCfg2) = (none, 0, []) := by
  decide +kernel

/-- **the removal loop run in the model**: `P` is removed (`singular_xy`) and the rest is adjusted with defect 0 —
    the same record and verdict for the envelope, the Cholesky and the Gram–Schmidt object -/
theorem ex_decide_env : NetDecision.decide (1 : ℚ) (worldOf qPE (obsNet .env)) exCfg
    = ([("P", .singular_xy)], .adjusted 0) := by decide +kernel
theorem ex_decide_chol : NetDecision.decide (1 : ℚ) (worldOf qPE (obsNet .chol)) exCfg
    = ([("P", .singular_xy)], .adjusted 0) := by decide +kernel
theorem ex_decide_gso : NetDecision.decide (1 : ℚ) (worldOf qPE (obsNet .gso)) exCfg
    = ([("P", .singular_xy)], .adjusted 0) := by decide +kernel

/-- the svd object on the same network: refused on the full configuration (defect 1), the loop removes `P` and
    adjusts the rest -/
theorem ex_decide_svd : NetDecision.decide (1 : ℚ) (worldOf qPE (obsNet .svd)) exCfg
    = ([("P", .singular_xy)], .adjusted 0) := by decide +kernel
theorem ex_second_svd : solveOf .svd (qPE exCfg2) = some (.ok 0) ∧ readOf .svd (qPE exCfg2) = (none, 0, []) := by
  decide +kernel

/-- `singular_coords` does not fire on `exCfg` (one zero column is not caught) -/
theorem ex_noSingular : @NoSingular ℚ (trigOfField exTrig) exBase exCfg := by
  intro a h ha hp
  have key : (match @assemble ℚ (trigOfField exTrig) (revise (withStatuses exBase exCfg)) with
      | .ok a => (match prepare a.np with
        | .ok h => (SingularCoords.singularCoords h.Ad (idxFn a.idx) (ptsOf (revise (withStatuses exBase exCfg)))).1
        | .error _ => true)
      | .error _ => true) = false := by decide +kernel
  rw [ha] at key
  simp only [] at key
  rw [hp] at key
  exact key

/-- **`hstill` is false in general**: with `P` at (3,4) the two columns of `P` are non-zero and parallel,
    `singular_coords` fires INSIDE `project_equations()`: the call returns other points than it was given and records
    a removal — before any solver is asked -/
theorem ex_not_still : (qPE' exCfg).net = exCfg2 ∧ (qPE' exCfg).rm = [("P", .singular_xy)]
    ∧ cntOf (qPE' exCfg) = some (1, 1, []) ∧ sysOf (qPE' exCfg) = some ([[(1, 1)]], [0]) := by decide +kernel

theorem ex_dirFromStation : DirFromStation exBase := by
  intro c hc st o hs
  have : c.stand = none := by
    simp only [exBase, exBaseAt, List.mem_cons, List.not_mem_nil, or_false] at hc
    rcases hc with rfl | rfl <;> rfl
  rw [this] at hs; cases hs

end Gama.Ls.Net.Ex2
