/-
  Envelope solver: the model's factor and solves satisfy the abstract recursion equations
  (`EnvFactor.lean`), hence — for the Gram matrix `N = ApᵀAp` the model builds —
  `solve_x0` returns a solution of the normal equations with zeros at the dependent
  positions, and `squares` is the squared norm of the homogenised residual.
-/
import Gama.Model.Ls.Env
import Gama.Lemmas.Ls.EnvLDL
import Gama.Lemmas.Ls.EnvGram

namespace Gama.Ls.Env
open Finset

set_option linter.unusedSectionVars false

variable {K : Type} [Field K] [LinearOrder K] [IsStrictOrderedRing K] (sq : K → K)
local notation "𝔽" => fieldScalar sq

/-- "rank numerically unambiguous" for the envelope factorisation: every tested pivot is
    exactly 0 or at least `tol` in absolute value -/
def Unambiguous (N : ℕ → ℕ → K) (tol : K) (n : ℕ) : Prop :=
  ∀ i < n, |dpiv sq N tol i| < tol → dpiv sq N tol i = 0

/-- no pivot fired the zero test (`defect() == 0`) -/
def Regular (N : ℕ → ℕ → K) (tol : K) (n : ℕ) : Prop := ∀ i < n, ¬ |dpiv sq N tol i| < tol

variable {N : ℕ → ℕ → K} {tol : K} {n : ℕ}

theorem Regular.unambiguous (h : Regular sq N tol n) : Unambiguous sq N tol n :=
  fun i hi hlt => absurd hlt (h i hi)

theorem Regular.pivot_ne_zero (h : Regular sq N tol n) (htol : 0 < tol) {i : ℕ} (hi : i < n) :
    Df sq N tol i ≠ 0 := by
  rw [Df_eq, if_neg (h i hi)]
  intro h0
  exact h i hi (by rw [h0, abs_zero]; exact htol)

theorem Df_eq_dpiv (hU : Unambiguous sq N tol n) {i : ℕ} (hi : i < n) : Df sq N tol i = dpiv sq N tol i := by
  rw [Df_eq]
  split
  · next h => exact (hU i hi h).symm
  · rfl

theorem Df_zero_iff (hU : Unambiguous sq N tol n) (htol : 0 < tol) {i : ℕ} (hi : i < n) :
    Df sq N tol i = 0 ↔ |dpiv sq N tol i| < tol := by
  rw [Df_eq]
  constructor
  · intro h
    split at h
    · assumption
    · rw [h, abs_zero]; exact htol
  · intro h; rw [if_pos h]

/-- the model's factor satisfies the recursion equations -/
theorem isLDL_model (hU : Unambiguous sq N tol n) :
    IsLDL N n (Lf sq N tol) (Df sq N tol) (yf sq N tol) where
  y_eq := fun _ _ _ hj => yf_eq sq N tol hj
  L_eq := fun _ _ _ hj => Lf_eq sq N tol hj
  D_eq := fun i hi => by rw [Df_eq_dpiv sq hU hi]; rfl

theorem isLower_model (c : ℕ → K) : IsLower (Lf sq N tol) n c (zf sq N tol n c) :=
  fun _ hi => zf_eq sq N tol n c hi
theorem isDiag_model (z : ℕ → K) : IsDiag (Df sq N tol) n z (wf sq N tol n z) :=
  fun _ hi => wf_eq sq N tol n z hi
theorem isUpper_model (w : ℕ → K) : IsUpper (Lf sq N tol) n w (xf sq N tol n w) :=
  fun _ hi => xf_eq sq N tol n w hi

/-- `Envelope::solve` as a function -/
def solvef (N : ℕ → ℕ → K) (tol : K) (n : ℕ) (c : ℕ → K) : ℕ → K :=
  xf sq N tol n (wf sq N tol n (zf sq N tol n c))

theorem vget_solve (c : ℕ → K) (i : ℕ) :
    @vget K 𝔽 (@solve K 𝔽 (@ldl K 𝔽 N tol n) n c) i = solvef sq N tol n c i := rfl

theorem IsLower.congr {L : ℕ → ℕ → K} {c c' z : ℕ → K} (h : IsLower L n c z) (hc : ∀ i < n, c i = c' i) :
    IsLower L n c' z := fun i hi => by rw [h i hi, hc i hi]

/-- **regular case**: the three solves compute `N⁻¹c` -/
theorem solve_regular (hR : Regular sq N tol n) (htol : 0 < tol) (hsym : ∀ i < n, ∀ j < n, N i j = N j i)
    (c : ℕ → K) {i : ℕ} (hi : i < n) : ∑ j ∈ range n, N i j * solvef sq N tol n c j = c i := by
  have hL := isLDL_model sq hR.unambiguous
  have hz := zeroCols_of_regular (yf sq N tol) (fun j hj => hR.pivot_ne_zero sq htol hj)
  exact solve_spec (fun i hi j hj => hL.factor_entry hz hsym hi hj) (isLower_model sq c) (isDiag_model sq _)
    (isUpper_model sq _) (fun k hk h0 => absurd h0 (hR.pivot_ne_zero sq htol hk)) hi

/-- **singular case** for a Gram matrix and a right-hand side `Mᵀb` -/
theorem solve_gram {m : ℕ} {M : ℕ → ℕ → K} (b : ℕ → K) (hU : Unambiguous sq N tol n)
    (hN : ∀ i < n, ∀ j < n, N i j = ip m (fun r => M r i) (fun r => M r j)) (hsym : ∀ i < n, ∀ j < n, N i j = N j i)
    {c : ℕ → K} (hc : ∀ i < n, c i = ip m (fun r => M r i) b) {i : ℕ} (hi : i < n) :
    ∑ j ∈ range n, N i j * solvef sq N tol n c j = c i := by
  have hL := isLDL_model sq hU
  have hz := gram_zeroCols hN hL
  exact solve_spec (fun i hi j hj => hL.factor_entry hz hsym hi hj) (isLower_model sq c) (isDiag_model sq _)
    (isUpper_model sq _) (gram_lower_rhs_zero hN hL b ((isLower_model sq c).congr hc)) hi

/-- the particular solution has zeros at the dependent positions -/
theorem solve_dep (hU : Unambiguous sq N tol n) (c : ℕ → K) {k : ℕ} (hk : k < n) (h0 : Df sq N tol k = 0) :
    solvef sq N tol n c k = 0 :=
  solve_dep_zero (isDiag_model sq _) (isUpper_model sq _)
    (fun _ hi _ hj h0 => (isLDL_model sq hU).L_zero hi hj h0) hk h0

/-! ### the record `factor` builds -/

section fact
variable (m : ℕ) (At : DMat K) (bt : Array K) (o : EnvOrd)

theorem mget_ofFn (n : ℕ) (g : ℕ → ℕ → K) {i j : ℕ} (hi : i < n) (hj : j < n) :
    @mget K 𝔽 (Array.ofFn (n := n) fun i => @vecOf K n fun j => g i.1 j) i j = g i j := by
  unfold mget
  rw [show (Array.ofFn (n := n) fun i => @vecOf K n fun j => g i.1 j).getD i #[] = @vecOf K n (fun j => g i j) by
    simp [Array.getD_eq_getD_getElem?, hi]]
  exact vget_vecOf sq _ _ hj

/-- the normal matrix of the record is the Gram matrix of the permuted homogenised columns -/
theorem factor_N {i j : ℕ} (hi : i < n) (hj : j < n) :
    @mget K 𝔽 (@factor K 𝔽 tol m n At bt o).N i j
      = ip m (fun r => (@factor K 𝔽 tol m n At bt o).Ap r i) (fun r => (@factor K 𝔽 tol m n At bt o).Ap r j) := by
  unfold factor
  simp only
  refine (mget_ofFn sq n (fun a b => @sumTo K 𝔽 m fun r =>
    @mget K 𝔽 At r (o.perm.getD a 0) * @mget K 𝔽 At r (o.perm.getD b 0)) hi hj).trans ?_
  rw [sumTo_eq]
  rfl

theorem factor_c {i : ℕ} (hi : i < n) :
    @vget K 𝔽 (@factor K 𝔽 tol m n At bt o).c i
      = ip m (fun r => (@factor K 𝔽 tol m n At bt o).Ap r i) (@factor K 𝔽 tol m n At bt o).bt := by
  unfold factor
  simp only
  rw [vget_vecOf sq _ _ hi, sumTo_eq]
  rfl

end fact

end Gama.Ls.Env
