/-
  Singular case of `AdjCholDec::solve`, continued: under `Unambiguous` (the rejected pivot is
  exactly 0) the factorisation is `N = L D Lᵀ` over the `N0` accepted pivots, `nullity = n − N0`
  is the true defect, the columns of `G` are kernel vectors, and a kernel vector vanishing on the
  flagged unknowns is zero.
-/
import Gama.Lemmas.Ls.CholKernel

namespace Gama.Ls
open Finset Dn Chol

set_option linter.unusedSectionVars false
set_option linter.unusedVariables false

section
variable {K : Type} [Field K] [LinearOrder K] [IsStrictOrderedRing K] [SqrtFn K]
attribute [local instance 2000] scalarOfField

/-- *rank numerically unambiguous*, Cholesky stage: the pivot the code rejects (`pivot ≤ s_tol`)
    is exactly zero -/
def Chol.UnambiguousF (f : Fact K) : Prop := ∀ t, f.rej = some t → t = 0 ∨ (sTol : K) < t

/-- the factorisation at the end of the column loop -/
structure LDLFin (n : Nat) (Nf : Nat → Nat → K) (perm : Array Nat) (a : DMat K) (N0 : Nat) : Prop where
  isPerm : IsPerm n perm
  le : N0 ≤ n
  pos : ∀ k, k < N0 → 0 < dd perm a k
  dec : ∀ u v, u < n → v < n →
    Nf u v = ∑ k ∈ range N0, ell n perm a k u * dd perm a k * ell n perm a k v
  zero : ∀ u v, u < n → v < n → N0 ≤ qq n perm u → N0 ≤ qq n perm v → sget a u v = 0

theorem factEnd_fin {m n N0 : Nat} {A : DMat K} {f : Fact K} {aPre : DMat K}
    (hE : FactEnd n (normalF m A) f aPre N0) (hU : Chol.UnambiguousF f) :
    LDLFin n (normalF m A) f.perm f.mat N0 := by
  have hI := hE.inv
  have hP := hI.isPerm
  have hN0 := hI.le
  rcases Nat.lt_or_ge N0 n with hlt | hge
  · obtain ⟨hmat, hle, hmax, hrej⟩ := hE.sing hlt
    have hd0 : dd f.perm aPre N0 = 0 := by
      rcases hU _ hrej with h | h
      · exact h
      · exact absurd hle (not_le.2 h)
    have htr := trail_zero hI (fun j h1 h2 => by rw [← hd0]; exact hmax j h1 h2)
    refine ⟨hP, hN0, ?_, ?_, ?_⟩
    · intro k hk
      rw [hmat, dd_junk hP N0 aPre k hk (by omega)]
      exact lt_trans sTol_pos (hI.piv k hk)
    · intro u v hu hv
      rw [hI.dec u v hu hv, htr u v hu hv, zero_add, hmat]
      refine Finset.sum_congr rfl fun k hk => ?_
      have hk' := Finset.mem_range.1 hk
      rw [ell_junk hP N0 aPre k u hk' (by omega) hu, ell_junk hP N0 aPre k v hk' (by omega) hv,
        dd_junk hP N0 aPre k hk' (by omega)]
    · intro u v hu hv h1 h2
      rw [hmat, sget_junk n f.perm N0 aPre u v hu hv, if_pos ⟨h1, h2⟩]
  · have hN : N0 = n := by omega
    have hmat := hE.reg hN
    refine ⟨hP, hN0, ?_, ?_, ?_⟩
    · intro k hk; rw [hmat]; exact lt_trans sTol_pos (hI.piv k hk)
    · intro u v hu hv
      rw [hI.dec u v hu hv, hmat]
      unfold trail
      have := (qq_spec hP u hu).1
      rw [if_neg (by omega), zero_add]
    · intro u v hu hv h1 _
      have := (qq_spec hP u hu).1
      omega

/-! ### the kernel in terms of the factor -/

theorem fin_mul {n N0 : Nat} {Nf : Nat → Nat → K} {perm : Array Nat} {a : DMat K}
    (h : LDLFin n Nf perm a N0) (y : Nat → K) (z : Nat) (hz : z < n) :
    ∑ v ∈ range n, Nf z v * y v
      = ∑ k ∈ range N0, ell n perm a k z * dd perm a k * ∑ v ∈ range n, ell n perm a k v * y v := by
  have : ∀ v ∈ range n, Nf z v * y v
      = ∑ k ∈ range N0, ell n perm a k z * dd perm a k * (ell n perm a k v * y v) := by
    intro v hv
    rw [h.dec z v hz (Finset.mem_range.1 hv), Finset.sum_mul]
    exact Finset.sum_congr rfl fun k _ => by ring
  rw [Finset.sum_congr rfl this, Finset.sum_comm]
  exact Finset.sum_congr rfl fun k _ => by rw [Finset.mul_sum]

theorem ker_of_ell {n N0 : Nat} {Nf : Nat → Nat → K} {perm : Array Nat} {a : DMat K}
    (h : LDLFin n Nf perm a N0) (y : Nat → K)
    (hy : ∀ k, k < N0 → ∑ v ∈ range n, ell n perm a k v * y v = 0) :
    ∀ z, z < n → ∑ v ∈ range n, Nf z v * y v = 0 := by
  intro z hz
  rw [fin_mul h y z hz]
  exact Finset.sum_eq_zero fun k hk => by rw [hy k (Finset.mem_range.1 hk), mul_zero]

theorem ell_of_ker {n N0 : Nat} {Nf : Nat → Nat → K} {perm : Array Nat} {a : DMat K}
    (h : LDLFin n Nf perm a N0) (g : Nat → K)
    (hg : ∀ z, z < n → ∑ v ∈ range n, Nf z v * g v = 0) :
    ∀ k, k < N0 → ∑ v ∈ range n, ell n perm a k v * g v = 0 := by
  have hP := h.isPerm
  have hN0 := h.le
  intro k
  induction k using Nat.strong_induction_on with
  | _ k ih =>
    intro hk
    have hkn : k < n := by omega
    have := hg (pget perm k) (hP.lt k hkn)
    rw [fin_mul h g _ (hP.lt k hkn), Finset.sum_eq_single k] at this
    · rw [ell_perm hP a k k hkn, if_pos rfl, one_mul] at this
      rcases mul_eq_zero.1 this with h0 | h0
      · exact absurd h0 (ne_of_gt (h.pos k hk))
      · exact h0
    · intro k' hk' hne
      have hk'' := Finset.mem_range.1 hk'
      rw [ell_perm hP a k' k hkn]
      by_cases hlt : k' < k
      · rw [ih k' hlt hk'', mul_zero]
      · rw [if_neg (fun e => hne e.symm), if_neg hlt, zero_mul, zero_mul]
    · intro hnot; exact absurd (Finset.mem_range.2 hk) hnot

theorem zero_of_ell {n N0 : Nat} {Nf : Nat → Nat → K} {perm : Array Nat} {a : DMat K}
    (h : LDLFin n Nf perm a N0) (g : Nat → K)
    (hg : ∀ k, k < N0 → ∑ v ∈ range n, ell n perm a k v * g v = 0)
    (htr : ∀ ii, N0 ≤ ii → ii < n → g (pget perm ii) = 0) :
    ∀ u, u < n → g u = 0 := by
  have hP := h.isPerm
  have hN0 := h.le
  have key : ∀ t, t ≤ N0 → ∀ ii, N0 - t ≤ ii → ii < n → g (pget perm ii) = 0 := by
    intro t
    induction t with
    | zero => intro _ ii h1 h2; exact htr ii (by omega) h2
    | succ t ih =>
      intro ht ii h1 h2
      by_cases hii : N0 - t ≤ ii
      · exact ih (by omega) ii hii h2
      · have hk : ii = N0 - (t + 1) := by omega
        have hkN : ii < N0 := by omega
        have := hg ii hkN
        rw [sum_perm hP (fun v => ell n perm a ii v * g v)] at this
        have e : ∑ jj ∈ range n, ell n perm a ii (pget perm jj) * g (pget perm jj)
            = ∑ jj ∈ range n, (if jj = ii then 1 else if ii < jj then sget a (pget perm jj) (pget perm ii) else 0)
                * g (pget perm jj) :=
          Finset.sum_congr rfl fun jj hjj => by rw [ell_perm hP a ii jj (Finset.mem_range.1 hjj)]
        rw [e, sum_tri_gt n ii h2 (fun jj => sget a (pget perm jj) (pget perm ii)) (fun jj => g (pget perm jj))] at this
        have hz : ∑ jj ∈ Ico (ii + 1) n, sget a (pget perm jj) (pget perm ii) * g (pget perm jj) = 0 := by
          refine Finset.sum_eq_zero fun jj hjj => ?_
          have hj := Finset.mem_Ico.1 hjj
          rw [ih (by omega) jj (by omega) hj.2, mul_zero]
        rw [hz, add_zero] at this
        exact this
  intro u hu
  obtain ⟨ii, hii, rfl⟩ := hP.surj u hu
  exact key N0 (le_refl N0) ii (by omega) hii

/-- Gram matrix: `A g = 0 → N g = 0` -/
theorem gram_ker (m n : Nat) (A : DMat K) (g : Nat → K)
    (h : ∀ k, k < m → ∑ v ∈ range n, mget A k v * g v = 0) :
    ∀ z, ∑ v ∈ range n, normalF m A z v * g v = 0 := by
  intro z
  rw [gram_mul]
  exact Finset.sum_eq_zero fun k hk => by rw [h k (Finset.mem_range.1 hk), mul_zero]

/-- **removal of the flagged unknowns leaves full column rank**: a kernel vector that vanishes on
    the unknowns pivoted into the null part is zero -/
theorem ker_zero_of_flagged_zero {m n N0 : Nat} {A : DMat K} {perm : Array Nat} {a : DMat K}
    (h : LDLFin n (normalF m A) perm a N0) (g : Nat → K)
    (hg : ∀ k, k < m → ∑ v ∈ range n, mget A k v * g v = 0)
    (hfl : ∀ u, u < n → N0 ≤ qq n perm u → g u = 0) : ∀ u, u < n → g u = 0 := by
  have hP := h.isPerm
  apply zero_of_ell h g (ell_of_ker h g (fun z _ => gram_ker m n A g hg z))
  intro ii h1 h2
  exact hfl _ (hP.lt ii h2) (by rw [qq_perm hP ii h2]; exact h1)

/-! ### the columns of `G` -/

/-- column `j` of `G` before the orthogonalisation -/
def gcol (n N0 : Nat) (perm : Array Nat) (a : DMat K) (j : Nat) : Array K :=
  vmk n fun u =>
    if pget (invPerm n perm) u < N0 then
      vget (backSub N0 perm a (vmk n fun u => if pget (invPerm n perm) u < N0 then sget a u (pget perm (N0 + j)) else 0)) u
    else if pget (invPerm n perm) u = N0 + j then - (Scalar.ofNat 1 : K) else 0

theorem gInit_col (n N0 nullity : Nat) (perm : Array Nat) (a : DMat K) (x0 : Array K) (j : Nat) (hj : j < nullity) :
    (gInit n N0 nullity perm a x0).getD j #[] = gcol n N0 perm a j := by
  unfold gInit
  simp only []
  have hsz : (Array.ofFn (n := nullity) fun (j : Fin nullity) =>
      vmk n fun u =>
        if pget (invPerm n perm) u < N0 then
          vget (backSub N0 perm a (vmk n fun u => if pget (invPerm n perm) u < N0 then sget a u (pget perm (N0 + j.val)) else 0)) u
        else if pget (invPerm n perm) u = N0 + j.val then - (Scalar.ofNat 1 : K) else 0).size = nullity := by simp
  rw [Array.getD_eq_getD_getElem?, Array.getElem?_push, if_neg (by rw [hsz]; omega),
    ← Array.getD_eq_getD_getElem?, getD_ofFn', dif_pos hj]
  rfl

theorem gInit_last (n N0 nullity : Nat) (perm : Array Nat) (a : DMat K) (x0 : Array K) :
    (gInit n N0 nullity perm a x0).getD nullity #[] = x0 := by
  unfold gInit
  simp only []
  rw [Array.getD_eq_getD_getElem?, Array.getElem?_push, if_pos (by simp)]
  rfl

/-- the columns of `G` are kernel vectors with `-1` at "their" dependent unknown and `0` at the others -/
theorem gcol_spec {m n N0 : Nat} {A : DMat K} {perm : Array Nat} {a : DMat K}
    (h : LDLFin n (normalF m A) perm a N0) (j : Nat) (hj : N0 + j < n) :
    (∀ k, k < m → ∑ v ∈ range n, mget A k v * vget (gcol n N0 perm a j) v = 0) ∧
    (∀ ii, N0 ≤ ii → ii < n → vget (gcol n N0 perm a j) (pget perm ii) = if ii = N0 + j then -1 else 0) := by
  have hP := h.isPerm
  have hN0 := h.le
  set top : Array K := vmk n fun u => if pget (invPerm n perm) u < N0 then sget a u (pget perm (N0 + j)) else 0 with htop
  obtain ⟨hsz, hrec, hfr⟩ := backSub_spec hP hN0 a top (vmk_size _ _)
  have hgv : ∀ ii, ii < n → vget (gcol n N0 perm a j) (pget perm ii)
      = if ii < N0 then vget (backSub N0 perm a top) (pget perm ii) else if ii = N0 + j then -1 else 0 := by
    intro ii hii
    unfold gcol
    rw [vget_vmk, if_pos (hP.lt ii hii)]
    have : pget (invPerm n perm) (pget perm ii) = ii := qq_perm hP ii hii
    rw [this]
    by_cases h1 : ii < N0
    · rw [if_pos h1, if_pos h1]
    · rw [if_neg h1, if_neg h1]
      by_cases h2 : ii = N0 + j
      · rw [if_pos h2, if_pos h2]
        show -((1 : ℕ) : K) = -1
        rw [Nat.cast_one]
      · rw [if_neg h2, if_neg h2]
  have htrail : ∀ ii, N0 ≤ ii → ii < n → vget (gcol n N0 perm a j) (pget perm ii) = if ii = N0 + j then -1 else 0 := by
    intro ii h1 h2
    rw [hgv ii h2, if_neg (by omega)]
  refine ⟨?_, htrail⟩
  let y : Nat → K := fun v => vget (gcol n N0 perm a j) v
  have hyrec : ∀ ii, ii < N0 → y (pget perm ii)
      = - ∑ jj ∈ Ico (ii + 1) n, sget a (pget perm ii) (pget perm jj) * y (pget perm jj) := by
    intro ii hii
    show vget (gcol n N0 perm a j) (pget perm ii) = _
    rw [hgv ii (by omega), if_pos hii, hrec ii hii,
      ← Finset.sum_Ico_consecutive _ (by omega : ii + 1 ≤ N0) hN0]
    have e1 : ∑ jj ∈ Ico (ii + 1) N0, sget a (pget perm ii) (pget perm jj) * y (pget perm jj)
        = ∑ jj ∈ Ico (ii + 1) N0, sget a (pget perm ii) (pget perm jj) * vget (backSub N0 perm a top) (pget perm jj) := by
      refine Finset.sum_congr rfl fun jj hjj => ?_
      have := Finset.mem_Ico.1 hjj
      show _ * vget (gcol n N0 perm a j) (pget perm jj) = _
      rw [hgv jj (by omega), if_pos this.2]
    have e2 : ∑ jj ∈ Ico N0 n, sget a (pget perm ii) (pget perm jj) * y (pget perm jj)
        = - sget a (pget perm ii) (pget perm (N0 + j)) := by
      rw [Finset.sum_eq_single (N0 + j)]
      · show _ * vget (gcol n N0 perm a j) (pget perm (N0 + j)) = _
        rw [htrail (N0 + j) (by omega) hj, if_pos rfl]; ring
      · intro jj hjj hne
        have := Finset.mem_Ico.1 hjj
        show _ * vget (gcol n N0 perm a j) (pget perm jj) = _
        rw [htrail jj this.1 this.2, if_neg hne, mul_zero]
      · intro hnot; exact absurd (Finset.mem_Ico.2 ⟨by omega, hj⟩) hnot
    rw [e1, e2, htop, vget_vmk, if_pos (hP.lt ii (by omega))]
    have : pget (invPerm n perm) (pget perm ii) = ii := qq_perm hP ii (by omega)
    rw [this, if_pos hii]
    ring
  have hell := ell_dot_zero hP hN0 a y hyrec
  have hNy := ker_of_ell h y hell
  have hq : ∑ z ∈ range n, y z * ∑ v ∈ range n, normalF m A z v * y v = 0 :=
    Finset.sum_eq_zero fun z hz => by rw [hNy z (Finset.mem_range.1 hz), mul_zero]
  exact gram_zero m n A y hq

end
end Gama.Ls
