/-
  LS8′ — uniqueness of the cofactor matrix of a regularisation.

  For `N = Aᵀ P A` (`P` symmetric positive definite) and a subset `S` that resolves the defect of
  `A`, there is at most ONE symmetric reflexive generalised inverse `Q` of `N` that *belongs to S*
  (`Q y` is `S`-orthogonal to the kernel of `A` for every `y`).  Hence two algorithms that both
  report such a `Q` report the same cofactors of the unknowns (C02 clause "same cofactors").

  Proof without dimension counting: `u = (Q₁ − Q₂) N w` satisfies `N u = 0`, so `A u = 0`, and `u`
  is `S`-orthogonal to the kernel, in particular to itself: `u` vanishes on `S`, hence `u = 0`.
  So `Q₁ N = Q₂ N`, by symmetry `N Q₁ = N Q₂`, and `Q₁ = Q₁ N Q₁ = Q₂ N Q₁ = Q₂ N Q₂ = Q₂`.
-/
import Gama.Lemmas.LS.Basic
import Gama.Lemmas.LS.GInverse

namespace Gama.LS
open Matrix Finset

set_option linter.unusedSectionVars false

variable {𝕜 : Type*} [Field 𝕜] [LinearOrder 𝕜] [IsStrictOrderedRing 𝕜]
variable {m n : Type*} [Fintype m] [Fintype n] [DecidableEq n]
variable {A : Matrix m n 𝕜} {P : Matrix m m 𝕜}

/-- `Q` belongs to the regularisation subset `S`: every `Q y` is `S`-orthogonal to `ker A` -/
@[reducible] def BelongsTo (A : Matrix m n 𝕜) (S : Finset n) (Q : Matrix n n 𝕜) : Prop :=
  ∀ y g, A *ᵥ g = 0 → ∑ i ∈ S, (Q *ᵥ y) i * g i = 0

/-- a kernel vector that is `S`-orthogonal to the kernel is zero when `S` resolves the defect -/
theorem ker_sorth_eq_zero {S : Finset n} (hS : Resolves A S) {u : n → 𝕜} (hu : A *ᵥ u = 0)
    (ho : ∀ g, A *ᵥ g = 0 → ∑ i ∈ S, u i * g i = 0) : u = 0 := by
  refine hS u hu fun i hi => ?_
  have h0 := ho u hu
  have hnn : ∀ j ∈ S, 0 ≤ u j * u j := fun j _ => mul_self_nonneg (u j)
  have := (Finset.sum_eq_zero_iff_of_nonneg hnn).1 h0 i hi
  exact mul_self_eq_zero.1 this

/-- abstract form: `N` symmetric with `N u = 0 → A u = 0` -/
theorem ginv_belongs_unique_aux {N : Matrix n n 𝕜} (hNs : Nᵀ = N) (hker : ∀ u, N *ᵥ u = 0 → A *ᵥ u = 0)
    {S : Finset n} (hS : Resolves A S) {Q₁ Q₂ : Matrix n n 𝕜}
    (h1 : N * Q₁ * N = N) (r1 : Q₁ * N * Q₁ = Q₁) (s1 : Q₁ᵀ = Q₁) (b1 : BelongsTo A S Q₁)
    (h2 : N * Q₂ * N = N) (r2 : Q₂ * N * Q₂ = Q₂) (s2 : Q₂ᵀ = Q₂) (b2 : BelongsTo A S Q₂) : Q₁ = Q₂ := by
  -- Q₁ N = Q₂ N
  have hQN : Q₁ * N = Q₂ * N := by
    ext i j
    have hcol : (Q₁ * N) *ᵥ (Pi.single j 1) = (Q₂ * N) *ᵥ (Pi.single j 1) := by
      generalize (Pi.single j 1 : n → 𝕜) = w
      have hNu : N *ᵥ ((Q₁ * N) *ᵥ w - (Q₂ * N) *ᵥ w) = 0 := by
        rw [mulVec_sub, mulVec_mulVec, mulVec_mulVec, ← Matrix.mul_assoc, ← Matrix.mul_assoc, h1, h2, sub_self]
      have hAu := hker _ hNu
      have ho : ∀ g, A *ᵥ g = 0 → ∑ i ∈ S, ((Q₁ * N) *ᵥ w - (Q₂ * N) *ᵥ w) i * g i = 0 := by
        intro g hg
        have e1 := b1 (N *ᵥ w) g hg
        have e2 := b2 (N *ᵥ w) g hg
        rw [mulVec_mulVec] at e1 e2
        have : ∀ i, ((Q₁ * N) *ᵥ w - (Q₂ * N) *ᵥ w) i * g i
            = ((Q₁ * N) *ᵥ w) i * g i - ((Q₂ * N) *ᵥ w) i * g i := by
          intro i; rw [Pi.sub_apply, sub_mul]
        rw [Finset.sum_congr rfl fun i _ => this i, Finset.sum_sub_distrib, e1, e2, sub_self]
      exact sub_eq_zero.1 (ker_sorth_eq_zero hS hAu ho)
    have := congrFun hcol i
    simpa [mulVec_single_one] using this
  -- N Q₁ = N Q₂ by symmetry
  have hNQ : N * Q₁ = N * Q₂ := by
    have := congrArg Matrix.transpose hQN
    rwa [transpose_mul, transpose_mul, s1, s2, hNs] at this
  calc Q₁ = Q₁ * N * Q₁ := r1.symm
    _ = Q₂ * N * Q₁ := by rw [hQN]
    _ = Q₂ * (N * Q₁) := Matrix.mul_assoc _ _ _
    _ = Q₂ * (N * Q₂) := by rw [hNQ]
    _ = Q₂ * N * Q₂ := (Matrix.mul_assoc _ _ _).symm
    _ = Q₂ := r2

/-- **uniqueness of the `S`-belonging symmetric reflexive g-inverse** of `N = Aᵀ P A` -/
theorem ginv_belongs_unique (hP : Pᵀ = P) (hpd : ∀ d, d ≠ 0 → 0 < d ⬝ᵥ P *ᵥ d) {S : Finset n}
    (hS : Resolves A S) {Q₁ Q₂ : Matrix n n 𝕜}
    (h1 : (Aᵀ * P * A) * Q₁ * (Aᵀ * P * A) = Aᵀ * P * A) (r1 : Q₁ * (Aᵀ * P * A) * Q₁ = Q₁) (s1 : Q₁ᵀ = Q₁)
    (b1 : BelongsTo A S Q₁)
    (h2 : (Aᵀ * P * A) * Q₂ * (Aᵀ * P * A) = Aᵀ * P * A) (r2 : Q₂ * (Aᵀ * P * A) * Q₂ = Q₂) (s2 : Q₂ᵀ = Q₂)
    (b2 : BelongsTo A S Q₂) : Q₁ = Q₂ := by
  refine ginv_belongs_unique_aux (normalMatrix_symm hP A) (fun u hu => ?_) hS h1 r1 s1 b1 h2 r2 s2 b2
  apply mulVec_eq_zero_of_normal hpd
  rw [← hu, ← mulVec_mulVec, ← mulVec_mulVec]

end Gama.LS
