/-
  `LocalNetwork` façade: the standard deviations `revised_obs_[i]->stdDev()` the statistics use
  (`weight_obs`, `sigma_L`) are the square roots of the DIAGONAL of the covariance matrix `Σ = Sigma np`
  of the active observations (`Lemmas/Ls/NetFacade.lean`): the k-th ACTIVE observation reads
  `covariance_matrix(k', k')` at its ORIGINAL position `k'` in its cluster (passive observations keep their
  position; clusters without active observations contribute nothing).
-/
import Gama.Lemmas.Ls.NetFacade

namespace Gama.Ls.Net
open Finset Matrix Gama.LS Gama.Ls.AdjM Dn

set_option linter.unusedSectionVars false
set_option linter.unusedVariables false

/-- dropping the elements that contribute nothing does not change a `flatMap` -/
theorem flatMap_filter_nil {α β : Type} (p : α → Bool) (f : α → List β) :
    ∀ l : List α, (∀ c ∈ l, p c = false → f c = []) → l.flatMap f = (l.filter p).flatMap f := by
  intro l
  induction l with
  | nil => intro _; rfl
  | cons c l ih =>
    intro h
    rw [List.flatMap_cons, ih (fun c' hc' => h c' (List.mem_cons_of_mem _ hc'))]
    cases hp : p c with
    | true => rw [List.filter_cons_of_pos hp, List.flatMap_cons]
    | false =>
      rw [List.filter_cons_of_neg (by simp [hp]), h c List.mem_cons_self hp, List.nil_append]

/-- element `s` of a concatenation of segments, addressed by `locate` on the segment lengths -/
theorem flatMap_getD {α β : Type} (f : α → List β) (dα : α) (d : β) :
    ∀ (l : List α) (s : Nat), s < (l.map fun c => (f c).length).sum →
      (l.flatMap f).getD s d
        = (f (l.getD (locate (l.map fun c => (f c).length) s).1 dα)).getD
            (s - (locate (l.map fun c => (f c).length) s).2) d := by
  intro l
  induction l with
  | nil => intro s hs; simp at hs
  | cons c l ih =>
    intro s hs
    rw [List.map_cons, List.sum_cons] at hs
    rw [List.map_cons, locate_cons, List.flatMap_cons]
    by_cases h : s < (f c).length
    · rw [if_pos h]
      simp only [List.getD_cons_zero, Nat.sub_zero]
      rw [List.getD_eq_getElem?_getD, List.getD_eq_getElem?_getD, List.getElem?_append_left h]
    · rw [if_neg h]
      simp only [List.getD_cons_succ]
      rw [List.getD_eq_getElem?_getD, List.getElem?_append_right (by omega), ← List.getD_eq_getElem?_getD,
        ih (s - (f c).length) (by omega)]
      congr 1
      omega

theorem toArray_getD' {β : Type} (l : List β) (s : Nat) (d : β) : l.toArray.getD s d = l.getD s d := by
  rw [List.getD_eq_getElem?_getD]
  by_cases h : s < l.length
  · simp [Array.getD, h]
  · simp [Array.getD, h, List.getElem?_eq_none (Nat.le_of_not_lt h)]

variable {K : Type} [Field K] [LinearOrder K] [IsStrictOrderedRing K] [SqrtFn K]
attribute [local instance 2000] scalarOfField

/-- the standard deviations of one cluster's active observations -/
def clusterStdDev (c : Cluster K) : List K :=
  (Cov.activeIdx 1 c.obs).map fun k => Scalar.sqrt (c.cov.get k k)

theorem clusterStdDev_length (c : Cluster K) : (clusterStdDev c).length = c.nAct := by
  unfold clusterStdDev Cluster.obs Cluster.nAct
  rw [List.length_map, activeIdx_length_ones]

theorem obsStdDev_eq (np : NetProblem K) :
    obsStdDev np = ((activeClusters np).flatMap clusterStdDev).toArray := by
  unfold obsStdDev activeClusters
  congr 1
  refine flatMap_filter_nil (fun c => c.nAct != 0) clusterStdDev np.clusters ?_
  intro c _ hc
  have h0 : c.nAct = 0 := by simpa using hc
  have := clusterStdDev_length c
  rw [h0] at this
  exact List.eq_nil_of_length_eq_zero this

/-- **`stdDev()` of the s-th active observation is `√Σ_ss`** (`Σ = Sigma np`, the covariance matrix of the
    active observations as given in the input) -/
theorem obsStdDev_get (np : NetProblem K) (hdim : (dimsN np).sum = np.m) (s : Nat) (hs : s < np.m) :
    Dn.vget (obsStdDev np) s = Scalar.sqrt (sigmaF np s s) := by
  have hd : dimsN np = (activeClusters np).map fun c => (clusterStdDev c).length := by
    rw [dimsN_eq]
    exact List.map_congr_left fun c _ => (clusterStdDev_length c).symm
  obtain ⟨h1, h2, h3, _, _⟩ := locate_spec (dimsN np) s (by rw [hdim]; exact hs)
  unfold Dn.vget
  rw [obsStdDev_eq]
  show ((activeClusters np).flatMap clusterStdDev).toArray.getD s 0 = _
  rw [toArray_getD']
  rw [flatMap_getD clusterStdDev ⟨⟨0, 0, #[]⟩, []⟩ (0 : K) (activeClusters np) s (by rw [← hd, hdim]; exact hs), ← hd]
  unfold sigmaF
  rw [if_pos ⟨h2, h3⟩]
  set c := (activeClusters np).getD (locate (dimsN np) s).1 ⟨⟨0, 0, #[]⟩, []⟩ with hc
  set t := s - (locate (dimsN np) s).2 with ht
  have hl : (dimsN np).length = (activeClusters np).length := by rw [dimsN_eq, List.length_map]
  have h1' : (locate (dimsN np) s).1 < (activeClusters np).length := by omega
  have hlen : t < (Cov.activeIdx 1 c.obs).length := by
    have gen : ∀ k, k < (activeClusters np).length →
        (dimsN np).getD k 0 = ((activeClusters np).getD k ⟨⟨0, 0, #[]⟩, []⟩).nAct := by
      intro k hk
      rw [dimsN_eq, List.getD_eq_getElem?_getD, List.getElem?_map, List.getD_eq_getElem?_getD,
        List.getElem?_eq_getElem hk]
      rfl
    have hk : (dimsN np).getD (locate (dimsN np) s).1 0 = c.nAct := gen _ h1'
    have : (clusterStdDev c).length = (Cov.activeIdx 1 c.obs).length := by
      unfold clusterStdDev; rw [List.length_map]
    have := clusterStdDev_length c
    omega
  unfold clusterStdDev
  rw [List.getD_eq_getElem?_getD, List.getElem?_map, List.getElem?_eq_getElem hlen]
  simp only [Option.map_some, Option.getD_some]
  have : (Cov.activeIdx 1 c.obs).toArray.getD t 0 = (Cov.activeIdx 1 c.obs)[t] := by
    rw [toArray_getD', List.getD_eq_getElem?_getD, List.getElem?_eq_getElem hlen]; rfl
  rw [this]

end Gama.Ls.Net
