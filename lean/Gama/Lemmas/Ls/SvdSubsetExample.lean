/-
  A defect-2 instance for `SVD::min_subset_x` whose two null columns are NOT orthogonal over the subset
  (they have to be orthogonalised against each other), with a subset of size exactly = defect; evaluated
  over ℚ by the kernel.  Non-vacuity of `C08_svd_subset_min_norm` / `C20_svd_subset_refusal`.
-/
import Gama.Lemmas.Ls.SvdProps
import Gama.Lemmas.Ls.SvdExample
namespace Gama.Ls.Svd.SubEx
open Matrix Finset Gama.LS Gama.Ls Gama.Ls.Svd

/-- square root on the values that occur in the example below, identity elsewhere -/
def sqE (x : ℚ) : ℚ := if x = 225 / 289 then 15 / 17 else if x = 16 / 25 then 4 / 5 else x

/-- A = [[12,12,1],[0,0,0],[0,0,0]] = U diag(0,0,17) Vᵀ, defect 2; the two null columns of V are NOT
    orthogonal over the subset S = {1, 3} (size exactly = defect) -/
def pD : Problem ℚ :=
  { m := 3, n := 3, rows := #[#[(1, 12), (2, 12), (3, 1)], #[], #[]], cov := #[⟨3, 0, #[1, 1, 1]⟩]
    rhs := #[17, 0, 0], reg := .subset [1, 3] }
def dD : Dec ℚ :=
  { U := #[#[0, 0, 1], #[0, 0, 0], #[0, 0, 0]], W := #[0, 0, 17]
    V := #[#[-9 / 17, 8 / 17, 12 / 17], #[8 / 17, -9 / 17, 12 / 17], #[12 / 17, 12 / 17, 1 / 17]] }

theorem pD_cert : SvdCert sqE (1 / 1000) pD.m pD.n (@Problem.dense ℚ (fieldScalar sqE) pD) dD :=
  ⟨by decide +kernel, by decide +kernel, by decide +kernel, by unfold Unambiguous; decide +kernel⟩

/-- the subset of size = defect is ACCEPTED; x = (0, 17/12, 0): both constrained unknowns get 0 -/
theorem pD_answer : ∃ a, @svdSolveCert ℚ (fieldScalar sqE) true (1 / 1000) dD pD = .ok a ∧
    a.x = #[0, 17 / 12, 0] ∧ a.defect = 2 := by
  have h : (@svdSolveCert ℚ (fieldScalar sqE) true (1 / 1000) dD pD).toOption.map (fun a => (a.x, a.defect))
      = some (#[0, 17 / 12, 0], 2) := by decide +kernel
  obtain ⟨a, h1, h2⟩ := Gama.Ls.Svd.Ex.ok_of_toOption h
  exact ⟨a, h1, congrArg Prod.fst h2, congrArg Prod.snd h2⟩

/-- a list shorter than the defect is refused by the test `defect > n_min` -/
theorem pD_refused : @svdSolveCert ℚ (fieldScalar sqE) true (1 / 1000) dD { pD with reg := .subset [2] }
    = .error .BadRegularization := by
  have h : (match @svdSolveCert ℚ (fieldScalar sqE) true (1 / 1000) dD { pD with reg := .subset [2] } with
      | .error e => some e | .ok _ => none) = some ErrKind.BadRegularization := by decide +kernel
  cases hh : @svdSolveCert ℚ (fieldScalar sqE) true (1 / 1000) dD { pD with reg := .subset [2] } with
  | error e => rw [hh] at h; simp at h; rw [h]
  | ok a => rw [hh] at h; simp at h

end Gama.Ls.Svd.SubEx
