/-
  The entry of the design matrix of the C01 theorems, `(p.A) i j` (`Problem.dense`: the LAST stored entry of a
  column wins), is the value `Lin.rowSum row (j+1)` a consumer of the sparse row sees (repeated entries ADD up —
  the quantity C05's Jacobian theorems are about) whenever the row has no repeated column and its columns are
  within `1..n` (`RowsOK`).

  ONE `Scalar ℝ`: `Lin.rowSum` is a function of the `Scalar` instance.  C05 reads it at `Gama.instScalarReal`
  (`Lemmas/RealScalar.lean`, THE declared instance), the C01 theorems read `toProblem` at `scalarOfField`
  (`= LS.fieldScalar Real.sqrt`, the generic instance of an ordered field with a root, specialised to ℝ — not a second
  declared instance, and it cannot be removed: the C01 theorems are stated for every such field).  The two are
  propositionally equal (`scalarReal_eq_fieldScalar`, `Lemmas/StatsCompose.lean`); `rowSum_real` transports
  `Lin.rowSum` across that equation, so statements of the two families compose.
-/
import Gama.Lemmas.Ls.AdjDense
import Gama.Lemmas.StatsCompose
import Gama.Model.LinPass
namespace Gama.Ls
open Finset Dn AdjM

set_option linter.unusedSectionVars false
set_option linter.unusedVariables false

section
variable {K : Type} [Field K] [LinearOrder K] [IsStrictOrderedRing K] [SqrtFn K]
attribute [local instance 2000] scalarOfField

theorem rowSum_nil (k : Nat) : Lin.rowSum ([] : List (Nat × K)) k = 0 := rfl

theorem rowSum_cons (e : Nat × K) (t : List (Nat × K)) (k : Nat) :
    Lin.rowSum (e :: t) k = (if e.1 = k then e.2 else 0) + Lin.rowSum t k := by
  show (if e.1 = k then e.2 + Lin.rowSum t k else Lin.rowSum t k) = _
  split
  · rfl
  · exact (zero_add _).symm

theorem rowSum_snoc (l : List (Nat × K)) (cv : Nat × K) (k : Nat) :
    Lin.rowSum (l ++ [cv]) k = Lin.rowSum l k + (if cv.1 = k then cv.2 else 0) := by
  induction l with
  | nil => rw [List.nil_append, rowSum_cons, rowSum_nil, add_zero, zero_add]
  | cons e t ih => rw [List.cons_append, rowSum_cons, rowSum_cons, ih, add_assoc]

/-- a dense row read in column `j` is the sum of the stored entries of column `j+1` (repeated columns allowed) -/
theorem rowDense_rowSum' (n : Nat) (l : List (Nat × K))
    (hr : ∀ cv ∈ l, 1 ≤ cv.1 ∧ cv.1 ≤ n) (j : Nat) (hj : j < n) :
    vget (rowDense n l) j = Lin.rowSum l (j + 1) := by
  induction l using List.reverseRecOn with
  | nil => rw [rowSum_nil]; exact rowDense_zero n [] j (by simp)
  | append_singleton l cv ih =>
    have hr1 : ∀ cv' ∈ l, 1 ≤ cv'.1 ∧ cv'.1 ≤ n := fun cv' h => hr cv' (by simp [h])
    obtain ⟨hc1, hc2⟩ := hr cv (by simp)
    rw [rowSum_snoc, rowDense_snoc, vget_set, ← ih hr1]
    by_cases h : cv.1 - 1 = j
    · rw [if_pos ⟨h, by rw [rowDense_size]; omega⟩, if_pos (by omega), h]
    · rw [if_neg (fun h' => h h'.1), if_neg (by omega), add_zero]

/-- the form with the (no longer needed) no-repeat hypothesis, kept for its callers -/
theorem rowDense_rowSum (n : Nat) (l : List (Nat × K)) (hnd : (l.map (·.1)).Nodup)
    (hr : ∀ cv ∈ l, 1 ≤ cv.1 ∧ cv.1 ≤ n) (j : Nat) (hj : j < n) :
    vget (rowDense n l) j = Lin.rowSum l (j + 1) := rowDense_rowSum' n l hr j hj

/-- **the matrix of the C01 theorems, entry by entry, is what the consumers of the sparse rows see** -/
theorem A_entry_rowSum (p : Problem K) (hrows : RowsOK p) (i : Fin p.m) (j : Fin p.n) :
    p.A i j = Lin.rowSum (p.rows.getD i.val #[]).toList (j.val + 1) := by
  have hr := hrows i.val i.isLt
  show mget p.dense i.val j.val = _
  rw [mget_dense]
  exact rowDense_rowSum' p.n _ hr j.val j.isLt

end

/-- `Lin.rowSum` at THE `Scalar ℝ` (C05's carrier) is `Lin.rowSum` at the field instance of the C01 theorems -/
theorem rowSum_real (l : List (Nat × ℝ)) (k : Nat) :
    @Lin.rowSum ℝ instScalarReal l k = @Lin.rowSum ℝ (LS.fieldScalar Real.sqrt) l k := by
  rw [scalarReal_eq_fieldScalar]

end Gama.Ls
