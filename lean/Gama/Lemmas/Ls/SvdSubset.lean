/-
  Invariants of `SVD::min_subset_x` (pure Mathlib, no model).

  `stepM S s V k` : the body of the `k` loop on a null column `k` with `s` the S-norm of the
  column (`V_k /= s`, every other column `V_j -= ⟨V_j, V_k⟩_S V_k`).

  `Inv A iw S V V' P` (after the null columns in `P` have been processed):
    * the non-null columns of `V'` differ from those of `V` by kernel vectors of `A`,
    * the null columns of `V'` are kernel vectors and still span `ker A`,
    * the processed columns are S-orthonormal and S-orthogonal to every other column.
  `Inv.step` : one step preserves it (needs `s ≠ 0` and `s² = ‖V'_k‖²_S` only).
-/
import Gama.Lemmas.Ls.SvdAlgebra
import Mathlib.Algebra.BigOperators.Field
import Mathlib.Tactic.FieldSimp

namespace Gama.Ls.Svd
open Matrix Finset Gama.LS

set_option linter.unusedSectionVars false
set_option linter.unusedVariables false
set_option linter.unusedSimpArgs false

variable {K : Type} [Field K]
variable {m n : Type} [Fintype m] [Fintype n] [DecidableEq n] [DecidableEq m]

/-- `⟨V_j, V_k / s⟩_S` -/
def aS (S : Finset n) (s : K) (V : Matrix n n K) (k j : n) : K := ∑ i ∈ S, V i j * (V i k / s)

/-- one step of `min_subset_x` on the (null) column `k` -/
def stepM (S : Finset n) (s : K) (V : Matrix n n K) (k : n) : Matrix n n K :=
  Matrix.of fun i j => if j = k then V i k / s else V i j - aS S s V k j * (V i k / s)

theorem stepM_k (S : Finset n) (s : K) (V : Matrix n n K) (k i : n) : stepM S s V k i k = V i k / s := by
  simp [stepM]

theorem stepM_ne (S : Finset n) (s : K) (V : Matrix n n K) (k i : n) {j : n} (h : j ≠ k) :
    stepM S s V k i j = V i j - aS S s V k j * (V i k / s) := by
  simp [stepM, h]

theorem stepM_col_k (S : Finset n) (s : K) (V : Matrix n n K) (k : n) :
    (fun i => stepM S s V k i k) = s⁻¹ • (fun i => V i k) := by
  funext i; rw [stepM_k]; simp [div_eq_inv_mul]

theorem stepM_col_ne (S : Finset n) (s : K) (V : Matrix n n K) (k : n) {j : n} (h : j ≠ k) :
    (fun i => stepM S s V k i j) = (fun i => V i j) - (aS S s V k j * s⁻¹) • (fun i => V i k) := by
  funext i; rw [stepM_ne _ _ _ _ _ h]; simp [div_eq_inv_mul]; ring

structure Inv (A : Matrix m n K) (iw : n → K) (S : Finset n) (V V' : Matrix n n K) (P : Finset n) : Prop where
  nonnull : ∀ j, iw j ≠ 0 → A *ᵥ (fun i => V' i j) = A *ᵥ (fun i => V i j)
  null : ∀ j, iw j = 0 → A *ᵥ (fun i => V' i j) = 0
  span : ∀ g, A *ᵥ g = 0 → ∃ c : n → K, (∀ j, iw j ≠ 0 → c j = 0) ∧ g = V' *ᵥ c
  orth : ∀ k ∈ P, ∀ j, j ≠ k → ∑ i ∈ S, V' i j * V' i k = 0
  unit : ∀ k ∈ P, ∑ i ∈ S, V' i k * V' i k = 1

/-- initially (nothing processed) -/
theorem Inv.init {A U : Matrix m n K} {W iw : n → K} {V : Matrix n n K} (hc : Cert A U W iw V)
    (S : Finset n) : Inv A iw S V V ∅ where
  nonnull := fun _ _ => rfl
  null := fun j hj => A_nullcol hc hj
  span := fun g hg => ker_span hc g hg
  orth := fun k hk => absurd hk (Finset.notMem_empty k)
  unit := fun k hk => absurd hk (Finset.notMem_empty k)

/-- `Σ_S (V_k/s)² = 1` -/
theorem unit_new {S : Finset n} {s : K} {V : Matrix n n K} {k : n}
    (hs : s ≠ 0) (hss : s * s = ∑ i ∈ S, V i k * V i k) :
    ∑ i ∈ S, (V i k / s) * (V i k / s) = 1 := by
  have : ∑ i ∈ S, (V i k / s) * (V i k / s) = (∑ i ∈ S, V i k * V i k) / (s * s) := by
    rw [Finset.sum_div]; refine Finset.sum_congr rfl fun i _ => by field_simp
  rw [this, ← hss]; field_simp

theorem Inv.step {A : Matrix m n K} {iw : n → K} {S : Finset n} {V V' : Matrix n n K} {P : Finset n}
    (h : Inv A iw S V V' P) {k : n} (hk : iw k = 0) (hkP : k ∉ P) {s : K} (hs : s ≠ 0)
    (hss : s * s = ∑ i ∈ S, V' i k * V' i k) :
    Inv A iw S V (stepM S s V' k) (insert k P) := by
  -- processed columns are untouched: their S-product with column k vanishes
  have ha0 : ∀ kk ∈ P, aS S s V' k kk = 0 := by
    intro kk hkk
    have hne : k ≠ kk := fun e => hkP (e ▸ hkk)
    have := h.orth kk hkk k hne
    unfold aS
    have e : ∑ i ∈ S, V' i kk * (V' i k / s) = (∑ i ∈ S, V' i k * V' i kk) / s := by
      rw [Finset.sum_div]; refine Finset.sum_congr rfl fun i _ => by ring
    rw [e, this, zero_div]
  have hcolP : ∀ kk ∈ P, ∀ i, stepM S s V' k i kk = V' i kk := by
    intro kk hkk i
    have hne : kk ≠ k := fun e => hkP (e ▸ hkk)
    rw [stepM_ne _ _ _ _ _ hne, ha0 kk hkk]; ring
  refine ⟨?_, ?_, ?_, ?_, ?_⟩
  · intro j hj
    have hne : j ≠ k := fun e => hj (e ▸ hk)
    rw [stepM_col_ne _ _ _ _ hne, mulVec_sub, mulVec_smul, h.null k hk, smul_zero, sub_zero]
    exact h.nonnull j hj
  · intro j hj
    by_cases hjk : j = k
    · subst hjk; rw [stepM_col_k, mulVec_smul, h.null j hk, smul_zero]
    · rw [stepM_col_ne _ _ _ _ hjk, mulVec_sub, mulVec_smul, h.null k hk, h.null j hj, smul_zero, sub_zero]
  · intro g hg
    obtain ⟨c, hc0, hgc⟩ := h.span g hg
    refine ⟨fun j => if j = k then s * c k + ∑ j ∈ univ.erase k, c j * aS S s V' k j else c j, ?_, ?_⟩
    · intro j hj
      have hne : j ≠ k := fun e => hj (e ▸ hk)
      simp only [hne, if_false]; exact hc0 j hj
    · rw [hgc]; funext i
      simp only [mulVec, dotProduct]
      rw [← Finset.add_sum_erase univ _ (Finset.mem_univ k), ← Finset.add_sum_erase univ _ (Finset.mem_univ k)]
      simp only [if_true, stepM_k]
      have e2 : ∑ j ∈ univ.erase k, stepM S s V' k i j * (if j = k then s * c k + ∑ j ∈ univ.erase k, c j * aS S s V' k j else c j)
          = ∑ j ∈ univ.erase k, (V' i j * c j - (V' i k / s) * (c j * aS S s V' k j)) := by
        refine Finset.sum_congr rfl fun j hj => ?_
        have hne : j ≠ k := (Finset.mem_erase.mp hj).1
        rw [stepM_ne _ _ _ _ _ hne]; simp only [hne, if_false]; ring
      rw [e2, Finset.sum_sub_distrib, ← Finset.mul_sum]
      field_simp
      ring
  · intro kk hkk j hj
    rcases Finset.mem_insert.mp hkk with rfl | hkkP
    · -- the new column
      simp only [stepM_k]
      have e : ∑ i ∈ S, stepM S s V' kk i j * (V' i kk / s)
          = aS S s V' kk j - aS S s V' kk j * ∑ i ∈ S, (V' i kk / s) * (V' i kk / s) := by
        rw [Finset.mul_sum, aS, ← Finset.sum_sub_distrib]
        refine Finset.sum_congr rfl fun i _ => ?_
        rw [stepM_ne _ _ _ _ _ hj]; unfold aS; ring
      rw [e, unit_new hs hss]; ring
    · have hne : kk ≠ k := fun e => hkP (e ▸ hkkP)
      simp only [hcolP kk hkkP]
      by_cases hjk : j = k
      · subst hjk
        simp only [stepM_k]
        have := h.orth kk hkkP j (fun e => hne e.symm)
        have e : ∑ i ∈ S, V' i j / s * V' i kk = (∑ i ∈ S, V' i j * V' i kk) / s := by
          rw [Finset.sum_div]; refine Finset.sum_congr rfl fun i _ => by ring
        rw [e, this, zero_div]
      · have e : ∑ i ∈ S, stepM S s V' k i j * V' i kk
            = ∑ i ∈ S, V' i j * V' i kk - (aS S s V' k j / s) * ∑ i ∈ S, V' i k * V' i kk := by
          rw [Finset.mul_sum, ← Finset.sum_sub_distrib]
          refine Finset.sum_congr rfl fun i _ => ?_
          rw [stepM_ne _ _ _ _ _ hjk]; ring
        rw [e, h.orth kk hkkP j hj, h.orth kk hkkP k (fun e => hne e.symm)]; ring
  · intro kk hkk
    rcases Finset.mem_insert.mp hkk with rfl | hkkP
    · simp only [stepM_k]; exact unit_new hs hss
    · simp only [hcolP kk hkkP]; exact h.unit kk hkkP

/-- what the solver needs from the final state: `A V' E = A V E` -/
theorem Inv.h1 {A U : Matrix m n K} {W iw : n → K} {S : Finset n} {V V' : Matrix n n K} {P : Finset n}
    (hc : Cert A U W iw V) (h : Inv A iw S V V' P) :
    A * V' * diagonal (ee W iw) = A * V * diagonal (ee W iw) := by
  ext i j
  rw [mul_diagonal, mul_diagonal]
  rcases ee_cases hc j with ⟨hj, he⟩ | ⟨hj, he⟩
  · rw [he, mul_zero, mul_zero]
  · have := congrFun (h.nonnull j hj) i
    simp only [mulVec, dotProduct] at this
    rw [he, mul_one, mul_one, Matrix.mul_apply, Matrix.mul_apply]; exact this

/-- the second criterion: `x' = V' t` with `t` supported on the non-null columns is S-orthogonal
    to the kernel once the non-null columns are S-orthogonal to the null ones -/
theorem orth_of_inv {A : Matrix m n K} {iw : n → K} {S : Finset n} {V' : Matrix n n K}
    (hspan : ∀ g, A *ᵥ g = 0 → ∃ c : n → K, (∀ j, iw j ≠ 0 → c j = 0) ∧ g = V' *ᵥ c)
    (horth : ∀ j k, iw j ≠ 0 → iw k = 0 → ∑ i ∈ S, V' i j * V' i k = 0)
    (t : n → K) (ht : ∀ j, iw j = 0 → t j = 0) :
    ∀ g, A *ᵥ g = 0 → ∑ i ∈ S, (V' *ᵥ t) i * g i = 0 := by
  intro g hg
  obtain ⟨c, hc0, rfl⟩ := hspan g hg
  have : ∑ i ∈ S, (V' *ᵥ t) i * (V' *ᵥ c) i = ∑ j, ∑ k, t j * c k * ∑ i ∈ S, V' i j * V' i k := by
    simp only [mulVec, dotProduct]
    calc ∑ i ∈ S, (∑ j, V' i j * t j) * (∑ k, V' i k * c k)
        = ∑ i ∈ S, ∑ j, ∑ k, t j * c k * (V' i j * V' i k) := by
          refine Finset.sum_congr rfl fun i _ => ?_
          rw [Finset.sum_mul_sum]
          refine Finset.sum_congr rfl fun j _ => Finset.sum_congr rfl fun k _ => by ring
      _ = ∑ j, ∑ i ∈ S, ∑ k, t j * c k * (V' i j * V' i k) := Finset.sum_comm
      _ = ∑ j, ∑ k, ∑ i ∈ S, t j * c k * (V' i j * V' i k) := by
          refine Finset.sum_congr rfl fun j _ => Finset.sum_comm
      _ = _ := by
          refine Finset.sum_congr rfl fun j _ => Finset.sum_congr rfl fun k _ => ?_
          rw [Finset.mul_sum]
  rw [this]
  refine Finset.sum_eq_zero fun j _ => Finset.sum_eq_zero fun k _ => ?_
  by_cases hj : iw j = 0
  · rw [ht j hj]; ring
  · by_cases hk : iw k = 0
    · rw [horth j k hj hk]; ring
    · rw [hc0 k hk]; ring

end Gama.Ls.Svd
