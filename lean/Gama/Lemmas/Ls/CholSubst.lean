/-
  Forward substitution, division by the pivots and backward substitution of `AdjCholDec::solve`
  (`Chol.fwdSub / diagDiv / backSub`) satisfy their triangular recurrences; with the
  factorisation `N = L D Lᵀ` (`LDLInv … n`) the result solves `N x = rhs`.
-/
import Gama.Lemmas.Ls.CholSweep
import Gama.Lemmas.Ls.CholFactor

namespace Gama.Ls
open Finset Dn Chol

set_option linter.unusedSectionVars false
set_option linter.unusedVariables false

section
variable {K : Type} [Field K] [LinearOrder K] [IsStrictOrderedRing K] [SqrtFn K]
attribute [local instance 2000] scalarOfField

theorem fwdSub_spec {n N0 : Nat} {perm : Array Nat} (hP : IsPerm n perm) (hN0 : N0 ≤ n)
    (a : DMat K) (x : Array K) (hx : x.size = n) :
    (fwdSub N0 perm a x).size = n ∧
    (∀ ii, ii < N0 → vget (fwdSub N0 perm a x) (pget perm ii) = vget x (pget perm ii)
        - ∑ jj ∈ range ii, sget a (pget perm ii) (pget perm jj) * vget (fwdSub N0 perm a x) (pget perm jj)) ∧
    (∀ ii, N0 ≤ ii → ii < n → vget (fwdSub N0 perm a x) (pget perm ii) = vget x (pget perm ii)) := by
  unfold fwdSub
  have hmem : ∀ ii, ii ∈ List.range' 1 (N0 - 1) ↔ 1 ≤ ii ∧ ii < N0 := by
    intro ii; rw [List.mem_range'_1]; omega
  obtain ⟨hsz, hval, hframe⟩ := sweep_spec (pget perm) (fun _ => 0) (fun ii => ii)
    (fun ii jj => sget a (pget perm ii) (pget perm jj)) (fun _ => none) n n hP.lt hP.inj
    (List.range' 1 (N0 - 1)) x hx
    (by intro ii hii; have := (hmem ii).1 hii; refine ⟨by omega, by omega, ?_⟩; simp)
    (by
      refine List.Pairwise.imp ?_ (List.pairwise_lt_range' (s := 1) (n := N0 - 1))
      intro a b hab
      refine ⟨by omega, ?_⟩
      simp; omega)
  refine ⟨hsz, ?_, ?_⟩
  · intro ii hii
    by_cases h0 : ii = 0
    · subst h0
      rw [hframe]
      · simp
      · intro jj hjj e
        have hj := (hmem jj).1 hjj
        have := hP.inj 0 jj (by omega) (by omega) e
        omega
    · rw [hval ii ((hmem ii).2 ⟨by omega, hii⟩)]
      unfold sweepVal
      simp only [Finset.range_eq_Ico]
  · intro ii h1 h2
    rw [hframe]
    intro jj hjj e
    have hj := (hmem jj).1 hjj
    have := hP.inj ii jj h2 (by omega) e
    omega

theorem diagDiv_spec {n N0 : Nat} {perm : Array Nat} (hP : IsPerm n perm) (hN0 : N0 ≤ n)
    (a : DMat K) (x : Array K) (hx : x.size = n) :
    (diagDiv N0 perm a x).size = n ∧
    (∀ ii, ii < N0 → vget (diagDiv N0 perm a x) (pget perm ii) = vget x (pget perm ii) / dd perm a ii) ∧
    (∀ ii, N0 ≤ ii → ii < n → vget (diagDiv N0 perm a x) (pget perm ii) = vget x (pget perm ii)) := by
  unfold diagDiv
  obtain ⟨hsz, hval, hframe⟩ := sweep_spec (pget perm) (fun _ => 0) (fun _ => 0)
    (fun ii jj => sget a (pget perm ii) (pget perm jj))
    (fun ii => some (mget a (pget perm ii) (pget perm ii))) n n hP.lt hP.inj
    (List.range N0) x hx
    (by intro ii hii; have := List.mem_range.1 hii; refine ⟨by omega, by omega, ?_⟩; simp)
    (by
      refine List.Pairwise.imp ?_ (List.pairwise_lt_range (n := N0))
      intro a b hab
      refine ⟨by omega, ?_⟩
      simp)
  refine ⟨hsz, ?_, ?_⟩
  · intro ii hii
    rw [hval ii (List.mem_range.2 hii)]
    unfold sweepVal
    simp only [Finset.Ico_self, Finset.sum_empty, sub_zero]
    unfold dd sget; rw [if_pos (le_refl _)]
  · intro ii h1 h2
    rw [hframe]
    intro jj hjj e
    have hj := List.mem_range.1 hjj
    have := hP.inj ii jj h2 (by omega) e
    omega

theorem backSub_spec {n N0 : Nat} {perm : Array Nat} (hP : IsPerm n perm) (hN0 : N0 ≤ n)
    (a : DMat K) (x : Array K) (hx : x.size = n) :
    (backSub N0 perm a x).size = n ∧
    (∀ ii, ii < N0 → vget (backSub N0 perm a x) (pget perm ii) = vget x (pget perm ii)
        - ∑ jj ∈ Ico (ii + 1) N0, sget a (pget perm ii) (pget perm jj) * vget (backSub N0 perm a x) (pget perm jj)) ∧
    (∀ ii, N0 ≤ ii → ii < n → vget (backSub N0 perm a x) (pget perm ii) = vget x (pget perm ii)) := by
  unfold backSub
  have hmem : ∀ ii, ii ∈ (List.range (N0 - 1)).reverse ↔ ii + 1 < N0 := by
    intro ii; rw [List.mem_reverse, List.mem_range]; omega
  obtain ⟨hsz, hval, hframe⟩ := sweep_spec (pget perm) (fun ii => ii + 1) (fun _ => N0)
    (fun ii jj => sget a (pget perm ii) (pget perm jj)) (fun _ => none) n n hP.lt hP.inj
    (List.range (N0 - 1)).reverse x hx
    (by intro ii hii; have := (hmem ii).1 hii; refine ⟨by omega, by omega, ?_⟩; simp)
    (by
      rw [List.pairwise_reverse]
      refine List.Pairwise.imp ?_ (List.pairwise_lt_range (n := N0 - 1))
      intro a b hab
      refine ⟨by omega, ?_⟩
      simp; omega)
  refine ⟨hsz, ?_, ?_⟩
  · intro ii hii
    by_cases h0 : ii + 1 = N0
    · rw [hframe]
      · rw [← h0]; simp
      · intro jj hjj e
        have hj := (hmem jj).1 hjj
        have := hP.inj ii jj (by omega) (by omega) e
        omega
    · rw [hval ii ((hmem ii).2 (by omega))]
      unfold sweepVal
      rfl
  · intro ii h1 h2
    rw [hframe]
    intro jj hjj e
    have hj := (hmem jj).1 hjj
    have := hP.inj ii jj h2 (by omega) e
    omega

/-! ### sums against a triangular column -/

theorem sum_tri_lt (n ii : Nat) (hii : ii < n) (f g : Nat → K) :
    ∑ k ∈ range n, (if ii = k then 1 else if k < ii then f k else 0) * g k
      = g ii + ∑ k ∈ range ii, f k * g k := by
  rw [Finset.range_eq_Ico, ← Finset.sum_Ico_consecutive _ (Nat.zero_le ii) (le_of_lt hii),
    Finset.sum_eq_sum_Ico_succ_bot hii]
  have h1 : ∑ k ∈ Ico 0 ii, (if ii = k then 1 else if k < ii then f k else 0) * g k
      = ∑ k ∈ Ico 0 ii, f k * g k := by
    refine Finset.sum_congr rfl fun k hk => ?_
    have := (Finset.mem_Ico.1 hk).2
    rw [if_neg (by omega), if_pos this]
  have h2 : ∑ k ∈ Ico (ii + 1) n, (if ii = k then 1 else if k < ii then f k else 0) * g k = 0 := by
    refine Finset.sum_eq_zero fun k hk => ?_
    have := (Finset.mem_Ico.1 hk).1
    rw [if_neg (by omega), if_neg (by omega), zero_mul]
  rw [h1, h2]; simp; ring

theorem sum_tri_gt (n ii : Nat) (hii : ii < n) (f g : Nat → K) :
    ∑ k ∈ range n, (if k = ii then 1 else if ii < k then f k else 0) * g k
      = g ii + ∑ k ∈ Ico (ii + 1) n, f k * g k := by
  rw [Finset.range_eq_Ico, ← Finset.sum_Ico_consecutive _ (Nat.zero_le ii) (le_of_lt hii),
    Finset.sum_eq_sum_Ico_succ_bot hii]
  have h1 : ∑ k ∈ Ico 0 ii, (if k = ii then 1 else if ii < k then f k else 0) * g k = 0 := by
    refine Finset.sum_eq_zero fun k hk => ?_
    have := (Finset.mem_Ico.1 hk).2
    rw [if_neg (by omega), if_neg (by omega), zero_mul]
  have h2 : ∑ k ∈ Ico (ii + 1) n, (if k = ii then 1 else if ii < k then f k else 0) * g k
      = ∑ k ∈ Ico (ii + 1) n, f k * g k := by
    refine Finset.sum_congr rfl fun k hk => ?_
    have := (Finset.mem_Ico.1 hk).1
    rw [if_neg (by omega), if_pos (by omega)]
  rw [h1, h2]; simp

/-- reindexing a sum over the unknowns by the ordering -/
theorem sum_perm {n : Nat} {perm : Array Nat} (hP : IsPerm n perm) (F : Nat → K) :
    ∑ v ∈ range n, F v = ∑ jj ∈ range n, F (pget perm jj) := by
  refine Finset.sum_nbij' (qq n perm) (pget perm) ?_ ?_ ?_ ?_ ?_
  · intro v hv; exact Finset.mem_range.2 (qq_spec hP v (Finset.mem_range.1 hv)).1
  · intro k hk; exact Finset.mem_range.2 (hP.lt k (Finset.mem_range.1 hk))
  · intro v hv; exact (qq_spec hP v (Finset.mem_range.1 hv)).2
  · intro k hk; exact qq_perm hP k (Finset.mem_range.1 hk)
  · intro v hv; rw [(qq_spec hP v (Finset.mem_range.1 hv)).2]

/-- `ℓ_k` at the unknown in position `jj` -/
theorem ell_perm {n : Nat} {perm : Array Nat} (hP : IsPerm n perm) (a : DMat K) (k jj : Nat) (hjj : jj < n) :
    ell n perm a k (pget perm jj) =
      if jj = k then 1 else if k < jj then sget a (pget perm jj) (pget perm k) else 0 := by
  unfold ell; rw [qq_perm hP jj hjj]

/-- **solve**: with `N = L D Lᵀ` (all `n` pivots accepted) the three sweeps solve `N x = rhs` -/
theorem solve_regular {n : Nat} {tol : K} {Nf : Nat → Nat → K} {perm : Array Nat} {a : DMat K}
    (h : LDLInv n tol Nf perm a n) (htol : 0 ≤ tol) (x : Array K) (hx : x.size = n) :
    ∀ u, u < n →
      ∑ v ∈ range n, Nf u v * vget (backSub n perm a (diagDiv n perm a (fwdSub n perm a x))) v = vget x u := by
  have hP := h.isPerm
  obtain ⟨s1, f1, _⟩ := fwdSub_spec hP (le_refl n) a x hx
  obtain ⟨s2, f2, _⟩ := diagDiv_spec hP (le_refl n) a _ s1
  obtain ⟨s3, f3, _⟩ := backSub_spec hP (le_refl n) a _ s2
  set y1 := fwdSub n perm a x with hy1
  set y2 := diagDiv n perm a y1 with hy2
  set y3 := backSub n perm a y2 with hy3
  have hd : ∀ k, k < n → dd perm a k ≠ 0 := fun k hk => ne_of_gt (lt_of_le_of_lt htol (h.piv k hk))
  -- (Lᵀ y3)_k = y1_k / d_k
  have hLt : ∀ k, k < n → ∑ v ∈ range n, ell n perm a k v * vget y3 v = vget y1 (pget perm k) / dd perm a k := by
    intro k hk
    rw [sum_perm hP]
    have : ∑ jj ∈ range n, ell n perm a k (pget perm jj) * vget y3 (pget perm jj)
        = ∑ jj ∈ range n, (if jj = k then 1 else if k < jj then sget a (pget perm k) (pget perm jj) else 0)
            * vget y3 (pget perm jj) := by
      refine Finset.sum_congr rfl fun jj hjj => ?_
      rw [ell_perm hP a k jj (Finset.mem_range.1 hjj), sget_comm a (pget perm jj) (pget perm k)]
    rw [this, sum_tri_gt n k hk (fun jj => sget a (pget perm k) (pget perm jj)) (fun jj => vget y3 (pget perm jj))]
    rw [f3 k hk, f2 k hk]; ring
  intro u hu
  obtain ⟨ii, hii, rfl⟩ := hP.surj u hu
  have hNf : ∀ v, v < n → Nf (pget perm ii) v
      = ∑ k ∈ range n, ell n perm a k (pget perm ii) * dd perm a k * ell n perm a k v := by
    intro v hv
    rw [h.dec _ v (hP.lt ii hii) hv]
    unfold trail
    have := (qq_spec hP v hv).1
    rw [if_neg (by omega), zero_add]
  calc ∑ v ∈ range n, Nf (pget perm ii) v * vget y3 v
      = ∑ v ∈ range n, ∑ k ∈ range n, ell n perm a k (pget perm ii) * dd perm a k * (ell n perm a k v * vget y3 v) := by
        refine Finset.sum_congr rfl fun v hv => ?_
        rw [hNf v (Finset.mem_range.1 hv), Finset.sum_mul]
        refine Finset.sum_congr rfl fun k _ => by ring
    _ = ∑ k ∈ range n, ell n perm a k (pget perm ii) * dd perm a k * ∑ v ∈ range n, ell n perm a k v * vget y3 v := by
        rw [Finset.sum_comm]
        refine Finset.sum_congr rfl fun k _ => ?_
        rw [Finset.mul_sum]
    _ = ∑ k ∈ range n, (if ii = k then 1 else if k < ii then sget a (pget perm ii) (pget perm k) else 0)
          * vget y1 (pget perm k) := by
        refine Finset.sum_congr rfl fun k hk => ?_
        have hk' := Finset.mem_range.1 hk
        rw [hLt k hk', ell_perm hP a k ii hii]
        have := hd k hk'
        field_simp
    _ = vget x (pget perm ii) := by
        rw [sum_tri_lt n ii hii (fun k => sget a (pget perm ii) (pget perm k)) (fun k => vget y1 (pget perm k))]
        rw [f1 ii hii]; ring

end
end Gama.Ls
