/-
  Envelope solver: the singular (and regular) case in the numbering of the problem and for the
  original weighted system — `C01_envelope` in full.
-/
import Gama.Lemmas.Ls.EnvSingular

namespace Gama.Ls.Env
open Finset Matrix Gama.LS

set_option linter.unusedSectionVars false

variable {K : Type} [Field K] [LinearOrder K] [IsStrictOrderedRing K] (sq : K → K)
local notation "𝔽" => fieldScalar sq

variable (tol stol : K) (m n : ℕ) (A : DMat K) (b : Array K) (At : DMat K) (bt : Array K)
  (reg : Reg) (o : EnvOrd)

/-- from the new numbering back to the numbering of the problem (LS5) -/
theorem lift_orig (hO : OrdOK n o) {Sf : Finset (Fin n)} {xn : Fin n → K} {vb : Fin m → K} {rtr : K}
    (h : IsLSSolution (ApM sq tol m n At bt o) (btV sq tol m n At bt o) 1 Sf xn vb rtr) :
    IsLSSolution (toMatrix m n At) (toVec m bt) 1 (Sf.map hO.equiv.toEmbedding) (xn ∘ hO.equiv.symm) vb rtr := by
  have h1 := IsLSSolution.perm (Equiv.refl (Fin m)) hO.equiv.symm h
  have e1 : (ApM sq tol m n At bt o).submatrix (Equiv.refl (Fin m)) hO.equiv.symm = toMatrix m n At := by
    rw [ApM_eq_submatrix sq tol m n At bt o hO]
    ext i j; simp
  have e2 : (1 : Matrix (Fin m) (Fin m) K).submatrix (Equiv.refl (Fin m)) (Equiv.refl (Fin m)) = 1 := by
    ext i j; simp [one_apply]
  rw [e1, e2] at h1
  rw [← btV_eq sq tol m n At bt o]
  simpa using h1

/-- the regularisation list (new numbering) describes the subset `Sorig` of unknowns -/
structure RegOK (n : ℕ) (o : EnvOrd) (reg : Reg) (Sorig : Finset (Fin n)) : Prop where
  nodup : (regList n o reg).Nodup
  lt : ∀ k ∈ regList n o reg, k < n
  mem : ∀ j : Fin n, j ∈ Sorig ↔ o.invp.getD j 0 ∈ regList n o reg

/-- **C01 (envelope)**, regular or singular: whenever `unknowns()` returns, the answers are the
    least-squares solution of `(A, b, P)` with minimal seminorm over the regularisation subset -/
theorem envCore_isLS (hsq : IsSqrt sq) (hO : OrdOK n o) (hU : FactUnambiguous sq tol m n At bt o)
    (htol : 0 < tol) (hstol : 0 < stol)
    {P W : Matrix (Fin m) (Fin m) K} (hW : Wᵀ * W = P) (hWinj : ∀ d, W *ᵥ d = 0 → d = 0)
    (hAt : toMatrix m n At = W * toMatrix m n A) (hbt : toVec m bt = W *ᵥ toVec m b)
    {Sorig : Finset (Fin n)} (hreg : RegOK n o reg Sorig) {x : Array K}
    (hx : (@envCore K 𝔽 tol stol m n A b At bt reg o).x = .ok x) :
    IsLSSolution (toMatrix m n A) (toVec m b) P Sorig (toVec n x)
      (toVec m (@envCore K 𝔽 tol stol m n A b At bt reg o).r)
      (@envCore K 𝔽 tol stol m n A b At bt reg o).rtr := by
  -- what `solve_x` returned
  have hx' : (@solveX K 𝔽 (@factor K 𝔽 tol m n At bt o) (regList n o reg) stol).map
      (fun gx => @vecOf K n fun j => @vget K 𝔽 gx.2 (o.invp.getD j 0)) = .ok x := hx
  cases hs : @solveX K 𝔽 (@factor K 𝔽 tol m n At bt o) (regList n o reg) stol with
  | error e => rw [hs] at hx'; cases hx'
  | ok gx =>
    obtain ⟨G, xn⟩ := gx
    rw [hs] at hx'
    have hxe : x = @vecOf K n fun j => @vget K 𝔽 xn (o.invp.getD j 0) := by cases hx'; rfl
    have hxv : toVec n x = av sq n xn ∘ hO.equiv.symm := by
      rw [hxe, toVec_vecOf sq]; rfl
    -- new numbering
    have hmemf : ∀ i : Fin n, i ∈ Sorig.map hO.equiv.symm.toEmbedding ↔ i.1 ∈ regList n o reg := by
      intro i
      rw [Finset.mem_map_equiv, Equiv.symm_symm, hreg.mem]
      have : o.invp.getD (hO.equiv i) 0 = i.1 := hO.left i i.2
      rw [this]
    have h1 := x_isLS_new sq tol stol m n At bt o hsq hU htol hstol hreg.nodup hreg.lt hmemf hs
    have h2 := lift_orig sq tol m n At bt o hO h1
    have hSS : (Sorig.map hO.equiv.symm.toEmbedding).map hO.equiv.toEmbedding = Sorig := by
      ext j; simp
    rw [hSS, hAt, hbt] at h2
    have h3 := IsLSSolution.of_whitened hW h2
    -- residuals: the model computes them from the particular solution
    have hr := envCore_r sq tol stol m n A b At bt reg o hO
    have hres : toMatrix m n A *ᵥ (av sq n xn ∘ hO.equiv.symm) - toVec m b
        = toMatrix m n A *ᵥ xOrig sq tol m n At bt o hO - toVec m b := by
      have w1 := h2.whitened_residual
      have w2 : ApM sq tol m n At bt o *ᵥ x0V sq tol m n At bt o - btV sq tol m n At bt o
          = W *ᵥ (toMatrix m n A *ᵥ xOrig sq tol m n At bt o hO - toVec m b) := by
        rw [mulVec_sub, mulVec_mulVec, ← hAt, ← hbt, At_mulVec sq tol m n At bt o hO, xOrig_comp]; rfl
      have w3 : W *ᵥ ((toMatrix m n A *ᵥ (av sq n xn ∘ hO.equiv.symm) - toVec m b)
          - (toMatrix m n A *ᵥ xOrig sq tol m n At bt o hO - toVec m b)) = 0 := by
        rw [mulVec_sub, ← w1, ← w2, sub_self]
      exact sub_eq_zero.1 (hWinj _ w3)
    rw [hxv, hr, envCore_rtr, ← hres]
    exact h3


/-! ### the regularisation list -/

theorem OrdOK.invp_inj {n : ℕ} {o : EnvOrd} (hO : OrdOK n o) {a b : ℕ} (ha : a < n) (hb : b < n)
    (h : o.invp.getD a 0 = o.invp.getD b 0) : a = b := by
  rw [← hO.right a ha, ← hO.right b hb, h]

/-- `min_x()` / nothing configured: all unknowns -/
theorem regOK_all {n : ℕ} {o : EnvOrd} (hO : OrdOK n o) (reg : Reg) (hr : reg = .all ∨ reg = .none) :
    RegOK n o reg (reg.toFinset n) := by
  have hl : regList n o reg = (List.range n).map fun i => o.invp.getD i 0 := by
    rcases hr with rfl | rfl <;> rfl
  have hs : reg.toFinset n = Finset.univ := by rcases hr with rfl | rfl <;> rfl
  refine ⟨?_, ?_, ?_⟩
  · rw [hl]
    refine List.Nodup.map_on ?_ List.nodup_range
    intro a ha b hb h
    exact hO.invp_inj (List.mem_range.1 ha) (List.mem_range.1 hb) h
  · rw [hl]; intro k hk
    obtain ⟨i, hi, rfl⟩ := List.mem_map.1 hk
    exact hO.invp_lt i (List.mem_range.1 hi)
  · intro j
    rw [hs, hl]
    simp only [Finset.mem_univ, true_iff]
    exact List.mem_map.2 ⟨j.1, List.mem_range.2 j.2, rfl⟩

/-- `min_x(n, list)` with a list of distinct valid (1-based) unknown numbers -/
theorem regOK_subset {n : ℕ} {o : EnvOrd} (hO : OrdOK n o) (l : List ℕ) (hnd : l.Nodup)
    (hl : ∀ k ∈ l, 1 ≤ k ∧ k ≤ n) : RegOK n o (.subset l) ((Reg.subset l).toFinset n) := by
  have hrl : regList n o (.subset l) = l.map fun k => o.invp.getD (k - 1) 0 := rfl
  refine ⟨?_, ?_, ?_⟩
  · rw [hrl]
    refine List.Nodup.map_on ?_ hnd
    intro a ha b hb h
    have h1 := hl a ha
    have h2 := hl b hb
    have := hO.invp_inj (by omega : a - 1 < n) (by omega : b - 1 < n) h
    omega
  · rw [hrl]; intro k hk
    obtain ⟨i, hi, rfl⟩ := List.mem_map.1 hk
    have := hl i hi
    exact hO.invp_lt _ (by omega)
  · intro j
    rw [Reg.mem_toFinset_subset, hrl, List.mem_map]
    constructor
    · intro h; exact ⟨j.1 + 1, h, by simp⟩
    · rintro ⟨k, hk, h⟩
      have h1 := hl k hk
      have := hO.invp_inj (by omega : k - 1 < n) j.2 h
      have e : k = j.1 + 1 := by omega
      rw [← e]; exact hk

end Gama.Ls.Env
