/-
  Cofactor accessors of the `LocalNetwork` model on the instance `Ex.npQ` of
  `Lemmas/Ls/NetFacadeExample.lean` (correlated cluster with an excluded observation, an all-passive
  cluster, a single observation; `m0 = 2`; `A = [[4,4],[5,5],[4,4]]`, defect 1, `min_x_ = [1]`),
  evaluated by the kernel over ℚ with the partial square root `Ex.sqQ`.

  The solver sees `A_hom = [[2,2],[1,1],[2,2]]`; unknown 1 carries the regularisation, so
  `Q = [[0,0],[0,1/9]]` (`1/9 = 1/(2²+1²+2²)`) and `q_bb = A_hom Q A_homᵀ = (1/9)·(2,1,2)ᵀ(2,1,2)`:
  symmetric, idempotent, trace `1 = n − defect`; identical through the dense path (cholesky) and the
  sparse path (envelope).
-/
import Gama.Lemmas.Ls.NetFacadeExample

namespace Gama.Ls.Ex
open Gama Gama.Ls Gama.Ls.Net Gama.LS Matrix
attribute [local instance 2000] scalarOfField

/-- the cofactor accessors of an answer, all index pairs of the 2 unknowns and the 3 observations -/
def cofTable (a : NetAnswer ℚ) : List (Option ℚ) × List (Option ℚ) :=
  ([a.qxx 1 1, a.qxx 1 2, a.qxx 2 1, a.qxx 2 2].map Except.toOption,
   [a.qbb 1 1, a.qbb 1 2, a.qbb 1 3, a.qbb 2 1, a.qbb 2 2, a.qbb 2 3, a.qbb 3 1, a.qbb 3 2, a.qbb 3 3].map Except.toOption)

def cofTableQ : List (Option ℚ) × List (Option ℚ) :=
  ([some 0, some 0, some 0, some (1/9)],
   [some (4/9), some (2/9), some (4/9), some (2/9), some (1/9), some (2/9), some (4/9), some (2/9), some (4/9)])

theorem npQ_chol_cof : ∃ a, netSolve .chol npQ = .ok a ∧ a.defect = 1 ∧ cofTable a = cofTableQ := by
  have h : (netSolve .chol npQ).toOption.map (fun a => (a.defect, cofTable a)) = some (1, cofTableQ) := by
    decide +kernel
  obtain ⟨a, h1, h2⟩ := ok_of_toOption h
  simp only [Prod.mk.injEq] at h2
  exact ⟨a, h1, h2.1, h2.2⟩

theorem npQ_env_cof : ∃ a, netSolve .env npQ = .ok a ∧ a.defect = 1 ∧ cofTable a = cofTableQ := by
  have h : (netSolve .env npQ).toOption.map (fun a => (a.defect, cofTable a)) = some (1, cofTableQ) := by
    decide +kernel
  obtain ⟨a, h1, h2⟩ := ok_of_toOption h
  simp only [Prod.mk.injEq] at h2
  exact ⟨a, h1, h2.1, h2.2⟩

/-- the normal matrix `N = AᵀPA`, `P = m0²·Σ⁻¹`, of `npQ` -/
def NQ : Matrix (Fin 2) (Fin 2) ℚ := (toProblem npQ).Aᵀ * ((npQ.m0 * npQ.m0) • PcQ) * (toProblem npQ).A
/-- the matrices the accessors report (`cofTableQ`) -/
def QQ : Matrix (Fin 2) (Fin 2) ℚ := !![0, 0; 0, 1/9]
def BQ : Matrix (Fin 3) (Fin 3) ℚ := !![4/9, 2/9, 4/9; 2/9, 1/9, 2/9; 4/9, 2/9, 4/9]

/-- the reported numbers satisfy the clauses of C03 directly -/
theorem npQ_clauses : NQ * QQ * NQ = NQ ∧ QQ * NQ * QQ = QQ ∧ BQ * BQ = BQ ∧ BQᵀ = BQ
    ∧ ∑ i, (1 - BQ i i) = (3 : ℚ) - 2 + 1 := by
  refine ⟨?_, ?_, ?_, ?_, ?_⟩ <;> decide +kernel

/-- `min_x_ = [1]` resolves the defect of `A = [[4,4],[5,5],[4,4]]` (kernel `(1,−1)`) -/
theorem npQ_resolves : Resolves (toProblem npQ).A (toProblem npQ).S := by
  intro g hg hS
  have e00 : (toProblem npQ).A (0 : Fin 3) (0 : Fin 2) = (4 : ℚ) := by decide +kernel
  have e01 : (toProblem npQ).A (0 : Fin 3) (1 : Fin 2) = (4 : ℚ) := by decide +kernel
  have hmem : (0 : Fin 2) ∈ (toProblem npQ).S := by
    show (0 : Fin 2) ∈ Reg.toFinset _ (.subset [1])
    rw [Reg.mem_toFinset_subset]
    simp
  have h0 : g (0 : Fin 2) = 0 := hS (0 : Fin 2) hmem
  have h1 : ∑ j : Fin 2, (toProblem npQ).A (0 : Fin 3) j * g j = 0 := congrFun hg (0 : Fin 3)
  rw [Fin.sum_univ_two, e00, e01, h0] at h1
  have h2 : g (1 : Fin 2) = 0 := by linarith
  funext i
  have hi : i = (0 : Fin 2) ∨ i = (1 : Fin 2) := by
    rcases i with ⟨v, hv⟩
    have hv' : v < 2 := hv
    rcases (by omega : v = 0 ∨ v = 1) with rfl | rfl
    · exact Or.inl rfl
    · exact Or.inr rfl
  rcases hi with rfl | rfl
  · exact h0
  · exact h2

end Gama.Ls.Ex
