/-
  `LocalNetwork` façade: the dense system `prepareProjectEquations()` leaves in the base class and the
  system `Homogenization::run` builds inside the envelope solver from what `project_equations()` hands
  over are THE SAME matrix and vector.

  The two code paths factor every cofactor block with different kernels — `CovMat::cholDec` +
  `Adj::choldec` + `Adj::forwardSubstitution` (dense path, `Net.prepare`) versus
  `BlockDiagonal::cholDec` + the column sweep of `Homogenization::run` (sparse path, `Env.homogenize`).
  Block by block the factors agree (C10 `Cov.sparse_dense_agree`: uniqueness of the Cholesky factor with
  positive diagonal), hence the assembled block lower factors agree, and `L̃·Ã = A` has one solution.
  Consequence: the `q_bb` the envelope solver reports through `LocalNetwork` is the hat matrix of the very
  system `(A, b)` the probe reads from the base class — one statement for all four algorithms.
-/
import Gama.Lemmas.Ls.NetFacade
import Gama.Lemmas.CovAgree

namespace Gama.Ls.Net
open Finset Matrix Gama.LS Gama.Ls.AdjM Dn Gama.Ls.Env

set_option linter.unusedSectionVars false
set_option linter.unusedVariables false

section transfer
variable {K : Type} [Field K] [LinearOrder K] [IsStrictOrderedRing K] (sq : K → K)

/-- C10's `sparse_dense_agree` (first part) for an arbitrary name of the field scalar structure -/
theorem agree_transfer (S : Scalar K) (hS : S = Cov.fieldScalar K sq)
    (hsq : ∀ x : K, 0 < x → sq x * sq x = x ∧ 0 < sq x) {C U F : Cov.CovMat K} (hC : C.WF)
    (tol : K) (htol : 0 < tol) (hd : @Cov.adjCholdec K S C = .ok U) (hs : @Cov.bdCholBlock K S tol C = .ok F) :
    ∀ i j, 1 ≤ i → i ≤ j → j ≤ C.dim → @Cov.CovMat.get K S.toZero F i j = @Cov.CovMat.get K S.toZero U i j := by
  subst hS
  letI : Gama.Cov.SqrtFn K := ⟨sq⟩
  exact (Cov.sparse_dense_agree hC hsq tol htol hd hs).1

end transfer

variable {K : Type} [Field K] [LinearOrder K] [IsStrictOrderedRing K] [SqrtFn K]
attribute [local instance 2000] scalarOfField

/-- block `k` of the system handed to the sparse solver is the cofactor matrix of cluster `k` -/
theorem cov_getElem_of (np : NetProblem K) (k : Nat) (C : Cov.CovMat K) (h : (cofs np)[k]? = some C) :
    (toProblem np).cov.toList[k]? = some (blkOf C) := by
  rw [cov_toList, List.getElem?_map, h]; rfl

/-- per cluster the two factorisations give the same lower factor -/
theorem lower_agree (hsq : IsSqrt (SqrtFn.sq : K → K)) (np : NetProblem K)
    (Us Fs : List (Cov.CovMat K)) (hU : factors (cofs np) = .ok Us)
    (hF : Env.factorsU (toProblem np).cov.toList = some Fs)
    (k : Nat) (C : Cov.CovMat K) (hC : (cofs np)[k]? = some C) (u v : Nat) (hu : u < C.dim) (hv : v < C.dim) :
    Env.lowerEntry (Fs.getD k ⟨0, 0, #[]⟩) u v = Env.lowerEntry (Us.getD k ⟨0, 0, #[]⟩) u v := by
  have hd := factors_spec (cofs np) Us hU k C hC
  have hs := Env.factorsU_spec (toProblem np).cov.toList Fs hF k (blkOf C) (cov_getElem_of np k C hC)
  rw [blockMat_blkOf] at hs
  have hCw := cofs_WF np C (List.mem_of_getElem? hC)
  have key := agree_transfer (SqrtFn.sq : K → K) scalarOfField (covFieldScalar_eq (SqrtFn.sq : K → K)).symm
    (Env.hsq_of_isSqrt hsq) hCw (Env.bdTol : K) Env.bdTol_pos hd hs
  unfold Env.lowerEntry
  by_cases hvu : v ≤ u
  · rw [if_pos hvu, if_pos hvu]
    exact key (v + 1) (u + 1) (by omega) (by omega) (by omega)
  · rw [if_neg hvu, if_neg hvu]

/-- the assembled block lower factors of the two paths are one matrix -/
theorem Lgen_agree (hsq : IsSqrt (SqrtFn.sq : K → K)) (np : NetProblem K) (hdim : (dimsN np).sum = np.m)
    (Us Fs : List (Cov.CovMat K)) (hU : factors (cofs np) = .ok Us)
    (hF : Env.factorsU (toProblem np).cov.toList = some Fs) :
    (Matrix.of fun s t : Fin (toProblem np).m =>
      Env.lgG (toProblem np) (fun k u v => Env.lowerEntry (Fs.getD k ⟨0, 0, #[]⟩) u v) s.val t.val) = Lgen np Us := by
  have hdim' : (dimsOf (toProblem np)).sum = (toProblem np).m := by rw [dimsOf_toProblem]; exact hdim
  funext s t
  unfold Lgen
  simp only [Matrix.of_apply]
  unfold Env.lgG
  split
  · rename_i hin
    obtain ⟨a1, a2, a3, ⟨blk, hblk, hd⟩, a5⟩ := Env.block_index (toProblem np) hdim' s.val s.isLt
    obtain ⟨C, hCk, rfl⟩ := cov_getElem np _ blk hblk
    have hdC : C.dim = (dimsOf (toProblem np)).getD (AdjM.locate (dimsOf (toProblem np)) s.val).1 0 := hd
    exact lower_agree hsq np Us Fs hU hF _ C hCk _ _ (by omega) (by omega)
  · rfl

/-- `Homogenization::run` with its factors named: `L̃·Ã = A`, `L̃·b̃ = b` for the block lower matrix
    assembled from the factors `BlockDiagonal::cholDec` left (the proof of `Env.homogenize_factor`) -/
theorem homogenize_factor_explicit (hsq : IsSqrt (SqrtFn.sq : K → K)) (p : Problem K) (hwf : Env.BlocksWF p)
    (hdim : (dimsOf p).sum = p.m) (hh : Env.Homog K) (h : Env.homogenize p = .ok hh) :
    ∃ Fs, Env.factorsU p.cov.toList = some Fs ∧
      (Matrix.of fun s t : Fin p.m =>
          Env.lgG p (fun k u v => Env.lowerEntry (Fs.getD k ⟨0, 0, #[]⟩) u v) s.val t.val)
        * toMatrix p.m p.n hh.At = p.A ∧
      (Matrix.of fun s t : Fin p.m =>
          Env.lgG p (fun k u v => Env.lowerEntry (Fs.getD k ⟨0, 0, #[]⟩) u v) s.val t.val)
        *ᵥ toVec p.m hh.bt = p.b := by
  unfold Env.homogenize at h
  cases hF : Env.factorsU p.cov.toList with
  | none => rw [hF] at h; cases h
  | some Fs =>
    rw [hF] at h
    simp only at h
    have hh' := (Except.ok.inj h).symm
    subst hh'
    refine ⟨Fs, rfl, ?_, ?_⟩
    · funext s j
      rw [Matrix.mul_apply]
      have key := Env.lgG_mulVec p hdim (fun k u v => Env.lowerEntry (Fs.getD k ⟨0, 0, #[]⟩) u v)
        (fun u => Env.mget p.dense u j.val)
        (fun u => Dn.vget (Env.homVec (dimsOf p) Fs p.m fun i => Env.mget p.dense i j.val) u)
        (fun s' hs' => Env.homVec_solve hsq p hwf hdim Fs hF (fun u => Env.mget p.dense u j.val) s' hs') s
      refine (Eq.trans ?_ key : _ = p.A s j)
      refine Finset.sum_congr rfl fun u _ => ?_
      congr 1
      simp only [toMatrix_apply]
      rw [getD_ofFn', dif_pos u.isLt, getD_ofFn', dif_pos j.isLt, getD_ofFn', dif_pos j.isLt]
      rfl
    · funext s
      have key := Env.lgG_mulVec p hdim (fun k u v => Env.lowerEntry (Fs.getD k ⟨0, 0, #[]⟩) u v)
        (fun u => Env.vget p.rhs u)
        (fun u => Dn.vget (Env.homVec (dimsOf p) Fs p.m (Env.vget p.rhs)) u)
        (fun s' hs' => Env.homVec_solve hsq p hwf hdim Fs hF (Env.vget p.rhs) s' hs') s
      exact key

/-- **the two homogenisations agree**: what `Homogenization::run` computes inside the envelope solver
    from the system `project_equations()` hands over is the dense `(A, b)` `prepareProjectEquations()`
    leaves in the base class -/
theorem homogenize_eq_prepare (hsq : IsSqrt (SqrtFn.sq : K → K)) (np : NetProblem K)
    (hdim : (dimsN np).sum = np.m) (hrows : RowsOK (toProblem np))
    (P : Matrix (Fin (toProblem np).m) (Fin (toProblem np).m) K) (hP : (toProblem np).C * P = 1)
    (hh : Hom K) (hp : prepare np = .ok hh) (he : Env.Homog K) (hhe : Env.homogenize (toProblem np) = .ok he) :
    toMatrix (toProblem np).m (toProblem np).n he.At = toMatrix (toProblem np).m (toProblem np).n hh.Ad ∧
    toVec (toProblem np).m he.bt = toVec (toProblem np).m hh.bd := by
  have hin := inputOK np hdim hrows
  obtain ⟨Fs, hF, hLA, hLb⟩ := homogenize_factor_explicit hsq (toProblem np) hin.blocks hin.dims he hhe
  obtain ⟨hU, _, _⟩ := prepare_ok np hh hp
  rw [Lgen_agree hsq np hdim hh.Us Fs hU hF] at hLA hLb
  obtain ⟨hLA', hLb'⟩ := prepare_solve hsq np hdim hh hp
  rw [denseA_eq np hrows] at hLA'
  -- the lower factor is invertible
  have hC : Lgen np hh.Us * (Lgen np hh.Us)ᵀ = Cadj (toProblem np) := Lgen_mul_transpose hsq np hdim hh.Us hU
  have hdim' : (dimsOf (toProblem np)).sum = (toProblem np).m := by rw [dimsOf_toProblem]; exact hdim
  have hdet : IsUnit (Lgen np hh.Us).det := by
    refine Matrix.isUnit_det_of_right_inverse (B := (Lgen np hh.Us)ᵀ * P) ?_
    rw [← Matrix.mul_assoc, hC, Cadj_eq_C (toProblem np) hdim', hP]
  have hinj : ∀ X Y : Matrix (Fin (toProblem np).m) (Fin (toProblem np).n) K,
      Lgen np hh.Us * X = Lgen np hh.Us * Y → X = Y := by
    intro X Y hXY
    have := congrArg (fun M => (Lgen np hh.Us)⁻¹ * M) hXY
    simpa only [← Matrix.mul_assoc, Matrix.nonsing_inv_mul _ hdet, Matrix.one_mul] using this
  refine ⟨hinj _ _ (hLA.trans hLA'.symm), ?_⟩
  have := congrArg (fun w => (Lgen np hh.Us)⁻¹ *ᵥ w) (hLb.trans hLb'.symm)
  simpa only [mulVec_mulVec, Matrix.nonsing_inv_mul _ hdet, one_mulVec] using this

end Gama.Ls.Net
