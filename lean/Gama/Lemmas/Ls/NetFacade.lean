/-
  `LocalNetwork` façade (Model/NetFacade.lean): `prepareProjectEquations()` whitens the assembled
  system with the block diagonal Cholesky factor of the cofactor matrix `blockdiag(activeCov_k/m0²)`,
  and `vyrovnani_()` reports `x`, `r = L̃ v̄`, `suma_pvv_ = Σ v̄²` that form a least-squares solution
  of the ORIGINAL weighted problem.

  Per block: C10's theorems about the band kernels (`Cov.adjCholdec_LLt`, `Cov.forwardSubst_spec`,
  `Cov.activeCov_submatrix`), transferred to the scalar structure of the solver theorems as in
  `Lemmas/Ls/ComposeHomog.lean`.  Assembly of the blocks: `Env.lgG_mul_transpose`, `Env.lgG_mulVec`
  (generic in the per-block entries).  Whitening: `Lemmas/LS/Transform.lean` (`of_whitened`).
-/
import Gama.Model.NetFacade
import Gama.Lemmas.CovChol
import Gama.Lemmas.CovFwd
import Gama.Lemmas.CovActive
import Gama.Lemmas.Ls.ComposeHomog
import Gama.Lemmas.Ls.ComposeEnvSolve

namespace Gama.Ls.Net
open Finset Matrix Gama.LS Gama.Ls.AdjM Dn Gama.Ls.Env

set_option linter.unusedSectionVars false
set_option linter.unusedVariables false

section transfer
variable {K : Type} [Field K] [LinearOrder K] [IsStrictOrderedRing K] (sq : K → K)

/-- C10's `adjCholdec_LLt` for an arbitrary name of the field scalar structure -/
theorem adjChol_transfer (S : Scalar K) (hS : S = Cov.fieldScalar K sq)
    (hsq : ∀ x : K, 0 < x → sq x * sq x = x)
    {C U : Cov.CovMat K} (hC : C.WF) (h : @Cov.adjCholdec K S C = .ok U) :
    U.WF ∧ U.dim = C.dim ∧ U.band = C.band ∧
    (∀ i, 1 ≤ i → i ≤ C.dim → @Cov.CovMat.get K S.toZero U i i ≠ 0) ∧
    (∀ i j, 1 ≤ i → i ≤ j → j ≤ C.dim → @Cov.CovMat.get K S.toZero C i j
        = ∑ r ∈ Icc 1 i, @Cov.CovMat.get K S.toZero U r i * @Cov.CovMat.get K S.toZero U r j) ∧
    (∀ i j, i ≤ j → j > i + C.band → @Cov.CovMat.get K S.toZero U i j = 0) := by
  subst hS
  letI : Gama.Cov.SqrtFn K := ⟨sq⟩
  exact Cov.adjCholdec_LLt hC hsq h

/-- C10's `forwardSubst_spec` likewise -/
theorem fwd_transfer (S : Scalar K) (hS : S = Cov.fieldScalar K sq) (F : Cov.CovMat K)
    (v : Array K) (hv : v.size = F.dim) (hd : ∀ i, 1 ≤ i → i ≤ F.dim → @Cov.CovMat.get K S.toZero F i i ≠ 0) :
    (@Cov.forwardSubst K S F v).size = v.size ∧
    ∀ i, 1 ≤ i → i ≤ F.dim →
      (∑ j ∈ Icc 1 i, @Cov.CovMat.get K S.toZero F i j * (@Cov.forwardSubst K S F v).getD (j - 1) 0) = v.getD (i - 1) 0 := by
  subst hS
  exact Cov.forwardSubst_spec sq F v hv hd

end transfer

variable {K : Type} [Field K] [LinearOrder K] [IsStrictOrderedRing K] [SqrtFn K]
attribute [local instance 2000] scalarOfField

/-- the square-root law in the form `adjCholdec_LLt` uses -/
theorem hsq_pos (h : IsSqrt (SqrtFn.sq : K → K)) : ∀ x : K, 0 < x → SqrtFn.sq x * SqrtFn.sq x = x :=
  fun x hx => h.mul_self x (le_of_lt hx)

/-- the `BlockDiagonal` block the sparse path stores for a cofactor matrix -/
def blkOf (C : Cov.CovMat K) : CovBlock K := ⟨C.dim, C.band, C.buf⟩

theorem blockMat_blkOf (C : Cov.CovMat K) : Env.blockMat (blkOf C) = C := rfl

theorem blkOf_WF (C : Cov.CovMat K) (h : C.WF) : Env.BlockWF (blkOf C) := ⟨h.band_le, h.size_eq⟩

/-- **one cluster**: `Adj::choldec` + `Adj::forwardSubstitution` (C10's theorems) in the dense
    vocabulary of the assembly: `C_blk = L Lᵀ`, `L · fwd(v) = v`, `L` has the band of `C` -/
theorem block_facts (hsq : IsSqrt (SqrtFn.sq : K → K)) (C : Cov.CovMat K) (hC : C.WF) (U : Cov.CovMat K)
    (h : Cov.adjCholdec C = .ok U) :
    U.dim = C.dim ∧ U.band = C.band ∧
    (∀ u v, u < C.dim → v < C.dim →
      sget (blockDense (blkOf C)) u v = ∑ k ∈ range C.dim, Env.lowerEntry U u k * Env.lowerEntry U v k) ∧
    (∀ col : Array K, col.size = C.dim → ∀ u, u < C.dim →
      ∑ i ∈ range C.dim, Env.lowerEntry U u i * Dn.vget (Cov.forwardSubst U col) i = Dn.vget col u) := by
  obtain ⟨hUw, hUd, hUb, hnz, hrep, hout⟩ :=
    adjChol_transfer (SqrtFn.sq : K → K) scalarOfField (covFieldScalar_eq (SqrtFn.sq : K → K)).symm
      (hsq_pos hsq) hC h
  have hb := blkOf_WF C hC
  have key : ∀ u v, u < C.dim → v ≤ u →
      Dn.mget (blockDense (blkOf C)) u v = ∑ k ∈ range C.dim, Env.lowerEntry U u k * Env.lowerEntry U v k := by
    intro u v hu hvu
    rw [← Env.blockMat_get (blkOf C) hb u v hvu hu]
    have := hrep (v + 1) (u + 1) (by omega) (by omega) (by omega)
    refine this.trans ?_
    rw [Env.sum_Icc_shift, ← Env.sum_range_le C.dim v (by omega)]
    refine Finset.sum_congr rfl fun k _ => ?_
    unfold Env.lowerEntry
    by_cases hk : k ≤ v
    · rw [if_pos hk, if_pos hk, if_pos (by omega : k ≤ u)]; exact mul_comm _ _
    · rw [if_neg hk, if_neg hk, mul_zero]
  refine ⟨hUd, hUb, fun u v hu hv => ?_, fun col hcol u hu => ?_⟩
  · unfold sget
    by_cases hvu : v ≤ u
    · rw [if_pos hvu]; exact key u v hu hvu
    · rw [if_neg hvu, key v u hv (by omega)]
      exact Finset.sum_congr rfl fun k _ => mul_comm _ _
  · have hd : ∀ i, 1 ≤ i → i ≤ U.dim → U.get i i ≠ 0 := fun i h1 h2 => hnz i h1 (by omega)
    obtain ⟨_, hs⟩ := fwd_transfer (SqrtFn.sq : K → K) scalarOfField (covFieldScalar_eq (SqrtFn.sq : K → K)).symm
      U col (by rw [hcol, hUd]) hd
    have := hs (u + 1) (by omega) (by rw [hUd]; omega)
    rw [Env.sum_Icc_shift] at this
    rw [← Env.sum_range_le C.dim u hu] at this
    refine Eq.trans ?_ this
    refine Finset.sum_congr rfl fun k _ => ?_
    unfold Env.lowerEntry
    by_cases hk : k ≤ u
    · rw [if_pos hk, if_pos hk, Cov.CovMat.get_symm U (u + 1) (k + 1)]; rfl
    · rw [if_neg hk, if_neg hk, zero_mul]

/-- the lower factor has the band of `C`: zero below the band -/
theorem lowerEntry_band (U : Cov.CovMat K) (u k : Nat) (h : k + U.band < u) : Env.lowerEntry U u k = 0 := by
  unfold Env.lowerEntry
  rw [if_pos (by omega)]
  exact Cov.CovMat.get_outside U (by omega) (by omega)

theorem factors_spec : ∀ (Cs Us : List (Cov.CovMat K)), factors Cs = .ok Us →
    ∀ k C, Cs[k]? = some C → Cov.adjCholdec C = .ok (Us.getD k ⟨0, 0, #[]⟩) := by
  intro Cs
  induction Cs with
  | nil => intro Us _ k C hC; simp at hC
  | cons C0 Cs ih =>
    intro Us h k C hC
    unfold factors at h
    cases h0 : Cov.adjCholdec C0 with
    | error e => rw [h0] at h; cases h
    | ok U0 =>
      rw [h0] at h
      simp only at h
      cases h1 : factors Cs with
      | error e => rw [h1] at h; cases h
      | ok Us' =>
        rw [h1] at h
        have := Except.ok.inj h
        subst this
        cases k with
        | zero =>
          simp only [List.getElem?_cons_zero, Option.some.injEq] at hC
          subst hC
          simpa using h0
        | succ k =>
          simp only [List.getElem?_cons_succ] at hC
          simpa using ih Us' h1 k C hC

/-! ### the problem the sparse path hands over / carrier of the specification -/

theorem cov_toList (np : NetProblem K) : (toProblem np).cov.toList = (cofs np).map blkOf := by
  simp [toProblem, blkOf]

theorem dimsOf_toProblem (np : NetProblem K) : dimsOf (toProblem np) = dimsN np := by
  unfold dimsOf dimsN
  rw [cov_toList, List.map_map]
  rfl

theorem cov_getElem (np : NetProblem K) (k : Nat) (blk : CovBlock K)
    (h : (toProblem np).cov.toList[k]? = some blk) : ∃ C, (cofs np)[k]? = some C ∧ blk = blkOf C := by
  rw [cov_toList, List.getElem?_map] at h
  cases hC : (cofs np)[k]? with
  | none => rw [hC] at h; simp at h
  | some C => rw [hC] at h; exact ⟨C, rfl, (Option.some.inj h).symm⟩

theorem scaleBuf_WF (C : Cov.CovMat K) (f : K) (h : C.WF) : (scaleBuf C f).WF :=
  ⟨h.band_le, by show ((C.buf.map (· * f)).size : Int) = _; rw [Array.size_map]; exact h.size_eq⟩

/-- every cofactor block is a well-formed `CovMat` (whatever the cluster holds) -/
theorem cofs_WF (np : NetProblem K) : ∀ C ∈ cofs np, C.WF := by
  intro C hC
  unfold cofs at hC
  obtain ⟨c, _, rfl⟩ := List.mem_map.1 hC
  exact scaleBuf_WF _ _ (Cov.activeCov_submatrix c.cov c.obs).1

/-- the block diagonal lower factor assembled from the factors `Adj::choldec` leaves in `C` -/
def Lgen (np : NetProblem K) (Us : List (Cov.CovMat K)) :
    Matrix (Fin (toProblem np).m) (Fin (toProblem np).m) K :=
  Matrix.of fun s t => Env.lgG (toProblem np) (fun k u v => Env.lowerEntry (Us.getD k ⟨0, 0, #[]⟩) u v) s.val t.val

theorem all_zero_vget (col : Array K) (h : col.all (fun x => Scalar.beq x 0) = true) (i : Nat) :
    Dn.vget col i = 0 := by
  unfold Dn.vget
  by_cases hi : i < col.size
  · rw [Array.all_eq_true] at h
    have := h i hi
    have h0 : col[i] = 0 := of_decide_eq_true this
    simp [Array.getD, hi, h0]
  · simp [Array.getD, hi]

/-- the column segment written back by `prepareProjectEquations` solves `L · seg = col`
    (also when the `empty` test skips the substitution) -/
theorem homSeg_solve (hsq : IsSqrt (SqrtFn.sq : K → K)) (C : Cov.CovMat K) (hC : C.WF) (U : Cov.CovMat K)
    (h : Cov.adjCholdec C = .ok U) (col : Array K) (hcol : col.size = C.dim) (u : Nat) (hu : u < C.dim) :
    ∑ i ∈ range C.dim, Env.lowerEntry U u i * Dn.vget (homSeg U col) i = Dn.vget col u := by
  unfold homSeg
  split
  · rename_i hz
    rw [all_zero_vget col hz u]
    exact Finset.sum_eq_zero fun i _ => by rw [all_zero_vget col hz i, mul_zero]
  · exact (block_facts hsq C hC U h).2.2.2 col hcol u hu

/-- a vector homogenised segment by segment solves the block system `L̃ · ṽ = v` -/
theorem seg_solve (hsq : IsSqrt (SqrtFn.sq : K → K)) (np : NetProblem K) (hdim : (dimsN np).sum = np.m)
    (Us : List (Cov.CovMat K)) (hF : factors (cofs np) = .ok Us)
    (seg : Cov.CovMat K → Array K → Array K)
    (hseg : ∀ C U, C.WF → Cov.adjCholdec C = .ok U → ∀ col : Array K, col.size = C.dim → ∀ u, u < C.dim →
      ∑ i ∈ range C.dim, Env.lowerEntry U u i * Dn.vget (seg U col) i = Dn.vget col u)
    (x : Nat → K) (y : Nat → K)
    (hy : ∀ s, s < np.m → y s = Dn.vget (seg (Us.getD (AdjM.locate (dimsN np) s).1 ⟨0, 0, #[]⟩)
        (vmk ((dimsN np).getD (AdjM.locate (dimsN np) s).1 0) fun k => x ((AdjM.locate (dimsN np) s).2 + k))) (s - (AdjM.locate (dimsN np) s).2))
    (s : Fin (toProblem np).m) :
    ∑ u : Fin (toProblem np).m, Lgen np Us s u * y u.val = x s.val := by
  have hdim' : (dimsOf (toProblem np)).sum = (toProblem np).m := by rw [dimsOf_toProblem]; exact hdim
  show ∑ u : Fin (toProblem np).m, Env.lgG (toProblem np) (fun k u v => Env.lowerEntry (Us.getD k ⟨0, 0, #[]⟩) u v) s.val u.val * y u.val = x s.val
  refine Env.lgG_mulVec (toProblem np) hdim' _ x y ?_ s
  intro s' hs'
  obtain ⟨a1, a2, a3, ⟨blk, hblk, hd⟩, a5⟩ := Env.block_index (toProblem np) hdim' s' hs'
  obtain ⟨C, hCk, rfl⟩ := cov_getElem np _ blk hblk
  have hch := factors_spec (cofs np) Us hF _ C hCk
  have hCw := cofs_WF np C (List.mem_of_getElem? hCk)
  rw [dimsOf_toProblem] at a1 a2 a3 hd a5 ⊢
  have hd' : C.dim = (dimsN np).getD (AdjM.locate (dimsN np) s').1 0 := hd
  rw [← hd']
  have hcol : (vmk C.dim fun k => x ((AdjM.locate (dimsN np) s').2 + k)).size = C.dim := vmk_size _ _
  have := hseg C _ hCw hch _ hcol (s' - (AdjM.locate (dimsN np) s').2) (by omega)
  rw [vget_vmk, if_pos (by omega)] at this
  have hx : x ((AdjM.locate (dimsN np) s').2 + (s' - (AdjM.locate (dimsN np) s').2)) = x s' := by congr 1; omega
  rw [hx] at this
  refine Eq.trans ?_ this
  refine Finset.sum_congr rfl fun i hi => ?_
  have hi' : i < C.dim := Finset.mem_range.1 hi
  have hs2 : (AdjM.locate (dimsN np) s').2 + i < np.m := by
    have : (toProblem np).m = np.m := rfl
    omega
  rw [hy _ hs2, a5 ((AdjM.locate (dimsN np) s').2 + i) (by omega) (by omega), Nat.add_sub_cancel_left, ← hd',
    dimsOf_toProblem]

/-! ### `prepareProjectEquations()` -/

theorem prepare_ok (np : NetProblem K) (h : Hom K) (hp : prepare np = .ok h) :
    factors (cofs np) = .ok h.Us ∧
    h.Ad = mmk np.m np.n (fun s j =>
      Dn.vget (homSeg (h.Us.getD (AdjM.locate (dimsN np) s).1 ⟨0, 0, #[]⟩)
        (vmk ((dimsN np).getD (AdjM.locate (dimsN np) s).1 0) fun k => Dn.mget (denseA np) ((AdjM.locate (dimsN np) s).2 + k) j))
        (s - (AdjM.locate (dimsN np) s).2)) ∧
    h.bd = vmk np.m (fun s =>
      Dn.vget (Cov.forwardSubst (h.Us.getD (AdjM.locate (dimsN np) s).1 ⟨0, 0, #[]⟩)
        (vmk ((dimsN np).getD (AdjM.locate (dimsN np) s).1 0) fun k => Dn.vget np.rhs ((AdjM.locate (dimsN np) s).2 + k)))
        (s - (AdjM.locate (dimsN np) s).2)) := by
  unfold prepare at hp
  cases hF : factors (cofs np) with
  | error e => rw [hF] at hp; cases hp
  | ok Us =>
    rw [hF] at hp
    simp only at hp
    have := (Except.ok.inj hp).symm
    subst this
    exact ⟨rfl, rfl, rfl⟩

/-- `L̃ L̃ᵀ = C`: the cofactor matrix `blockdiag(activeCov_k / m0²)` -/
theorem Lgen_mul_transpose (hsq : IsSqrt (SqrtFn.sq : K → K)) (np : NetProblem K) (hdim : (dimsN np).sum = np.m)
    (Us : List (Cov.CovMat K)) (hF : factors (cofs np) = .ok Us) :
    Lgen np Us * (Lgen np Us)ᵀ = Cadj (toProblem np) := by
  have hdim' : (dimsOf (toProblem np)).sum = (toProblem np).m := by rw [dimsOf_toProblem]; exact hdim
  refine Env.lgG_mul_transpose (toProblem np) hdim' _ ?_
  intro k blk hblk u v hu hv
  obtain ⟨C, hCk, rfl⟩ := cov_getElem np k blk hblk
  exact (block_facts hsq C (cofs_WF np C (List.mem_of_getElem? hCk)) _ (factors_spec _ _ hF k C hCk)).2.2.1 u v hu hv

/-- `L̃ · A_hom = A`, `L̃ · b_hom = b` -/
theorem prepare_solve (hsq : IsSqrt (SqrtFn.sq : K → K)) (np : NetProblem K) (hdim : (dimsN np).sum = np.m)
    (h : Hom K) (hp : prepare np = .ok h) :
    Lgen np h.Us * toMatrix (toProblem np).m (toProblem np).n h.Ad
        = toMatrix (toProblem np).m (toProblem np).n (denseA np) ∧
    Lgen np h.Us *ᵥ toVec (toProblem np).m h.bd = (toProblem np).b := by
  obtain ⟨hF, hAd, hbd⟩ := prepare_ok np h hp
  constructor
  · funext s j
    rw [Matrix.mul_apply]
    refine seg_solve hsq np hdim h.Us hF homSeg (fun C U hC hU col hcol u hu => homSeg_solve hsq C hC U hU col hcol u hu)
      (fun u => Dn.mget (denseA np) u j.val) (fun u => Dn.mget h.Ad u j.val) ?_ s
    intro s' hs'
    rw [hAd, mget_mmk, if_pos ⟨hs', j.isLt⟩]
  · funext s
    refine seg_solve hsq np hdim h.Us hF Cov.forwardSubst
      (fun C U hC hU col hcol u hu => (block_facts hsq C hC U hU).2.2.2 col hcol u hu)
      (fun u => Dn.vget np.rhs u) (fun u => Dn.vget h.bd u) ?_ s
    intro s' hs'
    rw [hbd, vget_vmk, if_pos hs']

/-- the back-transformation of `vyrovnani_()` is multiplication by the lower factor: `r = L̃ v̄` -/
theorem backRes_spec (np : NetProblem K) (hdim : (dimsN np).sum = np.m) (Us : List (Cov.CovMat K)) (v : Array K) :
    toVec (toProblem np).m (backRes np Us v) = Lgen np Us *ᵥ toVec (toProblem np).m v := by
  have hdim' : (dimsOf (toProblem np)).sum = (toProblem np).m := by rw [dimsOf_toProblem]; exact hdim
  funext s
  have hs : s.val < np.m := s.isLt
  symm
  show ∑ u : Fin (toProblem np).m, Env.lgG (toProblem np) (fun k u v => Env.lowerEntry (Us.getD k ⟨0, 0, #[]⟩) u v) s.val u.val
      * Dn.vget v u.val = Dn.vget (backRes np Us v) s.val
  rw [Env.lgG_mulVec (toProblem np) hdim' _
    (fun s => ∑ i ∈ range ((dimsOf (toProblem np)).getD (AdjM.locate (dimsOf (toProblem np)) s).1 0),
      Env.lowerEntry (Us.getD (AdjM.locate (dimsOf (toProblem np)) s).1 ⟨0, 0, #[]⟩) (s - (AdjM.locate (dimsOf (toProblem np)) s).2) i
        * Dn.vget v ((AdjM.locate (dimsOf (toProblem np)) s).2 + i))
    (fun u => Dn.vget v u) (fun _ _ => rfl) s]
  obtain ⟨a1, a2, a3, _, a5⟩ := Env.block_index (toProblem np) hdim' s.val s.isLt
  rw [dimsOf_toProblem] at a1 a2 a3 ⊢
  unfold backRes
  rw [vget_vmk, if_pos hs]
  simp only []
  set off := (AdjM.locate (dimsN np) s.val).2 with hoff
  set U := Us.getD (AdjM.locate (dimsN np) s.val).1 ⟨0, 0, #[]⟩ with hU
  set d := (dimsN np).getD (AdjM.locate (dimsN np) s.val).1 0 with hd
  set t := s.val - off with ht
  have htd : t < d := by omega
  set lo := (if t + 1 > U.band + 1 then t + 1 - U.band else 1) with hlo
  have hlo1 : 1 ≤ lo := by rw [hlo]; split <;> omega
  have hlot : lo ≤ t + 1 := by rw [hlo]; split <;> omega
  rw [sumFrom_eq, Finset.sum_Ico_eq_sum_range]
  -- the full row sum restricted to the band window
  have hsub : ∑ i ∈ range d, Env.lowerEntry U t i * Dn.vget v (off + i)
      = ∑ i ∈ Ico (lo - 1) (t + 1), Env.lowerEntry U t i * Dn.vget v (off + i) := by
    symm
    refine Finset.sum_subset ?_ ?_
    · intro i hi
      rw [Finset.mem_Ico] at hi
      exact Finset.mem_range.2 (by omega)
    · intro i _ hni
      rw [Finset.mem_Ico] at hni
      by_cases h1 : i < lo - 1
      · have : i + U.band < t := by
          rw [hlo] at h1
          split at h1 <;> omega
        rw [lowerEntry_band U t i this, zero_mul]
      · have : t < i := by omega
        unfold Env.lowerEntry
        rw [if_neg (by omega), zero_mul]
  rw [hsub, Finset.sum_Ico_eq_sum_range]
  have hlen : t + 1 - (lo - 1) = t + 1 + 1 - lo := by omega
  rw [hlen]
  refine Finset.sum_congr rfl fun i hi => ?_
  have hi' := Finset.mem_range.1 hi
  unfold Env.lowerEntry
  rw [if_pos (by omega), Cov.CovMat.get_symm U (lo - 1 + i + 1) (t + 1)]
  have e1 : lo - 1 + i + 1 = lo + i := by omega
  have e2 : off + (lo + i) - 1 = off + (lo - 1 + i) := by omega
  rw [e1, e2]

/-! ### the dense design matrix -/

/-- `A(row, col) += a` of `project_equations()` IS the dense row of the specification (both sum repeated columns);
    the two hypotheses are no longer needed and kept for the callers -/
theorem rowSum_eq_rowDense (n : Nat) (l : List (Nat × K)) (hnd : (l.map (·.1)).Nodup) (h1 : ∀ cv ∈ l, 1 ≤ cv.1) :
    l.foldl (fun (acc : Array K) (cv : Nat × K) => acc.setIfInBounds (cv.1 - 1) (acc.getD (cv.1 - 1) 0 + cv.2))
      (Array.replicate n 0) = rowDense n l := rfl

/-- **no hypothesis on the rows**: the matrix `project_equations` accumulates is the design matrix of the specification -/
theorem denseA_eq' (np : NetProblem K) :
    toMatrix (toProblem np).m (toProblem np).n (denseA np) = (toProblem np).A := by
  funext i j
  show Dn.mget (denseA np) i.val j.val = Dn.mget (toProblem np).dense i.val j.val
  have hi : i.val < np.m := i.isLt
  have hj : j.val < np.n := j.isLt
  unfold denseA
  rw [mget_mmk, if_pos ⟨hi, hj⟩, mget_dense]
  unfold rowSum
  rw [← Array.foldl_toList]
  rfl

/-- with distinct in-range column indices in every row (`RowsOK`) the matrix `project_equations`
    accumulates (`+=`) is the design matrix of the specification -/
theorem denseA_eq (np : NetProblem K) (hrows : RowsOK (toProblem np)) :
    toMatrix (toProblem np).m (toProblem np).n (denseA np) = (toProblem np).A := denseA_eq' np

/-! ### `vyrovnani_()`: full solvers -/

/-- the C01 statement for an answer of `LocalNetwork` -/
def NetAnswer.IsLS (np : NetProblem K) (P : Matrix (Fin (toProblem np).m) (Fin (toProblem np).m) K)
    (a : NetAnswer K) : Prop :=
  IsLSSolution (toProblem np).A (toProblem np).b P (toProblem np).S
    (toVec (toProblem np).n a.x) (toVec (toProblem np).m a.r) a.pvv

theorem netFull_shape (alg : Alg) (np : NetProblem K) (a : NetAnswer K) (h : netFull alg np = .ok a) :
    ∃ hh s, prepare np = .ok hh ∧ solverOf alg (dotProblem np hh) = .ok s ∧ s.xErr = none ∧
      a.x = s.x ∧ a.r = backRes np hh.Us s.r ∧ a.pvv = sumSq np.m s.r ∧ a.defect = s.defect ∧
      a.Ad = hh.Ad ∧ a.bd = hh.bd := by
  unfold netFull at h
  cases hp : prepare np with
  | error e => rw [hp] at h; cases h
  | ok hh =>
    rw [hp] at h
    simp only at h
    cases hs : solverOf alg (dotProblem np hh) with
    | error e => rw [hs] at h; cases h
    | ok s =>
      rw [hs] at h
      simp only at h
      cases hx : s.xErr with
      | some e => rw [hx] at h; cases h
      | none =>
        rw [hx] at h
        have ha := (Except.ok.inj h).symm
        subst ha
        exact ⟨hh, s, rfl, hs, hx, rfl, rfl, rfl, rfl, rfl, rfl⟩

/-- **C01, class `LocalNetwork`, full solvers.**  If the solver returns a least-squares solution of
    the homogenised unit-weight problem it was given, then `solve()`, `residuals()`, `trans_VWV()`
    are a least-squares solution of the ORIGINAL problem `(A, b, P)`, `P` the inverse of the cofactor
    matrix `blockdiag(activeCov_k / m0²)`; the reported residuals are `A x − b`. -/
theorem netFull_isLS (hsq : IsSqrt (SqrtFn.sq : K → K)) (alg : Alg) (np : NetProblem K)
    (hdim : (dimsN np).sum = np.m) (hrows : RowsOK (toProblem np))
    (P : Matrix (Fin (toProblem np).m) (Fin (toProblem np).m) K) (hP : (toProblem np).C * P = 1)
    (hsol : ∀ hh s, prepare np = .ok hh → solverOf alg (dotProblem np hh) = .ok s →
      s.IsLS (dotProblem np hh) 1)
    (a : NetAnswer K) (h : netFull alg np = .ok a) : a.IsLS np P := by
  obtain ⟨hh, s, hp, hs, hx, ex, er, epvv, _, _, _⟩ := netFull_shape alg np a h
  have hIs := hsol hh s hp hs
  have hdim' : (dimsOf (toProblem np)).sum = (toProblem np).m := by rw [dimsOf_toProblem]; exact hdim
  obtain ⟨hF, _, _⟩ := prepare_ok np hh hp
  have hC : Lgen np hh.Us * (Lgen np hh.Us)ᵀ = (toProblem np).C := by
    rw [← Cadj_eq_C (toProblem np) hdim']; exact Lgen_mul_transpose hsq np hdim hh.Us hF
  obtain ⟨hLA, hLb⟩ := prepare_solve hsq np hdim hh hp
  rw [denseA_eq np hrows] at hLA
  set Lg := Lgen np hh.Us with hLg
  set Linv := Lgᵀ * P with hLinv
  have h1 : Lg * Linv = 1 := by rw [hLinv, ← Matrix.mul_assoc, hC, hP]
  have h2 : Linv * Lg = 1 := mul_eq_one_comm.1 h1
  have hW : Linvᵀ * Linv = P := whiten_of_chol hC.symm h2 hP
  have hA' : toMatrix (toProblem np).m (toProblem np).n hh.Ad = Linv * (toProblem np).A := by
    rw [← hLA, ← Matrix.mul_assoc, h2, Matrix.one_mul]
  have hb' : toVec (toProblem np).m hh.bd = Linv *ᵥ (toProblem np).b := by
    rw [← hLb, mulVec_mulVec, h2, one_mulVec]
  unfold Answer.IsLS at hIs
  have hIs' : IsLSSolution (Linv * (toProblem np).A) (Linv *ᵥ (toProblem np).b) 1 (toProblem np).S
      (toVec (toProblem np).n s.x) (toVec (toProblem np).m s.r) s.rtr := by
    have e1 : (dotProblem np hh).A = Linv * (toProblem np).A := by
      unfold dotProblem; rw [dotProblem_A, hA']
    have e2 : (dotProblem np hh).b = Linv *ᵥ (toProblem np).b := hb'
    have e3 : (dotProblem np hh).S = (toProblem np).S := rfl
    rw [e1, e2, e3] at hIs
    exact hIs
  have hfin := IsLSSolution.of_whitened hW hIs'
  have hr : toVec (toProblem np).m (backRes np hh.Us s.r)
      = (toProblem np).A *ᵥ toVec (toProblem np).n s.x - (toProblem np).b := by
    rw [backRes_spec np hdim hh.Us s.r, hIs'.res, Matrix.mulVec_sub, mulVec_mulVec, mulVec_mulVec,
      ← Matrix.mul_assoc, h1, Matrix.one_mul, one_mulVec]
  have hrtr : sumSq np.m s.r = s.rtr := by
    unfold sumSq
    rw [hIs'.rtr_eq, one_mulVec, sumFrom_eq, ← Finset.range_eq_Ico]
    unfold dotProduct
    rw [← Fin.sum_univ_eq_sum_range (fun i => Dn.vget s.r i * Dn.vget s.r i) np.m]
    rfl
  unfold NetAnswer.IsLS
  rw [ex, er, epvv, hr, hrtr]
  exact hfin

/-! ### `vyrovnani_()`: sparse solver -/

theorem netSparse_shape (np : NetProblem K) (a : NetAnswer K) (h : netSparse np = .ok a) :
    ∃ hh s, prepare np = .ok hh ∧ envSolve (toProblem np) = .ok s ∧ s.xErr = none ∧
      a.x = s.x ∧ a.r = s.r ∧ a.pvv = s.rtr ∧ a.defect = s.defect ∧ a.Ad = hh.Ad ∧ a.bd = hh.bd := by
  unfold netSparse at h
  cases hp : prepare np with
  | error e => rw [hp] at h; cases h
  | ok hh =>
    rw [hp] at h
    simp only at h
    cases hs : solverOf .env (toProblem np) with
    | error e => rw [hs] at h; cases h
    | ok s =>
      rw [hs] at h
      simp only at h
      cases hx : s.xErr with
      | some e => rw [hx] at h; cases h
      | none =>
        rw [hx] at h
        have ha := (Except.ok.inj h).symm
        subst ha
        exact ⟨hh, s, rfl, hs, hx, rfl, rfl, rfl, rfl, rfl, rfl⟩

/-! ### the cofactor matrix in terms of the ORIGINAL cluster covariances -/

/-- entry `(s,t)` of the covariance matrix of the active observations: block diagonal, block `k` the
    principal sub-matrix of cluster `k`'s `covariance_matrix` at its active observations -/
def sigmaF (np : NetProblem K) (s t : Nat) : K :=
  if (AdjM.locate (dimsN np) s).2 ≤ t ∧ t < (AdjM.locate (dimsN np) s).2 + (dimsN np).getD (AdjM.locate (dimsN np) s).1 0 then
    (((activeClusters np).getD (AdjM.locate (dimsN np) s).1 ⟨⟨0, 0, #[]⟩, []⟩).cov).get
      ((Cov.activeIdx 1 ((activeClusters np).getD (AdjM.locate (dimsN np) s).1 ⟨⟨0, 0, #[]⟩, []⟩).obs).toArray.getD
        (s - (AdjM.locate (dimsN np) s).2) 0)
      ((Cov.activeIdx 1 ((activeClusters np).getD (AdjM.locate (dimsN np) s).1 ⟨⟨0, 0, #[]⟩, []⟩).obs).toArray.getD
        (t - (AdjM.locate (dimsN np) s).2) 0)
  else 0

/-- the covariance matrix `Σ` of the active observations (un-scaled, as given in the input) -/
def Sigma (np : NetProblem K) : Matrix (Fin (toProblem np).m) (Fin (toProblem np).m) K :=
  Matrix.of fun s t => sigmaF np s.val t.val

theorem scaleBuf_get (C : Cov.CovMat K) (f : K) (i j : Nat) : (scaleBuf C f).get i j = C.get i j * f := by
  unfold Cov.CovMat.get
  show (match Cov.Packed.idx C.dim C.band i j with
    | none => 0
    | some k => (scaleBuf C f).raw 0 k) = _
  cases Cov.Packed.idx C.dim C.band i j with
  | none => simp
  | some k =>
    simp only []
    unfold Cov.CovMat.raw Cov.CovMat.inBuf scaleBuf
    simp only [Array.size_map]
    split
    · rename_i hk
      simp only [Bool.and_eq_true, decide_eq_true_eq] at hk
      have hlt : k.toNat < C.buf.size := by omega
      simp [Array.getD, hlt]
    · simp

/-- the sub-matrix/scaling content of `C = activeCov(); C /= m0²` -/
theorem cofactor_get (m0 : K) (c : Cluster K) (i j : Nat) (hi1 : 1 ≤ i) (hi : i ≤ (c.cofactor m0).dim)
    (hj1 : 1 ≤ j) (hj : j ≤ (c.cofactor m0).dim) :
    (c.cofactor m0).get i j
      = c.cov.get ((Cov.activeIdx 1 c.obs).toArray.getD (i - 1) 0) ((Cov.activeIdx 1 c.obs).toArray.getD (j - 1) 0)
        * (1 / (m0 * m0)) := by
  obtain ⟨_, hdimR, _, hsub⟩ := Cov.activeCov_submatrix c.cov c.obs
  unfold Cluster.cofactor
  rw [scaleBuf_get]
  have hd : (c.cofactor m0).dim = (Cov.activeCov c.cov c.obs).dim := rfl
  rw [hsub i j hi1 (by rw [← hdimR, ← hd]; exact hi) hj1 (by rw [← hdimR, ← hd]; exact hj)]

theorem cofs_getD (np : NetProblem K) (k : Nat) (hk : k < (activeClusters np).length) :
    (cofs np)[k]? = some (((activeClusters np).getD k ⟨⟨0, 0, #[]⟩, []⟩).cofactor np.m0) := by
  unfold cofs
  rw [List.getElem?_map, List.getD_eq_getElem?_getD, List.getElem?_eq_getElem hk]
  rfl

/-- **the cofactor matrix of the specification is `Σ / m0²`** (`Σ` from the input covariances,
    restricted to the active observations) -/
theorem cofactor_matrix (np : NetProblem K) (hdim : (dimsN np).sum = np.m) :
    (toProblem np).C = (1 / (np.m0 * np.m0)) • Sigma np := by
  have hdim' : (dimsOf (toProblem np)).sum = (toProblem np).m := by rw [dimsOf_toProblem]; exact hdim
  rw [← Cadj_eq_C (toProblem np) hdim']
  funext s t
  show covF (toProblem np) s.val t.val = (1 / (np.m0 * np.m0)) * sigmaF np s.val t.val
  obtain ⟨a1, a2, a3, ⟨blk, hblk, hd⟩, a5⟩ := Env.block_index (toProblem np) hdim' s.val s.isLt
  obtain ⟨C, hCk, rfl⟩ := cov_getElem np _ blk hblk
  unfold covF sigmaF
  simp only []
  rw [dimsOf_toProblem] at a1 a2 a3 hd hblk hCk ⊢
  by_cases hin : (AdjM.locate (dimsN np) s.val).2 ≤ t.val ∧
      t.val < (AdjM.locate (dimsN np) s.val).2 + (dimsN np).getD (AdjM.locate (dimsN np) s.val).1 0
  · rw [if_pos hin, if_pos hin]
    have hklen : (AdjM.locate (dimsN np) s.val).1 < (activeClusters np).length := by
      have h1 : (AdjM.locate (dimsN np) s.val).1 < (cofs np).length := by
        by_contra hge
        rw [List.getElem?_eq_none (by omega)] at hCk
        cases hCk
      unfold cofs at h1
      rw [List.length_map] at h1
      exact h1
    have hCeq := cofs_getD np _ hklen
    rw [hCk] at hCeq
    have hC := Option.some.inj hCeq
    have hgetD : (toProblem np).cov.toList.getD (AdjM.locate (dimsN np) s.val).1 ⟨0, 0, #[]⟩ = blkOf C := by
      rw [List.getD_eq_getElem?_getD, hblk]; rfl
    rw [hgetD]
    have hdC : C.dim = (dimsN np).getD (AdjM.locate (dimsN np) s.val).1 0 := hd
    set u := s.val - (AdjM.locate (dimsN np) s.val).2 with hu
    set v := t.val - (AdjM.locate (dimsN np) s.val).2 with hv
    have hu' : u < C.dim := by omega
    have hv' : v < C.dim := by omega
    have hb := blkOf_WF C (cofs_WF np C (List.mem_of_getElem? hCk))
    have hs : sget (blockDense (blkOf C)) u v = C.get (u + 1) (v + 1) := by
      unfold sget
      by_cases hvu : v ≤ u
      · rw [if_pos hvu, ← Env.blockMat_get (blkOf C) hb u v hvu hu', Cov.CovMat.get_symm]; rfl
      · rw [if_neg hvu, ← Env.blockMat_get (blkOf C) hb v u (by omega) hv']; rfl
    rw [hs, hC]
    rw [cofactor_get np.m0 _ (u + 1) (v + 1) (by omega) (by rw [← hC]; omega) (by omega) (by rw [← hC]; omega)]
    simp only [Nat.add_sub_cancel]
    exact mul_comm _ _
  · rw [if_neg hin, if_neg hin, mul_zero]

/-- the weight matrix in original units: `P = m0² · Σ⁻¹` -/
theorem weight_of_sigma (np : NetProblem K) (hdim : (dimsN np).sum = np.m) (hm0 : np.m0 ≠ 0)
    (Pc : Matrix (Fin (toProblem np).m) (Fin (toProblem np).m) K) (hPc : Sigma np * Pc = 1) :
    (toProblem np).C * ((np.m0 * np.m0) • Pc) = 1 := by
  rw [cofactor_matrix np hdim, Matrix.smul_mul, Matrix.mul_smul, smul_smul, hPc]
  have : 1 / (np.m0 * np.m0) * (np.m0 * np.m0) = 1 := by field_simp
  rw [this, one_smul]

/-- if `prepareProjectEquations()` rejects nothing, the weight matrix is a Gram matrix `WᵀW` of an
    injective `W` (symmetric positive definite) -/
theorem weight_gram (hsq : IsSqrt (SqrtFn.sq : K → K)) (np : NetProblem K) (hdim : (dimsN np).sum = np.m)
    (hh : Hom K) (hp : prepare np = .ok hh)
    (P : Matrix (Fin (toProblem np).m) (Fin (toProblem np).m) K) (hP : (toProblem np).C * P = 1) :
    ∃ W : Matrix (Fin (toProblem np).m) (Fin (toProblem np).m) K, Wᵀ * W = P ∧ ∀ d, W *ᵥ d = 0 → d = 0 := by
  have hdim' : (dimsOf (toProblem np)).sum = (toProblem np).m := by rw [dimsOf_toProblem]; exact hdim
  obtain ⟨hF, _, _⟩ := prepare_ok np hh hp
  have hC : Lgen np hh.Us * (Lgen np hh.Us)ᵀ = (toProblem np).C := by
    rw [← Cadj_eq_C (toProblem np) hdim']; exact Lgen_mul_transpose hsq np hdim hh.Us hF
  have h1 : Lgen np hh.Us * ((Lgen np hh.Us)ᵀ * P) = 1 := by rw [← Matrix.mul_assoc, hC, hP]
  have h2 : ((Lgen np hh.Us)ᵀ * P) * Lgen np hh.Us = 1 := mul_eq_one_comm.1 h1
  refine ⟨(Lgen np hh.Us)ᵀ * P, whiten_of_chol hC.symm h2 hP, ?_⟩
  intro d hd
  have : Lgen np hh.Us *ᵥ (((Lgen np hh.Us)ᵀ * P) *ᵥ d) = d := by rw [mulVec_mulVec, h1, one_mulVec]
  rw [← this, hd, mulVec_zero]

/-- the static hypotheses of the envelope theorems hold for every assembled system with valid rows:
    the blocks `LocalNetwork` builds are well-formed whatever the clusters hold -/
theorem inputOK (np : NetProblem K) (hdim : (dimsN np).sum = np.m) (hrows : RowsOK (toProblem np)) :
    Env.InputOK (toProblem np) where
  blocks := by
    intro b hb
    rw [cov_toList] at hb
    obtain ⟨C, hC, rfl⟩ := List.mem_map.1 hb
    exact blkOf_WF C (cofs_WF np C hC)
  dims := by rw [dimsOf_toProblem]; exact hdim
  rows := hrows

/-- a rejection by `prepareProjectEquations()` is `Adj::choldec` rejecting one cofactor block -/
theorem factors_error : ∀ (Cs : List (Cov.CovMat K)) (e : ErrKind), factors Cs = .error e →
    ∃ C ∈ Cs, ∃ e', Cov.adjCholdec C = .error e' ∧ e = errOf e' := by
  intro Cs
  induction Cs with
  | nil => intro e h; cases h
  | cons C0 Cs ih =>
    intro e h
    unfold factors at h
    cases h0 : Cov.adjCholdec C0 with
    | error e' =>
      rw [h0] at h
      exact ⟨C0, List.mem_cons_self, e', h0, (Except.error.inj h).symm⟩
    | ok U0 =>
      rw [h0] at h
      simp only at h
      cases h1 : factors Cs with
      | error e1 =>
        rw [h1] at h
        obtain ⟨C, hC, e', he, hee⟩ := ih e1 h1
        exact ⟨C, List.mem_cons_of_mem _ hC, e', he, by rw [← hee]; exact (Except.error.inj h).symm⟩
      | ok Us' => rw [h1] at h; cases h

/-! ### `N = activeObs()` is the dimension of `activeCov()` (`dimension() = 1`) -/

theorem activeIdx_length_ones : ∀ (l : List Bool) (n : Nat),
    (Cov.activeIdx n (l.map fun a => (⟨a, 1⟩ : Cov.ObsInfo))).length = (l.filter id).length := by
  intro l
  induction l with
  | nil => intro n; rfl
  | cons a l ih =>
    intro n
    rw [List.map_cons]
    unfold Cov.activeIdx
    rw [List.length_append, ih]
    cases a <;> simp <;> omega

theorem cofactor_dim (m0 : K) (c : Cluster K) : (c.cofactor m0).dim = c.nAct := by
  show (Cov.activeCov c.cov c.obs).dim = _
  rw [(Cov.activeCov_submatrix c.cov c.obs).2.1]
  unfold Cluster.obs Cluster.nAct
  rw [List.size_toArray, activeIdx_length_ones]

/-- the block dimensions of the model are the `N = cluster->activeObs()` of the code -/
theorem dimsN_eq (np : NetProblem K) : dimsN np = (activeClusters np).map (·.nAct) := by
  unfold dimsN cofs
  rw [List.map_map]
  exact List.map_congr_left fun c _ => cofactor_dim np.m0 c

end Gama.Ls.Net
