/-
  Assembly of the four loops of `Svd.decompose` from the statements of `SvdDecompSpec.lean`
  (taken here as hypotheses; `SvdDecompCert.lean` plugs in their proofs):

    `passTail_spec`, `passBody_spec`  one pass for the singular value `k` keeps `KInv k`, and sets
                                      `done` only when `rv1[k] = 0 ∧ 0 ≤ W[k]` (`KInv (k-1)`)
    `kBody_spec`                      the pass loop (fuel 32, `NoConvergence` otherwise)
    `qrInv_init`                      phases 1–3 establish `QRInv`
    `decompose_cert_of`               `decompose m n A = .ok d` ⇒ `A = U diag(W) Vᵀ`, `VᵀV = 1`,
                                      columns of `U` with `W ≠ 0` orthonormal, `W ≥ 0`
-/
import Gama.Lemmas.Ls.SvdDecompSpec

namespace Gama.Ls.Svd
open Matrix Finset Gama.LS Gama.Ls

set_option linter.unusedSectionVars false
set_option linter.unusedVariables false
set_option linter.unusedSimpArgs false

variable {K : Type} [Field K] [LinearOrder K] [IsStrictOrderedRing K] (sq : K → K)

local notation "𝕊" => (Gama.LS.fieldScalar sq)

/-- invariant of the loop over the singular values: `QRInv`, and the part beyond `k` is final -/
def KInv (m n : Nat) (A : DMat K) (k : Nat) (U : DMat K) (W : Array K) (V : DMat K) (rv1 : Array K) : Prop :=
  QRInv sq m n A U W V rv1 ∧ ∀ j, k < j → @g1 K 𝕊 rv1 j = 0 ∧ 0 ≤ @g1 K 𝕊 W j

/-- the `done` flag of a pass state -/
def StP.done (st : StP K) : Bool := st.2.2.2.2.2.2.2.2.2.2.2.2.2.2.2

/-- invariant of the pass loop -/
def PInv (m n : Nat) (A : DMat K) (k : Nat) (st : StP K) : Prop :=
  KInv sq m n A k st.1 st.2.1 st.2.2.1 st.2.2.2.1 ∧
    (StP.done st = true → KInv sq m n A (k - 1) st.1 st.2.1 st.2.2.1 st.2.2.2.1)

/-- test for convergence, or shift + sweep: what a pass does after the splitting point `L` is known
    (`gS`, `fS`: the shift quantities, irrelevant here) -/
def passTail (m n k : Nat) (gS fS : K) (U : DMat K) (W : Array K) (V : DMat K) (rv1 : Array K) (g s f h : K)
    (L : Nat) (c x y : K) (L1 its : Nat) : Except ErrKind (ForInStep (StP K)) :=
  if L = k then
    if @g1 K 𝕊 W k < 0 then do
      let V' ← forIn [1:n+1] V (fun j V =>
        (pure (ForInStep.yield (ms V j k (-(@mg K 𝕊 V j k)))) : Except ErrKind (ForInStep (DMat K))))
      pure (ForInStep.yield (U, s1 W k (-(@g1 K 𝕊 W k)), V', rv1, g, s, f, h, L, c, x, y, @g1 K 𝕊 W k, L1, its, true))
    else pure (ForInStep.yield (U, W, V, rv1, g, s, f, h, L, c, x, y, @g1 K 𝕊 W k, L1, its, true))
  else
    if its = 30 then throw ErrKind.NoConvergence
    else do
      let r ← forIn [L:k-1+1] ((U, W, V, rv1, gS, 1, fS, @g1 K 𝕊 rv1 k, 1, @g1 K 𝕊 W L,
        @g1 K 𝕊 W (k - 1), @g1 K 𝕊 W k) : StQ K) (@sweepBody K 𝕊 m n)
      pure (ForInStep.yield (r.1, s1 r.2.1 k r.2.2.2.2.2.2.2.2.2.1, r.2.2.1,
        s1 (s1 r.2.2.2.1 L 0) k r.2.2.2.2.2.2.1, r.2.2.2.2.1, r.2.2.2.2.2.1, r.2.2.2.2.2.2.1,
        r.2.2.2.2.2.2.2.1, L, r.2.2.2.2.2.2.2.2.1, r.2.2.2.2.2.2.2.2.2.1, r.2.2.2.2.2.2.2.2.2.2.1,
        r.2.2.2.2.2.2.2.2.2.2.2, L1, its + 1, false))

theorem passTail_spec (hF : FlipStmt sq) (hQ : SweepStmt sq)
    (hsq : ∀ x : K, 0 ≤ x → sq x * sq x = x) (hsq0 : ∀ x : K, 0 ≤ x → 0 ≤ sq x)
    (m n k : Nat) (A : DMat K) (hk1 : 1 ≤ k) (hkn : k ≤ n) (gS fS : K)
    (U : DMat K) (W : Array K) (V : DMat K) (rv1 : Array K) (g s f h : K) (L : Nat) (c x y : K) (L1 its : Nat)
    (hI : KInv sq m n A k U W V rv1) (hL1 : 1 ≤ L) (hLk : L ≤ k) (hrL : @g1 K 𝕊 rv1 L = 0)
    (hblock : ∀ j, L < j → j ≤ k → @g1 K 𝕊 rv1 j ≠ 0 ∧ @g1 K 𝕊 W (j - 1) ≠ 0)
    (r : ForInStep (StP K))
    (hr : passTail sq m n k gS fS U W V rv1 g s f h L c x y L1 its = .ok r) :
    ∃ st', r = .yield st' ∧ PInv sq m n A k st' := by
  obtain ⟨hQR, htail⟩ := hI
  unfold passTail at hr
  by_cases hLk' : L = k
  · rw [if_pos hLk'] at hr
    subst hLk'
    by_cases hz : @g1 K 𝕊 W L < 0
    · rw [if_pos hz] at hr
      obtain ⟨V', hV', hr⟩ := bind_eq_ok.mp hr
      have hr' := ok_inj hr
      subst hr'
      have hQ' := hF m n A U W V rv1 L V' hQR hL1 hkn hrL hV'
      have hW' : ∀ j, @g1 K 𝕊 (s1 W L (-(@g1 K 𝕊 W L))) j = if j = L then -(@g1 K 𝕊 W L) else @g1 K 𝕊 W j :=
        fun j => @g1_s1_in K 𝕊 _ _ hQR.wfW _ hL1 hkn j _
      have hK : KInv sq m n A (L - 1) U (s1 W L (-(@g1 K 𝕊 W L))) V' rv1 := by
        refine ⟨hQ', fun j hj => ?_⟩
        rw [hW']
        by_cases hjL : j = L
        · subst hjL
          rw [if_pos rfl]
          exact ⟨hrL, by linarith⟩
        · rw [if_neg hjL]
          exact htail j (by omega)
      refine ⟨_, rfl, ⟨hQ', fun j hj => ?_⟩, fun _ => hK⟩
      exact hK.2 j (by omega)
    · rw [if_neg hz] at hr
      have hr' := ok_inj hr
      subst hr'
      have hK : KInv sq m n A (L - 1) U W V rv1 := by
        refine ⟨hQR, fun j hj => ?_⟩
        by_cases hjL : j = L
        · subst hjL
          exact ⟨hrL, not_lt.mp hz⟩
        · exact htail j (by omega)
      exact ⟨_, rfl, ⟨hQR, htail⟩, fun _ => hK⟩
  · rw [if_neg hLk'] at hr
    by_cases hits : its = 30
    · rw [if_pos hits] at hr
      cases hr
    · rw [if_neg hits] at hr
      obtain ⟨rq, hrq, hr⟩ := bind_eq_ok.mp hr
      have hr' := ok_inj hr
      subst hr'
      have hk1z : @g1 K 𝕊 rv1 (k + 1) = 0 := (htail (k + 1) (by omega)).1
      obtain ⟨hQ', hfr⟩ := hQ hsq hsq0 m n A U W V rv1 k L gS fS (@g1 K 𝕊 rv1 k) (@g1 K 𝕊 W (k - 1))
        (@g1 K 𝕊 W k) rq hQR hL1 (by omega) hkn hrL hk1z hblock hrq
      refine ⟨_, rfl, ⟨hQ', fun j hj => ?_⟩, fun hd => ?_⟩
      · obtain ⟨e1, e2⟩ := hfr j hj
        show @g1 K 𝕊 (s1 (s1 rq.2.2.2.1 L 0) k rq.2.2.2.2.2.2.1) j = 0 ∧
          0 ≤ @g1 K 𝕊 (s1 rq.2.1 k rq.2.2.2.2.2.2.2.2.2.1) j
        rw [e1, e2]
        exact htail j hj
      · exact absurd hd (by simp [StP.done])

/-- `passBody` is: search, possibly cancellation, then `passTail` -/
theorem passBody_eq (m n k : Nat) (sOne : K) (U : DMat K) (W : Array K) (V : DMat K) (rv1 : Array K)
    (g s f h : K) (L : Nat) (c x y z : K) (L1 its : Nat) :
    ∃ gS fS : DMat K → Array K → Array K → Nat → K,
    @passBody K 𝕊 m n k (k - 1) sOne (U, W, V, rv1, g, s, f, h, L, c, x, y, z, L1, its, false) =
      (do
        let sr ← forIn [0:k] ((0, L1, false, false) : Nat × Nat × Bool × Bool) (@searchBody K 𝕊 k sOne W rv1)
        if (!sr.2.2.1) = true then do
          let cr ← forIn [sr.1:k+1] ((U, W, rv1, g, 1, f, h, 0, false) : StC K) (@cancelBody K 𝕊 m sr.2.1 sOne)
          passTail sq m n k (gS cr.1 cr.2.1 cr.2.2.1 sr.1) (fS cr.1 cr.2.1 cr.2.2.1 sr.1)
            cr.1 cr.2.1 V cr.2.2.1 cr.2.2.2.1 cr.2.2.2.2.1 cr.2.2.2.2.2.1
            cr.2.2.2.2.2.2.1 sr.1 cr.2.2.2.2.2.2.2.1 x y sr.2.1 its
        else passTail sq m n k (gS U W rv1 sr.1) (fS U W rv1 sr.1) U W V rv1 g s f h sr.1 c x y sr.2.1 its) := by
  refine ⟨fun _ W rv1 _ => @pythag K 𝕊
      (((@g1 K 𝕊 W (k - 1) - @g1 K 𝕊 W k) * (@g1 K 𝕊 W (k - 1) + @g1 K 𝕊 W k) +
          (@g1 K 𝕊 rv1 (k - 1) - @g1 K 𝕊 rv1 k) * (@g1 K 𝕊 rv1 (k - 1) + @g1 K 𝕊 rv1 k)) /
        (@Scalar.ofNat K 𝕊 2 * @g1 K 𝕊 rv1 k * @g1 K 𝕊 W (k - 1))) 1,
    fun _ W rv1 L =>
      ((@g1 K 𝕊 W L - @g1 K 𝕊 W k) * (@g1 K 𝕊 W L + @g1 K 𝕊 W k) +
          @g1 K 𝕊 rv1 k * (@g1 K 𝕊 W (k - 1) /
            ((((@g1 K 𝕊 W (k - 1) - @g1 K 𝕊 W k) * (@g1 K 𝕊 W (k - 1) + @g1 K 𝕊 W k) +
              (@g1 K 𝕊 rv1 (k - 1) - @g1 K 𝕊 rv1 k) * (@g1 K 𝕊 rv1 (k - 1) + @g1 K 𝕊 rv1 k)) /
              (@Scalar.ofNat K 𝕊 2 * @g1 K 𝕊 rv1 k * @g1 K 𝕊 W (k - 1))) +
              (if (0 : K) ≤ (((@g1 K 𝕊 W (k - 1) - @g1 K 𝕊 W k) * (@g1 K 𝕊 W (k - 1) + @g1 K 𝕊 W k) +
                  (@g1 K 𝕊 rv1 (k - 1) - @g1 K 𝕊 rv1 k) * (@g1 K 𝕊 rv1 (k - 1) + @g1 K 𝕊 rv1 k)) /
                  (@Scalar.ofNat K 𝕊 2 * @g1 K 𝕊 rv1 k * @g1 K 𝕊 W (k - 1))) then
                @pythag K 𝕊 (((@g1 K 𝕊 W (k - 1) - @g1 K 𝕊 W k) * (@g1 K 𝕊 W (k - 1) + @g1 K 𝕊 W k) +
                  (@g1 K 𝕊 rv1 (k - 1) - @g1 K 𝕊 rv1 k) * (@g1 K 𝕊 rv1 (k - 1) + @g1 K 𝕊 rv1 k)) /
                  (@Scalar.ofNat K 𝕊 2 * @g1 K 𝕊 rv1 k * @g1 K 𝕊 W (k - 1))) 1
              else -(@pythag K 𝕊 (((@g1 K 𝕊 W (k - 1) - @g1 K 𝕊 W k) * (@g1 K 𝕊 W (k - 1) + @g1 K 𝕊 W k) +
                  (@g1 K 𝕊 rv1 (k - 1) - @g1 K 𝕊 rv1 k) * (@g1 K 𝕊 rv1 (k - 1) + @g1 K 𝕊 rv1 k)) /
                  (@Scalar.ofNat K 𝕊 2 * @g1 K 𝕊 rv1 k * @g1 K 𝕊 W (k - 1))) 1))) - @g1 K 𝕊 rv1 k)) /
        @g1 K 𝕊 W L, ?_⟩
  unfold passBody passTail
  simp only [Bool.false_eq_true, if_false, bind_assoc, pure_bind, ite_bind']
  rfl

/-- one pass: either the loop is left (`done` was set), or the invariant holds again -/
theorem passBody_spec (hS : SearchStmt sq) (hC : CancelStmt sq) (hF : FlipStmt sq) (hQ : SweepStmt sq)
    (hsq : ∀ x : K, 0 ≤ x → sq x * sq x = x) (hsq0 : ∀ x : K, 0 ≤ x → 0 ≤ sq x)
    (m n k : Nat) (A : DMat K) (hk1 : 1 ≤ k) (hkn : k ≤ n) (sOne : K) (st : StP K)
    (hI : PInv sq m n A k st) (r : ForInStep (StP K))
    (hr : @passBody K 𝕊 m n k (k - 1) sOne st = .ok r) :
    r = .done st ∨ ∃ st', r = .yield st' ∧ PInv sq m n A k st' := by
  rcases st with ⟨U, W, V, rv1, g, s, f, h, L, c, x, y, z, L1, its, done⟩
  cases done
  · right
    obtain ⟨gS, fS, e⟩ := passBody_eq sq m n k sOne U W V rv1 g s f h L c x y z L1 its
    rw [e] at hr
    clear e
    obtain ⟨⟨hQR, htail⟩, -⟩ := hI
    obtain ⟨sr, hsr, hr⟩ := bind_eq_ok.mp hr
    obtain ⟨hL1, hLk, hblock, hvia, hnvia⟩ := hS k sOne W rv1 L1 sr hk1 hQR.r1 hsr
    rcases sr with ⟨La, L1a, via, found⟩
    simp only [] at hL1 hLk hblock hvia hnvia hr
    cases via
    · -- cancellation
      simp only [Bool.not_false, if_true] at hr
      obtain ⟨hrL, hWL, hL1a, hL2⟩ := hnvia rfl
      subst hL1a
      obtain ⟨cr, hcr, hr⟩ := bind_eq_ok.mp hr
      have hk1z : @g1 K 𝕊 rv1 (k + 1) = 0 := (htail (k + 1) (by omega)).1
      obtain ⟨hQ', hrL', hfr, hblock'⟩ := hC hsq hsq0 m n A U W V rv1 k La sOne g f h cr hQR hL2 hLk hkn hWL hk1z
        hrL hblock hcr
      refine passTail_spec sq hF hQ hsq hsq0 m n k A hk1 hkn _ _ _ _ _ _ _ _ _ _ La _ _ _ _ _
        ⟨hQ', fun j hj => ?_⟩ hL1 hLk hrL' hblock' r hr
      obtain ⟨e1, e2⟩ := hfr j (Or.inr hj)
      rw [e1, e2]
      exact htail j hj
    · simp only [Bool.not_true, Bool.false_eq_true, if_false] at hr
      exact passTail_spec sq hF hQ hsq hsq0 m n k A hk1 hkn _ _ _ _ _ _ _ _ _ _ La _ _ _ _ _
        ⟨hQR, htail⟩ hL1 hLk (hvia rfl) hblock r hr
  · left
    unfold passBody at hr
    simp only [if_true] at hr
    exact (ok_inj hr).symm

/-- state of the `k` loop → its four arrays -/
theorem kBody_spec (hS : SearchStmt sq) (hC : CancelStmt sq) (hF : FlipStmt sq) (hQ : SweepStmt sq)
    (hsq : ∀ x : K, 0 ≤ x → sq x * sq x = x) (hsq0 : ∀ x : K, 0 ≤ x → 0 ≤ sq x)
    (m n : Nat) (A : DMat K) (sOne : K) (tk : Nat) (htk : tk < n) (st : StK K)
    (hI : KInv sq m n A (n - tk) st.1 st.2.1 st.2.2.1 st.2.2.2.1) (r : ForInStep (StK K))
    (hr : @kBody K 𝕊 m n sOne tk st = .ok r) :
    ∃ st', r = .yield st' ∧ KInv sq m n A (n - (tk + 1)) st'.1 st'.2.1 st'.2.2.1 st'.2.2.2.1 := by
  rcases st with ⟨U, W, V, rv1, g, s, f, h, L, c, x, y, z, L1⟩
  unfold kBody at hr
  simp only [] at hr
  obtain ⟨pr, hpr, hr⟩ := bind_eq_ok.mp hr
  have hk1 : 1 ≤ n - tk := by omega
  have hkn : n - tk ≤ n := by omega
  have hP := forIn_range_inv' (by omega : 0 ≤ 32) hpr (fun _ st => PInv sq m n A (n - tk) st)
    ⟨hI, fun hd => absurd hd (by simp [StP.done])⟩
    (fun i s s' _ _ hPs hb => by
      rcases passBody_spec sq hS hC hF hQ hsq hsq0 m n (n - tk) A hk1 hkn sOne s hPs _ hb with e | ⟨st', e, h'⟩
      · cases e
      · injection e with e; subst e; exact h')
    (fun i s s' _ _ hPs hb => by
      rcases passBody_spec sq hS hC hF hQ hsq hsq0 m n (n - tk) A hk1 hkn sOne s hPs _ hb with e | ⟨st', e, h'⟩
      · injection e with e; subst e; exact hPs
      · cases e)
  rcases pr with ⟨U', W', V', rv1', g', s', f', h', L', c', x', y', z', L1', its', done'⟩
  cases done'
  · simp only [Bool.not_false, if_true] at hr
    cases hr
  · simp only [Bool.not_true, Bool.false_eq_true, if_false] at hr
    have e := ok_inj hr
    subst e
    refine ⟨_, rfl, ?_⟩
    have := hP.2 rfl
    have e2 : n - (tk + 1) = n - tk - 1 := by omega
    rw [e2]
    exact this

/-- the loop over the singular values ends with every super-diagonal element zero and `W ≥ 0` -/
theorem kLoop_spec (hS : SearchStmt sq) (hC : CancelStmt sq) (hF : FlipStmt sq) (hQ : SweepStmt sq)
    (hsq : ∀ x : K, 0 ≤ x → sq x * sq x = x) (hsq0 : ∀ x : K, 0 ≤ x → 0 ≤ sq x)
    (m n : Nat) (A : DMat K) (sOne : K) (st r : StK K)
    (hI : QRInv sq m n A st.1 st.2.1 st.2.2.1 st.2.2.2.1)
    (hr : forIn [0:n] st (@kBody K 𝕊 m n sOne) = .ok r) :
    KInv sq m n A 0 r.1 r.2.1 r.2.2.1 r.2.2.2.1 := by
  have := forIn_range_inv' (Nat.zero_le n) hr
    (fun tk st => KInv sq m n A (n - tk) st.1 st.2.1 st.2.2.1 st.2.2.2.1)
    ⟨hI, fun j hj => ⟨@g1_out K 𝕊 _ _ hI.wfr _ (Or.inr (by omega)), by
      rw [@g1_out K 𝕊 _ _ hI.wfW _ (Or.inr (by omega))]⟩⟩
    (fun i s s' _ hi hPs hb => by
      obtain ⟨st', e, h'⟩ := kBody_spec sq hS hC hF hQ hsq hsq0 m n A sOne i hi s hPs _ hb
      injection e with e; subst e; exact h')
    (fun i s s' _ hi hPs hb => by
      obtain ⟨st', e, h'⟩ := kBody_spec sq hS hC hF hQ hsq hsq0 m n A sOne i hi s hPs _ hb
      cases e)
  simpa using this

/-! ### phases 1–3 establish the invariant -/

omit [LinearOrder K] [IsStrictOrderedRing K] in
theorem prodFrom_orth' {ι : Type} [Fintype ι] [DecidableEq ι] (F : Nat → Matrix ι ι K) : ∀ (cnt a : Nat),
    (∀ j, a ≤ j → j < a + cnt → (F j)ᵀ * F j = 1) → (prodFrom F a cnt)ᵀ * prodFrom F a cnt = 1 := by
  intro cnt
  induction cnt with
  | zero => intro a _; simp [prodFrom]
  | succ cnt ih =>
    intro a h
    show (F a * prodFrom F (a + 1) cnt)ᵀ * (F a * prodFrom F (a + 1) cnt) = 1
    rw [Matrix.transpose_mul, Matrix.mul_assoc, ← Matrix.mul_assoc (F a)ᵀ, h a (le_refl _) (by omega), Matrix.one_mul,
      ih (a + 1) (fun j h1 h2 => h j (by omega) (by omega))]

omit [LinearOrder K] [IsStrictOrderedRing K] in
theorem eyeMN_gram (m n : Nat) :
    (eyeMN m n : Matrix (Fin m) (Fin n) K)ᵀ * eyeMN m n = diagonal fun c : Fin n => if c.val < m then (1 : K) else 0 := by
  ext a b
  rw [Matrix.mul_apply]
  simp only [Matrix.transpose_apply, eyeMN]
  by_cases ham : a.val < m
  · rw [Finset.sum_eq_single (⟨a.val, ham⟩ : Fin m)]
    · by_cases hab : a = b
      · subst hab; simp [ham]
      · have : a.val ≠ b.val := fun e => hab (Fin.ext e)
        simp [this, hab]
    · intro r _ hr
      have : r.val ≠ a.val := fun e => hr (Fin.ext e)
      simp [this]
    · intro h; exact absurd (Finset.mem_univ _) h
  · rw [Finset.sum_eq_zero]
    · by_cases hab : a = b
      · subst hab; simp [ham]
      · simp [hab]
    · intro r _
      have : r.val ≠ a.val := by have := r.2; omega
      simp [this]

/-- **phases 1–3**: the Householder loop and the two accumulations establish `QRInv` -/
theorem qrInv_init (m n : Nat) (A U1 : DMat K) (W rv1 : Array K) (V2 U3 : DMat K)
    (h1 : Phase1Post sq m n A U1 W rv1)
    (h2 : MWF n n V2 ∧ toMatrix n n V2 = prodFrom (QRm sq n U1 (@g1 K 𝕊 rv1)) 1 n)
    (h3 : MWF m n U3 ∧
      toMatrix m n U3 = prodFrom (PL sq m U1 (@g1 K 𝕊 W)) 1 (if m < n then m else n) * eyeMN m n) :
    QRInv sq m n A U3 W V2 rv1 := by
  obtain ⟨hwfV, hV⟩ := h2
  obtain ⟨hwfU, hU⟩ := h3
  have hQo : (prodFrom (QRm sq n U1 (@g1 K 𝕊 rv1)) 1 n)ᵀ * prodFrom (QRm sq n U1 (@g1 K 𝕊 rv1)) 1 n = 1 :=
    prodFrom_orth' _ n 1 (fun j hj1 hj2 => hh_orth _ _ (h1.hR j hj1 (by omega)))
  set mn := (if m < n then m else n) with hmn
  have hmn_le : mn ≤ n := by rw [hmn]; split <;> omega
  have hPo : (prodFrom (PL sq m U1 (@g1 K 𝕊 W)) 1 mn)ᵀ * prodFrom (PL sq m U1 (@g1 K 𝕊 W)) 1 mn = 1 :=
    prodFrom_orth' _ mn 1 (fun j hj1 hj2 => hh_orth _ _ (h1.hL j hj1 (by omega)))
  -- the reflectors beyond `mn` are identities
  have hPn : prodFrom (PL sq m U1 (@g1 K 𝕊 W)) 1 n = prodFrom (PL sq m U1 (@g1 K 𝕊 W)) 1 mn := by
    have e : n = mn + (n - mn) := by omega
    conv_lhs => rw [e]
    rw [prodFrom_append, prodFrom_one _ (n - mn) (1 + mn), Matrix.mul_one]
    intro j hj1 hj2
    have hjm : m < j := by
      rw [hmn] at hj1 hj2
      split at hj1 <;> omega
    show hh _ (bL sq U1 (@g1 K 𝕊 W) j) = 1
    unfold bL
    rw [h1.Wz j hjm, mul_zero, hh_zero]
  have hB : bidiagMN m n (@g1 K 𝕊 W) (@g1 K 𝕊 rv1) = eyeMN m n * bidiagN n (@g1 K 𝕊 W) (@g1 K 𝕊 rv1) :=
    (eyeMN_mul_bidiagN m n _ _ (fun j hj _ => h1.Wz j hj) (fun j hj _ => h1.rz j hj)).symm
  refine ⟨hwfU, hwfV, h1.wfW, h1.wfr, h1.r1, ?_, ?_, ?_⟩
  · rw [h1.fact, hPn, hB, hU, hV]
    simp only [Matrix.mul_assoc]
  · rw [hV]; exact hQo
  · refine ⟨diagonal fun c : Fin n => if c.val < m then (0 : K) else 1, ?_, ?_⟩
    · rw [hU, Matrix.transpose_mul, Matrix.mul_assoc, ← Matrix.mul_assoc _ (prodFrom _ 1 mn), hPo, Matrix.one_mul,
        eyeMN_gram, Matrix.diagonal_transpose, Matrix.diagonal_mul_diagonal, Matrix.diagonal_add, ← Matrix.diagonal_one]
      congr 1
      funext c
      split <;> simp
    · ext a b
      rw [Matrix.diagonal_mul, Matrix.zero_apply]
      by_cases ham : a.val < m
      · rw [if_pos ham, zero_mul]
      · rw [if_neg ham, one_mul]
        unfold bidiagN
        split
        · next hab => exact h1.Wz _ (by omega)
        · split
          · next hab => exact h1.rz _ (by omega)
          · rfl

/-! ### the whole program -/

/-- what a run of `decompose` that returns has produced -/
structure DecompPost (m n : Nat) (A : DMat K) (d : Dec K) : Prop where
  wfU : MWF m n d.U
  wfV : MWF n n d.V
  wfW : d.W.size = n
  fact : toMatrix m n A = toMatrix m n d.U * diagonal (toVec n d.W) * (toMatrix n n d.V)ᵀ
  vtv : (toMatrix n n d.V)ᵀ * toMatrix n n d.V = 1
  utu : ∀ i j : Fin n, toVec n d.W i ≠ 0 →
    ((toMatrix m n d.U)ᵀ * toMatrix m n d.U) i j = if i = j then 1 else 0
  nonneg : ∀ i : Fin n, 0 ≤ toVec n d.W i

theorem decompPost_of_kinv (m n : Nat) (A U : DMat K) (W : Array K) (V : DMat K) (rv1 : Array K)
    (h : KInv sq m n A 0 U W V rv1) : DecompPost m n A { U := U, W := W, V := V } := by
  obtain ⟨hQ, ht⟩ := h
  have hB : bidiagN n (@g1 K 𝕊 W) (@g1 K 𝕊 rv1) = diagonal (toVec n W) :=
    bidiagN_diag n _ _ (fun j hj _ => (ht j (by omega)).1)
  refine ⟨hQ.wfU, hQ.wfV, hQ.wfW, ?_, hQ.vtv, ?_, fun i => (ht (i.val + 1) (by omega)).2⟩
  · show toMatrix m n A = toMatrix m n U * diagonal (toVec n W) * (toMatrix n n V)ᵀ
    rw [← hB]; exact hQ.fact
  · intro i j hi
    obtain ⟨Z, hZ1, hZ2⟩ := hQ.utu
    rw [hB] at hZ2
    show ((toMatrix m n U)ᵀ * toMatrix m n U) i j = _
    have hZi : ∀ a, Z a i = 0 := by
      intro a
      have := congrFun (congrFun hZ2 a) i
      rw [Matrix.mul_diagonal, Matrix.zero_apply] at this
      rcases mul_eq_zero.mp this with h0 | h0
      · exact h0
      · exact absurd h0 hi
    have hZZ : (Zᵀ * Z) i j = 0 := by
      rw [Matrix.mul_apply]
      refine Finset.sum_eq_zero fun a _ => ?_
      rw [Matrix.transpose_apply, hZi a, zero_mul]
    have := congrFun (congrFun hZ1 i) j
    rw [Matrix.add_apply, hZZ, add_zero, Matrix.one_apply] at this
    exact this

/-- **`decompose` returns a factorisation** (from the statements about its loops) -/
theorem decompose_cert_of (h1 : Phase1Stmt sq) (h2 : Phase2Stmt sq) (h3 : Phase3Stmt sq)
    (hS : SearchStmt sq) (hC : CancelStmt sq) (hF : FlipStmt sq) (hQ : SweepStmt sq)
    (hsq : ∀ x : K, 0 ≤ x → sq x * sq x = x) (hsq0 : ∀ x : K, 0 ≤ x → 0 ≤ sq x)
    (m n : Nat) (A : DMat K) (d : Dec K) (h : @decompose K 𝕊 m n A = .ok d) :
    DecompPost m n A d := by
  rw [@decompose_eq_struct K 𝕊 m n A] at h
  unfold decomposeS at h
  simp only [] at h
  obtain ⟨st1, hst1, h⟩ := bind_eq_ok.mp h
  have hp1 := h1 hsq hsq0 m n A st1 hst1
  rcases st1 with ⟨U1, W, rv1, sOne, g, scale, s, f, hh', L⟩
  simp only [] at h hp1
  obtain ⟨st2, hst2, h⟩ := bind_eq_ok.mp h
  have hp2 := h2 m n U1 rv1 g s L st2 hp1.wfU hp1.wfr hst2
  rcases st2 with ⟨V2, g2, s2, L2⟩
  simp only [] at h hp2
  obtain ⟨st3, hst3, h⟩ := bind_eq_ok.mp h
  have hp3 := h3 m n U1 W g2 s2 f L2 st3 hp1.wfU hp1.wfW hp1.hL0 hst3
  rcases st3 with ⟨U3, g3, s3, f3, L3⟩
  simp only [] at h hp3
  obtain ⟨st4, hst4, h⟩ := bind_eq_ok.mp h
  have hq0 := qrInv_init sq m n A U1 W rv1 V2 U3 hp1 hp2 hp3
  have hk := kLoop_spec sq hS hC hF hQ hsq hsq0 m n A sOne _ st4 hq0 hst4
  rcases st4 with ⟨U4, W4, V4, rv14, rest⟩
  simp only [] at h hk
  have e := ok_inj h
  subst e
  exact decompPost_of_kinv sq m n A U4 W4 V4 rv14 hk

end Gama.Ls.Svd
