/-
  Phase 1 of `Svd.decompose`: the Householder bidiagonalisation loop
  `forIn [1:n+1] init (bidiagBody m n)` keeps, after every step `i`,

      A = (P₁ ⋯ Pᵢ) · Work_i · (Q₁ ⋯ Qᵢ)ᵀ                      (`Inv1.fact`)

  where `Pⱼ`, `Qⱼ` are the reflectors stored in the array (`PL`, `QRm` of `SvdDecompSpec.lean`) and
  `Work_i` is bidiagonal in its first `i` rows and columns (diagonal `W`, super-diagonal `rv1`, the
  last super-diagonal element still pending in `scale·g`) and equals the array in the trailing block.
  The two half-steps (`hhCol`, `hhRow`) enter through their function-level post-conditions
  (`HhColStmt`, `HhRowStmt`).

      `bidiag_invariant` : the invariant `Inv1St` holds after every Householder step
      `phase1_of`        : `HhColStmt → HhRowStmt → Phase1Stmt`
-/
import Gama.Lemmas.Ls.SvdDecompSpec

namespace Gama.Ls.Svd
open Matrix Finset Gama.LS Gama.Ls

set_option linter.unusedSectionVars false
set_option linter.unusedVariables false
set_option linter.unusedSimpArgs false

variable {K : Type} [Field K] [LinearOrder K] [IsStrictOrderedRing K] (sq : K → K)

local notation "𝕊" => (Gama.LS.fieldScalar sq)

/-! ### the array lemmas of `SvdDecompBasic.lean` at the instance `𝕊` -/

theorem bd_g1_s1_in {n : Nat} {v : Array K} (h : v.size = n) {i : Nat} (hi : 1 ≤ i) (hi' : i ≤ n) (a : Nat) (x : K) :
    @g1 K 𝕊 (s1 v i x) a = if a = i then x else @g1 K 𝕊 v a := @g1_s1_in K 𝕊 n v h i hi hi' a x

theorem bd_s1_size {n : Nat} {v : Array K} (h : v.size = n) (i : Nat) (x : K) : (s1 v i x).size = n :=
  @s1_size K (Gama.LS.fieldScalar id) n v h i x

theorem bd_mg_out {r c : Nat} {M : DMat K} (h : MWF r c M) {i j : Nat} (ho : i = 0 ∨ r < i ∨ j = 0 ∨ c < j) :
    @mg K 𝕊 M i j = 0 := @mg_out K 𝕊 r c M h i j ho

theorem bd_g1_out {n : Nat} {v : Array K} (h : v.size = n) {i : Nat} (ho : i = 0 ∨ n < i) : @g1 K 𝕊 v i = 0 :=
  @g1_out K 𝕊 n v h i ho

theorem bd_g1_replicate_zero (n i : Nat) : @g1 K 𝕊 (Array.replicate n (0 : K)) i = 0 :=
  @g1_replicate_zero K 𝕊 n i

theorem bd_MWF_mmk (r c : Nat) (f : Nat → Nat → K) : MWF r c (@mmk K r c f) := @MWF_mmk K (Gama.LS.fieldScalar id) r c f

theorem bd_mg_mmk (r c : Nat) (f : Nat → Nat → K) (i j : Nat) :
    @mg K 𝕊 (@mmk K r c f) i j = if 1 ≤ i ∧ i ≤ r ∧ 1 ≤ j ∧ j ≤ c then f (i - 1) (j - 1) else 0 :=
  @mg_mmk K 𝕊 r c f i j

/-! ### the loop body
-/

theorem bidiagBody_decomp (m n i : Nat) (U : DMat K) (W rv1 : Array K) (sOne g scale s f h : K) (L : Nat)
    (r : ForInStep (St1 K))
    (hb : @bidiagBody K 𝕊 m n i (U, W, rv1, sOne, g, scale, s, f, h, L) = .ok r) :
    ∃ (rc : DMat K × K × K × K × K × K) (rr : DMat K × Array K × K × K × K × K × K) (sOne' : K),
      @hhCol K 𝕊 m n i (i + 1) U f h = .ok rc ∧
      @hhRow K 𝕊 m n i (i + 1) rc.1 (s1 rv1 i (scale * g)) rc.2.2.2.2.1 rc.2.2.2.2.2 = .ok rr ∧
      r = .yield (rr.1, s1 W i (rc.2.2.1 * rc.2.1), rr.2.1, sOne', rr.2.2.1, rr.2.2.2.1, rr.2.2.2.2.1,
        rr.2.2.2.2.2.1, rr.2.2.2.2.2.2, i + 1) := by
  unfold bidiagBody at hb
  simp only [] at hb
  obtain ⟨rc, h1, hb⟩ := bind_eq_ok.mp hb
  obtain ⟨U1, g1', sc1, s1', f1, h1'⟩ := rc
  simp only [] at hb
  obtain ⟨rr, h2, hb⟩ := bind_eq_ok.mp hb
  obtain ⟨U2, rv2, g2, sc2, s2, f2, h2'⟩ := rr
  simp only [] at hb
  split at hb
  · exact ⟨_, _, _, h1, h2, (ok_inj hb).symm⟩
  · exact ⟨_, _, _, h1, h2, (ok_inj hb).symm⟩

/-! ### sums over `Fin m` of vectors that vanish before position `i` -/

theorem bd_sum_fin_Icc (m i : Nat) (hi : 1 ≤ i) (G : Nat → K) :
    ∑ k : Fin m, (if i ≤ k.val + 1 then G (k.val + 1) else 0) = ∑ a ∈ Icc i m, G a := by
  rw [Fin.sum_univ_eq_sum_range (fun k => if i ≤ k + 1 then G (k + 1) else 0) m]
  induction m with
  | zero => rw [Finset.sum_range_zero, Finset.Icc_eq_empty (by omega), Finset.sum_empty]
  | succ m ih =>
    rw [Finset.sum_range_succ, ih]
    by_cases h : i ≤ m + 1
    · rw [if_pos h, Finset.sum_Icc_succ_top h]
    · rw [if_neg h, Finset.Icc_eq_empty (by omega), Finset.Icc_eq_empty (by omega)]; simp

theorem bd_hh_mul_apply {ι κ : Type} [Fintype ι] [DecidableEq ι] (u : ι → K) (β : K) (M : Matrix ι κ K)
    (r : ι) (c : κ) : (hh u β * M) r c = M r c + β⁻¹ * (∑ k, u k * M k c) * u r := by
  rw [Matrix.mul_apply]
  simp only [hh_apply, add_mul, ite_mul, one_mul, zero_mul, Finset.sum_add_distrib, Finset.sum_ite_eq,
    Finset.mem_univ, if_true]
  congr 1
  rw [Finset.mul_sum, Finset.sum_mul]
  refine Finset.sum_congr rfl fun k _ => ?_
  ring

theorem bd_mul_hh_apply {ι κ : Type} [Fintype ι] [DecidableEq ι] (v : ι → K) (β : K) (M : Matrix κ ι K)
    (r : κ) (c : ι) : (M * hh v β) r c = M r c + β⁻¹ * (∑ k, M r k * v k) * v c := by
  rw [Matrix.mul_apply]
  simp only [hh_apply, mul_add, mul_ite, mul_one, mul_zero, Finset.sum_add_distrib, Finset.sum_ite_eq',
    Finset.mem_univ, if_true]
  congr 1
  rw [Finset.mul_sum, Finset.sum_mul]
  refine Finset.sum_congr rfl fun k _ => ?_
  ring

/-! ### the partially reduced matrix -/

/-- entry `(r, c)` (1-based) of the upper bidiagonal matrix with diagonal `d`, super-diagonal `s` -/
def bdF (d s : Nat → K) (r c : Nat) : K := if r = c then d c else if r + 1 = c then s c else 0

/-- after `i` steps: bidiagonal in the first `i` rows and columns, the array elsewhere -/
def bdWorkF (i : Nat) (X : Nat → Nat → K) (d s : Nat → K) (r c : Nat) : K :=
  if r ≤ i ∨ c ≤ i then bdF d s r c else X r c

/-- between the two half-steps of step `i + 1` -/
def bdMidF (i : Nat) (X : Nat → Nat → K) (d s : Nat → K) (w : K) (r c : Nat) : K :=
  if r ≤ i ∨ c ≤ i then bdF d s r c else if c = i + 1 then (if r = i + 1 then w else 0) else X r c

def bdWorkM (m n i : Nat) (X : Nat → Nat → K) (d s : Nat → K) : Matrix (Fin m) (Fin n) K :=
  fun r c => bdWorkF i X d s (r.val + 1) (c.val + 1)

def bdMidM (m n i : Nat) (X : Nat → Nat → K) (d s : Nat → K) (w : K) : Matrix (Fin m) (Fin n) K :=
  fun r c => bdMidF i X d s w (r.val + 1) (c.val + 1)

theorem bd_left_stage (m n i : Nat) (X X1 : Nat → Nat → K) (d s : Nat → K) (w : K)
    (cols : ∀ a b, i + 1 ≤ a → a ≤ m → i + 1 + 1 ≤ b → b ≤ n →
      X1 a b = X a b + (X1 (i + 1) (i + 1) * w)⁻¹ * (∑ r ∈ Icc (i + 1) m, X1 r (i + 1) * X r b) * X1 a (i + 1))
    (coli : ∀ a, i + 1 ≤ a → a ≤ m →
      X a (i + 1) + (X1 (i + 1) (i + 1) * w)⁻¹ * (∑ r ∈ Icc (i + 1) m, X1 r (i + 1) * X r (i + 1)) * X1 a (i + 1)
        = if a = i + 1 then w else 0) :
    hh (fun r : Fin m => if i + 1 ≤ r.val + 1 then X1 (r.val + 1) (i + 1) else 0) (X1 (i + 1) (i + 1) * w)
      * bdWorkM m n i X d s = bdMidM m n i X1 d s w := by
  ext r c
  rw [bd_hh_mul_apply]
  have hsum : ∑ k : Fin m, (if i + 1 ≤ k.val + 1 then X1 (k.val + 1) (i + 1) else 0) * bdWorkM m n i X d s k c
      = ∑ a ∈ Icc (i + 1) m, X1 a (i + 1) * bdWorkF i X d s a (c.val + 1) := by
    rw [← bd_sum_fin_Icc m (i + 1) (by omega)]
    refine Finset.sum_congr rfl fun k _ => ?_
    rw [ite_mul, zero_mul]; rfl
  rw [hsum]
  show bdWorkF i X d s (r.val + 1) (c.val + 1) + _ = bdMidF i X1 d s w (r.val + 1) (c.val + 1)
  have hc := c.2
  have hr := r.2
  by_cases hb : c.val + 1 ≤ i
  · -- columns already reduced
    have h0 : ∑ a ∈ Icc (i + 1) m, X1 a (i + 1) * bdWorkF i X d s a (c.val + 1) = 0 := by
      refine Finset.sum_eq_zero fun a ha => ?_
      rw [Finset.mem_Icc] at ha
      unfold bdWorkF bdF
      rw [if_pos (Or.inr hb), if_neg (by omega), if_neg (by omega), mul_zero]
    rw [h0, mul_zero, zero_mul, add_zero]
    unfold bdWorkF bdMidF
    rw [if_pos (Or.inr hb), if_pos (Or.inr hb)]
  · have h1 : ∑ a ∈ Icc (i + 1) m, X1 a (i + 1) * bdWorkF i X d s a (c.val + 1)
        = ∑ a ∈ Icc (i + 1) m, X1 a (i + 1) * X a (c.val + 1) := by
      refine Finset.sum_congr rfl fun a ha => ?_
      rw [Finset.mem_Icc] at ha
      unfold bdWorkF
      rw [if_neg (by omega)]
    rw [h1]
    by_cases ha : r.val + 1 ≤ i
    · rw [if_neg (by omega), mul_zero, add_zero]
      unfold bdWorkF bdMidF
      rw [if_pos (Or.inl ha), if_pos (Or.inl ha)]
    · rw [if_pos (by omega)]
      unfold bdWorkF bdMidF
      rw [if_neg (by omega), if_neg (by omega)]
      by_cases hci : c.val + 1 = i + 1
      · rw [if_pos hci, hci]
        exact coli (r.val + 1) (by omega) (by omega)
      · rw [if_neg hci]
        exact (cols (r.val + 1) (c.val + 1) (by omega) (by omega) (by omega) (by omega)).symm

theorem bd_right_stage (m n i : Nat) (X1 X2 : Nat → Nat → K) (d s d' s' : Nat → K) (w e : K)
    (hd : ∀ c, c ≤ i → d' c = d c) (hdi : d' (i + 1) = w)
    (hs : ∀ c, c ≤ i + 1 → s' c = s c) (hsi : s' (i + 1 + 1) = e)
    (rows : ∀ a b, i + 1 + 1 ≤ a → a ≤ m → i + 1 + 1 ≤ b → b ≤ n →
      X2 a b = X1 a b + (X2 (i + 1) (i + 1 + 1) * e)⁻¹ * (∑ c ∈ Icc (i + 1 + 1) n, X1 a c * X2 (i + 1) c) * X2 (i + 1) b)
    (rowi : ∀ b, i + 1 + 1 ≤ b → b ≤ n →
      X1 (i + 1) b + (X2 (i + 1) (i + 1 + 1) * e)⁻¹ * (∑ c ∈ Icc (i + 1 + 1) n, X1 (i + 1) c * X2 (i + 1) c) * X2 (i + 1) b
        = if b = i + 1 + 1 then e else 0) :
    bdMidM m n i X1 d s w
      * hh (fun c : Fin n => if i + 1 + 1 ≤ c.val + 1 then X2 (i + 1) (c.val + 1) else 0) (X2 (i + 1) (i + 1 + 1) * e)
      = bdWorkM m n (i + 1) X2 d' s' := by
  ext r c
  rw [bd_mul_hh_apply]
  have hsum : ∑ k : Fin n, bdMidM m n i X1 d s w r k * (if i + 1 + 1 ≤ k.val + 1 then X2 (i + 1) (k.val + 1) else 0)
      = ∑ b ∈ Icc (i + 1 + 1) n, bdMidF i X1 d s w (r.val + 1) b * X2 (i + 1) b := by
    rw [← bd_sum_fin_Icc n (i + 1 + 1) (by omega)]
    refine Finset.sum_congr rfl fun k _ => ?_
    rw [mul_ite, mul_zero]; rfl
  rw [hsum]
  show bdMidF i X1 d s w (r.val + 1) (c.val + 1) + _ = bdWorkF (i + 1) X2 d' s' (r.val + 1) (c.val + 1)
  have hc := c.2
  have hr := r.2
  by_cases ha : r.val + 1 ≤ i
  · -- rows already reduced
    have h0 : ∑ b ∈ Icc (i + 1 + 1) n, bdMidF i X1 d s w (r.val + 1) b * X2 (i + 1) b = 0 := by
      refine Finset.sum_eq_zero fun b hb => ?_
      rw [Finset.mem_Icc] at hb
      unfold bdMidF bdF
      rw [if_pos (Or.inl ha), if_neg (by omega), if_neg (by omega), zero_mul]
    rw [h0, mul_zero, zero_mul, add_zero]
    unfold bdMidF bdWorkF
    rw [if_pos (Or.inl ha), if_pos (Or.inl (by omega))]
    unfold bdF
    by_cases h1 : r.val + 1 = c.val + 1
    · rw [if_pos h1, if_pos h1, hd _ (by omega)]
    · rw [if_neg h1, if_neg h1]
      by_cases h2 : r.val + 1 + 1 = c.val + 1
      · rw [if_pos h2, if_pos h2, hs _ (by omega)]
      · rw [if_neg h2, if_neg h2]
  · have h1 : ∑ b ∈ Icc (i + 1 + 1) n, bdMidF i X1 d s w (r.val + 1) b * X2 (i + 1) b
        = ∑ b ∈ Icc (i + 1 + 1) n, X1 (r.val + 1) b * X2 (i + 1) b := by
      refine Finset.sum_congr rfl fun b hb => ?_
      rw [Finset.mem_Icc] at hb
      unfold bdMidF
      rw [if_neg (by omega), if_neg (by omega)]
    rw [h1]
    by_cases hb : c.val + 1 ≤ i + 1
    · rw [if_neg (by omega), mul_zero, add_zero]
      unfold bdMidF bdWorkF
      rw [if_pos (Or.inr hb)]
      by_cases hb' : c.val + 1 ≤ i
      · rw [if_pos (Or.inr hb')]
        unfold bdF
        rw [if_neg (by omega), if_neg (by omega), if_neg (by omega), if_neg (by omega)]
      · have hci : c.val + 1 = i + 1 := by omega
        rw [if_neg (by omega), if_pos hci]
        unfold bdF
        by_cases hri : r.val + 1 = i + 1
        · rw [if_pos hri, if_pos (by omega), hci, hdi]
        · rw [if_neg hri, if_neg (by omega), if_neg (by omega)]
    · rw [if_pos (by omega)]
      unfold bdMidF bdWorkF
      rw [if_neg (by omega), if_neg (by omega)]
      by_cases hri : r.val + 1 = i + 1
      · rw [if_pos (Or.inl (by omega)), hri]
        rw [rowi (c.val + 1) (by omega) (by omega)]
        by_cases hci : c.val + 1 = i + 1 + 1
        · rw [if_pos hci]
          unfold bdF
          rw [if_neg (by omega), if_pos (by omega), hci, hsi]
        · rw [if_neg hci]
          unfold bdF
          rw [if_neg (by omega), if_neg (by omega)]
      · rw [if_neg (by omega)]
        exact (rows (r.val + 1) (c.val + 1) (by omega) (by omega) (by omega) (by omega)).symm


/-! ### the stored reflectors depend on one column / one row of the array -/

theorem bd_uL_congr (m : Nat) (U U' : DMat K) (j : Nat) (h : ∀ a, @mg K 𝕊 U' a j = @mg K 𝕊 U a j) :
    uL sq m U' j = uL sq m U j := by
  funext r; unfold uL; rw [h]

theorem bd_PL_congr (m : Nat) (U U' : DMat K) (w w' : Nat → K) (j : Nat)
    (h : ∀ a, @mg K 𝕊 U' a j = @mg K 𝕊 U a j) (hw : w' j = w j) :
    PL sq m U' w' j = PL sq m U w j := by
  unfold PL bL; rw [bd_uL_congr sq m U U' j h, h, hw]

theorem bd_uR_congr (n : Nat) (U U' : DMat K) (j : Nat) (h : ∀ b, @mg K 𝕊 U' j b = @mg K 𝕊 U j b) :
    uR sq n U' j = uR sq n U j := by
  funext c; unfold uR; rw [h]

theorem bd_QRm_congr (n : Nat) (U U' : DMat K) (e e' : Nat → K) (j : Nat)
    (h : ∀ b, @mg K 𝕊 U' j b = @mg K 𝕊 U j b) (he : e' (j + 1) = e (j + 1)) :
    QRm sq n U' e' j = QRm sq n U e j := by
  unfold QRm bR; rw [bd_uR_congr sq n U U' j h, h, he]

theorem bd_uL_dot (m : Nat) (U : DMat K) (j : Nat) (hj : 1 ≤ j) :
    uL sq m U j ⬝ᵥ uL sq m U j = ∑ a ∈ Icc j m, @mg K 𝕊 U a j * @mg K 𝕊 U a j := by
  rw [← bd_sum_fin_Icc m j hj]
  show ∑ k : Fin m, uL sq m U j k * uL sq m U j k = _
  refine Finset.sum_congr rfl fun k _ => ?_
  unfold uL
  by_cases h : j ≤ k.val + 1
  · rw [if_pos h, if_pos h]
  · rw [if_neg h, if_neg h, mul_zero]

theorem bd_uR_dot (n : Nat) (U : DMat K) (j : Nat) :
    uR sq n U j ⬝ᵥ uR sq n U j = ∑ b ∈ Icc (j + 1) n, @mg K 𝕊 U j b * @mg K 𝕊 U j b := by
  rw [← bd_sum_fin_Icc n (j + 1) (by omega)]
  show ∑ k : Fin n, uR sq n U j k * uR sq n U j k = _
  refine Finset.sum_congr rfl fun k _ => ?_
  unfold uR
  by_cases h : j + 1 ≤ k.val + 1
  · rw [if_pos h, if_pos h]
  · rw [if_neg h, if_neg h, mul_zero]

/-! ### the invariant -/

/-- the super-diagonal after `i` steps: `rv1[1..i]` and the pending element `e = scale·g`, which the
    code stores into `rv1[i+1]` at the start of step `i + 1` -/
def bdEv (i : Nat) (r : Nat → K) (e : K) : Nat → K :=
  fun c => if c ≤ i then r c else if c = i + 1 then e else 0

/-- **invariant of the Householder loop** after `i` steps, on the array `U`, the vectors `W`, `rv1`
    and the pending super-diagonal element `e` -/
structure Inv1 (m n : Nat) (A : DMat K) (i : Nat) (U : DMat K) (W rv1 : Array K) (e : K) : Prop where
  wfU : MWF m n U
  wfW : W.size = n
  wfr : rv1.size = n
  e1 : bdEv i (@g1 K 𝕊 rv1) e 1 = 0
  hL : ∀ j, 1 ≤ j → j ≤ i → bL sq U (@g1 K 𝕊 W) j = 0 ∨
    uL sq m U j ⬝ᵥ uL sq m U j = -2 * bL sq U (@g1 K 𝕊 W) j
  hL0 : ∀ j, 1 ≤ j → j ≤ i → @g1 K 𝕊 W j ≠ 0 → @mg K 𝕊 U j j ≠ 0
  hR : ∀ j, 1 ≤ j → j ≤ i → bR sq U (bdEv i (@g1 K 𝕊 rv1) e) j = 0 ∨
    uR sq n U j ⬝ᵥ uR sq n U j = -2 * bR sq U (bdEv i (@g1 K 𝕊 rv1) e) j
  Wz : ∀ j, m < j → @g1 K 𝕊 W j = 0
  ez : ∀ c, m + 1 < c → bdEv i (@g1 K 𝕊 rv1) e c = 0
  fact : toMatrix m n A
    = prodFrom (PL sq m U (@g1 K 𝕊 W)) 1 i
        * bdWorkM m n i (@mg K 𝕊 U) (@g1 K 𝕊 W) (bdEv i (@g1 K 𝕊 rv1) e)
        * (prodFrom (QRm sq n U (bdEv i (@g1 K 𝕊 rv1) e)) 1 i)ᵀ

/-- the invariant on a loop state `(U, W, rv1, sOne, g, scale, s, f, h, L)` -/
def Inv1St (m n : Nat) (A : DMat K) (i : Nat) (st : St1 K) : Prop :=
  Inv1 sq m n A i st.1 st.2.1 st.2.2.1 (st.2.2.2.2.2.1 * st.2.2.2.2.1)

theorem inv1_init (m n : Nat) (A : DMat K) : Inv1St sq m n A 0 (init1 sq m n A) := by
  show Inv1 sq m n A 0 (@mmk K m n (@mget K 𝕊 A)) (Array.replicate n 0) (Array.replicate n 0) (0 * 0)
  have hev : ∀ c, bdEv 0 (@g1 K 𝕊 (Array.replicate n (0 : K))) (0 * 0) c = 0 := by
    intro c
    unfold bdEv
    split
    · exact bd_g1_replicate_zero sq n c
    · split
      · exact mul_zero 0
      · rfl
  refine ⟨bd_MWF_mmk m n _, by simp, by simp, hev 1, fun j h1 h2 => by omega, fun j h1 h2 => by omega,
    fun j h1 h2 => by omega, fun j _ => bd_g1_replicate_zero sq n j, fun c _ => hev c, ?_⟩
  have p1 : ∀ (k : Nat) (F : Nat → Matrix (Fin k) (Fin k) K), prodFrom F 1 0 = 1 := fun _ _ => rfl
  rw [p1, p1, Matrix.transpose_one, Matrix.one_mul, Matrix.mul_one]
  ext r c
  show _ = bdWorkF 0 _ _ _ (r.val + 1) (c.val + 1)
  unfold bdWorkF
  rw [if_neg (by omega), bd_mg_mmk, if_pos ⟨by omega, by have := r.2; omega, by omega, by have := c.2; omega⟩]
  rfl

/-- one step, given the post-conditions of the two half-steps -/
theorem inv1_of_posts (m n : Nat) (A : DMat K) (i : Nat) (hi : i + 1 ≤ n) (U U1 U2 : DMat K)
    (W rv1 rv2 : Array K) (e w1 e' : K)
    (hinv : Inv1 sq m n A i U W rv1 e)
    (C : HhColPost sq m n (i + 1) U U1 w1)
    (R : HhRowPost sq m n (i + 1) U1 U2 (s1 rv1 (i + 1) e) rv2 e') :
    Inv1 sq m n A (i + 1) U2 (s1 W (i + 1) w1) rv2 e' := by
  have hd : ∀ c, c ≠ i + 1 → @g1 K 𝕊 (s1 W (i + 1) w1) c = @g1 K 𝕊 W c := by
    intro c hc
    rw [bd_g1_s1_in sq hinv.wfW (by omega) hi, if_neg hc]
  have hdi : @g1 K 𝕊 (s1 W (i + 1) w1) (i + 1) = w1 := by
    rw [bd_g1_s1_in sq hinv.wfW (by omega) hi, if_pos rfl]
  have hs : ∀ c, c ≤ i + 1 → bdEv (i + 1) (@g1 K 𝕊 rv2) e' c = bdEv i (@g1 K 𝕊 rv1) e c := by
    intro c hc
    unfold bdEv
    rw [if_pos hc, R.framer c hc, bd_g1_s1_in sq hinv.wfr (by omega) hi]
    by_cases h : c ≤ i
    · rw [if_neg (by omega), if_pos h]
    · rw [if_pos (by omega), if_neg h, if_pos (by omega)]
  have hsi : bdEv (i + 1) (@g1 K 𝕊 rv2) e' (i + 1 + 1) = e' := by
    unfold bdEv
    rw [if_neg (by omega), if_pos rfl]
  have hcolU : ∀ a b, b ≤ i → @mg K 𝕊 U2 a b = @mg K 𝕊 U a b := by
    intro a b hb
    rw [R.frame a b (Or.inr (by omega)), C.frame a b (Or.inr (by omega))]
  have hcol1 : ∀ a, @mg K 𝕊 U2 a (i + 1) = @mg K 𝕊 U1 a (i + 1) :=
    fun a => R.frame a (i + 1) (Or.inr (by omega))
  have hrowU : ∀ a b, a ≤ i → @mg K 𝕊 U2 a b = @mg K 𝕊 U a b := by
    intro a b ha
    rw [R.frame a b (Or.inl (by omega)), C.frame a b (Or.inl (by omega))]
  -- the reflectors
  have hPLold : ∀ j, j ≤ i → PL sq m U2 (@g1 K 𝕊 (s1 W (i + 1) w1)) j = PL sq m U (@g1 K 𝕊 W) j :=
    fun j hj => bd_PL_congr sq m U U2 _ _ j (fun a => hcolU a j hj) (hd j (by omega))
  have hQRold : ∀ j, j ≤ i → QRm sq n U2 (bdEv (i + 1) (@g1 K 𝕊 rv2) e') j
      = QRm sq n U (bdEv i (@g1 K 𝕊 rv1) e) j :=
    fun j hj => bd_QRm_congr sq n U U2 _ _ j (fun b => hrowU j b hj) (hs (j + 1) (by omega))
  have hbLnew : bL sq U2 (@g1 K 𝕊 (s1 W (i + 1) w1)) (i + 1) = @mg K 𝕊 U1 (i + 1) (i + 1) * w1 := by
    unfold bL; rw [hcol1, hdi]
  have huLnew : uL sq m U2 (i + 1) = uL sq m U1 (i + 1) := bd_uL_congr sq m U1 U2 (i + 1) hcol1
  have hbRnew : bR sq U2 (bdEv (i + 1) (@g1 K 𝕊 rv2) e') (i + 1) = @mg K 𝕊 U2 (i + 1) (i + 1 + 1) * e' := by
    unfold bR; rw [hsi]
  have horthL : @mg K 𝕊 U1 (i + 1) (i + 1) * w1 = 0 ∨
      uL sq m U1 (i + 1) ⬝ᵥ uL sq m U1 (i + 1) = -2 * (@mg K 𝕊 U1 (i + 1) (i + 1) * w1) := by
    rw [bd_uL_dot sq m U1 (i + 1) (by omega)]; exact C.orth
  have horthR : @mg K 𝕊 U2 (i + 1) (i + 1 + 1) * e' = 0 ∨
      uR sq n U2 (i + 1) ⬝ᵥ uR sq n U2 (i + 1) = -2 * (@mg K 𝕊 U2 (i + 1) (i + 1 + 1) * e') := by
    rw [bd_uR_dot sq n U2 (i + 1)]; exact R.orth
  refine ⟨R.wf, bd_s1_size hinv.wfW _ _, R.wfr, ?_, ?_, ?_, ?_, ?_, ?_, ?_⟩
  · rw [hs 1 (by omega)]; exact hinv.e1
  · intro j h1 h2
    by_cases hj : j ≤ i
    · have := hinv.hL j h1 hj
      have e1 : bL sq U2 (@g1 K 𝕊 (s1 W (i + 1) w1)) j = bL sq U (@g1 K 𝕊 W) j := by
        unfold bL; rw [hcolU j j hj, hd j (by omega)]
      rw [e1, bd_uL_congr sq m U U2 j (fun a => hcolU a j hj)]
      exact this
    · have : j = i + 1 := by omega
      subst this
      rw [hbLnew, huLnew]; exact horthL
  · intro j h1 h2 hw
    by_cases hj : j ≤ i
    · rw [hcolU j j hj]
      rw [hd j (by omega)] at hw
      exact hinv.hL0 j h1 hj hw
    · have : j = i + 1 := by omega
      subst this
      rw [hcol1]
      rw [hdi] at hw
      exact C.nz hw
  · intro j h1 h2
    by_cases hj : j ≤ i
    · have := hinv.hR j h1 hj
      have e1 : bR sq U2 (bdEv (i + 1) (@g1 K 𝕊 rv2) e') j = bR sq U (bdEv i (@g1 K 𝕊 rv1) e) j := by
        unfold bR; rw [hrowU j (j + 1) hj, hs (j + 1) (by omega)]
      rw [e1, bd_uR_congr sq n U U2 j (fun b => hrowU j b hj)]
      exact this
    · have : j = i + 1 := by omega
      subst this
      rw [hbRnew]; exact horthR
  · intro j hj
    by_cases h : j = i + 1
    · subst h; rw [hdi]; exact C.wz hj
    · rw [hd j h]; exact hinv.Wz j hj
  · intro c hc
    by_cases h : c ≤ i + 1
    · rw [hs c h]; exact hinv.ez c hc
    · by_cases h2 : c = i + 1 + 1
      · subst h2; rw [hsi]; exact R.wz (Or.inl (by omega))
      · unfold bdEv; rw [if_neg h, if_neg h2]
  · -- the factorisation
    have hP : PL sq m U2 (@g1 K 𝕊 (s1 W (i + 1) w1)) (1 + i)
        = hh (fun r : Fin m => if i + 1 ≤ r.val + 1 then @mg K 𝕊 U1 (r.val + 1) (i + 1) else 0)
            (@mg K 𝕊 U1 (i + 1) (i + 1) * w1) := by
      rw [Nat.add_comm 1 i]
      unfold PL
      rw [hbLnew, huLnew]
      rfl
    have hQ : QRm sq n U2 (bdEv (i + 1) (@g1 K 𝕊 rv2) e') (1 + i)
        = hh (fun c : Fin n => if i + 1 + 1 ≤ c.val + 1 then @mg K 𝕊 U2 (i + 1) (c.val + 1) else 0)
            (@mg K 𝕊 U2 (i + 1) (i + 1 + 1) * e') := by
      rw [Nat.add_comm 1 i]
      unfold QRm
      rw [hbRnew]
      rfl
    have hPP := hh_mul_self (uL sq m U1 (i + 1)) _ horthL
    have hQQ := hh_mul_self (uR sq n U2 (i + 1)) _ horthR
    have hW : bdWorkM m n (i + 1) (@mg K 𝕊 U2) (@g1 K 𝕊 (s1 W (i + 1) w1)) (bdEv (i + 1) (@g1 K 𝕊 rv2) e')
        = hh (uL sq m U1 (i + 1)) (@mg K 𝕊 U1 (i + 1) (i + 1) * w1)
          * bdWorkM m n i (@mg K 𝕊 U) (@g1 K 𝕊 W) (bdEv i (@g1 K 𝕊 rv1) e)
          * hh (uR sq n U2 (i + 1)) (@mg K 𝕊 U2 (i + 1) (i + 1 + 1) * e') := by
      have l := bd_left_stage m n i (@mg K 𝕊 U) (@mg K 𝕊 U1) (@g1 K 𝕊 W) (bdEv i (@g1 K 𝕊 rv1) e) w1 C.cols C.coli
      have r := bd_right_stage m n i (@mg K 𝕊 U1) (@mg K 𝕊 U2) (@g1 K 𝕊 W) (bdEv i (@g1 K 𝕊 rv1) e)
        (@g1 K 𝕊 (s1 W (i + 1) w1)) (bdEv (i + 1) (@g1 K 𝕊 rv2) e') w1 e'
        (fun c hc => hd c (by omega)) hdi hs hsi R.rows R.rowi
      rw [← r, ← l]
      rfl
    rw [prodFrom_succ_right, prodFrom_succ_right,
      prodFrom_congr _ _ i 1 (fun j h1 h2 => hPLold j (by omega)),
      prodFrom_congr _ _ i 1 (fun j h1 h2 => hQRold j (by omega)), hP, hQ, hW, hinv.fact]
    generalize prodFrom (PL sq m U (@g1 K 𝕊 W)) 1 i = Pp
    generalize prodFrom (QRm sq n U (bdEv i (@g1 K 𝕊 rv1) e)) 1 i = Qp
    generalize bdWorkM m n i (@mg K 𝕊 U) (@g1 K 𝕊 W) (bdEv i (@g1 K 𝕊 rv1) e) = Wk
    change _ = Pp * hh (uL sq m U1 (i + 1)) (@mg K 𝕊 U1 (i + 1) (i + 1) * w1)
      * (hh (uL sq m U1 (i + 1)) (@mg K 𝕊 U1 (i + 1) (i + 1) * w1) * Wk
          * hh (uR sq n U2 (i + 1)) (@mg K 𝕊 U2 (i + 1) (i + 1 + 1) * e'))
      * (Qp * hh (uR sq n U2 (i + 1)) (@mg K 𝕊 U2 (i + 1) (i + 1 + 1) * e'))ᵀ
    generalize hh (uL sq m U1 (i + 1)) (@mg K 𝕊 U1 (i + 1) (i + 1) * w1) = P at hPP ⊢
    rw [Matrix.transpose_mul, hh_transpose]
    generalize hh (uR sq n U2 (i + 1)) (@mg K 𝕊 U2 (i + 1) (i + 1 + 1) * e') = Q at hQQ ⊢
    have : Pp * P * (P * Wk * Q) * (Q * Qpᵀ) = Pp * ((P * P) * Wk * (Q * Q)) * Qpᵀ := by
      simp only [Matrix.mul_assoc]
    rw [this, hPP, hQQ, Matrix.one_mul, Matrix.mul_one]

/-- one iteration of the loop keeps the invariant -/
theorem inv1_step (hc : HhColStmt sq) (hr : HhRowStmt sq)
    (hsq : ∀ x : K, 0 ≤ x → sq x * sq x = x) (hsq0 : ∀ x : K, 0 ≤ x → 0 ≤ sq x)
    (m n : Nat) (A : DMat K) (i : Nat) (hi : i + 1 ≤ n) (st st' : St1 K)
    (hinv : Inv1St sq m n A i st)
    (hb : @bidiagBody K 𝕊 m n (i + 1) st = .ok (.yield st')) : Inv1St sq m n A (i + 1) st' := by
  obtain ⟨U, W, rv1, sOne, g, scale, s, f, h, L⟩ := st
  obtain ⟨rc, rr, sOne', h1, h2, heq⟩ := bidiagBody_decomp sq m n (i + 1) U W rv1 sOne g scale s f h L _ hb
  injection heq with heq
  subst heq
  have hinv' : Inv1 sq m n A i U W rv1 (scale * g) := hinv
  have C := hc hsq hsq0 m n (i + 1) U f h rc hinv'.wfU (by omega) hi h1
  have R := hr hsq hsq0 m n (i + 1) rc.1 (s1 rv1 (i + 1) (scale * g)) _ _ rr C.wf
    (bd_s1_size hinv'.wfr _ _) (by omega) hi h2
  exact inv1_of_posts sq m n A i hi U rc.1 rr.1 W rv1 rr.2.1 (scale * g) (rc.2.2.1 * rc.2.1)
    (rr.2.2.2.1 * rr.2.2.1) hinv' C R

/-- **the invariant holds after every Householder step** -/
theorem bidiag_invariant (hc : HhColStmt sq) (hr : HhRowStmt sq)
    (hsq : ∀ x : K, 0 ≤ x → sq x * sq x = x) (hsq0 : ∀ x : K, 0 ≤ x → 0 ≤ sq x)
    (m n : Nat) (A : DMat K) (i : Nat) (hi : i ≤ n) (st : St1 K)
    (h : forIn [1:i+1] (init1 sq m n A) (@bidiagBody K 𝕊 m n) = .ok st) : Inv1St sq m n A i st := by
  have key := forIn_range_inv' (by omega : 1 ≤ i + 1) h (fun k s => Inv1St sq m n A (k - 1) s)
    (inv1_init sq m n A) ?_ ?_
  · exact key
  · intro k s s' hk1 hk2 hP hb
    obtain ⟨k, rfl⟩ : ∃ k', k = k' + 1 := ⟨k - 1, by omega⟩
    exact inv1_step sq hc hr hsq hsq0 m n A k (by omega) s s' hP hb
  · intro k s s' hk1 hk2 hP hb
    obtain ⟨U, W, rv1, sOne, g, scale, s, f, h, L⟩ := s
    obtain ⟨rc, rr, sOne', h1, h2, heq⟩ := bidiagBody_decomp sq m n k U W rv1 sOne g scale s f h L _ hb
    cases heq

/-- what the invariant says at the end of the loop -/
theorem phase1Post_of_inv (m n : Nat) (A U : DMat K) (W rv1 : Array K) (e : K)
    (hinv : Inv1 sq m n A n U W rv1 e) : Phase1Post sq m n A U W rv1 := by
  have hev : ∀ c, c ≤ n → bdEv n (@g1 K 𝕊 rv1) e c = @g1 K 𝕊 rv1 c := by
    intro c hc; unfold bdEv; rw [if_pos hc]
  have hbR : ∀ j, 1 ≤ j → j ≤ n → bR sq U (bdEv n (@g1 K 𝕊 rv1) e) j = bR sq U (@g1 K 𝕊 rv1) j := by
    intro j h1 h2
    unfold bR
    by_cases hj : j + 1 ≤ n
    · rw [hev _ hj]
    · rw [bd_mg_out sq hinv.wfU (Or.inr (Or.inr (Or.inr (by omega)))), zero_mul, zero_mul]
  refine ⟨hinv.wfU, hinv.wfW, hinv.wfr, ?_, hinv.hL, hinv.hL0, ?_, hinv.Wz, ?_, ?_⟩
  · by_cases hn : 1 ≤ n
    · rw [← hev 1 hn]; exact hinv.e1
    · exact bd_g1_out sq hinv.wfr (Or.inr (by omega))
  · intro j h1 h2
    rw [← hbR j h1 h2]; exact hinv.hR j h1 h2
  · intro c hc
    by_cases h : c ≤ n
    · rw [← hev c h]; exact hinv.ez c hc
    · exact bd_g1_out sq hinv.wfr (Or.inr (by omega))
  · rw [hinv.fact]
    congr 1
    · congr 1
      ext r c
      show bdWorkF n _ _ _ (r.val + 1) (c.val + 1) = _
      unfold bdWorkF bidiagMN bdF
      have := c.2
      rw [if_pos (Or.inr (by omega)), hev _ (by omega)]
      simp only [Nat.add_right_cancel_iff]
    · congr 1
      refine prodFrom_congr _ _ n 1 fun j h1 h2 => ?_
      unfold QRm
      rw [hbR j h1 (by omega)]

/-- **phase 1**: the Householder loop returns `A = (P₁⋯Pₙ) · bidiag(W, rv1) · (Q₁⋯Qₙ)ᵀ` -/
theorem phase1_of (hc : HhColStmt sq) (hr : HhRowStmt sq) : Phase1Stmt sq := by
  intro hsq hsq0 m n A st h
  exact phase1Post_of_inv sq m n A _ _ _ _ (bidiag_invariant sq hc hr hsq hsq0 m n A n (le_refl n) st h)

end Gama.Ls.Svd
