/-
  The Gram–Schmidt stage of `AdjCholDec::solve` (`Chol.gsStep`, `Chol.gsLoop`): bilinearity of
  `dot`, the effect of one pass on the columns, and the invariant of the loop —
  kernel columns stay kernel vectors spanning `ker A`, the last column stays `x0 + ker A`,
  processed columns are S-orthonormal and S-orthogonal to every other column.
-/
import Gama.Lemmas.Ls.CholC20

namespace Gama.Ls
open Finset Dn Chol

set_option linter.unusedSectionVars false
set_option linter.unusedVariables false

section
variable {K : Type} [Field K] [LinearOrder K] [IsStrictOrderedRing K] [SqrtFn K]
attribute [local instance 2000] scalarOfField

/-! ### `dot` over the regularisation list -/

theorem foldl_add_list (l : List Nat) (f : Nat → K) (a : K) :
    l.foldl (fun s r => s + f r) a = a + (l.map f).sum := by
  induction l generalizing a with
  | nil => simp
  | cons x l ih => rw [List.foldl_cons, ih, List.map_cons, List.sum_cons]; ring

theorem dotS_eq (S : List Nat) (g h : Array K) :
    dotS S g h = (S.map fun r => vget g r * vget h r).sum := by
  unfold dotS
  have := foldl_add_list S (fun r => vget g r * vget h r) 0
  rw [zero_add] at this
  exact this

theorem dotS_comm (S : List Nat) (g h : Array K) : dotS S g h = dotS S h g := by
  rw [dotS_eq, dotS_eq]
  congr 1
  exact List.map_congr_left fun r _ => mul_comm _ _

theorem dotS_congr (S : List Nat) (g g' h h' : Array K) (hg : ∀ r ∈ S, vget g r = vget g' r)
    (hh : ∀ r ∈ S, vget h r = vget h' r) : dotS S g h = dotS S g' h' := by
  rw [dotS_eq, dotS_eq]
  congr 1
  exact List.map_congr_left fun r hr => by rw [hg r hr, hh r hr]

theorem dotS_div_left (S : List Nat) (g h : Array K) (π : K) (n : Nat) (hS : ∀ r ∈ S, r < n) :
    dotS S (vmk n fun i => vget g i / π) h = dotS S g h / π := by
  rw [dotS_eq, dotS_eq]
  have : (S.map fun r => vget (vmk n fun i => vget g i / π) r * vget h r)
      = S.map fun r => (vget g r * vget h r) / π :=
    List.map_congr_left fun r hr => by rw [vget_vmk, if_pos (hS r hr)]; ring
  rw [this]
  induction S with
  | nil => simp
  | cons x l ih =>
    rw [List.map_cons, List.sum_cons, List.map_cons, List.sum_cons,
      ih (fun r hr => hS r (List.mem_cons_of_mem _ hr)) (List.map_congr_left fun r hr => by
        rw [vget_vmk, if_pos (hS r (List.mem_cons_of_mem _ hr))]; ring)]
    ring

theorem dotS_sub_right (S : List Nat) (g h k : Array K) (d : K) (n : Nat) (hS : ∀ r ∈ S, r < n) :
    dotS S g (vmk n fun i => vget h i - d * vget k i) = dotS S g h - d * dotS S g k := by
  rw [dotS_eq, dotS_eq, dotS_eq]
  have : (S.map fun r => vget g r * vget (vmk n fun i => vget h i - d * vget k i) r)
      = S.map fun r => vget g r * vget h r - d * (vget g r * vget k r) :=
    List.map_congr_left fun r hr => by rw [vget_vmk, if_pos (hS r hr)]; ring
  rw [this]
  clear this
  induction S with
  | nil => simp
  | cons x l ih =>
    simp only [List.map_cons, List.sum_cons]
    rw [ih (fun r hr => hS r (List.mem_cons_of_mem _ hr))]
    ring

theorem dotS_self_nonneg (S : List Nat) (g : Array K) : 0 ≤ dotS S g g := by
  rw [dotS_eq]
  apply List.sum_nonneg
  intro x hx
  obtain ⟨r, _, rfl⟩ := List.mem_map.1 hx
  exact mul_self_nonneg _

/-! ### the orthogonalisation pass over the later columns -/

/-- update of one column against the normalised pivot column -/
def gsUpd (n : Nat) (S : List Nat) (gpc gc : Array K) : Array K :=
  vmk n fun i => vget gc i - dotS S gpc gc * vget gpc i

theorem colFold_spec (n : Nat) (S : List Nat) (gpc : Array K) (gperm : Array Nat) (N1 : Nat)
    (hP : IsPerm N1 gperm) :
    ∀ (len lo : Nat) (G : Array (Array K)), G.size = N1 → lo + len ≤ N1 →
      ((List.range' lo len).foldl (fun (G : Array (Array K)) col =>
          G.setIfInBounds (pget gperm col) (gsUpd n S gpc (G.getD (pget gperm col) #[]))) G).size = N1 ∧
      ∀ l, l < N1 →
        ((List.range' lo len).foldl (fun (G : Array (Array K)) col =>
          G.setIfInBounds (pget gperm col) (gsUpd n S gpc (G.getD (pget gperm col) #[]))) G).getD (pget gperm l) #[]
        = if lo ≤ l ∧ l < lo + len then gsUpd n S gpc (G.getD (pget gperm l) #[]) else G.getD (pget gperm l) #[] := by
  intro len
  induction len with
  | zero =>
    intro lo G hG _
    refine ⟨hG, fun l hl => ?_⟩
    simp only [List.range'_zero, List.foldl_nil]
    rw [if_neg (by omega)]
  | succ len ih =>
    intro lo G hG hle
    rw [List.range'_concat, List.foldl_append]
    simp only [List.foldl_cons, List.foldl_nil, Nat.one_mul]
    obtain ⟨hs, hv⟩ := ih lo G hG (by omega)
    set G' := (List.range' lo len).foldl (fun (G : Array (Array K)) col =>
          G.setIfInBounds (pget gperm col) (gsUpd n S gpc (G.getD (pget gperm col) #[]))) G with hG'
    refine ⟨by simp [hs], fun l hl => ?_⟩
    rw [getD_setIfInBounds']
    by_cases e : pget gperm (lo + len) = pget gperm l
    · have : lo + len = l := hP.inj _ _ (by omega) hl e
      subst this
      rw [if_pos ⟨rfl, by rw [hs]; exact hP.lt _ hl⟩, hv (lo + len) hl, if_neg (by omega), if_pos ⟨by omega, by omega⟩]
    · rw [if_neg (fun h => e h.1), hv l hl]
      have hne : l ≠ lo + len := fun h => e (by rw [h])
      by_cases h1 : lo ≤ l ∧ l < lo + len
      · rw [if_pos h1, if_pos ⟨h1.1, by omega⟩]
      · rw [if_neg h1, if_neg (by omega)]

/-! ### pivot search of the Gram–Schmidt loop -/

theorem argmax_fold (val : Nat → K) (c : Nat) :
    ∀ len, ∃ i, c ≤ i ∧ i < c + 1 + len ∧
      ((List.range' (c + 1) len).foldl
        (fun (st : K × Option Nat) i => if st.1 < val i then (val i, some i) else st) (val c, none)).1 = val i ∧
      (((List.range' (c + 1) len).foldl
        (fun (st : K × Option Nat) i => if st.1 < val i then (val i, some i) else st) (val c, none)).2 = none → i = c) ∧
      (∀ j, ((List.range' (c + 1) len).foldl
        (fun (st : K × Option Nat) i => if st.1 < val i then (val i, some i) else st) (val c, none)).2 = some j →
          j = i ∧ c < j) ∧
      ∀ j, c ≤ j → j < c + 1 + len → val j ≤
        ((List.range' (c + 1) len).foldl
        (fun (st : K × Option Nat) i => if st.1 < val i then (val i, some i) else st) (val c, none)).1 := by
  intro len
  induction len with
  | zero =>
    refine ⟨c, le_refl c, by omega, rfl, fun _ => rfl, ?_, ?_⟩
    · intro j hj; simp at hj
    · intro j h1 h2
      have : j = c := by omega
      subst this; simp
  | succ len ih =>
    obtain ⟨i, hci, hil, h1, h2, h3, h4⟩ := ih
    rw [List.range'_concat, List.foldl_append]
    simp only [List.foldl_cons, List.foldl_nil, Nat.one_mul]
    generalize ((List.range' (c + 1) len).foldl
        (fun (st : K × Option Nat) i => if st.1 < val i then (val i, some i) else st) (val c, none)) = st
      at h1 h2 h3 h4 ⊢
    by_cases hlt : st.1 < val (c + 1 + len)
    · rw [if_pos hlt]
      refine ⟨c + 1 + len, by omega, by omega, rfl, by simp, ?_, ?_⟩
      · intro j hj; simp at hj; omega
      · intro j hj1 hj2
        by_cases hj3 : j = c + 1 + len
        · subst hj3; exact le_refl _
        · exact le_of_lt (lt_of_le_of_lt (h4 j hj1 (by omega)) hlt)
    · rw [if_neg hlt]
      refine ⟨i, hci, by omega, h1, h2, h3, ?_⟩
      intro j hj1 hj2
      by_cases hj3 : j = c + 1 + len
      · subst hj3; exact not_lt.1 hlt
      · exact h4 j hj1 (by omega)

/-- S-norm² of the column at position `i` -/
def gsVal (S : List Nat) (G : Array (Array K)) (gperm : Array Nat) (i : Nat) : K :=
  dotS S (G.getD (pget gperm i) #[]) (G.getD (pget gperm i) #[])

theorem gsSearch_spec (S : List Nat) (G : Array (Array K)) (gperm : Array Nat) (nullity column : Nat)
    (hc : column < nullity) :
    ∃ i, column ≤ i ∧ i < nullity ∧
      (gsSearch S G gperm nullity column (gsVal S G gperm column)).1 = gsVal S G gperm i ∧
      ((gsSearch S G gperm nullity column (gsVal S G gperm column)).2 = none → i = column) ∧
      (∀ j, (gsSearch S G gperm nullity column (gsVal S G gperm column)).2 = some j → j = i ∧ column < j) ∧
      gsVal S G gperm column ≤ (gsSearch S G gperm nullity column (gsVal S G gperm column)).1 := by
  obtain ⟨i, h0, h1, h2, h3, h4, h5⟩ := argmax_fold (gsVal S G gperm) column (nullity - (column + 1))
  exact ⟨i, h0, by omega, h2, h3, h4, h5 column (le_refl _) (by omega)⟩

/-! ### the invariant -/

structure GSInv (m n nullity : Nat) (A : DMat K) (S : List Nat) (x0 : Array K) (column : Nat)
    (gperm : Array Nat) (G : Array (Array K)) : Prop where
  perm : IsPerm (nullity + 1) gperm
  last : pget gperm nullity = nullity
  size : G.size = nullity + 1
  ker : ∀ l, l < nullity → ∀ k, k < m → ∑ v ∈ range n, mget A k v * vget (G.getD (pget gperm l) #[]) v = 0
  xk : ∀ k, k < m → ∑ v ∈ range n, mget A k v * (vget (G.getD nullity #[]) v - vget x0 v) = 0
  orthn : ∀ i, i < column → dotS S (G.getD (pget gperm i) #[]) (G.getD (pget gperm i) #[]) = 1
  orth : ∀ i l, i < column → l ≤ nullity → l ≠ i →
    dotS S (G.getD (pget gperm i) #[]) (G.getD (pget gperm l) #[]) = 0
  span : ∀ g : Nat → K, (∀ k, k < m → ∑ v ∈ range n, mget A k v * g v = 0) →
    ∃ γ : Nat → K, ∀ v, v < n → g v = ∑ l ∈ range nullity, γ l * vget (G.getD (pget gperm l) #[]) v
  indep : ∀ γ : Nat → K, (∀ v, v < n → ∑ l ∈ range nullity, γ l * vget (G.getD (pget gperm l) #[]) v = 0) →
    ∀ l, l < nullity → γ l = 0

/-- swapping two not yet processed kernel columns in `g_perm` keeps the invariant -/
theorem GSInv.swap {m n nullity : Nat} {A : DMat K} {S : List Nat} {x0 : Array K} {column : Nat}
    {gperm : Array Nat} {G : Array (Array K)} (h : GSInv m n nullity A S x0 column gperm G)
    (i : Nat) (hc : column ≤ i) (hi : i < nullity) :
    GSInv m n nullity A S x0 column (swapP (nullity + 1) gperm column i) G := by
  have hP := h.perm
  have hcN : column < nullity + 1 := by omega
  have hiN : i < nullity + 1 := by omega
  have hg : ∀ l, l < nullity + 1 → pget (swapP (nullity + 1) gperm column i) l = pget gperm (swp column i l) :=
    fun l hl => pget_swapP' (nullity + 1) gperm column i l hl
  have hswlt : ∀ l, l < nullity → swp column i l < nullity := by
    intro l hl; unfold swp; split_ifs <;> omega
  have hswid : ∀ l, l < column → swp column i l = l := by
    intro l hl; unfold swp; rw [if_neg (by omega), if_neg (by omega)]
  have hswinv : ∀ l, swp column i (swp column i l) = l := by
    intro l; unfold swp; split_ifs <;> omega
  refine ⟨isPerm_swap hP column i hcN hiN, ?_, h.size, ?_, h.xk, ?_, ?_, ?_, ?_⟩
  · rw [hg nullity (by omega)]
    have : swp column i nullity = nullity := by unfold swp; rw [if_neg (by omega), if_neg (by omega)]
    rw [this, h.last]
  · intro l hl k hk
    rw [hg l (by omega)]
    exact h.ker _ (hswlt l hl) k hk
  · intro l hl
    rw [hg l (by omega), hswid l hl]
    exact h.orthn l hl
  · intro i' l hi' hl hne
    rw [hg i' (by omega), hswid i' hi', hg l (by omega)]
    apply h.orth i' _ hi'
    · unfold swp; split_ifs <;> omega
    · intro e
      apply hne
      have := congrArg (swp column i) e
      rw [hswinv, hswid i' hi'] at this
      exact this
  · intro g hgk
    obtain ⟨γ, hγ⟩ := h.span g hgk
    refine ⟨fun l => γ (swp column i l), fun v hv => ?_⟩
    rw [hγ v hv]
    refine Finset.sum_nbij' (swp column i) (swp column i) ?_ ?_ ?_ ?_ ?_
    · intro l hl; exact Finset.mem_range.2 (hswlt l (Finset.mem_range.1 hl))
    · intro l hl; exact Finset.mem_range.2 (hswlt l (Finset.mem_range.1 hl))
    · intro l _; exact hswinv l
    · intro l _; exact hswinv l
    · intro l hl
      have hl' := Finset.mem_range.1 hl
      rw [hg (swp column i l) (by have := hswlt l hl'; omega), hswinv]
      show _ = γ (swp column i (swp column i l)) * _
      rw [hswinv]
  · intro γ hγ l hl
    have := h.indep (fun l => γ (swp column i l)) (by
      intro v hv
      rw [← hγ v hv]
      refine Finset.sum_nbij' (swp column i) (swp column i) ?_ ?_ ?_ ?_ ?_
      · intro l hl; exact Finset.mem_range.2 (hswlt l (Finset.mem_range.1 hl))
      · intro l hl; exact Finset.mem_range.2 (hswlt l (Finset.mem_range.1 hl))
      · intro l _; exact hswinv l
      · intro l _; exact hswinv l
      · intro l hl
        have hl' := Finset.mem_range.1 hl
        rw [hg (swp column i l) (by have := hswlt l hl'; omega), hswinv]) (swp column i l) (hswlt l hl)
    simp only [hswinv] at this
    exact this

/-! ### one pass (after the swap) -/

/-- normalisation of the pivot column and orthogonalisation of the later ones -/
def gsCore (n nullity : Nat) (S : List Nat) (column : Nat) (gp : Array Nat) (G : Array (Array K)) (pv : K) :
    Array (Array K) :=
  let gpc := vmk n fun i => vget (G.getD (pget gp column) #[]) i / Scalar.sqrt pv
  (List.range' (column + 1) (nullity + 1 - (column + 1))).foldl
    (fun (G : Array (Array K)) col =>
      G.setIfInBounds (pget gp col) (gsUpd n S gpc (G.getD (pget gp col) #[])))
    (G.setIfInBounds (pget gp column) gpc)

theorem gsStep_eq (n nullity : Nat) (S : List Nat) (column : Nat) (gperm : Array Nat) (G : Array (Array K)) (p0 : K) :
    gsStep n nullity S column gperm G p0 =
      ((match (gsSearch S G gperm nullity column p0).2 with
          | some i => swapP (nullity + 1) gperm column i
          | none => gperm),
       gsCore n nullity S column (match (gsSearch S G gperm nullity column p0).2 with
          | some i => swapP (nullity + 1) gperm column i
          | none => gperm) G (gsSearch S G gperm nullity column p0).1,
       (gsSearch S G gperm nullity column p0).1) := rfl

theorem gsCore_cols {n nullity : Nat} (S : List Nat) {column : Nat} {gp : Array Nat} {G : Array (Array K)}
    (pv : K) (hP : IsPerm (nullity + 1) gp) (hsz : G.size = nullity + 1) (hc : column < nullity) :
    (gsCore n nullity S column gp G pv).size = nullity + 1 ∧
    ∀ l, l < nullity + 1 →
      (gsCore n nullity S column gp G pv).getD (pget gp l) #[] =
        if l < column then G.getD (pget gp l) #[]
        else if l = column then vmk n fun i => vget (G.getD (pget gp column) #[]) i / SqrtFn.sq pv
        else gsUpd n S (vmk n fun i => vget (G.getD (pget gp column) #[]) i / SqrtFn.sq pv)
          (G.getD (pget gp l) #[]) := by
  unfold gsCore
  simp only []
  set gpc := vmk n fun i => vget (G.getD (pget gp column) #[]) i / Scalar.sqrt pv with hgpc
  set G1 := G.setIfInBounds (pget gp column) gpc with hG1
  have hs1 : G1.size = nullity + 1 := by rw [hG1]; simp [hsz]
  obtain ⟨hs, hv⟩ := colFold_spec n S gpc gp (nullity + 1) hP (nullity + 1 - (column + 1)) (column + 1) G1 hs1 (by omega)
  refine ⟨hs, fun l hl => ?_⟩
  rw [hv l hl]
  have hG1l : G1.getD (pget gp l) #[] = if l = column then gpc else G.getD (pget gp l) #[] := by
    rw [hG1, getD_setIfInBounds']
    by_cases e : l = column
    · subst e; rw [if_pos ⟨rfl, by rw [hsz]; exact hP.lt _ hl⟩, if_pos rfl]
    · rw [if_neg (fun h => e (hP.inj _ _ hl (by omega) h.1.symm)), if_neg e]
  rw [hG1l]
  by_cases h1 : l < column
  · rw [if_neg (by omega), if_pos h1, if_neg (by omega)]
  · rw [if_neg h1]
    by_cases h2 : l = column
    · rw [if_neg (by omega), if_pos h2, if_pos h2]
      rfl
    · rw [if_pos ⟨by omega, by omega⟩, if_neg h2, if_neg h2]
      rfl

theorem GSInv.core {m n nullity : Nat} {A : DMat K} {S : List Nat} {x0 : Array K} {column : Nat}
    {gp : Array Nat} {G : Array (Array K)} (h : GSInv m n nullity A S x0 column gp G)
    (hS : ∀ r ∈ S, r < n) (hc : column < nullity) (pv : K) (hpv : pv = gsVal S G gp column)
    (hpos : 0 < pv) (hsq : SqrtFn.sq pv * SqrtFn.sq pv = pv) :
    GSInv m n nullity A S x0 (column + 1) gp (gsCore n nullity S column gp G pv) := by
  have hP := h.perm
  obtain ⟨hsz', hcols⟩ := gsCore_cols (n := n) S pv hP h.size hc
  set π := SqrtFn.sq pv with hπ
  have hπ0 : π ≠ 0 := by
    intro e; rw [e, mul_zero] at hsq; exact absurd hsq.symm (ne_of_gt hpos)
  set pc := pget gp column with hpc
  set gpc := vmk n fun i => vget (G.getD pc #[]) i / π with hgpc
  set G' := gsCore n nullity S column gp G pv with hG'
  -- columns of the new matrix
  have hcol_lt : ∀ l, l < column → G'.getD (pget gp l) #[] = G.getD (pget gp l) #[] := by
    intro l hl; rw [hcols l (by omega), if_pos hl]
  have hcol_eq : G'.getD pc #[] = gpc := by
    rw [hcols column (by omega), if_neg (lt_irrefl _), if_pos rfl]
  have hcol_gt : ∀ l, column < l → l ≤ nullity → G'.getD (pget gp l) #[] = gsUpd n S gpc (G.getD (pget gp l) #[]) := by
    intro l h1 h2; rw [hcols l (by omega), if_neg (by omega), if_neg (by omega)]
  have hgpcv : ∀ v, v < n → vget gpc v = vget (G.getD pc #[]) v / π := by
    intro v hv; rw [hgpc, vget_vmk, if_pos hv]
  have hupdv : ∀ (gc : Array K) v, v < n → vget (gsUpd n S gpc gc) v = vget gc v - dotS S gpc gc * vget gpc v := by
    intro gc v hv; unfold gsUpd; rw [vget_vmk, if_pos hv]
  -- A gpc = 0
  have hAgpc : ∀ k, k < m → ∑ v ∈ range n, mget A k v * vget gpc v = 0 := by
    intro k hk
    have : ∀ v ∈ range n, mget A k v * vget gpc v = (mget A k v * vget (G.getD pc #[]) v) * π⁻¹ := by
      intro v hv; rw [hgpcv v (Finset.mem_range.1 hv)]; ring
    rw [Finset.sum_congr rfl this, ← Finset.sum_mul, h.ker column hc k hk, zero_mul]
  -- S-products with gpc
  have hdot_pc : dotS S (G.getD pc #[]) (G.getD pc #[]) = pv := hpv.symm
  have hgg : dotS S gpc gpc = 1 := by
    rw [hgpc, dotS_div_left S _ _ π n hS, dotS_comm, dotS_div_left S _ _ π n hS, hdot_pc, ← hsq]
    field_simp
  have hproc_pc : ∀ i, i < column → dotS S (G.getD (pget gp i) #[]) gpc = 0 := by
    intro i hi
    rw [dotS_comm, hgpc, dotS_div_left S _ _ π n hS, dotS_comm, h.orth i column hi (by omega) (by omega), zero_div]
  refine ⟨hP, h.last, hsz', ?_, ?_, ?_, ?_, ?_, ?_⟩
  · -- kernel columns
    intro l hl k hk
    rcases lt_trichotomy l column with h1 | h1 | h1
    · rw [hcol_lt l h1]; exact h.ker l hl k hk
    · subst h1; rw [hcol_eq]; exact hAgpc k hk
    · rw [hcol_gt l h1 (by omega)]
      have : ∀ v ∈ range n, mget A k v * vget (gsUpd n S gpc (G.getD (pget gp l) #[])) v
          = mget A k v * vget (G.getD (pget gp l) #[]) v
            - dotS S gpc (G.getD (pget gp l) #[]) * (mget A k v * vget gpc v) := by
        intro v hv; rw [hupdv _ v (Finset.mem_range.1 hv)]; ring
      rw [Finset.sum_congr rfl this, Finset.sum_sub_distrib, ← Finset.mul_sum, h.ker l hl k hk, hAgpc k hk]
      ring
  · -- last column
    intro k hk
    have hlast : G'.getD nullity #[] = gsUpd n S gpc (G.getD nullity #[]) := by
      have := hcol_gt nullity hc (le_refl _)
      rw [h.last] at this; exact this
    rw [hlast]
    have : ∀ v ∈ range n, mget A k v * (vget (gsUpd n S gpc (G.getD nullity #[])) v - vget x0 v)
        = mget A k v * (vget (G.getD nullity #[]) v - vget x0 v)
          - dotS S gpc (G.getD nullity #[]) * (mget A k v * vget gpc v) := by
      intro v hv; rw [hupdv _ v (Finset.mem_range.1 hv)]; ring
    rw [Finset.sum_congr rfl this, Finset.sum_sub_distrib, ← Finset.mul_sum, h.xk k hk, hAgpc k hk]
    ring
  · -- norms
    intro i hi
    by_cases h1 : i < column
    · rw [hcol_lt i h1]; exact h.orthn i h1
    · have : i = column := by omega
      subst this; rw [hcol_eq]; exact hgg
  · -- orthogonality
    intro i l hi hl hne
    by_cases h1 : i < column
    · rw [hcol_lt i h1]
      rcases lt_trichotomy l column with h2 | h2 | h2
      · rw [hcol_lt l h2]; exact h.orth i l h1 hl hne
      · subst h2; rw [hcol_eq]; exact hproc_pc i h1
      · rw [hcol_gt l h2 hl]
        unfold gsUpd
        rw [dotS_sub_right S _ _ _ _ n hS, h.orth i l h1 hl hne, hproc_pc i h1]; ring
    · have : i = column := by omega
      subst this
      rw [hcol_eq]
      rcases lt_trichotomy l i with h2 | h2 | h2
      · rw [hcol_lt l h2, dotS_comm]; exact hproc_pc l h2
      · exact absurd h2 hne
      · rw [hcol_gt l h2 hl]
        unfold gsUpd
        rw [dotS_sub_right S _ _ _ _ n hS, hgg]; ring
  · -- span
    intro g hgk
    obtain ⟨γ, hγ⟩ := h.span g hgk
    -- G[gp l] = G'[gp l] + e_l • gpc on 0..n-1
    let e : Nat → K := fun l =>
      if l < column then 0 else if l = column then π - 1 else dotS S gpc (G.getD (pget gp l) #[])
    have hdec : ∀ l, l < nullity → ∀ v, v < n →
        vget (G.getD (pget gp l) #[]) v = vget (G'.getD (pget gp l) #[]) v + e l * vget gpc v := by
      intro l hl v hv
      simp only [e]
      rcases lt_trichotomy l column with h1 | h1 | h1
      · rw [hcol_lt l h1, if_pos h1]; ring
      · subst h1
        rw [hcol_eq, if_neg (lt_irrefl _), if_pos rfl, hgpcv v hv]
        field_simp
        ring
      · rw [hcol_gt l h1 (by omega), if_neg (by omega), if_neg (by omega), hupdv _ v hv]; ring
    refine ⟨fun l => γ l + (if l = column then ∑ l' ∈ range nullity, γ l' * e l' else 0), fun v hv => ?_⟩
    rw [hγ v hv]
    have h1 : ∀ l ∈ range nullity, γ l * vget (G.getD (pget gp l) #[]) v
        = γ l * vget (G'.getD (pget gp l) #[]) v + (γ l * e l) * vget gpc v := by
      intro l hl; rw [hdec l (Finset.mem_range.1 hl) v hv]; ring
    rw [Finset.sum_congr rfl h1, Finset.sum_add_distrib, ← Finset.sum_mul]
    have h2 : ∀ l ∈ range nullity,
        (γ l + (if l = column then ∑ l' ∈ range nullity, γ l' * e l' else 0)) * vget (G'.getD (pget gp l) #[]) v
        = γ l * vget (G'.getD (pget gp l) #[]) v
          + (if l = column then (∑ l' ∈ range nullity, γ l' * e l') * vget (G'.getD (pget gp l) #[]) v else 0) := by
      intro l _
      by_cases hl : l = column
      · rw [if_pos hl, if_pos hl]; ring
      · rw [if_neg hl, if_neg hl]; ring
    rw [Finset.sum_congr rfl h2, Finset.sum_add_distrib, Finset.sum_ite_eq' (range nullity) column,
      if_pos (Finset.mem_range.2 hc), hcol_eq]

  · -- independence
    intro γ' hγ' l hl
    let e : Nat → K := fun l =>
      if l < column then 0 else if l = column then π - 1 else dotS S gpc (G.getD (pget gp l) #[])
    have hdec : ∀ l, l < nullity → ∀ v, v < n →
        vget (G'.getD (pget gp l) #[]) v = vget (G.getD (pget gp l) #[]) v - e l * (vget (G.getD pc #[]) v * π⁻¹) := by
      intro l hl v hv
      simp only [e]
      rcases lt_trichotomy l column with h1 | h1 | h1
      · rw [hcol_lt l h1, if_pos h1]; ring
      · subst h1
        rw [hcol_eq, if_neg (lt_irrefl _), if_pos rfl, hgpcv v hv]
        field_simp
        ring
      · rw [hcol_gt l h1 (by omega), if_neg (by omega), if_neg (by omega), hupdv _ v hv, hgpcv v hv]; ring
    set σ := ∑ l' ∈ range nullity, γ' l' * e l' with hσ
    have hold := h.indep (fun l => γ' l - (if l = column then σ * π⁻¹ else 0)) (by
      intro v hv
      have h1 : ∀ l ∈ range nullity,
          (γ' l - (if l = column then σ * π⁻¹ else 0)) * vget (G.getD (pget gp l) #[]) v
          = γ' l * vget (G'.getD (pget gp l) #[]) v + (γ' l * e l) * (vget (G.getD pc #[]) v * π⁻¹)
            - (if l = column then σ * π⁻¹ * vget (G.getD (pget gp l) #[]) v else 0) := by
        intro l hl
        rw [hdec l (Finset.mem_range.1 hl) v hv]
        by_cases hlc : l = column
        · rw [if_pos hlc, if_pos hlc]; ring
        · rw [if_neg hlc, if_neg hlc]; ring
      rw [Finset.sum_congr rfl h1, Finset.sum_sub_distrib, Finset.sum_add_distrib, hγ' v hv, ← Finset.sum_mul,
        Finset.sum_ite_eq' (range nullity) column, if_pos (Finset.mem_range.2 hc)]
      ring)
    have hne : ∀ l, l < nullity → l ≠ column → γ' l = 0 := by
      intro l hl hlc
      have := hold l hl
      simp only [if_neg hlc, sub_zero] at this
      exact this
    by_cases hlc : l = column
    · subst hlc
      have hσ' : σ = γ' l * (π - 1) := by
        rw [hσ, Finset.sum_eq_single l]
        · simp only [e, lt_irrefl, if_false, if_true]
        · intro l' hl' hne'
          rw [hne l' (Finset.mem_range.1 hl') hne', zero_mul]
        · intro hnot; exact absurd (Finset.mem_range.2 hc) hnot
      have := hold l hl
      simp only [if_true] at this
      rw [hσ'] at this
      have h2 : γ' l - γ' l * (π - 1) * π⁻¹ = γ' l * π⁻¹ := by field_simp; ring
      rw [h2] at this
      rcases mul_eq_zero.1 this with h3 | h3
      · exact h3
      · exact absurd (inv_eq_zero.1 h3) hπ0
    · exact hne l hl hlc

end
end Gama.Ls
