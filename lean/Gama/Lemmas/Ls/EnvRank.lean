/-
  Envelope solver: `defect() = n − rank Ã`.  The kernel columns are a basis of the kernel of
  the normal matrix (independent: they are `−I` on the zero pivots; spanning: `kerV_le_span`),
  so `dim ker = #zero pivots = defect()`, and rank–nullity (LS10) gives the rank.
-/
import Gama.Lemmas.Ls.EnvSingular
import Gama.Lemmas.LS.Rank
import Mathlib.LinearAlgebra.Dimension.Constructions

namespace Gama.Ls.Env
open Finset Matrix Gama.LS Module

set_option linter.unusedSectionVars false

variable {K : Type} [Field K] [LinearOrder K] [IsStrictOrderedRing K] (sq : K → K)
local notation "𝔽" => fieldScalar sq

variable (tol : K) (m n : ℕ) (At : DMat K) (bt : Array K) (o : EnvOrd)

/-- the zero pivots -/
def Zset : Finset ℕ := (range n).filter fun k => Df sq (NF sq tol m n At bt o) tol k = 0

/-- the kernel columns as a family indexed by the zero pivots -/
def kerFam (k : {k // k ∈ Zset sq tol m n At bt o}) : Fin n → K :=
  av sq n (@kerCol K 𝔽 (@factor K 𝔽 tol m n At bt o).rows n k.1)

theorem mem_Zset (k : ℕ) : k ∈ Zset sq tol m n At bt o ↔ k < n ∧ Df sq (NF sq tol m n At bt o) tol k = 0 := by
  simp [Zset]

theorem kerFam_apply (hU : FactUnambiguous sq tol m n At bt o) (c k : {k // k ∈ Zset sq tol m n At bt o}) :
    kerFam sq tol m n At bt o c ⟨k.1, ((mem_Zset sq tol m n At bt o k.1).1 k.2).1⟩ = if k = c then -1 else 0 := by
  obtain ⟨hcn, hc0⟩ := (mem_Zset sq tol m n At bt o c.1).1 c.2
  obtain ⟨hkn, hk0⟩ := (mem_Zset sq tol m n At bt o k.1).1 k.2
  have := kerF_dep sq hU hcn hc0 hkn hk0
  simp only [Subtype.ext_iff]
  exact this

theorem kerFam_linearIndependent (hU : FactUnambiguous sq tol m n At bt o) :
    LinearIndependent K (kerFam sq tol m n At bt o) := by
  rw [Fintype.linearIndependent_iff]
  intro c hc k
  have h1 := congrFun hc ⟨k.1, ((mem_Zset sq tol m n At bt o k.1).1 k.2).1⟩
  simp only [Finset.sum_apply, Pi.smul_apply, smul_eq_mul, Pi.zero_apply] at h1
  rw [Finset.sum_eq_single k] at h1
  · rw [kerFam_apply sq tol m n At bt o hU k k, if_pos rfl] at h1
    linarith [h1]
  · intro j _ hjk
    rw [kerFam_apply sq tol m n At bt o hU j k, if_neg (Ne.symm hjk), mul_zero]
  · intro h; exact absurd (Finset.mem_univ k) h

theorem kerFam_span (hU : FactUnambiguous sq tol m n At bt o) :
    Submodule.span K (Set.range (kerFam sq tol m n At bt o)) = kerV sq tol m n At bt o := by
  apply le_antisymm
  · apply Submodule.span_le.2
    rintro v ⟨k, rfl⟩
    apply kerCols_mem_kerV sq tol m n At bt o hU
    exact List.mem_map.2 ⟨k.1, (mem_depCols sq tol m n At bt o k.1).2
      ((mem_Zset sq tol m n At bt o k.1).1 k.2), rfl⟩
  · refine le_trans (kerV_le_span sq tol m n At bt o hU) (Submodule.span_mono ?_)
    rintro v ⟨a, ha, rfl⟩
    obtain ⟨k, hk, rfl⟩ := List.mem_map.1 ha
    exact ⟨⟨k, (mem_Zset sq tol m n At bt o k).2 ((mem_depCols sq tol m n At bt o k).1 hk)⟩, rfl⟩

/-- `dim ker N = number of zero pivots` -/
theorem finrank_kerV (hU : FactUnambiguous sq tol m n At bt o) :
    finrank K (kerV sq tol m n At bt o) = (Zset sq tol m n At bt o).card := by
  rw [← kerFam_span sq tol m n At bt o hU, finrank_span_eq_card (kerFam_linearIndependent sq tol m n At bt o hU)]
  simp

theorem kerV_eq_ker_ApM : kerV sq tol m n At bt o = LinearMap.ker (ApM sq tol m n At bt o).mulVecLin := by
  ext g
  rw [LS.mem_ker_iff]
  exact ⟨ApM_of_kerV sq tol m n At bt o g, kerV_of_ApM sq tol m n At bt o g⟩

/-- **`rank Ã + defect() = n`** (the homogenised design matrix with its columns in any order) -/
theorem rank_add_defect (hU : FactUnambiguous sq tol m n At bt o) (htol : 0 < tol) :
    (ApM sq tol m n At bt o).rank + @defectOf K (@factor K 𝔽 tol m n At bt o).rows = n := by
  have h1 := LS.rank_add_nullity (ApM sq tol m n At bt o)
  unfold LS.nullity at h1
  rw [← kerV_eq_ker_ApM, finrank_kerV sq tol m n At bt o hU, Fintype.card_fin] at h1
  have h2 : @defectOf K (@factor K 𝔽 tol m n At bt o).rows = (Zset sq tol m n At bt o).card :=
    defectOf_eq_card_zero sq _ tol hU htol
  rw [h2]; exact h1

end Gama.Ls.Env
