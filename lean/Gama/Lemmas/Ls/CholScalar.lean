/-
  The `Scalar` structure used by the theorems about the Cholesky / `Adj` models, and the
  square-root law (the `LawfulScalar` bundle of DESIGN §3.1).

  Every operation of the signature IS the field's, definitionally (`Gama.LS.fieldScalar`), so the
  only law that has to be stated is the one about the function the field does not have:
  `0 ≤ x → sqrt x * sqrt x = x ∧ 0 ≤ sqrt x`.
  (Same content as `Lemmas/Ls/ScalarLaws.lean`, which several builders edit concurrently; kept
  separate so that the Cholesky proofs do not break when that file changes.)
-/
import Gama.Lemmas.LS.Bridge
namespace Gama.Ls

/-- carrier of the square-root function of the scalar signature -/
class SqrtFn (K : Type) where
  sq : K → K

/-- the `Scalar` signature of a linearly ordered field with the chosen square root
    (use as `attribute [local instance] Gama.Ls.scalarOfField`) -/
@[reducible] def scalarOfField {K : Type} [Field K] [LinearOrder K] [SqrtFn K] : Gama.Scalar K :=
  Gama.LS.fieldScalar SqrtFn.sq

/-- the only law the signature needs beyond the field axioms -/
class LawfulSqrt (K : Type) [Field K] [LinearOrder K] [SqrtFn K] : Prop where
  sqrt_mul_self : ∀ x : K, 0 ≤ x → SqrtFn.sq x * SqrtFn.sq x = x
  sqrt_nonneg : ∀ x : K, 0 ≤ x → 0 ≤ SqrtFn.sq x

end Gama.Ls
