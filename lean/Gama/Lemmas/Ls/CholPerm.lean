/-
  Permutation bookkeeping of `AdjCholDec::solve` (`perm`, `invp`, `std::swap`) and the
  effect of one elimination step `Chol.elim` on the symmetric storage.
-/
import Gama.Lemmas.Ls.CholBasic
import Mathlib.Data.Finset.Card
import Mathlib.Data.Fintype.Card

namespace Gama.Ls
open Finset Dn Chol

set_option linter.unusedSectionVars false
set_option linter.unusedVariables false

/-- `perm` restricted to `0..n-1` is an injection into `0..n-1` (hence a permutation) -/
structure IsPerm (n : Nat) (perm : Array Nat) : Prop where
  lt : ∀ k, k < n → pget perm k < n
  inj : ∀ k l, k < n → l < n → pget perm k = pget perm l → k = l

theorem IsPerm.surj {n : Nat} {perm : Array Nat} (h : IsPerm n perm) (u : Nat) (hu : u < n) :
    ∃ k, k < n ∧ pget perm k = u := by
  have himg : (range n).image (pget perm) = range n := by
    apply Finset.eq_of_subset_of_card_le
    · intro x hx
      obtain ⟨k, hk, rfl⟩ := Finset.mem_image.1 hx
      exact Finset.mem_range.2 (h.lt k (Finset.mem_range.1 hk))
    · rw [Finset.card_image_of_injOn]
      intro k hk l hl hkl
      exact h.inj k l (Finset.mem_range.1 hk) (Finset.mem_range.1 hl) hkl
  have : u ∈ (range n).image (pget perm) := by rw [himg]; exact Finset.mem_range.2 hu
  obtain ⟨k, hk, rfl⟩ := Finset.mem_image.1 this
  exact ⟨k, Finset.mem_range.1 hk, rfl⟩

theorem posOf_perm {n : Nat} {perm : Array Nat} (h : IsPerm n perm) (k : Nat) (hk : k < n) :
    posOf n perm (pget perm k) = k := by
  unfold posOf
  cases hf : (List.range n).find? (fun j => pget perm j == pget perm k) with
  | none =>
    have := List.find?_eq_none.1 hf k (List.mem_range.2 hk)
    simp at this
  | some j =>
    have h1 := List.find?_some hf
    have h2 := List.mem_range.1 (List.mem_of_find?_eq_some hf)
    simp only [beq_iff_eq] at h1
    simp only [Option.getD_some]
    exact h.inj j k h2 hk h1

/-- position of the original index `u` -/
def qq (n : Nat) (perm : Array Nat) (u : Nat) : Nat := pget (invPerm n perm) u

theorem qq_eq (n : Nat) (perm : Array Nat) (u : Nat) (hu : u < n) : qq n perm u = posOf n perm u := by
  unfold qq invPerm; rw [pget_pmk]; simp [hu]

theorem qq_perm {n : Nat} {perm : Array Nat} (h : IsPerm n perm) (k : Nat) (hk : k < n) :
    qq n perm (pget perm k) = k := by
  rw [qq_eq n perm _ (h.lt k hk), posOf_perm h k hk]

theorem qq_spec {n : Nat} {perm : Array Nat} (h : IsPerm n perm) (u : Nat) (hu : u < n) :
    qq n perm u < n ∧ pget perm (qq n perm u) = u := by
  obtain ⟨k, hk, rfl⟩ := h.surj u hu
  rw [qq_perm h k hk]; exact ⟨hk, rfl⟩

theorem qq_eq_iff {n : Nat} {perm : Array Nat} (h : IsPerm n perm) (u k : Nat) (hu : u < n) (hk : k < n) :
    qq n perm u = k ↔ u = pget perm k := by
  constructor
  · intro e; rw [← e, (qq_spec h u hu).2]
  · intro e; rw [e, qq_perm h k hk]

theorem isPerm_id (n : Nat) : IsPerm n (pmk n id) := by
  constructor
  · intro k hk; rw [pget_pmk]; simp [hk]
  · intro k l hk hl; rw [pget_pmk, pget_pmk]; simp [hk, hl]

theorem pget_id (n k : Nat) (hk : k < n) : pget (pmk n id) k = k := by rw [pget_pmk]; simp [hk]

theorem qq_id (n u : Nat) (hu : u < n) : qq n (pmk n id) u = u := by
  have := qq_perm (isPerm_id n) u hu
  rwa [pget_id n u hu] at this

theorem pget_swapP (n : Nat) (perm : Array Nat) (c i k : Nat) (hk : k < n) :
    pget (swapP n perm c i) k = if k = c then pget perm i else if k = i then pget perm c else pget perm k := by
  unfold swapP; rw [pget_pmk]; simp [hk]

/-- the transposition of positions `c`, `i` -/
def swp (c i k : Nat) : Nat := if k = c then i else if k = i then c else k

theorem pget_swapP' (n : Nat) (perm : Array Nat) (c i k : Nat) (hk : k < n) :
    pget (swapP n perm c i) k = pget perm (swp c i k) := by
  rw [pget_swapP n perm c i k hk]; unfold swp
  split
  · rfl
  · split <;> rfl

theorem swp_lt {n c i k : Nat} (hc : c < n) (hi : i < n) (hk : k < n) : swp c i k < n := by
  unfold swp; split_ifs <;> omega

theorem swp_inj {c i k l : Nat} (h : swp c i k = swp c i l) : k = l := by
  unfold swp at h; split_ifs at h <;> omega

theorem isPerm_swap {n : Nat} {perm : Array Nat} (h : IsPerm n perm) (c i : Nat) (hc : c < n) (hi : i < n) :
    IsPerm n (swapP n perm c i) := by
  constructor
  · intro k hk
    rw [pget_swapP' n perm c i k hk]
    exact h.lt _ (swp_lt hc hi hk)
  · intro k l hk hl
    rw [pget_swapP' n perm c i k hk, pget_swapP' n perm c i l hl]
    intro e
    exact swp_inj (h.inj _ _ (swp_lt hc hi hk) (swp_lt hc hi hl) e)

/-- positions after `std::swap(perm(c), perm(i))` -/
theorem qq_swap {n : Nat} {perm : Array Nat} (h : IsPerm n perm) (c i : Nat) (hc : c < n) (hi : i < n)
    (u : Nat) (hu : u < n) :
    qq n (swapP n perm c i) u =
      if qq n perm u = c then i else if qq n perm u = i then c else qq n perm u := by
  have h' := isPerm_swap h c i hc hi
  obtain ⟨hq, hpq⟩ := qq_spec h u hu
  by_cases h1 : qq n perm u = c
  · rw [if_pos h1, qq_eq_iff h' u i hu hi, pget_swapP n perm c i i hi]
    by_cases hic : i = c
    · subst hic; rw [if_pos rfl, ← h1, hpq]
    · rw [if_neg hic, if_pos rfl, ← h1, hpq]
  · rw [if_neg h1]
    by_cases h2 : qq n perm u = i
    · rw [if_pos h2, qq_eq_iff h' u c hu hc, pget_swapP n perm c i c hc, if_pos rfl, ← h2, hpq]
    · rw [if_neg h2, qq_eq_iff h' u _ hu hq, pget_swapP n perm c i _ hq, if_neg h1, if_neg h2, hpq]

section
variable {K : Type} [Field K] [LinearOrder K] [IsStrictOrderedRing K] [SqrtFn K]
attribute [local instance 2000] scalarOfField

/-- one elimination step on the symmetric storage, read through `SymMat::operator()` -/
theorem sget_elim (n : Nat) (perm : Array Nat) (c : Nat) (pivot : K) (a : DMat K) (u v : Nat)
    (hu : u < n) (hv : v < n) :
    sget (elim n perm c pivot a) u v =
      if c < qq n perm u ∧ c < qq n perm v then
        sget a u v - sget a u (pget perm c) * sget a v (pget perm c) / pivot
      else if v = pget perm c ∧ c < qq n perm u then sget a u (pget perm c) / pivot
      else if u = pget perm c ∧ c < qq n perm v then sget a v (pget perm c) / pivot
      else sget a u v := by
  have key : ∀ u v, u < n → v < n → v ≤ u →
      mget (elim n perm c pivot a) u v =
        if c < qq n perm u ∧ c < qq n perm v then
          sget a u v - sget a u (pget perm c) * sget a v (pget perm c) / pivot
        else if v = pget perm c ∧ c < qq n perm u then sget a u (pget perm c) / pivot
        else if u = pget perm c ∧ c < qq n perm v then sget a v (pget perm c) / pivot
        else sget a u v := by
    intro u v hu hv hvu
    unfold elim
    simp only []
    rw [mget_mmk]
    simp only [hu, hv, and_self, if_true, hvu]
    have hq : ∀ w, pget (invPerm n perm) w = qq n perm w := fun _ => rfl
    simp only [hq]
    by_cases h1 : c < qq n perm u ∧ c < qq n perm v
    · rw [if_pos h1, if_pos h1]
      by_cases h2 : qq n perm v ≤ qq n perm u
      · simp only [h2, if_true]
        ring
      · simp only [h2, if_false]
        ring
    · rw [if_neg h1, if_neg h1]
      by_cases h3 : v = pget perm c ∧ c < qq n perm u
      · rw [if_pos h3, if_pos h3]
      · rw [if_neg h3, if_neg h3]
        by_cases h4 : u = pget perm c ∧ c < qq n perm v
        · rw [if_pos h4, if_pos h4]
        · rw [if_neg h4, if_neg h4]
          unfold sget; rw [if_pos hvu]
  by_cases hvu : v ≤ u
  · conv_lhs => unfold sget
    rw [if_pos hvu, key u v hu hv hvu]
  · have huv : u ≤ v := by omega
    conv_lhs => unfold sget
    rw [if_neg hvu, key v u hv hu huv]
    rw [sget_comm a v u]
    by_cases h1 : c < qq n perm u ∧ c < qq n perm v
    · rw [if_pos h1, if_pos ⟨h1.2, h1.1⟩]; ring
    · rw [if_neg h1, if_neg (fun h => h1 ⟨h.2, h.1⟩)]
      by_cases h3 : v = pget perm c ∧ c < qq n perm u <;> by_cases h4 : u = pget perm c ∧ c < qq n perm v
      · exfalso; obtain ⟨e1, _⟩ := h3; obtain ⟨e2, _⟩ := h4; omega
      · rw [if_neg h4, if_pos h3, if_pos h3]
      · rw [if_pos h4, if_neg h3, if_pos h4]
      · rw [if_neg h4, if_neg h3, if_neg h3, if_neg h4]

end
end Gama.Ls
