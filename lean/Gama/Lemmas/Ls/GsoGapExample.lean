/-
  Non-vacuity of the gap hypothesis `GapCols` (Lemmas/Ls/GsoGap.lean): the singular problem
  `Ex.pR` (A = [1 1; 0 0]) over ℝ — Gram–Schmidt vectors (1,0) (norm 1) and 0.
-/
import Gama.Lemmas.Ls.GsoGap
import Gama.Lemmas.Ls.GsoReal
namespace Gama.Ls.Gso.Ex
open Gama Gama.Ls Gama.LS Matrix Finset

/-- the design matrix of `pR` with literal index types -/
noncomputable def AR : Matrix (Fin 2) (Fin 2) ℝ := pR.A

theorem AR_apply (r c : Fin 2) : AR r c
    = ((#[#[1, 1], #[0, 0]] : DMat ℝ).getD r #[]).getD c 0 := by
  show ((pR.dense.getD r #[]).getD c 0) = _
  rw [pR_dense]

theorem AR_gap (k : Fin 2) (β : Fin 2 → ℝ) (hk : β k = 1) (hmax : ∀ j, k < j → β j = 0)
    (horth : ∀ j, j < k → (ARᵀ *ᵥ (AR *ᵥ β)) j = 0) :
    Scalar.sqrt ((AR *ᵥ β) ⬝ᵥ (AR *ᵥ β)) = 0
      ∨ (tolerance : ℝ) < Scalar.sqrt ((AR *ᵥ β) ⬝ᵥ (AR *ᵥ β)) := by
  have hAβ : ∀ r : Fin 2, (AR *ᵥ β) r = AR r 0 * β 0 + AR r 1 * β 1 := by
    intro r
    show ∑ j : Fin 2, AR r j * β j = _
    rw [Fin.sum_univ_two]
  have he : (AR *ᵥ β) ⬝ᵥ (AR *ᵥ β) = (β 0 + β 1) * (β 0 + β 1) := by
    show ∑ r : Fin 2, (AR *ᵥ β) r * (AR *ᵥ β) r = _
    rw [Fin.sum_univ_two, hAβ, hAβ]
    simp only [AR_apply]
    simp
  rw [he]
  have hk2 : k = 0 ∨ k = 1 := by
    rcases k with ⟨kv, hkv⟩
    have : kv = 0 ∨ kv = 1 := by omega
    rcases this with h | h
    · left; exact Fin.ext h
    · right; exact Fin.ext h
  rcases hk2 with rfl | rfl
  · have h1 : β 1 = 0 := hmax 1 (by decide)
    rw [hk, h1]
    right
    simp only [add_zero, mul_one, sqrtS, Real.sqrt_one]
    exact tol_lt_one
  · have h0 := horth 0 (by decide)
    have : β 0 + β 1 = 0 := by
      have e : (ARᵀ *ᵥ (AR *ᵥ β)) 0 = AR 0 0 * (AR *ᵥ β) 0 + AR 1 0 * (AR *ᵥ β) 1 := by
        show ∑ r : Fin 2, ARᵀ 0 r * (AR *ᵥ β) r = _
        rw [Fin.sum_univ_two]; rfl
      rw [e, hAβ, hAβ] at h0
      simp only [AR_apply] at h0
      simpa using h0
    rw [this]
    left
    simp [sqrtS]

theorem pR_gap : GapCols pR := AR_gap

end Gama.Ls.Gso.Ex
