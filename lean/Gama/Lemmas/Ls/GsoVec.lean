/-
  Gram–Schmidt invariant library (DESIGN §5.2), part 1: list vectors.

  Algebra of the vector kernels of `Model/Ls/Gso/Icgs.lean` (`dot`, `dotM`, `vaxpy`, `vscale`)
  over an ordered field, the abstraction `IsForm` (a symmetric positive semi-definite bilinear
  form on lists of a fixed length: `dot` for the first orthogonalisation, `dotM mask` for the
  second), and the generic facts about one classical Gram–Schmidt pass `subAllB`:
    * a linear functional that vanishes on the `q`s is unchanged by the pass (`lin_subAllB`);
    * after a pass against pairwise orthogonal unit-or-null vectors the result is orthogonal
      to all of them (`cgs_orth`);
    * a pass whose coefficients are all zero is the identity (`subAllB_zero`) — the second
      pass (`iter = 2`) in exact arithmetic.
-/
import Gama.Model.Ls.Gso
import Gama.Lemmas.Ls.GsoScalar
import Mathlib.Tactic.Ring
import Mathlib.Tactic.Linarith
import Mathlib.Tactic.FieldSimp
import Mathlib.Algebra.Order.Field.Basic

namespace Gama.Ls.Gso
open Gama

set_option linter.unusedSectionVars false

variable {K : Type} [Field K] [LinearOrder K] [IsStrictOrderedRing K] [SqrtField K]

-- ------------------------------------------------------------------ dot

theorem dotAux_eq (s : K) (u v : List K) : dotAux s u v = s + dot u v := by
  induction u generalizing s v with
  | nil => simp [dot, dotAux]
  | cons a u ih =>
    cases v with
    | nil => simp [dot, dotAux]
    | cons b v =>
      simp only [dot, dotAux]
      rw [ih, ih (0 + a * b)]
      ring

@[simp] theorem dot_nil_left (v : List K) : dot ([] : List K) v = 0 := by simp [dot, dotAux]
@[simp] theorem dot_nil_right (u : List K) : dot u ([] : List K) = 0 := by
  cases u <;> simp [dot, dotAux]
@[simp] theorem dot_cons (a b : K) (u v : List K) : dot (a :: u) (b :: v) = a * b + dot u v := by
  simp only [dot, dotAux]; rw [dotAux_eq]; simp [dot]

theorem dot_comm (u v : List K) : dot u v = dot v u := by
  induction u generalizing v with
  | nil => simp
  | cons a u ih => cases v with
    | nil => simp
    | cons b v => simp [ih v, mul_comm]

@[simp] theorem length_vaxpy (p q : List K) (r : K) :
    (vaxpy p r q).length = min p.length q.length := by simp [vaxpy]
@[simp] theorem length_vscale (p : List K) (s : K) : (vscale p s).length = p.length := by
  simp [vscale]

theorem dot_vaxpy (p q w : List K) (r : K) (h : p.length = q.length) :
    dot (vaxpy p r q) w = dot p w - r * dot q w := by
  induction p generalizing q w with
  | nil => cases q <;> simp_all [vaxpy]
  | cons a p ih =>
    cases q with
    | nil => simp at h
    | cons b q =>
      cases w with
      | nil => simp [vaxpy]
      | cons c w =>
        have h' : p.length = q.length := by simpa using h
        have := ih q w h'
        simp only [vaxpy, List.zipWith_cons_cons, dot_cons] at this ⊢
        rw [this]; ring

theorem dot_vscale (p w : List K) (s : K) : dot (vscale p s) w = s * dot p w := by
  induction p generalizing w with
  | nil => simp [vscale]
  | cons a p ih =>
    cases w with
    | nil => simp [vscale]
    | cons c w =>
      have := ih w
      simp only [vscale, List.map_cons, dot_cons] at this ⊢
      rw [this]; ring

theorem dot_self_nonneg (u : List K) : 0 ≤ dot u u := by
  induction u with
  | nil => simp
  | cons a u ih => simp only [dot_cons]; nlinarith [mul_self_nonneg a]

theorem dot_self_eq_zero {u : List K} (h : dot u u = 0) : ∀ x ∈ u, x = 0 := by
  induction u with
  | nil => simp
  | cons a u ih =>
    simp only [dot_cons] at h
    have h1 := dot_self_nonneg u
    have h2 := mul_self_nonneg a
    have ha : a * a = 0 := by linarith
    have hu : dot u u = 0 := by linarith
    intro x hx
    rcases List.mem_cons.1 hx with rfl | hx
    · exact mul_self_eq_zero.1 ha
    · exact ih hu x hx

theorem dot_zero_right (w u : List K) (h : ∀ x ∈ u, x = 0) : dot w u = 0 := by
  induction u generalizing w with
  | nil => simp
  | cons a u ih =>
    cases w with
    | nil => simp
    | cons c w =>
      simp only [dot_cons]
      rw [h a (by simp), ih w (fun x hx => h x (by simp [hx]))]; ring

-- ------------------------------------------------------------------ dotM

theorem dotMAux_eq (s : K) (mk : List Bool) (u v : List K) :
    dotMAux s mk u v = s + dotM mk u v := by
  induction mk generalizing s u v with
  | nil => simp [dotM, dotMAux]
  | cons b mk ih =>
    cases u with
    | nil => simp [dotM, dotMAux]
    | cons a u =>
      cases v with
      | nil => simp [dotM, dotMAux]
      | cons c v =>
        simp only [dotM, dotMAux]
        rw [ih, ih (if b = true then 0 + a * c else 0)]
        split <;> ring

@[simp] theorem dotM_nil_mask (u v : List K) : dotM ([] : List Bool) u v = 0 := by
  simp [dotM, dotMAux]
@[simp] theorem dotM_nil_left (mk : List Bool) (v : List K) : dotM mk ([] : List K) v = 0 := by
  cases mk <;> simp [dotM, dotMAux]
@[simp] theorem dotM_nil_right (mk : List Bool) (u : List K) : dotM mk u ([] : List K) = 0 := by
  cases mk <;> cases u <;> simp [dotM, dotMAux]
@[simp] theorem dotM_cons (b : Bool) (mk : List Bool) (a c : K) (u v : List K) :
    dotM (b :: mk) (a :: u) (c :: v) = (if b then a * c else 0) + dotM mk u v := by
  simp only [dotM, dotMAux]; rw [dotMAux_eq]; cases b <;> simp [dotM]

theorem dotM_comm (mk : List Bool) (u v : List K) : dotM mk u v = dotM mk v u := by
  induction mk generalizing u v with
  | nil => simp
  | cons b mk ih =>
    cases u with
    | nil => simp
    | cons a u => cases v with
      | nil => simp
      | cons c v => simp [ih u v, mul_comm]

theorem dotM_vaxpy (mk : List Bool) (p q w : List K) (r : K) (h : p.length = q.length) :
    dotM mk (vaxpy p r q) w = dotM mk p w - r * dotM mk q w := by
  induction mk generalizing p q w with
  | nil => simp
  | cons b mk ih =>
    cases p with
    | nil => cases q <;> simp_all [vaxpy]
    | cons a p =>
      cases q with
      | nil => simp at h
      | cons c q =>
        cases w with
        | nil => simp [vaxpy]
        | cons e w =>
          have h' : p.length = q.length := by simpa using h
          have := ih p q w h'
          simp only [vaxpy, List.zipWith_cons_cons, dotM_cons] at this ⊢
          rw [this]; split <;> ring

theorem dotM_vscale (mk : List Bool) (p w : List K) (s : K) :
    dotM mk (vscale p s) w = s * dotM mk p w := by
  induction mk generalizing p w with
  | nil => simp
  | cons b mk ih =>
    cases p with
    | nil => simp [vscale]
    | cons a p =>
      cases w with
      | nil => simp [vscale]
      | cons e w =>
        have := ih p w
        simp only [vscale, List.map_cons, dotM_cons] at this ⊢
        rw [this]; split <;> ring

theorem dotM_self_nonneg (mk : List Bool) (u : List K) : 0 ≤ dotM mk u u := by
  induction mk generalizing u with
  | nil => simp
  | cons b mk ih =>
    cases u with
    | nil => simp
    | cons a u =>
      simp only [dotM_cons]
      have := ih u
      split
      · nlinarith [mul_self_nonneg a]
      · linarith

theorem dotM_null (mk : List Bool) {u : List K} (h : dotM mk u u = 0) (w : List K) :
    dotM mk w u = 0 := by
  induction mk generalizing u w with
  | nil => simp
  | cons b mk ih =>
    cases u with
    | nil => simp
    | cons a u =>
      cases w with
      | nil => simp
      | cons c w =>
        simp only [dotM_cons] at h ⊢
        have h1 := dotM_self_nonneg mk u
        cases b with
        | false =>
          simp only [Bool.false_eq_true, if_false, zero_add] at h ⊢
          exact ih h w
        | true =>
          simp only [if_true] at h ⊢
          have h2 := mul_self_nonneg a
          have ha : a * a = 0 := by linarith
          have hu : dotM mk u u = 0 := by linarith
          rw [mul_self_eq_zero.1 ha, ih hu w]; ring

-- ------------------------------------------------------------------ forms

/-- a symmetric positive semi-definite bilinear form on the lists of length `n` -/
structure IsForm (n : Nat) (ip : List K → List K → K) : Prop where
  comm : ∀ u v, ip u v = ip v u
  axpy : ∀ p q w r, p.length = n → q.length = n → ip (vaxpy p r q) w = ip p w - r * ip q w
  scale : ∀ p s w, ip (vscale p s) w = s * ip p w
  nonneg : ∀ u, 0 ≤ ip u u
  null : ∀ u, ip u u = 0 → ∀ w, ip w u = 0

theorem isForm_dot (n : Nat) : IsForm n (dot : List K → List K → K) where
  comm := dot_comm
  axpy := fun p q w r hp hq => dot_vaxpy p q w r (hp.trans hq.symm)
  scale := fun p s w => dot_vscale p w s
  nonneg := dot_self_nonneg
  null := fun u h w => dot_zero_right w u (dot_self_eq_zero h)

theorem isForm_dotM (n : Nat) (mk : List Bool) : IsForm n (dotM mk : List K → List K → K) where
  comm := dotM_comm mk
  axpy := fun p q w r hp hq => dotM_vaxpy mk p q w r (hp.trans hq.symm)
  scale := fun p s w => dotM_vscale mk p w s
  nonneg := dotM_self_nonneg mk
  null := fun _ h w => dotM_null mk h w

namespace IsForm
variable {n : Nat} {ip : List K → List K → K}

theorem axpy_right (F : IsForm n ip) (p q w : List K) (r : K) (hp : p.length = n) (hq : q.length = n) :
    ip w (vaxpy p r q) = ip w p - r * ip w q := by
  rw [F.comm, F.axpy p q w r hp hq, F.comm p, F.comm q]

theorem null_left (F : IsForm n ip) {u : List K} (h : ip u u = 0) (w : List K) : ip u w = 0 := by
  rw [F.comm]; exact F.null u h w

/-- normalising by the square root of the squared norm gives a unit vector -/
theorem unit_of_scale (F : IsForm n ip) (p : List K) {rkk : K} (h : rkk * rkk = ip p p) (h0 : rkk ≠ 0) :
    ip (vscale p (1 / rkk)) (vscale p (1 / rkk)) = 1 := by
  rw [F.scale, F.comm, F.scale, ← h]
  field_simp

end IsForm

-- ------------------------------------------------------------------ one pass

theorem length_subAllB {n : Nat} (p : List K) (rs : List K) (qs : List (List K))
    (hp : p.length = n) (hq : ∀ q ∈ qs, q.length = n) : (subAllB p rs qs).length = n := by
  induction qs generalizing p rs with
  | nil => cases rs <;> simpa [subAllB] using hp
  | cons q qs ih =>
    cases rs with
    | nil => simpa [subAllB] using hp
    | cons r rs =>
      simp only [subAllB]
      apply ih
      · simp [hp, hq q (by simp)]
      · intro q' hq'; exact hq q' (by simp [hq'])

/-- a functional that is linear along `vaxpy` and vanishes on the `q`s is unchanged by a pass -/
theorem lin_subAllB {n : Nat} (φ : List K → K)
    (hφ : ∀ p q r, p.length = n → q.length = n → φ (vaxpy p r q) = φ p - r * φ q)
    (p : List K) (rs : List K) (qs : List (List K))
    (hp : p.length = n) (hq : ∀ q ∈ qs, q.length = n ∧ φ q = 0) : φ (subAllB p rs qs) = φ p := by
  induction qs generalizing p rs with
  | nil => cases rs <;> simp [subAllB]
  | cons q qs ih =>
    cases rs with
    | nil => simp [subAllB]
    | cons r rs =>
      simp only [subAllB]
      rw [ih _ _ (by simp [hp, (hq q (by simp)).1]) (fun q' hq' => hq q' (by simp [hq']))]
      rw [hφ p q r hp (hq q (by simp)).1, (hq q (by simp)).2]; ring

/-- pairwise orthogonal, each of unit or zero length -/
structure GSOk (n : Nat) (ip : List K → List K → K) (vs : List (List K)) : Prop where
  pw : vs.Pairwise fun u v => ip u v = 0
  uz : ∀ v ∈ vs, v.length = n ∧ (ip v v = 1 ∨ ip v v = 0)

theorem GSOk.nil {n : Nat} {ip : List K → List K → K} : GSOk n ip [] :=
  ⟨List.Pairwise.nil, by simp⟩

theorem GSOk.len {n : Nat} {ip : List K → List K → K} {vs : List (List K)} (h : GSOk n ip vs) :
    ∀ v ∈ vs, v.length = n := fun v hv => (h.uz v hv).1

theorem GSOk.tail {n : Nat} {ip : List K → List K → K} {v : List K} {vs : List (List K)}
    (h : GSOk n ip (v :: vs)) : GSOk n ip vs :=
  ⟨(List.pairwise_cons.1 h.pw).2, fun u hu => h.uz u (by simp [hu])⟩

theorem GSOk.snoc {n : Nat} {ip : List K → List K → K} (F : IsForm n ip) {vs : List (List K)}
    (h : GSOk n ip vs) {p : List K} (hp : p.length = n) (ho : ∀ v ∈ vs, ip p v = 0)
    (hu : ip p p = 1 ∨ ip p p = 0) : GSOk n ip (vs ++ [p]) := by
  refine ⟨?_, ?_⟩
  · rw [List.pairwise_append]
    refine ⟨h.pw, by simp, ?_⟩
    intro a ha b hb
    rw [List.mem_singleton.1 hb, F.comm]; exact ho a ha
  · intro v hv
    rcases List.mem_append.1 hv with hv | hv
    · exact h.uz v hv
    · rw [List.mem_singleton.1 hv]; exact ⟨hp, hu⟩

/-- classical Gram–Schmidt pass: with `r_j = ⟨p, q_j⟩` computed from the incoming `p`, the
    result is orthogonal to every `q_j` -/
theorem cgs_orth {n : Nat} {ip : List K → List K → K} (F : IsForm n ip)
    (qs : List (List K)) (h : GSOk n ip qs) (p : List K) (hp : p.length = n)
    (g : List K → K) (hg : ∀ q ∈ qs, g q = ip p q) :
    ∀ q ∈ qs, ip (subAllB p (qs.map g) qs) q = 0 := by
  induction qs generalizing p with
  | nil => simp
  | cons q qs ih =>
    have hq := h.uz q (by simp)
    have hpw := List.pairwise_cons.1 h.pw
    have hlen : ∀ q' ∈ qs, q'.length = n := fun q' hq' => (h.uz q' (by simp [hq'])).1
    simp only [List.map_cons, subAllB]
    have hp1 : (vaxpy p (g q) q).length = n := by simp [hp, hq.1]
    intro q' hq'
    rcases List.mem_cons.1 hq' with rfl | hq'
    · -- the head: later subtractions do not change the product with `q'`
      rw [lin_subAllB (n := n) (fun v => ip v q') (fun a b r ha hb => F.axpy a b q' r ha hb) _ _ _ hp1
        (fun b hb => ⟨hlen b hb, by rw [F.comm]; exact hpw.1 b hb⟩)]
      rw [F.axpy p q' q' (g q') hp hq.1, hg q' (by simp)]
      rcases hq.2 with h1 | h0
      · rw [h1]; ring
      · rw [F.null q' h0 p, h0]; ring
    · refine ih h.tail _ hp1 ?_ q' hq'
      intro b hb
      rw [F.axpy p q b (g q) hp hq.1, hpw.1 b hb, hg b (by simp [hb])]; ring

/-- a pass with zero coefficients is the identity -/
theorem subAllB_zero {n : Nat} (p : List K) (rs : List K) (qs : List (List K))
    (hp : p.length = n) (hq : ∀ q ∈ qs, q.length = n) (hr : ∀ r ∈ rs, r = 0) :
    subAllB p rs qs = p := by
  induction qs generalizing p rs with
  | nil => cases rs <;> simp [subAllB]
  | cons q qs ih =>
    cases rs with
    | nil => simp [subAllB]
    | cons r rs =>
      simp only [subAllB]
      have hr0 : r = 0 := hr r (by simp)
      have hv : vaxpy p r q = p := by
        subst hr0
        have hl : p.length = q.length := hp.trans (hq q (by simp)).symm
        clear ih hp hq hr
        induction p generalizing q with
        | nil => simp [vaxpy]
        | cons a p ihp =>
          cases q with
          | nil => simp at hl
          | cons b q =>
            have := ihp q (by simpa using hl)
            simp only [vaxpy, List.zipWith_cons_cons] at this ⊢
            rw [this]; simp
      rw [hv]
      exact ih p rs hp (fun q' hq' => hq q' (by simp [hq'])) (fun r' hr' => hr r' (by simp [hr']))

/-- the second pass of the iterated scheme changes nothing in exact arithmetic -/
theorem cgs_second_pass_id {n : Nat} {ip : List K → List K → K} (F : IsForm n ip)
    (qs : List (List K)) (h : GSOk n ip qs) (p : List K) (hp : p.length = n) :
    let p1 := subAllB p (qs.map (ip p)) qs
    subAllB p1 (qs.map (ip p1)) qs = p1 := by
  intro p1
  have hp1 : p1.length = n := length_subAllB p _ qs hp h.len
  apply subAllB_zero p1 _ qs hp1 h.len
  intro r hr
  obtain ⟨q, hq, rfl⟩ := List.mem_map.1 hr
  exact cgs_orth F qs h p hp (ip p) (fun _ _ => rfl) q hq

-- ------------------------------------------------------------------ coordinates

theorem getD_vaxpy (p q : List K) (r : K) (i : Nat) (h : p.length = q.length) :
    (vaxpy p r q).getD i 0 = p.getD i 0 - r * q.getD i 0 := by
  induction p generalizing q i with
  | nil => cases q <;> simp_all [vaxpy]
  | cons a p ih =>
    cases q with
    | nil => simp at h
    | cons b q =>
      cases i with
      | zero => simp [vaxpy]
      | succ i =>
        have := ih q i (by simpa using h)
        simpa [vaxpy] using this

theorem getD_vscale (p : List K) (s : K) (i : Nat) : (vscale p s).getD i 0 = p.getD i 0 * s := by
  induction p generalizing i with
  | nil => simp [vscale]
  | cons a p ih =>
    cases i with
    | zero => simp [vscale]
    | succ i => simpa [vscale] using ih i

end Gama.Ls.Gso
