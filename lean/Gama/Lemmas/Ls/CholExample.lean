/-
  Concrete instances for the non-vacuity examples of Props/C01/Chol.lean, Props/C03/Chol.lean,
  Props/C20/Chol.lean: small problems over ℚ on which the model is EVALUATED by the kernel.
  (`sqrt` on ℚ is a partial inverse of squaring on the values that occur; the regular case never
  calls it.)
-/
import Gama.Lemmas.Ls.CholIsLS

namespace Gama.Ls.Ex
open Gama.Ls

/-- square root on the rationals that occur in the examples (perfect squares), identity elsewhere -/
def sqQ (x : ℚ) : ℚ := if x = 4 then 2 else if x = 9 then 3 else if x = 1/4 then 1/2 else x

instance : SqrtFn ℚ := ⟨sqQ⟩
attribute [local instance 2000] scalarOfField

/-- 3×2, full column rank, unit covariance:  A = [[1,0],[1,1],[0,2]], b = (1,2,3) -/
def pReg : Problem ℚ :=
  { m := 3, n := 2
    rows := #[#[(1, 1)], #[(1, 1), (2, 1)], #[(2, 2)]]
    cov := #[⟨3, 0, #[1, 1, 1]⟩]
    rhs := #[1, 2, 3]
    reg := .none }

/-- 3×3 levelling triangle (defect 1): rows h2-h1, h3-h2, h1-h3 -/
def pSing (reg : Reg) : Problem ℚ :=
  { m := 3, n := 3
    rows := #[#[(1, -1), (2, 1)], #[(2, -1), (3, 1)], #[(1, 1), (3, -1)]]
    cov := #[⟨3, 0, #[1, 1, 1]⟩]
    rhs := #[1, 2, -2]
    reg := reg }

/-- 4×4 levelling loop (defect 1, kernel (1,1,1,1), `‖kernel‖² = 4` so that the Gram–Schmidt pivot
    has a rational square root): rows h2-h1, h3-h2, h4-h3, h1-h4 -/
def pSing4 (reg : Reg) : Problem ℚ :=
  { m := 4, n := 4
    rows := #[#[(1, -1), (2, 1)], #[(2, -1), (3, 1)], #[(3, -1), (4, 1)], #[(1, 1), (4, -1)]]
    cov := #[⟨4, 0, #[1, 1, 1, 1]⟩]
    rhs := #[1, 2, 1, -3]
    reg := reg }

end Gama.Ls.Ex

namespace Gama.Ls.Ex
open Gama.Ls

/-- read an evaluated answer back as the hypothesis shape `solve p = .ok a` of the theorems -/
theorem ok_of_toOption {α β : Type} {e : Except ErrKind α} {f : α → β} {v : β}
    (h : e.toOption.map f = some v) : ∃ a, e = .ok a ∧ f a = v := by
  cases e with
  | error err => simp [Except.toOption] at h
  | ok a => exact ⟨a, rfl, by simpa [Except.toOption] using h⟩

end Gama.Ls.Ex
