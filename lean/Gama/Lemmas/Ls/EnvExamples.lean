/-
  Concrete small instances used by the non-vacuity examples and witnesses of
  `Props/C01/Env.lean`, `Props/C03/Env.lean`, `Props/C20/Env.lean`.
-/
import Gama.Lemmas.Ls.EnvAnswer
import Mathlib.Algebra.Order.Field.Rat
import Mathlib.Tactic.IntervalCases

namespace Gama.Ls.Env.Ex
open Gama Gama.Ls Gama.Ls.Env

/-- regular 3 × 2 system, unit weights, ordering that swaps the two unknowns -/
def rA : DMat ℚ := #[#[1, 0], #[1, 1], #[0, 1]]
def rb : Array ℚ := #[1, 2, 4]
def ro : EnvOrd := ⟨#[1, 0], #[1, 0]⟩

theorem ro_ok : OrdOK 2 ro := by
  constructor <;> intro i hi <;> interval_cases i <;> decide

/-- singular 2 × 4 system (two height differences `x1 − x3`, `x2 − x4`), defect 2, with the
    ordering the code's reverse Cuthill–McKee computes (`perm = 2,4,1,3` 1-based) -/
def wA : DMat ℚ := #[#[1, 0, -1, 0], #[0, 1, 0, -1]]
def wb : Array ℚ := #[2, -1]
def wo : EnvOrd := ⟨#[1, 3, 0, 2], #[2, 0, 3, 1]⟩

theorem wo_ok : OrdOK 4 wo := by
  constructor <;> intro i hi <;> interval_cases i <;> decide

/-- the ordering of the witness is the one the model of the code computes -/
theorem wo_is_rcm : (rcmOrd 4 #[[1, 3], [2, 4]]).perm = wo.perm ∧ (rcmOrd 4 #[[1, 3], [2, 4]]).invp = wo.invp := by
  decide +kernel

end Gama.Ls.Env.Ex
