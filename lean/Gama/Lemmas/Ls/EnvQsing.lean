/-
  Envelope solver, `q_xx` of a singular system (`Env.qxxSing`): the matrix
  `Q(i,j) = Σ_k a_k b_k / d_k`, `a = L⁻¹ T_row(i)`, `b = L⁻¹ T_row(j)` is `T Q0 Tᵀ` with
  `Q0 = Lu⁻ᵀ D⁺ Lu⁻¹` a symmetric reflexive g-inverse of `N` and `T = I − G G_Sᵀ` the
  `S`-projector of the LS layer (`LS.sProj`), hence symmetric with `N Q N = N`, `Q N Q = Q`.
-/
import Gama.Lemmas.Ls.EnvQ0
import Gama.Lemmas.Ls.EnvRefusal
import Gama.Lemmas.LS.GInverse

namespace Gama.Ls.Env
open Finset Matrix Gama.LS

set_option linter.unusedSectionVars false

variable {K : Type} [Field K] [LinearOrder K] [IsStrictOrderedRing K] (sq : K → K)
local notation "𝔽" => fieldScalar sq

variable (N : ℕ → ℕ → K) (tol : K) (n : ℕ)

/-- unit lower factor as a matrix -/
def LuM : Matrix (Fin n) (Fin n) K := matOf n n (Lu (Lf sq N tol))
/-- pivots as a vector -/
def dV : Fin n → K := fun k => Df sq N tol k
/-- `Lu⁻¹` : column `j` is `lowerSolve(e_j)` -/
def MiM : Matrix (Fin n) (Fin n) K := fun k j => zf sq N tol n (@unit K 𝔽 j) k

theorem LuM_mul_MiM : LuM sq N tol n * MiM sq N tol n = 1 := by
  ext i j
  simp only [mul_apply, LuM, MiM, matOf, one_apply, Fin.ext_iff]
  rw [Fin.sum_univ_eq_sum_range (fun k => Lu (Lf sq N tol) i k * zf sq N tol n (@unit K 𝔽 j) k) n,
    (isLower_model sq (@unit K 𝔽 j)).mul i.2, unit_apply]

theorem MiM_mul_LuM : MiM sq N tol n * LuM sq N tol n = 1 := mul_eq_one_comm.1 (LuM_mul_MiM sq N tol n)

/-- `lowerSolve` is multiplication by `Lu⁻¹` -/
theorem lower_eq_MiM (c : ℕ → K) : vecFn n (zf sq N tol n c) = MiM sq N tol n *ᵥ vecFn n c := by
  have h1 : LuM sq N tol n *ᵥ vecFn n (zf sq N tol n c) = vecFn n c := by
    ext i; rw [LuM, matOf_mulVec]; exact (isLower_model sq c).mul i.2
  calc vecFn n (zf sq N tol n c) = (MiM sq N tol n * LuM sq N tol n) *ᵥ vecFn n (zf sq N tol n c) := by
        rw [MiM_mul_LuM, one_mulVec]
    _ = MiM sq N tol n *ᵥ vecFn n c := by rw [← mulVec_mulVec, h1]

variable {N tol n}

/-- `N = Lu D Luᵀ` as matrices -/
theorem N_eq_LDLt {m : ℕ} {M : ℕ → ℕ → K} (hU : Unambiguous sq N tol n)
    (hN : ∀ i < n, ∀ j < n, N i j = ip m (fun r => M r i) (fun r => M r j)) :
    matOf n n N = LuM sq N tol n * diagonal (dV sq N tol n) * (LuM sq N tol n)ᵀ := by
  ext i j
  rw [mul_apply]
  simp only [mul_diagonal, transpose_apply, LuM, dV, matOf]
  rw [gram_factor sq hU hN i i.2 j j.2]
  exact (Fin.sum_univ_eq_sum_range (fun k => Lu (Lf sq N tol) i k * Df sq N tol k * Lu (Lf sq N tol) j k) n).symm

/-- the particular cofactor matrix -/
def Q0M (N : ℕ → ℕ → K) (tol : K) (n : ℕ) : Matrix (Fin n) (Fin n) K := q0Mat (MiM sq N tol n) (dV sq N tol n)

theorem Q0M_props {m : ℕ} {M : ℕ → ℕ → K} (hU : Unambiguous sq N tol n)
    (hN : ∀ i < n, ∀ j < n, N i j = ip m (fun r => M r i) (fun r => M r j)) :
    (Q0M sq N tol n)ᵀ = Q0M sq N tol n
    ∧ matOf n n N * Q0M sq N tol n * matOf n n N = matOf n n N
    ∧ Q0M sq N tol n * matOf n n N * Q0M sq N tol n = Q0M sq N tol n :=
  ⟨q0Mat_symm _ _, q0Mat_ginv (N_eq_LDLt sq hU hN) (LuM_mul_MiM sq N tol n),
   q0Mat_reflexive (N_eq_LDLt sq hU hN) (LuM_mul_MiM sq N tol n)⟩

/-- `(T Q0 Tᵀ)(i,j)` as the sum the code evaluates -/
theorem tq0t_apply (T : Matrix (Fin n) (Fin n) K) (i j : Fin n) :
    (T * Q0M sq N tol n * Tᵀ) i j
      = ∑ k, (MiM sq N tol n *ᵥ (fun a => T i a)) k * pinvDiag (dV sq N tol n) k
          * (MiM sq N tol n *ᵥ (fun a => T j a)) k := by
  have e : (T * Q0M sq N tol n * Tᵀ) i j = (fun a => T i a) ⬝ᵥ (Q0M sq N tol n *ᵥ (fun a => T j a)) := by
    rw [Matrix.mul_assoc, mul_apply, dotProduct]
    refine Finset.sum_congr rfl fun a _ => ?_
    congr 1
  rw [e, Q0M, q0Mat, ← mulVec_mulVec, ← mulVec_mulVec, dotProduct_mulVec, vecMul_transpose, dotProduct]
  refine Finset.sum_congr rfl fun k _ => ?_
  rw [mulVec_diagonal]; ring


/-! ### the `S`-projector `T_row` -/

variable (n) (S : List ℕ) (G : List (Array K))

/-- normalised kernel columns as a matrix -/
def GmM : Matrix (Fin n) (Fin G.length) K := fun i c => @vget K 𝔽 (G.get c) i
/-- the regularisation list as a subset of positions -/
def SfOf : Finset (Fin n) := Finset.univ.filter fun i => i.1 ∈ S
/-- `T = I − G G_Sᵀ` -/
def TM : Matrix (Fin n) (Fin n) K := sProj (GmM sq n G) (restrictS (SfOf n S) (GmM sq n G))

theorem foldl_sub_eq (G : List (Array K)) (f : Array K → K) (t0 : K) :
    G.foldl (fun t g => t - f g) t0 = t0 - (G.map f).sum := by
  induction G generalizing t0 with
  | nil => simp
  | cons a t ih => simp only [List.foldl_cons, List.map_cons, List.sum_cons, ih]; ring

theorem list_sum_eq_fin (G : List (Array K)) (f : Array K → K) : (G.map f).sum = ∑ c : Fin G.length, f (G.get c) := by
  conv_lhs => rw [← List.ofFn_get G]
  rw [List.map_ofFn, List.sum_ofFn]
  rfl

theorem TM_apply (i j : Fin n) : TM sq n S G i j
    = (if i.1 = j.1 then 1 else 0) - ∑ c : Fin G.length, @vget K 𝔽 (G.get c) i *
        (if j.1 ∈ S then @vget K 𝔽 (G.get c) j else 0) := by
  unfold TM sProj
  rw [Matrix.sub_apply, Matrix.one_apply, Matrix.mul_apply]
  simp only [transpose_apply, restrictS, of_apply, GmM, SfOf, Finset.mem_filter, Finset.mem_univ,
    true_and, Fin.ext_iff]

theorem tRow_eq (i j : Fin n) : @tRow K 𝔽 S G i j = TM sq n S G i j := by
  rw [TM_apply]
  unfold tRow
  by_cases hj : j.1 ∈ S
  · have hc : S.contains j.1 = true := by simpa using hj
    simp only [hc, if_true, hj]
    have := foldl_sub_eq G (fun g => @vget K 𝔽 g i * @vget K 𝔽 g j) (if i.1 = j.1 then 1 else 0)
    simp only [fs_sub, fs_mul, fs_one, fs_zero] at this ⊢
    rw [this, list_sum_eq_fin]
  · have hc : S.contains j.1 = false := by simpa using hj
    simp only [hc, hj, if_false, mul_zero, Finset.sum_const_zero, sub_zero, Bool.false_eq_true]

variable {n S G}

/-- **`q_xx` of a singular system is `(T Q0 Tᵀ)(i,j)`** -/
theorem qxxSing_eq (N : ℕ → ℕ → K) (tol : K) (i j : Fin n) :
    @qxxSing K 𝔽 (@ldl K 𝔽 N tol n) n S G i j = (TM sq n S G * Q0M sq N tol n * (TM sq n S G)ᵀ) i j := by
  rw [tq0t_apply]
  unfold qxxSing
  rw [sumTo_eq, ← Fin.sum_univ_eq_sum_range _ n]
  refine Finset.sum_congr rfl fun k _ => ?_
  have ha : ∀ r : Fin n, @vget K 𝔽 (@lower K 𝔽 (@ldl K 𝔽 N tol n) n (@tRow K 𝔽 S G r)) k
      = (MiM sq N tol n *ᵥ (fun a => TM sq n S G r a)) k := by
    intro r
    have h1 := congrFun (lower_eq_MiM sq N tol n (@tRow K 𝔽 S G r)) k
    have h2 : vecFn n (@tRow K 𝔽 S G r) = fun a => TM sq n S G r a := by
      ext a; exact tRow_eq sq n S G r a
    rw [h2] at h1
    exact h1
  rw [ha i, ha j, Dget_ldl sq N tol k.2]
  simp only [fs_beq, decide_eq_true_eq, fs_div, fs_mul, fs_zero]
  unfold pinvDiag dV
  by_cases h0 : Df sq N tol k = 0
  · simp [h0]
  · simp only [h0, if_false]; rw [div_eq_mul_inv]

end Gama.Ls.Env
