/-
  The answers of the post-decomposition svd model (`Svd.answerOf`, `svdSolveCert`) in matrix form,
  under the factorisation certificate `SvdCert`:

    `answerOf_spec` : x = V' D⁺ Uᵀ b, r = A x − b, rtr = r·r, defect = #{i | inv_W i = 0},
                      q_xx = V' D⁺D⁺ V'ᵀ, q_bb = U E Uᵀ, q_bx = U D⁺ V'ᵀ, lindep i = (inv_W i = 0),
                      where V' (what `min_subset_x` leaves) satisfies `Final`.

  `SvdCert sq tol m n A d`: `A = U diag(W) Vᵀ`, `VᵀV = 1`, orthonormal non-null columns of `U`,
  every singular value exactly 0 or above the threshold (`Unambiguous`).  Its three algebraic
  fields are PROVED for the factors the model of `SVD::svd()` returns (`Svd.decompose_cert`,
  `Svd.decompose_svdCert` in Lemmas/Ls/SvdDecompCert.lean: `decompose m n A = .ok d` and
  `Unambiguous sq tol n (vget d.W)` give `SvdCert sq tol m n A d`), so the structure is now an
  intermediate notion, not a hypothesis of the property theorems (`Props/*/SvdDecompose.lean`).
  NOT proved: that `decompose` returns (convergence of the QR iteration) and IEEE rounding; for
  `double` the factors of the real code are checked numerically on every run (tools/props/svd_cert.py).
-/
import Gama.Lemmas.Ls.SvdModel

namespace Gama.Ls.Svd
open Matrix Finset Gama.LS Gama.Ls

set_option linter.unusedSectionVars false
set_option linter.unusedVariables false
set_option linter.unusedSimpArgs false

variable {K : Type} [Field K] [LinearOrder K] [IsStrictOrderedRing K] (sq : K → K)

local notation "𝕊" => (Gama.LS.fieldScalar sq)

/-- the factorisation certificate on the model's data -/
structure SvdCert (tol : K) (m n : Nat) (A : DMat K) (d : Dec K) : Prop where
  fact : toMatrix m n A = toMatrix m n d.U * diagonal (toVec n d.W) * (toMatrix n n d.V)ᵀ
  vtv : (toMatrix n n d.V)ᵀ * toMatrix n n d.V = 1
  utu : ∀ i j : Fin n, toVec n d.W i ≠ 0 → toVec n d.W j ≠ 0 →
    ((toMatrix m n d.U)ᵀ * toMatrix m n d.U) i j = if i = j then 1 else 0
  unamb : Unambiguous sq tol n (@vget K 𝕊 d.W)

/-- `inv_W` as the model computes it, indexed by `Fin n` -/
def iwF (tol : K) (n : Nat) (d : Dec K) : Fin n → K := fun i => @invW K 𝕊 tol n (@vget K 𝕊 d.W) i.val

/-- a regularisation list without repetitions (a repeated index would count twice in the
    S-norm the code minimises; indices outside `1..n` are `NotModelled`) -/
def RegOK : Reg → Prop
  | .subset l => l.Nodup
  | _ => True

theorem cert_of {tol : K} (htol : 0 ≤ tol) {m n : Nat} {A : DMat K} {d : Dec K} (hc : SvdCert sq tol m n A d) :
    Cert (toMatrix m n A) (toMatrix m n d.U) (toVec n d.W) (iwF sq tol n d) (toMatrix n n d.V) where
  fact := hc.fact
  vtv := hc.vtv
  utu := fun i j hi hj => by
    refine hc.utu i j ?_ ?_
    · rcases invW_pinv sq tol htol n _ hc.unamb i.val i.2 with ⟨_, h0⟩ | ⟨hne, _⟩
      · exact absurd h0 hi
      · exact hne
    · rcases invW_pinv sq tol htol n _ hc.unamb j.val j.2 with ⟨_, h0⟩ | ⟨hne, _⟩
      · exact absurd h0 hj
      · exact hne
  pinv := fun i => invW_pinv sq tol htol n _ hc.unamb i.val i.2

/-! ### the refusal test only lets non-zero S-norms through -/

theorem refuse_none (n : Nat) (V : DMat K) (k : Nat) (s : K) (h : @refuse K 𝕊 n none V k s = false) : s ≠ 0 := by
  intro h0
  have : @refuse K 𝕊 n none V k s = decide (s = 0) := rfl
  rw [this, h0] at h
  simp at h

theorem refuse_some (hsq0 : ∀ x : K, 0 ≤ x → 0 ≤ sq x) (tol : K) (htol : 0 ≤ tol) (n : Nat) (V : DMat K)
    (k : Nat) (s : K) (h : @refuse K 𝕊 n (some tol) V k s = false) : s ≠ 0 := by
  intro h0
  have e : @refuse K 𝕊 n (some tol) V k s
      = decide (s ≤ tol * sq (@sumTo K 𝕊 n fun i => @mget K 𝕊 V i k * @mget K 𝕊 V i k)) := rfl
  rw [e, h0] at h
  have hnn : (0 : K) ≤ tol * sq (@sumTo K 𝕊 n fun i => @mget K 𝕊 V i k * @mget K 𝕊 V i k) := by
    apply mul_nonneg htol
    apply hsq0
    rw [sumTo_eq]
    exact Finset.sum_nonneg fun i _ => mul_self_nonneg _
  simp [hnn] at h

theorem refuse_ok (hsq0 : ∀ x : K, 0 ≤ x → 0 ≤ sq x) (fixed : Bool) (tol : K) (htol : 0 ≤ tol) (n : Nat)
    (V : DMat K) (k : Nat) (s : K)
    (h : @refuse K 𝕊 n (if fixed then some tol else none) V k s = false) : s ≠ 0 := by
  cases fixed
  · exact refuse_none sq n V k s h
  · exact refuse_some sq hsq0 tol htol n V k s h

/-! ### `min_subset_x` -/

theorem SF_eq_toFinset (n : Nat) (l : List Nat) (hr : ∀ i ∈ l, 1 ≤ i ∧ i ≤ n) :
    SF n (l.map (· - 1)) = Reg.toFinset n (.subset l) := by
  ext i
  simp only [SF, Finset.mem_filter, Finset.mem_univ, true_and, Reg.mem_toFinset_subset, List.mem_map]
  constructor
  · rintro ⟨a, ha, e⟩
    have := (hr a ha).1
    have : i.val + 1 = a := by omega
    rw [this]; exact ha
  · intro h
    exact ⟨i.val + 1, h, by omega⟩

theorem minSubsetX_final (hsq : ∀ x : K, 0 ≤ x → sq x * sq x = x) (fix : Option K) {m n : Nat}
    (hrf : ∀ V k s, @refuse K 𝕊 n fix V k s = false → s ≠ 0)
    {A U : Matrix (Fin m) (Fin n) K} {W : Fin n → K} (iw : Nat → K) (Vd V' : DMat K)
    (hc : Cert A U W (fun i : Fin n => iw i.val) (toMatrix n n Vd)) (reg : Reg) (hreg : RegOK reg)
    (h : @minSubsetX K 𝕊 fix n reg iw Vd = .ok V') :
    Final A (fun i : Fin n => iw i.val) (reg.toFinset n) (toMatrix n n Vd) (toMatrix n n V') := by
  -- the unmodified V (min_x(): all unknowns)
  have hall : Final A (fun i : Fin n => iw i.val) Finset.univ (toMatrix n n Vd) (toMatrix n n Vd) := by
    refine ⟨fun _ _ => rfl, fun g hg => ker_span hc g hg, fun j k hj hk => ?_⟩
    have hjk : j ≠ k := fun e => hj (e ▸ hk)
    have := congrFun (congrFun hc.vtv j) k
    rw [Matrix.mul_apply, Matrix.one_apply_ne hjk] at this
    simpa [Matrix.transpose_apply] using this
  cases reg with
  | none => injection h with e; subst e; exact hall
  | all => injection h with e; subst e; exact hall
  | subset l =>
    unfold minSubsetX at h
    simp only [] at h
    by_cases hd : @defectOf K 𝕊 n iw = 0
    · rw [if_pos hd] at h
      injection h with e; subst e
      refine ⟨fun _ _ => rfl, fun g hg => ker_span hc g hg, fun j k hj hk => ?_⟩
      rw [defectOf_eq, Finset.card_eq_zero] at hd
      have : k ∈ (univ.filter fun i : Fin n => iw i.val = 0) := by simp [hk]
      rw [hd] at this; exact absurd this (Finset.notMem_empty k)
    · rw [if_neg hd] at h
      by_cases hlen : l.length < @defectOf K 𝕊 n iw
      · rw [if_pos hlen] at h; cases h
      · rw [if_neg hlen] at h
        by_cases hrange : (l.all fun i => decide (1 ≤ i ∧ i ≤ n)) = true
        · rw [if_pos hrange] at h
          have hr : ∀ i ∈ l, 1 ≤ i ∧ i ≤ n := by
            intro i hi
            have := List.all_eq_true.mp hrange i hi
            simpa using this
          have hnd : (l.map (· - 1)).Nodup := by
            refine List.Nodup.map_on ?_ hreg
            intro a ha b hb e
            have := (hr a ha).1; have := (hr b hb).1
            omega
          have hlt : ∀ i ∈ l.map (· - 1), i < n := by
            intro i hi
            obtain ⟨a, ha, e⟩ := List.mem_map.mp hi
            have := hr a ha
            omega
          unfold msLoop at h
          obtain ⟨P', hI, _, hP⟩ := msLoop_inv sq hsq fix n (l.map (· - 1)) hnd hlt iw hrf A (toMatrix n n Vd)
            (List.range n) List.nodup_range (fun k hk => List.mem_range.mp hk) Vd V' ∅
            (fun i _ => Finset.notMem_empty i) (Inv.init hc _) h
          rw [← SF_eq_toFinset n l hr]
          refine ⟨hI.nonnull, hI.span, fun j k hj hk => ?_⟩
          have hkP : k ∈ P' := hP k (List.mem_range.mpr k.2) hk
          exact hI.orth k hkP j (fun e => hj (e ▸ hk))
        · rw [if_neg hrange] at h; cases h

/-! ### the answers in matrix form -/

theorem solveX_eq (m n : Nat) (Ud V' : DMat K) (iw : Nat → K) (b : Array K) :
    toVec n (@solveX K 𝕊 m n (@mget K 𝕊 Ud) iw (@mget K 𝕊 V') (@vget K 𝕊 b))
      = toMatrix n n V' *ᵥ (diagonal (fun i : Fin n => iw i.val) *ᵥ ((toMatrix m n Ud)ᵀ *ᵥ toVec m b)) := by
  funext i
  rw [toVec_vget sq]
  unfold solveX
  simp only []
  rw [vget_vmk, if_pos i.2, sumTo_fin]
  simp only [mulVec, dotProduct, mulVec_diagonal]
  refine Finset.sum_congr rfl fun j _ => ?_
  rw [vget_vmk, if_pos j.2, sumTo_fin]
  have : (fun j_1 => (diagonal fun i : Fin n => iw i.val) j j_1 * ∑ x : Fin m, (toMatrix m n Ud)ᵀ j_1 x * toVec m b x)
      = fun j_1 => if j = j_1 then iw j.val * ∑ x : Fin m, (toMatrix m n Ud)ᵀ j x * toVec m b x else 0 := by
    funext j1
    by_cases e : j = j1
    · subst e; simp
    · simp [e, Matrix.diagonal_apply_ne _ e]
  show toMatrix n n V' i j * ((∑ k : Fin m, @mget K 𝕊 Ud k.val j.val * @vget K 𝕊 b k.val) * iw j.val) = _
  rw [this, Finset.sum_ite_eq]
  simp only [Finset.mem_univ, if_true]
  rw [mul_comm (iw j.val)]
  rfl

theorem residuals_eq (m n : Nat) (A : DMat K) (b x : Array K) :
    toVec m (@residuals K 𝕊 m n (@mget K 𝕊 A) (@vget K 𝕊 b) x) = toMatrix m n A *ᵥ toVec n x - toVec m b := by
  funext i
  rw [toVec_vget sq]
  unfold residuals
  rw [vget_vmk, if_pos i.2, sumTo_fin]
  rfl

theorem rtrOf_eq (m : Nat) (r : Array K) : @rtrOf K 𝕊 m r = toVec m r ⬝ᵥ toVec m r := by
  unfold rtrOf
  rw [sumTo_fin]
  rfl

theorem qxx_eq (n : Nat) (iw : Nat → K) (V' : DMat K) (i j : Fin n) :
    @qxx K 𝕊 n iw (@mget K 𝕊 V') i.val j.val
      = (toMatrix n n V' * (diagonal (fun i : Fin n => iw i.val) * diagonal (fun i : Fin n => iw i.val))
          * (toMatrix n n V')ᵀ) i j := by
  unfold qxx
  rw [sumTo_fin, diagonal_mul_diagonal, Matrix.mul_apply]
  refine Finset.sum_congr rfl fun k _ => ?_
  rw [mul_diagonal, transpose_apply]
  show toMatrix n n V' i k * iw k.val * iw k.val * toMatrix n n V' j k = _
  ring

theorem qbx_eq' (m n : Nat) (iw : Nat → K) (Ud V' : DMat K) (i : Fin m) (j : Fin n) :
    @qbx K 𝕊 n iw (@mget K 𝕊 Ud) (@mget K 𝕊 V') i.val j.val
      = (toMatrix m n Ud * diagonal (fun i : Fin n => iw i.val) * (toMatrix n n V')ᵀ) i j := by
  unfold qbx
  rw [sumTo_fin, Matrix.mul_apply]
  refine Finset.sum_congr rfl fun k _ => ?_
  rw [mul_diagonal, transpose_apply]
  rfl

theorem qbb_eq' {m n : Nat} {A U : Matrix (Fin m) (Fin n) K} {W : Fin n → K} {V : Matrix (Fin n) (Fin n) K}
    (iw : Nat → K) (hc : Cert A U W (fun i : Fin n => iw i.val) V) (Ud : DMat K) (hU : U = toMatrix m n Ud)
    (i j : Fin m) :
    @qbb K 𝕊 n iw (@mget K 𝕊 Ud) i.val j.val
      = (U * diagonal (ee W (fun i : Fin n => iw i.val)) * Uᵀ) i j := by
  unfold qbb
  rw [sumTo_fin, Matrix.mul_apply]
  refine Finset.sum_congr rfl fun k _ => ?_
  rw [mul_diagonal, transpose_apply, hU]
  rcases ee_cases hc k with ⟨hk, he⟩ | ⟨hk, he⟩
  · rw [he, if_pos ((isNull_iff sq iw k.val).mpr hk)]; simp
  · have : ¬ (@isNull K 𝕊 iw k.val = true) := fun hb => hk ((isNull_iff sq iw k.val).mp hb)
    rw [he, if_neg this, mul_one]; rfl

/-- **the answers of the model in matrix form** -/
theorem answerOf_spec (hsq : ∀ x : K, 0 ≤ x → sq x * sq x = x) (hsq0 : ∀ x : K, 0 ≤ x → 0 ≤ sq x)
    (fixed : Bool) (tol : K) (htol : 0 ≤ tol) (m n : Nat) (A : DMat K) (b : Array K) (reg : Reg) (d : Dec K)
    (hc : SvdCert sq tol m n A d) (hreg : RegOK reg) (a : Answer K)
    (h : @answerOf K 𝕊 fixed tol m n A b reg d = .ok a) :
    ∃ V' : DMat K,
      Final (toMatrix m n A) (iwF sq tol n d) (reg.toFinset n) (toMatrix n n d.V) (toMatrix n n V') ∧
      toVec n a.x = toMatrix n n V' *ᵥ (diagonal (iwF sq tol n d) *ᵥ ((toMatrix m n d.U)ᵀ *ᵥ toVec m b)) ∧
      toVec m a.r = toMatrix m n A *ᵥ toVec n a.x - toVec m b ∧
      a.rtr = toVec m a.r ⬝ᵥ toVec m a.r ∧
      a.defect = (univ.filter fun i : Fin n => iwF sq tol n d i = 0).card ∧
      (∀ i j : Fin n, a.qxx (i.val + 1) (j.val + 1)
        = .ok ((toMatrix n n V' * (diagonal (iwF sq tol n d) * diagonal (iwF sq tol n d)) * (toMatrix n n V')ᵀ) i j)) ∧
      (∀ i j : Fin n, a.q0xx (i.val + 1) (j.val + 1) = a.qxx (i.val + 1) (j.val + 1)) ∧
      (∀ i j : Fin m, a.qbb (i.val + 1) (j.val + 1)
        = .ok ((toMatrix m n d.U * diagonal (ee (toVec n d.W) (iwF sq tol n d)) * (toMatrix m n d.U)ᵀ) i j)) ∧
      (∀ (i : Fin m) (j : Fin n), a.qbx (i.val + 1) (j.val + 1)
        = .ok ((toMatrix m n d.U * diagonal (iwF sq tol n d) * (toMatrix n n V')ᵀ) i j)) ∧
      (∀ i : Fin n, a.lindep (i.val + 1) = .ok (decide (iwF sq tol n d i = 0))) := by
  have hcert := cert_of sq htol hc
  unfold answerOf at h
  simp only [] at h
  cases hms : @minSubsetX K 𝕊 (if fixed then some tol else none) n reg
      (@invW K 𝕊 tol n (@vget K 𝕊 d.W)) d.V with
  | error e => rw [hms] at h; cases h
  | ok V' =>
    rw [hms] at h
    injection h with h
    subst h
    have hfin := minSubsetX_final sq hsq _ (fun V k s => refuse_ok sq hsq0 fixed tol htol n V k s)
      (@invW K 𝕊 tol n (@vget K 𝕊 d.W)) d.V V' hcert reg hreg hms
    have inr1 : ∀ (k : Nat) (i : Fin k), decide (1 ≤ i.val + 1 ∧ i.val + 1 ≤ k) = true := by
      intro k i; have := i.2; simp
    refine ⟨V', hfin, solveX_eq sq m n d.U V' _ b, residuals_eq sq m n A b _, rtrOf_eq sq m _,
      defectOf_eq sq n _, ?_, fun _ _ => rfl, ?_, ?_, ?_⟩
    · intro i j
      simp only [inr1, Bool.and_self, if_true, Nat.add_sub_cancel]
      rw [qxx_eq sq n _ V' i j]; rfl
    · intro i j
      simp only [inr1, Bool.and_self, if_true, Nat.add_sub_cancel]
      rw [qbb_eq' sq _ hcert d.U rfl i j]; rfl
    · intro i j
      simp only [inr1, Bool.and_self, if_true, Nat.add_sub_cancel]
      rw [qbx_eq' sq m n _ d.U V' i j]; rfl
    · intro i
      simp only [inr1, if_true, Nat.add_sub_cancel]
      rfl

end Gama.Ls.Svd
