/-
  Witnesses for the theorems of Props/C01/SvdDecomp.lean over ℝ (`Real.sqrt`), built on the two runs
  of `Svd.decompose` evaluated in `SvdDecompExample.lean`:
    `A32 = [[12,12],[5,12],[0,0]]`  (rank 2; one QR sweep, one sign flip; W = (4, 21)),
    `A_dot = [[6,8],[3,4],[6,8]]`    (rank 1; one QR sweep, cancellation; W = (0, 15); the homogenised
                                      system of `Ex.pCV`, factors `Ex.dCV`).
-/
import Gama.Lemmas.Ls.SvdDecompCert
import Gama.Lemmas.Ls.SvdDecompExample

namespace Gama.Ls.Svd.Ex
open Matrix Gama Gama.LS Gama.Ls Gama.Ls.Svd

set_option linter.unusedSectionVars false

local notation "𝕊" => (Gama.LS.fieldScalar Real.sqrt)

/-- the state the pass loop starts from in the run on `A32` satisfies its invariant -/
theorem e32_qrInv :
    QRInv Real.sqrt 3 2 A32 #[#[-(12/13), 5/13], #[-(5/13), -(12/13)], #[0, 0]] #[-13, 84/13]
      #[#[1, 0], #[0, -1]] #[0, 204/13] := by
  have hs := sqrtLaw_real'
  have h1 := phase1 Real.sqrt hs.1 hs.2 3 2 A32 _ e32_bidiagLoop
  exact qrInv_init Real.sqrt 3 2 A32 _ _ _ _ _ h1
    (phase2_stmt Real.sqrt 3 2 _ _ 0 0 3 _ h1.wfU h1.wfr e32_accVLoop)
    (phase3_stmt Real.sqrt 3 2 _ _ 0 (-(408/13)) (-1) 1 _ h1.wfU h1.wfW h1.hL0 e32_accULoop)

theorem e32_pinv :
    PInv Real.sqrt 3 2 A32 2 (#[#[-(12/13), 5/13], #[-(5/13), -(12/13)], #[0, 0]], #[-13, 84/13], #[#[1, 0], #[0, -1]],
      #[0, 204/13], -13, -5, 1/65, -2, 2, 0, 0, 0, 0, 0, 0, false) := by
  refine ⟨⟨e32_qrInv, fun j hj => ?_⟩, fun hd => absurd hd (by simp [StP.done])⟩
  have h1 : @g1 ℝ 𝕊 (#[0, 204/13] : Array ℝ) j = 0 := @g1_out ℝ 𝕊 2 _ rfl j (Or.inr hj)
  have h2 : @g1 ℝ 𝕊 (#[-13, 84/13] : Array ℝ) j = 0 := @g1_out ℝ 𝕊 2 _ rfl j (Or.inr hj)
  exact ⟨h1, by rw [h2]⟩

/-- the singular values (4, 21) of `A32` are unambiguous at `tol = 1/1000` -/
theorem d32_unamb : Unambiguous Real.sqrt (1 / 1000) 2 (@vget ℝ 𝕊 d32.W) := by
  have h0 : @vget ℝ 𝕊 d32.W 0 = 4 := rfl
  have h1 : @vget ℝ 𝕊 d32.W 1 = 21 := rfl
  have hv : @vmaxOf ℝ 𝕊 2 (@vget ℝ 𝕊 d32.W) = 21 := by
    show (([0, 1] : List Nat).foldl (fun v k => if v < @vget ℝ 𝕊 d32.W k then @vget ℝ 𝕊 d32.W k else v) (0 : ℝ)) = 21
    simp only [List.foldl_cons, List.foldl_nil, h0, h1]
    norm_num
  intro i hi
  rw [hv]
  have : i = 0 ∨ i = 1 := by omega
  rcases this with rfl | rfl
  · right; rw [h0]; norm_num
  · right; rw [h1]; norm_num

/-- a unit-weight problem with design matrix `A32`, `min_x()` -/
noncomputable def p32 : Problem ℝ :=
  { m := 3, n := 2, rows := #[#[(1, 12), (2, 12)], #[(1, 5), (2, 12)], #[]], cov := #[⟨3, 0, #[1, 1, 1]⟩],
    rhs := #[1, 2, 3], reg := .all }

theorem p32_dense : @Problem.dense ℝ 𝕊 p32 = A32 := by
  simp [Problem.dense, p32, A32]
  refine ⟨?_, ?_, ?_⟩ <;> rfl

theorem p32_decompose : @decompose ℝ 𝕊 p32.m p32.n (@Problem.dense ℝ 𝕊 p32) = .ok d32 := by
  rw [p32_dense]; exact decompose_A32

theorem p32_answer : ∃ a, @svdSolveCert ℝ 𝕊 true (1 / 1000) d32 p32 = .ok a := ⟨_, rfl⟩

end Gama.Ls.Svd.Ex

namespace Gama.Ls.Ex
open Gama Gama.Ls Gama.Ls.Dn Gama.Ls.AdjM Gama.LS Gama.Ls.Svd
attribute [local instance] sqrtFnOfSqrtField
attribute [local instance 2000] scalarOfField

/-- the run of the transliterated `SVD::svd()` on the homogenised system of `pCV`, over ℝ — the
    evaluation that was missing in `Props/C01/AdjSolvers.lean` -/
theorem pCV_decompose : Svd.decompose 3 2 (#[#[6, 8], #[3, 4], #[6, 8]] : DMat ℝ) = .ok dCV :=
  Gama.Ls.Svd.Ex.decompose_pCV

theorem pCVdot_decompose : Svd.decompose pCVdot.m pCVdot.n pCVdot.dense = .ok dCV := by
  rw [pCVdot_dense]; exact pCV_decompose

/-- the singular values (0, 15) the run returns are unambiguous at the model's own tolerance -/
theorem pCVdot_hun (d : Svd.Dec ℝ) (hd : Svd.decompose pCVdot.m pCVdot.n pCVdot.dense = .ok d) :
    Svd.Unambiguous (Gso.SqrtField.sqrt : ℝ → ℝ) Svd.wTol pCVdot.n (Svd.vget d.W) := by
  rw [pCVdot_decompose] at hd
  obtain rfl := Except.ok.inj hd
  exact dCV_cert.unamb

/-- the svd solver as it runs answers the homogenised problem with x = (0, 1/8), defect 1 -/
theorem pCVdot_svdSolve : ∃ s, svdSolve pCVdot = .ok s ∧ s.x = #[0, 1/8] ∧ s.defect = 1 := by
  obtain ⟨s, hs, hx, hd, -⟩ := pCVdot_cert_answer
  refine ⟨s, ?_, hx, hd⟩
  show svdSolveWith true pCVdot = .ok s
  unfold svdSolveWith
  rw [pCVdot_decompose]
  exact hs

/-- the hypothesis `hun` of `C01_adj_svd_decompose` for `pCV` -/
theorem pCV_hun (Ad : DMat ℝ) (bd : Array ℝ) (d : Svd.Dec ℝ) (hh : homogenise pCV = .ok (Ad, bd))
    (hd : Svd.decompose pCV.m pCV.n (dotProblem pCV Ad bd (regOf pCV.reg)).dense = .ok d) :
    Svd.Unambiguous (Gso.SqrtField.sqrt : ℝ → ℝ) Svd.wTol pCV.n (Svd.vget d.W) :=
  (pCV_hc pCV_decompose Ad bd d hh hd).unamb

end Gama.Ls.Ex
