/-
  Envelope solver, singular case assembled (new numbering): for an unambiguous problem the
  regularised solution `x` that `solve_x` returns differs from the particular solution by a
  kernel vector and is `S`-orthogonal to the whole kernel; hence it is the least-squares
  solution with minimal `S`-seminorm of the homogenised system.
-/
import Gama.Lemmas.Ls.EnvKernelModel
import Gama.Lemmas.Ls.EnvGS
import Gama.Lemmas.Ls.EnvAnswer
import Mathlib.LinearAlgebra.Matrix.ToLin

namespace Gama.Ls.Env
open Finset Matrix Gama.LS

set_option linter.unusedSectionVars false

variable {K : Type} [Field K] [LinearOrder K] [IsStrictOrderedRing K] (sq : K → K)
local notation "𝔽" => fieldScalar sq

/-- a vector on `Fin n` extended by zero -/
def ext0 {n : ℕ} (v : Fin n → K) : ℕ → K := fun k => if h : k < n then v ⟨k, h⟩ else 0

theorem ext0_val {n : ℕ} (v : Fin n → K) (i : Fin n) : ext0 v i = v i := by simp [ext0]
theorem ext0_lt {n : ℕ} (v : Fin n → K) {k : ℕ} (h : k < n) : ext0 v k = v ⟨k, h⟩ := by simp [ext0, h]

theorem dotL_add_right (S : List ℕ) (a b c : ℕ → K) :
    dotL S a (fun k => b k + c k) = dotL S a b + dotL S a c := by
  unfold dotL
  induction S with
  | nil => simp
  | cons x t ih => simp only [List.map_cons, List.sum_cons, ih]; ring

theorem dotL_smul_right (S : List ℕ) (a b : ℕ → K) (r : K) :
    dotL S a (fun k => r * b k) = r * dotL S a b := by
  unfold dotL
  induction S with
  | nil => simp
  | cons x t ih => simp only [List.map_cons, List.sum_cons, ih]; ring

/-- the list sum as a `Finset` sum when the list has no repetitions -/
theorem dotL_eq_sum {n : ℕ} {S : List ℕ} (hnd : S.Nodup) (hS : ∀ k ∈ S, k < n)
    {Sf : Finset (Fin n)} (hmem : ∀ i : Fin n, i ∈ Sf ↔ i.1 ∈ S) (a : ℕ → K) (g : Fin n → K) :
    dotL S a (ext0 g) = ∑ i ∈ Sf, a i * g i := by
  unfold dotL
  rw [← List.sum_toFinset _ hnd]
  have himg : Sf.image (fun i : Fin n => i.1) = S.toFinset := by
    ext k
    simp only [mem_image, List.mem_toFinset]
    constructor
    · rintro ⟨i, hi, rfl⟩; exact (hmem i).1 hi
    · intro hk; exact ⟨⟨k, hS k hk⟩, (hmem _).2 hk, rfl⟩
  rw [← himg, sum_image (fun x _ y _ h => Fin.ext h)]
  exact sum_congr rfl fun i _ => by rw [ext0_val]

variable (tol stol : K) (m n : ℕ) (At : DMat K) (bt : Array K) (o : EnvOrd)

/-- the kernel of the normal matrix the model factorises -/
def kerV : Submodule K (Fin n → K) := LinearMap.ker (matOf n n (NF sq tol m n At bt o)).mulVecLin

theorem mem_kerV (v : Fin n → K) :
    v ∈ kerV sq tol m n At bt o ↔ matOf n n (NF sq tol m n At bt o) *ᵥ v = 0 := by
  simp [kerV, LinearMap.mem_ker]

theorem av_eq_vecFn (a : Array K) : av sq n a = vecFn n (@vget K 𝔽 a) := rfl

/-- the columns `solve_x` starts from -/
def kerCols : List (Array K) :=
  (@depCols K 𝔽 (@factor K 𝔽 tol m n At bt o).rows n).map (@kerCol K 𝔽 (@factor K 𝔽 tol m n At bt o).rows n)

theorem mem_depCols (k : ℕ) :
    k ∈ @depCols K 𝔽 (@factor K 𝔽 tol m n At bt o).rows n ↔ k < n ∧ Df sq (NF sq tol m n At bt o) tol k = 0 := by
  unfold depCols
  rw [List.mem_filter, List.mem_range]
  constructor
  · rintro ⟨hk, hb⟩
    refine ⟨hk, ?_⟩
    have : @Dget K 𝔽 (@factor K 𝔽 tol m n At bt o).rows k = Df sq (NF sq tol m n At bt o) tol k :=
      Dget_ldl sq _ tol hk
    rw [← this]
    simpa [fs_beq] using hb
  · rintro ⟨hk, h0⟩
    refine ⟨hk, ?_⟩
    have : @Dget K 𝔽 (@factor K 𝔽 tol m n At bt o).rows k = Df sq (NF sq tol m n At bt o) tol k :=
      Dget_ldl sq _ tol hk
    rw [this, h0]; simp [fs_beq]

theorem kerCols_mem_kerV (hU : FactUnambiguous sq tol m n At bt o) :
    ∀ g ∈ kerCols sq tol m n At bt o, av sq n g ∈ kerV sq tol m n At bt o := by
  intro g hg
  obtain ⟨k, hk, rfl⟩ := List.mem_map.1 hg
  obtain ⟨hkn, hk0⟩ := (mem_depCols sq tol m n At bt o k).1 hk
  rw [mem_kerV, av_eq_vecFn]
  ext i
  rw [matOf_mulVec]
  exact kerF_N sq hU (NF_gram sq tol m n At bt o) hkn hk0 i.2

/-- every kernel vector is a combination of the kernel columns -/
theorem kerV_le_span (hU : FactUnambiguous sq tol m n At bt o) :
    kerV sq tol m n At bt o ≤ Submodule.span K (av sq n '' {q | q ∈ kerCols sq tol m n At bt o}) := by
  intro g hg
  rw [mem_kerV] at hg
  have hv : ∀ i < n, ∑ j ∈ range n, NF sq tol m n At bt o i j * ext0 g j = 0 := by
    intro i hi
    have := congrFun hg ⟨i, hi⟩
    simp only [mulVec, dotProduct, matOf, Pi.zero_apply] at this
    rw [← this, ← Fin.sum_univ_eq_sum_range (fun j => NF sq tol m n At bt o i j * ext0 g j) n]
    exact Finset.sum_congr rfl fun j _ => by rw [ext0_val]
  have hrep : g = - ∑ k ∈ (range n).filter (fun k => Df sq (NF sq tol m n At bt o) tol k = 0),
      ext0 g k • av sq n (@kerCol K 𝔽 (@factor K 𝔽 tol m n At bt o).rows n k) := by
    ext i
    have := ker_span sq hU (NF_gram sq tol m n At bt o) hv i.2
    rw [ext0_val] at this
    rw [this]
    simp only [Pi.neg_apply, Finset.sum_apply, Pi.smul_apply, smul_eq_mul]
    rfl
  rw [hrep]
  refine Submodule.neg_mem _ (Submodule.sum_mem _ fun k hk => Submodule.smul_mem _ _ ?_)
  have hk' := Finset.mem_filter.1 hk
  refine Submodule.subset_span ⟨_, ?_, rfl⟩
  exact List.mem_map.2 ⟨k, (mem_depCols sq tol m n At bt o k).2 ⟨Finset.mem_range.1 hk'.1, hk'.2⟩, rfl⟩


theorem ext0_add {n : ℕ} (v w : Fin n → K) : ext0 (v + w) = fun k => ext0 v k + ext0 w k := by
  funext k; unfold ext0; split <;> simp
theorem ext0_smul {n : ℕ} (r : K) (v : Fin n → K) : ext0 (r • v) = fun k => r * ext0 v k := by
  funext k; unfold ext0; split <;> simp
theorem ext0_zero {n : ℕ} : ext0 (0 : Fin n → K) = fun _ => 0 := by
  funext k; unfold ext0; split <;> simp

theorem ext0_av (a : Array K) {k : ℕ} (hk : k < n) : ext0 (av sq n a) k = @vget K 𝔽 a k := by
  rw [ext0_lt _ hk]; rfl

/-- `solve_x` always runs the Gram–Schmidt loop on the kernel columns (none when regular) -/
theorem solveX_eq (hU : FactUnambiguous sq tol m n At bt o) (htol : 0 < tol) (S : List ℕ) :
    @solveX K 𝔽 (@factor K 𝔽 tol m n At bt o) S stol
      = @gs K 𝔽 n S stol (kerCols sq tol m n At bt o) (@factor K 𝔽 tol m n At bt o).x0p := by
  unfold solveX
  split
  · next hd =>
    have hR : FactRegular sq tol m n At bt o := (defect_zero_iff sq _ tol n).1 hd
    have hnil : @depCols K 𝔽 (@factor K 𝔽 tol m n At bt o).rows n = [] := by
      apply List.eq_nil_iff_forall_not_mem.2
      intro k hk
      obtain ⟨hkn, hk0⟩ := (mem_depCols sq tol m n At bt o k).1 hk
      exact hR.pivot_ne_zero sq htol hkn hk0
    unfold kerCols
    rw [hnil]
    rfl
  · rfl

/-- **what `solve_x` returns** (new numbering): the difference to the particular solution is a
    kernel vector, and the result is `S`-orthogonal to the whole kernel -/
theorem solveX_spec (hsq : IsSqrt sq) (hU : FactUnambiguous sq tol m n At bt o) (htol : 0 < tol)
    (hstol : 0 < stol) {S : List ℕ} (hS : ∀ k ∈ S, k < n) {G : List (Array K)} {x : Array K}
    (h : @solveX K 𝔽 (@factor K 𝔽 tol m n At bt o) S stol = .ok (G, x)) :
    av sq n (@factor K 𝔽 tol m n At bt o).x0p - av sq n x ∈ kerV sq tol m n At bt o
    ∧ ∀ g ∈ kerV sq tol m n At bt o, dotL S (@vget K 𝔽 x) (ext0 g) = 0 := by
  rw [solveX_eq sq tol stol m n At bt o hU htol] at h
  unfold gs at h
  cases hG : @gsCols K 𝔽 n S stol [] (kerCols sq tol m n At bt o) with
  | error e => rw [hG] at h; cases h
  | ok G' =>
    rw [hG] at h
    have hGx : (G', @orthAgainst K 𝔽 n S G' (@factor K 𝔽 tol m n At bt o).x0p) = (G, x) := by
      cases h; rfl
    obtain ⟨rfl, rfl⟩ := Prod.mk.inj hGx
    obtain ⟨r1, r2, -, r4⟩ := gsCols_spec sq hsq hS hstol (kerV sq tol m n At bt o)
      (kerCols sq tol m n At bt o) [] G' hG ⟨List.Pairwise.nil, fun q hq => by cases hq⟩
      (fun q hq => by cases hq) (kerCols_mem_kerV sq tol m n At bt o hU)
    have hGle : Submodule.span K (av sq n '' {q | q ∈ G'}) ≤ kerV sq tol m n At bt o :=
      Submodule.span_le.2 fun v ⟨q, hq, hv⟩ => hv ▸ r2 q hq
    refine ⟨hGle (av_orthAgainst_sub sq (n := n) (S := S) G' _), ?_⟩
    have h2 : Submodule.span K (av sq n '' {q | q ∈ kerCols sq tol m n At bt o})
        ≤ Submodule.span K (av sq n '' {q | q ∈ G'}) :=
      Submodule.span_le.2 fun v ⟨q, hq, hv⟩ => hv ▸ r4 q hq
    suffices key : ∀ g ∈ Submodule.span K (av sq n '' {q | q ∈ G'}),
        dotL S (@vget K 𝔽 (@orthAgainst K 𝔽 n S G' (@factor K 𝔽 tol m n At bt o).x0p)) (ext0 g) = 0 from
      fun g hg => key g (h2 (kerV_le_span sq tol m n At bt o hU hg))
    intro g h3
    induction h3 using Submodule.span_induction with
    | mem v hv =>
      obtain ⟨q, hq, rfl⟩ := hv
      have e : dotL S (@vget K 𝔽 (@orthAgainst K 𝔽 n S G' (@factor K 𝔽 tol m n At bt o).x0p)) (ext0 (av sq n q))
          = @dotS K 𝔽 S q (@orthAgainst K 𝔽 n S G' (@factor K 𝔽 tol m n At bt o).x0p) := by
        rw [dotS_comm, dotS_eq]
        exact dotL_congr_right fun k hk => ext0_av sq n q (hS k hk)
      rw [e]
      exact dotS_orthAgainst_zero sq hS G' r1 _ q hq
    | zero => rw [ext0_zero]; exact dotL_zero_right _ fun _ _ => rfl
    | add v w _ _ hv hw => rw [ext0_add, dotL_add_right, hv, hw, add_zero]
    | smul r v _ hv => rw [ext0_smul, dotL_smul_right, hv, mul_zero]


theorem kerV_of_ApM (g : Fin n → K) (hg : ApM sq tol m n At bt o *ᵥ g = 0) : g ∈ kerV sq tol m n At bt o := by
  rw [mem_kerV, NF_eq, ← mulVec_mulVec, hg, mulVec_zero]

theorem ApM_of_kerV (g : Fin n → K) (hg : g ∈ kerV sq tol m n At bt o) : ApM sq tol m n At bt o *ᵥ g = 0 := by
  rw [mem_kerV, NF_eq, ← mulVec_mulVec] at hg
  apply mulVec_eq_zero_of_normal (P := (1 : Matrix (Fin m) (Fin m) K)) one_pd
  rw [one_mulVec]; exact hg

/-- **singular or regular, new numbering**: the regularised `x` with the residuals and the sum of
    squares computed from the particular solution is the least-squares solution of the
    homogenised system with minimal `S`-seminorm -/
theorem x_isLS_new (hsq : IsSqrt sq) (hU : FactUnambiguous sq tol m n At bt o) (htol : 0 < tol)
    (hstol : 0 < stol) {S : List ℕ} (hnd : S.Nodup) (hS : ∀ k ∈ S, k < n)
    {Sf : Finset (Fin n)} (hmem : ∀ i : Fin n, i ∈ Sf ↔ i.1 ∈ S) {G : List (Array K)} {x : Array K}
    (h : @solveX K 𝔽 (@factor K 𝔽 tol m n At bt o) S stol = .ok (G, x)) :
    IsLSSolution (ApM sq tol m n At bt o) (btV sq tol m n At bt o) 1 Sf (av sq n x)
      (ApM sq tol m n At bt o *ᵥ x0V sq tol m n At bt o - btV sq tol m n At bt o)
      (@squares K 𝔽 (@factor K 𝔽 tol m n At bt o)) := by
  obtain ⟨h1, h2⟩ := solveX_spec sq tol stol m n At bt o hsq hU htol hstol hS h
  have hd := ApM_of_kerV sq tol m n At bt o _ h1
  rw [mulVec_sub, sub_eq_zero] at hd
  refine ⟨?_, ?_, ?_, ?_⟩
  · rw [← hd]; rfl
  · rw [one_mulVec]; exact x0_normal sq tol m n At bt o hU
  · rw [one_mulVec]; exact squares_eq sq tol m n At bt o
  · intro g hg
    have := h2 g (kerV_of_ApM sq tol m n At bt o g hg)
    rw [dotL_eq_sum hnd hS hmem] at this
    exact this

end Gama.Ls.Env
