/-
  Phase 2 of `Svd.decompose`: the accumulation of the right-hand transformations
  (`accVBody`, `SvdDecompStruct.lean`) returns `V = Q₁ ⋯ Qₙ`, `Q_i = 1 + (bR i)⁻¹ uR_i uR_iᵀ`
  (`Phase2Stmt`, `SvdDecompSpec.lean`).  No hypothesis on `U`, `rv1` is used: in a field `x / 0 = 0`
  and `0⁻¹ = 0`, which is what the code's guards (`if (g)`) and divisions compute.

    accV_fill / accV_dot / accV_axpy / accV_zero / accV_cols   closed forms of the inner loops
    accV_step        one iteration `i = n - t` on the block of rows/columns `i..n`
    LowId, accV_block   `Q_i · P` on that block when `P` is the identity in rows/columns `≤ i`
    accV_invariant   state after `t` iterations
    phase2_stmt      `Phase2Stmt sq`
-/
import Gama.Lemmas.Ls.SvdDecompSpec

namespace Gama.Ls.Svd
open Matrix Finset Gama.LS Gama.Ls

set_option linter.unusedSectionVars false
set_option linter.unusedVariables false
set_option linter.unusedSimpArgs false

variable {K : Type} [Field K] [LinearOrder K] [IsStrictOrderedRing K] (sq : K → K)

local notation "𝕊" => (Gama.LS.fieldScalar sq)

/-! ### sums -/

theorem accV_sum_fin_Icc (n L : Nat) (hL : 1 ≤ L) (F : Nat → K) :
    ∑ k : Fin n, (if L ≤ k.val + 1 then F (k.val + 1) else 0) = ∑ k ∈ Icc L n, F k := by
  induction n with
  | zero => rw [Finset.Icc_eq_empty (by omega)]; simp
  | succ n ih =>
    rw [Fin.sum_univ_castSucc]
    simp only [Fin.val_castSucc, Fin.val_last]
    rw [ih]
    by_cases h : L ≤ n + 1
    · rw [if_pos h, Finset.sum_Icc_succ_top h]
    · rw [if_neg h, Finset.Icc_eq_empty (by omega), Finset.Icc_eq_empty (by omega)]; simp

/-! ### the inner loops -/

theorem accV_wf_ms {r c : Nat} {M : DMat K} (h : MWF r c M) (i j : Nat) (x : K) : MWF r c (ms M i j x) :=
  @MWF.ms K (Gama.LS.fieldScalar id) r c M h i j x

theorem accV_mg_ms {r c : Nat} {M : DMat K} (h : MWF r c M) {i j : Nat} (hi : 1 ≤ i) (hi' : i ≤ r)
    (hj : 1 ≤ j) (hj' : j ≤ c) (a b : Nat) (x : K) :
    @mg K 𝕊 (ms M i j x) a b = if a = i ∧ b = j then x else @mg K 𝕊 M a b :=
  @mg_ms_in K 𝕊 r c M h i j hi hi' hj hj' a b x

/-- `for j in [L:n+1] do V[j][i] := f j` -/
theorem accV_fill (n i L : Nat) (f : Nat → K) (V V1 : DMat K) (hV : MWF n n V) (hi : 1 ≤ i) (hi' : i ≤ n)
    (hL : 1 ≤ L) (hLn : L ≤ n + 1)
    (h : forIn [L:n+1] V (fun j V' => (pure (ForInStep.yield (ms V' j i (f j))) : Except ErrKind (ForInStep (DMat K))))
      = .ok V1) :
    MWF n n V1 ∧ ∀ a b, @mg K 𝕊 V1 a b = if b = i ∧ L ≤ a ∧ a ≤ n then f a else @mg K 𝕊 V a b := by
  rw [forIn_range_pure] at h
  have h := ok_inj h
  subst h
  have := rfold_range_inv (fun j V' => ms V' j i (f j))
    (fun j V' => MWF n n V' ∧ ∀ a b, @mg K 𝕊 V' a b = if b = i ∧ L ≤ a ∧ a < j then f a else @mg K 𝕊 V a b)
    hLn V ⟨hV, fun a b => by rw [if_neg (by omega)]⟩
    (fun j V' h1 h2 hP => by
      obtain ⟨hW, hm⟩ := hP
      refine ⟨accV_wf_ms hW _ _ _, fun a b => ?_⟩
      rw [accV_mg_ms sq hW (by omega) (by omega) hi hi', hm]
      by_cases hab : a = j ∧ b = i
      · rw [if_pos hab, if_pos (by omega), hab.1]
      · rw [if_neg hab]
        by_cases h3 : b = i ∧ L ≤ a ∧ a < j
        · rw [if_pos h3, if_pos (by omega)]
        · rw [if_neg h3, if_neg (by omega)])
  refine ⟨this.1, fun a b => ?_⟩
  rw [this.2]
  by_cases h3 : b = i ∧ L ≤ a ∧ a ≤ n
  · rw [if_pos h3, if_pos (by omega)]
  · rw [if_neg h3, if_neg (by omega)]

/-- `for k in [L:n+1] do s := s + f k` from `0` -/
theorem accV_dot (n L : Nat) (f : Nat → K) (s : K) (hLn : L ≤ n + 1)
    (h : forIn [L:n+1] (0 : K) (fun k s' => (pure (ForInStep.yield (s' + f k)) : Except ErrKind (ForInStep K))) = .ok s) :
    s = ∑ k ∈ Icc L n, f k := by
  rw [forIn_range_pure] at h
  have h := ok_inj h
  subst h
  have := rfold_range_inv (fun k s' => s' + f k) (fun k s' => s' = ∑ j ∈ Ico L k, f j) hLn (0 : K)
    (by simp)
    (fun k s' h1 h2 hP => by rw [Finset.sum_Ico_succ_top h1, hP])
  rw [this, Finset.Ico_add_one_right_eq_Icc]

/-- `for k in [L:n+1] do V[k][j] := V[k][j] + s * V[k][i]` -/
theorem accV_axpy (n i j L : Nat) (s : K) (V V1 : DMat K) (hV : MWF n n V) (hj : 1 ≤ j) (hj' : j ≤ n) (hij : i ≠ j)
    (hL : 1 ≤ L) (hLn : L ≤ n + 1)
    (h : forIn [L:n+1] V (fun k V' =>
      (pure (ForInStep.yield (ms V' k j (@mg K 𝕊 V' k j + s * @mg K 𝕊 V' k i))) : Except ErrKind (ForInStep (DMat K))))
      = .ok V1) :
    MWF n n V1 ∧ ∀ a b, @mg K 𝕊 V1 a b =
      if b = j ∧ L ≤ a ∧ a ≤ n then @mg K 𝕊 V a j + s * @mg K 𝕊 V a i else @mg K 𝕊 V a b := by
  rw [forIn_range_pure] at h
  have h := ok_inj h
  subst h
  have := rfold_range_inv (fun k V' => ms V' k j (@mg K 𝕊 V' k j + s * @mg K 𝕊 V' k i))
    (fun k V' => MWF n n V' ∧ ∀ a b, @mg K 𝕊 V' a b =
      if b = j ∧ L ≤ a ∧ a < k then @mg K 𝕊 V a j + s * @mg K 𝕊 V a i else @mg K 𝕊 V a b)
    hLn V ⟨hV, fun a b => by rw [if_neg (by omega)]⟩
    (fun k V' h1 h2 hP => by
      obtain ⟨hW, hm⟩ := hP
      refine ⟨accV_wf_ms hW _ _ _, fun a b => ?_⟩
      have e1 : @mg K 𝕊 V' k j = @mg K 𝕊 V k j := by rw [hm, if_neg (by omega)]
      have e2 : @mg K 𝕊 V' k i = @mg K 𝕊 V k i := by rw [hm, if_neg (by omega)]
      rw [accV_mg_ms sq hW (by omega) (by omega) hj hj', e1, e2, hm a b]
      by_cases hab : a = k ∧ b = j
      · rw [if_pos hab, if_pos (by omega), hab.1]
      · rw [if_neg hab]
        by_cases h3 : b = j ∧ L ≤ a ∧ a < k
        · rw [if_pos h3, if_pos (by omega)]
        · rw [if_neg h3, if_neg (by omega)])
  refine ⟨this.1, fun a b => ?_⟩
  rw [this.2]
  by_cases h3 : b = j ∧ L ≤ a ∧ a ≤ n
  · rw [if_pos h3, if_pos (by omega)]
  · rw [if_neg h3, if_neg (by omega)]

/-- `for j in [L:n+1] do V[i][j] := 0; V[j][i] := 0` -/
theorem accV_zero (n i L : Nat) (V V1 : DMat K) (hV : MWF n n V) (hi : 1 ≤ i) (hi' : i ≤ n)
    (hL : 1 ≤ L) (hLn : L ≤ n + 1)
    (h : forIn [L:n+1] V (fun j V' =>
      (pure (ForInStep.yield (ms (ms V' i j (0 : K)) j i (0 : K))) : Except ErrKind (ForInStep (DMat K)))) = .ok V1) :
    MWF n n V1 ∧ ∀ a b, @mg K 𝕊 V1 a b =
      if (a = i ∧ L ≤ b ∧ b ≤ n) ∨ (b = i ∧ L ≤ a ∧ a ≤ n) then 0 else @mg K 𝕊 V a b := by
  rw [forIn_range_pure] at h
  have h := ok_inj h
  subst h
  have := rfold_range_inv (fun j V' => ms (ms V' i j (0 : K)) j i (0 : K))
    (fun j V' => MWF n n V' ∧ ∀ a b, @mg K 𝕊 V' a b =
      if (a = i ∧ L ≤ b ∧ b < j) ∨ (b = i ∧ L ≤ a ∧ a < j) then 0 else @mg K 𝕊 V a b)
    hLn V ⟨hV, fun a b => by rw [if_neg (by omega)]⟩
    (fun j V' h1 h2 hP => by
      obtain ⟨hW, hm⟩ := hP
      refine ⟨accV_wf_ms (accV_wf_ms hW _ _ _) _ _ _, fun a b => ?_⟩
      rw [accV_mg_ms sq (accV_wf_ms hW _ _ _) (by omega) (by omega) hi hi', accV_mg_ms sq hW hi hi' (by omega) (by omega), hm]
      by_cases hab : a = j ∧ b = i
      · rw [if_pos hab, if_pos (by omega)]
      · rw [if_neg hab]
        by_cases hab' : a = i ∧ b = j
        · rw [if_pos hab', if_pos (by omega)]
        · rw [if_neg hab']
          by_cases h3 : (a = i ∧ L ≤ b ∧ b < j) ∨ (b = i ∧ L ≤ a ∧ a < j)
          · rw [if_pos h3, if_pos (by omega)]
          · rw [if_neg h3, if_neg (by omega)])
  refine ⟨this.1, fun a b => ?_⟩
  rw [this.2]
  by_cases h3 : (a = i ∧ L ≤ b ∧ b ≤ n) ∨ (b = i ∧ L ≤ a ∧ a ≤ n)
  · rw [if_pos h3, if_pos (by omega)]
  · rw [if_neg h3, if_neg (by omega)]

/-- the loop over the columns `j = L..n`: column `j` (rows `L..n`) gets `+ (Σ_k U[i][k]·V[k][j]) · V[·][i]` -/
theorem accV_cols (n i L : Nat) (U V1 : DMat K) (s0 : K) (r : DMat K × K) (hV : MWF n n V1)
    (hiL : i < L) (hL : 1 ≤ L) (hLn : L ≤ n + 1)
    (h : forIn [L:n+1] (V1, s0) (fun j (st : DMat K × K) => (do
        let s ← forIn [L:n+1] (0 : K) fun k s' => pure (ForInStep.yield (s' + @mg K 𝕊 U i k * @mg K 𝕊 st.1 k j))
        let V' ← forIn [L:n+1] st.1 fun k V' =>
          pure (ForInStep.yield (ms V' k j (@mg K 𝕊 V' k j + s * @mg K 𝕊 V' k i)))
        pure (ForInStep.yield (V', s)) : Except ErrKind (ForInStep (DMat K × K)))) = .ok r) :
    MWF n n r.1 ∧ ∀ a b, @mg K 𝕊 r.1 a b =
      if L ≤ b ∧ b ≤ n ∧ L ≤ a ∧ a ≤ n then
        @mg K 𝕊 V1 a b + (∑ k ∈ Icc L n, @mg K 𝕊 U i k * @mg K 𝕊 V1 k b) * @mg K 𝕊 V1 a i
      else @mg K 𝕊 V1 a b := by
  have := forIn_range_inv' hLn h
    (fun j (st : DMat K × K) => MWF n n st.1 ∧ ∀ a b, @mg K 𝕊 st.1 a b =
      if L ≤ b ∧ b < j ∧ L ≤ a ∧ a ≤ n then
        @mg K 𝕊 V1 a b + (∑ k ∈ Icc L n, @mg K 𝕊 U i k * @mg K 𝕊 V1 k b) * @mg K 𝕊 V1 a i
      else @mg K 𝕊 V1 a b)
    ⟨hV, fun a b => by rw [if_neg (by omega)]⟩
    (fun j st st' h1 h2 hP hb => by
      obtain ⟨hW, hm⟩ := hP
      obtain ⟨s, hs, hb⟩ := bind_eq_ok.mp hb
      obtain ⟨V', hV', hb⟩ := bind_eq_ok.mp hb
      have hb := ok_inj hb
      have hb : (V', s) = st' := by injection hb
      subst hb
      have hs := accV_dot n L _ s hLn hs
      obtain ⟨hW', hm'⟩ := accV_axpy sq n i j L s st.1 V' hW (by omega) (by omega) (by omega) hL hLn hV'
      refine ⟨hW', fun a b => ?_⟩
      show @mg K 𝕊 V' a b = _
      rw [hm']
      have e1 : ∀ a, @mg K 𝕊 st.1 a j = @mg K 𝕊 V1 a j := fun a => by rw [hm, if_neg (by omega)]
      have e2 : ∀ a, @mg K 𝕊 st.1 a i = @mg K 𝕊 V1 a i := fun a => by rw [hm, if_neg (by omega)]
      by_cases h3 : b = j ∧ L ≤ a ∧ a ≤ n
      · rw [if_pos h3, if_pos (by omega), e1, e2, hs, h3.1]
        congr 2
        exact Finset.sum_congr rfl fun k _ => by rw [e1]
      · rw [if_neg h3, hm]
        by_cases h4 : L ≤ b ∧ b < j ∧ L ≤ a ∧ a ≤ n
        · rw [if_pos h4, if_pos (by omega)]
        · rw [if_neg h4, if_neg (by omega)])
    (fun j st st' h1 h2 hP hb => by
      obtain ⟨s, hs, hb⟩ := bind_eq_ok.mp hb
      obtain ⟨V', hV', hb⟩ := bind_eq_ok.mp hb
      have hb := ok_inj hb
      cases hb)
  refine ⟨this.1, fun a b => ?_⟩
  rw [this.2]
  by_cases h4 : L ≤ b ∧ b ≤ n ∧ L ≤ a ∧ a ≤ n
  · rw [if_pos h4, if_pos (by omega)]
  · rw [if_neg h4, if_neg (by omega)]

/-! ### one iteration -/

/-- one iteration of the accumulation, index `i = n - t`, on the block of rows and columns `i..n` -/
theorem accV_step (n : Nat) (U : DMat K) (rv1 : Array K) (t : Nat) (V : DMat K) (g s : K) (L : Nat)
    (r : ForInStep (DMat K × K × K × Nat)) (hV : MWF n n V) (ht : t < n)
    (hL : n - t ≠ n → L = n - t + 1)
    (h : @accVBody K 𝕊 n U rv1 t (V, g, s, L) = .ok r) :
    ∃ V' s', r = .yield (V', @g1 K 𝕊 rv1 (n - t), s', n - t) ∧ MWF n n V' ∧
      ∀ a b, n - t ≤ a → a ≤ n → n - t ≤ b → b ≤ n → @mg K 𝕊 V' a b =
        if a = n - t ∧ b = n - t then 1 else if a = n - t ∨ b = n - t then 0 else
          @mg K 𝕊 V a b + (∑ k ∈ Icc (n - t + 1) n, @mg K 𝕊 U (n - t) k * @mg K 𝕊 V k b)
            * (@mg K 𝕊 U (n - t) a / @mg K 𝕊 U (n - t) (n - t + 1) / g) := by
  unfold accVBody at h
  simp only [] at h
  generalize hi : n - t = i at h hL ⊢
  have hi1 : 1 ≤ i := by omega
  have hin : i ≤ n := by omega
  by_cases hne : i ≠ n
  · rw [if_pos hne] at h
    have hL' := hL hne
    subst hL'
    by_cases hg : @nz K 𝕊 g = true
    · rw [if_pos hg] at h
      obtain ⟨V1, hV1, h⟩ := bind_eq_ok.mp h
      obtain ⟨st2, h2, h⟩ := bind_eq_ok.mp h
      obtain ⟨V3, h3, h⟩ := bind_eq_ok.mp h
      have h := ok_inj h
      obtain ⟨hW1, hm1⟩ := accV_fill sq n i (i + 1) _ V V1 hV hi1 hin (by omega) (by omega) hV1
      obtain ⟨hW2, hm2⟩ := accV_cols sq n i (i + 1) U V1 s st2 hW1 (by omega) (by omega) (by omega) h2
      obtain ⟨hW3, hm3⟩ := accV_zero sq n i (i + 1) st2.1 V3 hW2 hi1 hin (by omega) (by omega) h3
      refine ⟨ms V3 i i 1, st2.2, h.symm, accV_wf_ms hW3 _ _ _, fun a b ha ha' hb hb' => ?_⟩
      rw [accV_mg_ms sq hW3 hi1 hin hi1 hin]
      by_cases hab : a = i ∧ b = i
      · rw [if_pos hab, if_pos hab]
      · rw [if_neg hab, if_neg hab, hm3]
        by_cases h5 : a = i ∨ b = i
        · rw [if_pos h5, if_pos (by omega)]
        · rw [if_neg h5, if_neg (by omega), hm2, if_pos (by omega), hm1 a b, if_neg (by omega), hm1 a i,
            if_pos (by omega)]
          congr 2
          exact Finset.sum_congr rfl fun k _ => by rw [hm1 k b, if_neg (by omega)]
    · rw [if_neg hg] at h
      have hg0 : g = 0 := (nz_false_iff sq g).mp (by simpa using hg)
      obtain ⟨V3, h3, h⟩ := bind_eq_ok.mp h
      have h := ok_inj h
      obtain ⟨hW3, hm3⟩ := accV_zero sq n i (i + 1) V V3 hV hi1 hin (by omega) (by omega) h3
      refine ⟨ms V3 i i 1, s, h.symm, accV_wf_ms hW3 _ _ _, fun a b ha ha' hb hb' => ?_⟩
      rw [accV_mg_ms sq hW3 hi1 hin hi1 hin]
      by_cases hab : a = i ∧ b = i
      · rw [if_pos hab, if_pos hab]
      · rw [if_neg hab, if_neg hab, hm3]
        by_cases h5 : a = i ∨ b = i
        · rw [if_pos h5, if_pos (by omega)]
        · rw [if_neg h5, if_neg (by omega), hg0, div_zero, mul_zero, add_zero]
  · rw [if_neg hne] at h
    have h := ok_inj h
    refine ⟨ms V i i 1, s, h.symm, accV_wf_ms hV _ _ _, fun a b ha ha' hb hb' => ?_⟩
    rw [accV_mg_ms sq hV hi1 hin hi1 hin, if_pos (by omega), if_pos (by omega)]

/-! ### algebra: matrices that are the identity in the leading rows and columns -/

/-- `M` agrees with the identity in every row and every column of (0-based) index `< j` -/
def LowId {n : Nat} (j : Nat) (M : Matrix (Fin n) (Fin n) K) : Prop :=
  ∀ a b : Fin n, (a.val < j ∨ b.val < j) → M a b = if a = b then 1 else 0

theorem LowId_one {n : Nat} (j : Nat) : LowId j (1 : Matrix (Fin n) (Fin n) K) :=
  fun a b _ => Matrix.one_apply

theorem LowId_mono {n : Nat} {j j' : Nat} (h : j ≤ j') {M : Matrix (Fin n) (Fin n) K} (hM : LowId j' M) :
    LowId j M := fun a b hab => hM a b (by omega)

theorem LowId_mul {n : Nat} {j : Nat} {M N : Matrix (Fin n) (Fin n) K} (hM : LowId j M) (hN : LowId j N) :
    LowId j (M * N) := by
  intro a b hab
  rw [Matrix.mul_apply]
  rcases hab with ha | hb
  · rw [Finset.sum_eq_single a]
    · rw [hM a a (Or.inl ha), if_pos rfl, one_mul]; exact hN a b (Or.inl ha)
    · intro k _ hk; rw [hM a k (Or.inl ha), if_neg (Ne.symm hk), zero_mul]
    · intro h; exact absurd (Finset.mem_univ _) h
  · rw [Finset.sum_eq_single b]
    · rw [hN b b (Or.inr hb), if_pos rfl, mul_one]; exact hM a b (Or.inr hb)
    · intro k _ hk; rw [hN k b (Or.inr hb), if_neg hk, mul_zero]
    · intro h; exact absurd (Finset.mem_univ _) h

theorem uR_low (n : Nat) (U : DMat K) (j : Nat) (c : Fin n) (h : c.val < j) : uR sq n U j c = 0 := by
  unfold uR; rw [if_neg (by omega)]

theorem QRm_LowId (n : Nat) (U : DMat K) (e : Nat → K) (j : Nat) : LowId j (QRm sq n U e j) := by
  intro a b hab
  unfold QRm
  rw [hh_apply]
  rcases hab with h | h
  · rw [uR_low sq n U j a h, zero_mul, mul_zero, add_zero]
  · rw [uR_low sq n U j b h, mul_zero, mul_zero, add_zero]

theorem prodFrom_QRm_LowId (n : Nat) (U : DMat K) (e : Nat → K) : ∀ (cnt j : Nat),
    LowId j (prodFrom (QRm sq n U e) j cnt) := by
  intro cnt
  induction cnt with
  | zero => intro j; exact LowId_one j
  | succ cnt ih =>
    intro j
    exact LowId_mul (QRm_LowId sq n U e j) (LowId_mono (Nat.le_succ j) (ih (j + 1)))

omit [LinearOrder K] [IsStrictOrderedRing K] in
theorem hh_mul_apply {n : Nat} (u : Fin n → K) (β : K) (P : Matrix (Fin n) (Fin n) K) (a b : Fin n) :
    (hh u β * P) a b = P a b + β⁻¹ * u a * ∑ k, u k * P k b := by
  rw [Matrix.mul_apply]
  simp only [hh_apply, add_mul, Finset.sum_add_distrib, ite_mul, one_mul, zero_mul, Finset.sum_ite_eq,
    Finset.mem_univ, if_true]
  congr 1
  rw [Finset.mul_sum]
  exact Finset.sum_congr rfl fun k _ => by ring

/-- the block `i..n` (1-based) of `Q_i · P` when `P` is the identity in rows and columns `≤ i` -/
theorem accV_block (n i : Nat) (hi1 : 1 ≤ i) (U : DMat K) (e : Nat → K) (P : Matrix (Fin n) (Fin n) K)
    (hP : LowId i P) (a b : Fin n) (ha : i ≤ a.val + 1) (hb : i ≤ b.val + 1) (X : Nat → K)
    (hX : i + 1 ≤ b.val + 1 → ∀ k : Fin n, i + 1 ≤ k.val + 1 → P k b = X (k.val + 1)) :
    (QRm sq n U e i * P) a b =
      if a.val + 1 = i ∧ b.val + 1 = i then 1 else if a.val + 1 = i ∨ b.val + 1 = i then 0 else
        P a b + (∑ k ∈ Icc (i + 1) n, @mg K 𝕊 U i k * X k)
          * (@mg K 𝕊 U i (a.val + 1) / @mg K 𝕊 U i (i + 1) / e (i + 1)) := by
  unfold QRm
  rw [hh_mul_apply]
  by_cases h1 : a.val + 1 = i
  · rw [uR_low sq n U i a (by omega), mul_zero, zero_mul, add_zero, hP a b (Or.inl (by omega))]
    by_cases h2 : b.val + 1 = i
    · have hab : a = b := Fin.ext (by omega)
      rw [if_pos hab, if_pos (show a.val + 1 = i ∧ b.val + 1 = i from ⟨h1, h2⟩)]
    · have hab : ¬ a = b := fun h => h2 (by rw [← h]; exact h1)
      rw [if_neg hab, if_neg (show ¬ (a.val + 1 = i ∧ b.val + 1 = i) from fun h => h2 h.2),
        if_pos (show a.val + 1 = i ∨ b.val + 1 = i from Or.inl h1)]
  · by_cases h2 : b.val + 1 = i
    · have hab : ¬ a = b := fun h => h1 (by rw [h]; exact h2)
      rw [if_neg (show ¬ (a.val + 1 = i ∧ b.val + 1 = i) from fun h => h1 h.1),
        if_pos (show a.val + 1 = i ∨ b.val + 1 = i from Or.inr h2), hP a b (Or.inr (by omega)),
        if_neg hab, zero_add, Finset.sum_eq_zero, mul_zero]
      intro k _
      by_cases hk : k = b
      · rw [hk, uR_low sq n U i b (by omega), zero_mul]
      · rw [hP k b (Or.inr (by omega)), if_neg hk, mul_zero]
    · rw [if_neg (show ¬ (a.val + 1 = i ∧ b.val + 1 = i) from fun h => h1 h.1),
        if_neg (show ¬ (a.val + 1 = i ∨ b.val + 1 = i) from fun h => h.elim h1 h2)]
      have hs : ∑ k : Fin n, uR sq n U i k * P k b = ∑ k ∈ Icc (i + 1) n, @mg K 𝕊 U i k * X k := by
        rw [← accV_sum_fin_Icc n (i + 1) (by omega) (fun k => @mg K 𝕊 U i k * X k)]
        refine Finset.sum_congr rfl fun k _ => ?_
        unfold uR
        by_cases hk : i + 1 ≤ k.val + 1
        · rw [if_pos hk, if_pos hk, hX (by omega) k hk]
        · rw [if_neg hk, if_neg hk, zero_mul]
      have hu : uR sq n U i a = @mg K 𝕊 U i (a.val + 1) := by unfold uR; rw [if_pos (by omega)]
      rw [hs, hu]
      unfold bR
      rw [div_div, div_eq_inv_mul]
      ring

/-! ### the invariant -/

/-- **state after `t` iterations** (indices `n-t+1..n` done): the block of rows and columns `n-t+1..n` of `V`
    is that block of `Q_{n-t+1} ⋯ Q_n`; `g = rv1[n-t+1]`, `L = n-t+1` are what the next iteration reads -/
theorem accV_invariant (n : Nat) (U : DMat K) (rv1 : Array K) (g0 s0 : K) (L0 : Nat) (t : Nat) (ht : t ≤ n)
    (st : DMat K × K × K × Nat)
    (h : forIn [0:t] ((Array.replicate n (Array.replicate n (0 : K)), g0, s0, L0) : DMat K × K × K × Nat)
      (@accVBody K 𝕊 n U rv1) = .ok st) :
    MWF n n st.1 ∧ (t ≠ 0 → st.2.1 = @g1 K 𝕊 rv1 (n - t + 1) ∧ st.2.2.2 = n - t + 1) ∧
      ∀ a b : Fin n, n - t ≤ a.val → n - t ≤ b.val →
        @mg K 𝕊 st.1 (a.val + 1) (b.val + 1) = prodFrom (QRm sq n U (@g1 K 𝕊 rv1)) (n - t + 1) t a b := by
  refine forIn_range_inv' (Nat.zero_le t) h
    (fun t (st : DMat K × K × K × Nat) =>
      MWF n n st.1 ∧ (t ≠ 0 → st.2.1 = @g1 K 𝕊 rv1 (n - t + 1) ∧ st.2.2.2 = n - t + 1) ∧
      ∀ a b : Fin n, n - t ≤ a.val → n - t ≤ b.val →
        @mg K 𝕊 st.1 (a.val + 1) (b.val + 1) = prodFrom (QRm sq n U (@g1 K 𝕊 rv1)) (n - t + 1) t a b)
    ⟨@MWF_replicate K 𝕊 n n 0, fun h => absurd rfl h, fun a b ha _ => by have := a.2; omega⟩ ?_ ?_
  · rintro t' ⟨V, g, s, L⟩ st' _ ht' ⟨hW, hgL, hblk⟩ hb
    have htn : t' < n := by omega
    obtain ⟨V', s', hst', hW', hm'⟩ := accV_step sq n U rv1 t' V g s L (.yield st') hW htn
      (fun hne => (hgL (by omega)).2) hb
    have hst' : st' = (V', @g1 K 𝕊 rv1 (n - t'), s', n - t') := by injection hst'
    subst hst'
    have hidx : n - (t' + 1) + 1 = n - t' := by omega
    refine ⟨hW', fun _ => ?_, fun a b ha hb' => ?_⟩
    · show @g1 K 𝕊 rv1 (n - t') = @g1 K 𝕊 rv1 (n - (t' + 1) + 1) ∧ n - t' = n - (t' + 1) + 1
      rw [hidx]; exact ⟨rfl, rfl⟩
    · show @mg K 𝕊 V' (a.val + 1) (b.val + 1) = _
      rw [hidx]
      show _ = (QRm sq n U (@g1 K 𝕊 rv1) (n - t') * prodFrom (QRm sq n U (@g1 K 𝕊 rv1)) (n - t' + 1) t') a b
      have hP : LowId (n - t') (prodFrom (QRm sq n U (@g1 K 𝕊 rv1)) (n - t' + 1) t') :=
        LowId_mono (Nat.le_succ _) (prodFrom_QRm_LowId sq n U (@g1 K 𝕊 rv1) t' (n - t' + 1))
      have han := a.2
      have hbn := b.2
      rw [hm' (a.val + 1) (b.val + 1) (by omega) (by omega) (by omega) (by omega),
        accV_block sq n (n - t') (by omega) U (@g1 K 𝕊 rv1) _ hP a b (by omega) (by omega)
          (fun k => @mg K 𝕊 V k (b.val + 1))
          (fun hb1 k hk => (hblk k b (by omega) (by omega)).symm)]
      by_cases h1 : a.val + 1 = n - t' ∧ b.val + 1 = n - t'
      · rw [if_pos h1, if_pos h1]
      · rw [if_neg h1, if_neg h1]
        by_cases h2 : a.val + 1 = n - t' ∨ b.val + 1 = n - t'
        · rw [if_pos h2, if_pos h2]
        · rw [if_neg h2, if_neg h2]
          have ht0 : t' ≠ 0 := by omega
          have hg : g = @g1 K 𝕊 rv1 (n - t' + 1) := (hgL ht0).1
          rw [hblk a b (by omega) (by omega), hg]
  · rintro t' ⟨V, g, s, L⟩ st' _ ht' ⟨hW, hgL, hblk⟩ hb
    have htn : t' < n := by omega
    obtain ⟨V', s', hst', _⟩ := accV_step sq n U rv1 t' V g s L (.done st') hW htn
      (fun hne => (hgL (by omega)).2) hb
    cases hst'

/-- **phase 2**: the accumulation of the right-hand transformations returns `V = Q₁ ⋯ Qₙ` -/
theorem phase2_stmt : Phase2Stmt sq := by
  intro m n U rv1 g0 s0 L0 st hU hr h
  obtain ⟨hW, _, hblk⟩ := accV_invariant sq n U rv1 g0 s0 L0 n (le_refl n) st h
  refine ⟨hW, ?_⟩
  ext a b
  rw [toMatrix_mg sq, hblk a b (by omega) (by omega), Nat.sub_self, Nat.zero_add]

end Gama.Ls.Svd
