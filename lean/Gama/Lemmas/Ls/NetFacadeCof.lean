/-
  Cofactors through the façades (`Adj`, `LocalNetwork`): what the C03/C20 theorems establish about the
  answer of each solver model, collected over an arbitrary ordered field (`CofFacts`, the generic-field
  form of C09's `Stats.SolverFacts`), transported through the whitening `W` (`WᵀW = P`) of the façade,
  and assembled for `netSolve alg np` (all four algorithms).

  Scalars: an ordered field with a true square root (`Gso.SqrtField K`); all models run on the one
  instance `Gama.LS.fieldScalar SqrtField.sqrt` (see `Lemmas/Ls/ComposeAdj.lean`).
-/
import Gama.Lemmas.Ls.NetFacadeAgree
import Gama.Lemmas.Ls.ComposeAdj
import Gama.Props.C03.EnvSolve
import Gama.Props.C03.CholBelongs
import Gama.Props.C03.Gso
import Gama.Props.C03.Svd
import Gama.Props.C20.Gso
import Gama.Props.C20.Svd

namespace Gama.Ls
open Gama Gama.LS Matrix

set_option linter.unusedSectionVars false
set_option linter.unusedVariables false

/-- The facts C01 / C03 / C20 prove about the cofactor accessors of ONE answer (`fxx`, `fbb` = its `q_xx`,
    `q_bb`; `defect`), for the design matrix `A` (m observations, n unknowns), whitening `W` (`WᵀW = P`;
    `W = 1` when the solver is handed the homogenised system) and regularisation subset `S`:
    `Q` = the matrix of ALL reported `q_xx(i,j)`: symmetric, positive semi-definite, reflexive generalised
    inverse of `N = (WA)ᵀ(WA) = AᵀPA`, belonging to `S`; `B` = the matrix of all reported `q_bb(i,j)` =
    `(WA) Q (WA)ᵀ`, diagonal in `[0,1]`, redundancy numbers summing to `m − n + defect`;
    `defect + rank A = n`.  (Generic-field form of `Stats.SolverFacts`.) -/
structure CofFacts {K : Type} [Field K] [LinearOrder K] [IsStrictOrderedRing K] {m n : ℕ}
    (fxx fbb : Nat → Nat → Except ErrKind K) (defect : Nat)
    (A : Matrix (Fin m) (Fin n) K) (W : Matrix (Fin m) (Fin m) K) (S : Finset (Fin n))
    (Q : Matrix (Fin n) (Fin n) K) (B : Matrix (Fin m) (Fin m) K) : Prop where
  qxx : ∀ i j : Fin n, fxx (i.val + 1) (j.val + 1) = .ok (Q i j)
  qbb : ∀ i j : Fin m, fbb (i.val + 1) (j.val + 1) = .ok (B i j)
  symm : Qᵀ = Q
  psd : ∀ y, 0 ≤ y ⬝ᵥ Q *ᵥ y
  nqn : ((W * A)ᵀ * (W * A)) * Q * ((W * A)ᵀ * (W * A)) = (W * A)ᵀ * (W * A)
  qnq : Q * ((W * A)ᵀ * (W * A)) * Q = Q
  belongs : LS.BelongsTo A S Q
  hat : B = (W * A) * Q * (W * A)ᵀ
  hat_diag : ∀ i, 0 ≤ B i i ∧ B i i ≤ 1
  redundancy : ∑ i, (1 - B i i) = (m : K) - n + defect
  defect_rank : defect + A.rank = n

namespace CofFacts
variable {K : Type} [Field K] [LinearOrder K] [IsStrictOrderedRing K] {m n : ℕ}
  {fxx fbb : Nat → Nat → Except ErrKind K} {defect : Nat}
  {A : Matrix (Fin m) (Fin n) K} {W : Matrix (Fin m) (Fin m) K} {S : Finset (Fin n)}
  {Q : Matrix (Fin n) (Fin n) K} {B : Matrix (Fin m) (Fin m) K}

/-- facts about the whitened unit-weight system `(W A, 1)` are facts about the original system `(A, W)` -/
theorem whiten {Lg : Matrix (Fin m) (Fin m) K} (hinv : Lg * W = 1)
    (h : CofFacts fxx fbb defect (W * A) 1 S Q B) : CofFacts fxx fbb defect A W S Q B where
  qxx := h.qxx
  qbb := h.qbb
  symm := h.symm
  psd := h.psd
  nqn := by simpa only [Matrix.one_mul] using h.nqn
  qnq := by simpa only [Matrix.one_mul] using h.qnq
  belongs := fun y g hg => h.belongs y g (by rw [← mulVec_mulVec, hg, mulVec_zero])
  hat := by simpa only [Matrix.one_mul] using h.hat
  hat_diag := h.hat_diag
  redundancy := h.redundancy
  defect_rank := by
    have hu : IsUnit W.det := Matrix.isUnit_det_of_left_inverse hinv
    have := h.defect_rank
    rwa [Matrix.rank_mul_eq_right_of_isUnit_det _ _ hu] at this

/-- the normal matrix in original terms: `N = AᵀPA` -/
theorem nqn' {P : Matrix (Fin m) (Fin m) K} (hW : Wᵀ * W = P) (h : CofFacts fxx fbb defect A W S Q B) :
    (Aᵀ * P * A) * Q * (Aᵀ * P * A) = Aᵀ * P * A ∧ Q * (Aᵀ * P * A) * Q = Q := by
  have hN := whiten_normalMatrix hW A
  rw [Matrix.mul_one] at hN
  exact ⟨hN ▸ h.nqn, hN ▸ h.qnq⟩

/-- the hat matrix is a symmetric projector -/
theorem hat_proj (h : CofFacts fxx fbb defect A W S Q B) : Bᵀ = B ∧ B * B = B := by
  have hs := hat_symm' h.nqn
  have hi := hat_idempotent' h.nqn
  rw [← h.hat] at hs hi
  exact ⟨hs, hi⟩

/-- regular case: with defect 0 the reported matrix is the inverse of the normal matrix `AᵀPA` -/
theorem inverse_of_regular {P : Matrix (Fin m) (Fin m) K} (hW : Wᵀ * W = P) (hinj : ∀ d, W *ᵥ d = 0 → d = 0)
    (h : CofFacts fxx fbb defect A W S Q B) (h0 : defect = 0) : Q = (Aᵀ * P * A)⁻¹ := by
  have hpd : ∀ d, d ≠ 0 → 0 < d ⬝ᵥ P *ᵥ d := hW ▸ gram_pd W hinj
  have hr : A.rank = n := by have := h.defect_rank; omega
  have hnull : nullity A = 0 := by
    have := rank_add_nullity A
    simp only [Fintype.card_fin] at this
    omega
  have hker := (nullity_eq_zero_iff A).1 hnull
  have hNinj : Function.Injective (Aᵀ * P * A).mulVec := by
    intro u v huv
    have hz : (Aᵀ * P * A) *ᵥ (u - v) = 0 := by rw [mulVec_sub]; exact sub_eq_zero.2 huv
    have hA : A *ᵥ (u - v) = 0 := by
      apply mulVec_eq_zero_of_normal hpd
      rw [← hz, ← mulVec_mulVec, ← mulVec_mulVec]
    exact sub_eq_zero.1 (hker _ hA)
  have hdet : IsUnit (Aᵀ * P * A).det :=
    (Matrix.isUnit_iff_isUnit_det _).1 (Matrix.mulVec_injective_iff_isUnit.1 hNinj)
  exact ginv_eq_inv_of_regular hdet (h.nqn' hW).1

end CofFacts

section solversFn
variable {K : Type} [Field K] [LinearOrder K] [IsStrictOrderedRing K] [SqrtFn K]
attribute [local instance 2000] scalarOfField

/-- cholesky (`C03_cholesky_cofactors`) -/
theorem cofFacts_chol (q : Problem K) (hU : Chol.UnambiguousF (cholFact q)) (hsq : Chol.GsSqrtExact q)
    (hnd : ∀ S, Chol.regList q.n q.reg = some S → S.Nodup) (s : Answer K) (h : cholSolve q = .ok s) :
    ∃ Q B, CofFacts s.qxx s.qbb s.defect q.A 1 q.S Q B := by
  obtain ⟨Q, q1, q2, q3, q4, q5, q6, q7, -, -, q10, q11, q12⟩ :=
    Props.C03.C03_cholesky_cofactors q hU hsq hnd s h
  exact ⟨Q, _,
    { qxx := fun i j => (q6 i j).1, qbb := q7, symm := q1, psd := q4,
      nqn := by rw [Matrix.one_mul]; exact q2, qnq := by rw [Matrix.one_mul]; exact q3,
      belongs := q5, hat := by rw [Matrix.one_mul], hat_diag := q10, redundancy := q11, defect_rank := q12 }⟩

/-- envelope as it runs (`envSolve`), stated for the system `Homogenization::run` produced: for ANY `W`
    with `WᵀW = P` whose product with `A` is that system, `q_bb = (WA) Q (WA)ᵀ`
    (`C03_envsolve_cofactors`, `C03_envelope_qbb_projector`, `C03_envsolve_defect_rank`) -/
theorem cofFacts_env (hsq : IsSqrt (SqrtFn.sq : K → K)) (p : Problem K) (hin : Env.InputOK p) (hreg : Env.RegListOK p)
    (hU : Env.SolveUnambiguous p) (P : Matrix (Fin p.m) (Fin p.m) K) (hP : p.C * P = 1)
    (a : Answer K) (h : envSolve p = .ok a) (hx : a.xErr = none)
    (hh : Env.Homog K) (hhom : Env.homogenize p = .ok hh)
    (W : Matrix (Fin p.m) (Fin p.m) K) (hW : Wᵀ * W = P) (hAt : toMatrix p.m p.n hh.At = W * p.A) :
    ∃ Q B, CofFacts a.qxx a.qbb a.defect p.A W p.S Q B := by
  obtain ⟨Q, q1, q2, q3, q4, q5, q6, -⟩ := Props.C03.C03_envsolve_cofactors hsq p hin hreg hU P hP a h hx
  have hr := Props.C03.C03_envsolve_defect_rank hsq p hin hU P hP a h
  obtain ⟨hh', hhom', -, -, hdef, -, -, hqbb, -, -⟩ := envSolve_shape p a h
  have ehh : hh' = hh := Except.ok.inj (hhom'.symm.trans hhom)
  subst ehh
  obtain ⟨hO, -⟩ := Env.solve_setup hsq p hin P hP hh' hhom
  have hN : Env.NO p.m p.n hh'.At = p.Aᵀ * P * p.A := by
    rw [Env.NO, hAt, transpose_mul, ← hW]; simp only [Matrix.mul_assoc]
  obtain ⟨b1, -, -, b4, b5⟩ := Props.C03.C03_envelope_qbb_projector (SqrtFn.sq : K → K) (Env.sqrtEps : K)
    (Env.sqrtEps : K) p.m p.n p.dense p.rhs hh'.At hh'.bt p.reg _ hO (hU hh' hhom) Env.sqrtEps_pos Q
    (by rw [hN]; exact q3)
  rw [hAt] at b1 b4 b5
  have hNW := whiten_normalMatrix hW p.A
  rw [Matrix.mul_one] at hNW
  exact ⟨Q, _,
    { qxx := q1, qbb := fun i j => by rw [hqbb]; exact b1 i j, symm := q2, psd := q5,
      nqn := by rw [hNW]; exact q3, qnq := by rw [hNW]; exact q4,
      belongs := q6, hat := rfl, hat_diag := b4, redundancy := by rw [hdef]; exact b5,
      defect_rank := by omega }⟩

end solversFn

section solversField
variable {K : Type} [Field K] [LinearOrder K] [IsStrictOrderedRing K] [Gso.SqrtField K]
attribute [local instance] sqrtFnOfSqrtField
attribute [local instance 2000] scalarOfField

theorem isSqrt_of_sqrtField : IsSqrt (SqrtFn.sq : K → K) :=
  ⟨fun x hx => (Gso.SqrtField.sqrt_spec x hx).1, fun x hx => (Gso.SqrtField.sqrt_spec x hx).2⟩

/-- Gram–Schmidt (`C03_gso*`, `C20_gso_count`) -/
theorem cofFacts_gso (q : Problem K) (hU : Gso.Unambiguous q) (s : Answer K) (h : gsoSolve q = .ok s) :
    ∃ Q B, CofFacts s.qxx s.qbb s.defect q.A 1 q.S Q B := by
  obtain ⟨e1, -, e3, -⟩ := Props.C03.C03_gso_entries q hU s h
  obtain ⟨g1, g2, g3, g4⟩ := Props.C03.C03_gso q hU
  obtain ⟨b1, -, -, b4, b5⟩ := Props.C03.C03_gso_qbb q hU
  have hdr := (Props.C20.C20_gso_count q hU s h).2
  exact ⟨_, _,
    { qxx := e1, qbb := e3, symm := g1, psd := g2,
      nqn := by rw [Matrix.one_mul]; exact g3, qnq := by rw [Matrix.one_mul]; exact g4,
      belongs := fun y g hg => Props.C03.C03_gso_belongs q hU y g hg,
      hat := by rw [Matrix.one_mul]; exact b1, hat_diag := b4,
      redundancy := by
        have := congrArg (Nat.cast : ℕ → K) hdr
        push_cast at this
        rw [b5]; linear_combination (-1 : K) * this,
      defect_rank := hdr }⟩

/-- svd as it runs (`svdSolve` = `Svd.decompose`, then the post-decomposition model at `Svd.wTol`),
    modulo the certificate of the factors the iteration returned (`C03_svd_cert*`, `C20_svd_count`) -/
theorem cofFacts_svd (q : Problem K) (hreg : Svd.RegOK q.reg)
    (hc : ∀ d, Svd.decompose q.m q.n q.dense = .ok d →
      Svd.SvdCert (Gso.SqrtField.sqrt : K → K) Svd.wTol q.m q.n q.dense d)
    (s : Answer K) (hs : svdSolve q = .ok s) :
    ∃ Q B, CofFacts s.qxx s.qbb s.defect q.A 1 q.S Q B := by
  unfold svdSolve svdSolveWith at hs
  cases hd : Svd.decompose q.m q.n q.dense with
  | error e => rw [hd] at hs; cases hs
  | ok d =>
    rw [hd] at hs
    have hs' : svdSolveCert true Svd.wTol d q = .ok s := hs
    obtain ⟨Q, B, X, s1, -, s3, -, s5, s6, s7, s8, -, s10, s11, -, -, -⟩ :=
      Props.C03.C03_svd_cert sqrtLaw_of_sqrtField true Svd.wTol_nonneg q d (hc d hd) hreg s hs'
    obtain ⟨B', r1, r2, r3⟩ :=
      Props.C03.C03_svd_cert_redundancy sqrtLaw_of_sqrtField true Svd.wTol_nonneg q d (hc d hd) hreg s hs'
    have hBB : B' = B := by
      ext i j; exact Except.ok.inj ((r1 i j).symm.trans (s3 i j))
    subst hBB
    exact ⟨Q, B',
      { qxx := s1, qbb := s3, symm := s5, psd := s6,
        nqn := by rw [Matrix.one_mul]; exact s7, qnq := by rw [Matrix.one_mul]; exact s8,
        belongs := s10, hat := by rw [Matrix.one_mul]; exact s11, hat_diag := r2, redundancy := r3,
        defect_rank := Props.C20.C20_svd_count sqrtLaw_of_sqrtField true Svd.wTol_nonneg q d (hc d hd) hreg s hs' }⟩

end solversField

/-! ### `LocalNetwork` -/

namespace Net
open Gama.Ls.AdjM Dn Gama.Ls.Env

section netFn
variable {K : Type} [Field K] [LinearOrder K] [IsStrictOrderedRing K] [SqrtFn K]
attribute [local instance 2000] scalarOfField

/-- what a successful answer of a full solver through `LocalNetwork` is made of, cofactor accessors
    included (`qxx`, `qbb` delegate to the solver object on the homogenised system) -/
theorem netFull_shape_cof (alg : Alg) (np : NetProblem K) (a : NetAnswer K) (h : netFull alg np = .ok a) :
    ∃ hh s, prepare np = .ok hh ∧ solverOf alg (Net.dotProblem np hh) = .ok s ∧ s.xErr = none ∧
      a.qxx = s.qxx ∧ a.qbb = s.qbb ∧ a.defect = s.defect ∧ a.Ad = hh.Ad ∧ a.bd = hh.bd := by
  unfold netFull at h
  cases hp : prepare np with
  | error e => rw [hp] at h; cases h
  | ok hh =>
    rw [hp] at h
    simp only at h
    cases hs : solverOf alg (Net.dotProblem np hh) with
    | error e => rw [hs] at h; cases h
    | ok s =>
      rw [hs] at h
      simp only at h
      cases hx : s.xErr with
      | some e => rw [hx] at h; cases h
      | none =>
        rw [hx] at h
        have ha := (Except.ok.inj h).symm
        subst ha
        exact ⟨hh, s, rfl, hs, hx, rfl, rfl, rfl, rfl, rfl⟩

/-- the same for the sparse solver (`qxx`, `qbb` delegate to the envelope solver on `AdjInputData`) -/
theorem netSparse_shape_cof (np : NetProblem K) (a : NetAnswer K) (h : netSparse np = .ok a) :
    ∃ hh s, prepare np = .ok hh ∧ envSolve (toProblem np) = .ok s ∧ s.xErr = none ∧
      a.qxx = s.qxx ∧ a.qbb = s.qbb ∧ a.defect = s.defect ∧ a.Ad = hh.Ad ∧ a.bd = hh.bd := by
  unfold netSparse at h
  cases hp : prepare np with
  | error e => rw [hp] at h; cases h
  | ok hh =>
    rw [hp] at h
    simp only at h
    cases hs : solverOf .env (toProblem np) with
    | error e => rw [hs] at h; cases h
    | ok s =>
      rw [hs] at h
      simp only at h
      cases hx : s.xErr with
      | some e => rw [hx] at h; cases h
      | none =>
        rw [hx] at h
        have ha := (Except.ok.inj h).symm
        subst ha
        exact ⟨hh, s, rfl, hs, hx, rfl, rfl, rfl, rfl, rfl⟩

/-- every algorithm reports the dense system of the ONE run of `prepareProjectEquations()` -/
theorem netSolve_hom (alg : Alg) (np : NetProblem K) (a : NetAnswer K) (h : netSolve alg np = .ok a) :
    ∃ hh, prepare np = .ok hh ∧ a.Ad = hh.Ad ∧ a.bd = hh.bd := by
  cases alg with
  | env => obtain ⟨hh, s, hp, -, -, -, -, -, e1, e2⟩ := netSparse_shape_cof np a h; exact ⟨hh, hp, e1, e2⟩
  | chol => obtain ⟨hh, s, hp, -, -, -, -, -, e1, e2⟩ := netFull_shape_cof .chol np a h; exact ⟨hh, hp, e1, e2⟩
  | gso => obtain ⟨hh, s, hp, -, -, -, -, -, e1, e2⟩ := netFull_shape_cof .gso np a h; exact ⟨hh, hp, e1, e2⟩
  | svd => obtain ⟨hh, s, hp, -, -, -, -, -, e1, e2⟩ := netFull_shape_cof .svd np a h; exact ⟨hh, hp, e1, e2⟩

/-- **the whitening of `prepareProjectEquations()`**, with its inverse: `W = L̃ᵀP`, `L̃ W = 1`,
    `WᵀW = P`, `(A_hom, b_hom) = (W A, W b)` (the content of `C01_net_prepare`) -/
theorem prepare_whiten (hsq : IsSqrt (SqrtFn.sq : K → K)) (np : NetProblem K) (hdim : (dimsN np).sum = np.m) (hrows : RowsOK (toProblem np))
    (P : Matrix (Fin (toProblem np).m) (Fin (toProblem np).m) K) (hP : (toProblem np).C * P = 1)
    (hh : Hom K) (hp : prepare np = .ok hh) :
    Lgen np hh.Us * ((Lgen np hh.Us)ᵀ * P) = 1 ∧
    ((Lgen np hh.Us)ᵀ * P)ᵀ * ((Lgen np hh.Us)ᵀ * P) = P ∧
    (∀ d, ((Lgen np hh.Us)ᵀ * P) *ᵥ d = 0 → d = 0) ∧
    toMatrix (toProblem np).m (toProblem np).n hh.Ad = ((Lgen np hh.Us)ᵀ * P) * (toProblem np).A ∧
    toVec (toProblem np).m hh.bd = ((Lgen np hh.Us)ᵀ * P) *ᵥ (toProblem np).b := by
  have hdim' : (dimsOf (toProblem np)).sum = (toProblem np).m := by rw [dimsOf_toProblem]; exact hdim
  obtain ⟨hF, _, _⟩ := prepare_ok np hh hp
  have hC : Lgen np hh.Us * (Lgen np hh.Us)ᵀ = (toProblem np).C := by
    rw [← Cadj_eq_C (toProblem np) hdim']; exact Lgen_mul_transpose hsq np hdim hh.Us hF
  obtain ⟨hLA, hLb⟩ := prepare_solve hsq np hdim hh hp
  rw [denseA_eq np hrows] at hLA
  have h1 : Lgen np hh.Us * ((Lgen np hh.Us)ᵀ * P) = 1 := by rw [← Matrix.mul_assoc, hC, hP]
  have h2 := mul_eq_one_comm.1 h1
  refine ⟨h1, whiten_of_chol hC.symm h2 hP, ?_, ?_, ?_⟩
  · intro d hd
    have : Lgen np hh.Us *ᵥ (((Lgen np hh.Us)ᵀ * P) *ᵥ d) = d := by rw [mulVec_mulVec, h1, one_mulVec]
    rw [← this, hd, mulVec_zero]
  · rw [← hLA, ← Matrix.mul_assoc, h2, Matrix.one_mul]
  · rw [← hLb, mulVec_mulVec, h2, one_mulVec]

/-- the conclusion shared by all algorithms: with `W` THE whitening of `prepareProjectEquations()`
    (`WᵀW = P`, injective, `(A_hom, b_hom) = (W A, W b)` — the dense system the probe reads), the accessors
    `qxx`, `qbb` of the answer satisfy `CofFacts` for the ORIGINAL design matrix -/
def NetCof (np : NetProblem K) (P : Matrix (Fin (toProblem np).m) (Fin (toProblem np).m) K) (a : NetAnswer K) : Prop :=
  ∃ (W : Matrix (Fin (toProblem np).m) (Fin (toProblem np).m) K)
    (Q : Matrix (Fin (toProblem np).n) (Fin (toProblem np).n) K)
    (B : Matrix (Fin (toProblem np).m) (Fin (toProblem np).m) K),
    Wᵀ * W = P ∧ (∀ d, W *ᵥ d = 0 → d = 0) ∧
    toMatrix (toProblem np).m (toProblem np).n a.Ad = W * (toProblem np).A ∧
    toVec (toProblem np).m a.bd = W *ᵥ (toProblem np).b ∧
    CofFacts a.qxx a.qbb a.defect (toProblem np).A W (toProblem np).S Q B

/-- `NetCof` written out (the form `Props/C03/Net.lean` states) -/
theorem NetCof.spell {np : NetProblem K} {P : Matrix (Fin (toProblem np).m) (Fin (toProblem np).m) K}
    {a : NetAnswer K} (h : NetCof np P a) :
    ∃ (W : Matrix (Fin (toProblem np).m) (Fin (toProblem np).m) K)
      (Q : Matrix (Fin (toProblem np).n) (Fin (toProblem np).n) K)
      (B : Matrix (Fin (toProblem np).m) (Fin (toProblem np).m) K),
      Wᵀ * W = P ∧ (∀ d, W *ᵥ d = 0 → d = 0) ∧
      toMatrix (toProblem np).m (toProblem np).n a.Ad = W * (toProblem np).A ∧
      toVec (toProblem np).m a.bd = W *ᵥ (toProblem np).b ∧
      (∀ i j : Fin (toProblem np).n, a.qxx (i.val + 1) (j.val + 1) = .ok (Q i j)) ∧
      (∀ i j : Fin (toProblem np).m, a.qbb (i.val + 1) (j.val + 1) = .ok (B i j)) ∧
      Qᵀ = Q ∧ (∀ y, 0 ≤ y ⬝ᵥ Q *ᵥ y) ∧
      ((toProblem np).Aᵀ * P * (toProblem np).A) * Q * ((toProblem np).Aᵀ * P * (toProblem np).A)
        = (toProblem np).Aᵀ * P * (toProblem np).A ∧
      Q * ((toProblem np).Aᵀ * P * (toProblem np).A) * Q = Q ∧
      BelongsTo (toProblem np).A (toProblem np).S Q ∧
      (a.defect = 0 → Q = ((toProblem np).Aᵀ * P * (toProblem np).A)⁻¹) ∧
      B = toMatrix (toProblem np).m (toProblem np).n a.Ad * Q * (toMatrix (toProblem np).m (toProblem np).n a.Ad)ᵀ ∧
      Bᵀ = B ∧ B * B = B ∧ (∀ i, 0 ≤ B i i ∧ B i i ≤ 1) ∧
      ∑ i, (1 - B i i) = ((toProblem np).m : K) - (toProblem np).n + a.defect ∧
      a.defect + (toProblem np).A.rank = (toProblem np).n := by
  obtain ⟨W, Q, B, hW, hinj, hA, hb, hf⟩ := h
  obtain ⟨n1, n2⟩ := hf.nqn' hW
  obtain ⟨p1, p2⟩ := hf.hat_proj
  exact ⟨W, Q, B, hW, hinj, hA, hb, hf.qxx, hf.qbb, hf.symm, hf.psd, n1, n2, hf.belongs,
    hf.inverse_of_regular hW hinj, by rw [hA]; exact hf.hat, p1, p2, hf.hat_diag, hf.redundancy, hf.defect_rank⟩

/-- **cofactors through `LocalNetwork`, full solvers (gso, svd, cholesky)**, generic in the solver: if
    the solver's accessors satisfy `CofFacts` for the whitened unit-weight system it is given, the
    network's accessors satisfy them for the original system -/
theorem net_cofFacts_full (hsq : IsSqrt (SqrtFn.sq : K → K)) (alg : Alg) (halg : alg ≠ .env) (np : NetProblem K)
    (hdim : (dimsN np).sum = np.m) (hrows : RowsOK (toProblem np))
    (P : Matrix (Fin (toProblem np).m) (Fin (toProblem np).m) K) (hP : (toProblem np).C * P = 1)
    (hfacts : ∀ hh s, prepare np = .ok hh → solverOf alg (Net.dotProblem np hh) = .ok s →
      ∃ Q B, CofFacts s.qxx s.qbb s.defect (Net.dotProblem np hh).A 1 (Net.dotProblem np hh).S Q B)
    (a : NetAnswer K) (h : netSolve alg np = .ok a) : NetCof np P a := by
  have h' : netFull alg np = .ok a := by
    cases alg with
    | env => exact absurd rfl halg
    | chol => exact h
    | gso => exact h
    | svd => exact h
  obtain ⟨hh, s, hp, hs, -, eqx, eqb, edef, eAd, ebd⟩ := netFull_shape_cof alg np a h'
  obtain ⟨h1, hW, hinj, hA, hb⟩ := prepare_whiten hsq np hdim hrows P hP hh hp
  obtain ⟨Q, B, hf⟩ := hfacts hh s hp hs
  have e1 : (Net.dotProblem np hh).A = ((Lgen np hh.Us)ᵀ * P) * (toProblem np).A := by
    unfold Net.dotProblem; rw [dotProblem_A, hA]
  have e3 : (Net.dotProblem np hh).S = (toProblem np).S := rfl
  rw [e1, e3] at hf
  refine ⟨(Lgen np hh.Us)ᵀ * P, Q, B, hW, hinj, by rw [eAd]; exact hA, by rw [ebd]; exact hb, ?_⟩
  rw [eqx, eqb, edef]
  exact hf.whiten h1

/-- **cofactors through `LocalNetwork` + cholesky** -/
theorem net_cofFacts_chol (hsq : IsSqrt (SqrtFn.sq : K → K)) (np : NetProblem K)
    (hdim : (dimsN np).sum = np.m) (hrows : RowsOK (toProblem np))
    (P : Matrix (Fin (toProblem np).m) (Fin (toProblem np).m) K) (hP : (toProblem np).C * P = 1)
    (hchol : ∀ hh, prepare np = .ok hh →
      Chol.UnambiguousF (cholFact (Net.dotProblem np hh)) ∧ Chol.GsSqrtExact (Net.dotProblem np hh) ∧
      ∀ S, Chol.regList np.n (.subset np.minx) = some S → S.Nodup)
    (a : NetAnswer K) (h : netSolve .chol np = .ok a) : NetCof np P a := by
  refine net_cofFacts_full hsq .chol (by decide) np hdim hrows P hP ?_ a h
  intro hh s hp hs
  obtain ⟨c1, c2, c3⟩ := hchol hh hp
  exact cofFacts_chol (Net.dotProblem np hh) c1 c2 c3 s hs

/-- **cofactors through `LocalNetwork` + envelope**: the envelope solver homogenises the handed-over
    system itself; by `homogenize_eq_prepare` that is the system of `prepareProjectEquations()`, so its
    `q_bb` is the hat matrix of the same `W A` -/
theorem net_cofFacts_env (hsq : IsSqrt (SqrtFn.sq : K → K)) (np : NetProblem K)
    (hdim : (dimsN np).sum = np.m) (hrows : RowsOK (toProblem np))
    (P : Matrix (Fin (toProblem np).m) (Fin (toProblem np).m) K) (hP : (toProblem np).C * P = 1)
    (hreg : Env.RegListOK (toProblem np)) (hU : Env.SolveUnambiguous (toProblem np))
    (a : NetAnswer K) (h : netSolve .env np = .ok a) : NetCof np P a := by
  obtain ⟨hh, s, hp, hs, hx, eqx, eqb, edef, eAd, ebd⟩ := netSparse_shape_cof np a h
  obtain ⟨h1, hW, hinj, hA, hb⟩ := prepare_whiten hsq np hdim hrows P hP hh hp
  obtain ⟨he, hhe, -⟩ := envSolve_shape (toProblem np) s hs
  obtain ⟨eAt, -⟩ := homogenize_eq_prepare hsq np hdim hrows P hP hh hp he hhe
  obtain ⟨Q, B, hf⟩ := cofFacts_env hsq (toProblem np) (inputOK np hdim hrows) hreg hU P hP s hs hx he hhe
    ((Lgen np hh.Us)ᵀ * P) hW (eAt.trans hA)
  refine ⟨(Lgen np hh.Us)ᵀ * P, Q, B, hW, hinj, by rw [eAd]; exact hA, by rw [ebd]; exact hb, ?_⟩
  rw [eqx, eqb, edef]
  exact hf

end netFn

section netField
variable {K : Type} [Field K] [LinearOrder K] [IsStrictOrderedRing K] [Gso.SqrtField K]
attribute [local instance] sqrtFnOfSqrtField
attribute [local instance 2000] scalarOfField

/-- the property's premise "rank numerically unambiguous" (and the static condition on the list
    `min_x_`), per algorithm, asked of the system the solver object is actually given — exactly the
    hypotheses of `C01_net_envelope`, `C01_net_cholesky`, `C01_net_gso`, `C01_net_svd_cert` -/
def SolverHyp (alg : Alg) (np : NetProblem K) : Prop :=
  match alg with
  | .env => Env.RegListOK (toProblem np) ∧ Env.SolveUnambiguous (toProblem np)
  | .chol => ∀ hh, prepare np = .ok hh →
      Chol.UnambiguousF (cholFact (Net.dotProblem np hh)) ∧ Chol.GsSqrtExact (Net.dotProblem np hh) ∧
      ∀ S, Chol.regList np.n (.subset np.minx) = some S → S.Nodup
  | .gso => ∀ hh, prepare np = .ok hh → Gso.Unambiguous (Net.dotProblem np hh)
  | .svd => np.minx.Nodup ∧ ∀ hh d, prepare np = .ok hh →
      Svd.decompose np.m np.n (Net.dotProblem np hh).dense = .ok d →
      Svd.SvdCert (Gso.SqrtField.sqrt : K → K) Svd.wTol np.m np.n (Net.dotProblem np hh).dense d

/-- **cofactors through `LocalNetwork`, all four algorithms** -/
theorem net_cofFacts (alg : Alg) (np : NetProblem K) (hdim : (dimsN np).sum = np.m)
    (hrows : RowsOK (toProblem np))
    (P : Matrix (Fin (toProblem np).m) (Fin (toProblem np).m) K) (hP : (toProblem np).C * P = 1)
    (hyp : SolverHyp alg np) (a : NetAnswer K) (h : netSolve alg np = .ok a) : NetCof np P a := by
  have hsq : IsSqrt (SqrtFn.sq : K → K) := isSqrt_of_sqrtField
  cases alg with
  | env => exact net_cofFacts_env hsq np hdim hrows P hP hyp.1 hyp.2 a h
  | chol => exact net_cofFacts_chol hsq np hdim hrows P hP hyp a h
  | gso =>
    refine net_cofFacts_full hsq .gso (by decide) np hdim hrows P hP ?_ a h
    intro hh s hp hs
    exact cofFacts_gso (Net.dotProblem np hh) (hyp hh hp) s hs
  | svd =>
    refine net_cofFacts_full hsq .svd (by decide) np hdim hrows P hP ?_ a h
    intro hh s hp hs
    exact cofFacts_svd (Net.dotProblem np hh) hyp.1 (fun d hd => hyp.2 hh d hp hd) s hs

end netField

end Net
end Gama.Ls
