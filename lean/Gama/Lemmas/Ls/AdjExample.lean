/-
  Concrete instance for the non-vacuity examples of Props/C01/Adj.lean and Props/C03/Adj.lean:
  a 3×2 problem over ℚ with a correlated 2×2 block `[[4,2],[2,10]] = [[2,0],[1,3]]·[[2,0],[1,3]]ᵀ`
  and a third observation of variance 1/4; the pivots of the band `L D Lᵀ` are 4, 9 and 1/4, on
  which `Ex.sqQ` is the exact square root.
-/
import Gama.Lemmas.Ls.AdjFacade
import Gama.Lemmas.Ls.CholExample

namespace Gama.Ls.Ex
open Gama.Ls Gama.Ls.AdjM Gama.Ls.Dn
attribute [local instance 2000] scalarOfField

def pCorr : Problem ℚ :=
  { m := 3, n := 2
    rows := #[#[(1, 1)], #[(1, 1), (2, 1)], #[(2, 2)]]
    cov := #[⟨2, 1, #[4, 2, 10]⟩, ⟨1, 0, #[1/4]⟩]
    rhs := #[1, 2, 3]
    reg := .none }

/-- the weight matrix of `pCorr`: inverse of `diag([[4,2],[2,10]], 1/4)` -/
def PCorr : Matrix (Fin pCorr.m) (Fin pCorr.m) ℚ :=
  (!![5/18, -1/18, 0; -1/18, 1/9, 0; 0, 0, 4] : Matrix (Fin 3) (Fin 3) ℚ)

theorem sqrtExact_of_eval (b : CovBlock ℚ)
    (h : (ldl b.dim (blockDense b)).toOption.map
      (fun a' => (List.range b.dim).all fun k => decide (sqQ (mget a' k k) * sqQ (mget a' k k) = mget a' k k))
        = some true) : SqrtExact b := by
  intro a' hl k hk
  rw [hl] at h
  simp only [Except.toOption, Option.map_some, Option.some.injEq, List.all_eq_true, List.mem_range,
    decide_eq_true_eq] at h
  exact h k hk

theorem pCorr_sqrt : SqrtExactP pCorr := by
  intro b hb
  have : b = ⟨2, 1, #[4, 2, 10]⟩ ∨ b = ⟨1, 0, #[1/4]⟩ := by
    simpa [pCorr] using hb
  rcases this with rfl | rfl
  · exact sqrtExact_of_eval _ (by decide +kernel)
  · exact sqrtExact_of_eval _ (by decide +kernel)

theorem pCorr_rows : RowsOK pCorr := by
  apply RowsOK.of_nodup
  intro i hi
  have : i = 0 ∨ i = 1 ∨ i = 2 := by have : i < 3 := hi; omega
  rcases this with rfl | rfl | rfl <;> simp [pCorr, Array.getD]

theorem pCorr_weight : Cadj pCorr * PCorr = 1 := by
  show (Cadj pCorr * PCorr : Matrix (Fin 3) (Fin 3) ℚ) = 1
  decide +kernel

end Gama.Ls.Ex
