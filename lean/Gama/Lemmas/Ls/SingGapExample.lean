/-
  Non-vacuity of the input-side svd hypothesis `SingGap` (Lemmas/Ls/SingGap.lean):

    `Ex.pCVdot` over ℝ  (`A = [[6,8],[3,4],[6,8]]`, RANK 1, unit weights)  —  `AᵀA = [[81,108],[108,144]]`
    has exactly the eigenvalues `0` (vector (4,−3)) and `225` (vector (3,4)); singular values `0`, `15`.
    `SingGap` holds for every `τ` with `τ² < 1`, in particular at the model's own `Svd.wTol`;
    it FAILS for `τ = 1` (the condition is not trivially true).

    `Ex.pCV` (correlated block `[[4,2],[2,10]]` + variance 4, `A = [[12,16],[15,20],[12,16]]`) with its
    weight matrix `Ex.PCV`: `SingGap pCV.A PCV τ` — by `SingGap.whiten`, the homogenised system IS `pCVdot`.
-/
import Gama.Lemmas.Ls.SingGap
import Gama.Lemmas.Ls.SvdDecompJoint
import Gama.Lemmas.Ls.Gap2Facade

namespace Gama.Ls.Ex
open Matrix Gama Gama.LS Gama.Ls Gama.Ls.AdjM
attribute [local instance] sqrtFnOfSqrtField
attribute [local instance 2000] scalarOfField

set_option linter.unusedSectionVars false

/-- the normal matrix of `pCVdot` -/
theorem pCVdot_gram : pCVdot.Aᵀ * (1 : Matrix (Fin pCVdot.m) (Fin pCVdot.m) ℝ) * pCVdot.A
    = (!![81, 108; 108, 144] : Matrix (Fin 2) (Fin 2) ℝ) := by
  have e : (!![6, 8; 3, 4; 6, 8] : Matrix (Fin 3) (Fin 2) ℝ)ᵀ * (!![6, 8; 3, 4; 6, 8] : Matrix (Fin 3) (Fin 2) ℝ)
      = (!![81, 108; 108, 144] : Matrix (Fin 2) (Fin 2) ℝ) := by
    ext i j
    fin_cases i <;> fin_cases j <;> simp [Matrix.mul_apply, Fin.sum_univ_three] <;> norm_num
  rw [Matrix.mul_one, pCVdot_A]
  exact e

/-- its eigenvalues are `0` and `225` — nothing else -/
theorem pCVdot_eig (lam : ℝ) (h : IsEig (!![81, 108; 108, 144] : Matrix (Fin 2) (Fin 2) ℝ) lam) :
    lam = 0 ∨ lam = 225 := by
  obtain ⟨v, hv, he⟩ := h
  have e0 := congrFun he 0
  have e1 := congrFun he 1
  simp [Matrix.mulVec, dotProduct, Fin.sum_univ_two] at e0 e1
  by_contra hn
  rw [not_or] at hn
  apply hv
  have h43 : 4 * v 0 = 3 * v 1 := by
    have h : lam * (4 * v 0 - 3 * v 1) = 0 := by
      have : lam * (4 * v 0 - 3 * v 1) = 4 * (lam * v 0) - 3 * (lam * v 1) := by ring
      rw [this, ← e0, ← e1]; ring
    rcases mul_eq_zero.1 h with h | h
    · exact absurd h hn.1
    · linarith
  have h0 : v 0 = 0 := by
    have h : (lam - 225) * v 0 = 0 := by
      have : (lam - 225) * v 0 = lam * v 0 - 225 * v 0 := by ring
      rw [this, ← e0]; linarith
    rcases mul_eq_zero.1 h with h | h
    · exact absurd (by linarith) hn.2
    · exact h
  have h1 : v 1 = 0 := by linarith
  funext i
  fin_cases i
  · exact h0
  · exact h1

/-- … and both occur: `0` with (4, −3) (the rank defect), `225 = 15²` with (3, 4) -/
theorem pCVdot_eig_both : IsEig (!![81, 108; 108, 144] : Matrix (Fin 2) (Fin 2) ℝ) 0
    ∧ IsEig (!![81, 108; 108, 144] : Matrix (Fin 2) (Fin 2) ℝ) 225 := by
  constructor
  · refine ⟨![4, -3], fun h => ?_, ?_⟩
    · have := congrFun h 0; simp at this
    · funext i; fin_cases i <;> simp [Matrix.mulVec, dotProduct, Fin.sum_univ_two] <;> norm_num
  · refine ⟨![3, 4], fun h => ?_, ?_⟩
    · have := congrFun h 0; simp at this
    · funext i; fin_cases i <;> simp [Matrix.mulVec, dotProduct, Fin.sum_univ_two] <;> norm_num

/-- **`Ex.pCVdot` (rank 1) satisfies the input-side hypothesis** for every `τ² < 1` -/
theorem pCVdot_singGap {τ : ℝ} (hτ : τ * τ < 1) :
    SingGap pCVdot.A (1 : Matrix (Fin pCVdot.m) (Fin pCVdot.m) ℝ) τ := by
  intro lam mu hl hm
  rw [pCVdot_gram] at hl hm
  rcases pCVdot_eig lam hl with rfl | rfl
  · exact Or.inl rfl
  · right
    rcases pCVdot_eig mu hm with rfl | rfl
    · norm_num
    · nlinarith

/-- the tolerance of the model of `set_inv_W` is admissible: `W_tol² < 1` -/
theorem wTol_sq_lt_one : (Svd.wTol : ℝ) * Svd.wTol < 1 := by
  have h0 : (0 : ℝ) ≤ Svd.wTol := Svd.wTol_nonneg
  have h1 : (Svd.wTol : ℝ) ≤ 1 / 100 := Svd.wTol_le
  nlinarith

/-- … in particular at the model's own tolerance `Svd.wTol` -/
theorem pCVdot_singGap_wTol : SingGap pCVdot.A (1 : Matrix (Fin pCVdot.m) (Fin pCVdot.m) ℝ) (Svd.wTol : ℝ) :=
  pCVdot_singGap wTol_sq_lt_one

/-- the condition is not trivially true: it fails on the same matrix for `τ = 1` -/
theorem pCVdot_not_singGap_one : ¬ SingGap pCVdot.A (1 : Matrix (Fin pCVdot.m) (Fin pCVdot.m) ℝ) (1 : ℝ) := by
  intro h
  have h225 := pCVdot_eig_both.2
  rw [← pCVdot_gram] at h225
  rcases h 225 225 h225 h225 with h0 | hgt
  · norm_num at h0
  · norm_num at hgt

/-- **the weighted problem `Ex.pCV`** (correlated observations) satisfies `SingGap pCV.A PCV τ`: its
    homogenised system is `pCVdot` -/
theorem pCV_singGap {τ : ℝ} (hτ : τ * τ < 1) : SingGap pCV.A PCV τ := by
  obtain ⟨W, hW, -, hA, -⟩ := adj_dot_whitened pCV (sqrtExactP_of_sqrtField pCV) (by decide) PCV pCV_weight
    _ _ pCV_homogenise
  rw [SingGap.whiten hW, ← hA]
  exact pCVdot_singGap hτ

/-- the pivot gap of `pCVdot` at `τ = 1/2` (the first-stage hypothesis of envelope/cholesky/gso on the SAME
    matrix): the exact Schur pivots are 81 resp. 144 (first column processed) and 0 (second one) -/
theorem pCVdot_gapAll2 : GapAll (!![6, 8; 3, 4; 6, 8] : Matrix (Fin 3) (Fin 2) ℝ) (1 / 2 : ℝ) := by
  have hAt : ∀ (β : Fin 2 → ℝ) (j : Fin 2), ((!![6, 8; 3, 4; 6, 8] : Matrix (Fin 3) (Fin 2) ℝ)ᵀ *ᵥ
      ((!![6, 8; 3, 4; 6, 8] : Matrix (Fin 3) (Fin 2) ℝ) *ᵥ β)) j
      = if j = 0 then 81 * β 0 + 108 * β 1 else 108 * β 0 + 144 * β 1 := by
    intro β j
    fin_cases j <;> simp [Matrix.mulVec, dotProduct, Fin.sum_univ_two, Fin.sum_univ_three] <;> ring
  have hq : ∀ β : Fin 2 → ℝ, ((!![6, 8; 3, 4; 6, 8] : Matrix (Fin 3) (Fin 2) ℝ) *ᵥ β) ⬝ᵥ
      ((!![6, 8; 3, 4; 6, 8] : Matrix (Fin 3) (Fin 2) ℝ) *ᵥ β) = 9 * ((3 * β 0 + 4 * β 1) * (3 * β 0 + 4 * β 1)) := by
    intro β
    simp [Matrix.mulVec, dotProduct, Fin.sum_univ_two, Fin.sum_univ_three]; ring
  intro k β hk horth
  rw [hq]
  fin_cases k
  · have hk' : β 0 = 1 := hk
    by_cases h1 : β 1 = 0
    · right; rw [hk', h1]; norm_num
    · left
      have := horth 1 (by decide) h1
      rw [hAt] at this
      simp at this
      have e : 3 * β 0 + 4 * β 1 = 0 := by linarith
      rw [e]; ring
  · have hk' : β 1 = 1 := hk
    by_cases h0 : β 0 = 0
    · right; rw [hk', h0]; norm_num
    · left
      have := horth 0 (by decide) h0
      rw [hAt] at this
      simp at this
      have e : 3 * β 0 + 4 * β 1 = 0 := by linarith
      rw [e]; ring

theorem pCVdot_gapAll : GapAll pCVdot.A (1 / 2 : ℝ) := by
  rw [pCVdot_A]
  exact pCVdot_gapAll2

end Gama.Ls.Ex
